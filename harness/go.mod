module verif/harness

go 1.22

toolchain go1.22.2

require (
	github.com/AliceO2Group/Control v0.0.0
	github.com/anishathalye/porcupine v1.3.0
	github.com/mesos/mesos-go v0.0.11
	github.com/rs/xid v1.5.0
	github.com/segmentio/kafka-go v0.4.47
	github.com/sirupsen/logrus v1.9.3
	github.com/spf13/viper v1.18.2
	github.com/teo/logrus-prefixed-formatter v0.5.3-0.20230717095749-669d57324f0a
	google.golang.org/grpc v1.62.1
	google.golang.org/protobuf v1.34.1
	gopkg.in/yaml.v3 v3.0.1
)

require (
	dario.cat/mergo v1.0.1 // indirect
	github.com/KyleBanks/depth v1.2.1 // indirect
	github.com/ProtonMail/go-crypto v1.1.3 // indirect
	github.com/armon/go-metrics v0.5.3 // indirect
	github.com/beorn7/perks v1.0.1 // indirect
	github.com/cespare/xxhash/v2 v2.2.0 // indirect
	github.com/cloudflare/circl v1.3.7 // indirect
	github.com/cyphar/filepath-securejoin v0.2.5 // indirect
	github.com/denisbrodbeck/machineid v1.0.1 // indirect
	github.com/emirpasic/gods v1.18.1 // indirect
	github.com/expr-lang/expr v1.17.0 // indirect
	github.com/fatih/color v1.16.0 // indirect
	github.com/flosch/pongo2/v6 v6.0.0 // indirect
	github.com/fsnotify/fsnotify v1.7.0 // indirect
	github.com/go-git/gcfg v1.5.1-0.20230307220236-3a3c6141e376 // indirect
	github.com/go-git/go-billy/v5 v5.6.0 // indirect
	github.com/go-git/go-git/v5 v5.13.0 // indirect
	github.com/go-openapi/jsonpointer v0.21.0 // indirect
	github.com/go-openapi/jsonreference v0.21.0 // indirect
	github.com/go-openapi/spec v0.21.0 // indirect
	github.com/go-openapi/swag v0.23.0 // indirect
	github.com/gobwas/glob v0.2.3 // indirect
	github.com/gogo/protobuf v1.3.2 // indirect
	github.com/golang/groupcache v0.0.0-20210331224755-41bb18bfe9da // indirect
	github.com/golang/protobuf v1.5.4 // indirect
	github.com/google/uuid v1.6.0 // indirect
	github.com/gorilla/mux v1.8.1 // indirect
	github.com/hashicorp/consul/api v1.28.2 // indirect
	github.com/hashicorp/errwrap v1.1.0 // indirect
	github.com/hashicorp/go-cleanhttp v0.5.2 // indirect
	github.com/hashicorp/go-hclog v1.6.2 // indirect
	github.com/hashicorp/go-immutable-radix v1.3.1 // indirect
	github.com/hashicorp/go-multierror v1.1.1 // indirect
	github.com/hashicorp/go-rootcerts v1.0.2 // indirect
	github.com/hashicorp/golang-lru v1.0.2 // indirect
	github.com/hashicorp/hcl v1.0.0 // indirect
	github.com/hashicorp/serf v0.10.1 // indirect
	github.com/iancoleman/strcase v0.3.0 // indirect
	github.com/jbenet/go-context v0.0.0-20150711004518-d14ea06fba99 // indirect
	github.com/jinzhu/copier v0.4.0 // indirect
	github.com/josharian/intern v1.0.0 // indirect
	github.com/k0kubun/pp v3.0.1+incompatible // indirect
	github.com/kevinburke/ssh_config v1.2.0 // indirect
	github.com/klauspost/compress v1.17.7 // indirect
	github.com/looplab/fsm v1.0.1 // indirect
	github.com/magiconair/properties v1.8.7 // indirect
	github.com/mailru/easyjson v0.7.7 // indirect
	github.com/mattn/go-colorable v0.1.13 // indirect
	github.com/mattn/go-isatty v0.0.20 // indirect
	github.com/mgutz/ansi v0.0.0-20200706080929-d51e80ef957d // indirect
	github.com/mitchellh/mapstructure v1.5.0 // indirect
	github.com/osamingo/base58 v1.0.0 // indirect
	github.com/osamingo/indigo v1.1.1 // indirect
	github.com/pborman/uuid v1.2.1 // indirect
	github.com/pelletier/go-toml/v2 v2.1.1 // indirect
	github.com/pierrec/lz4/v4 v4.1.21 // indirect
	github.com/pjbgf/sha1cd v0.3.0 // indirect
	github.com/pquerna/ffjson v0.0.0-20190930134022-aa0246cd15f7 // indirect
	github.com/prometheus/client_golang v1.19.0 // indirect
	github.com/prometheus/client_model v0.6.0 // indirect
	github.com/prometheus/common v0.50.0 // indirect
	github.com/prometheus/procfs v0.13.0 // indirect
	github.com/sagikazarmark/slog-shim v0.1.0 // indirect
	github.com/sergi/go-diff v1.3.2-0.20230802210424-5b0b94c5c0d3 // indirect
	github.com/skeema/knownhosts v1.3.0 // indirect
	github.com/sony/sonyflake v1.2.0 // indirect
	github.com/spf13/afero v1.11.0 // indirect
	github.com/spf13/cast v1.6.0 // indirect
	github.com/spf13/pflag v1.0.5 // indirect
	github.com/subosito/gotenv v1.6.0 // indirect
	github.com/swaggo/files/v2 v2.0.0 // indirect
	github.com/swaggo/http-swagger/v2 v2.0.2 // indirect
	github.com/swaggo/swag v1.16.3 // indirect
	github.com/valyala/bytebufferpool v1.0.0 // indirect
	github.com/valyala/fasttemplate v1.2.2 // indirect
	github.com/xanzy/ssh-agent v0.3.3 // indirect
	golang.org/x/crypto v0.31.0 // indirect
	golang.org/x/exp v0.0.0-20240719175910-8a7402abbf56 // indirect
	golang.org/x/net v0.33.0 // indirect
	golang.org/x/sync v0.10.0 // indirect
	golang.org/x/sys v0.28.0 // indirect
	golang.org/x/term v0.27.0 // indirect
	golang.org/x/text v0.21.0 // indirect
	golang.org/x/tools v0.23.0 // indirect
	google.golang.org/genproto/googleapis/rpc v0.0.0-20240318140521-94a12d6c2237 // indirect
	gopkg.in/ini.v1 v1.67.0 // indirect
	gopkg.in/warnings.v0 v0.1.2 // indirect
)

replace github.com/AliceO2Group/Control => /repo

replace github.com/coreos/bbolt => go.etcd.io/bbolt v1.3.6

replace github.com/imdario/mergo => github.com/imdario/mergo v0.3.16

replace github.com/armon/go-metrics => github.com/hashicorp/go-metrics v0.5.3
