package coresim

import (
	"fmt"
	"sort"
	"strings"
)

// TaskSpec describes one task role of a generated workflow and its template.
type TaskSpec struct {
	Name     string // role name (unique in the workflow); the template is tasks/<wf>-<name>.yaml
	Host     string // machine_id constraint ("" = none)
	Critical bool
	Mode     string // basic | direct | fairmq
	CPU, Mem float64
	Ports    string   // wants.ports expression ("" = none)
	Bind     []string // YAML fragments (already indented by 2) for template-level bind
	Connect  []string // YAML fragments for role-level connect
	RoleBind []string // role-level bind fragments
	// hook traits (task used as hook)
	Trigger, Await, Timeout string
	// extra YAML lines for the role (indented by 4) and for the template (indent 0)
	RoleExtra     string
	TemplateExtra string
	Constraints   map[string]string // extra attribute constraints at role level
	Defaults      map[string]string // template defaults
	Vars          map[string]string // role vars
	Args          []string
}

// CallSpec describes one call role.
type CallSpec struct {
	Name     string
	Func     string // e.g. verif.Probe()
	Trigger  string
	Await    string
	Timeout  string
	Critical bool
	Vars     map[string]string
}

type WorkflowSpec struct {
	Name      string
	Hosts     []string // value of the root `hosts` default (JSON list) → detectors of the environment
	Tasks     []TaskSpec
	Calls     []CallSpec
	Vars      map[string]string
	Defaults  map[string]string
	RootExtra string
}

func yamlMap(indent string, m map[string]string) string {
	if len(m) == 0 {
		return ""
	}
	ks := make([]string, 0, len(m))
	for k := range m {
		ks = append(ks, k)
	}
	sort.Strings(ks)
	var sb strings.Builder
	for _, k := range ks {
		fmt.Fprintf(&sb, "%s%s: %q\n", indent, k, m[k])
	}
	return sb.String()
}

func jsonList(xs []string) string {
	q := make([]string, len(xs))
	for i, x := range xs {
		q[i] = fmt.Sprintf("%q", x)
	}
	return "[" + strings.Join(q, ",") + "]"
}

// Files renders the workflow and its task templates.
func (w WorkflowSpec) Files() map[string]string {
	files := map[string]string{}
	var sb strings.Builder
	fmt.Fprintf(&sb, "name: %s\n", w.Name)
	defaults := map[string]string{}
	for k, v := range w.Defaults {
		defaults[k] = v
	}
	if _, ok := defaults["hosts"]; !ok {
		defaults["hosts"] = jsonList(w.Hosts)
	}
	sb.WriteString("defaults:\n" + yamlMap("  ", defaults))
	if len(w.Vars) > 0 {
		sb.WriteString("vars:\n" + yamlMap("  ", w.Vars))
	}
	sb.WriteString(w.RootExtra)
	sb.WriteString("roles:\n")
	for _, t := range w.Tasks {
		tname := w.Name + "-" + t.Name
		fmt.Fprintf(&sb, "  - name: %q\n", t.Name)
		cs := map[string]string{}
		for k, v := range t.Constraints {
			cs[k] = v
		}
		if t.Host != "" {
			cs["machine_id"] = t.Host
		}
		if len(cs) > 0 {
			sb.WriteString("    constraints:\n")
			ks := make([]string, 0, len(cs))
			for k := range cs {
				ks = append(ks, k)
			}
			sort.Strings(ks)
			for _, k := range ks {
				fmt.Fprintf(&sb, "      - attribute: %s\n        value: %q\n", k, cs[k])
			}
		}
		if len(t.Vars) > 0 {
			sb.WriteString("    vars:\n" + yamlMap("      ", t.Vars))
		}
		if len(t.RoleBind) > 0 {
			sb.WriteString("    bind:\n")
			for _, b := range t.RoleBind {
				sb.WriteString(b)
			}
		}
		if len(t.Connect) > 0 {
			sb.WriteString("    connect:\n")
			for _, c := range t.Connect {
				sb.WriteString(c)
			}
		}
		sb.WriteString(t.RoleExtra)
		fmt.Fprintf(&sb, "    task:\n      load: %s\n      critical: %v\n", tname, t.Critical)
		if t.Trigger != "" {
			fmt.Fprintf(&sb, "      trigger: %s\n", t.Trigger)
			if t.Await != "" {
				fmt.Fprintf(&sb, "      await: %s\n", t.Await)
			}
			to := t.Timeout
			if to == "" {
				to = "10s"
			}
			fmt.Fprintf(&sb, "      timeout: %s\n", to)
		}
		// template
		var tb strings.Builder
		fmt.Fprintf(&tb, "name: %s\n", tname)
		if len(t.Defaults) > 0 {
			tb.WriteString("defaults:\n" + yamlMap("  ", t.Defaults))
		}
		mode := t.Mode
		if mode == "" {
			mode = "direct"
		}
		fmt.Fprintf(&tb, "control:\n  mode: %s\n", mode)
		cpu, mem := t.CPU, t.Mem
		if cpu == 0 {
			cpu = 0.1
		}
		if mem == 0 {
			mem = 32
		}
		fmt.Fprintf(&tb, "wants:\n  cpu: %g\n  memory: %g\n", cpu, mem)
		if t.Ports != "" {
			fmt.Fprintf(&tb, "  ports: %q\n", t.Ports)
		}
		if len(t.Bind) > 0 {
			tb.WriteString("bind:\n")
			for _, b := range t.Bind {
				tb.WriteString(b)
			}
		}
		tb.WriteString(t.TemplateExtra)
		tb.WriteString("command:\n  shell: true\n  env:\n    - \"VERIF_ROLE={{ task_parent_role }}\"\n")
		if len(t.Args) > 0 {
			tb.WriteString("  arguments:\n")
			for _, a := range t.Args {
				fmt.Fprintf(&tb, "    - %q\n", a)
			}
		}
		tb.WriteString("  value: \"sleep 100000\"\n")
		files["tasks/"+tname+".yaml"] = tb.String()
	}
	for _, c := range w.Calls {
		fmt.Fprintf(&sb, "  - name: %q\n", c.Name)
		if len(c.Vars) > 0 {
			sb.WriteString("    vars:\n" + yamlMap("      ", c.Vars))
		}
		to := c.Timeout
		if to == "" {
			to = "10s"
		}
		fmt.Fprintf(&sb, "    call:\n      func: %s\n      trigger: %s\n      timeout: %s\n      critical: %v\n", c.Func, c.Trigger, to, c.Critical)
		if c.Await != "" {
			fmt.Fprintf(&sb, "      await: %s\n", c.Await)
		}
	}
	if len(w.Tasks)+len(w.Calls) == 0 {
		// replace "roles:\n" by an empty list
		s := sb.String()
		s = strings.TrimSuffix(s, "roles:\n") + "roles: []\n"
		files["workflows/"+w.Name+".yaml"] = s
		return files
	}
	files["workflows/"+w.Name+".yaml"] = sb.String()
	return files
}
