// Package coresim runs the real core (bin/vcore: core.NewConfig+core.Run) as a
// child process against the simulators of this module (fake Consul, fake Mesos
// master with scripted executors) and gives the driver a gRPC client plus the
// three observation logs: master/executor records, published events, plugin
// records.
package coresim

import (
	"bufio"
	"context"
	"encoding/json"
	"fmt"
	"net"
	"os"
	"os/exec"
	"path/filepath"
	"strings"
	"sync"
	"syscall"
	"time"

	"google.golang.org/grpc"
	"google.golang.org/grpc/credentials/insecure"

	pb "github.com/AliceO2Group/Control/core/protos"

	"verif/harness/sim/consul"
	simmesos "verif/harness/sim/mesos"
	"verif/harness/verifplugin"
)

type Options struct {
	Agents     []*simmesos.Agent
	Detectors  map[string][]string // detector -> hosts
	Files      map[string]string   // repo-relative template files
	Settings   map[string]string   // extra lines for the core settings YAML (key: value)
	Vars       map[string]string   // o2/runtime/aliecs/vars
	Defaults   map[string]string   // o2/runtime/aliecs/defaults
	Env        []string            // extra environment for the core (e.g. VERIF_POINTS=...)
	ExtraFlags []string
	Dir        string // scratch dir (created if empty)
	KeepLogs   bool
}

type Sim struct {
	Opt     Options
	Consul  *consul.Server
	Master  *simmesos.Master
	Dir     string
	RepoDir string
	WorkDir string

	mu       sync.Mutex
	cmd      *exec.Cmd
	coreDone chan struct{}
	coreErr  error
	lives    int
	Port     int
	conn     *grpc.ClientConn
	Client   pb.ControlClient
	stderrF  *os.File
}

type Event struct {
	Seq   int64           `json:"seq"`
	TsNs  int64           `json:"ts_ns"`
	Topic string          `json:"topic"`
	Type  string          `json:"type"`
	Ev    json.RawMessage `json:"ev"`
	Life  int             `json:"-"`
}

func freePort() int {
	for i := 0; i < 50; i++ {
		l, err := net.Listen("tcp", "127.0.0.1:0")
		if err != nil {
			continue
		}
		p := l.Addr().(*net.TCPAddr).Port
		l.Close()
		if p >= 10000 && p <= 65000 {
			return p
		}
	}
	return 0
}

func gitInit(dir string) error {
	for _, args := range [][]string{
		{"init", "-q", "-b", "master"},
		{"add", "-A"},
		{"-c", "user.name=verif", "-c", "user.email=verif@example.invalid", "commit", "-q", "-m", "init"},
	} {
		cmd := exec.Command("git", args...)
		cmd.Dir = dir
		if out, err := cmd.CombinedOutput(); err != nil {
			return fmt.Errorf("git %v: %v: %s", args, err, out)
		}
	}
	return nil
}

// Start brings up the simulators and the first core life.
func Start(opt Options) (*Sim, error) {
	s := &Sim{Opt: opt}
	var err error
	s.Dir = opt.Dir
	if s.Dir == "" {
		s.Dir, err = os.MkdirTemp("", "coresim-")
		if err != nil {
			return nil, err
		}
	}
	s.RepoDir = filepath.Join(s.Dir, "repo")
	s.WorkDir = filepath.Join(s.Dir, "work")
	for _, d := range []string{filepath.Join(s.WorkDir, "repos"), filepath.Join(s.RepoDir, "workflows"), filepath.Join(s.RepoDir, "tasks")} {
		if err := os.MkdirAll(d, 0o755); err != nil {
			return nil, err
		}
	}
	for p, c := range opt.Files {
		fp := filepath.Join(s.RepoDir, p)
		os.MkdirAll(filepath.Dir(fp), 0o755)
		if err := os.WriteFile(fp, []byte(c), 0o644); err != nil {
			return nil, err
		}
	}
	if err := gitInit(s.RepoDir); err != nil {
		return nil, err
	}
	s.Consul = consul.New()
	if err := s.Consul.Start(); err != nil {
		return nil, err
	}
	settings := "enableKafka: false\nconfigCache: false\n"
	for k, v := range opt.Settings {
		settings += k + ": " + v + "\n"
	}
	s.Consul.Put("o2/components/aliecs/ANY/any/settings", settings)
	s.Consul.Put("o2/runtime/aliecs/default_repo", s.RepoDir)
	s.Consul.Put("o2/runtime/aliecs/vars/verif_core", "1")
	s.Consul.Put("o2/runtime/aliecs/defaults/verif_core_d", "1")
	for k, v := range opt.Vars {
		s.Consul.Put("o2/runtime/aliecs/vars/"+k, v)
	}
	for k, v := range opt.Defaults {
		s.Consul.Put("o2/runtime/aliecs/defaults/"+k, v)
	}
	for det, hosts := range opt.Detectors {
		for _, h := range hosts {
			s.Consul.Put("o2/hardware/detectors/"+det+"/flps/"+h+"/", "")
			s.Consul.Put("o2/hardware/flps/"+h+"/", "")
		}
	}
	s.Master = simmesos.NewMaster(opt.Agents)
	if err := s.Master.Start(); err != nil {
		return nil, err
	}
	err = s.StartCore()
	for attempt := 0; err != nil && attempt < 2; attempt++ {
		// a core that does not come up is a harness-level problem (loaded machine, port
		// stolen between probe and bind): dump, kill and try a fresh process
		fmt.Fprintf(os.Stderr, "coresim: core start attempt failed (%v), goroutines:\n%s\nretrying\n", err, s.DumpGoroutines())
		s.KillCore()
		s.mu.Lock()
		s.cmd = nil
		s.mu.Unlock()
		err = s.StartCore()
	}
	if err != nil {
		tail := ""
		if b, rerr := os.ReadFile(s.StderrPath()); rerr == nil {
			if len(b) > 3000 {
				b = b[len(b)-3000:]
			}
			tail = string(b)
		}
		dump := s.DumpGoroutines()
		s.Close()
		return nil, fmt.Errorf("%w; core stderr tail: %s; goroutines: %s", err, tail, dump)
	}
	return s, nil
}

func (s *Sim) eventLog() string  { return filepath.Join(s.Dir, "events.jsonl") }
func (s *Sim) pluginLog() string { return filepath.Join(s.Dir, "plugin.jsonl") }

// StderrPath is the core's stderr (all lives appended).
func (s *Sim) StderrPath() string { return filepath.Join(s.Dir, "core.stderr") }

// StartCore launches a core life and waits until it is subscribed and serving gRPC.
func (s *Sim) StartCore() error {
	s.mu.Lock()
	defer s.mu.Unlock()
	if s.cmd != nil {
		return fmt.Errorf("core already running")
	}
	bin := filepath.Join(os.Getenv("VERIF_BIN"), "vcore")
	if os.Getenv("VERIF_BIN") == "" {
		bin = "/verif/bin/vcore"
	}
	s.Port = freePort()
	mport := freePort()
	args := []string{
		"--mesosUrl", s.Master.URL(),
		"--configServiceUri", "consul://" + s.Consul.Addr,
		"--coreWorkingDir", s.WorkDir,
		"--controlPort", fmt.Sprint(s.Port),
		"--integrationPlugins", "verif,testplugin",
		"--metricsEndpoint", fmt.Sprintf("%d/ecsmetrics", mport),
		"--metrics.port", "0",
		"--executor", "/bin/true",
		"--mesosApiTimeout", "5s",
	}
	args = append(args, s.Opt.ExtraFlags...)
	cmd := exec.Command(bin, args...)
	cmd.Env = append(os.Environ(),
		"VERIF_EVENT_LOG="+s.eventLog(),
		"VERIF_PLUGIN_LOG="+s.pluginLog(),
		"O2_ROLE=verif",
	)
	cmd.Env = append(cmd.Env, s.Opt.Env...)
	if p := os.Getenv("VERIF_CORE_POINTS"); p != "" && !hasEnv(cmd.Env, "VERIF_POINTS") {
		cmd.Env = append(cmd.Env, "VERIF_POINTS="+p)
	}
	if !hasEnv(cmd.Env, "GORACE") {
		cmd.Env = append(cmd.Env, "GORACE=halt_on_error=0 log_path="+filepath.Join(s.Dir, "race"))
	}
	cmd.SysProcAttr = &syscall.SysProcAttr{Setpgid: true}
	f, err := os.OpenFile(s.StderrPath(), os.O_CREATE|os.O_WRONLY|os.O_APPEND, 0o644)
	if err != nil {
		return err
	}
	s.stderrF = f
	cmd.Stdout = f
	cmd.Stderr = f
	cmd.Dir = s.Dir
	if err := cmd.Start(); err != nil {
		return err
	}
	s.lives++
	fmt.Fprintf(f, "\n===== verif: core life %d pid %d =====\n", s.lives, cmd.Process.Pid)
	s.cmd = cmd
	done := make(chan struct{})
	s.coreDone = done
	go func() {
		err := cmd.Wait()
		close(done) // first: StartCore holds s.mu while it waits and selects on done
		s.mu.Lock()
		s.coreErr = err
		if s.cmd == cmd {
			s.cmd = nil
		}
		s.mu.Unlock()
	}()
	// wait for gRPC
	deadline := time.Now().Add(120 * time.Second) // generous: a loaded machine is not a verdict
	var conn *grpc.ClientConn
	for time.Now().Before(deadline) {
		select {
		case <-done:
			s.cmd = nil
			return fmt.Errorf("core exited during start-up (see %s)", s.StderrPath())
		default:
		}
		ctx, cancel := context.WithTimeout(context.Background(), 500*time.Millisecond)
		c, err := grpc.DialContext(ctx, fmt.Sprintf("127.0.0.1:%d", s.Port), grpc.WithTransportCredentials(insecure.NewCredentials()), grpc.WithBlock(),
			grpc.WithDefaultCallOptions(grpc.MaxCallRecvMsgSize(64<<20)))
		cancel()
		if err == nil {
			conn = c
			break
		}
		time.Sleep(50 * time.Millisecond)
	}
	if conn == nil {
		return fmt.Errorf("core gRPC port %d not reachable", s.Port)
	}
	s.conn = conn
	s.Client = pb.NewControlClient(conn)
	for time.Now().Before(deadline) && !s.Master.Subscribed() {
		time.Sleep(20 * time.Millisecond)
	}
	if !s.Master.Subscribed() {
		return fmt.Errorf("core did not subscribe")
	}
	return nil
}

func hasEnv(env []string, key string) bool {
	for _, e := range env {
		if strings.HasPrefix(e, key+"=") {
			return true
		}
	}
	return false
}

// CoreAlive reports whether the core process is running.
func (s *Sim) CoreAlive() bool {
	s.mu.Lock()
	defer s.mu.Unlock()
	return s.cmd != nil
}

// KillCore SIGKILLs the core (crash).
func (s *Sim) KillCore() {
	s.mu.Lock()
	cmd := s.cmd
	done := s.coreDone
	conn := s.conn
	s.conn = nil
	s.mu.Unlock()
	if conn != nil {
		conn.Close()
	}
	if cmd != nil && cmd.Process != nil {
		syscall.Kill(-cmd.Process.Pid, syscall.SIGKILL)
		<-done
	}
	s.mu.Lock()
	if s.cmd == cmd {
		s.cmd = nil // the waiter closes done before it takes s.mu: do not leave a window for StartCore
	}
	if s.stderrF != nil {
		s.stderrF.Close()
		s.stderrF = nil
	}
	s.mu.Unlock()
}

// DumpGoroutines sends SIGQUIT to the core (which then exits with a goroutine
// dump on stderr) and returns the /repo frames of blocked goroutines, condensed.
func (s *Sim) DumpGoroutines() string {
	s.mu.Lock()
	cmd := s.cmd
	done := s.coreDone
	s.mu.Unlock()
	if cmd == nil || cmd.Process == nil {
		return ""
	}
	before, _ := os.ReadFile(s.StderrPath())
	syscall.Kill(cmd.Process.Pid, syscall.SIGQUIT)
	select {
	case <-done:
	case <-time.After(20 * time.Second):
	}
	after, _ := os.ReadFile(s.StderrPath())
	dump := string(after[len(before):])
	var out []string
	for _, blk := range strings.Split(dump, "\n\n") {
		if !strings.HasPrefix(blk, "goroutine ") || !(strings.Contains(blk, "/core/") || strings.Contains(blk, "mesos-go")) {
			continue
		}
		lines := strings.Split(blk, "\n")
		var keep []string
		keep = append(keep, lines[0])
		for i := 1; i+1 < len(lines); i += 2 {
			if strings.Contains(lines[i+1], "/core/") || strings.Contains(lines[i+1], "/common/") || strings.Contains(lines[i+1], "/executor/") || strings.Contains(lines[i+1], "mesos-go") {
				keep = append(keep, "  "+strings.TrimSpace(lines[i])+" @ "+strings.TrimSpace(strings.SplitN(strings.TrimSpace(lines[i+1]), " ", 2)[0]))
			}
		}
		out = append(out, strings.Join(keep, "\n"))
	}
	return strings.Join(out, "\n")
}

// LogTail returns the last n bytes of the core's log before a requested goroutine dump (if any).
func (s *Sim) LogTail(n int) string {
	b, err := os.ReadFile(s.StderrPath())
	if err != nil {
		return ""
	}
	txt := string(b)
	if i := strings.Index(txt, dumpMarker); i >= 0 {
		txt = txt[:i]
	}
	if len(txt) > n {
		txt = txt[len(txt)-n:]
	}
	return txt
}

// dumpMarker distinguishes a requested SIGQUIT dump from a crash.
const dumpMarker = "SIGQUIT: quit"

// CoreCrash returns the crash headline found in the core's stderr, if any.
func (s *Sim) CoreCrash() string {
	b, err := os.ReadFile(s.StderrPath())
	if err != nil {
		return ""
	}
	txt := string(b)
	if i := strings.Index(txt, dumpMarker); i >= 0 {
		txt = txt[:i] // a goroutine dump we asked for is not a crash
	}
	for _, key := range []string{"\npanic: ", "\nfatal error: "} {
		if i := strings.Index(txt, key); i >= 0 {
			end := i + 1 + 4000
			if end > len(txt) {
				end = len(txt)
			}
			return txt[i+1 : end]
		}
	}
	return ""
}

// Events parses the event tap log.
func (s *Sim) Events() []Event {
	var out []Event
	f, err := os.Open(s.eventLog())
	if err != nil {
		return nil
	}
	defer f.Close()
	sc := bufio.NewScanner(f)
	sc.Buffer(make([]byte, 1<<20), 64<<20)
	for sc.Scan() {
		var e Event
		if json.Unmarshal(sc.Bytes(), &e) == nil {
			out = append(out, e)
		}
	}
	return out
}

// PluginRecords parses the plugin log.
func (s *Sim) PluginRecords() []verifplugin.Record {
	var out []verifplugin.Record
	f, err := os.Open(s.pluginLog())
	if err != nil {
		return nil
	}
	defer f.Close()
	sc := bufio.NewScanner(f)
	sc.Buffer(make([]byte, 1<<20), 64<<20)
	for sc.Scan() {
		var r verifplugin.Record
		if json.Unmarshal(sc.Bytes(), &r) == nil {
			out = append(out, r)
		}
	}
	return out
}

// RaceLogs returns the race detector log files of the core lives.
func (s *Sim) RaceLogs() []string {
	m, _ := filepath.Glob(filepath.Join(s.Dir, "race.*"))
	return m
}

// Close stops everything and removes the scratch directory (unless KeepLogs).
func (s *Sim) Close() {
	s.KillCore()
	if s.Master != nil {
		s.Master.Stop()
	}
	if s.Consul != nil {
		s.Consul.Stop()
	}
	if !s.Opt.KeepLogs && s.Opt.Dir == "" && os.Getenv("VERIF_KEEP") == "" {
		os.RemoveAll(s.Dir)
	}
}

// Ctx returns a context with a generous timeout for one API call.
func Ctx(d time.Duration) (context.Context, context.CancelFunc) {
	return context.WithTimeout(context.Background(), d)
}
