// simown: whole-core simulation driver for the ownership property (C04):
// several concurrent gRPC clients issue seeded histories of create / control /
// destroy / cleanup requests on environments that share hosts and detectors.
package main

import (
	"fmt"
	"os"
)

func main() {
	if len(os.Args) < 2 {
		fmt.Fprintln(os.Stderr, "usage: simown <ID> [flags]")
		os.Exit(64)
	}
	switch os.Args[1] {
	case "C04", "C04A":
		runC04()
	default:
		fmt.Fprintln(os.Stderr, "unknown property", os.Args[1])
		os.Exit(64)
	}
}
