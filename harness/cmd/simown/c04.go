package main

// C04 — a task or a detector belongs to at most one environment.
//
// One core life per history. 3 agents / 3 detectors, workflow templates that
// share hosts, task classes and (some of them) detectors. 2–4 concurrent gRPC
// clients issue seeded histories of NewEnvironment / ControlEnvironment /
// DestroyEnvironment / CleanupTasks requests (requests naming the same
// environment are serialised by the driver); after every reply the client takes a
// snapshot (GetTasks + GetEnvironments with task infos).
//
// Ground truth:
//   * ownership interval of (environment E, task T): from the moment the driver
//     holds E's successful NewEnvironment reply (which lists T) until the moment
//     the driver sends the first DestroyEnvironment naming E. Both instants and
//     every call arriving at the simulated master carry numbers of one process-wide
//     logical clock (vlib.Seq), so "owned at the instant the KILL arrived" is a
//     comparison of sequence numbers. Outside such an interval nothing is judged
//     (creation or destroy in progress: ownership may legitimately be in flux).
//   * snapshots are judged only for environments that are in such an interval
//     for the whole duration of the snapshot.
//
// Faults and timing (seeded): one connection loss per history in a third of the
// histories (all clients idle, the core resubscribes and reconciles), late
// TASK_RUNNING for every second environment in half of them, and the "inject"
// step that makes the non-critical task of a live environment terminate.
//
// A request that does not return ends the history; the core's goroutine dump
// decides whether the expiry is one of three known progress defects outside this
// property (counted as histories_abandoned_*) or inconclusive.
//
// Debugging: VERIF_ONLY=<index> runs one history, VERIF_KEEP=1 keeps the scratch
// dir, VERIF_C04_REUSE=0|1 / VERIF_C04_DELAYS=0|1 force the settings,
// VERIF_C04_TIMEOUT=<s> shortens the request watchdog, VERIF_C04_DUMP=<dir>
// writes every history (requests, snapshots, master log) as JSON.

import (
	"bufio"
	"context"
	"encoding/json"
	"fmt"
	"math/rand"
	"os"
	"path/filepath"
	"sort"
	"strings"
	"sync"
	"time"

	pb "github.com/AliceO2Group/Control/core/protos"
	"google.golang.org/grpc"
	"google.golang.org/grpc/credentials/insecure"
	"google.golang.org/grpc/status"

	"verif/harness/coresim"
	simmesos "verif/harness/sim/mesos"
	"verif/harness/verifplugin"
	"verif/harness/vlib"
)

// ---------------------------------------------------------------- templates

type c04Tpl struct {
	Name    string
	Hosts   []string    // root default `hosts` → detectors of the environment
	Tasks   [][2]string // (task class, host)
	SlowMs  int         // >0: a call hook at before_DEPLOY that takes this long
	NonCrit string      // host of an additional NON-critical task of class cn ("" = none)
	Gate    bool        // a DESTROY call hook that blocks until the driver opens a gate file: a teardown window of chosen length
	PreGate bool        // a before_DEPLOY call hook that blocks until the driver opens a gate file (after pre-deployment cleanup and workflow load, before task acquisition)
	Doomed  bool        // an additional critical task on a host that does not exist: the deployment fails after its attempts
	Special bool        // only used by a choreographed scenario, never picked at random
}

var c04HostDet = map[string]string{"host1": "TST", "host2": "ITS", "host3": "TPC"}
var c04Classes = map[string]string{"ca": "direct", "cb": "direct", "cc": "fairmq", "cn": "direct"}

// Every template places a task of class ca on host1 (whatever its detectors): the
// environments share hosts and task classes, some share detectors.
var c04Templates = []c04Tpl{
	{Name: "w1", Hosts: []string{"host1"}, Tasks: [][2]string{{"ca", "host1"}, {"cb", "host2"}}, NonCrit: "host3"},
	{Name: "w2", Hosts: []string{"host2"}, Tasks: [][2]string{{"ca", "host1"}, {"cc", "host3"}}, NonCrit: "host2"},
	{Name: "w3", Hosts: []string{"host3"}, Tasks: [][2]string{{"ca", "host1"}, {"cb", "host2"}}, NonCrit: "host1"},
	{Name: "w12", Hosts: []string{"host1", "host2"}, Tasks: [][2]string{{"cb", "host2"}, {"cc", "host3"}}},
	{Name: "w23", Hosts: []string{"host2", "host3"}, Tasks: [][2]string{{"ca", "host1"}}, NonCrit: "host3"},
	{Name: "w1s", Hosts: []string{"host1"}, Tasks: [][2]string{{"ca", "host1"}, {"cc", "host3"}}, SlowMs: 60},
	{Name: "w2s", Hosts: []string{"host2"}, Tasks: [][2]string{{"ca", "host1"}, {"cb", "host2"}}, SlowMs: 60},
	{Name: "w3s", Hosts: []string{"host3"}, Tasks: [][2]string{{"ca", "host1"}, {"cc", "host3"}}, SlowMs: 60},
	{Name: "w1g", Hosts: []string{"host1"}, Tasks: [][2]string{{"ca", "host1"}, {"cb", "host2"}}, Gate: true},
	{Name: "w23g", Hosts: []string{"host2", "host3"}, Tasks: [][2]string{{"cb", "host2"}}, Gate: true},
	{Name: "w3g", Hosts: []string{"host3"}, Tasks: [][2]string{{"ca", "host1"}, {"cc", "host3"}}, Gate: true},
	// take-over race (reuseUnlockedTasks): wt1 leaves an idle ca@host1 behind, wt2s takes it over, wt3d selects it too and fails
	{Name: "wt1", Hosts: []string{"host1"}, Tasks: [][2]string{{"ca", "host1"}}, Special: true},
	{Name: "wt2s", Hosts: []string{"host2"}, Tasks: [][2]string{{"ca", "host1"}}, PreGate: true, Special: true},
	{Name: "wt3d", Hosts: []string{"host3"}, Tasks: [][2]string{{"ca", "host1"}}, PreGate: true, Doomed: true, Special: true},
}

// c04Pool: the templates requests pick from at random.
func c04Pool() []c04Tpl {
	var out []c04Tpl
	for _, t := range c04Templates {
		if !t.Special {
			out = append(out, t)
		}
	}
	return out
}

func (t c04Tpl) dets() []string {
	var d []string
	for _, h := range t.Hosts {
		d = append(d, c04HostDet[h])
	}
	sort.Strings(d)
	return d
}

func c04TplByName(n string) c04Tpl {
	for _, t := range c04Templates {
		if t.Name == n {
			return t
		}
	}
	return c04Tpl{}
}

func c04Files(gateDir string) map[string]string {
	files := map[string]string{}
	for cls, mode := range c04Classes {
		files["tasks/"+cls+".yaml"] = fmt.Sprintf("name: %s\ncontrol:\n  mode: %s\nwants:\n  cpu: 0.1\n  memory: 32\ncommand:\n  shell: true\n  env:\n    - \"VERIF_ROLE={{ task_parent_role }}\"\n  value: \"sleep 100000\"\n", cls, mode)
	}
	for _, t := range c04Templates {
		var sb strings.Builder
		q := make([]string, len(t.Hosts))
		for i, h := range t.Hosts {
			q[i] = fmt.Sprintf("\\\"%s\\\"", h)
		}
		fmt.Fprintf(&sb, "name: %s\ndefaults:\n  deploy_timeout: \"6s\"\n  hosts: \"[%s]\"\nroles:\n", t.Name, strings.Join(q, ","))
		for i, tk := range t.Tasks {
			fmt.Fprintf(&sb, "  - name: \"t%d\"\n    constraints:\n      - attribute: machine_id\n        value: %q\n    task:\n      load: %s\n      critical: true\n", i, tk[1], tk[0])
		}
		if t.NonCrit != "" {
			fmt.Fprintf(&sb, "  - name: \"tn\"\n    constraints:\n      - attribute: machine_id\n        value: %q\n    task:\n      load: cn\n      critical: false\n", t.NonCrit)
		}
		if t.Doomed {
			fmt.Fprintf(&sb, "  - name: \"tx\"\n    constraints:\n      - attribute: machine_id\n        value: \"host9\"\n    task:\n      load: cb\n      critical: true\n")
		}
		if t.PreGate {
			fmt.Fprintf(&sb, "  - name: \"pgate\"\n    vars:\n      verif_gate: \"%s/pre-{{ environment_id }}\"\n      verif_tag: \"deploy-gate\"\n    call:\n      func: verif.Slow()\n      trigger: before_DEPLOY\n      timeout: 20s\n      critical: false\n", gateDir)
		}
		if t.Gate {
			fmt.Fprintf(&sb, "  - name: \"dgate\"\n    vars:\n      verif_gate: \"%s/gate-{{ environment_id }}\"\n      verif_tag: \"destroy-gate\"\n    call:\n      func: verif.Slow()\n      trigger: DESTROY\n      timeout: 20s\n      critical: false\n", gateDir)
		}
		if t.SlowMs > 0 {
			fmt.Fprintf(&sb, "  - name: \"slow\"\n    vars:\n      verif_sleep_ms: \"%d\"\n      verif_tag: \"slow\"\n    call:\n      func: verif.Slow()\n      trigger: before_DEPLOY\n      timeout: 10s\n      critical: false\n", t.SlowMs)
		}
		files["workflows/"+t.Name+".yaml"] = sb.String()
	}
	return files
}

func intersect(a, b []string) []string {
	m := map[string]bool{}
	for _, x := range a {
		m[x] = true
	}
	var out []string
	for _, x := range b {
		if m[x] {
			out = append(out, x)
		}
	}
	sort.Strings(out)
	return out
}

func sameSet(a, b []string) bool {
	if len(a) != len(b) {
		return false
	}
	return len(intersect(a, b)) == len(a)
}

// ---------------------------------------------------------------- records

type c04Params struct {
	Index   int    `json:"index"`
	Reuse   bool   `json:"reuseUnlockedTasks"`
	Delays  bool   `json:"delay_points"`
	Points  string `json:"VERIF_POINTS,omitempty"`
	Clients int    `json:"clients"`
	Steps   int    `json:"requests_per_client"`
	Barrier []int  `json:"barrier_steps"`
	// faults and timing, all decided by the seed
	Reconnect    int  `json:"reconnect_before_step"` // -1: none; else the event stream is dropped (all clients idle) before this barrier step
	MidReconnect bool `json:"reconnect_in_mid_creation,omitempty"`
	Takeover     bool `json:"takeover_race_first,omitempty"`
	SlowRunning  bool `json:"slow_task_running"` // every second environment's tasks report TASK_RUNNING 250 ms after launch instead of 30 ms
}

type c04Req struct {
	Client    int      `json:"client"`
	Step      int      `json:"step"`
	Kind      string   `json:"kind"` // create control destroy cleanup-all cleanup-ids
	Tpl       string   `json:"template,omitempty"`
	Env       string   `json:"env,omitempty"`
	Op        string   `json:"op,omitempty"`
	Ids       []string `json:"ids,omitempty"`
	Foreign   []string `json:"ids_owned_by_live_envs,omitempty"`
	Start     int64    `json:"start_seq"`
	End       int64    `json:"end_seq"`
	Err       string   `json:"err,omitempty"`
	State     string   `json:"state,omitempty"`
	Tasks     []string `json:"tasks,omitempty"`
	Dets      []string `json:"detectors,omitempty"`
	Killed    []string `json:"killed,omitempty"`
	FailedEnv string   `json:"env_of_failed_creation,omitempty"`
	Illegal   bool     `json:"illegal_on_purpose,omitempty"`
	OnErrEnv  string   `json:"targets_detector_of_environment_in_ERROR,omitempty"`
	OnGated   string   `json:"issued_inside_teardown_of,omitempty"`
	GateOpen  int64    `json:"destroy_hook_gate_opened_at_seq,omitempty"`
}

type c04Env struct {
	ID           string
	Tpl          string
	Dets         []string
	Tasks        []string
	CreateStart  int64
	CreateEnd    int64
	DestroyStart int64 // first DestroyEnvironment sent (0: none)
	busy         bool
	state        string
	dead         bool // destroy acknowledged / environment reported unknown
	destroyErr   bool
	degraded     int64 // != 0: clock value at which a terminal status was injected for its non-critical task
	DetHoldEnd   int64 // != 0: clock value before which its teardown was certainly still inside its DESTROY hook (gate not yet opened)
}

// owned reports whether the environment's ownership interval covers [a,b].
func (e *c04Env) live(a, b int64) bool {
	return e.CreateEnd < a && (e.DestroyStart == 0 || e.DestroyStart > b)
}

func (e *c04Env) has(task string) bool {
	for _, t := range e.Tasks {
		if t == task {
			return true
		}
	}
	return false
}

type c04SnapEnv struct {
	ID       string   `json:"id"`
	State    string   `json:"state"`
	Tasks    []string `json:"tasks"`
	Unlocked []string `json:"tasks_not_locked,omitempty"`
	Dets     []string `json:"detectors"`
}

type c04Snap struct {
	S0     int64           `json:"s0"`
	S1     int64           `json:"s1"`
	Client int             `json:"client"`
	Step   int             `json:"step"`
	Envs   []c04SnapEnv    `json:"envs"`
	Roster map[string]bool `json:"roster_locked"`
	Active []string        `json:"active_detectors"`
}

type c04Hist struct {
	c   *vlib.Ctx
	p   c04Params
	id  int64
	s   *coresim.Sim
	bar *barrier

	mu      sync.Mutex
	reqs    []*c04Req
	envs    map[string]*c04Env
	order   []string
	snaps   []*c04Snap
	aborted bool
	snapErr string

	lmu      sync.Mutex // state of the launch callback (runs under the master's lock: never h.mu)
	armTpl   string     // tasks of a creation of this template report TASK_RUNNING very late ...
	armSeen  int        // ... number of them launched so far
	armDelay time.Duration

	gateDir  string
	gateWait map[string]chan verifplugin.Record // environments whose destroy is being choreographed
}

type c04Witness struct {
	Params   c04Params      `json:"history"`
	What     string         `json:"what"`
	Focus    interface{}    `json:"focus,omitempty"`
	Requests []*c04Req      `json:"requests_in_start_order"`
	Master   []simmesos.Rec `json:"master_records,omitempty"`
}

var c04APITimeout = 200 * time.Second

// ---------------------------------------------------------------- driver

func runC04() {
	c := vlib.Start(os.Args[1])
	defer c.Finish()
	n := 40
	if c.Tier == "thorough" {
		n = 400
	}
	lo, hi := c.Slice(n)
	if v := os.Getenv("VERIF_C04_TIMEOUT"); v != "" {
		var sec int
		fmt.Sscan(v, &sec)
		c04APITimeout = time.Duration(sec) * time.Second
	}
	if only := os.Getenv("VERIF_ONLY"); only != "" {
		fmt.Sscan(only, &lo)
		hi = lo + 1
	}
	parallel(lo, hi, 3, func(i int) { c04Run(c, i) })
}

func c04Run(c *vlib.Ctx, idx int) {
	r := c.SubRand(int64(idx))
	p := c04Params{Index: idx, Reuse: idx%2 == 1, Delays: (idx/2)%2 == 1, Steps: 12}
	if c.Tier == "thorough" {
		p.Clients = 2 + idx%3
		if idx%4 == 0 {
			p.Clients = 4
		}
	} else {
		p.Clients = 3
	}
	if v := os.Getenv("VERIF_C04_REUSE"); v != "" {
		p.Reuse = v == "1"
	}
	if v := os.Getenv("VERIF_C04_DELAYS"); v != "" {
		p.Delays = v == "1"
	}
	p.Barrier = []int{0, 3 + r.Intn(3), 7 + r.Intn(3)}
	p.Reconnect = -1
	if idx%3 == 2 {
		p.Reconnect = p.Barrier[1+r.Intn(2)]
	}
	p.SlowRunning = (idx/4)%2 == 0
	p.MidReconnect = p.Reconnect >= 0 && idx%6 == 5 // the stream is dropped in the middle of a creation instead of with all clients idle
	p.Takeover = p.Reuse && !p.Delays && idx%8 == 1 // the history starts with the choreographed take-over race
	if p.Delays {
		p.Points = "envman.create.afterDetectorRead=sleep(50);taskman.killTasks.afterFilter=sleep(20)"
	}
	id := c.Case(p)
	if idx%9 == 1 {
		c.Sample(p)
	}
	dir, derr := os.MkdirTemp("", "coresim-")
	if derr != nil {
		c.Inconclusive("scratch dir: " + derr.Error())
		return
	}
	if os.Getenv("VERIF_KEEP") == "" {
		defer os.RemoveAll(dir)
	}
	gateDir := filepath.Join(dir, "gates")
	_ = os.MkdirAll(gateDir, 0o755)
	opt := coresim.Options{Dir: dir, Agents: stdAgents(3), Detectors: map[string][]string{"TST": {"host1"}, "ITS": {"host2"}, "TPC": {"host3"}}, Files: c04Files(gateDir)}
	if p.Reuse {
		opt.Settings = map[string]string{"reuseUnlockedTasks": "true"}
	}
	if p.Delays {
		opt.Env = []string{"VERIF_POINTS=" + p.Points}
	}
	s, err := coresim.Start(opt)
	if err != nil {
		c.Inconclusive("coresim start: " + truncate(err.Error(), 3000))
		return
	}
	h := &c04Hist{c: c, p: p, id: id, s: s, envs: map[string]*c04Env{}, bar: newBarrier(p.Clients), gateDir: gateDir, gateWait: map[string]chan verifplugin.Record{}}
	stopWatch := make(chan struct{})
	watchDone := make(chan struct{})
	go func() { defer close(watchDone); h.watchGates(filepath.Join(dir, "plugin.jsonl"), stopWatch) }()
	defer func() { close(stopWatch); <-watchDone }()
	defer func() {
		finishSim(c, s, id, h.witness("core crash", nil, ""))
		s.Close()
	}()
	// callbacks run under the master's lock: own little state, never h.mu
	var lmu sync.Mutex
	slowEnv := map[string]bool{}
	s.Master.OnLaunch = func(t *simmesos.LaunchedTask) simmesos.LaunchPlan {
		d := 30 * time.Millisecond
		h.lmu.Lock()
		if h.armTpl != "" && strings.HasPrefix(t.RolePath, h.armTpl+".") {
			h.armSeen++
			d = h.armDelay
			h.lmu.Unlock()
			return simmesos.LaunchPlan{Kind: "running", Delay: d}
		}
		h.lmu.Unlock()
		if p.SlowRunning {
			lmu.Lock()
			slow, seen := slowEnv[t.EnvID]
			if !seen {
				slow = len(slowEnv)%2 == 0
				slowEnv[t.EnvID] = slow
			}
			lmu.Unlock()
			if slow {
				// the environment's tasks stay launched-but-not-yet-running (owned, INACTIVE) for a while:
				// other clients' kills and cleanups run meanwhile
				d = 250 * time.Millisecond
			}
		}
		return simmesos.LaunchPlan{Kind: "running", Delay: d}
	}
	s.Master.OnKill = func(t *simmesos.LaunchedTask) string {
		h.lmu.Lock()
		armed := h.armTpl != "" && strings.HasPrefix(t.RolePath, h.armTpl+".")
		h.lmu.Unlock()
		if armed && t.Mesos == "TASK_STAGING" {
			// a kill of a task that is still staging takes its time: the call is on record at the master, the task
			// goes on (what is judged is that the KILL was sent, not what became of the task)
			return "ignore"
		}
		return "killed"
	}
	c.Count("histories", 1)
	if p.Reuse {
		c.Count("histories_reuse_on", 1)
	}
	if p.Delays {
		c.Count("histories_delay_points_on", 1)
	}
	if p.SlowRunning {
		c.Count("histories_slow_task_running", 1)
	}

	if p.Takeover {
		h.takeoverRace()
	}
	var wg sync.WaitGroup
	for cl := 0; cl < p.Clients; cl++ {
		wg.Add(1)
		cr := rand.New(rand.NewSource(r.Int63() + int64(cl)*7919)) // one PRNG per client, seeded before the clients start
		go func(cl int) {
			defer wg.Done()
			h.client(cl, cr)
		}(cl)
	}
	wg.Wait()
	if h.snapErr != "" {
		// a snapshot failed with a transport error: either the core was dying (reported as a crash by
		// finishSim) or something unknown happened
		for i := 0; i < 100 && s.CoreAlive() && s.CoreCrash() == ""; i++ {
			time.Sleep(50 * time.Millisecond)
		}
		if s.CoreAlive() && s.CoreCrash() == "" {
			c.Inconclusive(fmt.Sprintf("history %d: snapshot failed with the core alive: %s", idx, h.snapErr))
		}
	}
	if s.CoreAlive() && !h.aborted {
		waitQuiet(s, 300*time.Millisecond, 10*time.Second)
		if h.snapshot(s.Client, -1, p.Steps) != nil && s.CoreAlive() {
			c.Inconclusive(fmt.Sprintf("history %d: final snapshot failed", idx))
		}
	}
	// whatever was recorded is judged: every rule compares recorded instants, none needs the history to be complete
	h.evaluate()
}

func (h *c04Hist) dial() (pb.ControlClient, func()) {
	ctx, cancel := context.WithTimeout(context.Background(), 30*time.Second)
	defer cancel()
	conn, err := grpc.DialContext(ctx, fmt.Sprintf("127.0.0.1:%d", h.s.Port), grpc.WithTransportCredentials(insecure.NewCredentials()), grpc.WithBlock(),
		grpc.WithDefaultCallOptions(grpc.MaxCallRecvMsgSize(64<<20)))
	if err != nil {
		return h.s.Client, func() {}
	}
	return pb.NewControlClient(conn), func() { conn.Close() }
}

func taskIDs(ts []*pb.ShortTaskInfo) []string {
	out := make([]string, 0, len(ts))
	for _, t := range ts {
		out = append(out, t.GetTaskId())
	}
	sort.Strings(out)
	return out
}

// snapshot = GetTasks + GetEnvironments(showTaskInfos), bracketed by two clock values.
func (h *c04Hist) snapshot(cli pb.ControlClient, client, step int) error {
	sn := &c04Snap{Client: client, Step: step, Roster: map[string]bool{}}
	sn.S0 = vlib.Seq()
	ctx, cancel := coresim.Ctx(60 * time.Second)
	tr, err := cli.GetTasks(ctx, &pb.GetTasksRequest{})
	cancel()
	if err != nil {
		return err
	}
	ctx, cancel = coresim.Ctx(60 * time.Second)
	er, err := cli.GetEnvironments(ctx, &pb.GetEnvironmentsRequest{ShowAll: true, ShowTaskInfos: true})
	cancel()
	if err != nil {
		return err
	}
	ctx, cancel = coresim.Ctx(60 * time.Second)
	dr, err := cli.GetActiveDetectors(ctx, &pb.Empty{})
	cancel()
	if err != nil {
		return err
	}
	sn.Active = append([]string(nil), dr.GetDetectors()...)
	sort.Strings(sn.Active)
	sn.S1 = vlib.Seq()
	for _, t := range tr.GetTasks() {
		sn.Roster[t.GetTaskId()] = t.GetLocked()
	}
	for _, e := range er.GetEnvironments() {
		d := append([]string(nil), e.GetIncludedDetectors()...)
		sort.Strings(d)
		se := c04SnapEnv{ID: e.GetId(), State: e.GetState(), Tasks: taskIDs(e.GetTasks()), Dets: d}
		for _, t := range e.GetTasks() {
			if !t.GetLocked() {
				se.Unlocked = append(se.Unlocked, t.GetTaskId())
			}
		}
		sn.Envs = append(sn.Envs, se)
	}
	h.mu.Lock()
	h.snaps = append(h.snaps, sn)
	for _, se := range sn.Envs {
		if e := h.envs[se.ID]; e != nil && !e.busy {
			e.state = se.State
		}
	}
	h.mu.Unlock()
	h.c.Count("snapshots", 1)
	return nil
}

func (h *c04Hist) lastSnap(client int) *c04Snap {
	for i := len(h.snaps) - 1; i >= 0; i-- {
		if h.snaps[i].Client == client {
			return h.snaps[i]
		}
	}
	if len(h.snaps) > 0 {
		return h.snaps[len(h.snaps)-1]
	}
	return nil
}

// pickEnv reserves a live environment nobody else is addressing right now.
func (h *c04Hist) pickEnv(r *rand.Rand, forDestroy bool) *c04Env {
	var cand []*c04Env
	for _, id := range h.order {
		e := h.envs[id]
		if e.busy || e.dead {
			continue
		}
		if !forDestroy && (e.DestroyStart != 0 || e.state == "ERROR" || e.degraded != 0) {
			continue
		}
		if forDestroy && e.state == "ERROR" && e.DestroyStart == 0 && r.Intn(100) < 65 {
			continue // an environment in ERROR is left alone for a while: it still holds its tasks and detectors
		}
		cand = append(cand, e)
	}
	if len(cand) == 0 {
		return nil
	}
	e := cand[r.Intn(len(cand))]
	e.busy = true
	return e
}

func pickW(r *rand.Rand, w []int) int {
	tot := 0
	for _, x := range w {
		tot += x
	}
	k := r.Intn(tot)
	for i, x := range w {
		if k < x {
			return i
		}
		k -= x
	}
	return len(w) - 1
}

func (h *c04Hist) client(cl int, r *rand.Rand) {
	cli, closeConn := h.dial()
	defer closeConn()
	left := false
	leave := func() {
		if !left {
			left = true
			h.bar.leave()
		}
	}
	defer leave()
	isBarrier := map[int]bool{}
	for _, b := range h.p.Barrier {
		isBarrier[b] = true
	}
	for step := 0; step < h.p.Steps; step++ {
		if isBarrier[step] {
			h.bar.wait()
			if step == h.p.Reconnect {
				// every client is idle (its last request and snapshot are done): connection loss now
				if cl == 0 {
					if h.p.MidReconnect {
						h.midReconnect(cli, r)
					} else {
						h.reconnect()
					}
				}
				h.bar.wait()
			}
		}
		h.mu.Lock()
		if h.aborted {
			h.mu.Unlock()
			return
		}
		req := &c04Req{Client: cl, Step: step}
		var env *c04Env
		// ---- choose
		kind := 0 // create
		if step > 0 {
			w := []int{22, 34, 22, 6, 16}
			if isBarrier[step] {
				w = []int{50, 5, 35, 4, 6} // simultaneous requests: mostly create vs create vs destroy
			}
			kind = pickW(r, w)
			if r.Intn(100) < 7 {
				kind = 5 // a non-critical task of a live environment terminates
			} else if r.Intn(100) < 8 {
				kind = 6 // an illegal request drives a live environment to ERROR; it stays (nobody destroys it on purpose)
			}
		}
		var injectTask string
		if kind == 5 {
			// an idle live environment whose template has a non-critical task that is still alive
			mt := h.s.Master.Tasks()
			var cand []*c04Env
			for _, id := range h.order {
				e := h.envs[id]
				if e.busy || e.dead || e.DestroyStart != 0 || e.degraded != 0 || c04TplByName(e.Tpl).NonCrit == "" {
					continue
				}
				cand = append(cand, e)
			}
			kind = 1
			if len(cand) > 0 {
				e := cand[r.Intn(len(cand))]
				for _, t := range mt {
					if e.has(t.ID) && strings.HasSuffix(t.RolePath, ".tn") && !t.Terminal {
						env, injectTask, kind = e, t.ID, 5
						e.busy = true
					}
				}
			}
		}
		if kind == 1 || kind == 6 {
			if env = h.pickEnv(r, false); env == nil {
				kind = 0
			}
		}
		if kind == 2 {
			if env = h.pickEnv(r, true); env == nil {
				kind = 0
			}
		}
		switch kind {
		case 0:
			req.Kind = "create"
			// 45 %: any template (often one whose detector is in use: refused creations and, when
			// two such requests coincide, the exclusion check under contention); 55 %: a template whose
			// detectors look free, so that several environments sharing hosts are alive at once
			cand := c04Pool()
			if step > 0 && r.Intn(100) < 55 {
				busy := map[string]bool{}
				for _, e := range h.envs {
					if !e.dead {
						for _, d := range e.Dets {
							busy[d] = true
						}
					}
				}
				var free []c04Tpl
				for _, t := range c04Pool() {
					ok := true
					for _, d := range t.dets() {
						if busy[d] {
							ok = false
						}
					}
					if ok {
						free = append(free, t)
					}
				}
				if len(free) > 0 {
					cand = free
				}
			}
			if isBarrier[step] && step > 0 && r.Intn(100) < 50 {
				// prefer a template with a slow before_DEPLOY hook: a long window between the
				// creation's pre-deployment cleanup and its task acquisition
				var slow []c04Tpl
				for _, t := range cand {
					if t.SlowMs > 0 {
						slow = append(slow, t)
					}
				}
				if len(slow) > 0 {
					cand = slow
				}
			}
			// an environment in ERROR that nobody destroyed still holds its detectors: ask for one of them
			var errEnvs []*c04Env
			for _, id := range h.order {
				if e := h.envs[id]; !e.dead && e.DestroyStart == 0 && e.state == "ERROR" {
					errEnvs = append(errEnvs, e)
				}
			}
			if len(errEnvs) > 0 && r.Intn(100) < 40 {
				ee := errEnvs[r.Intn(len(errEnvs))]
				var hit []c04Tpl
				for _, t := range c04Pool() {
					if len(intersect(t.dets(), ee.Dets)) > 0 {
						hit = append(hit, t)
					}
				}
				if len(hit) > 0 {
					cand = hit
					req.OnErrEnv = ee.ID
				}
			}
			req.Tpl = cand[r.Intn(len(cand))].Name
		case 1:
			req.Kind = "control"
			req.Env = env.ID
			valid := map[string][]string{"CONFIGURED": {"START_ACTIVITY", "RESET", "START_ACTIVITY", "RESET"}, "RUNNING": {"STOP_ACTIVITY"}, "DEPLOYED": {"CONFIGURE"}, "STANDBY": {"CONFIGURE"}}[env.state]
			all := []string{"START_ACTIVITY", "STOP_ACTIVITY", "CONFIGURE", "RESET"}
			if len(valid) == 0 || r.Intn(100) < 6 {
				req.Op = all[r.Intn(len(all))]
			} else {
				req.Op = valid[r.Intn(len(valid))]
			}
		case 2:
			req.Kind = "destroy"
			req.Env = env.ID
			dw := []int{38, 20, 27, 5, 10}
			if isBarrier[step] {
				dw = []int{25, 10, 55, 5, 5}
			}
			req.Op = []string{"plain", "force", "keepTasks", "force+keepTasks", "allowInRunning"}[pickW(r, dw)]
			if env.destroyErr {
				req.Op = "force"
			}
			if env.degraded != 0 && !strings.Contains(req.Op, "force") {
				// a terminated task never answers the RESET of a plain destroy (90 s command timeout)
				req.Op = "force"
			}
		case 6:
			req.Kind = "control"
			req.Env = env.ID
			req.Illegal = true
			req.Op = map[string]string{"CONFIGURED": "STOP_ACTIVITY", "RUNNING": "CONFIGURE", "DEPLOYED": "START_ACTIVITY", "STANDBY": "START_ACTIVITY"}[env.state]
			if req.Op == "" {
				req.Op = "STOP_ACTIVITY"
			}
		case 5:
			req.Kind = "inject"
			req.Env = env.ID
			req.Ids = []string{injectTask}
			req.Op = []string{"TASK_FINISHED", "TASK_FAILED"}[r.Intn(2)]
		case 3:
			req.Kind = "cleanup-all"
		case 4:
			req.Kind = "cleanup-ids"
			var owned, free []string
			if sn := h.lastSnap(cl); sn != nil {
				for _, se := range sn.Envs {
					owned = append(owned, se.Tasks...)
				}
				for id, locked := range sn.Roster {
					if !locked {
						free = append(free, id)
					}
				}
				sort.Strings(owned)
				sort.Strings(free)
			}
			n := 1 + r.Intn(3)
			for k := 0; k < n; k++ {
				switch {
				case len(owned) > 0 && (k == 0 && r.Intn(100) < 85 || r.Intn(100) < 40):
					req.Ids = append(req.Ids, owned[r.Intn(len(owned))])
				case len(free) > 0:
					req.Ids = append(req.Ids, free[r.Intn(len(free))])
				default:
					req.Ids = append(req.Ids, fmt.Sprintf("no-such-task-%d", r.Intn(1000)))
				}
			}
		}
		req.Start = vlib.Seq()
		if req.Kind == "destroy" && env.DestroyStart == 0 {
			env.DestroyStart = req.Start
		}
		if req.Kind == "cleanup-ids" {
			for _, id := range req.Ids {
				for _, e := range h.envs {
					if e.has(id) && e.live(req.Start, req.Start) {
						req.Foreign = append(req.Foreign, id)
						break
					}
				}
			}
		}
		h.reqs = append(h.reqs, req)
		h.mu.Unlock()

		// ---- execute
		apiTimeout := c04APITimeout
		if !h.p.Reuse && apiTimeout > 60*time.Second {
			// nothing a request can legitimately wait for takes longer than deploy_timeout (6 s) here;
			// with task reuse on, a claimed task that was killed meanwhile costs the hard-coded 120 s
			// CONFIGURE timeout
			apiTimeout = 60 * time.Second
		}
		ctx, cancel := coresim.Ctx(apiTimeout)
		var err error
		switch req.Kind {
		case "create":
			err = h.execCreate(ctx, cli, req)
		case "control":
			var rep *pb.ControlEnvironmentReply
			rep, err = cli.ControlEnvironment(ctx, &pb.ControlEnvironmentRequest{Id: req.Env, Type: pb.ControlEnvironmentRequest_Optype(pb.ControlEnvironmentRequest_Optype_value[req.Op])})
			end := vlib.Seq()
			h.mu.Lock()
			req.End = end
			if err == nil {
				req.State = rep.GetState()
				env.state = rep.GetState()
			} else {
				env.state = "ERROR" // corrected by the next snapshot
				if strings.Contains(grpcMsg(err), "NotFound") {
					env.dead = true
				}
			}
			h.mu.Unlock()
		case "destroy":
			var rep *pb.DestroyEnvironmentReply
			dreq := &pb.DestroyEnvironmentRequest{Id: req.Env, Force: strings.Contains(req.Op, "force"), KeepTasks: strings.Contains(req.Op, "keepTasks"), AllowInRunningState: req.Op == "allowInRunning"}
			var innerErr error
			if c04TplByName(env.Tpl).Gate {
				rep, err, innerErr = h.gatedDestroy(ctx, cli, cl, step, req, env, dreq, r, apiTimeout)
			} else {
				rep, err = cli.DestroyEnvironment(ctx, dreq)
			}
			if innerErr != nil && strings.Contains(grpcMsg(innerErr), "DeadlineExceeded") && err == nil {
				err = innerErr // the competing creation did not return: handled like any request that does not
			}
			end := vlib.Seq()
			h.mu.Lock()
			req.End = end
			if err == nil {
				env.dead = true
				req.Killed = taskIDs(rep.GetCleanupTasksReply().GetKilledTasks())
			} else if strings.Contains(grpcMsg(err), "NotFound") {
				env.dead = true
			} else {
				env.destroyErr = true
			}
			h.mu.Unlock()
		case "inject":
			// the master reports the task terminal; the status update reaches the core asynchronously
			h.s.Master.TaskStatus(req.Ids[0], req.Op, "terminated (scripted)")
			waitQuiet(h.s, 100*time.Millisecond, 3*time.Second)
			end := vlib.Seq()
			h.mu.Lock()
			req.End = end
			env.degraded = req.Start
			h.mu.Unlock()
			h.c.Count("owned_noncritical_tasks_terminated", 1)
		case "cleanup-all", "cleanup-ids":
			var rep *pb.CleanupTasksReply
			rep, err = cli.CleanupTasks(ctx, &pb.CleanupTasksRequest{TaskIds: req.Ids})
			end := vlib.Seq()
			h.mu.Lock()
			req.End = end
			req.Killed = taskIDs(rep.GetKilledTasks())
			h.mu.Unlock()
		}
		cancel()
		h.c.Count("api_requests", 1)
		h.c.Count("req_"+req.Kind, 1)
		h.mu.Lock()
		req.Err = truncate(grpcMsg(err), 300)
		if env != nil {
			env.busy = false
		}
		h.mu.Unlock()
		if err != nil {
			h.c.Count("req_"+req.Kind+"_err", 1)
		}
		if err != nil && strings.Contains(grpcMsg(err), "DeadlineExceeded") {
			h.stuck(fmt.Sprintf("%s request (client %d step %d) did not return within %s", req.Kind, cl, step, apiTimeout))
			return
		}
		if !h.s.CoreAlive() {
			h.mu.Lock()
			h.aborted = true
			h.mu.Unlock()
			return
		}
		if serr := h.snapshot(cli, cl, step); serr != nil {
			if strings.Contains(grpcMsg(serr), "DeadlineExceeded") {
				h.stuck(fmt.Sprintf("snapshot (client %d step %d) did not return within 60s", cl, step))
				return
			}
			h.mu.Lock()
			if !h.aborted {
				h.aborted = true
				h.snapErr = truncate(grpcMsg(serr), 200) // judged after the clients are done: a dying core is a crash, not an unknown
			}
			h.mu.Unlock()
			return
		}
	}
}

// execCreate issues NewEnvironment for req.Tpl and records the outcome.
func (h *c04Hist) execCreate(ctx context.Context, cli pb.ControlClient, req *c04Req) error {
	rep, err := cli.NewEnvironment(ctx, &pb.NewEnvironmentRequest{WorkflowTemplate: req.Tpl, Vars: map[string]string{}})
	end := vlib.Seq()
	h.mu.Lock()
	defer h.mu.Unlock()
	req.End = end
	if err == nil {
		ei := rep.GetEnvironment()
		d := append([]string(nil), ei.GetIncludedDetectors()...)
		sort.Strings(d)
		e := &c04Env{ID: ei.GetId(), Tpl: req.Tpl, Dets: d, Tasks: taskIDs(ei.GetTasks()), CreateStart: req.Start, CreateEnd: end, state: ei.GetState()}
		h.envs[e.ID] = e
		h.order = append(h.order, e.ID)
		req.Env, req.State, req.Tasks, req.Dets = e.ID, e.state, e.Tasks, e.Dets
	} else if st, ok := status.FromError(err); ok {
		for _, d := range st.Details() {
			if ei, ok := d.(*pb.EnvironmentInfo); ok {
				req.FailedEnv = ei.GetId()
			}
		}
	}
	return err
}

func (h *c04Hist) openGate(envID string) {
	if f, err := os.Create(filepath.Join(h.gateDir, "gate-"+envID)); err == nil {
		f.Close()
	}
}

func (h *c04Hist) openPreGate(envID string) {
	if f, err := os.Create(filepath.Join(h.gateDir, "pre-"+envID)); err == nil {
		f.Close()
	}
}

// watchGates follows the plugin log. A DESTROY hook of a "g" template blocks until its gate file exists: when
// the teardown belongs to a destroy that a client is choreographing, the client is told (it opens the gate
// itself); any other teardown (a failed creation) gets its gate opened at once.
func (h *c04Hist) watchGates(path string, stop chan struct{}) {
	var off int64
	for {
		select {
		case <-stop:
			return
		case <-time.After(5 * time.Millisecond):
		}
		f, err := os.Open(path)
		if err != nil {
			continue
		}
		if _, err := f.Seek(off, 0); err != nil {
			f.Close()
			continue
		}
		rd := bufio.NewReaderSize(f, 1<<16)
		for {
			line, err := rd.ReadBytes('\n')
			if err != nil {
				break // incomplete line: read again next time
			}
			off += int64(len(line))
			var rec verifplugin.Record
			if json.Unmarshal(line, &rec) != nil || rec.Phase != "start" || (rec.Tag != "destroy-gate" && rec.Tag != "deploy-gate") {
				continue
			}
			key := rec.Env
			if rec.Tag == "deploy-gate" {
				key = "pre:" + strings.SplitN(rec.Role, ".", 2)[0] // the creation of template <root role> is parked before its deployment
			}
			h.mu.Lock()
			ch := h.gateWait[key]
			h.mu.Unlock()
			if ch != nil {
				select {
				case ch <- rec:
				default:
				}
			} else if rec.Tag == "deploy-gate" {
				h.openPreGate(rec.Env)
			} else {
				h.openGate(rec.Env)
			}
		}
		f.Close()
	}
}

// gatedDestroy destroys an environment whose template has the gated DESTROY hook: the destroy is sent, and as
// soon as the hook's start record shows that the teardown is inside its DESTROY hooks (tasks released, the
// environment not yet gone) a creation needing one of its detectors is issued; only when that creation has
// returned (and a snapshot was taken) is the gate opened. Until then the environment holds its detectors.
func (h *c04Hist) gatedDestroy(ctx context.Context, cli pb.ControlClient, cl, step int, req *c04Req, env *c04Env, dreq *pb.DestroyEnvironmentRequest, r *rand.Rand, apiTimeout time.Duration) (*pb.DestroyEnvironmentReply, error, error) {
	ch := make(chan verifplugin.Record, 1)
	h.mu.Lock()
	h.gateWait[env.ID] = ch
	h.mu.Unlock()
	type res struct {
		rep *pb.DestroyEnvironmentReply
		err error
	}
	done := make(chan res, 1)
	go func() {
		rep, err := cli.DestroyEnvironment(ctx, dreq)
		done <- res{rep, err}
	}()
	finish := func() res {
		h.openGate(env.ID)
		h.mu.Lock()
		delete(h.gateWait, env.ID)
		h.mu.Unlock()
		return <-done
	}
	var rec verifplugin.Record
	select {
	case rec = <-ch:
	case d := <-done: // refused or failed before any hook ran
		done <- d
		d = finish()
		return d.rep, d.err, nil
	case <-time.After(30 * time.Second):
		d := finish()
		return d.rep, d.err, nil
	}
	h.c.Count("teardown_windows_held_open", 1)
	// a template that needs one of the detectors of the environment being torn down
	var hit []c04Tpl
	for _, t := range c04Pool() {
		if len(intersect(t.dets(), env.Dets)) > 0 {
			hit = append(hit, t)
		}
	}
	creq := &c04Req{Client: cl, Step: step, Kind: "create", Tpl: hit[r.Intn(len(hit))].Name, OnGated: env.ID}
	h.mu.Lock()
	creq.Start = vlib.Seq()
	h.reqs = append(h.reqs, creq)
	h.mu.Unlock()
	cctx, ccancel := coresim.Ctx(apiTimeout)
	cerr := h.execCreate(cctx, cli, creq)
	ccancel()
	h.c.Count("api_requests", 1)
	h.c.Count("req_create", 1)
	h.mu.Lock()
	creq.Err = truncate(grpcMsg(cerr), 300)
	h.mu.Unlock()
	if cerr != nil {
		h.c.Count("req_create_err", 1)
	}
	if cerr == nil || !strings.Contains(grpcMsg(cerr), "DeadlineExceeded") {
		_ = h.snapshot(cli, cl, step) // inside the window
	}
	g := vlib.Seq()
	h.mu.Lock()
	req.GateOpen = g
	if time.Now().UnixNano()-rec.TsNs < int64(10*time.Second) {
		// the hook (timeout 20 s) cannot have ended before the gate is opened: up to here the teardown was in progress
		env.DetHoldEnd = g
	}
	h.mu.Unlock()
	d := finish()
	return d.rep, d.err, cerr
}

// reconnect drops the scheduler's event stream while no request is in flight and waits until the core has
// subscribed again and the answers to its reconciliation have been delivered.
func (h *c04Hist) reconnect() {
	h.mu.Lock()
	if h.aborted {
		h.mu.Unlock()
		return
	}
	req := &c04Req{Client: 0, Step: h.p.Reconnect, Kind: "reconnect", Start: vlib.Seq()}
	h.reqs = append(h.reqs, req)
	h.mu.Unlock()
	if !h.dropAndWait(req.Start) {
		return
	}
	h.mu.Lock()
	req.End = vlib.Seq()
	h.mu.Unlock()
	h.c.Count("reconnections", 1)
}

// dropAndWait severs the event stream and waits for the new subscription and the reconciliation answers.
func (h *c04Hist) dropAndWait(since int64) bool {
	life0 := h.s.Master.Life()
	h.s.Master.DropStream()
	deadline := time.Now().Add(90 * time.Second)
	for time.Now().Before(deadline) && h.s.CoreAlive() && (h.s.Master.Life() == life0 || !h.s.Master.Subscribed()) {
		time.Sleep(10 * time.Millisecond)
	}
	if h.s.Master.Life() == life0 || !h.s.Master.Subscribed() {
		h.mu.Lock()
		h.aborted = true
		h.mu.Unlock()
		if h.s.CoreAlive() {
			h.c.Inconclusive(fmt.Sprintf("history %d: the core did not resubscribe within 90 s after the stream was dropped", h.p.Index))
		}
		return false
	}
	waitQuiet(h.s, 200*time.Millisecond, 5*time.Second) // RECONCILE and its answers
	n := 0
	for _, rec := range h.s.Master.Log() {
		if rec.Seq > since && rec.Kind == "event" && rec.Type == "UPDATE" && rec.F["reason"] == "REASON_RECONCILIATION" && rec.F["delivered"] == true {
			n++
		}
	}
	h.c.Count("reconciliation_updates_delivered", int64(n))
	return true
}

// takeoverRace (reuseUnlockedTasks on) - all gates are logical conditions, nothing is timed:
//  1. environment K (wt1) is created; creations A (wt3d: needs in addition a task on a host that does not exist) and
//     B (wt2s) are started and park at their before_DEPLOY gate, i.e. after their pre-deployment cleanup;
//  2. K is destroyed with keepTasks: its task T stays behind, idle and unowned;
//  3. A's gate is opened; once the master has seen A's REVIVE, A has selected T for take-over and is busy with its
//     attempts to deploy the impossible task; then B's gate is opened: B takes T over at once;
//  4. as soon as GetEnvironments lists T under B, the master sends T's TASK_RUNNING once more (status updates are
//     delivered at least once): B's role becomes active, B is configured and live, holding T;
//  5. A's deployment fails after its attempts. T must still be B's.
func (h *c04Hist) takeoverRace() {
	cli := h.s.Client
	run := func(req *c04Req, f func(ctx context.Context) error) error {
		h.mu.Lock()
		req.Start = vlib.Seq()
		h.reqs = append(h.reqs, req)
		h.mu.Unlock()
		ctx, cancel := coresim.Ctx(c04APITimeout)
		err := f(ctx)
		cancel()
		h.mu.Lock()
		if req.End == 0 {
			req.End = vlib.Seq()
		}
		req.Err = truncate(grpcMsg(err), 300)
		h.mu.Unlock()
		h.c.Count("api_requests", 1)
		h.c.Count("req_"+req.Kind, 1)
		if err != nil {
			h.c.Count("req_"+req.Kind+"_err", 1)
		}
		return err
	}
	kreq := &c04Req{Client: 0, Step: -1, Kind: "create", Tpl: "wt1", Op: "takeover-race"}
	if run(kreq, func(ctx context.Context) error { return h.execCreate(ctx, cli, kreq) }) != nil || len(kreq.Tasks) != 1 {
		return
	}
	_ = h.snapshot(cli, 0, -1)
	T := kreq.Tasks[0]
	chA, chB := make(chan verifplugin.Record, 1), make(chan verifplugin.Record, 1)
	h.mu.Lock()
	h.gateWait["pre:wt3d"], h.gateWait["pre:wt2s"] = chA, chB
	h.mu.Unlock()
	areq := &c04Req{Client: 0, Step: -1, Kind: "create", Tpl: "wt3d", Op: "takeover-race: selects the idle task, then fails"}
	breq := &c04Req{Client: 1, Step: -1, Kind: "create", Tpl: "wt2s", Op: "takeover-race: takes the idle task over"}
	doneA, doneB := make(chan error, 1), make(chan error, 1)
	go func() { doneA <- run(areq, func(ctx context.Context) error { return h.execCreate(ctx, cli, areq) }) }()
	go func() { doneB <- run(breq, func(ctx context.Context) error { return h.execCreate(ctx, cli, breq) }) }()
	var recA, recB verifplugin.Record
	parked := 0
	timeout := time.After(40 * time.Second)
	for parked < 2 {
		select {
		case recA = <-chA:
			parked++
		case recB = <-chB:
			parked++
		case <-timeout:
			parked = 99
		}
	}
	release := func() {
		h.mu.Lock()
		delete(h.gateWait, "pre:wt3d")
		delete(h.gateWait, "pre:wt2s")
		h.mu.Unlock()
		if recA.Env != "" {
			h.openPreGate(recA.Env)
		}
		if recB.Env != "" {
			h.openPreGate(recB.Env)
		}
	}
	if parked != 2 {
		release()
		<-doneA
		<-doneB
		return
	}
	// 2. keep-tasks destroy of K
	h.mu.Lock()
	kenv := h.envs[kreq.Env]
	kenv.busy = true
	h.mu.Unlock()
	dreq := &c04Req{Client: 2 % h.p.Clients, Step: -1, Kind: "destroy", Env: kreq.Env, Op: "keepTasks"}
	derr := run(dreq, func(ctx context.Context) error {
		h.mu.Lock()
		kenv.DestroyStart = dreq.Start
		h.mu.Unlock()
		_, err := cli.DestroyEnvironment(ctx, &pb.DestroyEnvironmentRequest{Id: kreq.Env, KeepTasks: true})
		return err
	})
	h.mu.Lock()
	kenv.busy = false
	kenv.dead = derr == nil
	kenv.destroyErr = derr != nil
	h.mu.Unlock()
	if derr != nil {
		release()
		<-doneA
		<-doneB
		return
	}
	// 3. A first: its REVIVE at the master means its take-over selection is made
	mark := vlib.Seq()
	h.openPreGate(recA.Env)
	revived := false
	for deadline := time.Now().Add(20 * time.Second); time.Now().Before(deadline) && !revived; time.Sleep(5 * time.Millisecond) {
		for _, rec := range h.s.Master.Log() {
			if rec.Seq > mark && rec.Kind == "call" && rec.Type == "REVIVE" {
				revived = true
			}
		}
	}
	h.openPreGate(recB.Env)
	// 4. B lists T: the status update is delivered once more
	listed := false
	for deadline := time.Now().Add(5 * time.Second); revived && time.Now().Before(deadline) && !listed; time.Sleep(10 * time.Millisecond) {
		ctx, cancel := coresim.Ctx(20 * time.Second)
		er, err := cli.GetEnvironments(ctx, &pb.GetEnvironmentsRequest{ShowAll: true, ShowTaskInfos: true})
		cancel()
		if err != nil {
			break
		}
		for _, e := range er.GetEnvironments() {
			if e.GetId() == recB.Env && contains(taskIDs(e.GetTasks()), T) {
				listed = true
			}
		}
	}
	if listed {
		h.s.Master.TaskStatus(T, "TASK_RUNNING", "status update delivered again")
	}
	errB := <-doneB
	if errB == nil && listed {
		h.c.Count("takeover_races_taker_live", 1)
		_ = h.snapshot(cli, 1, -1)
	}
	errA := <-doneA
	release()
	if errA != nil && errB == nil && listed {
		h.c.Count("takeover_races_complete", 1) // the doomed creation failed after the other one took the task over
	}
	_ = h.snapshot(cli, 0, -1)
}

// midReconnect: a creation whose tasks report TASK_RUNNING only after 2.5 s; as soon as the master has seen all
// of them launched the event stream is dropped, so the core re-subscribes and reconciles while the environment's
// tasks are in its task list, owned, and still staging. (All other clients are idle.)
func (h *c04Hist) midReconnect(cli pb.ControlClient, r *rand.Rand) {
	h.mu.Lock()
	if h.aborted {
		h.mu.Unlock()
		return
	}
	busy := map[string]bool{}
	for _, e := range h.envs {
		if !e.dead {
			for _, d := range e.Dets {
				busy[d] = true
			}
		}
	}
	var free []c04Tpl
	for _, t := range c04Pool() {
		ok := !t.Gate
		for _, d := range t.dets() {
			if busy[d] {
				ok = false
			}
		}
		if ok {
			free = append(free, t)
		}
	}
	if len(free) == 0 {
		h.mu.Unlock()
		h.reconnect() // no detector free: the plain reconnection
		return
	}
	tpl := free[r.Intn(len(free))]
	req := &c04Req{Client: 0, Step: h.p.Reconnect, Kind: "create", Tpl: tpl.Name, Op: "reconnection-while-deploying", Start: vlib.Seq()}
	h.reqs = append(h.reqs, req)
	h.mu.Unlock()
	expected := len(tpl.Tasks)
	if tpl.NonCrit != "" {
		expected++
	}
	h.lmu.Lock()
	h.armTpl, h.armSeen, h.armDelay = tpl.Name, 0, 2500*time.Millisecond
	h.lmu.Unlock()
	ctx, cancel := coresim.Ctx(c04APITimeout)
	defer cancel()
	done := make(chan error, 1)
	go func() { done <- h.execCreate(ctx, cli, req) }()
	var err error
	returned := false
	launched := false
	for deadline := time.Now().Add(20 * time.Second); time.Now().Before(deadline) && !launched && !returned; {
		select {
		case err = <-done:
			returned = true
		case <-time.After(5 * time.Millisecond):
			h.lmu.Lock()
			launched = h.armSeen >= expected
			h.lmu.Unlock()
		}
	}
	if launched && !returned {
		waitQuiet(h.s, 30*time.Millisecond, time.Second) // the ACCEPT calls are through
		rreq := &c04Req{Client: 0, Step: h.p.Reconnect, Kind: "reconnect", Op: "while-deploying", Start: vlib.Seq()}
		h.mu.Lock()
		h.reqs = append(h.reqs, rreq)
		h.mu.Unlock()
		if h.dropAndWait(rreq.Start) {
			h.mu.Lock()
			rreq.End = vlib.Seq()
			h.mu.Unlock()
			h.c.Count("reconnections_while_deploying", 1)
			_ = h.snapshot(cli, 0, h.p.Reconnect) // the creation is still waiting for its tasks
		}
	}
	if !returned {
		err = <-done
	}
	h.lmu.Lock()
	h.armTpl = ""
	h.lmu.Unlock()
	h.c.Count("api_requests", 1)
	h.c.Count("req_create", 1)
	h.mu.Lock()
	req.Err = truncate(grpcMsg(err), 300)
	h.mu.Unlock()
	if err != nil {
		h.c.Count("req_create_err", 1)
		if strings.Contains(grpcMsg(err), "DeadlineExceeded") {
			h.stuck("create request with a reconnection while deploying did not return")
			return
		}
	} else if launched {
		h.c.Count("creations_ok_across_reconnection", 1)
	}
	_ = h.snapshot(cli, 0, h.p.Reconnect)
}

// stuck ends the history after a request that did not return: the core's goroutines are dumped (which ends
// the core life) and the expiry is either attributed to a defect outside this property or inconclusive.
func (h *c04Hist) stuck(what string) {
	h.mu.Lock()
	first := !h.aborted
	h.aborted = true
	h.mu.Unlock()
	if !first || !h.s.CoreAlive() {
		return
	}
	waitQuiet(h.s, 2*time.Second, 6*time.Second)
	h.s.DumpGoroutines() // SIGQUIT: this ends the core life; the dump is at the end of its stderr
	full := ""
	if b, rerr := os.ReadFile(h.s.StderrPath()); rerr == nil {
		if i := strings.LastIndex(string(b), "SIGQUIT: quit"); i >= 0 {
			full = string(b[i:])
		}
	}
	dump, short := "", ""
	outcomeLost, killAck, rlock := false, false, false
	for _, blk := range strings.Split(full, "\n\n") {
		if !strings.HasPrefix(blk, "goroutine ") {
			continue
		}
		if strings.Contains(blk, "RpcServer") || strings.Contains(blk, "task.(*Manager)") || strings.Contains(blk, "environment.(*Manager)") || strings.Contains(blk, "schedulerState") {
			dump += blk + "\n\n"
			lines := strings.Split(blk, "\n")
			short += lines[0]
			for _, l := range lines[1:] {
				if strings.HasPrefix(l, "github.com/AliceO2Group/Control/") {
					if k := strings.LastIndex(l, "("); k > 0 {
						l = l[:k]
					}
					short += " < " + strings.TrimPrefix(l, "github.com/AliceO2Group/Control/")
				}
			}
			short += "\n"
		}
		if strings.Contains(blk, "[chan receive") && strings.Contains(blk, "task.(*Manager).acquireTasks(") && !strings.Contains(blk, "safeacks") {
			outcomeLost = true
		}
		if strings.Contains(blk, "[chan receive") && strings.Contains(blk, "safeacks.(*SafeAcks).TryReceiveAck(") && strings.Contains(blk, "task.(*Manager).KillTasks(") {
			killAck = true
		}
		if strings.Contains(blk, "[sync.RWMutex.RLock") && strings.Contains(blk, "environment.(*Manager).environment(") && strings.Contains(blk, "environment.(*Manager).TeardownEnvironment(") {
			rlock = true
		}
	}
	_ = os.WriteFile(fmt.Sprintf("%s/hang-%03d.txt", h.c.OutDir, h.p.Index), []byte(dump), 0o644)
	if d := os.Getenv("VERIF_C04_DUMP"); d != "" {
		h.mu.Lock()
		b, _ := json.MarshalIndent(map[string]interface{}{"params": h.p, "requests": h.reqs, "master": h.s.Master.Log()}, "", " ")
		h.mu.Unlock()
		_ = os.WriteFile(fmt.Sprintf("%s/hang-history-%03d.json", d, h.p.Index), b, 0o644)
	}
	switch {
	case outcomeLost:
		// Attributed, outside this property (progress of a deployment): the outcome of an offers round was handed
		// over with a non-blocking send before acquireTasks was receiving; acquireTasks waits forever holding the
		// deployment lock and every later creation blocks. What was recorded so far is still judged.
		h.c.Count("histories_abandoned_deployment_outcome_lost", 1)
	case killAck:
		// Attributed, outside this property (progress of a destroy): KillTasks waits for the acknowledgement of a
		// kill whose TASK_KILLED was consumed before the acknowledgement was registered (the task was killed by a
		// concurrent cleanup between KillTasks' filter and its registration).
		h.c.Count("histories_abandoned_kill_ack_never_received", 1)
	case rlock:
		// Attributed, outside this property (progress): TeardownEnvironment takes the environment manager's read
		// lock and then calls environment(), which takes it again; with a writer queued in between (another
		// teardown) all three wait for each other and every API call blocks.
		h.c.Count("histories_abandoned_envman_recursive_rlock_deadlock", 1)
	default:
		h.c.Inconclusive(fmt.Sprintf("history %d: %s; blocked goroutines of the core: %s", h.p.Index, what, truncate(short, 3000)))
	}
}

// ---------------------------------------------------------------- oracle

func (h *c04Hist) witness(what string, focus interface{}, task string) *c04Witness {
	h.mu.Lock()
	defer h.mu.Unlock()
	w := &c04Witness{Params: h.p, What: what, Focus: focus}
	rs := append([]*c04Req(nil), h.reqs...)
	sort.Slice(rs, func(i, j int) bool { return rs[i].Start < rs[j].Start })
	for _, r := range rs {
		cp := *r
		w.Requests = append(w.Requests, &cp)
	}
	if task != "" {
		for _, rec := range h.s.Master.Log() {
			if rec.TaskID == task && (rec.Kind == "call" || rec.Kind == "exec") && rec.Type != "ACKNOWLEDGE" {
				w.Master = append(w.Master, rec)
			}
		}
		if len(w.Master) > 60 {
			w.Master = w.Master[len(w.Master)-60:]
		}
	}
	return w
}

func overlap(a0, a1, b0, b1 int64) bool { return a0 < b1 && b0 < a1 }

func (h *c04Hist) pairKind(e, f *c04Env) string {
	if overlap(e.CreateStart, e.CreateEnd, f.CreateStart, f.CreateEnd) {
		return "concurrent-creations"
	}
	return "second-created-while-first-live"
}

func (h *c04Hist) evaluate() {
	c := h.c
	h.mu.Lock()
	reqs := append([]*c04Req(nil), h.reqs...)
	envs := map[string]*c04Env{}
	var order []string
	for _, id := range h.order {
		cp := *h.envs[id]
		envs[id] = &cp
		order = append(order, id)
	}
	snaps := append([]*c04Snap(nil), h.snaps...)
	h.mu.Unlock()
	sort.Slice(reqs, func(i, j int) bool { return reqs[i].Start < reqs[j].Start })
	mlog := h.s.Master.Log()
	if d := os.Getenv("VERIF_C04_DUMP"); d != "" {
		// debugging aid: the whole history (requests, snapshots, master log) as JSON
		b, _ := json.MarshalIndent(map[string]interface{}{"params": h.p, "requests": reqs, "snapshots": snaps, "master": mlog}, "", " ")
		_ = os.WriteFile(fmt.Sprintf("%s/history-%03d.json", d, h.p.Index), b, 0o644)
	}
	mtasks := map[string]simmesos.LaunchedTask{}
	for _, t := range h.s.Master.Tasks() {
		mtasks[t.ID] = t
	}
	const inf = int64(1) << 62
	end := func(e *c04Env) int64 {
		if e.DestroyStart == 0 {
			return inf
		}
		return e.DestroyStart
	}
	detEnd := func(e *c04Env) int64 {
		if e.DetHoldEnd != 0 {
			return e.DetHoldEnd
		}
		return end(e)
	}
	reported := map[string]bool{}
	violate := func(rule, class, detail, what string, focus interface{}, task string) {
		k := rule + "/" + class + "/" + what
		if reported[k] {
			return
		}
		reported[k] = true
		c.Violation(rule, class, fmt.Sprintf("%s [history %d reuse=%v delays=%v clients=%d]", detail, h.p.Index, h.p.Reuse, h.p.Delays, h.p.Clients), h.id, h.witness(detail, focus, task))
	}

	// ---- coverage counters
	nOK := 0
	var fpParts []string
	for _, r := range reqs {
		ok := r.Err == ""
		fpParts = append(fpParts, fmt.Sprintf("%s:%s%s:%v", r.Kind, r.Tpl, r.Op, ok))
		switch r.Kind {
		case "create":
			if ok {
				nOK++
				c.Count("creates_ok", 1)
				for _, t := range r.Tasks {
					if mt, found := mtasks[t]; found && mt.EnvID != r.Env {
						c.Count("tasks_reused", 1)
					}
				}
			} else if strings.Contains(r.Err, "already in use") {
				c.Count("creates_detector_conflict", 1)
			} else {
				c.Count("creates_failed_other", 1)
			}
		case "cleanup-ids":
			if len(r.Foreign) > 0 {
				c.Count("cleanup_calls_naming_foreign", 1)
			}
		case "destroy":
			if ok {
				c.Count("destroys_ok", 1)
			}
		case "control":
			if ok {
				c.Count("controls_ok", 1)
			}
			if r.Illegal && !ok {
				c.Count("environments_driven_to_error", 1)
			}
		}
		if r.Kind == "create" && r.OnErrEnv != "" {
			if hd := envs[r.OnErrEnv]; hd != nil && hd.live(r.Start, r.End) {
				c.Count("creates_on_detector_held_by_error_env", 1)
				if strings.Contains(r.Err, "already in use") {
					c.Count("creates_on_detector_held_by_error_env_refused", 1)
				}
			}
		}
	}
	for i, a := range reqs {
		if a.Kind != "create" {
			continue
		}
		for _, b := range reqs[i+1:] {
			if b.Kind != "create" || !overlap(a.Start, a.End, b.Start, b.End) {
				continue
			}
			if len(intersect(c04TplByName(a.Tpl).dets(), c04TplByName(b.Tpl).dets())) > 0 {
				c.Count("create_overlaps_shared_detector", 1)
				if a.Err == "" && b.Err == "" {
					c.Count("create_overlaps_shared_detector_both_ok", 1)
				}
			}
		}
	}
	sort.Strings(fpParts)
	if nOK >= 2 {
		c.Nontrivial(vlib.Hash("c04", h.p.Reuse, h.p.Delays, h.p.Clients, strings.Join(fpParts, ",")))
	}
	type ev struct {
		seq int64
		s   string
	}
	var evs []ev
	for _, r := range reqs {
		evs = append(evs, ev{r.Start, fmt.Sprintf("s%d:%s", r.Client, r.Kind)}, ev{r.End, fmt.Sprintf("e%d:%s", r.Client, r.Kind)})
	}
	sort.Slice(evs, func(i, j int) bool { return evs[i].seq < evs[j].seq })
	var il []string
	for _, e := range evs {
		il = append(il, e.s)
	}
	c.Interleaving(vlib.Hash(strings.Join(il, " ")))

	// the class of a detector conflict says how it came about: two creations in flight at once, or a creation
	// that succeeded although the holder was live - and whether the holder was sitting in ERROR at that time
	// (an environment in ERROR that was not destroyed keeps its tasks and its detectors)
	stateBefore := func(id string, seq int64) string {
		st, best := "", int64(-1)
		for _, sn := range snaps {
			if sn.S1 < seq && sn.S1 > best {
				for _, se := range sn.Envs {
					if se.ID == id {
						st, best = se.State, sn.S1
					}
				}
			}
		}
		return st
	}
	detKind := func(e, f *c04Env) string {
		if overlap(e.CreateStart, e.CreateEnd, f.CreateStart, f.CreateEnd) {
			return "concurrent-creations"
		}
		first, second := e, f
		if f.CreateStart < e.CreateStart {
			first, second = f, e
		}
		if stateBefore(first.ID, second.CreateStart) == "ERROR" {
			return "holder-in-ERROR"
		}
		return "second-created-while-first-live"
	}

	// ---- (1)+(3) from the replies: ownership / detector intervals of two environments overlap
	for i, ida := range order {
		for _, idb := range order[i+1:] {
			e, f := envs[ida], envs[idb]
			lo, hi := e.CreateEnd, end(e)
			if f.CreateEnd > lo {
				lo = f.CreateEnd
			}
			if end(f) < hi {
				hi = end(f)
			}
			if lo >= hi {
				// never live at the same time - but an environment keeps its detectors while its teardown is
				// inside its DESTROY hooks: a creation ACKNOWLEDGED before the hook's gate was opened was admitted
				// while the detector was still held
				dlo, dhi := e.CreateEnd, detEnd(e)
				if f.CreateEnd > dlo {
					dlo = f.CreateEnd
				}
				if detEnd(f) < dhi {
					dhi = detEnd(f)
				}
				if dlo < dhi {
					c.Count("teardown_window_pairs_checked", 1)
					if sd := intersect(e.Dets, f.Dets); len(sd) > 0 {
						violate("DET-EXCL", "holder-being-destroyed", fmt.Sprintf("detector %s: the creation of %s (%s) was acknowledged while the teardown of %s (%s), which includes the detector, was still inside its DESTROY hook (tasks released, hooks running, environment not yet gone)", sd[0], f.ID, f.Tpl, e.ID, e.Tpl), e.ID+f.ID,
							map[string]interface{}{"detector": sd[0], "env_a": e.ID, "env_b": f.ID, "source": "NewEnvironment replies, gate of the DESTROY hook"}, "")
					}
				}
				continue
			}
			c.Count("live_pairs_checked", 1)
			if sh := intersect(e.Tasks, f.Tasks); len(sh) > 0 {
				violate("OWNED-BY-TWO", h.pairKind(e, f), fmt.Sprintf("task %s is listed in the NewEnvironment replies of two environments that were live at the same time (%s from %s, %s from %s)", sh[0], e.ID, e.Tpl, f.ID, f.Tpl), e.ID+f.ID,
					map[string]interface{}{"task": sh[0], "env_a": e.ID, "env_b": f.ID, "source": "NewEnvironment replies"}, sh[0])
			}
			if sd := intersect(e.Dets, f.Dets); len(sd) > 0 {
				violate("DET-EXCL", detKind(e, f), fmt.Sprintf("detector %s is included in two environments that were live at the same time (%s from %s, %s from %s)", sd[0], e.ID, e.Tpl, f.ID, f.Tpl), e.ID+f.ID,
					map[string]interface{}{"detector": sd[0], "env_a": e.ID, "env_b": f.ID, "source": "NewEnvironment replies"}, "")
			}
		}
	}

	// ---- (1c) tasks of an environment whose creation is still in progress: the core itself lists the task under
	// the environment (so it was appended to the task list before), the task was launched for that environment
	// and nobody asked to kill it, yet it is missing from GetTasks - in two snapshots that do not overlap (GetTasks
	// is called before GetEnvironments: one snapshot alone can straddle the append)
	firstKill := map[string]int64{}
	for _, rec := range mlog {
		if rec.Kind == "call" && rec.Type == "KILL" && rec.TaskID != "" {
			if _, seen := firstKill[rec.TaskID]; !seen {
				firstKill[rec.TaskID] = rec.Seq
			}
		}
	}
	type lostKey struct{ env, task string }
	lost := map[lostKey][]*c04Snap{}
	for _, sn := range snaps {
		for _, se := range sn.Envs {
			if e := envs[se.ID]; e != nil && e.CreateEnd < sn.S1 {
				continue // creation acknowledged: judged by the rules for live environments
			}
			for _, t := range se.Tasks {
				mt, found := mtasks[t]
				if !found || mt.EnvID != se.ID {
					continue
				}
				c.Count("snapshot_tasks_of_creations_in_progress_judged", 1)
				if _, inRoster := sn.Roster[t]; inRoster {
					continue
				}
				if k, killed := firstKill[t]; killed && k < sn.S1 {
					continue
				}
				lost[lostKey{se.ID, t}] = append(lost[lostKey{se.ID, t}], sn)
			}
		}
	}
	for k, sns := range lost {
		for i := range sns {
			for j := range sns {
				if sns[i].S1 < sns[j].S0 {
					outcome := "still in progress at the end of the history"
					for _, r := range reqs {
						if r.Kind == "create" && (r.FailedEnv == k.env || r.Env == k.env) {
							outcome = "ended with: " + r.Err
							if r.Err == "" {
								outcome = "succeeded"
							}
						}
					}
					violate("CLEANUP-TOUCHED-OWNED", "roster-entry-lost-during-creation", fmt.Sprintf("task %s, launched for environment %s and listed under it by GetEnvironments while its creation was in progress, is missing from GetTasks in two successive snapshots although no KILL was requested for it: a kill or cleanup issued for something else removed it from the core's task list (the creation %s)", k.task, k.env, outcome), k.env,
						map[string]interface{}{"task": k.task, "env": k.env, "snapshot_1": sns[i], "snapshot_2": sns[j]}, k.task)
				}
			}
		}
	}

	// ---- (3) inside a teardown window (destroy sent, DESTROY hook not yet allowed to finish) the detectors are still in use
	for _, sn := range snaps {
		for _, id := range order {
			e := envs[id]
			if e.DetHoldEnd == 0 || !(e.DestroyStart < sn.S0 && sn.S1 < e.DetHoldEnd) {
				continue
			}
			for _, d := range e.Dets {
				c.Count("snapshot_detectors_in_teardown_window_judged", 1)
				if !contains(sn.Active, d) {
					violate("DETECTOR-NOT-ACTIVE", "holder-being-destroyed", fmt.Sprintf("GetActiveDetectors %v does not list detector %s although the teardown of environment %s, which includes it, is still inside its DESTROY hook", sn.Active, d, e.ID), e.ID,
						map[string]interface{}{"detector": d, "snapshot": sn}, "")
					break
				}
			}
		}
	}

	// ---- (1)+(3) at every snapshot
	for _, sn := range snaps {
		var live []c04SnapEnv
		for _, se := range sn.Envs {
			if e := envs[se.ID]; e != nil && se.State != "DONE" && e.live(sn.S0, sn.S1) {
				live = append(live, se)
			}
		}
		c.Count("snapshot_envs_judged", int64(len(live)))
		for _, se := range sn.Envs {
			for _, t := range se.Tasks {
				if mt, found := mtasks[t]; found && mt.EnvID != se.ID {
					c.Count("snapshot_tasks_claimed_from_another_environment", 1) // reuseUnlockedTasks at work
				}
			}
		}
		for _, a := range live {
			// a live environment's tasks stay locked and stay in the core's task list: nobody but the
			// environment's own teardown may release them, and cleanup only removes unlocked tasks
			c.Count("snapshot_owned_tasks_judged", int64(len(a.Tasks)))
			// ... and its detectors are in use, whatever its state, until it is destroyed
			for _, d := range a.Dets {
				c.Count("snapshot_detectors_of_live_envs_judged", 1)
				if !contains(sn.Active, d) {
					violate("DETECTOR-NOT-ACTIVE", "holder-in-"+a.State, fmt.Sprintf("GetActiveDetectors %v does not list detector %s although live environment %s (state %s, no destroy requested) includes it", sn.Active, d, a.ID, a.State), a.ID,
						map[string]interface{}{"detector": d, "snapshot": sn}, "")
					break
				}
			}
			if len(a.Unlocked) > 0 {
				violate("OWNED-NOT-LOCKED", "live-environment", fmt.Sprintf("GetEnvironments shows task %s of live environment %s (state %s, no destroy requested) as not locked: it was released by something other than the environment's teardown", a.Unlocked[0], a.ID, a.State), a.ID,
					map[string]interface{}{"task": a.Unlocked[0], "snapshot": sn}, a.Unlocked[0])
			}
			for _, t := range a.Tasks {
				if _, inRoster := sn.Roster[t]; !inRoster {
					violate("CLEANUP-TOUCHED-OWNED", "roster-entry-lost", fmt.Sprintf("task %s of live environment %s (state %s) is missing from GetTasks: it was removed from the core's task list although it is owned", t, a.ID, a.State), a.ID,
						map[string]interface{}{"task": t, "snapshot": sn}, t)
					break
				}
			}
		}
		for i, a := range live {
			for _, b := range live[i+1:] {
				e, f := envs[a.ID], envs[b.ID]
				if sh := intersect(a.Tasks, b.Tasks); len(sh) > 0 {
					violate("OWNED-BY-TWO", h.pairKind(e, f), fmt.Sprintf("GetEnvironments lists task %s under two live environments (%s state %s, %s state %s)", sh[0], a.ID, a.State, b.ID, b.State), a.ID+b.ID,
						map[string]interface{}{"task": sh[0], "snapshot": sn}, sh[0])
				}
				if sd := intersect(a.Dets, b.Dets); len(sd) > 0 {
					violate("DET-EXCL", detKind(e, f), fmt.Sprintf("GetEnvironments lists two live environments whose includedDetectors intersect in %s (%s state %s, %s state %s)", sd[0], a.ID, a.State, b.ID, b.State), a.ID+b.ID,
						map[string]interface{}{"detector": sd[0], "snapshot": sn}, "")
				}
			}
		}
	}

	// ---- (2) every KILL / transition MESSAGE at the master against the ownership valid at that instant
	inflight := func(seq int64) []*c04Req {
		var out []*c04Req
		for _, r := range reqs {
			if r.Start < seq && (r.End == 0 || seq < r.End) {
				out = append(out, r)
			}
		}
		return out
	}
	for _, rec := range mlog {
		if rec.Kind != "call" || rec.Status != 202 || rec.TaskID == "" || (rec.Type != "KILL" && rec.Type != "MESSAGE") {
			continue
		}
		var owners []*c04Env
		for _, id := range order {
			if e := envs[id]; e.has(rec.TaskID) && e.live(rec.Seq, rec.Seq) {
				owners = append(owners, e)
			}
		}
		sinceLaunch := ""
		if rec.Type == "KILL" && len(owners) == 0 {
			if mt, found := mtasks[rec.TaskID]; found && mt.SeqLaunch < rec.Seq {
				// a task is born owned by the environment it is launched for. (a) The creation succeeded and lists the
				// task: owned since its launch. (b) The creation was still in progress: a snapshot taken entirely AFTER
				// the kill and before the creation returned still lists the environment with the task LOCKED - a lock is
				// never re-acquired, so the task was locked when the KILL arrived, and the environment's own failure
				// cleanup only kills after the environment has left the list.
				if e := envs[mt.EnvID]; e != nil && e.has(rec.TaskID) && rec.Seq <= e.CreateEnd && (e.DestroyStart == 0 || rec.Seq < e.DestroyStart) {
					owners = append(owners, e)
					sinceLaunch = "the creation that launched it was still in progress and later succeeded"
				} else if e == nil {
					for _, r := range reqs {
						if r.Kind != "create" || r.FailedEnv != mt.EnvID || !(r.Start < rec.Seq && rec.Seq < r.End) {
							continue
						}
						for _, sn := range snaps {
							if sn.S0 > rec.Seq && sn.S1 < r.End {
								for _, se := range sn.Envs {
									if se.ID == mt.EnvID && contains(se.Tasks, rec.TaskID) && !contains(se.Unlocked, rec.TaskID) && sinceLaunch == "" {
										owners = append(owners, &c04Env{ID: mt.EnvID, Tpl: r.Tpl, CreateStart: r.Start, CreateEnd: r.End})
										sinceLaunch = "the creation that launched it was still in progress (the environment was still listed, with the task locked, after the KILL) and then failed with: " + r.Err
									}
								}
							}
						}
					}
				}
			}
		}
		if rec.Type == "KILL" {
			c.Count("kills_seen", 1)
			if len(owners) == 0 {
				c.Count("kills_of_tasks_not_owned_at_that_instant", 1)
				continue
			}
			o := owners[0]
			cause := "no-request-in-flight"
			rank := 0
			for _, r := range inflight(rec.Seq) {
				k, rk := "", 0
				switch {
				case r.Kind == "reconnect":
					k, rk = "reconnection", 6
				case r.Kind == "cleanup-ids" && contains(r.Ids, rec.TaskID):
					k, rk = "cleanup-by-id", 5
				case r.Kind == "destroy" && r.Env != o.ID:
					k, rk = "destroy-of-other-environment", 4
				case r.Kind == "cleanup-all":
					k, rk = "cleanup-all", 3
				case r.Kind == "create" && r.Env != o.ID && r.FailedEnv != o.ID:
					k, rk = "create-of-other-environment", 2
				case r.Kind == "control" && r.Env != o.ID:
					k, rk = "control-of-other-environment", 1
				}
				if rk > rank {
					cause, rank = k, rk
				}
			}
			if sinceLaunch != "" {
				violate("KILL-OWNED", cause, fmt.Sprintf("KILL for task %s arrived at the master (seq %d) while the task, launched for environment %s at seq %d, was owned by it: %s; request in flight: %s",
					rec.TaskID, rec.Seq, o.ID, mtasks[rec.TaskID].SeqLaunch, sinceLaunch, cause), rec.TaskID,
					map[string]interface{}{"task": rec.TaskID, "owner": o.ID, "kill_seq": rec.Seq}, rec.TaskID)
				continue
			}
			violate("KILL-OWNED", cause, fmt.Sprintf("KILL for task %s arrived at the master (seq %d) while the task was owned by live environment %s (creation acknowledged at seq %d, no destroy requested%s); request in flight: %s",
				rec.TaskID, rec.Seq, o.ID, o.CreateEnd, map[bool]string{true: "", false: fmt.Sprintf(" before seq %d", o.DestroyStart)}[o.DestroyStart == 0], cause), rec.TaskID,
				map[string]interface{}{"task": rec.TaskID, "owner": o.ID, "kill_seq": rec.Seq}, rec.TaskID)
			continue
		}
		c.Count("messages_seen", 1)
		cmdEnv, _ := rec.F["env"].(string)
		evt, _ := rec.F["event"].(string)
		for _, o := range owners {
			c.Count("messages_to_owned_tasks_judged", 1)
			if cmdEnv != o.ID {
				if evt == "" {
					evt = "hook"
				}
				violate("CONTROL-FOREIGN", evt, fmt.Sprintf("command %s issued for environment %s was sent (seq %d) to task %s, owned at that instant by live environment %s", evt, cmdEnv, rec.Seq, rec.TaskID, o.ID), rec.TaskID+cmdEnv,
					map[string]interface{}{"task": rec.TaskID, "owner": o.ID, "command_env": cmdEnv, "seq": rec.Seq}, rec.TaskID)
			}
		}
	}

	// ---- (4) a creation refused with "detector already in use" leaves the holder alone
	for _, r := range reqs {
		if r.Kind != "create" || !strings.Contains(r.Err, "already in use") {
			continue
		}
		want := c04TplByName(r.Tpl).dets()
		for _, id := range order {
			hd := envs[id]
			if len(intersect(hd.Dets, want)) == 0 || !hd.live(r.Start, r.End) {
				continue
			}
			var before, after *c04Snap
			var bse c04SnapEnv
			for _, sn := range snaps {
				if sn.S1 < r.Start && sn.S0 > hd.CreateEnd {
					for _, se := range sn.Envs {
						if se.ID == hd.ID && (before == nil || sn.S1 > before.S1) {
							before, bse = sn, se
						}
					}
				}
				if sn.S0 > r.End && (after == nil || sn.S0 < after.S0) {
					after = sn
				}
			}
			if before == nil || after == nil || !hd.live(before.S0, after.S1) {
				c.Count("holder_checks_skipped", 1)
				continue
			}
			touched := hd.degraded != 0 && hd.degraded < after.S1 // one of its tasks was made to terminate: its state may follow
			for _, q := range reqs {
				if q.Env == hd.ID && q != r && q.Kind != "create" && overlap(q.Start, q.End, before.S0, after.S1) {
					touched = true
				}
				if q.Kind == "reconnect" && overlap(q.Start, q.End, before.S0, after.S1) {
					touched = true // what a reconnection does to an environment is another property's business
				}
			}
			if touched {
				c.Count("holder_checks_skipped", 1)
				continue
			}
			c.Count("holder_checks", 1)
			var ase *c04SnapEnv
			for i := range after.Envs {
				if after.Envs[i].ID == hd.ID {
					ase = &after.Envs[i]
				}
			}
			focus := map[string]interface{}{"holder": hd.ID, "refused_request": r, "before": bse, "after": ase}
			switch {
			case ase == nil:
				violate("HOLDER-DISTURBED", "vanished", fmt.Sprintf("after a NewEnvironment(%s) refused with %q the environment %s holding the detector is no longer listed", r.Tpl, r.Err, hd.ID), hd.ID, focus, "")
			case ase.State != bse.State:
				violate("HOLDER-DISTURBED", "state", fmt.Sprintf("after a NewEnvironment(%s) refused with %q the state of the holder %s changed %s -> %s although no request named it", r.Tpl, r.Err, hd.ID, bse.State, ase.State), hd.ID, focus, "")
			case !sameSet(ase.Tasks, bse.Tasks):
				violate("HOLDER-DISTURBED", "tasks", fmt.Sprintf("after a NewEnvironment(%s) refused with %q the task set of the holder %s changed", r.Tpl, r.Err, hd.ID), hd.ID, focus, "")
			case !sameSet(ase.Dets, bse.Dets):
				violate("HOLDER-DISTURBED", "detectors", fmt.Sprintf("after a NewEnvironment(%s) refused with %q the detectors of the holder %s changed", r.Tpl, r.Err, hd.ID), hd.ID, focus, "")
			}
		}
	}
}

func contains(xs []string, x string) bool {
	for _, y := range xs {
		if y == x {
			return true
		}
	}
	return false
}
