package main

// Helpers copied from cmd/simdrv/common.go (each binary keeps its own copy).

import (
	"fmt"
	"io"
	"os"
	"path/filepath"
	"regexp"
	"strings"
	"sync"
	"sync/atomic"
	"time"

	"google.golang.org/grpc/status"

	"verif/harness/coresim"
	simmesos "verif/harness/sim/mesos"
	"verif/harness/vlib"
)

var raceCopySeq int64

// stdAgents builds n agents host1..hostn with generous resources.
func stdAgents(n int) []*simmesos.Agent {
	var as []*simmesos.Agent
	for i := 1; i <= n; i++ {
		h := fmt.Sprintf("host%d", i)
		as = append(as, &simmesos.Agent{ID: "agent-" + h, Hostname: h, Attributes: map[string]string{"machine_id": h},
			CPU: 16, Mem: 16384, Ports: [][2]uint64{{9000, 9200}, {30000, 30200}}})
	}
	return as
}

var addrRe = regexp.MustCompile(`0x[0-9a-f]+`)

// finishSim copies the core's race logs next to the batch's own (so the parent
// parses them) and reports a core crash as a violation attributed to the case.
func finishSim(c *vlib.Ctx, s *coresim.Sim, caseID int64, witness interface{}) (crashed bool) {
	for _, rl := range s.RaceLogs() {
		n := atomic.AddInt64(&raceCopySeq, 1)
		src, err := os.Open(rl)
		if err != nil {
			continue
		}
		dst, err := os.Create(filepath.Join(c.OutDir, fmt.Sprintf("race.core-%d-%d", os.Getpid(), n)))
		if err == nil {
			io.Copy(dst, src)
			dst.Close()
		}
		src.Close()
	}
	if crash := s.CoreCrash(); crash != "" {
		head := strings.SplitN(crash, "\n", 2)[0]
		where := "?"
		for _, ln := range strings.Split(crash, "\n") {
			t := strings.TrimSpace(ln)
			if strings.HasPrefix(t, "/repo/") {
				where = strings.SplitN(strings.TrimPrefix(t, "/repo/"), ":", 2)[0]
				break
			}
			if strings.HasPrefix(t, "/verif/") {
				where = "HARNESS:" + strings.SplitN(t, ":", 2)[0]
				break
			}
		}
		if strings.HasPrefix(where, "HARNESS:") {
			c.Inconclusive("core child crashed in harness code: " + head + " at " + where)
		} else {
			c.Violation("CRASH", addrRe.ReplaceAllString(head, "0x?")+"@"+where, "the core process died: "+truncate(crash, 1500), caseID, witness)
		}
		return true
	}
	return false
}

func truncate(s string, n int) string {
	if len(s) > n {
		return s[:n] + "…"
	}
	return s
}

// parallel runs f(i) for i in [lo,hi) with at most n concurrently.
func parallel(lo, hi, n int, f func(i int)) {
	sem := make(chan struct{}, n)
	var wg sync.WaitGroup
	for i := lo; i < hi; i++ {
		wg.Add(1)
		sem <- struct{}{}
		go func(i int) {
			defer wg.Done()
			defer func() { <-sem }()
			f(i)
		}(i)
	}
	wg.Wait()
}

func grpcMsg(err error) string {
	if err == nil {
		return ""
	}
	if st, ok := status.FromError(err); ok {
		return st.Code().String() + ": " + st.Message()
	}
	return err.Error()
}

// waitQuiet waits until the master log has not grown for `quiet`, at most `max`.
func waitQuiet(s *coresim.Sim, quiet, max time.Duration) {
	deadline := time.Now().Add(max)
	last := s.Master.LogLen()
	lastChange := time.Now()
	for time.Now().Before(deadline) {
		time.Sleep(10 * time.Millisecond)
		if n := s.Master.LogLen(); n != last {
			last = n
			lastChange = time.Now()
		} else if time.Since(lastChange) >= quiet {
			return
		}
	}
}

// barrier is a cyclic barrier whose parties may leave (a client that aborts its
// history must not block the others).
type barrier struct {
	mu      sync.Mutex
	parties int
	waiting int
	ch      chan struct{}
}

func newBarrier(n int) *barrier { return &barrier{parties: n, ch: make(chan struct{})} }

func (b *barrier) releaseLocked() {
	close(b.ch)
	b.ch = make(chan struct{})
	b.waiting = 0
}

func (b *barrier) wait() {
	b.mu.Lock()
	b.waiting++
	if b.waiting >= b.parties {
		b.releaseLocked()
		b.mu.Unlock()
		return
	}
	ch := b.ch
	b.mu.Unlock()
	<-ch
}

func (b *barrier) leave() {
	b.mu.Lock()
	b.parties--
	if b.waiting > 0 && b.waiting >= b.parties {
		b.releaseLocked()
	}
	b.mu.Unlock()
}
