package main

// Semantic model of a workflow template: the generators build Node trees, emit
// them as YAML, and predict the processed role tree with the reference evaluator
// below. The evaluator is written from the property statements (C14, C15) and
// docs/handbook/configuration.md, NOT from core/workflow:
//
//   * a role sees, for a variable, the highest-ranking source that defines it:
//     iteration variable, then user vars, then vars, then defaults; within one kind
//     the definition nearest to the role (role, parent, ..., root, environment-wide);
//     an empty value is a definition;
//   * stage visibility (configuration/template/fields.go STAGE0-5 comment):
//     enabled and the role's own defaults see the parent stack only; own vars see
//     own defaults too; (own user vars see own vars too;) name, task/call fields and
//     constraints/channels see everything of the role; the iteration variable is
//     bound in every field of the generated role and visible to its descendants
//     as a var of that role;
//   * enabled false => role and subtree absent; aggregator without roles => absent;
//     iterator => one child per range element, in order;
//   * any template error in an evaluated field => the load fails.

import (
	"encoding/json"
	"fmt"
	"sort"
	"strconv"
	"strings"
)

type KV struct {
	K string `json:"k"`
	V Tpl    `json:"v"`
	// Null: the YAML form of an EMPTY value: "" (key: ""), "bare" (key:), "~" (key: ~),
	// "null" (key: null). The last three are YAML !!null scalars.
	Null string `json:"null,omitempty"`
}

// nullValue: what an empty placement written in form f defines. A bare `key:` is
// the empty string. For `~` and `null` the statement leaves the value open (the
// tree stores the scalar's text); both readings are evaluated and either is
// accepted - in every reading the key IS defined at that level.
func nullValue(f string, asText bool) string {
	if asText && (f == "~" || f == "null") {
		return f
	}
	return ""
}

type IterSpec struct {
	Var   string `json:"var"`
	List  bool   `json:"list"`            // range: form (JSON list) instead of begin/end
	Begin Tpl    `json:"begin,omitempty"` // begin/end form
	End   Tpl    `json:"end,omitempty"`
	Range Tpl    `json:"range,omitempty"` // list form
}

type Chan struct {
	Name   string `json:"name"`
	Type   string `json:"type"`
	Target Tpl    `json:"target,omitempty"` // connect
	Global Tpl    `json:"global,omitempty"` // bind
}

type Node struct {
	ID          int       `json:"id"`
	Kind        string    `json:"kind"` // agg | task | call | include
	Name        Tpl       `json:"name"`
	Iter        *IterSpec `json:"iter,omitempty"`
	Enabled     Tpl       `json:"enabled,omitempty"` // nil: attribute not written (default true)
	EnabledBare bool      `json:"enabledBare,omitempty"`
	// EnabledBlock: written as a YAML block scalar (enabled: |), i.e. with a trailing newline
	EnabledBlock bool `json:"enabledBlock,omitempty"`
	// EnabledWS: the value the expression resolves to carries surrounding white space
	EnabledWS   bool    `json:"enabledWS,omitempty"`
	Defaults    []KV    `json:"defaults,omitempty"`
	Vars        []KV    `json:"vars,omitempty"`
	Constraints []KV    `json:"constraints,omitempty"`
	Connect     []Chan  `json:"connect,omitempty"`
	Bind        []Chan  `json:"bind,omitempty"`
	Children    []*Node `json:"children,omitempty"`

	Class    string `json:"class,omitempty"`
	Trigger  string `json:"trigger,omitempty"`
	Await    string `json:"await,omitempty"`
	Timeout  Tpl    `json:"timeout,omitempty"`
	Critical *bool  `json:"critical,omitempty"`
	Func     string `json:"func,omitempty"`
	Return   string `json:"return,omitempty"`

	IncludeFile string `json:"includeFile,omitempty"`
	Sub         *Node  `json:"sub,omitempty"` // root of the included workflow (Kind agg)
}

// ---------- YAML emission ----------

func emitKVs(sb *strings.Builder, ind, key string, kvs []KV) {
	if len(kvs) == 0 {
		return
	}
	sb.WriteString(ind + key + ":\n")
	for _, kv := range kvs {
		switch {
		case kv.Null == "bare" && kv.V.Text() == "":
			sb.WriteString(ind + "  " + kv.K + ":\n")
		case (kv.Null == "~" || kv.Null == "null") && kv.V.Text() == "":
			sb.WriteString(ind + "  " + kv.K + ": " + kv.Null + "\n")
		default:
			sb.WriteString(ind + "  " + kv.K + ": " + q(kv.V.Text()) + "\n")
		}
	}
}

// emitBody writes the attributes of n at indentation ind (name first).
func emitBody(sb *strings.Builder, n *Node, ind string, first string) {
	sb.WriteString(first + "name: " + q(n.Name.Text()) + "\n")
	if n.Iter != nil {
		sb.WriteString(ind + "for:\n")
		if n.Iter.List {
			sb.WriteString(ind + "  range: " + q(n.Iter.Range.Text()) + "\n")
		} else {
			sb.WriteString(ind + "  begin: " + q(n.Iter.Begin.Text()) + "\n")
			sb.WriteString(ind + "  end: " + q(n.Iter.End.Text()) + "\n")
		}
		sb.WriteString(ind + "  var: " + n.Iter.Var + "\n")
	}
	if n.Enabled != nil {
		if n.EnabledBlock {
			sb.WriteString(ind + "enabled: |\n" + ind + "  " + n.Enabled.Text() + "\n")
		} else if n.EnabledBare && !n.Enabled.HasExpr() {
			sb.WriteString(ind + "enabled: " + n.Enabled.Text() + "\n")
		} else {
			sb.WriteString(ind + "enabled: " + q(n.Enabled.Text()) + "\n")
		}
	}
	emitKVs(sb, ind, "defaults", n.Defaults)
	emitKVs(sb, ind, "vars", n.Vars)
	if len(n.Constraints) > 0 {
		sb.WriteString(ind + "constraints:\n")
		for _, c := range n.Constraints {
			sb.WriteString(ind + "  - attribute: " + c.K + "\n")
			sb.WriteString(ind + "    value: " + q(c.V.Text()) + "\n")
		}
	}
	if len(n.Connect) > 0 {
		sb.WriteString(ind + "connect:\n")
		for _, c := range n.Connect {
			sb.WriteString(ind + "  - name: " + c.Name + "\n")
			sb.WriteString(ind + "    type: " + c.Type + "\n")
			sb.WriteString(ind + "    target: " + q(c.Target.Text()) + "\n")
		}
	}
	if len(n.Bind) > 0 {
		sb.WriteString(ind + "bind:\n")
		for _, c := range n.Bind {
			sb.WriteString(ind + "  - name: " + c.Name + "\n")
			sb.WriteString(ind + "    type: " + c.Type + "\n")
			sb.WriteString(ind + "    global: " + q(c.Global.Text()) + "\n")
		}
	}
	switch n.Kind {
	case "task":
		sb.WriteString(ind + "task:\n")
		sb.WriteString(ind + "  load: " + n.Class + "\n")
		if n.Trigger != "" {
			sb.WriteString(ind + "  trigger: " + n.Trigger + "\n")
		}
		if n.Await != "" {
			sb.WriteString(ind + "  await: " + n.Await + "\n")
		}
		if n.Timeout != nil {
			sb.WriteString(ind + "  timeout: " + q(n.Timeout.Text()) + "\n")
		}
		if n.Critical != nil {
			sb.WriteString(ind + "  critical: " + strconv.FormatBool(*n.Critical) + "\n")
		}
	case "call":
		sb.WriteString(ind + "call:\n")
		sb.WriteString(ind + "  func: " + q(n.Func) + "\n")
		if n.Return != "" {
			sb.WriteString(ind + "  return: " + n.Return + "\n")
		}
		if n.Trigger != "" {
			sb.WriteString(ind + "  trigger: " + n.Trigger + "\n")
		}
		if n.Await != "" {
			sb.WriteString(ind + "  await: " + n.Await + "\n")
		}
		if n.Timeout != nil {
			sb.WriteString(ind + "  timeout: " + q(n.Timeout.Text()) + "\n")
		}
		if n.Critical != nil {
			sb.WriteString(ind + "  critical: " + strconv.FormatBool(*n.Critical) + "\n")
		}
	case "include":
		sb.WriteString(ind + "include: " + n.IncludeFile + "\n")
	case "agg":
		if len(n.Children) == 0 {
			sb.WriteString(ind + "roles: []\n")
			return
		}
		sb.WriteString(ind + "roles:\n")
		for _, c := range n.Children {
			emitBody(sb, c, ind+"    ", ind+"  - ")
		}
	}
}

// Files returns every workflow file of the program rooted at root
// (workflows/<name>.yaml for the root and for each included sub-workflow).
func Files(root *Node) map[string]string {
	out := map[string]string{}
	var sb strings.Builder
	emitBody(&sb, root, "", "")
	out["workflows/"+root.Name.Text()+".yaml"] = sb.String()
	var walk func(n *Node)
	walk = func(n *Node) {
		if n.Kind == "include" && n.Sub != nil {
			var sb strings.Builder
			emitBody(&sb, n.Sub, "", "")
			out["workflows/"+n.IncludeFile+".yaml"] = sb.String()
			walk(n.Sub)
		}
		for _, c := range n.Children {
			walk(c)
		}
	}
	walk(root)
	return out
}

// ---------- reference evaluation ----------

// Layer is what a role offers to its children: per kind, the nearest definition
// of every key on the path role -> root -> environment-wide.
type Layer struct {
	D, V, U map[string]string
}

func copyMap(m map[string]string) map[string]string {
	out := make(map[string]string, len(m))
	for k, v := range m {
		out[k] = v
	}
	return out
}

func over(base, own map[string]string) map[string]string {
	out := copyMap(base)
	for k, v := range own {
		out[k] = v // an empty value is a definition
	}
	return out
}

func (l Layer) Stack() map[string]string {
	return over(over(l.D, l.V), l.U)
}

type ErrHit struct {
	Node      int    `json:"node"`
	Field     string `json:"field"`     // enabled | defaults | vars | name | timeout | constraints | connect | bind | range
	Container string `json:"container"` // iterator | aggregator (what processes the failing role next to its siblings)
	Elem      string `json:"elem,omitempty"`
	Path      string `json:"path"`
}

type Slot struct {
	Present   *XRole
	Reason    string   // disabled | empty/plain-children | empty/has-iterator-child | error
	WouldBe   []string // names under which a wrongly kept role could show up
	FromIter  bool
	IterEnTpl bool // the iterator role carries a templated `enabled`
	Kind      string
}

type XRole struct {
	Kind        string
	Name        string
	Path        string
	L           Layer             // flattened per kind, as the role's ConsolidatedVarMaps
	Stack       map[string]string // as the role's ConsolidatedVarStack
	OwnD, OwnV  map[string]string // own evaluated layers (not judged for include roles)
	Bound       map[string]string // iteration variable(s) bound in this role
	Constraints []string
	Connect     []string
	Bind        []string
	Trigger     string
	Await       string
	Timeout     string
	Critical    bool
	Class       string
	Func        string
	Return      string
	Children    []*XRole
	Slots       []Slot
	FromIter    bool
	IterEnTpl   bool
	node        *Node
}

type EvalState struct {
	Errs []ErrHit
	// statistics of the program (for counters and non-triviality)
	Iterators, EmptyRanges, DisabledRoles, EmptyAggs, IterChildren, Includes, Roles int
	CrossRefs                                                                       int
	WsEnabledTrue, WsEnabledFalse                                                   int
	// onStage0, when set, is called before a role's `enabled` is evaluated (used by
	// the C14 generator to fill in probe literals during a first prediction)
	onStage0 func(n *Node, look lookupFn)
	// IterVals: the values every iteration variable took during the evaluation
	IterVals map[string]map[string]bool
	// NullAsText: `key: ~` / `key: null` define the scalar's text instead of ""
	NullAsText bool
}

func parseRange(it *IterSpec, look lookupFn) ([]string, error) {
	if it.List {
		txt, err := it.Range.Eval(look)
		if err != nil {
			return nil, err
		}
		var lst []string
		if err := json.Unmarshal([]byte(txt), &lst); err != nil {
			return nil, fmt.Errorf("%w: range is not a JSON list of strings: %v", errTemplate, err)
		}
		return lst, nil
	}
	bs, err := it.Begin.Eval(look)
	if err != nil {
		return nil, err
	}
	es, err := it.End.Eval(look)
	if err != nil {
		return nil, err
	}
	b, err := strconv.Atoi(bs)
	if err != nil {
		return nil, fmt.Errorf("%w: begin: %v", errTemplate, err)
	}
	e, err := strconv.Atoi(es)
	if err != nil {
		return nil, fmt.Errorf("%w: end: %v", errTemplate, err)
	}
	var out []string
	for j := b; j <= e; j++ {
		out = append(out, strconv.Itoa(j))
	}
	return out, nil
}

func isTrue(s string) bool {
	t := strings.ToLower(strings.TrimSpace(s))
	return t == "true" || t == "1"
}

func joinPath(parent, name string) string {
	if parent == "" {
		return name
	}
	return parent + "." + name
}

// evalRole evaluates n (one instance: locals carries the iteration variable if n
// is an iterator template) under the parent layer.
func evalRole(n *Node, parent Layer, parentPath string, locals map[string]string, container string, st *EvalState) (x *XRole, reason string, wouldBe []string) {
	ownD, ownV := map[string]string{}, map[string]string{}
	look := func(stage int) lookupFn {
		return func(name string) (string, bool) {
			if v, ok := locals[name]; ok {
				return v, true
			}
			if v, ok := parent.U[name]; ok { // no own user vars exist at load time
				return v, true
			}
			if stage >= 3 {
				if v, ok := ownV[name]; ok {
					return v, true
				}
			}
			if v, ok := parent.V[name]; ok {
				return v, true
			}
			if stage >= 2 {
				if v, ok := ownD[name]; ok {
					return v, true
				}
			}
			if v, ok := parent.D[name]; ok {
				return v, true
			}
			return "", false
		}
	}
	elem := ""
	for k, v := range locals {
		elem = v
		if st.IterVals == nil {
			st.IterVals = map[string]map[string]bool{}
		}
		if st.IterVals[k] == nil {
			st.IterVals[k] = map[string]bool{}
		}
		st.IterVals[k][v] = true
	}
	rawName := n.Name.Text()
	wouldBe = []string{rawName}
	if nm, err := n.Name.Eval(look(0)); err == nil {
		wouldBe = append(wouldBe, nm)
	}
	fail := func(field string) (*XRole, string, []string) {
		st.Errs = append(st.Errs, ErrHit{Node: n.ID, Field: field, Container: container, Elem: elem, Path: joinPath(parentPath, rawName)})
		return nil, "error", wouldBe
	}
	// STAGE0
	if st.onStage0 != nil {
		st.onStage0(n, look(0))
	}
	if n.Enabled != nil {
		en, err := n.Enabled.Eval(look(0))
		if err != nil {
			return fail("enabled")
		}
		if n.EnabledBlock {
			en += "\n"
		}
		// the resolved text counts trimmed and case-insensitively: " false " disables,
		// "true\n" enables (core/workflow roleBase.IsEnabled)
		if !isTrue(en) {
			st.DisabledRoles++
			if n.EnabledWS {
				st.WsEnabledFalse++
			}
			return nil, "disabled", wouldBe
		}
		if n.EnabledWS {
			st.WsEnabledTrue++
		}
	}
	// STAGE1: own defaults see the parent stack only
	for _, kv := range n.Defaults {
		v, err := kv.V.Eval(look(1))
		if err != nil {
			return fail("defaults")
		}
		if kv.Null != "" && v == "" {
			v = nullValue(kv.Null, st.NullAsText)
		}
		ownD[kv.K] = v
	}
	// STAGE2: own vars see own defaults
	tmpV := map[string]string{}
	for _, kv := range n.Vars {
		v, err := kv.V.Eval(look(2))
		if err != nil {
			return fail("vars")
		}
		if kv.Null != "" && v == "" {
			v = nullValue(kv.Null, st.NullAsText)
		}
		tmpV[kv.K] = v
	}
	for k, v := range tmpV {
		ownV[k] = v
	}
	// STAGE4
	name, err := n.Name.Eval(look(4))
	if err != nil {
		return fail("name")
	}
	wouldBe = append(wouldBe, name)
	x = &XRole{Kind: n.Kind, Name: name, Path: joinPath(parentPath, name), node: n, Bound: copyMap(locals)}
	if n.Kind == "task" || n.Kind == "call" {
		x.Trigger, x.Await = n.Trigger, n.Await
		x.Critical = true
		if n.Critical != nil {
			x.Critical = *n.Critical
		}
		if n.Timeout != nil {
			x.Timeout, err = n.Timeout.Eval(look(4))
			if err != nil {
				return fail("timeout")
			}
		}
		if n.Trigger != "" {
			if n.Timeout == nil {
				x.Timeout = "30s"
			}
			if n.Await == "" {
				x.Await = n.Trigger
			}
		} else if n.Timeout == nil {
			x.Timeout = "0s"
		}
		x.Class, x.Func, x.Return = n.Class, n.Func, n.Return
	}
	// STAGE5
	for _, c := range n.Constraints {
		v, err := c.V.Eval(look(5))
		if err != nil {
			return fail("constraints")
		}
		x.Constraints = append(x.Constraints, c.K+" EQUALS "+v)
	}
	for _, c := range n.Connect {
		v, err := c.Target.Eval(look(5))
		if err != nil {
			return fail("connect")
		}
		x.Connect = append(x.Connect, c.Name+"|"+c.Type+"|"+v)
	}
	for _, c := range n.Bind {
		v, err := c.Global.Eval(look(5))
		if err != nil {
			return fail("bind")
		}
		x.Bind = append(x.Bind, c.Name+"|"+c.Type+"|"+v)
	}
	// the iteration variable becomes a var of the role (visible to descendants)
	for k, v := range locals {
		ownV[k] = v
	}
	x.OwnD, x.OwnV = ownD, ownV
	x.L = Layer{D: over(parent.D, ownD), V: over(parent.V, ownV), U: copyMap(parent.U)}
	x.Stack = x.L.Stack()
	st.Roles++

	switch n.Kind {
	case "task", "call":
		return x, "", wouldBe
	case "include":
		st.Includes++
		// the included workflow's root takes the place of the include role (keeping its
		// name and position) and is processed as an aggregator below it in the hierarchy
		sub, r, _ := evalRole(n.Sub, x.L, parentPath, nil, container, st)
		if sub == nil {
			if r == "error" {
				return nil, "error", wouldBe
			}
			return nil, r, wouldBe
		}
		// NB: n.Sub.Name is literal and equals... nothing: the role keeps the include role's name
		sub.Kind, sub.Name, sub.Path, sub.node = "include", x.Name, x.Path, n
		sub.Bound = x.Bound
		fixPaths(sub)
		return sub, "", wouldBe
	}
	// aggregator
	anyErr := false
	hasIter := false
	for _, c := range n.Children {
		if c.Iter == nil {
			cx, r, wb := evalRole(c, x.L, x.Path, nil, "aggregator", st)
			x.Slots = append(x.Slots, Slot{Present: cx, Reason: r, WouldBe: wb, Kind: c.Kind})
			if r == "error" {
				anyErr = true
			}
			continue
		}
		hasIter = true
		st.Iterators++
		// the range is evaluated against the enclosing role's stack
		stack := x.L.Stack()
		ran, err := parseRange(c.Iter, func(name string) (string, bool) { v, ok := stack[name]; return v, ok })
		if err != nil {
			st.Errs = append(st.Errs, ErrHit{Node: c.ID, Field: "range", Container: "aggregator", Path: joinPath(x.Path, c.Name.Text())})
			anyErr = true
			x.Slots = append(x.Slots, Slot{Reason: "error", WouldBe: []string{c.Name.Text()}, FromIter: true, Kind: c.Kind})
			continue
		}
		if len(ran) == 0 {
			st.EmptyRanges++
		}
		enTpl := c.Enabled != nil && c.Enabled.HasExpr()
		for _, el := range ran {
			st.IterChildren++
			cx, r, wb := evalRole(c, x.L, x.Path, map[string]string{c.Iter.Var: el}, "iterator", st)
			if cx != nil {
				cx.FromIter, cx.IterEnTpl = true, enTpl
			}
			x.Slots = append(x.Slots, Slot{Present: cx, Reason: r, WouldBe: wb, FromIter: true, IterEnTpl: enTpl, Kind: c.Kind})
			if r == "error" {
				anyErr = true
			}
		}
	}
	for _, s := range x.Slots {
		if s.Present != nil {
			x.Children = append(x.Children, s.Present)
		}
	}
	if anyErr {
		return nil, "error", wouldBe
	}
	if len(x.Children) == 0 {
		st.EmptyAggs++
		for _, s := range x.Slots {
			// emptiness that hinges on an aggregator emptied by its iterators
			if s.Reason == "empty/has-iterator-child" {
				hasIter = true
			}
		}
		if hasIter {
			return nil, "empty/has-iterator-child", wouldBe
		}
		return nil, "empty/plain-children", wouldBe
	}
	return x, "", wouldBe
}

// fixPaths recomputes the paths below x after x.Path changed.
func fixPaths(x *XRole) {
	for _, c := range x.Children {
		c.Path = joinPath(x.Path, c.Name)
		fixPaths(c)
	}
}

// Predict evaluates the whole program. tree == nil with no errors means: the
// root itself ends up disabled/empty.
func Predict(root *Node, env Layer) (tree *XRole, reason string, st *EvalState) {
	return PredictOpt(root, env, false)
}

func PredictOpt(root *Node, env Layer, nullAsText bool) (tree *XRole, reason string, st *EvalState) {
	st = &EvalState{NullAsText: nullAsText}
	if env.D == nil {
		env.D = map[string]string{}
	}
	if env.V == nil {
		env.V = map[string]string{}
	}
	if env.U == nil {
		env.U = map[string]string{}
	}
	tree, reason, _ = evalRole(root, env, "", nil, "root", st)
	if len(st.Errs) > 0 {
		tree = nil
	}
	return
}

func sortedKeys(m map[string]string) []string {
	ks := make([]string, 0, len(m))
	for k := range m {
		ks = append(ks, k)
	}
	sort.Strings(ks)
	return ks
}

func mapsEqual(a, b map[string]string) bool {
	if len(a) != len(b) {
		return false
	}
	for k, v := range a {
		if w, ok := b[k]; !ok || w != v {
			return false
		}
	}
	return true
}

func firstMapDiff(want, got map[string]string) string {
	for _, k := range sortedKeys(want) {
		g, ok := got[k]
		if !ok {
			return fmt.Sprintf("%s: want %q, key absent", k, want[k])
		}
		if g != want[k] {
			return fmt.Sprintf("%s: want %q, got %q", k, want[k], g)
		}
	}
	for _, k := range sortedKeys(got) {
		if _, ok := want[k]; !ok {
			return fmt.Sprintf("%s: want absent, got %q", k, got[k])
		}
	}
	return ""
}
