package main

// Comparison of the role tree the real workflow.Load produced with the tree the
// reference evaluator predicts. Iterator nodes are transparent (as in GetRoles()):
// the statement speaks about roles, an iterator is not a role of the result.

import (
	"fmt"
	"regexp"
	"sort"
	"strings"

	"github.com/AliceO2Group/Control/core/workflow"
)

type ARole struct {
	I        *workflow.VerifRoleInfo
	Children []*ARole
}

func flattenActual(i *workflow.VerifRoleInfo) *ARole {
	a := &ARole{I: i}
	var add func(ch []*workflow.VerifRoleInfo)
	add = func(ch []*workflow.VerifRoleInfo) {
		for _, c := range ch {
			if c == nil {
				a.Children = append(a.Children, &ARole{I: &workflow.VerifRoleInfo{Kind: "nil-role", Name: "<nil>"}})
				continue
			}
			if c.Kind == "iterator" {
				add(c.Children)
				continue
			}
			a.Children = append(a.Children, flattenActual(c))
		}
	}
	add(i.Children)
	return a
}

var classSuffix = regexp.MustCompile(`@[^"]*`)

// canonDump strips the time-dependent "@<hash>" suffix of local task classes.
func canonDump(s string) string { return classSuffix.ReplaceAllString(s, "") }

type Finding struct {
	Class  string
	Detail string
}

type diffOpts struct {
	// stackClass, when set, refines the class of a variable mismatch (C14)
	stackClass func(field, key, want, got string, wantOK, gotOK bool) string
	skipOwn    bool
}

func kindName(k string) string {
	switch k {
	case "agg":
		return "aggregator"
	}
	return k
}

func actualConnect(ss []string) []string { return ss }
func actualBind(ss []string) []string    { return ss }

func sliceEq(a, b []string) bool {
	if len(a) != len(b) {
		return false
	}
	for i := range a {
		if a[i] != b[i] {
			return false
		}
	}
	return true
}

func mapDiffKey(want, got map[string]string) (key string, w, g string, wok, gok bool) {
	for _, k := range sortedKeys(want) {
		gv, ok := got[k]
		if !ok || gv != want[k] {
			return k, want[k], gv, true, ok
		}
	}
	for _, k := range sortedKeys(got) {
		if _, ok := want[k]; !ok {
			return k, "", got[k], false, true
		}
	}
	return "", "", "", false, false
}

// d1Explains: the role is missing only because it (or everything below it) comes
// from an iterator role that carries a templated `enabled`.
func d1Explains(x *XRole) bool {
	if x.FromIter && x.IterEnTpl {
		return true
	}
	if len(x.Children) == 0 {
		return false
	}
	for _, c := range x.Children {
		if !d1Explains(c) {
			return false
		}
	}
	return true
}

func diffRole(x *XRole, a *ARole, o *diffOpts, out *[]Finding) {
	add := func(class, detail string) {
		*out = append(*out, Finding{class, x.Path + ": " + detail})
	}
	ai := a.I
	if kindName(x.Kind) != ai.Kind {
		add("field/kind", fmt.Sprintf("want %s got %s", kindName(x.Kind), ai.Kind))
		return
	}
	if x.Name != ai.Name || x.Path != ai.Path {
		add("field/name", fmt.Sprintf("want name %q path %q, got name %q path %q", x.Name, x.Path, ai.Name, ai.Path))
	}
	if !ai.IsEnabled {
		add("field/enabled", fmt.Sprintf("role present but its enabled is %q", ai.Enabled))
	}
	varDiff := func(field string, want, got map[string]string) {
		if mapsEqual(want, got) {
			return
		}
		k, w, g, wok, gok := mapDiffKey(want, got)
		cl := "vars/" + field
		if o != nil && o.stackClass != nil {
			cl = o.stackClass(field, k, w, g, wok, gok)
		}
		add(cl, fmt.Sprintf("%s[%s]: want (%q,%v) got (%q,%v)", field, k, w, wok, g, gok))
	}
	if ai.StackErr != "" {
		add("field/stack-error", ai.StackErr)
	}
	varDiff("stack", x.Stack, ai.Stack)
	varDiff("flat-defaults", x.L.D, ai.FlatDefaults)
	varDiff("flat-vars", x.L.V, ai.FlatVars)
	varDiff("flat-uservars", x.L.U, ai.FlatUserVars)
	if x.Kind != "include" && (o == nil || !o.skipOwn) {
		varDiff("own-defaults", x.OwnD, ai.Defaults)
		varDiff("own-vars", x.OwnV, ai.Vars)
	}
	for k, v := range x.Bound {
		if x.Stack[k] != v {
			continue // legitimately shadowed (an included workflow's root redefines the name)
		}
		if g, ok := ai.Stack[k]; !ok || g != v {
			add("iterator/bound-variable", fmt.Sprintf("iteration variable %s: want %q, role sees (%q,%v)", k, v, g, ok))
		}
		if x.Kind != "include" {
			if g, ok := ai.Locals[k]; !ok || g != v {
				add("iterator/bound-variable", fmt.Sprintf("iteration variable %s: want %q, role's local is (%q,%v)", k, v, g, ok))
			}
		}
	}
	if !sliceEq(x.Constraints, ai.Constraints) {
		add("field/constraints", fmt.Sprintf("want %v got %v", x.Constraints, ai.Constraints))
	}
	if g := actualConnect(ai.Connect); !sliceEq(x.Connect, g) {
		add("field/connect", fmt.Sprintf("want %v got %v", x.Connect, g))
	}
	if g := actualBind(ai.Bind); !sliceEq(x.Bind, g) {
		add("field/bind", fmt.Sprintf("want %v got %v", x.Bind, g))
	}
	if x.Kind == "task" || x.Kind == "call" {
		if x.Trigger != ai.Trigger || x.Await != ai.Await || x.Timeout != ai.Timeout || x.Critical != ai.Critical {
			add("field/traits", fmt.Sprintf("want (%s,%s,%s,%v) got (%s,%s,%s,%v)", x.Trigger, x.Await, x.Timeout, x.Critical, ai.Trigger, ai.Await, ai.Timeout, ai.Critical))
		}
	}
	if x.Kind == "task" {
		cl := classSuffix.ReplaceAllString(ai.TaskClass, "")
		if !strings.HasSuffix(cl, "/tasks/"+x.Class) {
			add("field/task-class", fmt.Sprintf("want .../tasks/%s got %s", x.Class, ai.TaskClass))
		}
	}
	if x.Kind == "call" && (x.Func != ai.FuncCall || x.Return != ai.ReturnVar) {
		add("field/call", fmt.Sprintf("want (%s,%s) got (%s,%s)", x.Func, x.Return, ai.FuncCall, ai.ReturnVar))
	}

	// children
	var wantNames, gotNames []string
	for _, c := range x.Children {
		wantNames = append(wantNames, c.Name)
	}
	for _, c := range a.Children {
		gotNames = append(gotNames, c.I.Name)
	}
	if !sliceEq(wantNames, gotNames) {
		sw, sg := append([]string{}, wantNames...), append([]string{}, gotNames...)
		sort.Strings(sw)
		sort.Strings(sg)
		if sliceEq(sw, sg) {
			fromIter := false
			for _, c := range x.Children {
				fromIter = fromIter || c.FromIter
			}
			cl := "children-order"
			if fromIter {
				cl = "children-order/iteration"
			}
			add(cl, fmt.Sprintf("want %v got %v", wantNames, gotNames))
			return
		}
	}
	j := 0
	for _, s := range x.Slots {
		if s.Present != nil {
			if j < len(a.Children) && a.Children[j].I.Name == s.Present.Name {
				diffRole(s.Present, a.Children[j], o, out)
				j++
				continue
			}
			cl := "role-missing/" + kindName(s.Present.Kind)
			if s.FromIter {
				cl += "/iteration-child"
			}
			if d1Explains(s.Present) {
				cl = "role-missing/iterator-with-enabled-expression"
			}
			*out = append(*out, Finding{cl, fmt.Sprintf("%s: expected role is absent; children present: %v", s.Present.Path, gotNames)})
			continue
		}
		if j < len(a.Children) {
			hit := false
			for _, w := range s.WouldBe {
				if a.Children[j].I.Name == w {
					hit = true
				}
			}
			if hit {
				cl := "role-present/" + s.Reason
				if s.Reason == "disabled" && s.FromIter {
					cl += "/iteration-child"
				}
				*out = append(*out, Finding{cl, fmt.Sprintf("%s: role must be absent (%s) but is present (enabled=%q, %d children)", a.Children[j].I.Path, s.Reason, a.Children[j].I.Enabled, len(a.Children[j].Children))})
				j++
			}
		}
	}
	for ; j < len(a.Children); j++ {
		*out = append(*out, Finding{"role-unexpected/" + a.Children[j].I.Kind, fmt.Sprintf("%s: not predicted (want children %v, got %v)", a.Children[j].I.Path, wantNames, gotNames)})
	}
}

// diffTree compares the prediction with the actual root. A predicted nil tree
// means the root itself is disabled/empty.
func diffTree(x *XRole, rootReason string, info *workflow.VerifRoleInfo, o *diffOpts) []Finding {
	var out []Finding
	a := flattenActual(info)
	if x == nil {
		if info.IsEnabled || len(a.Children) > 0 {
			out = append(out, Finding{"role-present/" + rootReason, fmt.Sprintf("root must end up disabled/empty (%s) but is enabled=%v with %d roles", rootReason, info.IsEnabled, len(a.Children))})
		}
		return out
	}
	if !info.IsEnabled {
		cl := "role-missing/root"
		if d1Explains(x) {
			cl = "role-missing/iterator-with-enabled-expression"
		}
		return []Finding{{cl, "root is disabled although roles are expected below it"}}
	}
	diffRole(x, a, o, &out)
	return out
}
