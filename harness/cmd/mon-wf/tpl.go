package main

// The template subset the generators emit, with a reference evaluation written
// from docs/handbook/configuration.md ("{{ expression }}" is replaced by the value
// of the expression; variables are looked up in the stack visible to the field).

import (
	"encoding/json"
	"errors"
	"fmt"
	"strings"
)

type PartKind int

const (
	PLit       PartKind = iota // literal text
	PRef                       // {{ v }}
	PEq                        // {{ v == 'lit' }}
	PNe                        // {{ v != 'lit' }}
	PPrefOver                  // {{ util.PrefixedOverride('v', 'lit') }}: lit_v if defined and usable, else v if defined and usable, else ""
	PErrOpen                   // "{{ v" without end tag (malformed; must be the last part)
	PErrFunc                   // {{ nofunc.X() }}  undefined function object
	PErrVar                    // {{ undefined_zz }} undefined variable
	PErrSyntax                 // {{ 1 + }}
	PErrIfEq                   // {{ [0][v == 'lit' ? 1 : 0] }}: renders 0, run-time error iff v == lit
)

type Part struct {
	K   PartKind `json:"k"`
	S   string   `json:"s,omitempty"`   // literal text / variable name
	Lit string   `json:"lit,omitempty"` // comparison literal
}

type Tpl []Part

func Lit(s string) Tpl { return Tpl{{K: PLit, S: s}} }
func Ref(v string) Tpl { return Tpl{{K: PRef, S: v}} }
func (t Tpl) IsErr() bool {
	for _, p := range t {
		if p.K >= PErrOpen {
			return true
		}
	}
	return false
}

// HasExpr reports whether the text contains a template expression at all.
func (t Tpl) HasExpr() bool {
	for _, p := range t {
		if p.K != PLit {
			return true
		}
	}
	return false
}

func (t Tpl) Text() string {
	var sb strings.Builder
	for _, p := range t {
		switch p.K {
		case PLit:
			sb.WriteString(p.S)
		case PRef:
			sb.WriteString("{{ " + p.S + " }}")
		case PEq:
			sb.WriteString("{{ " + p.S + " == '" + p.Lit + "' }}")
		case PNe:
			sb.WriteString("{{ " + p.S + " != '" + p.Lit + "' }}")
		case PPrefOver:
			sb.WriteString("{{ util.PrefixedOverride('" + p.S + "', '" + p.Lit + "') }}")
		case PErrOpen:
			sb.WriteString("{{ " + p.S)
		case PErrFunc:
			sb.WriteString("{{ nofunc.X() }}")
		case PErrVar:
			sb.WriteString("{{ undefined_zz }}")
		case PErrSyntax:
			sb.WriteString("{{ 1 + }}")
		case PErrIfEq:
			sb.WriteString("{{ [0][" + p.S + " == '" + p.Lit + "' ? 1 : 0] }}")
		}
	}
	return sb.String()
}

// Refs lists the variables the text reads.
func (t Tpl) Refs() []string {
	var out []string
	for _, p := range t {
		switch p.K {
		case PRef, PEq, PNe, PErrIfEq:
			out = append(out, p.S)
		}
	}
	return out
}

type lookupFn func(name string) (string, bool)

var errTemplate = errors.New("template error")

// Eval is the reference evaluation. Any error part, and any reference to a
// variable the stage cannot see, is a template error.
func (t Tpl) Eval(look lookupFn) (string, error) {
	var sb strings.Builder
	for _, p := range t {
		switch p.K {
		case PLit:
			sb.WriteString(p.S)
		case PRef:
			v, ok := look(p.S)
			if !ok {
				return "", fmt.Errorf("%w: unknown name %s", errTemplate, p.S)
			}
			sb.WriteString(v)
		case PEq, PNe:
			v, ok := look(p.S)
			if !ok {
				return "", fmt.Errorf("%w: unknown name %s", errTemplate, p.S)
			}
			if (v == p.Lit) == (p.K == PEq) {
				sb.WriteString("true")
			} else {
				sb.WriteString("false")
			}
		case PPrefOver:
			// a variable that is not defined, is "none" or is blank does not count; never an error
			usable := func(name string) (string, bool) {
				v, ok := look(name)
				if !ok || v == "none" || strings.TrimSpace(v) == "" {
					return "", false
				}
				return v, true
			}
			if v, ok := usable(p.Lit + "_" + p.S); ok {
				sb.WriteString(v)
			} else if v, ok := usable(p.S); ok {
				sb.WriteString(v)
			}
		case PErrIfEq:
			v, ok := look(p.S)
			if !ok {
				return "", fmt.Errorf("%w: unknown name %s", errTemplate, p.S)
			}
			if v == p.Lit {
				return "", fmt.Errorf("%w: index out of range when %s == %q", errTemplate, p.S, p.Lit)
			}
			sb.WriteString("0")
		default:
			return "", fmt.Errorf("%w: injected (%d)", errTemplate, p.K)
		}
	}
	return sb.String(), nil
}

// q renders a string as a YAML double-quoted scalar (JSON string syntax is a
// subset of it for the ASCII alphabet the generators use).
func q(s string) string {
	b, _ := json.Marshal(s)
	return string(b)
}
