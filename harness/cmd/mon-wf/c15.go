package main

// C15 - loading a workflow is deterministic and prunes disabled roles.
// Every generated program is loaded under the 8 settings of the three
// concurrency switches, twice each, through the real workflow.Load.

import (
	"fmt"
	"os"
	"path/filepath"
	"runtime"
	"sort"
	"strings"

	"github.com/AliceO2Group/Control/common/event"
	"github.com/AliceO2Group/Control/common/gera"
	"github.com/AliceO2Group/Control/common/utils/uid"
	"github.com/AliceO2Group/Control/core/workflow"
	"github.com/spf13/viper"

	"verif/harness/inproc"
	"verif/harness/vlib"
)

const taskTemplate = `name: %s
defaults:
  tk: tdef
control:
  mode: basic
wants:
  cpu: 0.01
  memory: 1
command:
  shell: true
  value: "true"
`

var switchKeys = []string{"concurrentWorkflowTemplateProcessing", "concurrentWorkflowTemplateIteratorProcessing", "concurrentIteratorRoleExpansion"}

func setSwitches(s int) {
	for b, k := range switchKeys {
		viper.Set(k, s&(1<<b) != 0)
	}
}

func switchName(s int) string {
	return fmt.Sprintf("agg=%d,iter=%d,expand=%d", s&1, (s>>1)&1, (s>>2)&1)
}

func setupEnv(c *vlib.Ctx) *inproc.Env {
	files := map[string]string{}
	for _, t := range taskClasses {
		files["tasks/"+t+".yaml"] = fmt.Sprintf(taskTemplate, t)
	}
	e, err := inproc.Setup(files, nil)
	if err != nil {
		c.Inconclusive("inproc.Setup: " + err.Error())
		return nil
	}
	return e
}

type loadOutcome struct {
	Setting int
	Rep     int
	Err     string // non-empty: Load returned an error
	Dump    string // canonical dump otherwise
	info    *workflow.VerifRoleInfo
	TreeToo bool // an error came with a non-nil role
}

func c15Case(c *vlib.Ctx, e *inproc.Env, idx int) {
	r := c.SubRand(int64(idx))
	prefix := fmt.Sprintf("p%db%dx%d", c.Seed, c.Batch, idx)
	p := genProgram(r, prefix, idx)
	tree, rootReason, st := Predict(p.root, p.env())
	wantErr := len(st.Errs) > 0
	id := c.Case(p)
	if idx%37 == 0 {
		c.Sample(p)
	}
	allFiles := map[string]string{}
	for rel, content := range p.Files {
		allFiles[rel] = content
	}
	for rel, content := range p.PrimerFiles {
		allFiles[rel] = content
	}
	for rel, content := range allFiles {
		if err := e.WriteRepoFile(rel, content); err != nil {
			c.Inconclusive("WriteRepoFile: " + err.Error())
			return
		}
	}
	defer func() {
		for rel := range allFiles {
			_ = os.Remove(filepath.Join(e.RepoDir, rel))
		}
	}()

	// counters
	c.Count("programs", 1)
	c.Count("programs_family_"+p.Family, 1)
	if st.Iterators > 0 {
		c.Count("programs_with_iterators", 1)
	}
	if st.DisabledRoles > 0 {
		c.Count("programs_with_disabled_roles", 1)
	}
	if st.EmptyRanges > 0 {
		c.Count("programs_with_empty_ranges", 1)
	}
	if st.EmptyAggs > 0 {
		c.Count("programs_with_emptied_aggregators", 1)
	}
	if st.Includes > 0 {
		c.Count("programs_with_includes", 1)
	}
	if st.WsEnabledTrue > 0 {
		c.Count("programs_with_enabled_true_in_surrounding_white_space", 1)
	}
	if st.WsEnabledFalse > 0 {
		c.Count("programs_with_enabled_false_in_surrounding_white_space", 1)
	}
	c.Count("roles_enabled_through_text_with_surrounding_white_space", int64(st.WsEnabledTrue))
	if ids := outerDependentIterators(p.root); len(ids) > 0 {
		c.Count("programs_with_inner_range_depending_on_outer_variable", 1)
		if outerCopiesExpanded(tree, ids) >= 2 {
			c.Count("programs_with_outer_dependent_range_expanded_2plus_times", 1)
		}
	}
	for _, inj := range p.Injections {
		if strings.HasPrefix(inj.Kind, "scoped-variable") {
			c.Count("programs_with_scoped_variable_used_outside_its_scope", 1)
			break
		}
	}
	if len(p.Injections) > 0 {
		c.Count("programs_with_injected_errors", 1)
		if len(p.Injections) > 1 {
			c.Count("programs_with_two_injected_errors", 1)
		}
	}
	inIterErr, enabledErr := false, false
	var errFields []string
	for _, h := range st.Errs {
		if h.Container == "iterator" {
			inIterErr = true
		}
		if h.Field == "enabled" {
			enabledErr = true
		}
		errFields = append(errFields, h.Field)
	}
	sort.Strings(errFields)
	errFields = uniq(errFields)
	if wantErr {
		c.Count("programs_expected_to_fail", 1)
		if inIterErr {
			c.Count("programs_with_error_in_iteration_child", 1)
		}
	} else {
		c.Count("programs_expected_to_load", 1)
		if tree == nil {
			c.Count("programs_expected_root_emptied", 1)
		}
	}
	c.Count("iteration_children_predicted", int64(st.IterChildren))
	c.Count("roles_predicted", int64(st.Roles))
	c.Nontrivial(vlib.Hash(p.Family, st.Iterators > 0, st.EmptyRanges > 0, bucket(st.DisabledRoles), st.EmptyAggs > 0, st.Includes > 0,
		len(p.Injections), strings.Join(errFields, ","), inIterErr, bucket(st.Roles), bucket(st.IterChildren)))

	// GOMAXPROCS variation: the schedules of the sibling goroutines depend on it
	procs := []int{2, 4, 8, 16, 3, 1}[idx%6]
	if p.Family == "wide-iter" && idx%4 != 0 {
		procs = runtime.NumCPU()
	}
	prev := runtime.GOMAXPROCS(procs)
	defer runtime.GOMAXPROCS(prev)

	// expr-reuse: the primer (same expression texts, variable defined) is loaded first
	// in this very process, sequentially and concurrently, and must itself load as predicted
	if p.primer != nil {
		ptree, preason, pst := Predict(p.primer, Layer{})
		if len(pst.Errs) > 0 {
			c.Inconclusive(fmt.Sprintf("generator bug: primer of program %d predicted to fail: %+v", idx, pst.Errs))
			return
		}
		for _, s := range []int{0, 7} {
			setSwitches(s)
			root, err := e.Load(p.PrimerName, nil, nil, nil)
			c.Count("loads", 1)
			c.Count("primer_loads", 1)
			if err != nil || root == nil {
				c.Violation("LOAD", "unexpected-error", fmt.Sprintf("primer program (every variable defined) failed to load under %s: %v", switchName(s), err), id, witness(p, nil))
				continue
			}
			seen := map[string]bool{}
			for _, f := range diffTree(ptree, preason, workflow.VerifInfo(root), nil) {
				if !seen[f.Class] {
					seen[f.Class] = true
					c.Violation("MODEL", f.Class, fmt.Sprintf("[primer, %s] %s", switchName(s), f.Detail), id, witness(p, nil))
				}
			}
		}
	}

	// environment-wide user variables reach Load the way the environment hands them over
	var parent workflow.Updatable
	if len(p.UserVars) > 0 {
		envID := uid.New()
		gd, gv, gu := gera.MakeMap[string, string](), gera.MakeMap[string, string](), gera.MakeMapWithMap(copyMap(p.UserVars))
		parent = workflow.NewParentAdapter(
			func() uid.ID { return envID },
			func() uint32 { return 0 },
			func() gera.Map[string, string] { return gd },
			func() gera.Map[string, string] { return gv },
			func() gera.Map[string, string] { return gu },
			func(event.Event) {},
		)
		c.Count("programs_with_user_variables", 1)
		if len(p.UserCollisions) > 0 {
			c.Count("programs_with_user_variable_named_like_an_iteration_variable", 1)
		}
	}
	if p.RoleCollisions > 0 {
		c.Count("programs_with_role_level_entry_named_like_an_iteration_variable", 1)
	}

	var outs []loadOutcome
	order := r.Perm(8)
	for rep := 0; rep < 2; rep++ {
		for _, s := range order {
			setSwitches(s)
			root, err := e.Load(p.RootName, parent, nil, nil)
			c.Count("loads", 1)
			o := loadOutcome{Setting: s, Rep: rep}
			if err != nil {
				o.Err = err.Error()
				o.TreeToo = root != nil
				c.Count("loads_failed", 1)
			} else if root == nil {
				o.Err = "<nil role and nil error>"
			} else {
				o.info = workflow.VerifInfo(root)
				o.Dump = canonDump(workflow.VerifDump(root))
			}
			outs = append(outs, o)
		}
	}
	// witness hunting: a program in which exactly one of many concurrently processed
	// siblings fails is loaded a fixed number of additional times with concurrent
	// processing on (the outcome that matters is rare: a sibling's nil overwriting
	// the failing goroutine's error before it is checked)
	if p.Family == "wide-iter" || (wantErr && inIterErr && len(p.Injections) == 1 && idx%3 == 0) {
		for h := 0; h < 32; h++ {
			s := 2 | (h & 1) | (h&2)<<1 // iterator processing concurrent; the two others alternate
			setSwitches(s)
			root, err := e.Load(p.RootName, parent, nil, nil)
			c.Count("loads", 1)
			c.Count("hunt_loads", 1)
			o := loadOutcome{Setting: s, Rep: 2 + h}
			if err != nil {
				o.Err = err.Error()
				o.TreeToo = root != nil
				c.Count("loads_failed", 1)
			} else if root == nil {
				o.Err = "<nil role and nil error>"
			} else {
				o.info = workflow.VerifInfo(root)
				o.Dump = canonDump(workflow.VerifDump(root))
			}
			outs = append(outs, o)
		}
	}
	setSwitches(7)

	// (c) error <=> injected error
	var okLoads, errLoads []loadOutcome
	for _, o := range outs {
		if o.Err != "" {
			errLoads = append(errLoads, o)
		} else {
			okLoads = append(okLoads, o)
		}
	}
	if wantErr && len(okLoads) > 0 {
		detail := fmt.Sprintf("template error(s) at %v: %d of %d loads returned a role tree and a nil error", st.Errs, len(okLoads), len(outs))
		if strings.Contains(okLoads[0].Dump, "<nil>") {
			detail += "; the returned tree contains a value rendered as <nil> (an undefined name evaluated without error)"
		}
		if len(okLoads) == len(outs) {
			cl := "error-ignored/" + strings.Join(errFields, "+")
			c.Violation("LOAD", cl, detail+" (every setting, every repetition)", id, witness(p, outs))
		} else {
			seq := false
			var where []string
			for _, o := range okLoads {
				where = append(where, switchName(o.Setting))
				if o.Setting == 0 {
					seq = true
				}
			}
			sort.Strings(where)
			cl := "error-lost-under-concurrency/"
			if inIterErr {
				cl += "iterator-children"
			} else {
				cl += "aggregator-children"
			}
			if seq {
				cl = "error-lost/sequential-too"
			}
			if enabledErr {
				cl += "+enabled-field"
			}
			if where := rawExprIn(okLoads[0].info); where != "" {
				detail += "; the returned tree is partial: " + where
			}
			c.Violation("LOAD", cl, detail+"; settings losing it: "+strings.Join(uniq(where), " ; ")+fmt.Sprintf("; GOMAXPROCS=%d", procs), id, witness(p, outs))
		}
	}
	if !wantErr && len(errLoads) > 0 {
		c.Violation("LOAD", "unexpected-error", fmt.Sprintf("no template error in the program, but %d loads failed: %s", len(errLoads), firstLine(errLoads[0].Err)), id, witness(p, outs))
	}
	if wantErr {
		c.Count("loads_failed_as_predicted", int64(len(errLoads)))
	}

	// (a) all dumps of successful loads equal
	if len(okLoads) > 1 {
		for _, o := range okLoads[1:] {
			if o.Dump != okLoads[0].Dump {
				cl := "across-settings"
				if o.Setting == okLoads[0].Setting {
					cl = "same-setting"
				}
				// look for a same-setting pair first: it is the stronger witness
				for i := range okLoads {
					for j := i + 1; j < len(okLoads); j++ {
						if okLoads[i].Setting == okLoads[j].Setting && okLoads[i].Dump != okLoads[j].Dump {
							cl = "same-setting"
						}
					}
				}
				c.Violation("DIFF", cl, fmt.Sprintf("dumps differ between load (%s, rep %d) and (%s, rep %d): %s", switchName(okLoads[0].Setting), okLoads[0].Rep, switchName(o.Setting), o.Rep, firstDiffLine(okLoads[0].Dump, o.Dump)), id, witness(p, outs))
				break
			}
		}
	}
	if !wantErr && len(errLoads) > 0 && len(okLoads) > 0 {
		c.Violation("DIFF", "error-vs-tree", fmt.Sprintf("%d loads failed and %d succeeded for the same program", len(errLoads), len(okLoads)), id, witness(p, outs))
	}

	// (b) equal to the prediction (each distinct dump once)
	if !wantErr {
		seen := map[string]bool{}
		for _, o := range okLoads {
			if seen[o.Dump] {
				continue
			}
			seen[o.Dump] = true
			fs := diffTree(tree, rootReason, o.info, nil)
			rep := map[string]bool{}
			for _, f := range fs {
				if rep[f.Class] {
					continue
				}
				rep[f.Class] = true
				c.Violation("MODEL", f.Class, fmt.Sprintf("[%s rep %d] %s", switchName(o.Setting), o.Rep, f.Detail), id, witness(p, outs))
			}
			c.Count("trees_compared_with_prediction", 1)
		}
	} else {
		for _, o := range errLoads {
			if o.TreeToo {
				c.Count("failed_loads_returning_a_role_object_too", 1)
			}
		}
	}
}

func bucket(n int) int {
	switch {
	case n == 0:
		return 0
	case n < 3:
		return 1
	case n < 8:
		return 2
	case n < 20:
		return 3
	}
	return 4
}

func uniq(ss []string) []string {
	var out []string
	for i, s := range ss {
		if i == 0 || s != ss[i-1] {
			out = append(out, s)
		}
	}
	return out
}

func firstLine(s string) string {
	if i := strings.IndexByte(s, '\n'); i >= 0 {
		return s[:i]
	}
	return s
}

func firstDiffLine(a, b string) string {
	la, lb := strings.Split(a, "\n"), strings.Split(b, "\n")
	for i := 0; i < len(la) && i < len(lb); i++ {
		if la[i] != lb[i] {
			return fmt.Sprintf("line %d: %q vs %q", i+1, strings.TrimSpace(la[i]), strings.TrimSpace(lb[i]))
		}
	}
	return fmt.Sprintf("lengths %d vs %d lines", len(la), len(lb))
}

type c15Witness struct {
	Program  *Program `json:"program"`
	Outcomes []string `json:"outcomes"`
}

func witness(p *Program, outs []loadOutcome) c15Witness {
	w := c15Witness{Program: p}
	for _, o := range outs {
		s := fmt.Sprintf("%s rep%d: ", switchName(o.Setting), o.Rep)
		if o.Err != "" {
			s += "ERROR " + firstLine(o.Err)
		} else {
			s += "tree " + vlib.Hash(o.Dump)
		}
		w.Outcomes = append(w.Outcomes, s)
	}
	return w
}

func runC15() {
	c := vlib.Start("C15")
	defer c.Finish()
	n := 150
	if c.Tier == "thorough" {
		n = 5000
	}
	e := setupEnv(c)
	if e == nil {
		return
	}
	lo, hi := c.Slice(n)
	for i := lo; i < hi; i++ {
		c15Case(c, e, i)
	}
}

// rawExprIn finds a role of the returned tree that still carries an unevaluated
// template expression (i.e. whose processing was abandoned half-way).
func rawExprIn(i *workflow.VerifRoleInfo) string {
	if i == nil {
		return ""
	}
	if i.Kind != "iterator" {
		chk := func(what, v string) string {
			if strings.Contains(v, "{{") {
				return fmt.Sprintf("role %s has %s = %q", i.Path, what, v)
			}
			return ""
		}
		if r := chk("name", i.Name); r != "" {
			return r
		}
		for k, v := range i.Defaults {
			if r := chk("defaults."+k, v); r != "" {
				return r
			}
		}
		for k, v := range i.Vars {
			if r := chk("vars."+k, v); r != "" {
				return r
			}
		}
		for _, v := range i.Constraints {
			if r := chk("constraint", v); r != "" {
				return r
			}
		}
	}
	for _, c := range i.Children {
		if r := rawExprIn(c); r != "" {
			return r
		}
	}
	return ""
}

func rangeRefs(it *IterSpec) []string {
	var out []string
	out = append(out, it.Begin.Refs()...)
	out = append(out, it.End.Refs()...)
	out = append(out, it.Range.Refs()...)
	return out
}

// outerDependentIterators returns the ids of iterators whose range refers to an
// iteration variable of an enclosing iterator, directly or through a per-role list variable.
func outerDependentIterators(root *Node) map[int]bool {
	out := map[int]bool{}
	var walk func(x *Node, outer map[string]bool, lstDep map[string]bool)
	walk = func(x *Node, outer map[string]bool, lstDep map[string]bool) {
		o2 := map[string]bool{}
		for k := range outer {
			o2[k] = true
		}
		l2 := map[string]bool{}
		for k := range lstDep {
			l2[k] = true
		}
		if x.Iter != nil {
			for _, ref := range rangeRefs(x.Iter) {
				if outer[ref] || lstDep[ref] {
					out[x.ID] = true
					break
				}
			}
			o2[x.Iter.Var] = true
		}
		for _, kv := range x.Vars {
			for _, ref := range kv.V.Refs() {
				if o2[ref] {
					l2[kv.K] = true
				}
			}
		}
		for _, ch := range x.Children {
			walk(ch, o2, l2)
		}
		if x.Sub != nil {
			walk(x.Sub, o2, l2)
		}
	}
	walk(root, map[string]bool{}, map[string]bool{})
	return out
}

// outerCopiesExpanded: in how many distinct generated parents an outer-dependent
// iterator produced children (the copies of one iterator must not share a range).
func outerCopiesExpanded(x *XRole, ids map[int]bool) int {
	if x == nil {
		return 0
	}
	n := 0
	for _, c := range x.Children {
		if ids[c.node.ID] {
			n = 1
		}
	}
	for _, c := range x.Children {
		n += outerCopiesExpanded(c, ids)
	}
	return n
}
