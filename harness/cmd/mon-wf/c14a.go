package main

// C14 part (a) - variable precedence at roles and in load-time templating.
// Generated trees (depth <= 5) with every key present / empty / absent in
// defaults, vars and user vars at every level: environment-wide through a real
// workflow.ParentAdapter, defaults/vars in the template, role-level user vars
// through Role.SetRuntimeVar after the load, iteration variables; `{{ k }}` probes
// in enabled, defaults, vars, name and constraints; for task roles the command
// line built by the real task.BuildTaskCommand from an in-memory task class.

import (
	"fmt"
	"math/rand"
	"os"
	"path/filepath"
	"sort"
	"strings"

	"github.com/AliceO2Group/Control/common/event"
	"github.com/AliceO2Group/Control/common/gera"
	"github.com/AliceO2Group/Control/common/utils/uid"
	"github.com/AliceO2Group/Control/core/task"
	"github.com/AliceO2Group/Control/core/task/channel"
	"github.com/AliceO2Group/Control/core/task/sm"
	"github.com/AliceO2Group/Control/core/task/taskclass"
	"github.com/AliceO2Group/Control/core/workflow"
	"gopkg.in/yaml.v3"

	"verif/harness/inproc"
	"verif/harness/vlib"
)

const nKeys = 6

func keyName(i int) string { return fmt.Sprintf("k%d", i) }

type gen14 struct {
	r         *rand.Rand
	nextID    int
	prefix    string
	nsub      int
	itKeys    map[string]bool // keys used as iteration variables (never user vars)
	nodes     map[int]*Node
	parent    map[int]int
	depthOf   map[int]int
	probes    map[string]int
	dens      [nKeys]int // per-key density of definitions in this tree (percent)
	nullForms map[string]int
}

func (g *gen14) id() int { g.nextID++; return g.nextID }

// place: 0 absent / 1 present / 2 empty, with the key's density for this tree
func (g *gen14) place(k int) int {
	if g.r.Intn(100) >= g.dens[k] {
		return 0
	}
	if g.r.Intn(100) < 70 {
		return 1
	}
	return 2
}

// value builds the value of key k of kind letter at node id: a unique tag,
// optionally prefixed by a reference to another key that is defined for the stage.
func (g *gen14) value(kind string, id, k int, pl int, visible map[string]bool) Tpl {
	if pl == 2 {
		return Lit("")
	}
	tag := fmt.Sprintf("%s%dk%d", kind, id, k)
	if len(visible) > 0 && g.r.Intn(100) < 25 {
		var vs []string
		for v := range visible {
			vs = append(vs, v)
		}
		sort.Strings(vs)
		ref := vs[g.r.Intn(len(vs))]
		return Tpl{{K: PRef, S: ref}, {K: PLit, S: "~" + tag}}
	}
	return Lit(tag)
}

// kv builds the definition of key k; an EMPTY placement is written in one of the
// YAML forms that mean empty (cycled by seed): key: "", bare key:, key: ~, key: null.
func (g *gen14) kv(kind string, id, k int, pl int, visible map[string]bool) KV {
	out := KV{K: keyName(k), V: g.value(kind, id, k, pl, visible)}
	if pl == 2 {
		out.Null = []string{"", "bare", "~", "null"}[g.r.Intn(4)]
		g.nullForms[out.Null]++
	}
	return out
}

func unionSet(a map[string]bool, ks ...[]KV) map[string]bool {
	out := map[string]bool{}
	for k := range a {
		out[k] = true
	}
	for _, kvs := range ks {
		for _, kv := range kvs {
			out[kv.K] = true
		}
	}
	return out
}

func pickVisible(r *rand.Rand, vis map[string]bool) (string, bool) {
	var vs []string
	for v := range vis {
		if strings.HasPrefix(v, "k") {
			vs = append(vs, v)
		}
	}
	if len(vs) == 0 {
		return "", false
	}
	sort.Strings(vs)
	return vs[r.Intn(len(vs))], true
}

// node generates a role at the given depth; vis = names defined in the parent stack.
func (g *gen14) node(depth, maxDepth int, vis map[string]bool, parentID int, isRoot bool, name string) *Node {
	n := &Node{ID: g.id()}
	g.nodes[n.ID] = n
	g.parent[n.ID] = parentID
	g.depthOf[n.ID] = depth
	leaf := depth >= maxDepth || (!isRoot && g.r.Intn(100) < 25)
	if isRoot {
		leaf = false
	}
	switch {
	case !leaf && !isRoot && g.r.Intn(100) < 12 && g.nsub < 2 && depth+1 < maxDepth:
		n.Kind = "include"
	case !leaf:
		n.Kind = "agg"
	case g.r.Intn(100) < 70:
		n.Kind = "task"
	default:
		n.Kind = "call"
	}
	// stage-0/1 visibility: parent stack (+ own iteration variable)
	vis01 := unionSet(vis)
	nameT := Tpl{{K: PLit, S: fmt.Sprintf("n%d", n.ID)}}
	if isRoot {
		nameT = Lit(name)
	} else if g.r.Intn(100) < 25 {
		itVar := fmt.Sprintf("it%d", depth)
		if g.r.Intn(100) < 35 {
			// the iteration variable shadows one of the keys
			k := keyName(g.r.Intn(nKeys))
			if !g.itKeys["!"+k] {
				itVar = k
				g.itKeys[k] = true
			}
		}
		n.Iter = &IterSpec{Var: itVar}
		sz := 1 + g.r.Intn(3)
		if g.r.Intn(2) == 0 {
			n.Iter.List = true
			var el []string
			for j := 0; j < sz; j++ {
				el = append(el, fmt.Sprintf(`"L%de%d"`, n.ID, j))
			}
			n.Iter.Range = Lit("[" + strings.Join(el, ",") + "]")
		} else {
			n.Iter.Begin, n.Iter.End = Lit("1"), Lit(fmt.Sprint(sz))
		}
		vis01[itVar] = true
		nameT = append(nameT, Part{K: PLit, S: "_"}, Part{K: PRef, S: itVar})
	}
	// defaults (stage 1) and vars (stage 2)
	for k := 0; k < nKeys; k++ {
		kn := keyName(k)
		if n.Iter != nil && n.Iter.Var == kn {
			// the role's own vars must not define its iteration variable (ambiguous)
			if pl := g.place(k); pl != 0 {
				n.Defaults = append(n.Defaults, g.kv("D", n.ID, k, pl, vis01))
			}
			continue
		}
		if pl := g.place(k); pl != 0 {
			n.Defaults = append(n.Defaults, g.kv("D", n.ID, k, pl, vis01))
		}
	}
	vis2 := unionSet(vis01, n.Defaults)
	for k := 0; k < nKeys; k++ {
		kn := keyName(k)
		if n.Iter != nil && n.Iter.Var == kn {
			continue
		}
		if pl := g.place(k); pl != 0 {
			n.Vars = append(n.Vars, g.kv("V", n.ID, k, pl, vis2))
		}
	}
	vis4 := unionSet(vis2, n.Vars)
	// probes
	if kx, ok := pickVisible(g.r, vis01); ok && g.r.Intn(100) < 40 {
		n.Defaults = append(n.Defaults, KV{K: "pd", V: Tpl{{K: PRef, S: kx}, {K: PLit, S: "~pd"}}})
		g.probes["defaults"]++
	}
	if kx, ok := pickVisible(g.r, vis2); ok && g.r.Intn(100) < 40 {
		n.Vars = append(n.Vars, KV{K: "pv", V: Tpl{{K: PRef, S: kx}, {K: PLit, S: "~pv"}}})
		g.probes["vars"]++
	}
	if !isRoot {
		if kx, ok := pickVisible(g.r, vis4); ok && g.r.Intn(100) < 35 {
			nameT = append(nameT, Part{K: PLit, S: "-"}, Part{K: PRef, S: kx})
			g.probes["name"]++
		}
		if kx, ok := pickVisible(g.r, vis01); ok && n.Iter == nil && g.r.Intn(100) < 30 {
			// (not on iterator roles: what `enabled` means there is C15's subject)
			// the literal is filled in by the finalize pass (needs the predicted value)
			n.Enabled = Tpl{{K: PEq, S: kx, Lit: "\x00"}}
			g.probes["enabled"]++
		}
	}
	n.Name = nameT
	if n.Kind != "include" {
		if kx, ok := pickVisible(g.r, vis4); ok && g.r.Intn(100) < 35 {
			n.Constraints = []KV{{K: "attr", V: Tpl{{K: PRef, S: kx}}}}
			g.probes["constraints"]++
		}
	}
	childVis := unionSet(vis4)
	switch n.Kind {
	case "task":
		n.Class = taskClasses[g.r.Intn(len(taskClasses))]
	case "call":
		n.Func = "testplugin.Noop()"
		n.Trigger = "before_CONFIGURE"
	case "agg":
		nc := 1 + g.r.Intn(2)
		if isRoot && g.r.Intn(2) == 0 {
			nc = 2
		}
		for i := 0; i < nc; i++ {
			n.Children = append(n.Children, g.node(depth+1, maxDepth, childVis, n.ID, false, ""))
		}
	case "include":
		g.nsub++
		n.IncludeFile = fmt.Sprintf("%ss%d", g.prefix, g.nsub)
		sub := &Node{ID: g.id(), Kind: "agg", Name: Lit(n.IncludeFile)}
		g.nodes[sub.ID] = sub
		g.parent[sub.ID] = n.ID
		g.depthOf[sub.ID] = depth
		for k := 0; k < nKeys; k++ {
			if pl := g.place(k); pl != 0 && g.r.Intn(2) == 0 {
				sub.Defaults = append(sub.Defaults, g.kv("D", sub.ID, k, pl, childVis))
			}
		}
		sv2 := unionSet(childVis, sub.Defaults)
		for k := 0; k < nKeys; k++ {
			if pl := g.place(k); pl != 0 && g.r.Intn(2) == 0 {
				sub.Vars = append(sub.Vars, g.kv("V", sub.ID, k, pl, sv2))
			}
		}
		sv4 := unionSet(sv2, sub.Vars)
		nc := 1 + g.r.Intn(2)
		for i := 0; i < nc; i++ {
			sub.Children = append(sub.Children, g.node(depth+1, maxDepth, sv4, sub.ID, false, ""))
		}
		n.Sub = sub
	}
	return n
}

// ---------- the tree case ----------

type c14Case struct {
	Idx      int               `json:"idx"`
	Switches int               `json:"switches"`
	EnvD     map[string]string `json:"envDefaults"`
	EnvV     map[string]string `json:"envVars"`
	EnvU     map[string]string `json:"envUserVars"`
	Files    map[string]string `json:"files"`
	UserSets []userSet         `json:"roleUserVars,omitempty"`
}

type userSet struct {
	Path  string `json:"path"`
	Key   string `json:"key"`
	Value string `json:"value"`
	Del   bool   `json:"delete,omitempty"`
}

// finalizeEnabled fills the literals of the enabled probes during a first
// prediction: mostly the value the stage must see (role stays), sometimes a value
// that only a wrongly widened stage would see (own default/var), sometimes noise.
func finalizeEnabled(r *rand.Rand, root *Node, env Layer) {
	st := &EvalState{NullAsText: true}
	st.onStage0 = func(n *Node, look lookupFn) {
		if n.Enabled == nil || len(n.Enabled) != 1 || n.Enabled[0].Lit != "\x00" {
			return
		}
		key := n.Enabled[0].S
		want, _ := look(key)
		lit := want
		p := r.Intn(100)
		if p >= 60 {
			var decoys []string
			for _, kv := range n.Defaults {
				if kv.K == key && !kv.V.HasExpr() {
					decoys = append(decoys, kv.V.Text())
				}
			}
			for _, kv := range n.Vars {
				if kv.K == key && !kv.V.HasExpr() {
					decoys = append(decoys, kv.V.Text())
				}
			}
			if len(decoys) > 0 && p < 90 {
				lit = decoys[r.Intn(len(decoys))]
			} else if p >= 90 {
				lit = "noise"
			}
		}
		if strings.ContainsAny(lit, "'\\\"") {
			lit = want
		}
		n.Enabled = Tpl{{K: PEq, S: key, Lit: lit}}
	}
	evalRole(root, env, "", nil, "root", st)
	// probes of roles that the prediction never reaches (below a disabled role)
	var fix func(n *Node)
	fix = func(n *Node) {
		if len(n.Enabled) == 1 && n.Enabled[0].Lit == "\x00" {
			n.Enabled = Tpl{{K: PEq, S: n.Enabled[0].S, Lit: "unreached"}}
		}
		for _, ch := range n.Children {
			fix(ch)
		}
		if n.Sub != nil {
			fix(n.Sub)
		}
	}
	fix(root)
}

// tagInfo decodes the source tag at the end of a value.
func tagOf(v string) string {
	if i := strings.LastIndex(v, "~"); i >= 0 {
		v = v[i+1:]
	}
	return v
}

type c14Run struct {
	c      *vlib.Ctx
	g      *gen14
	chains map[string][]int // role path -> node ids from the root to the role
}

// rel describes where a tagged value comes from, relative to the role at path.
func (run *c14Run) rel(path, val string, ok bool) string {
	if !ok {
		return "undefined"
	}
	if val == "" {
		return "empty"
	}
	if val == "~" || val == "null" {
		return "null-scalar-text"
	}
	t := tagOf(val)
	if t == "pd" || t == "pv" {
		return "probe"
	}
	if strings.HasPrefix(t, "TD") || strings.HasPrefix(t, "TV") {
		return map[byte]string{'D': "class-defaults", 'V': "class-vars"}[t[1]]
	}
	if strings.HasPrefix(t, "L") || len(t) < 3 {
		return "iteration-or-other"
	}
	kind := map[byte]string{'D': "defaults", 'V': "vars", 'U': "uservars"}[t[0]]
	if kind == "" {
		return "iteration-or-other"
	}
	var id, k int
	if _, err := fmt.Sscanf(t[1:], "%dk%d", &id, &k); err != nil {
		return "iteration-or-other"
	}
	if id == 0 {
		return kind + "@env"
	}
	chain := run.chains[path]
	for i := len(chain) - 1; i >= 0; i-- {
		if chain[i] == id {
			if i == len(chain)-1 {
				return kind + "@self"
			}
			return kind + "@ancestor"
		}
	}
	return kind + "@elsewhere"
}

func (run *c14Run) buildChains(x *XRole, chain []int) {
	if x == nil {
		return
	}
	ch := append(append([]int{}, chain...), x.node.ID)
	if x.Kind == "include" && x.node.Sub != nil {
		ch = append(ch, x.node.Sub.ID)
	}
	run.chains[x.Path] = ch
	for _, c := range x.Children {
		run.buildChains(c, ch)
	}
}

type parentRoleLike interface {
	UpdateStatus(task.Status)
	UpdateState(sm.State)
	GetPath() string
	GetTaskClass() string
	GetTaskTraits() task.Traits
	SetTask(*task.Task)
	GetEnvironmentId() uid.ID
	CollectOutboundChannels() []channel.Outbound
	GetDefaults() gera.Map[string, string]
	GetVars() gera.Map[string, string]
	GetUserVars() gera.Map[string, string]
	ConsolidatedVarStack() (varStack map[string]string, err error)
	CollectInboundChannels() []channel.Inbound
	SendEvent(event.Event)
	GetName() string
}

func c14Tree(c *vlib.Ctx, e *inproc.Env, idx int) {
	r := c.SubRand(int64(idx))
	prefix := fmt.Sprintf("q%db%dx%d", c.Seed, c.Batch, idx)
	g := &gen14{r: r, prefix: prefix, itKeys: map[string]bool{}, nodes: map[int]*Node{}, parent: map[int]int{}, depthOf: map[int]int{}, probes: map[string]int{}, nullForms: map[string]int{}}
	for k := range g.dens {
		g.dens[k] = []int{6, 15, 30, 48}[r.Intn(4)]
	}
	// environment-wide maps (level 0)
	env := Layer{D: map[string]string{}, V: map[string]string{}, U: map[string]string{}}
	envKinds := []struct {
		m map[string]string
		l string
	}{{env.D, "D"}, {env.V, "V"}, {env.U, "U"}}
	for k := 0; k < nKeys; k++ {
		for _, ek := range envKinds {
			switch g.place(k) {
			case 1:
				ek.m[keyName(k)] = fmt.Sprintf("%s0k%d", ek.l, k)
			case 2:
				ek.m[keyName(k)] = ""
			}
		}
	}
	// keys that carry user vars anywhere may not become iteration variables
	for k := range env.U {
		g.itKeys["!"+k] = true
	}
	vis := map[string]bool{}
	for _, m := range []map[string]string{env.D, env.V, env.U} {
		for k := range m {
			vis[k] = true
		}
	}
	maxDepth := 2 + r.Intn(4) // 2..5
	root := g.node(1, maxDepth, vis, 0, true, prefix)
	finalizeEnabled(r, root, env)
	// `key: ~` / `key: null`: primary reading = the scalar's text is the value (what the
	// YAML node carries); the other reading (empty string) is accepted as well
	tree, rootReason, st := PredictOpt(root, env, true)
	files := Files(root)
	sw := r.Intn(8)
	cs := c14Case{Idx: idx, Switches: sw, EnvD: env.D, EnvV: env.V, EnvU: env.U, Files: files}

	// role-level user vars, applied after the load through SetRuntimeVar
	var xs []*XRole
	var walk func(x *XRole)
	walk = func(x *XRole) {
		if x == nil {
			return
		}
		xs = append(xs, x)
		for _, ch := range x.Children {
			walk(ch)
		}
	}
	walk(tree)
	if len(xs) > 0 {
		nset := r.Intn(2*len(xs) + 1)
		for i := 0; i < nset; i++ {
			x := xs[r.Intn(len(xs))]
			k := r.Intn(nKeys)
			if g.itKeys[keyName(k)] {
				continue
			}
			v := fmt.Sprintf("U%dk%d", x.node.ID, k)
			if x.Kind == "include" && x.node.Sub != nil {
				v = fmt.Sprintf("U%dk%d", x.node.Sub.ID, k)
			}
			if r.Intn(100) < 25 {
				v = ""
			}
			cs.UserSets = append(cs.UserSets, userSet{Path: x.Path, Key: keyName(k), Value: v})
		}
		// and a few deletions of what was set
		for _, us := range cs.UserSets {
			if r.Intn(100) < 15 {
				cs.UserSets = append(cs.UserSets, userSet{Path: us.Path, Key: us.Key, Del: true})
			}
		}
	}

	id := c.Case(cs)
	if idx%211 == 0 {
		c.Sample(cs)
	}
	if len(st.Errs) > 0 {
		// the generator only references names that are defined for the stage
		c.Inconclusive(fmt.Sprintf("generator bug: predicted template error in tree %d: %+v", idx, st.Errs))
		return
	}
	for rel, content := range files {
		if err := e.WriteRepoFile(rel, content); err != nil {
			c.Inconclusive("WriteRepoFile: " + err.Error())
			return
		}
	}
	defer func() {
		for rel := range files {
			_ = os.Remove(filepath.Join(e.RepoDir, rel))
		}
	}()

	run := &c14Run{c: c, g: g, chains: map[string][]int{}}
	run.buildChains(tree, nil)
	run.count(cs, tree, env, st)

	// the real environment-wide maps behind a real ParentAdapter
	gd, gv, gu := gera.MakeMapWithMap(copyMap(env.D)), gera.MakeMapWithMap(copyMap(env.V)), gera.MakeMapWithMap(copyMap(env.U))
	envID := uid.New()
	pa := workflow.NewParentAdapter(
		func() uid.ID { return envID },
		func() uint32 { return 0 },
		func() gera.Map[string, string] { return gd },
		func() gera.Map[string, string] { return gv },
		func() gera.Map[string, string] { return gu },
		func(event.Event) {},
	)
	setSwitches(sw)
	wfRoot, err := e.Load(prefix, pa, nil, nil)
	setSwitches(7)
	c.Count("loads", 1)
	if err != nil {
		c.Violation("PRECEDENCE", "load-error", "a tree that only references variables visible to the stage failed to load: "+firstLine(err.Error()), id, cs)
		return
	}
	opts := &diffOpts{}
	curPath := ""
	opts.stackClass = func(field, key, want, got string, wok, gok bool) string {
		if key == "pd" || key == "pv" {
			return "field/" + map[string]string{"pd": "defaults", "pv": "vars"}[key] + "-probe/want=" + run.rel(curPath, strings.TrimSuffix(want, "~"+key), wok) + ",got=" + run.rel(curPath, strings.TrimSuffix(got, "~"+key), gok)
		}
		rw, rg := run.rel(curPath, want, wok), run.rel(curPath, got, gok)
		if rw == rg {
			// same outermost source: the difference is in a value it refers to
			return field + "/want=" + rw + ",got=same-source-other-referenced-value"
		}
		return field + "/want=" + rw + ",got=" + rg
	}
	report := func(phase string, fs []Finding) bool {
		seen := map[string]bool{}
		for _, f := range fs {
			if seen[f.Class] {
				continue
			}
			seen[f.Class] = true
			c.Violation("PRECEDENCE", f.Class, "["+phase+"] "+f.Detail, id, cs)
		}
		return len(fs) > 0
	}
	// the class of a variable mismatch needs the role path: wrap diffRole per role
	fs := run.diffAll(tree, rootReason, workflow.VerifInfo(wfRoot), opts, &curPath)
	if len(fs) > 0 && g.nullForms["~"]+g.nullForms["null"] > 0 {
		altTree, altReason, altSt := PredictOpt(root, env, false)
		if len(altSt.Errs) == 0 {
			run2 := &c14Run{c: c, g: g, chains: map[string][]int{}}
			run2.buildChains(altTree, nil)
			if len(run2.diffAll(altTree, altReason, workflow.VerifInfo(wfRoot), &diffOpts{}, new(string))) == 0 {
				// the tree follows the other admissible reading of ~ / null throughout
				c.Count("trees_matching_null_scalars_as_empty_string", 1)
				return
			}
		}
	}
	if report("after load", fs) {
		return
	}
	c.Count("roles_compared", int64(len(xs)))
	for _, x := range xs {
		c.Count("stack_entries_compared", int64(len(x.Stack)))
	}

	// phase 2: role-level user vars
	if len(cs.UserSets) > 0 && tree != nil {
		byPath := map[string]workflow.Role{}
		for _, role := range inproc.Roles(wfRoot) {
			byPath[role.GetPath()] = role
		}
		ownU := map[string]map[string]string{}
		for _, us := range cs.UserSets {
			role := byPath[us.Path]
			if role == nil {
				c.Inconclusive("role " + us.Path + " not found for SetRuntimeVar")
				return
			}
			if ownU[us.Path] == nil {
				ownU[us.Path] = map[string]string{}
			}
			if us.Del {
				role.DeleteRuntimeVar(us.Key)
				delete(ownU[us.Path], us.Key)
				c.Count("role_uservar_deletions", 1)
			} else {
				role.SetRuntimeVar(us.Key, us.Value)
				ownU[us.Path][us.Key] = us.Value
				c.Count("role_uservar_sets", 1)
				if us.Value == "" {
					c.Count("role_uservar_sets_empty", 1)
				}
			}
		}
		applyUser(tree, env.U, ownU)
		opts.skipOwn = true
		fs := run.diffAll(tree, rootReason, workflow.VerifInfo(wfRoot), opts, &curPath)
		if report("after SetRuntimeVar", fs) {
			return
		}
		c.Count("roles_compared_after_uservars", int64(len(xs)))
	}

	// phase 3: the command line of task roles (task template's own defaults/vars
	// rank below everything coming from the workflow)
	if tree != nil {
		byPath := map[string]workflow.Role{}
		for _, role := range inproc.Roles(wfRoot) {
			byPath[role.GetPath()] = role
		}
		for _, x := range xs {
			if x.Kind != "task" || r.Intn(2) == 0 {
				continue
			}
			run.taskCommand(r, x, byPath[x.Path], id, cs)
		}
	}
}

// diffAll is diffTree with the current role path exported to the class builder.
func (run *c14Run) diffAll(tree *XRole, rootReason string, info *workflow.VerifRoleInfo, o *diffOpts, cur *string) []Finding {
	// diffRole reports "<path>: ..." details; the class builder needs the path, which
	// diffRole passes implicitly through the order of calls: wrap per role instead.
	var out []Finding
	a := flattenActual(info)
	if tree == nil {
		if strings.HasPrefix(rootReason, "empty/has-iterator") {
			return nil // whether an aggregator emptied through its iterators disappears is C15's subject
		}
		return diffTree(tree, rootReason, info, o)
	}
	if !info.IsEnabled {
		return diffTree(tree, rootReason, info, o)
	}
	var rec func(x *XRole, a *ARole)
	rec = func(x *XRole, a *ARole) {
		*cur = x.Path
		shallowX := *x
		shallowX.Children, shallowX.Slots = nil, nil
		shallowA := &ARole{I: a.I}
		var fs []Finding
		diffRole(&shallowX, shallowA, o, &fs)
		out = append(out, fs...)
		// structure of the children
		var fs2 []Finding
		structX := &XRole{Kind: x.Kind, Name: x.Name, Path: x.Path, node: x.node, Children: x.Children, Slots: x.Slots}
		structOnly(structX, a, &fs2)
		out = append(out, fs2...)
		if len(fs2) > 0 {
			return
		}
		byName := map[string]*ARole{}
		for _, ac := range a.Children {
			byName[ac.I.Name] = ac
		}
		for _, cx := range x.Children {
			if ac := byName[cx.Name]; ac != nil {
				rec(cx, ac)
			}
		}
	}
	rec(tree, a)
	return out
}

// structOnly compares the children lists (names, order, presence) of one role.
func structOnly(x *XRole, a *ARole, out *[]Finding) {
	var wantNames, gotNames []string
	for _, c := range x.Children {
		wantNames = append(wantNames, c.Name)
	}
	for _, c := range a.Children {
		gotNames = append(gotNames, c.I.Name)
	}
	if sliceEq(wantNames, gotNames) {
		return
	}
	j, ignored := 0, 0
	for _, s := range x.Slots {
		if s.Present != nil {
			if j < len(a.Children) && a.Children[j].I.Name == s.Present.Name {
				j++
				continue
			}
			cl := "structure/role-missing"
			if s.Present.node.Enabled != nil {
				cl = "structure/role-missing/enabled-probe"
			}
			*out = append(*out, Finding{cl, fmt.Sprintf("%s: expected role is absent (enabled: %q); children present: %v", s.Present.Path, s.Present.node.Enabled.Text(), gotNames)})
			continue
		}
		if j < len(a.Children) {
			for _, w := range s.WouldBe {
				if a.Children[j].I.Name == w {
					if strings.HasPrefix(s.Reason, "empty/has-iterator") {
						// whether an aggregator emptied through its iterators disappears is C15's subject
						ignored++
						j++
						break
					}
					*out = append(*out, Finding{"structure/role-present/" + s.Reason, fmt.Sprintf("%s: role must be absent (%s) but is present", a.Children[j].I.Path, s.Reason)})
					j++
					break
				}
			}
		}
	}
	if len(*out) == 0 && ignored == 0 {
		*out = append(*out, Finding{"structure/children", fmt.Sprintf("%s: want children %v got %v", x.Path, wantNames, gotNames)})
	}
}

// applyUser recomputes the user-var layer and the consolidated stack of every
// expected role after role-level user vars were set.
func applyUser(x *XRole, parentU map[string]string, own map[string]map[string]string) {
	if x == nil {
		return
	}
	x.L.U = over(parentU, own[x.Path])
	x.Stack = x.L.Stack()
	for _, c := range x.Children {
		applyUser(c, x.L.U, own)
	}
}

func (run *c14Run) count(cs c14Case, tree *XRole, env Layer, st *EvalState) {
	c, g := run.c, run.g
	c.Count("trees", 1)
	c.Count("keys", nKeys)
	if tree == nil {
		c.Count("trees_emptied_by_enabled_probes", 1)
	}
	for f, n := range g.probes {
		c.Count("field_probes_"+f, int64(n))
	}
	for f, n := range g.nullForms {
		c.Count("empty_placements_written_as_"+map[string]string{"": "quoted_empty", "bare": "bare_key", "~": "tilde", "null": "null"}[f], int64(n))
	}
	if st.Iterators > 0 {
		c.Count("trees_with_iterators", 1)
	}
	if st.Includes > 0 {
		c.Count("trees_with_includes", 1)
	}
	if len(g.itKeys) > 0 {
		for k := range g.itKeys {
			if !strings.HasPrefix(k, "!") {
				c.Count("keys_shadowed_by_iteration_variable", 1)
			}
		}
	}
	maxDepth := 0
	for _, d := range g.depthOf {
		if d > maxDepth {
			maxDepth = d
		}
	}
	c.Count(fmt.Sprintf("trees_depth_%d", maxDepth), 1)
	for k := 0; k < nKeys; k++ {
		kn := keyName(k)
		empty, inTree := false, false
		_, eD := env.D[kn]
		_, eV := env.V[kn]
		_, eU := env.U[kn]
		for _, m := range []map[string]string{env.D, env.V, env.U} {
			if v, ok := m[kn]; ok && v == "" {
				empty = true
			}
		}
		// definitions per node
		defAt := map[int]bool{}
		for id, n := range g.nodes {
			for _, kvs := range [][]KV{n.Defaults, n.Vars} {
				for _, kv := range kvs {
					if kv.K == kn {
						inTree = true
						defAt[id] = true
						if kv.V.Text() == "" {
							empty = true
						}
					}
				}
			}
		}
		for _, us := range cs.UserSets {
			if us.Key == kn && !us.Del {
				inTree = true
				if us.Value == "" {
					empty = true
				}
			}
		}
		if empty {
			c.Count("keys_with_empty_values", 1)
		}
		if (eD || eV || eU) && !inTree {
			c.Count("keys_env_wide_only", 1)
		}
		if eD || eV || eU {
			c.Count("keys_defined_env_wide", 1)
		}
		// override across >= 2 levels: defined at a node and at an ancestor two or more levels up
		far := false
		for id := range defAt {
			up, dist := g.parent[id], 1
			for up != 0 {
				if defAt[up] && g.depthOf[id]-g.depthOf[up] >= 2 {
					far = true
				}
				up = g.parent[up]
				dist++
			}
			if (eD || eV || eU) && g.depthOf[id] >= 2 {
				far = true
			}
		}
		if far {
			c.Count("keys_with_override_at_depth_ge2", 1)
		}
		if len(defAt) >= 3 {
			c.Count("keys_defined_at_3plus_levels", 1)
		}
	}
	c.Nontrivial(vlib.Hash(maxDepth, st.Iterators > 0, st.Includes > 0, len(env.D), len(env.V), len(env.U), bucket(len(cs.UserSets)), bucket(st.Roles), tree == nil,
		g.probes["enabled"] > 0, g.probes["defaults"] > 0, g.probes["vars"] > 0, g.probes["name"] > 0, g.probes["constraints"] > 0))
}

const classTpl = `name: vclass
control:
  mode: basic
wants:
  cpu: 0.01
  memory: 1
%scommand:
  shell: true
  value: "run"
  arguments:
%s`

// taskCommand drives the real BuildTaskCommand with an in-memory class whose own
// defaults and vars define some keys, and compares every argument.
func (run *c14Run) taskCommand(r *rand.Rand, x *XRole, role workflow.Role, id int64, cs c14Case) {
	c := run.c
	pr, ok := role.(parentRoleLike)
	if role == nil || !ok {
		c.Inconclusive("task role " + x.Path + " does not offer the methods BuildTaskCommand needs")
		return
	}
	td, tv := map[string]string{}, map[string]string{}
	for k := 0; k < nKeys; k++ {
		kn := keyName(k)
		switch r.Intn(6) {
		case 0:
			td[kn] = fmt.Sprintf("TDk%d", k)
		case 1:
			tv[kn] = fmt.Sprintf("TVk%d", k)
		case 2:
			td[kn] = ""
		case 3:
			td[kn] = fmt.Sprintf("TDk%d", k)
			tv[kn] = fmt.Sprintf("TVk%d", k)
		}
	}
	var sb, args strings.Builder
	var keys []string
	if len(td) > 0 {
		sb.WriteString("defaults:\n")
		for _, k := range sortedKeys(td) {
			sb.WriteString("  " + k + ": " + q(td[k]) + "\n")
		}
	}
	if len(tv) > 0 {
		sb.WriteString("vars:\n")
		for _, k := range sortedKeys(tv) {
			sb.WriteString("  " + k + ": " + q(tv[k]) + "\n")
		}
	}
	for k := 0; k < nKeys; k++ {
		kn := keyName(k)
		_, a := x.Stack[kn]
		_, b := td[kn]
		_, d := tv[kn]
		if a || b || d {
			keys = append(keys, kn)
			args.WriteString("    - " + q("{{ "+kn+" }}") + "\n")
		}
	}
	if len(keys) == 0 {
		return
	}
	var class taskclass.Class
	if err := yaml.Unmarshal([]byte(fmt.Sprintf(classTpl, sb.String(), args.String())), &class); err != nil {
		c.Inconclusive("class yaml: " + err.Error())
		return
	}
	t := task.ClassToTask(&class, pr)
	if err := t.BuildTaskCommand(pr); err != nil {
		c.Violation("PRECEDENCE", "taskcmd/error", fmt.Sprintf("%s: BuildTaskCommand failed: %v", x.Path, err), id, cs)
		return
	}
	got := t.GetTaskCommandInfo().Arguments
	if len(got) != len(keys) {
		c.Violation("PRECEDENCE", "taskcmd/arguments", fmt.Sprintf("%s: %d arguments for %d templates", x.Path, len(got), len(keys)), id, cs)
		return
	}
	run.c.Count("taskcmd_built", 1)
	for i, kn := range keys {
		c.Count("taskcmd_args_compared", 1)
		if w, ok := x.Stack[kn]; ok {
			if _, both := td[kn]; both {
				c.Count("taskcmd_args_workflow_over_class_default", 1)
			}
			if _, both := tv[kn]; both {
				c.Count("taskcmd_args_workflow_over_class_var", 1)
			}
			if got[i] != w {
				c.Violation("PRECEDENCE", "taskcmd/want="+run.rel(x.Path, w, true)+",got="+run.rel(x.Path, got[i], true),
					fmt.Sprintf("%s: argument {{ %s }} = %q, the workflow provides %q (class defaults %v vars %v)", x.Path, kn, got[i], w, td, tv), id, cs)
			}
			continue
		}
		dv, hasD := td[kn]
		vv, hasV := tv[kn]
		c.Count("taskcmd_args_from_class", 1)
		switch {
		case hasD && hasV:
			// the statement does not rank the template's own vars against its own defaults
			if got[i] == dv {
				c.Count("taskcmd_class_default_beats_class_var", 1)
			} else if got[i] == vv {
				c.Count("taskcmd_class_var_beats_class_default", 1)
			} else {
				c.Violation("PRECEDENCE", "taskcmd/class-value", fmt.Sprintf("%s: argument {{ %s }} = %q, class has default %q var %q", x.Path, kn, got[i], dv, vv), id, cs)
			}
		case hasD && got[i] != dv, hasV && !hasD && got[i] != vv:
			c.Violation("PRECEDENCE", "taskcmd/class-value", fmt.Sprintf("%s: argument {{ %s }} = %q, class has default (%q,%v) var (%q,%v)", x.Path, kn, got[i], dv, hasD, vv, hasV), id, cs)
		}
	}
}

func runC14A() {
	c := vlib.Start("C14A")
	defer c.Finish()
	n := 1000
	if c.Tier == "thorough" {
		n = 50000
	}
	e := setupEnv(c)
	if e == nil {
		return
	}
	lo, hi := c.Slice(n)
	for i := lo; i < hi; i++ {
		c14Tree(c, e, i)
	}
}
