// mon-wf: in-process monitors on the real workflow.Load: C15 (deterministic
// loading, pruning, error propagation) and C14A (variable precedence at roles and
// in load-time templating; temporary id of C14 part (a)).
package main

import (
	"fmt"
	"os"
)

func main() {
	if len(os.Args) < 2 {
		fmt.Fprintln(os.Stderr, "usage: mon-wf <C15|C14A> [flags]")
		os.Exit(64)
	}
	switch os.Args[1] {
	case "C15":
		runC15()
	case "C14A":
		runC14A()
	default:
		fmt.Fprintln(os.Stderr, "unknown property", os.Args[1])
		os.Exit(64)
	}
}
