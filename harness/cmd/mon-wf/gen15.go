package main

// C15 program generator: nested aggregator / iterator (begin-end and JSON list,
// literal or from a variable, including empty ranges) / task / call / include roles,
// `enabled` as literals or comparisons, cross-level variable references, and in a
// fraction of programs one or two injected template errors.

import (
	"encoding/json"
	"fmt"
	"math/rand"
	"strconv"
	"strings"
)

var gNames = []string{"g0", "g1", "g2", "g3", "g4"}
var gVals = []string{"a", "b", "c", ""}
var taskClasses = []string{"t1", "t2", "t3"}
var triggers = []string{"before_CONFIGURE", "after_CONFIGURE+10", "before_START_ACTIVITY", "enter_RUNNING-5", "after_STOP_ACTIVITY"}

type gen15 struct {
	r              *rand.Rand
	nextID         int
	prefix         string
	nsub           int
	budget         int // rough bound on the number of expanded roles
	maxDep         int
	roleCollisions int // role-level defaults/vars named like an iteration variable in scope
}

type scope struct {
	itVars []string   // iteration variables bound by enclosing iterators (and own)
	itDom  [][]string // their possible values
	depth  int
	isRoot bool
	mult   int   // how many instances of this node exist (product of enclosing range sizes)
	encl   *Node // the aggregator under construction that will hold the node
}

func (g *gen15) id() int { g.nextID++; return g.nextID }

func (g *gen15) pick(ss []string) string { return ss[g.r.Intn(len(ss))] }

// valueTpl: literal or text with references (cross-level: the referenced names
// are defined at the root, possibly redefined in between).
func (g *gen15) valueTpl(sc scope, allowRef bool) Tpl {
	if !allowRef || g.r.Intn(100) < 55 {
		return Lit(g.pick(gVals))
	}
	var t Tpl
	if g.r.Intn(2) == 0 {
		t = append(t, Part{K: PLit, S: g.pick([]string{"x", "y-", "pre"})})
	}
	if len(sc.itVars) > 0 && g.r.Intn(3) == 0 {
		t = append(t, Part{K: PRef, S: sc.itVars[g.r.Intn(len(sc.itVars))]})
	} else {
		t = append(t, Part{K: PRef, S: g.pick(gNames)})
	}
	if g.r.Intn(3) == 0 {
		t = append(t, Part{K: PLit, S: g.pick([]string{"z", "-s"})})
	}
	if g.r.Intn(6) == 0 {
		// a utility function that looks its variables up by NAME when it is called (no prefixed variable is
		// ever defined here, so it yields the plain one, or nothing if that is blank)
		t = append(t, Part{K: PLit, S: "+"}, Part{K: PPrefOver, S: g.pick(gNames), Lit: "pfx"})
	}
	return t
}

func (g *gen15) enabledTpl(sc scope, forIterator bool) (Tpl, bool) {
	p := g.r.Intn(100)
	if forIterator {
		// an `enabled` on an iterator role: mostly absent or literal
		switch {
		case p < 70:
			return nil, false
		case p < 82:
			return Lit("true"), g.r.Intn(2) == 0
		case p < 88:
			return Lit("false"), g.r.Intn(2) == 0
		}
	} else {
		switch {
		case p < 55:
			return nil, false
		case p < 65:
			return Lit("true"), g.r.Intn(2) == 0
		case p < 73:
			return Lit("false"), g.r.Intn(2) == 0
		}
	}
	// comparison
	k := PEq
	if g.r.Intn(2) == 0 {
		k = PNe
	}
	if len(sc.itVars) > 0 && g.r.Intn(2) == 0 {
		i := g.r.Intn(len(sc.itVars))
		lit := "zz"
		if len(sc.itDom[i]) > 0 {
			lit = sc.itDom[i][g.r.Intn(len(sc.itDom[i]))]
		}
		return Tpl{{K: k, S: sc.itVars[i], Lit: lit}}, false
	}
	return Tpl{{K: k, S: g.pick(gNames), Lit: g.pick(gVals)}}, false
}

// kvs: own is the role's own iteration variable (if it is an iterator), isVars
// tells whether the entries go to `vars`. Now and then the KEY is the name of an
// iteration variable in scope: a role-level default/var colliding with it (the
// generated role's own vars never define its own iteration variable: unranked).
// wsEnabled makes the value that `enabled` resolves to carry surrounding white
// space: blanks or tabs around a literal or around the expression, a trailing
// newline (YAML block scalar), or a variable whose VALUE is "true " / "true\n" /
// " false". Literal and templated, true and false.
func (g *gen15) wsEnabled(n *Node) {
	if n.Enabled == nil || n.Enabled.IsErr() || g.r.Intn(100) >= 30 {
		return
	}
	n.EnabledBare, n.EnabledWS = false, true
	lead := []string{" ", "  ", "\t"}[g.r.Intn(3)]
	trail := []string{" ", "\t", "  ", " \t"}[g.r.Intn(4)]
	lit := !n.Enabled.HasExpr()
	switch f := g.r.Intn(6); {
	case f == 0:
		n.Enabled = append(Tpl{{K: PLit, S: lead}}, n.Enabled...)
	case f == 1:
		n.Enabled = append(append(Tpl{}, n.Enabled...), Part{K: PLit, S: trail})
	case f == 2:
		n.Enabled = append(append(Tpl{{K: PLit, S: lead}}, n.Enabled...), Part{K: PLit, S: trail})
	case f == 3:
		n.EnabledBlock = true // "...\n"
		if g.r.Intn(2) == 0 {
			n.Enabled = append(append(Tpl{}, n.Enabled...), Part{K: PLit, S: trail})
		}
	case lit:
		// through a variable whose value carries the white space
		if isTrue(n.Enabled.Text()) {
			n.Enabled = Ref(g.pick([]string{"flagT", "flagTn", "flagTU"}))
		} else {
			n.Enabled = Ref(g.pick([]string{"flagF", "flagFn"}))
		}
	default:
		n.EnabledBlock = true
	}
}

var wsFlags = []KV{
	{K: "flagT", V: Lit("true ")}, {K: "flagTn", V: Lit("true\n")}, {K: "flagTU", V: Lit(" TRUE")},
	{K: "flagF", V: Lit(" false")}, {K: "flagFn", V: Lit("false \n")},
}

func (g *gen15) kvs(sc scope, max int, allowRef bool, own string, isVars bool) []KV {
	n := g.r.Intn(max + 1)
	seen := map[string]bool{}
	var out []KV
	for i := 0; i < n; i++ {
		k := g.pick(gNames)
		if seen[k] {
			continue
		}
		seen[k] = true
		out = append(out, KV{K: k, V: g.valueTpl(sc, allowRef)})
	}
	if len(sc.itVars) > 0 && g.r.Intn(100) < 18 {
		j := g.r.Intn(len(sc.itVars))
		k := sc.itVars[j]
		if !(isVars && k == own) {
			v := g.pick([]string{"zz", "1", "h1"})
			if len(sc.itDom[j]) > 0 && g.r.Intn(3) > 0 {
				v = sc.itDom[j][g.r.Intn(len(sc.itDom[j]))]
			}
			out = append(out, KV{K: k, V: Lit(v)})
			g.roleCollisions++
		}
	}
	return out
}

func allNumeric(ss []string) bool {
	for _, s := range ss {
		if _, err := strconv.Atoi(s); err != nil {
			return false
		}
	}
	return len(ss) > 0
}

// outerRange makes the range of a nested iterator an expression of an enclosing
// iteration variable, so that every generated outer role must get its own inner
// children: a JSON list built from the outer value, begin/end computed from a
// numeric outer value, or a list variable defined per generated enclosing role.
func (g *gen15) outerRange(sc scope, itVar string, id int) (*IterSpec, []string, bool) {
	if len(sc.itVars) == 0 {
		return nil, nil, false
	}
	j := len(sc.itVars) - 1
	if g.r.Intn(4) == 0 {
		j = g.r.Intn(len(sc.itVars))
	}
	ov, odom := sc.itVars[j], sc.itDom[j]
	if len(odom) == 0 {
		return nil, nil, false
	}
	it := &IterSpec{Var: itVar}
	var dom []string
	if allNumeric(odom) && g.r.Intn(2) == 0 {
		b := g.r.Intn(3)
		if g.r.Intn(2) == 0 {
			// 'b' .. outer value (empty for outer values below b)
			it.Begin, it.End = Lit(fmt.Sprint(b)), Ref(ov)
			max := 0
			for _, s := range odom {
				if v, _ := strconv.Atoi(s); v > max {
					max = v
				}
			}
			for v := b; v <= max; v++ {
				dom = append(dom, fmt.Sprint(v))
			}
		} else {
			// outer value .. fixed end
			e := 0
			for _, s := range odom {
				if v, _ := strconv.Atoi(s); v > e {
					e = v
				}
			}
			e += g.r.Intn(2)
			it.Begin, it.End = Ref(ov), Lit(fmt.Sprint(e))
			for v := 0; v <= e; v++ {
				dom = append(dom, fmt.Sprint(v))
			}
		}
		return it, dom, true
	}
	it.List = true
	sufs := []string{"a", "b", "c"}[:1+g.r.Intn(3)]
	lst := Tpl{{K: PLit, S: "["}}
	for i, s := range sufs {
		if i > 0 {
			lst = append(lst, Part{K: PLit, S: ","})
		}
		lst = append(lst, Part{K: PLit, S: `"`}, Part{K: PRef, S: ov}, Part{K: PLit, S: s + `"`})
	}
	lst = append(lst, Part{K: PLit, S: "]"})
	for _, o := range odom {
		for _, s := range sufs {
			dom = append(dom, o+s)
		}
	}
	if sc.encl != nil && g.r.Intn(2) == 0 {
		// the list is a var of the enclosing (generated) role
		vn := fmt.Sprintf("lst%d", id)
		sc.encl.Vars = append(sc.encl.Vars, KV{K: vn, V: lst})
		it.Range = Ref(vn)
	} else {
		it.Range = lst
	}
	return it, dom, true
}

func (g *gen15) iterSpec(sc scope, itVar string) (*IterSpec, []string) {
	size := g.r.Intn(5) // 0..4
	switch p := g.r.Intn(100); {
	case p < 12:
		size = 0
	case p > 92 && sc.mult == 1:
		size = 6 + g.r.Intn(11)
	}
	it := &IterSpec{Var: itVar}
	var dom []string
	if g.r.Intn(2) == 0 {
		it.List = true
		for j := 0; j < size; j++ {
			dom = append(dom, fmt.Sprintf("h%d", j+1))
		}
		js := "[" + strings.Join(func() []string {
			var o []string
			for _, d := range dom {
				o = append(o, `"`+d+`"`)
			}
			return o
		}(), ",") + "]"
		it.Range = Lit(js)
	} else {
		b := g.r.Intn(3)
		e := b + size - 1
		for j := b; j <= e; j++ {
			dom = append(dom, fmt.Sprint(j))
		}
		it.Begin, it.End = Lit(fmt.Sprint(b)), Lit(fmt.Sprint(e))
	}
	return it, dom
}

// node generates one role below an aggregator. rangeVars collects
// variables that the root must define for ranges taken from variables.
func (g *gen15) node(sc scope, rootVars *[]KV) *Node {
	n := &Node{ID: g.id()}
	g.budget -= sc.mult
	canNest := sc.depth < g.maxDep && g.budget > 4
	p := g.r.Intn(100)
	switch {
	case canNest && p < 32:
		n.Kind = "agg"
	case canNest && p < 42 && g.nsub < 3:
		n.Kind = "include"
	case p < 80:
		n.Kind = "task"
	default:
		n.Kind = "call"
	}
	csc := sc
	csc.depth++
	csc.isRoot = false
	name := Tpl{{K: PLit, S: fmt.Sprintf("r%d", n.ID)}}
	pIter := 30
	if len(sc.itVars) > 0 {
		pIter = 45 // nested iterators
	}
	if g.r.Intn(100) < pIter && g.budget > 2 {
		itVar := fmt.Sprintf("it%d", sc.depth)
		var spec *IterSpec
		var dom []string
		outerDep := false
		if g.r.Intn(100) < 60 {
			spec, dom, outerDep = g.outerRange(sc, itVar, n.ID)
		}
		if !outerDep {
			spec, dom = g.iterSpec(sc, itVar)
		}
		// range taken from a variable defined at the root (vars), in a third of the cases
		if !outerDep && g.r.Intn(3) == 0 {
			vn := fmt.Sprintf("rng%d", n.ID)
			if spec.List {
				*rootVars = append(*rootVars, KV{K: vn, V: spec.Range})
				spec.Range = Ref(vn)
			} else {
				*rootVars = append(*rootVars, KV{K: vn, V: spec.End})
				spec.End = Ref(vn)
			}
		}
		n.Iter = spec
		csc.itVars = append(append([]string{}, sc.itVars...), itVar)
		csc.itDom = append(append([][]string{}, sc.itDom...), dom)
		if len(dom) > 0 {
			csc.mult = sc.mult * len(dom)
		}
		g.budget -= sc.mult * len(dom)
		name = append(name, Part{K: PLit, S: "-"}, Part{K: PRef, S: itVar})
	} else if g.r.Intn(100) < 25 {
		name = append(name, Part{K: PLit, S: "-"}, Part{K: PRef, S: g.pick(gNames)})
	}
	n.Name = name
	// own-stage scope: the own iteration variable is bound in every field of the role
	n.Enabled, n.EnabledBare = g.enabledTpl(csc, n.Iter != nil)
	g.wsEnabled(n)
	ownIt := ""
	if n.Iter != nil {
		ownIt = n.Iter.Var
	}
	n.Defaults = g.kvs(csc, 2, true, ownIt, false)
	n.Vars = g.kvs(csc, 2, true, ownIt, true)
	if n.Kind != "include" && g.r.Intn(100) < 30 {
		n.Constraints = []KV{{K: g.pick([]string{"machine_id", "rack", "zone"}), V: g.valueTpl(csc, true)}}
	}
	switch n.Kind {
	case "task":
		n.Class = g.pick(taskClasses)
		if g.r.Intn(100) < 25 {
			n.Trigger = g.pick(triggers)
			if g.r.Intn(2) == 0 {
				n.Await = g.pick(triggers)
			}
		}
		switch g.r.Intn(4) {
		case 0:
			n.Timeout = Lit("5s")
		case 1:
			n.Timeout = Ref("tmo")
		}
		if g.r.Intn(3) == 0 {
			b := g.r.Intn(2) == 0
			n.Critical = &b
		}
		if g.r.Intn(100) < 25 {
			n.Connect = []Chan{{Name: "in", Type: "pull", Target: append(Tpl{{K: PLit, S: "peer-"}}, g.valueTpl(csc, true)...)}}
		}
		if g.r.Intn(100) < 25 {
			n.Bind = []Chan{{Name: "out", Type: "push", Global: append(Tpl{{K: PLit, S: "glob-"}}, g.valueTpl(csc, true)...)}}
		}
	case "call":
		n.Func = "testplugin.Noop()"
		n.Trigger = g.pick(triggers)
		if g.r.Intn(2) == 0 {
			n.Await = g.pick(triggers)
		}
		switch g.r.Intn(3) {
		case 0:
			n.Timeout = Lit("2s")
		case 1:
			n.Timeout = Ref("tmo")
		}
		if g.r.Intn(3) == 0 {
			n.Return = "ret" + fmt.Sprint(n.ID)
		}
		if g.r.Intn(3) == 0 {
			b := g.r.Intn(2) == 0
			n.Critical = &b
		}
	case "agg":
		g.children(n, csc, rootVars)
	case "include":
		g.nsub++
		n.IncludeFile = fmt.Sprintf("%ss%d", g.prefix, g.nsub)
		sub := &Node{ID: g.id(), Kind: "agg", Name: Lit(n.IncludeFile)}
		ssc := csc
		sub.Enabled, sub.EnabledBare = nil, false
		if g.r.Intn(5) == 0 {
			sub.Enabled, sub.EnabledBare = g.enabledTpl(ssc, false)
			g.wsEnabled(sub)
		}
		sub.Defaults = g.kvs(ssc, 2, true, "", false)
		sub.Vars = g.kvs(ssc, 2, true, "", true)
		g.children(sub, ssc, rootVars)
		n.Sub = sub
	}
	return n
}

func (g *gen15) children(n *Node, sc scope, rootVars *[]KV) {
	k := 1 + g.r.Intn(4)
	if sc.depth == 1 && k < 2 {
		k = 2
	}
	sc.encl = n
	for i := 0; i < k; i++ {
		n.Children = append(n.Children, g.node(sc, rootVars))
		if g.budget <= 0 {
			break
		}
	}
}

// rootNode builds the root: every g* variable has a default there, so that any
// reference from a descendant is defined at every stage.
func (g *gen15) rootNode(name string) *Node {
	root := &Node{ID: g.id(), Kind: "agg", Name: Lit(name)}
	for _, k := range gNames {
		root.Defaults = append(root.Defaults, KV{K: k, V: Lit(g.pick(gVals))})
	}
	root.Defaults = append(root.Defaults, KV{K: "tmo", V: Lit(g.pick([]string{"7s", "11s"}))})
	root.Defaults = append(root.Defaults, wsFlags...)
	var rootVars []KV
	// root vars may refer to root defaults (own defaults are visible to own vars)
	for _, k := range gNames {
		if g.r.Intn(4) == 0 {
			v := Lit(g.pick(gVals))
			if g.r.Intn(2) == 0 {
				other := g.pick(gNames)
				if other != k {
					v = Tpl{{K: PRef, S: other}, {K: PLit, S: "r"}}
				}
			}
			rootVars = append(rootVars, KV{K: k, V: v})
		}
	}
	sc := scope{depth: 1, mult: 1}
	var rv []KV
	g.children(root, sc, &rv)
	root.Vars = append(rootVars, rv...)
	return root
}

// ---------- error injection ----------

type injection struct {
	Node  int    `json:"node"`
	Field string `json:"field"`
	Kind  string `json:"kind"`
}

func errTpl(r *rand.Rand) (Tpl, string) {
	switch r.Intn(4) {
	case 0:
		return Tpl{{K: PLit, S: "x"}, {K: PErrOpen, S: "g0 g1"}}, "malformed-open-tag"
	case 1:
		return Tpl{{K: PErrFunc}}, "undefined-function"
	case 2:
		return Tpl{{K: PErrVar}}, "undefined-variable"
	}
	return Tpl{{K: PErrSyntax}}, "syntax"
}

type nodeInfo struct {
	n        *Node
	inIter   bool     // the node is an iterator role or lies below one
	ownDom   []string // range of the node's own iterator (as predicted)
	isRoot   bool
	isSub    bool
	liveInst int // enabled instances in the error-free prediction
	reached  int
	parent   int // id of the enclosing node (0 for the root)
}

func collect(root *Node) map[int]*nodeInfo {
	out := map[int]*nodeInfo{}
	var walk func(n *Node, inIter, isRoot, isSub bool, parent int)
	walk = func(n *Node, inIter, isRoot, isSub bool, parent int) {
		in := inIter || n.Iter != nil
		out[n.ID] = &nodeInfo{n: n, inIter: in, isRoot: isRoot, isSub: isSub, parent: parent}
		for _, c := range n.Children {
			walk(c, in, false, false, n.ID)
		}
		if n.Sub != nil {
			walk(n.Sub, in, false, true, n.ID)
		}
	}
	walk(root, false, true, false, 0)
	return out
}

func inSubtree(infos map[int]*nodeInfo, id, top int) bool {
	for id != 0 {
		if id == top {
			return true
		}
		id = infos[id].parent
	}
	return false
}

// useTpl is the SAME expression text wherever it is used.
func useTpl(v string, form int) Tpl {
	switch form {
	case 0:
		return Tpl{{K: PRef, S: v}}
	case 1:
		return Tpl{{K: PEq, S: v, Lit: "a"}}
	}
	return Tpl{{K: PLit, S: "u-"}, {K: PRef, S: v}}
}

// addUse puts the expression into a field of n; returns the field name.
func addUse(r *rand.Rand, ni *nodeInfo, t Tpl, legit bool) string {
	n := ni.n
	var fields []string
	fields = append(fields, "constraints")
	if legit {
		// in the defining role only fields of stage 4/5 see the role's own var
		if n.Kind == "task" || n.Kind == "call" {
			fields = append(fields, "timeoutlike")
		}
	} else {
		fields = append(fields, "vars", "defaults")
		if !ni.isRoot && !ni.isSub {
			fields = append(fields, "enabled", "name")
		}
	}
	if n.Kind == "include" || ni.isSub {
		fields = []string{"vars"}
		if legit {
			fields = []string{"name"}
			if ni.isSub {
				return ""
			}
		}
	}
	f := fields[r.Intn(len(fields))]
	switch f {
	case "constraints":
		n.Constraints = append(n.Constraints, KV{K: "svattr", V: t})
	case "timeoutlike":
		n.Connect = append(n.Connect, Chan{Name: "svch", Type: "pull", Target: t})
		if n.Kind == "call" {
			n.Connect = n.Connect[:len(n.Connect)-1]
			n.Constraints = append(n.Constraints, KV{K: "svattr", V: t})
			f = "constraints"
		} else {
			f = "connect"
		}
	case "vars":
		n.Vars = append(n.Vars, KV{K: "svuse", V: t})
	case "defaults":
		n.Defaults = append(n.Defaults, KV{K: "svuse", V: t})
	case "enabled":
		if t[0].K == PEq {
			n.Enabled, n.EnabledBare = t, false
		} else {
			n.Enabled, n.EnabledBare = Tpl{{K: PEq, S: t[len(t)-1].S, Lit: "a"}}, false
		}
		n.EnabledBlock, n.EnabledWS = false, false
	case "name":
		n.Name = append(append(Tpl{}, n.Name...), append(Tpl{{K: PLit, S: "_"}}, t...)...)
	}
	return f
}

// injectScoped: a variable defined in one role (vars) and used, with the same
// expression text, both where it is visible (the defining role's late stages and
// its subtree) and in a role outside that subtree, where it is undefined: the
// load must fail, whatever was evaluated before (sibling, goroutine, earlier load).
func injectScoped(r *rand.Rand, infos map[int]*nodeInfo) ([]injection, bool) {
	var live []*nodeInfo
	for _, ni := range infos {
		if ni.liveInst > 0 {
			live = append(live, ni)
		}
	}
	sortInfos(live)
	if len(live) < 3 {
		return nil, false
	}
	for try := 0; try < 20; try++ {
		a := live[r.Intn(len(live))]
		if a.isRoot || a.isSub {
			continue
		}
		var outside []*nodeInfo
		for _, b := range live {
			if !inSubtree(infos, b.n.ID, a.n.ID) && !b.isSub {
				outside = append(outside, b)
			}
		}
		if len(outside) == 0 {
			continue
		}
		b := outside[r.Intn(len(outside))]
		v := fmt.Sprintf("sv%d", r.Intn(3))
		form := r.Intn(3)
		t := useTpl(v, form)
		a.n.Vars = append(a.n.Vars, KV{K: v, V: Lit([]string{"a", "b"}[r.Intn(2)])})
		// legitimate uses: the defining role itself and/or a live role below it
		used := false
		if r.Intn(2) == 0 {
			used = addUse(r, a, t, true) != ""
		}
		for _, d := range live {
			if d != a && inSubtree(infos, d.n.ID, a.n.ID) && !d.isSub && (r.Intn(2) == 0 || !used) {
				if addUse(r, d, t, false) != "" {
					used = true
					break
				}
			}
		}
		if !used {
			used = addUse(r, a, t, true) != ""
		}
		f := addUse(r, b, t, false)
		return []injection{{Node: b.n.ID, Field: f, Kind: "scoped-variable-undefined-here/defined-at-" + fmt.Sprint(a.n.ID)}}, true
	}
	return nil, false
}

// markLive fills liveInst from an error-free prediction.
func markLive(x *XRole, infos map[int]*nodeInfo) {
	if x == nil {
		return
	}
	if ni := infos[x.node.ID]; ni != nil {
		ni.liveInst++
		if x.Kind == "include" && x.node.Sub != nil {
			if si := infos[x.node.Sub.ID]; si != nil {
				si.liveInst++
			}
		}
		for k, v := range x.Bound {
			if x.node.Iter != nil && x.node.Iter.Var == k {
				ni.ownDom = append(ni.ownDom, v)
			}
		}
	}
	for _, c := range x.Children {
		markLive(c, infos)
	}
}

// inject puts one template error into a field that the error-free prediction
// evaluates. Returns false if no suitable place exists.
func inject(r *rand.Rand, infos map[int]*nodeInfo, avoid map[int]bool) (injection, bool) {
	var cands []*nodeInfo
	for _, ni := range infos {
		if ni.liveInst == 0 || avoid[ni.n.ID] {
			continue
		}
		w := 1
		if ni.inIter {
			w = 4
		}
		for i := 0; i < w; i++ {
			cands = append(cands, ni)
		}
	}
	if len(cands) == 0 {
		return injection{}, false
	}
	// deterministic order before the random pick (map iteration above)
	sortInfos(cands)
	ni := cands[r.Intn(len(cands))]
	n := ni.n
	et, kind := errTpl(r)
	var fields []string
	fields = append(fields, "vars", "defaults", "vars")
	if !ni.isRoot && !ni.isSub {
		fields = append(fields, "name", "enabled")
	}
	if n.Kind != "include" && !ni.isSub {
		fields = append(fields, "constraints")
	}
	if n.Kind == "task" || n.Kind == "call" {
		fields = append(fields, "timeout")
	}
	if n.Kind == "task" {
		fields = append(fields, "connect")
	}
	if n.Iter != nil {
		fields = append(fields, "range")
		if len(ni.ownDom) > 0 {
			fields = append(fields, "one-element", "one-element", "one-element", "one-element")
		}
	}
	f := fields[r.Intn(len(fields))]
	switch f {
	case "vars":
		n.Vars = append(n.Vars, KV{K: "zerr", V: et})
	case "defaults":
		n.Defaults = append(n.Defaults, KV{K: "zerr", V: et})
	case "name":
		if et[len(et)-1].K == PErrOpen {
			n.Name = append(append(Tpl{}, n.Name...), Part{K: PErrOpen, S: "g0 g1"})
		} else {
			n.Name = append(append(Tpl{}, n.Name...), et...)
		}
	case "enabled":
		n.Enabled, n.EnabledBare, n.EnabledBlock, n.EnabledWS = et, false, false, false
	case "constraints":
		n.Constraints = append(n.Constraints, KV{K: "errattr", V: et})
	case "timeout":
		n.Timeout = et
	case "connect":
		n.Connect = append(n.Connect, Chan{Name: "errch", Type: "pull", Target: et})
	case "range":
		if n.Iter.List {
			n.Iter.Range = et
		} else {
			n.Iter.End = et
		}
	case "one-element":
		el := ni.ownDom[r.Intn(len(ni.ownDom))]
		kind = "runtime-error-for-one-element"
		p := Tpl{{K: PErrIfEq, S: n.Iter.Var, Lit: el}}
		switch r.Intn(3) {
		case 0:
			n.Vars = append(n.Vars, KV{K: "zerr", V: p})
		case 1:
			if n.Kind != "include" {
				n.Constraints = append(n.Constraints, KV{K: "errattr", V: p})
			} else {
				n.Vars = append(n.Vars, KV{K: "zerr", V: p})
			}
		case 2:
			n.Defaults = append(n.Defaults, KV{K: "zerr", V: p})
		}
	}
	return injection{Node: n.ID, Field: f, Kind: kind}, true
}

func sortInfos(c []*nodeInfo) {
	for i := 1; i < len(c); i++ {
		for j := i; j > 0 && c[j-1].n.ID > c[j].n.ID; j-- {
			c[j-1], c[j] = c[j], c[j-1]
		}
	}
}

// ---------- families ----------

type Program struct {
	Idx        int               `json:"idx"`
	Family     string            `json:"family"`
	RootName   string            `json:"root"`
	Injections []injection       `json:"injections,omitempty"`
	Files      map[string]string `json:"files"`
	// environment-wide user variables handed to Load through a ParentAdapter
	UserVars       map[string]string `json:"userVars,omitempty"`
	UserCollisions []string          `json:"userVarsNamedLikeIterationVariables,omitempty"`
	RoleCollisions int               `json:"roleLevelEntriesNamedLikeIterationVariables,omitempty"`
	// expr-reuse: a program that loads fine and evaluates the same expression texts,
	// loaded in the same process right before the program proper
	PrimerName  string            `json:"primer,omitempty"`
	PrimerFiles map[string]string `json:"primerFiles,omitempty"`
	root        *Node
	primer      *Node
}

// chooseUserVars gives a share of the programs environment-wide user variables:
// some named like iteration variables the program uses (in names, enabled
// expressions, constraints, nested ranges), with a value from the iterator's range
// or outside it, some overriding one of the g* variables.
func (g *gen15) chooseUserVars(p *Program) {
	r := g.r
	p.RoleCollisions = g.roleCollisions
	if r.Intn(100) >= 40 {
		return
	}
	_, _, st := Predict(p.root, Layer{})
	var itNames []string
	for k := range st.IterVals {
		itNames = append(itNames, k)
	}
	sortStrings(itNames)
	u := map[string]string{}
	if len(itNames) > 0 && r.Intn(100) < 80 {
		n := 1 + r.Intn(2)
		for i := 0; i < n; i++ {
			k := itNames[r.Intn(len(itNames))]
			var vals []string
			for v := range st.IterVals[k] {
				vals = append(vals, v)
			}
			sortStrings(vals)
			v := g.pick([]string{"zz", "99", "7"})
			if len(vals) > 0 && r.Intn(10) < 7 {
				v = vals[r.Intn(len(vals))]
			}
			if _, dup := u[k]; !dup {
				p.UserCollisions = append(p.UserCollisions, k)
			}
			u[k] = v
		}
	}
	if r.Intn(100) < 45 || len(u) == 0 {
		u[g.pick(gNames)] = g.pick(gVals)
	}
	p.UserVars = u
}

func (p *Program) env() Layer {
	return Layer{U: p.UserVars}
}

func sortStrings(s []string) {
	for i := 1; i < len(s); i++ {
		for j := i; j > 0 && s[j-1] > s[j]; j-- {
			s[j-1], s[j] = s[j], s[j-1]
		}
	}
}

// genProgram builds program idx. Families:
//
//	generic     the recursive generator above
//	wide-iter   one iterator with many children of which exactly one fails
//	            (concurrent error accumulation in the iterator)
//	sib-errors  an aggregator with several plain children, two of which fail
//	            (concurrent error accumulation in the aggregator)
func genProgram(r *rand.Rand, prefix string, idx int) *Program {
	g := &gen15{r: r, prefix: prefix, budget: 45, maxDep: 2 + r.Intn(3)}
	p := &Program{Idx: idx, RootName: prefix}
	fam := r.Intn(100)
	switch {
	case fam < 8:
		p.Family = "wide-iter"
		root := &Node{ID: g.id(), Kind: "agg", Name: Lit(prefix)}
		for _, k := range gNames {
			root.Defaults = append(root.Defaults, KV{K: k, V: Lit(g.pick(gVals))})
		}
		n := 6 + r.Intn(15)
		// call roles finish right after their last template field, so the failing
		// sibling and the succeeding ones complete within a very short time of each other
		it := &Node{ID: g.id(), Kind: "call", Func: "testplugin.Noop()", Trigger: g.pick(triggers),
			Name: Tpl{{K: PLit, S: "w-"}, {K: PRef, S: "it1"}},
			Iter: &IterSpec{Var: "it1", Begin: Lit("1"), End: Lit(fmt.Sprint(n))}}
		bad := fmt.Sprint(1 + r.Intn(n))
		ep := Tpl{{K: PErrIfEq, S: "it1", Lit: bad}}
		field := "one-element"
		switch k := r.Intn(10); {
		case k < 6:
			it.Constraints = []KV{{K: "errattr", V: ep}}
		case k < 8:
			it.Vars = []KV{{K: "zerr", V: ep}}
		default:
			it.Defaults = []KV{{K: "zerr", V: ep}}
		}
		switch k := r.Intn(10); {
		case k < 2:
			it.Kind, it.Func, it.Trigger, it.Class = "task", "", "", g.pick(taskClasses)
		case k < 4:
			// the iterated role is an aggregator with one call below
			it.Kind, it.Func, it.Trigger = "agg", "", ""
			it.Children = []*Node{{ID: g.id(), Kind: "call", Func: "testplugin.Noop()", Trigger: g.pick(triggers), Name: Lit("leaf")}}
		}
		root.Children = []*Node{it}
		if r.Intn(2) == 0 {
			root.Children = append(root.Children, &Node{ID: g.id(), Kind: "task", Class: "t1", Name: Lit("other")})
		}
		p.Injections = []injection{{Node: it.ID, Field: field, Kind: "runtime-error-for-one-element"}}
		p.root = root
		g.chooseUserVars(p)
	case fam < 14:
		p.Family = "sib-errors"
		root := &Node{ID: g.id(), Kind: "agg", Name: Lit(prefix)}
		for _, k := range gNames {
			root.Defaults = append(root.Defaults, KV{K: k, V: Lit(g.pick(gVals))})
		}
		n := 2 + r.Intn(7)
		b1 := r.Intn(n)
		b2 := (b1 + 1 + r.Intn(n-1)) % n
		for i := 0; i < n; i++ {
			c := &Node{ID: g.id(), Kind: "task", Class: g.pick(taskClasses), Name: Lit(fmt.Sprintf("s%d", i))}
			if i == b1 || i == b2 {
				et, kind := errTpl(r)
				c.Vars = []KV{{K: "zerr", V: et}}
				p.Injections = append(p.Injections, injection{Node: c.ID, Field: "vars", Kind: kind})
			}
			root.Children = append(root.Children, c)
		}
		p.root = root
	case fam < 22:
		p.Family = "nested-iter"
		p.root = g.nestedIter(prefix)
		g.chooseUserVars(p)
	case fam < 30:
		p.Family = "expr-reuse"
		g.exprReuse(p, prefix)
	default:
		p.Family = "generic"
		p.root = g.rootNode(prefix)
		g.chooseUserVars(p)
		if q := r.Intn(100); q < 18 {
			tree, _, st := Predict(p.root, p.env())
			if len(st.Errs) == 0 {
				infos := collect(p.root)
				markLive(tree, infos)
				if injs, ok := injectScoped(r, infos); ok {
					p.Injections = injs
				}
			}
		} else if q < 46 {
			tree, _, st := Predict(p.root, p.env())
			if len(st.Errs) == 0 {
				infos := collect(p.root)
				markLive(tree, infos)
				nerr := 1
				if r.Intn(100) < 40 {
					nerr = 2
				}
				avoid := map[int]bool{}
				for i := 0; i < nerr; i++ {
					if inj, ok := inject(r, infos, avoid); ok {
						p.Injections = append(p.Injections, inj)
						avoid[inj.Node] = true
					}
				}
			}
		}
	}
	p.Files = Files(p.root)
	if p.primer != nil {
		p.PrimerFiles = Files(p.primer)
	}
	return p
}

// nestedIter: an outer iterator over an aggregator that contains an inner
// iterator whose range is an expression of the outer iteration variable
// (optionally a third level), so that copies of the inner iterator must not share
// their range.
func (g *gen15) nestedIter(name string) *Node {
	r := g.r
	root := &Node{ID: g.id(), Kind: "agg", Name: Lit(name)}
	for _, k := range gNames {
		root.Defaults = append(root.Defaults, KV{K: k, V: Lit(g.pick(gVals))})
	}
	root.Defaults = append(root.Defaults, KV{K: "tmo", V: Lit("7s")})
	root.Defaults = append(root.Defaults, wsFlags...)
	outer := &Node{ID: g.id(), Kind: "agg", Name: Tpl{{K: PLit, S: "o-"}, {K: PRef, S: "it1"}}}
	var odom []string
	n := 2 + r.Intn(4)
	outer.Iter = &IterSpec{Var: "it1"}
	if r.Intn(2) == 0 {
		b := r.Intn(3)
		outer.Iter.Begin, outer.Iter.End = Lit(fmt.Sprint(b)), Lit(fmt.Sprint(b+n-1))
		for v := b; v < b+n; v++ {
			odom = append(odom, fmt.Sprint(v))
		}
	} else {
		outer.Iter.List = true
		var el []string
		for j := 0; j < n; j++ {
			odom = append(odom, fmt.Sprintf("h%d", j+1))
			el = append(el, fmt.Sprintf(`"h%d"`, j+1))
		}
		outer.Iter.Range = Lit("[" + strings.Join(el, ",") + "]")
	}
	sc := scope{itVars: []string{"it1"}, itDom: [][]string{odom}, depth: 2, mult: n, encl: outer}
	mk := func(sc scope, depth int, leafOK bool) *Node {
		in := &Node{ID: g.id()}
		itVar := fmt.Sprintf("it%d", depth)
		spec, dom, ok := g.outerRange(sc, itVar, in.ID)
		if !ok {
			spec, dom = g.iterSpec(sc, itVar)
		}
		_ = dom
		in.Iter = spec
		in.Name = Tpl{{K: PLit, S: fmt.Sprintf("i%d-", in.ID)}, {K: PRef, S: itVar}}
		switch r.Intn(3) {
		case 0:
			in.Kind, in.Class = "task", g.pick(taskClasses)
		case 1:
			in.Kind, in.Func, in.Trigger = "call", "testplugin.Noop()", g.pick(triggers)
		default:
			in.Kind = "agg"
			in.Children = []*Node{{ID: g.id(), Kind: "task", Class: g.pick(taskClasses), Name: Lit("leaf")}}
		}
		if r.Intn(3) == 0 {
			in.Constraints = []KV{{K: "rack", V: Tpl{{K: PRef, S: sc.itVars[len(sc.itVars)-1]}, {K: PLit, S: "/"}, {K: PRef, S: itVar}}}}
		}
		return in
	}
	inner := mk(sc, 2, true)
	outer.Children = append(outer.Children, inner)
	if r.Intn(2) == 0 {
		outer.Children = append(outer.Children, &Node{ID: g.id(), Kind: "task", Class: "t1", Name: Lit("plain")})
	}
	if r.Intn(3) == 0 {
		// a second inner iterator depending on the same outer variable
		outer.Children = append(outer.Children, mk(sc, 2, true))
	}
	if inner.Kind == "agg" && r.Intn(2) == 0 {
		// third level: depends on the middle variable
		var mdom []string
		tree, _, _ := Predict(&Node{ID: 9999, Kind: "agg", Name: Lit("x"), Defaults: root.Defaults, Children: []*Node{outer}}, Layer{})
		var walk func(x *XRole)
		seen := map[string]bool{}
		walk = func(x *XRole) {
			if x == nil {
				return
			}
			if v, ok := x.Bound["it2"]; ok && !seen[v] {
				seen[v] = true
				mdom = append(mdom, v)
			}
			for _, c := range x.Children {
				walk(c)
			}
		}
		walk(tree)
		if len(mdom) > 0 {
			sc3 := scope{itVars: []string{"it1", "it2"}, itDom: [][]string{odom, mdom}, depth: 3, mult: n * len(mdom), encl: inner}
			inner.Children = append(inner.Children, mk(sc3, 3, true))
		}
	}
	root.Children = []*Node{outer}
	if r.Intn(2) == 0 {
		root.Children = append(root.Children, &Node{ID: g.id(), Kind: "call", Func: "testplugin.Noop()", Trigger: g.pick(triggers), Name: Lit("side")})
	}
	return root
}

func cloneNode(n *Node) *Node {
	b, _ := json.Marshal(n)
	var out Node
	_ = json.Unmarshal(b, &out)
	return &out
}

// exprReuse: a primer program in which a variable is defined in one role and used
// by several expressions below it, and the program proper, identical except that
// the definition is missing (every one of those expressions must now fail) and
// that the role order may be reversed. The primer is loaded first in the same
// process: nothing evaluated earlier may make the second program load.
func (g *gen15) exprReuse(p *Program, name string) {
	r := g.r
	v := fmt.Sprintf("sv%d", r.Intn(3))
	mkRoot := func(nm string) *Node {
		root := &Node{ID: 1, Kind: "agg", Name: Lit(nm)}
		for _, k := range gNames {
			root.Defaults = append(root.Defaults, KV{K: k, V: Lit("a")})
		}
		return root
	}
	primer := mkRoot(name + "pr")
	g.nextID = 1
	a := &Node{ID: g.id(), Kind: "agg", Name: Lit("a"), Vars: []KV{{K: v, V: Lit("a")}}}
	nuse := 1 + r.Intn(3)
	var uses []injection
	for i := 0; i < nuse; i++ {
		c := &Node{ID: g.id(), Kind: "task", Class: g.pick(taskClasses), Name: Lit(fmt.Sprintf("u%d", i))}
		if r.Intn(3) == 0 {
			c.Kind, c.Class, c.Func, c.Trigger = "call", "", "testplugin.Noop()", g.pick(triggers)
		}
		t := useTpl(v, r.Intn(3))
		f := []string{"vars", "defaults", "constraints", "enabled", "name"}[r.Intn(5)]
		switch f {
		case "vars":
			c.Vars = []KV{{K: "svuse", V: t}}
		case "defaults":
			c.Defaults = []KV{{K: "svuse", V: t}}
		case "constraints":
			c.Constraints = []KV{{K: "svattr", V: t}}
		case "enabled":
			c.Enabled = Tpl{{K: PEq, S: v, Lit: "a"}}
		case "name":
			c.Name = append(c.Name, append(Tpl{{K: PLit, S: "_"}}, t...)...)
		}
		uses = append(uses, injection{Node: c.ID, Field: f, Kind: "same-text-as-in-primer/variable-undefined-here"})
		a.Children = append(a.Children, c)
	}
	if r.Intn(2) == 0 {
		// the expression also in an iterated role
		c := &Node{ID: g.id(), Kind: "call", Func: "testplugin.Noop()", Trigger: g.pick(triggers),
			Name: Tpl{{K: PLit, S: "w-"}, {K: PRef, S: "it1"}}, Iter: &IterSpec{Var: "it1", Begin: Lit("1"), End: Lit(fmt.Sprint(2 + r.Intn(5)))},
			Constraints: []KV{{K: "svattr", V: useTpl(v, r.Intn(3))}}}
		uses = append(uses, injection{Node: c.ID, Field: "constraints", Kind: "same-text-as-in-primer/variable-undefined-here"})
		a.Children = append(a.Children, c)
	}
	primer.Children = []*Node{a, {ID: g.id(), Kind: "task", Class: "t1", Name: Lit("other")}}
	target := cloneNode(primer)
	target.Name = Lit(name)
	ta := target.Children[0]
	ta.Vars = nil
	switch r.Intn(3) {
	case 0:
		// defined, but in a sibling subtree only
		target.Children[1] = &Node{ID: target.Children[1].ID, Kind: "agg", Name: Lit("other"), Vars: []KV{{K: v, V: Lit("a")}},
			Children: []*Node{{ID: g.id(), Kind: "task", Class: "t1", Name: Lit("ok"), Constraints: []KV{{K: "svattr", V: useTpl(v, 0)}}}}}
		if r.Intn(2) == 0 {
			target.Children[0], target.Children[1] = target.Children[1], target.Children[0]
		}
	case 1:
		if r.Intn(2) == 0 {
			target.Children[0], target.Children[1] = target.Children[1], target.Children[0]
		}
	}
	p.root, p.primer, p.PrimerName = target, primer, name+"pr"
	p.Injections = uses
}
