package main

// C15 program generator: nested aggregator / iterator (begin-end and JSON list,
// literal or from a variable, including empty ranges) / task / call / include roles,
// `enabled` as literals or comparisons, cross-level variable references, and in a
// fraction of programs one or two injected template errors.

import (
	"fmt"
	"math/rand"
	"strings"
)

var gNames = []string{"g0", "g1", "g2", "g3", "g4"}
var gVals = []string{"a", "b", "c", ""}
var taskClasses = []string{"t1", "t2", "t3"}
var triggers = []string{"before_CONFIGURE", "after_CONFIGURE+10", "before_START_ACTIVITY", "enter_RUNNING-5", "after_STOP_ACTIVITY"}

type gen15 struct {
	r      *rand.Rand
	nextID int
	prefix string
	nsub   int
	budget int // rough bound on the number of expanded roles
	maxDep int
}

type scope struct {
	itVars []string   // iteration variables bound by enclosing iterators (and own)
	itDom  [][]string // their possible values
	depth  int
	isRoot bool
	mult   int // how many instances of this node exist (product of enclosing range sizes)
}

func (g *gen15) id() int { g.nextID++; return g.nextID }

func (g *gen15) pick(ss []string) string { return ss[g.r.Intn(len(ss))] }

// valueTpl: literal or text with references (cross-level: the referenced names
// are defined at the root, possibly redefined in between).
func (g *gen15) valueTpl(sc scope, allowRef bool) Tpl {
	if !allowRef || g.r.Intn(100) < 55 {
		return Lit(g.pick(gVals))
	}
	var t Tpl
	if g.r.Intn(2) == 0 {
		t = append(t, Part{K: PLit, S: g.pick([]string{"x", "y-", "pre"})})
	}
	if len(sc.itVars) > 0 && g.r.Intn(3) == 0 {
		t = append(t, Part{K: PRef, S: sc.itVars[g.r.Intn(len(sc.itVars))]})
	} else {
		t = append(t, Part{K: PRef, S: g.pick(gNames)})
	}
	if g.r.Intn(3) == 0 {
		t = append(t, Part{K: PLit, S: g.pick([]string{"z", "-s"})})
	}
	return t
}

func (g *gen15) enabledTpl(sc scope, forIterator bool) (Tpl, bool) {
	p := g.r.Intn(100)
	if forIterator {
		// an `enabled` on an iterator role: mostly absent or literal
		switch {
		case p < 70:
			return nil, false
		case p < 82:
			return Lit("true"), g.r.Intn(2) == 0
		case p < 88:
			return Lit("false"), g.r.Intn(2) == 0
		}
	} else {
		switch {
		case p < 55:
			return nil, false
		case p < 65:
			return Lit("true"), g.r.Intn(2) == 0
		case p < 73:
			return Lit("false"), g.r.Intn(2) == 0
		}
	}
	// comparison
	k := PEq
	if g.r.Intn(2) == 0 {
		k = PNe
	}
	if len(sc.itVars) > 0 && g.r.Intn(2) == 0 {
		i := g.r.Intn(len(sc.itVars))
		lit := "zz"
		if len(sc.itDom[i]) > 0 {
			lit = sc.itDom[i][g.r.Intn(len(sc.itDom[i]))]
		}
		return Tpl{{K: k, S: sc.itVars[i], Lit: lit}}, false
	}
	return Tpl{{K: k, S: g.pick(gNames), Lit: g.pick(gVals)}}, false
}

func (g *gen15) kvs(sc scope, max int, allowRef bool) []KV {
	n := g.r.Intn(max + 1)
	seen := map[string]bool{}
	var out []KV
	for i := 0; i < n; i++ {
		k := g.pick(gNames)
		if seen[k] {
			continue
		}
		seen[k] = true
		out = append(out, KV{K: k, V: g.valueTpl(sc, allowRef)})
	}
	return out
}

func (g *gen15) iterSpec(sc scope, itVar string) (*IterSpec, []string) {
	size := g.r.Intn(5) // 0..4
	switch p := g.r.Intn(100); {
	case p < 12:
		size = 0
	case p > 92 && sc.mult == 1:
		size = 6 + g.r.Intn(11)
	}
	it := &IterSpec{Var: itVar}
	var dom []string
	if g.r.Intn(2) == 0 {
		it.List = true
		for j := 0; j < size; j++ {
			dom = append(dom, fmt.Sprintf("h%d", j+1))
		}
		js := "[" + strings.Join(func() []string {
			var o []string
			for _, d := range dom {
				o = append(o, `"`+d+`"`)
			}
			return o
		}(), ",") + "]"
		it.Range = Lit(js)
	} else {
		b := g.r.Intn(3)
		e := b + size - 1
		for j := b; j <= e; j++ {
			dom = append(dom, fmt.Sprint(j))
		}
		it.Begin, it.End = Lit(fmt.Sprint(b)), Lit(fmt.Sprint(e))
	}
	return it, dom
}

// node generates one role below an aggregator. rangeVars collects
// variables that the root must define for ranges taken from variables.
func (g *gen15) node(sc scope, rootVars *[]KV) *Node {
	n := &Node{ID: g.id()}
	g.budget -= sc.mult
	canNest := sc.depth < g.maxDep && g.budget > 4
	p := g.r.Intn(100)
	switch {
	case canNest && p < 32:
		n.Kind = "agg"
	case canNest && p < 42 && g.nsub < 3:
		n.Kind = "include"
	case p < 80:
		n.Kind = "task"
	default:
		n.Kind = "call"
	}
	csc := sc
	csc.depth++
	csc.isRoot = false
	name := Tpl{{K: PLit, S: fmt.Sprintf("r%d", n.ID)}}
	if g.r.Intn(100) < 30 && g.budget > 2 {
		itVar := fmt.Sprintf("it%d", sc.depth)
		spec, dom := g.iterSpec(sc, itVar)
		// range taken from a variable defined at the root (vars), in a third of the cases
		if g.r.Intn(3) == 0 {
			vn := fmt.Sprintf("rng%d", n.ID)
			if spec.List {
				*rootVars = append(*rootVars, KV{K: vn, V: spec.Range})
				spec.Range = Ref(vn)
			} else {
				*rootVars = append(*rootVars, KV{K: vn, V: spec.End})
				spec.End = Ref(vn)
			}
		}
		n.Iter = spec
		csc.itVars = append(append([]string{}, sc.itVars...), itVar)
		csc.itDom = append(append([][]string{}, sc.itDom...), dom)
		if len(dom) > 0 {
			csc.mult = sc.mult * len(dom)
		}
		g.budget -= sc.mult * len(dom)
		name = append(name, Part{K: PLit, S: "-"}, Part{K: PRef, S: itVar})
	} else if g.r.Intn(100) < 25 {
		name = append(name, Part{K: PLit, S: "-"}, Part{K: PRef, S: g.pick(gNames)})
	}
	n.Name = name
	// own-stage scope: the own iteration variable is bound in every field of the role
	n.Enabled, n.EnabledBare = g.enabledTpl(csc, n.Iter != nil)
	n.Defaults = g.kvs(csc, 2, true)
	n.Vars = g.kvs(csc, 2, true)
	if n.Kind != "include" && g.r.Intn(100) < 30 {
		n.Constraints = []KV{{K: g.pick([]string{"machine_id", "rack", "zone"}), V: g.valueTpl(csc, true)}}
	}
	switch n.Kind {
	case "task":
		n.Class = g.pick(taskClasses)
		if g.r.Intn(100) < 25 {
			n.Trigger = g.pick(triggers)
			if g.r.Intn(2) == 0 {
				n.Await = g.pick(triggers)
			}
		}
		switch g.r.Intn(4) {
		case 0:
			n.Timeout = Lit("5s")
		case 1:
			n.Timeout = Ref("tmo")
		}
		if g.r.Intn(3) == 0 {
			b := g.r.Intn(2) == 0
			n.Critical = &b
		}
		if g.r.Intn(100) < 25 {
			n.Connect = []Chan{{Name: "in", Type: "pull", Target: append(Tpl{{K: PLit, S: "peer-"}}, g.valueTpl(csc, true)...)}}
		}
		if g.r.Intn(100) < 25 {
			n.Bind = []Chan{{Name: "out", Type: "push", Global: append(Tpl{{K: PLit, S: "glob-"}}, g.valueTpl(csc, true)...)}}
		}
	case "call":
		n.Func = "testplugin.Noop()"
		n.Trigger = g.pick(triggers)
		if g.r.Intn(2) == 0 {
			n.Await = g.pick(triggers)
		}
		switch g.r.Intn(3) {
		case 0:
			n.Timeout = Lit("2s")
		case 1:
			n.Timeout = Ref("tmo")
		}
		if g.r.Intn(3) == 0 {
			n.Return = "ret" + fmt.Sprint(n.ID)
		}
		if g.r.Intn(3) == 0 {
			b := g.r.Intn(2) == 0
			n.Critical = &b
		}
	case "agg":
		g.children(n, csc, rootVars)
	case "include":
		g.nsub++
		n.IncludeFile = fmt.Sprintf("%ss%d", g.prefix, g.nsub)
		sub := &Node{ID: g.id(), Kind: "agg", Name: Lit(n.IncludeFile)}
		ssc := csc
		sub.Enabled, sub.EnabledBare = nil, false
		if g.r.Intn(5) == 0 {
			sub.Enabled, sub.EnabledBare = g.enabledTpl(ssc, false)
		}
		sub.Defaults = g.kvs(ssc, 2, true)
		sub.Vars = g.kvs(ssc, 2, true)
		g.children(sub, ssc, rootVars)
		n.Sub = sub
	}
	return n
}

func (g *gen15) children(n *Node, sc scope, rootVars *[]KV) {
	k := 1 + g.r.Intn(4)
	if sc.depth == 1 && k < 2 {
		k = 2
	}
	for i := 0; i < k; i++ {
		n.Children = append(n.Children, g.node(sc, rootVars))
		if g.budget <= 0 {
			break
		}
	}
}

// rootNode builds the root: every g* variable has a default there, so that any
// reference from a descendant is defined at every stage.
func (g *gen15) rootNode(name string) *Node {
	root := &Node{ID: g.id(), Kind: "agg", Name: Lit(name)}
	for _, k := range gNames {
		root.Defaults = append(root.Defaults, KV{K: k, V: Lit(g.pick(gVals))})
	}
	root.Defaults = append(root.Defaults, KV{K: "tmo", V: Lit(g.pick([]string{"7s", "11s"}))})
	var rootVars []KV
	// root vars may refer to root defaults (own defaults are visible to own vars)
	for _, k := range gNames {
		if g.r.Intn(4) == 0 {
			v := Lit(g.pick(gVals))
			if g.r.Intn(2) == 0 {
				other := g.pick(gNames)
				if other != k {
					v = Tpl{{K: PRef, S: other}, {K: PLit, S: "r"}}
				}
			}
			rootVars = append(rootVars, KV{K: k, V: v})
		}
	}
	sc := scope{depth: 1, mult: 1}
	var rv []KV
	g.children(root, sc, &rv)
	root.Vars = append(rootVars, rv...)
	return root
}

// ---------- error injection ----------

type injection struct {
	Node  int    `json:"node"`
	Field string `json:"field"`
	Kind  string `json:"kind"`
}

func errTpl(r *rand.Rand) (Tpl, string) {
	switch r.Intn(4) {
	case 0:
		return Tpl{{K: PLit, S: "x"}, {K: PErrOpen, S: "g0 g1"}}, "malformed-open-tag"
	case 1:
		return Tpl{{K: PErrFunc}}, "undefined-function"
	case 2:
		return Tpl{{K: PErrVar}}, "undefined-variable"
	}
	return Tpl{{K: PErrSyntax}}, "syntax"
}

type nodeInfo struct {
	n        *Node
	inIter   bool     // the node is an iterator role or lies below one
	ownDom   []string // range of the node's own iterator (as predicted)
	isRoot   bool
	isSub    bool
	liveInst int // enabled instances in the error-free prediction
	reached  int
}

func collect(root *Node) map[int]*nodeInfo {
	out := map[int]*nodeInfo{}
	var walk func(n *Node, inIter, isRoot, isSub bool)
	walk = func(n *Node, inIter, isRoot, isSub bool) {
		in := inIter || n.Iter != nil
		out[n.ID] = &nodeInfo{n: n, inIter: in, isRoot: isRoot, isSub: isSub}
		for _, c := range n.Children {
			walk(c, in, false, false)
		}
		if n.Sub != nil {
			walk(n.Sub, in, false, true)
		}
	}
	walk(root, false, true, false)
	return out
}

// markLive fills liveInst from an error-free prediction.
func markLive(x *XRole, infos map[int]*nodeInfo) {
	if x == nil {
		return
	}
	if ni := infos[x.node.ID]; ni != nil {
		ni.liveInst++
		if x.Kind == "include" && x.node.Sub != nil {
			if si := infos[x.node.Sub.ID]; si != nil {
				si.liveInst++
			}
		}
		for k, v := range x.Bound {
			if x.node.Iter != nil && x.node.Iter.Var == k {
				ni.ownDom = append(ni.ownDom, v)
			}
		}
	}
	for _, c := range x.Children {
		markLive(c, infos)
	}
}

// inject puts one template error into a field that the error-free prediction
// evaluates. Returns false if no suitable place exists.
func inject(r *rand.Rand, infos map[int]*nodeInfo, avoid map[int]bool) (injection, bool) {
	var cands []*nodeInfo
	for _, ni := range infos {
		if ni.liveInst == 0 || avoid[ni.n.ID] {
			continue
		}
		w := 1
		if ni.inIter {
			w = 4
		}
		for i := 0; i < w; i++ {
			cands = append(cands, ni)
		}
	}
	if len(cands) == 0 {
		return injection{}, false
	}
	// deterministic order before the random pick (map iteration above)
	sortInfos(cands)
	ni := cands[r.Intn(len(cands))]
	n := ni.n
	et, kind := errTpl(r)
	var fields []string
	fields = append(fields, "vars", "defaults", "vars")
	if !ni.isRoot && !ni.isSub {
		fields = append(fields, "name", "enabled")
	}
	if n.Kind != "include" && !ni.isSub {
		fields = append(fields, "constraints")
	}
	if n.Kind == "task" || n.Kind == "call" {
		fields = append(fields, "timeout")
	}
	if n.Kind == "task" {
		fields = append(fields, "connect")
	}
	if n.Iter != nil {
		fields = append(fields, "range")
		if len(ni.ownDom) > 0 {
			fields = append(fields, "one-element", "one-element", "one-element", "one-element")
		}
	}
	f := fields[r.Intn(len(fields))]
	switch f {
	case "vars":
		n.Vars = append(n.Vars, KV{K: "zerr", V: et})
	case "defaults":
		n.Defaults = append(n.Defaults, KV{K: "zerr", V: et})
	case "name":
		if et[len(et)-1].K == PErrOpen {
			n.Name = append(append(Tpl{}, n.Name...), Part{K: PErrOpen, S: "g0 g1"})
		} else {
			n.Name = append(append(Tpl{}, n.Name...), et...)
		}
	case "enabled":
		n.Enabled, n.EnabledBare = et, false
	case "constraints":
		n.Constraints = append(n.Constraints, KV{K: "errattr", V: et})
	case "timeout":
		n.Timeout = et
	case "connect":
		n.Connect = append(n.Connect, Chan{Name: "errch", Type: "pull", Target: et})
	case "range":
		if n.Iter.List {
			n.Iter.Range = et
		} else {
			n.Iter.End = et
		}
	case "one-element":
		el := ni.ownDom[r.Intn(len(ni.ownDom))]
		kind = "runtime-error-for-one-element"
		p := Tpl{{K: PErrIfEq, S: n.Iter.Var, Lit: el}}
		switch r.Intn(3) {
		case 0:
			n.Vars = append(n.Vars, KV{K: "zerr", V: p})
		case 1:
			if n.Kind != "include" {
				n.Constraints = append(n.Constraints, KV{K: "errattr", V: p})
			} else {
				n.Vars = append(n.Vars, KV{K: "zerr", V: p})
			}
		case 2:
			n.Defaults = append(n.Defaults, KV{K: "zerr", V: p})
		}
	}
	return injection{Node: n.ID, Field: f, Kind: kind}, true
}

func sortInfos(c []*nodeInfo) {
	for i := 1; i < len(c); i++ {
		for j := i; j > 0 && c[j-1].n.ID > c[j].n.ID; j-- {
			c[j-1], c[j] = c[j], c[j-1]
		}
	}
}

// ---------- families ----------

type Program struct {
	Idx        int               `json:"idx"`
	Family     string            `json:"family"`
	RootName   string            `json:"root"`
	Injections []injection       `json:"injections,omitempty"`
	Files      map[string]string `json:"files"`
	root       *Node
}

// genProgram builds program idx. Families:
//
//	generic     the recursive generator above
//	wide-iter   one iterator with many children of which exactly one fails
//	            (concurrent error accumulation in the iterator)
//	sib-errors  an aggregator with several plain children, two of which fail
//	            (concurrent error accumulation in the aggregator)
func genProgram(r *rand.Rand, prefix string, idx int) *Program {
	g := &gen15{r: r, prefix: prefix, budget: 45, maxDep: 2 + r.Intn(3)}
	p := &Program{Idx: idx, RootName: prefix}
	fam := r.Intn(100)
	switch {
	case fam < 8:
		p.Family = "wide-iter"
		root := &Node{ID: g.id(), Kind: "agg", Name: Lit(prefix)}
		for _, k := range gNames {
			root.Defaults = append(root.Defaults, KV{K: k, V: Lit(g.pick(gVals))})
		}
		n := 6 + r.Intn(15)
		// call roles finish right after their last template field, so the failing
		// sibling and the succeeding ones complete within a very short time of each other
		it := &Node{ID: g.id(), Kind: "call", Func: "testplugin.Noop()", Trigger: g.pick(triggers),
			Name: Tpl{{K: PLit, S: "w-"}, {K: PRef, S: "it1"}},
			Iter: &IterSpec{Var: "it1", Begin: Lit("1"), End: Lit(fmt.Sprint(n))}}
		bad := fmt.Sprint(1 + r.Intn(n))
		ep := Tpl{{K: PErrIfEq, S: "it1", Lit: bad}}
		field := "one-element"
		switch k := r.Intn(10); {
		case k < 6:
			it.Constraints = []KV{{K: "errattr", V: ep}}
		case k < 8:
			it.Vars = []KV{{K: "zerr", V: ep}}
		default:
			it.Defaults = []KV{{K: "zerr", V: ep}}
		}
		switch k := r.Intn(10); {
		case k < 2:
			it.Kind, it.Func, it.Trigger, it.Class = "task", "", "", g.pick(taskClasses)
		case k < 4:
			// the iterated role is an aggregator with one call below
			it.Kind, it.Func, it.Trigger = "agg", "", ""
			it.Children = []*Node{{ID: g.id(), Kind: "call", Func: "testplugin.Noop()", Trigger: g.pick(triggers), Name: Lit("leaf")}}
		}
		root.Children = []*Node{it}
		if r.Intn(2) == 0 {
			root.Children = append(root.Children, &Node{ID: g.id(), Kind: "task", Class: "t1", Name: Lit("other")})
		}
		p.Injections = []injection{{Node: it.ID, Field: field, Kind: "runtime-error-for-one-element"}}
		p.root = root
	case fam < 14:
		p.Family = "sib-errors"
		root := &Node{ID: g.id(), Kind: "agg", Name: Lit(prefix)}
		for _, k := range gNames {
			root.Defaults = append(root.Defaults, KV{K: k, V: Lit(g.pick(gVals))})
		}
		n := 2 + r.Intn(7)
		b1 := r.Intn(n)
		b2 := (b1 + 1 + r.Intn(n-1)) % n
		for i := 0; i < n; i++ {
			c := &Node{ID: g.id(), Kind: "task", Class: g.pick(taskClasses), Name: Lit(fmt.Sprintf("s%d", i))}
			if i == b1 || i == b2 {
				et, kind := errTpl(r)
				c.Vars = []KV{{K: "zerr", V: et}}
				p.Injections = append(p.Injections, injection{Node: c.ID, Field: "vars", Kind: kind})
			}
			root.Children = append(root.Children, c)
		}
		p.root = root
	default:
		p.Family = "generic"
		p.root = g.rootNode(prefix)
		if r.Intn(100) < 33 {
			tree, _, st := Predict(p.root, Layer{})
			if len(st.Errs) == 0 {
				infos := collect(p.root)
				markLive(tree, infos)
				nerr := 1
				if r.Intn(100) < 40 {
					nerr = 2
				}
				avoid := map[int]bool{}
				for i := 0; i < nerr; i++ {
					if inj, ok := inject(r, infos, avoid); ok {
						p.Injections = append(p.Injections, inj)
						avoid[inj.Node] = true
					}
				}
			}
		}
	}
	p.Files = Files(p.root)
	return p
}
