package main

// Two sequence forms of constraint merging, both about ONE parent list that is
// shared by several children — the situation of Manager.BuildDescriptorConstraints,
// where the parent is the cached task template's constraint list and the
// children are the role constraints of all descriptors using that template:
//
//   sharedparent  Constraints.MergeParent called with the same parent slice for
//                 2-5 different children one after the other (pure function);
//   template      the real thing: a local template repository with a task
//                 template carrying constraints, a workflow whose task roles all
//                 load that template (some override a template constraint, some
//                 do not), workflow.Load on a real task.Manager, then
//                 Manager.BuildDescriptorConstraints(descriptors) in a
//                 seed-chosen descriptor order, twice.
//
// Oracle: every result — looked at after ALL merges were done, as the scheduler
// does — must carry the effective constraints computed from the ORIGINAL
// parent. One child's override must not show in another child's result.

import (
	"fmt"
	"math/rand"
	"os"
	"path/filepath"
	"sort"
	"strings"
	"sync"

	"github.com/AliceO2Group/Control/core/task"
	"github.com/AliceO2Group/Control/core/task/constraint"
	"github.com/AliceO2Group/Control/core/workflow"
	"github.com/spf13/viper"

	"verif/harness/inproc"
	"verif/harness/vlib"
)

type sharedCase struct {
	Fam      string     `json:"fam"`
	Parent   []ctDesc   `json:"parent"`
	SpareCap int        `json:"parent_spare_cap"`
	Children [][]ctDesc `json:"children"` // in the order they are merged
	// template variant
	RootCts   []ctDesc `json:"root_constraints,omitempty"`
	CallOrder [][]int  `json:"descriptor_order,omitempty"`
	Prefix    string   `json:"prefix,omitempty"`
}

func genSharedCase(r *rand.Rand) sharedCase {
	sc := sharedCase{Fam: "sharedparent"}
	for len(sc.Parent) == 0 {
		sc.Parent = genLevel(r, 0, pick(r, mergeAttrPool))
	}
	sc.SpareCap = r.Intn(3)
	n := 2 + r.Intn(4)
	for k := 0; k < n; k++ {
		var ch []ctDesc
		switch r.Intn(4) {
		case 0: // nothing of its own
			ch = []ctDesc{}
		case 1: // only attributes the parent does not define
			for _, ct := range genLevel(r, k+1, pick(r, mergeAttrPool)) {
				if _, defined := findCt(sc.Parent, ct.Attribute); !defined {
					ch = append(ch, ct)
				}
			}
			if ch == nil {
				ch = []ctDesc{}
			}
		default: // overrides one of the parent's attributes (and maybe more)
			hot := sc.Parent[r.Intn(len(sc.Parent))].Attribute
			ch = genLevel(r, k+1, hot)
		}
		sc.Children = append(sc.Children, ch)
	}
	return sc
}

func findCt(cts []ctDesc, attr string) (string, bool) {
	for _, ct := range cts {
		if ct.Attribute == attr {
			return ct.Value, true
		}
	}
	return "", false
}

// sharedStats: how many children override a parent attribute, how many leave at
// least one parent attribute alone after an overriding sibling was merged.
func sharedStats(parent []ctDesc, children [][]ctDesc) (overriders, exposed int) {
	overridden := map[string]bool{} // attributes overridden by an earlier child
	for _, ch := range children {
		ov := false
		for _, ct := range ch {
			if pv, ok := findCt(parent, ct.Attribute); ok && pv != ct.Value {
				ov = true
			}
		}
		for a := range overridden {
			if _, own := findCt(ch, a); !own {
				exposed++
				break
			}
		}
		if ov {
			overriders++
			for _, ct := range ch {
				if pv, ok := findCt(parent, ct.Attribute); ok && pv != ct.Value {
					overridden[ct.Attribute] = true
				}
			}
		}
	}
	return
}

// judgeShared checks result i against the reference from the original parent.
// allowParentOrChild: for an attribute defined by both, either value is accepted
// (template variant: the statement does not say whether the template or the role
// is "nearer").
func judgeShared(parent []ctDesc, children [][]ctDesc, i int, got constraint.Constraints, allowEither bool) (class, detail string) {
	eff := refMerge([][]ctDesc{parent, children[i]})
	names := make([]string, 0, len(eff))
	for a := range eff {
		names = append(names, a)
	}
	sort.Strings(names)
	for _, a := range names {
		allowed := []string{eff[a].Value}
		if pv, ok := findCt(parent, a); ok && allowEither {
			allowed = append(allowed, pv)
		}
		var gotVals []string
		ok := false
		for _, g := range got {
			if g.Attribute != a {
				continue
			}
			gotVals = append(gotVals, g.Value)
			for _, av := range allowed {
				if g.Value == av && g.Operator == constraint.Equals {
					ok = true
				}
			}
		}
		if ok {
			continue
		}
		if len(gotVals) == 0 {
			return "constraint-dropped", fmt.Sprintf("child #%d: effective constraint %s=%q is absent from its result %v", i, a, eff[a].Value, got)
		}
		for j, other := range children {
			if j == i {
				continue
			}
			if ov, def := findCt(other, a); def {
				for _, gv := range gotVals {
					if gv == ov {
						return "sibling-override-leaked", fmt.Sprintf("child #%d: attribute %s must be %q (original parent %v, own %v) but its result %v carries %q, which is child #%d's override", i, a, eff[a].Value, parent, children[i], got, gv, j)
					}
				}
			}
		}
		return "wrong-value", fmt.Sprintf("child #%d: attribute %s must be %q, result %v carries %v", i, a, eff[a].Value, got, gotVals)
	}
	return "", ""
}

func (m *mon) caseSharedParent(i int64, logIt bool) {
	c := m.c
	r := c.SubRand(i)
	sc := genSharedCase(r)
	m.begin(sc, logIt, i == 5<<32)
	parent := make(constraint.Constraints, 0, len(sc.Parent)+sc.SpareCap)
	parent = append(parent, toConstraints(sc.Parent)...)
	results := make([]constraint.Constraints, len(sc.Children))
	modified, modifiedAt := "", -1
	cl, det := guard("Constraints.MergeParent", func() {
		for k, ch := range sc.Children {
			var mod string
			results[k], mod = mergeChecked(toConstraints(ch), parent)
			if mod != "" && modified == "" {
				modified, modifiedAt = mod, k
			}
		}
	})
	if cl != "" {
		m.violation("CRASH", cl, det, sc)
		return
	}
	c.Count("sharedparent_cases", 1)
	c.Count("sharedparent_merges", int64(len(sc.Children)))
	ov, exposed := sharedStats(sc.Parent, sc.Children)
	if ov > 0 {
		c.Count("sharedparent_cases_with_overriding_child", 1)
	}
	if exposed > 0 {
		c.Count("sharedparent_cases_child_keeps_attr_overridden_by_earlier_sibling", 1)
	}
	c.Nontrivial(vlib.Hash("shared", capInt(len(sc.Parent), 4), len(sc.Children), capInt(ov, 3), capInt(exposed, 3), sc.SpareCap))
	bad := false
	if modified != "" {
		bad = true
		m.violation("MERGE", "input-modified/"+modified, fmt.Sprintf("child #%d %v .MergeParent(shared parent %v) changed its %s argument", modifiedAt, sc.Children[modifiedAt], sc.Parent, modified), sc)
	}
	for k := range sc.Children {
		if class, detail := judgeShared(sc.Parent, sc.Children, k, results[k], false); class != "" {
			m.violation("MERGE-SHARED", class, "one parent merged with "+fmt.Sprint(len(sc.Children))+" children in turn, results read afterwards: "+detail, sc)
			bad = true
			break
		}
	}
	if !bad {
		c.Count("sharedparent_cases_agree", 1)
	}
}

// ---------- the real Manager.BuildDescriptorConstraints ----------

var (
	tplOnce sync.Once
	tplEnv  *inproc.Env
	tplErr  error
)

const tplTaskHead = `name: %s
control:
  mode: basic
wants:
  cpu: 0.01
  memory: 1
command:
  shell: true
  value: "true"
`

func (m *mon) caseTemplate(i int64, logIt bool) {
	c := m.c
	tplOnce.Do(func() {
		tplEnv, tplErr = inproc.Setup(nil, nil)
		// Roles are processed one after the other: a local template repository
		// stamps class identifiers with a UUID that localRepo.GetHash renews after
		// 10 s without a call, and task roles processed concurrently across such
		// a renewal resolve ONE template to two identifiers (one of which is then
		// unknown to the manager, so its constraints are not merged). That is a
		// property of development-mode local repositories, not of C05; with
		// sequential processing every Load sees one identifier.
		for _, k := range []string{"concurrentWorkflowTemplateProcessing", "concurrentWorkflowTemplateIteratorProcessing", "concurrentIteratorRoleExpansion"} {
			viper.Set(k, false)
		}
	})
	if tplErr != nil {
		c.Inconclusive("inproc.Setup: " + tplErr.Error())
		return
	}
	e := tplEnv
	r := c.SubRand(i)
	sc := genSharedCase(r)
	sc.Fam = "template"
	sc.SpareCap = 0
	sc.Prefix = fmt.Sprintf("c05a-s%db%dx%d", c.Seed, c.Batch, i-(6<<32))
	if r.Intn(3) == 0 {
		sc.RootCts = genLevel(r, 8, pick(r, mergeAttrPool))
	}
	// descriptor orders for the two BuildDescriptorConstraints calls
	sc.CallOrder = [][]int{r.Perm(len(sc.Children)), r.Perm(len(sc.Children))}
	m.begin(sc, true, i == 6<<32)

	cls, wf := sc.Prefix+"-task", sc.Prefix
	var tb strings.Builder
	fmt.Fprintf(&tb, tplTaskHead, cls)
	yamlConstraints(&tb, "", sc.Parent, false)
	var wb strings.Builder
	fmt.Fprintf(&wb, "name: %s\n", wf)
	yamlConstraints(&wb, "", sc.RootCts, false)
	wb.WriteString("roles:\n")
	for k, ch := range sc.Children {
		fmt.Fprintf(&wb, "  - name: \"role%d\"\n", k)
		yamlConstraints(&wb, "    ", ch, false)
		fmt.Fprintf(&wb, "    task:\n      load: %s\n", cls)
	}
	files := map[string]string{"tasks/" + cls + ".yaml": tb.String(), "workflows/" + wf + ".yaml": wb.String()}
	for rel, content := range files {
		if err := e.WriteRepoFile(rel, content); err != nil {
			c.Inconclusive("WriteRepoFile: " + err.Error())
			return
		}
	}
	defer func() {
		for rel := range files {
			_ = os.Remove(filepath.Join(e.RepoDir, rel))
		}
	}()

	// what a role contributes = root constraints overridden by its own (roleBase.getConstraints)
	roleEff := make([][]ctDesc, len(sc.Children))
	for k, ch := range sc.Children {
		eff := refMerge([][]ctDesc{sc.RootCts, ch})
		names := make([]string, 0, len(eff))
		for a := range eff {
			names = append(names, a)
		}
		sort.Strings(names)
		roleEff[k] = []ctDesc{}
		for _, a := range names {
			roleEff[k] = append(roleEff[k], eff[a])
		}
	}

	var root workflow.Role
	var lerr error
	var ds task.Descriptors
	maps := make([]map[*task.Descriptor]constraint.Constraints, 0, 2)
	cl, det := guard("workflow.Load/Manager.BuildDescriptorConstraints", func() {
		root, lerr = e.Load(wf, nil, nil, nil)
		if lerr != nil {
			return
		}
		ds = root.GenerateTaskDescriptors()
		for _, order := range sc.CallOrder {
			if len(order) != len(ds) {
				return
			}
			shuffled := make(task.Descriptors, len(ds))
			for pos, k := range order {
				shuffled[pos] = ds[k]
			}
			maps = append(maps, e.Taskman.BuildDescriptorConstraints(shuffled))
		}
	})
	if cl != "" {
		m.violation("CRASH", cl, det, sc)
		return
	}
	if lerr != nil {
		c.Count("template_load_failed", 1)
		c.Inconclusive("workflow.Load of a generated two-file repository failed: " + lerr.Error())
		return
	}
	if len(ds) != len(sc.Children) || len(maps) != 2 {
		c.Inconclusive(fmt.Sprintf("template case: %d descriptors for %d task roles", len(ds), len(sc.Children)))
		return
	}
	c.Count("template_cases", 1)
	c.Count("template_descriptors", int64(len(ds)))
	ov, exposed := sharedStats(sc.Parent, roleEff)
	if ov > 0 {
		c.Count("template_cases_with_overriding_role", 1)
	}
	if exposed > 0 {
		c.Count("template_cases_role_keeps_attr_overridden_by_other_role", 1)
	}
	c.Nontrivial(vlib.Hash("tpl", capInt(len(sc.Parent), 4), len(sc.Children), capInt(ov, 3), capInt(exposed, 3), len(sc.RootCts) > 0))
	for call, cm := range maps {
		for _, d := range ds {
			// role name "role<k>" is the last path element
			path := d.TaskRole.GetPath()
			k := -1
			if p := strings.LastIndex(path, "role"); p >= 0 {
				fmt.Sscanf(path[p+4:], "%d", &k)
			}
			if k < 0 || k >= len(sc.Children) {
				c.Inconclusive("template case: cannot map descriptor path " + path)
				return
			}
			got, present := cm[d]
			if !present {
				m.violation("TEMPLATE-MERGE", "descriptor-missing", fmt.Sprintf("BuildDescriptorConstraints (call %d) has no entry for %s", call+1, path), sc)
				return
			}
			if class, detail := judgeShared(sc.Parent, roleEff, k, got, true); class != "" {
				m.violation("TEMPLATE-MERGE", class, fmt.Sprintf("Manager.BuildDescriptorConstraints call %d, descriptor order %v, template constraints %v: %s", call+1, sc.CallOrder[call], sc.Parent, detail), sc)
				return
			}
		}
	}
	c.Count("template_cases_agree", 1)
}
