package main

// Seeded generators. Everything random derives from the *rand.Rand handed in
// (vlib.Ctx.SubRand), so a (seed, tier, batch) triple replays exactly.

import (
	"fmt"
	"math/rand"
	"strings"
)

var (
	attrNamePool = []string{"machine_id", "detector", "rack", "rack2", "zone", "kind", "o2role"}
	valuePool    = []string{"a", "b", "c", "ab", "bc", "abc", "flp001", "flp002", "flp0010", "TPC", "ITS", "1", "10", "true"}
)

func pick(r *rand.Rand, xs []string) string { return xs[r.Intn(len(xs))] }

// ---------- SATISFY ----------

type satCase struct {
	Fam         string     `json:"fam"`
	NilAttrs    bool       `json:"nil_attrs,omitempty"`
	Attrs       []attrDesc `json:"attrs"`
	Constraints []ctDesc   `json:"constraints"`
}

func genAttrValue(r *rand.Rand) (val string, nilText bool, multi bool) {
	switch p := r.Intn(100); {
	case p < 55:
		return pick(r, valuePool), false, false
	case p < 85:
		n := 2 + r.Intn(3)
		el := make([]string, n)
		for i := range el {
			el[i] = pick(r, valuePool)
		}
		if r.Intn(100) < 15 {
			el[r.Intn(n)] = ""
		}
		if r.Intn(100) < 10 {
			el[r.Intn(n)] = " " + pick(r, valuePool)
		}
		return strings.Join(el, ","), false, true
	case p < 95:
		return "", false, false
	default:
		return "", true, false
	}
}

func genAttrs(r *rand.Rand) (attrs []attrDesc, nilAttrs bool, multi int) {
	if r.Intn(100) < 4 {
		return nil, true, 0
	}
	n := r.Intn(6)
	perm := r.Perm(len(attrNamePool))
	attrs = []attrDesc{}
	for i := 0; i < n; i++ {
		v, nt, m := genAttrValue(r)
		if m {
			multi++
		}
		attrs = append(attrs, attrDesc{Name: attrNamePool[perm[i]], Value: v, NilText: nt})
	}
	return
}

// genConstraintFor makes one constraint; wantSat steers (does not decide: the
// oracle evaluates the result).
func genConstraintFor(r *rand.Rand, attrs []attrDesc, wantSat bool) ctDesc {
	absentName := func() string {
		for tries := 0; tries < 8; tries++ {
			var n string
			switch r.Intn(3) {
			case 0:
				n = pick(r, attrNamePool)
			case 1:
				if len(attrs) > 0 {
					n = attrs[r.Intn(len(attrs))].Name + "x"
				} else {
					n = "nope"
				}
			default:
				if len(attrs) > 0 {
					a := attrs[r.Intn(len(attrs))].Name
					n = a[:len(a)-1]
				} else {
					n = "nop"
				}
			}
			if _, present := refValue(attrs, n); !present {
				return n
			}
		}
		return "absent_attribute"
	}
	if len(attrs) == 0 || (!wantSat && r.Intn(100) < 35) {
		return ctDesc{Attribute: absentName(), Value: pick(r, valuePool)}
	}
	a := attrs[r.Intn(len(attrs))]
	v, _ := refValue(attrs, a.Name)
	els := refSplit(v)
	if wantSat {
		if len(els) > 1 && r.Intn(100) < 80 {
			return ctDesc{Attribute: a.Name, Value: els[r.Intn(len(els))]}
		}
		return ctDesc{Attribute: a.Name, Value: v}
	}
	switch r.Intn(5) {
	case 0: // proper prefix of a member
		m := els[r.Intn(len(els))]
		if len(m) > 1 {
			return ctDesc{Attribute: a.Name, Value: m[:len(m)-1]}
		}
		return ctDesc{Attribute: a.Name, Value: m + "0"}
	case 1: // member with a suffix
		return ctDesc{Attribute: a.Name, Value: els[r.Intn(len(els))] + "0"}
	case 2: // two adjacent members of a longer list, comma included
		if len(els) >= 3 {
			k := r.Intn(len(els) - 1)
			return ctDesc{Attribute: a.Name, Value: els[k] + "," + els[k+1]}
		}
		return ctDesc{Attribute: a.Name, Value: "zz"}
	case 3: // empty value
		return ctDesc{Attribute: a.Name, Value: ""}
	default:
		return ctDesc{Attribute: a.Name, Value: pick(r, valuePool)}
	}
}

func genSatCase(r *rand.Rand) (sc satCase, multi int) {
	sc.Fam = "satisfy"
	sc.Attrs, sc.NilAttrs, multi = genAttrs(r)
	n := r.Intn(6)
	if r.Intn(100) < 4 {
		n = 0
	} else if n == 0 {
		n = 1
	}
	mode := r.Intn(3)
	unsatAt := -1
	if mode == 1 && n > 0 {
		unsatAt = r.Intn(n)
	}
	sc.Constraints = []ctDesc{}
	for i := 0; i < n; i++ {
		want := true
		switch mode {
		case 1:
			want = i != unsatAt
		case 2:
			want = r.Intn(100) < 60
		}
		sc.Constraints = append(sc.Constraints, genConstraintFor(r, sc.Attrs, want))
	}
	return
}

// ---------- MERGE ----------

type mergeCase struct {
	Fam    string     `json:"fam"`
	Levels [][]ctDesc `json:"levels"` // [0] farthest … [len-1] nearest
	// role-tree variant only: extra task roles hanging off aggregator level j
	Siblings map[string][]ctDesc `json:"siblings,omitempty"` // key = "<j>"
	YAML     string              `json:"yaml,omitempty"`
}

var mergeAttrPool = []string{"machine_id", "detector", "rack", "zone", "kind"}

func genLevel(r *rand.Rand, lvl int, hot string) []ctDesc {
	out := []ctDesc{}
	n := r.Intn(4)
	perm := r.Perm(len(mergeAttrPool))
	seen := map[string]bool{}
	add := func(a string) {
		if seen[a] {
			return
		}
		seen[a] = true
		v := fmt.Sprintf("%s-L%d", pick(r, valuePool), lvl)
		if r.Intn(100) < 20 {
			v = pick(r, valuePool) // may coincide with another level's value
		}
		out = append(out, ctDesc{Attribute: a, Value: v})
	}
	if r.Intn(100) < 60 {
		add(hot)
	}
	for i := 0; i < n; i++ {
		add(mergeAttrPool[perm[i]])
	}
	r.Shuffle(len(out), func(i, j int) { out[i], out[j] = out[j], out[i] })
	return out
}

func genMergeCase(r *rand.Rand, minLevels int) mergeCase {
	mc := mergeCase{Fam: "merge"}
	k := minLevels + r.Intn(5-minLevels) // minLevels..4
	hot := pick(r, mergeAttrPool)
	for l := 0; l < k; l++ {
		mc.Levels = append(mc.Levels, genLevel(r, l, hot))
	}
	return mc
}

// ---------- PORT EXPRESSIONS ----------

type parseCase struct {
	Fam        string `json:"fam"`
	Expr       string `json:"expr"`
	Via        string `json:"via"` // direct | yaml
	WellFormed bool   `json:"well_formed"`
	Items      []ival `json:"items"`
	Blanks     bool   `json:"blanks,omitempty"`
	Cpu        string `json:"cpu,omitempty"`
	Mem        string `json:"mem,omitempty"`
	MalKind    string `json:"malformed_kind,omitempty"`
}

func genPort(r *rand.Rand) uint64 {
	switch r.Intn(6) {
	case 0:
		return uint64(1 + r.Intn(999))
	case 1:
		return uint64(995 + r.Intn(12)) // 3↔4 digit boundary
	case 2:
		return uint64(9990 + r.Intn(25)) // 4↔5 digit boundary
	case 3:
		return uint64(8990 + r.Intn(30))
	case 4:
		return uint64(29990 + r.Intn(30))
	default:
		return uint64(1 + r.Intn(65535))
	}
}

func genItem(r *rand.Rand) ival {
	b := genPort(r)
	if r.Intn(2) == 0 {
		return ival{b, b}
	}
	var span uint64
	switch r.Intn(4) {
	case 0:
		span = 0 // "9000-9000"
	case 1:
		span = 1
	case 2:
		span = uint64(2 + r.Intn(20))
	default:
		span = uint64(r.Intn(3000))
	}
	e := b + span
	if e > 65535 {
		e = 65535
	}
	return ival{b, e}
}

// itemText: a single port is written "N"; a range "N-M". An item with B==E is
// written either way (asRange).
func itemText(it ival, asRange bool) string {
	if it.B == it.E && !asRange {
		return fmt.Sprintf("%d", it.B)
	}
	return fmt.Sprintf("%d-%d", it.B, it.E)
}

func exprShape(kinds []bool) string { // kinds[i] = item i written as a range
	switch len(kinds) {
	case 0:
		return "empty"
	case 1:
		if kinds[0] {
			return "range"
		}
		return "single"
	}
	nr := 0
	for _, k := range kinds {
		if k {
			nr++
		}
	}
	switch nr {
	case 0:
		return "list-of-singles"
	case len(kinds):
		return "list-of-ranges"
	}
	return "list-mixed"
}

func genParseCase(r *rand.Rand) (pc parseCase, kinds []bool) {
	pc.Fam = "parse"
	pc.Via = "direct"
	if r.Intn(100) < 15 {
		pc.Via = "yaml"
		pc.Cpu = pick(r, []string{"0", "0.15", "0.5", "1", "2", "3.25", "16"})
		pc.Mem = pick(r, []string{"0", "64", "128", "128.5", "1024", "8192"})
	}
	if r.Intn(100) < 6 { // malformed probe: not judged
		pc.WellFormed = false
		a, b := genPort(r), genPort(r)
		if a > b {
			a, b = b, a
		}
		if a == b {
			b++
		}
		kindsM := []string{"trailing-dash", "leading-dash", "letters", "three-part", "empty-item", "reversed", "blank-around-dash", "trailing-comma", "negative"}
		pc.MalKind = pick(r, kindsM)
		switch pc.MalKind {
		case "trailing-dash":
			pc.Expr = fmt.Sprintf("%d-", a)
		case "leading-dash":
			pc.Expr = fmt.Sprintf("-%d", a)
		case "letters":
			pc.Expr = fmt.Sprintf("%d,p%d", a, b)
		case "three-part":
			pc.Expr = fmt.Sprintf("%d-%d-%d", a, b, b+1)
		case "empty-item":
			pc.Expr = fmt.Sprintf("%d,,%d", a, b)
		case "reversed":
			pc.Expr = fmt.Sprintf("%d-%d", b, a)
		case "blank-around-dash":
			pc.Expr = fmt.Sprintf("%d - %d", a, b)
		case "trailing-comma":
			pc.Expr = fmt.Sprintf("%d,", a)
		case "negative":
			pc.Expr = fmt.Sprintf("%d,-%d", a, b)
		}
		return
	}
	pc.WellFormed = true
	n := r.Intn(6)
	if n == 0 && r.Intn(2) == 0 {
		n = 1
	}
	pc.Blanks = r.Intn(100) < 15
	parts := make([]string, n)
	pc.Items = []ival{}
	for i := 0; i < n; i++ {
		it := genItem(r)
		asRange := it.B != it.E || r.Intn(4) == 0
		kinds = append(kinds, asRange)
		pc.Items = append(pc.Items, it)
		t := itemText(it, asRange)
		if pc.Blanks {
			t = strings.Repeat(" ", r.Intn(3)) + t + strings.Repeat(" ", r.Intn(2))
		}
		parts[i] = t
	}
	pc.Expr = strings.Join(parts, ",")
	if n == 0 && pc.Blanks {
		pc.Expr = strings.Repeat(" ", 1+r.Intn(3))
	}
	return
}

// ---------- RESOURCES ----------

type inboundDesc struct {
	Name string `json:"name"`
	TCP  bool   `json:"tcp"`
}

type resCase struct {
	Fam      string        `json:"fam"`
	HasCPU   bool          `json:"has_cpu"`
	HasMem   bool          `json:"has_mem"`
	HasPorts bool          `json:"has_ports"`
	OffCPU   float64       `json:"off_cpu"`
	OffMem   float64       `json:"off_mem"`
	OffPorts []ival        `json:"off_ports"`
	WantCPU  float64       `json:"want_cpu"`
	WantMem  float64       `json:"want_mem"`
	Static   []ival        `json:"static"`
	Inbound  []inboundDesc `json:"inbound"`
}

func genOfferedPorts(r *rand.Rand) []ival {
	n := r.Intn(5)
	out := []ival{}
	var cur uint64
	switch r.Intn(4) {
	case 0:
		cur = uint64(8000 + r.Intn(1200))
	case 1:
		cur = uint64(8990 + r.Intn(15))
	case 2:
		cur = uint64(29000 + r.Intn(1100))
	default:
		cur = uint64(1000 + r.Intn(30000))
	}
	for i := 0; i < n; i++ {
		var size uint64
		if r.Intn(2) == 0 {
			size = uint64(1 + r.Intn(6))
		} else {
			size = uint64(1 + r.Intn(2000))
		}
		out = append(out, ival{cur, cur + size - 1})
		gap := uint64(2 + r.Intn(5)) // ≥ 2: never adjacent
		if r.Intn(3) == 0 {
			gap = uint64(2 + r.Intn(25000))
		}
		cur = cur + size - 1 + gap
		if cur > 64000 {
			break
		}
	}
	return out
}

func genStatic(r *rand.Rand, off []ival) []ival {
	n := r.Intn(4)
	if r.Intn(100) < 35 {
		n = 0
	}
	out := []ival{}
	allInside := r.Intn(100) < 60
	for i := 0; i < n; i++ {
		if len(off) == 0 {
			p := genPort(r)
			out = append(out, ival{p, p + uint64(r.Intn(3))})
			continue
		}
		o := off[r.Intn(len(off))]
		size := o.E - o.B + 1
		mode := r.Intn(9)
		if allInside {
			mode = r.Intn(4)
		}
		switch mode {
		case 0: // strict sub-range
			b := o.B + uint64(r.Int63n(int64(size)))
			e := b + uint64(r.Int63n(int64(o.E-b+1)))
			out = append(out, ival{b, e})
		case 1: // whole offered range
			out = append(out, o)
		case 2: // single port inside
			b := o.B + uint64(r.Int63n(int64(size)))
			out = append(out, ival{b, b})
		case 3: // two adjacent pieces of one offered range (union is contiguous)
			if size >= 2 {
				m := o.B + uint64(r.Int63n(int64(size-1)))
				out = append(out, ival{o.B, m}, ival{m + 1, o.E})
			} else {
				out = append(out, o)
			}
		case 4: // overhang at the top by one
			out = append(out, ival{o.B, o.E + 1})
		case 5: // overhang at the bottom by one
			out = append(out, ival{o.B - 1, o.E})
		case 6: // spans the gap to the next offered range
			if len(off) >= 2 {
				k := r.Intn(len(off) - 1)
				out = append(out, ival{off[k].E, off[k+1].B})
			} else {
				out = append(out, ival{o.E, o.E + 2})
			}
		case 7: // entirely in a gap / outside
			out = append(out, ival{o.E + 1, o.E + 1})
		default: // unrelated
			p := genPort(r)
			out = append(out, ival{p, p})
		}
	}
	if len(out) > 1 && r.Intn(3) == 0 {
		r.Shuffle(len(out), func(i, j int) { out[i], out[j] = out[j], out[i] })
	}
	return out
}

func genScalarPair(r *rand.Rand, wants []float64) (want, off float64) {
	want = wants[r.Intn(len(wants))]
	switch r.Intn(8) {
	case 0:
		off = want // exactly enough
	case 1:
		off = want - 0.5
	case 2:
		off = want - 0.01
	case 3:
		off = want / 2
	case 4:
		off = want + 0.4
	case 5:
		off = want + 1
	default:
		off = want*2 + 1
	}
	if off < 0 {
		off = 0
	}
	return
}

func genResCase(r *rand.Rand) resCase {
	rc := resCase{Fam: "resources", HasCPU: r.Intn(100) >= 3, HasMem: r.Intn(100) >= 3, HasPorts: r.Intn(100) >= 4}
	// steer: 45 % of the cases have enough cpu and mem so that ports decide
	rc.WantCPU, rc.OffCPU = genScalarPair(r, []float64{0, 0.1, 0.15, 0.5, 1, 2, 4, 8.5})
	rc.WantMem, rc.OffMem = genScalarPair(r, []float64{0, 64, 128, 128.5, 1024, 8192})
	if r.Intn(100) < 45 {
		rc.OffCPU = rc.WantCPU + float64(r.Intn(3))
		rc.OffMem = rc.WantMem + float64(r.Intn(3)*100)
	}
	if !rc.HasCPU {
		rc.OffCPU = 0
	}
	if !rc.HasMem {
		rc.OffMem = 0
	}
	rc.OffPorts = []ival{}
	if rc.HasPorts {
		rc.OffPorts = genOfferedPorts(r)
	}
	rc.Static = genStatic(r, rc.OffPorts)
	nIn := r.Intn(5)
	// sometimes aim the number of TCP channels at the number of free ports ±1
	free := int64(ivalsSize(normIvals(rc.OffPorts))) - int64(ivalsSize(normIvals(rc.Static)))
	aimed := false
	if free >= 0 && free <= 6 && r.Intn(2) == 0 {
		aimed = true
		nIn = int(free) + r.Intn(3) - 1
		if nIn < 0 {
			nIn = 0
		}
	}
	rc.Inbound = []inboundDesc{}
	for i := 0; i < nIn; i++ {
		rc.Inbound = append(rc.Inbound, inboundDesc{Name: fmt.Sprintf("ch%d", i), TCP: aimed || r.Intn(100) < 75})
	}
	return rc
}
