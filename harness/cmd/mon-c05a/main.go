// mon-c05a: C05 part (a) — the pure-function side of task placement
// (constraint satisfaction, constraint merging, port-range parsing, resource
// matching), real functions from /repo against reference implementations
// written from the property statement.
package main

import (
	"fmt"
	"os"
)

func main() {
	if len(os.Args) < 2 {
		fmt.Fprintln(os.Stderr, "usage: mon-c05a <C05A> [flags]")
		os.Exit(64)
	}
	switch os.Args[1] {
	case "C05A", "C05":
		runC05A(os.Args[1])
	default:
		fmt.Fprintln(os.Stderr, "unknown property", os.Args[1])
		os.Exit(64)
	}
}
