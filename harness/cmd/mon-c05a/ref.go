package main

// Reference implementations written from the C05 statement only. Nothing in
// this file imports /repo or mesos-go.

import "sort"

// ---------- attributes and constraints ----------

// attrDesc is one agent attribute as generated (TEXT type). NilText = the
// attribute is present but carries no text payload (value "").
type attrDesc struct {
	Name    string `json:"name"`
	Value   string `json:"value"`
	NilText bool   `json:"nil_text,omitempty"`
}

// ctDesc is one constraint "attribute EQUALS value".
type ctDesc struct {
	Attribute string `json:"attribute"`
	Value     string `json:"value"`
}

func refValue(attrs []attrDesc, name string) (string, bool) {
	for _, a := range attrs {
		if a.Name == name {
			if a.NilText {
				return "", true
			}
			return a.Value, true
		}
	}
	return "", false
}

// refSplit splits on ',' by hand (no strings.Split).
func refSplit(s string) []string {
	out := []string{}
	start := 0
	for i := 0; i < len(s); i++ {
		if s[i] == ',' {
			out = append(out, s[start:i])
			start = i + 1
		}
	}
	return append(out, s[start:])
}

func refHasComma(s string) bool {
	for i := 0; i < len(s); i++ {
		if s[i] == ',' {
			return true
		}
	}
	return false
}

// refSatOne: value(c.attr) == c.value  or  c.value ∈ split(value(c.attr), ",");
// a missing attribute satisfies nothing.
func refSatOne(attrs []attrDesc, c ctDesc) (bool, string) {
	v, present := refValue(attrs, c.Attribute)
	if !present {
		return false, "missing-attr"
	}
	if v == c.Value {
		return true, ""
	}
	for _, e := range refSplit(v) {
		if e == c.Value {
			return true, ""
		}
	}
	if refHasComma(v) {
		return false, "not-in-list"
	}
	return false, "value-mismatch"
}

// refSat: every constraint must be satisfied. Returns also the index of the
// first unsatisfied constraint (-1 if none), why it is unsatisfied, and whether
// the last constraint is satisfied (for the canonical witness class).
func refSat(attrs []attrDesc, cts []ctDesc) (ok bool, firstUnsat int, why string, lastSat bool) {
	ok, firstUnsat, lastSat = true, -1, true
	for i, c := range cts {
		s, w := refSatOne(attrs, c)
		if !s && firstUnsat < 0 {
			ok, firstUnsat, why = false, i, w
		}
		if i == len(cts)-1 {
			lastSat = s
		}
	}
	return
}

// refMerge: levels[0] is the farthest (root / template end), levels[len-1] the
// nearest. Per attribute the nearest definition wins; everything else is kept.
// Assumes every level defines an attribute at most once (generator guarantee).
func refMerge(levels [][]ctDesc) map[string]ctDesc {
	eff := map[string]ctDesc{}
	for _, lvl := range levels { // far → near, later assignment overrides
		for _, c := range lvl {
			eff[c.Attribute] = c
		}
	}
	return eff
}

// ---------- port sets ----------

type ival struct {
	B uint64 `json:"b"`
	E uint64 `json:"e"`
}

// normIvals: sorted, merged (overlapping or adjacent) intervals; intervals with
// E < B are dropped (they denote no port).
func normIvals(in []ival) []ival {
	xs := make([]ival, 0, len(in))
	for _, x := range in {
		if x.E >= x.B {
			xs = append(xs, x)
		}
	}
	sort.Slice(xs, func(i, j int) bool { return xs[i].B < xs[j].B || (xs[i].B == xs[j].B && xs[i].E < xs[j].E) })
	out := []ival{}
	for _, x := range xs {
		if n := len(out); n > 0 && x.B <= out[n-1].E+1 {
			if x.E > out[n-1].E {
				out[n-1].E = x.E
			}
			continue
		}
		out = append(out, x)
	}
	return out
}

func ivalsEqual(a, b []ival) bool {
	if len(a) != len(b) {
		return false
	}
	for i := range a {
		if a[i] != b[i] {
			return false
		}
	}
	return true
}

func ivalsSize(n []ival) uint64 {
	var s uint64
	for _, x := range n {
		s += x.E - x.B + 1
	}
	return s
}

// ivalsSubset: both normalised; every port of a lies in b.
func ivalsSubset(a, b []ival) bool {
	for _, x := range a {
		in := false
		for _, y := range b {
			if x.B >= y.B && x.E <= y.E {
				in = true
				break
			}
		}
		if !in {
			return false
		}
	}
	return true
}

// refParsePorts: the grammar  expr := "" | item ("," item)* ;  item := N | N "-" M
// with N, M decimal and N <= M; blanks around an item are tolerated.
// ok=false: not well-formed.
func refParsePorts(s string) (items []ival, ok bool) {
	blank := true
	for i := 0; i < len(s); i++ {
		if s[i] != ' ' && s[i] != '\t' {
			blank = false
		}
	}
	if blank {
		return []ival{}, true
	}
	for _, raw := range refSplit(s) {
		lo, hi := 0, len(raw)
		for lo < hi && (raw[lo] == ' ' || raw[lo] == '\t') {
			lo++
		}
		for hi > lo && (raw[hi-1] == ' ' || raw[hi-1] == '\t') {
			hi--
		}
		it := raw[lo:hi]
		num := func(t string) (uint64, bool) {
			if len(t) == 0 || len(t) > 9 {
				return 0, false
			}
			var v uint64
			for i := 0; i < len(t); i++ {
				if t[i] < '0' || t[i] > '9' {
					return 0, false
				}
				v = v*10 + uint64(t[i]-'0')
			}
			return v, true
		}
		dash := -1
		for i := 0; i < len(it); i++ {
			if it[i] == '-' {
				if dash >= 0 {
					return nil, false
				}
				dash = i
			}
		}
		if dash < 0 {
			v, k := num(it)
			if !k {
				return nil, false
			}
			items = append(items, ival{v, v})
			continue
		}
		b, k1 := num(it[:dash])
		e, k2 := num(it[dash+1:])
		if !k1 || !k2 || b > e {
			return nil, false
		}
		items = append(items, ival{b, e})
	}
	return items, true
}

// ---------- resources ----------

// refLacking: which of cpu, mem, static-ports, dynamic-ports the offer does not
// cover. offered ≥ wanted on cpu and mem; every wanted static port inside the
// offered ranges; one further offered port per inbound TCP channel.
func refLacking(offCPU, offMem float64, offPorts []ival, wantCPU, wantMem float64, static []ival, tcpInbound int) []string {
	var lacking []string
	if wantCPU > offCPU {
		lacking = append(lacking, "cpu")
	}
	if wantMem > offMem {
		lacking = append(lacking, "mem")
	}
	off := normIvals(offPorts)
	st := normIvals(static)
	if !ivalsSubset(st, off) {
		lacking = append(lacking, "static-ports")
	} else if ivalsSize(off)-ivalsSize(st) < uint64(tcpInbound) {
		lacking = append(lacking, "dynamic-ports")
	}
	return lacking
}
