package main

// C05 part (a): the exported pure functions the scheduler relies on for
// placement, driven with generated inputs and compared with the reference
// implementations of ref.go.
//
// Direction of the oracles (the statement says "launched ONLY on an agent
// whose …", i.e. it bounds acceptance, not rejection):
//   * Attributes.Satisfy / Resources.Satisfy: a violation is "reference says
//     NOT satisfied, function says satisfied". The opposite disagreement (the
//     function rejects something the reference would accept) cannot lead to a
//     launch the statement forbids; it is counted (…_conservative) and shown in
//     the evidence, never judged.
//   * Constraints.MergeParent (and roleBase.getConstraints reached through the
//     exported role API): every effective constraint (nearest definition per
//     attribute) must be present in the merged list; a surviving overridden
//     definition only narrows placement and is counted, not judged.
//   * port.RangesFromExpression / ResourceWants.UnmarshalYAML: for a
//     well-formed expression that is accepted, the set of ports must be exactly
//     the set written. Rejections of well-formed text are counted.
//   * A Go panic in any of these on a well-formed input is a violation (CRASH).

import (
	"fmt"
	"io"
	"regexp"
	"runtime"
	"sort"
	"strconv"
	"strings"

	"github.com/AliceO2Group/Control/core/task"
	"github.com/AliceO2Group/Control/core/task/channel"
	"github.com/AliceO2Group/Control/core/task/constraint"
	"github.com/AliceO2Group/Control/core/task/taskclass"
	"github.com/AliceO2Group/Control/core/task/taskclass/port"
	"github.com/AliceO2Group/Control/core/workflow"
	mesos "github.com/mesos/mesos-go/api/v1/lib"
	"github.com/mesos/mesos-go/api/v1/lib/resources"
	"github.com/sirupsen/logrus"
	"gopkg.in/yaml.v3"

	"verif/harness/vlib"
)

type mon struct {
	c        *vlib.Ctx
	vioCases map[string]int // witness class -> number of cases logged for it
}

var digitsRe = regexp.MustCompile(`\d+`)

// guard runs f, recovering a panic. Returns "" or the canonical class
// "<fn>: <panic headline, numbers masked>" and a detail string with the first
// repository frame.
func guard(fn string, f func()) (class, detail string) {
	defer func() {
		if rec := recover(); rec != nil {
			head := fmt.Sprint(rec)
			if i := strings.IndexByte(head, '\n'); i >= 0 {
				head = head[:i]
			}
			frame := "?"
			pcs := make([]uintptr, 64)
			n := runtime.Callers(2, pcs)
			fr := runtime.CallersFrames(pcs[:n])
			for {
				f, more := fr.Next()
				if strings.HasPrefix(f.Function, "github.com/AliceO2Group/Control/") {
					frame = f.Function
					break
				}
				if !more {
					break
				}
			}
			masked := digitsRe.ReplaceAllString(head, "N")
			if len(masked) > 90 {
				masked = masked[:90]
			}
			class = fn + ": " + masked
			detail = fmt.Sprintf("%s panicked: %s (first repository frame: %s)", fn, head, frame)
		}
	}()
	f()
	return
}

// violation logs the case (first 5 per class) and records the oracle hit.
func (m *mon) violation(rule, class, detail string, desc interface{}) {
	k := rule + "/" + class
	var id int64
	if m.vioCases[k] < 5 {
		m.vioCases[k]++
		id = m.c.Case(desc)
	}
	m.c.Violation(rule, class, detail, id, desc)
	m.c.Count("violations_"+rule, 1)
}

func capInt(n, max int) string {
	if n >= max {
		return fmt.Sprintf("%d+", max)
	}
	return strconv.Itoa(n)
}

func runC05A(prop string) {
	// the functions under test log through logrus' standard logger; at 2 M cases
	// the warnings would dominate the run time and the stderr file
	logrus.SetOutput(io.Discard)
	logrus.SetLevel(logrus.PanicLevel)

	c := vlib.Start(prop)
	defer c.Finish()
	m := &mon{c: c, vioCases: map[string]int{}}

	nFn, nTree, nShared, nTemplate := 20000, 2000, 10000, 120
	if c.Tier == "thorough" {
		nFn, nTree, nShared, nTemplate = 2000000, 100000, 1000000, 4000
	}
	type fam struct {
		name string
		n    int
		off  int64
		run  func(i int64, logIt bool)
	}
	fams := []fam{
		{"satisfy", nFn, 0, m.caseSatisfy},
		{"merge", nFn, 1 << 32, m.caseMerge},
		{"roletree", nTree, 2 << 32, m.caseRoleTree},
		{"parse", nFn, 3 << 32, m.caseParse},
		{"resources", nFn, 4 << 32, m.caseResources},
		{"sharedparent", nShared, 5 << 32, m.caseSharedParent},
		{"template", nTemplate, 6 << 32, m.caseTemplate},
	}
	for _, f := range fams {
		lo, hi := c.Slice(f.n)
		for i := lo; i < hi; i++ {
			// one case in 1000 is written to cases.jsonl up front; all are counted.
			// (panics of the pure functions are recovered, so the per-case log is
			// not needed for crash attribution; violating cases are always logged.)
			f.run(f.off+int64(i), (i-lo)%1000 == 0)
		}
	}
}

func (m *mon) begin(desc interface{}, logIt bool, first bool) {
	if logIt {
		m.c.Case(desc)
	} else {
		m.c.CaseQuiet()
	}
	if first {
		m.c.Sample(desc)
	}
}

// ---------- conversions to the real types ----------

func toAttributes(attrs []attrDesc, nilAttrs bool) constraint.Attributes {
	if nilAttrs {
		return nil
	}
	out := make(constraint.Attributes, 0, len(attrs))
	for _, a := range attrs {
		ma := mesos.Attribute{Name: a.Name, Type: mesos.TEXT}
		if !a.NilText {
			ma.Text = &mesos.Value_Text{Value: a.Value}
		}
		out = append(out, ma)
	}
	return out
}

func toConstraints(cts []ctDesc) constraint.Constraints {
	out := make(constraint.Constraints, 0, len(cts))
	for _, c := range cts {
		out = append(out, constraint.Constraint{Attribute: c.Attribute, Value: c.Value, Operator: constraint.Equals})
	}
	return out
}

// ---------- SATISFY ----------

func fmtAttrs(sc satCase) string {
	if sc.NilAttrs {
		return "<nil>"
	}
	parts := []string{}
	for _, a := range sc.Attrs {
		if a.NilText {
			parts = append(parts, a.Name+":<no text>")
		} else {
			parts = append(parts, fmt.Sprintf("%s:%q", a.Name, a.Value))
		}
	}
	return strings.Join(parts, " ")
}

func fmtCts(cts []ctDesc) string {
	parts := []string{}
	for _, c := range cts {
		parts = append(parts, fmt.Sprintf("%s=%q", c.Attribute, c.Value))
	}
	return "[" + strings.Join(parts, " ") + "]"
}

func (m *mon) caseSatisfy(i int64, logIt bool) {
	c := m.c
	r := c.SubRand(i)
	sc, multi := genSatCase(r)
	m.begin(sc, logIt, i == 0)
	exp, firstUnsat, why, lastSat := refSat(sc.Attrs, sc.Constraints)
	attrs, cts := toAttributes(sc.Attrs, sc.NilAttrs), toConstraints(sc.Constraints)
	var got bool
	if cl, det := guard("Attributes.Satisfy", func() { got = attrs.Satisfy(cts) }); cl != "" {
		m.violation("CRASH", cl, det, sc)
		return
	}
	c.Count("satisfy_cases", 1)
	if multi > 0 {
		c.Count("satisfy_cases_with_multivalued_attr", 1)
	}
	// was a multi-valued attribute decisive (a constraint met through list membership)?
	for _, ct := range sc.Constraints {
		if v, ok := refValue(sc.Attrs, ct.Attribute); ok && v != ct.Value && refHasComma(v) {
			if s, _ := refSatOne(sc.Attrs, ct); s {
				c.Count("satisfy_constraints_met_by_list_membership", 1)
				break
			}
		}
	}
	c.Nontrivial(vlib.Hash("sat", capInt(len(sc.Constraints), 4), exp, capInt(firstUnsat+1, 4), why, multi > 0, sc.NilAttrs, lastSat, got))
	switch {
	case exp && got:
		c.Count("satisfy_expected_true", 1)
	case exp && !got:
		c.Count("satisfy_expected_true", 1)
		c.Count("satisfy_conservative_reject", 1)
	case !exp && !got:
		c.Count("satisfy_expected_false", 1)
		c.Count("satisfy_expected_false_"+why, 1)
	default:
		c.Count("satisfy_expected_false", 1)
		ls := "no"
		if lastSat {
			ls = "yes"
		}
		m.violation("SATISFY", fmt.Sprintf("expected-false-got-true/last-satisfied=%s/first-unsat=%s", ls, why),
			fmt.Sprintf("Attributes{%s}.Satisfy(%s) = true, but constraint #%d of %d (%s = %q) is not satisfied (%s)",
				fmtAttrs(sc), fmtCts(sc.Constraints), firstUnsat, len(sc.Constraints), sc.Constraints[firstUnsat].Attribute, sc.Constraints[firstUnsat].Value, why), sc)
	}
}

// ---------- MERGE ----------

// mergeStats counts how deep the overriding in a chain goes.
func (m *mon) mergeStats(prefix string, levels [][]ctDesc) (defs2, defs3, gap2 int) {
	where := map[string][]int{}
	for l, lvl := range levels {
		for _, ct := range lvl {
			where[ct.Attribute] = append(where[ct.Attribute], l)
		}
	}
	for _, ls := range where {
		if len(ls) >= 2 {
			defs2++
			if ls[len(ls)-1]-ls[0] >= 2 {
				gap2++
			}
		}
		if len(ls) >= 3 {
			defs3++
		}
	}
	if defs2 > 0 {
		m.c.Count(prefix+"_cases_with_override", 1)
	}
	if defs3 > 0 {
		m.c.Count(prefix+"_cases_attr_defined_at_3plus_levels", 1)
	}
	if gap2 > 0 {
		m.c.Count(prefix+"_cases_override_across_2plus_levels", 1)
	}
	return
}

// checkMerged compares a merged list with the effective set. Returns
// (class, detail) of the first missing effective constraint, attributes in
// sorted order; extras are only counted.
func (m *mon) checkMerged(prefix string, levels [][]ctDesc, got constraint.Constraints) (string, string) {
	eff := refMerge(levels)
	names := make([]string, 0, len(eff))
	for a := range eff {
		names = append(names, a)
	}
	sort.Strings(names)
	for _, a := range names {
		want := eff[a]
		found, sameAttr := false, []string{}
		for _, g := range got {
			if g.Attribute != a {
				continue
			}
			sameAttr = append(sameAttr, g.Value)
			if g.Value == want.Value && g.Operator == constraint.Equals {
				found = true
			}
		}
		if found {
			continue
		}
		if len(sameAttr) == 0 {
			return "constraint-dropped", fmt.Sprintf("effective constraint %s=%q is absent from the merged list %v", a, want.Value, got)
		}
		// is what survived a farther definition of the same attribute?
		for l := len(levels) - 1; l >= 0; l-- {
			for _, ct := range levels[l] {
				if ct.Attribute == a && ct.Value != want.Value {
					for _, sv := range sameAttr {
						if sv == ct.Value {
							return "farther-definition-won", fmt.Sprintf("attribute %s: nearest definition is %q, merged list %v carries the farther %q (level %d of %d, 0 = farthest)", a, want.Value, got, sv, l, len(levels))
						}
					}
				}
			}
		}
		return "wrong-value", fmt.Sprintf("attribute %s: nearest definition is %q, merged list %v carries %v", a, want.Value, got, sameAttr)
	}
	extra := 0
	for _, g := range got {
		if w, ok := eff[g.Attribute]; !ok || w.Value != g.Value {
			extra++
		}
	}
	if extra > 0 {
		m.c.Count(prefix+"_extra_constraints_kept", int64(extra))
	}
	return "", ""
}

// mergeChecked calls child.MergeParent(parent) and reports which input slice,
// if any, differs afterwards from a deep copy taken before the call (the whole
// backing array up to cap is compared, so a write beyond len is seen too).
func mergeChecked(child, parent constraint.Constraints) (merged constraint.Constraints, modified string) {
	pFull, cFull := parent[:cap(parent)], child[:cap(child)]
	pCopy := append(constraint.Constraints{}, pFull...)
	cCopy := append(constraint.Constraints{}, cFull...)
	pLen, cLen := len(parent), len(child)
	merged = child.MergeParent(parent)
	if len(parent) != pLen {
		return merged, "parent"
	}
	for k := range pCopy {
		if pCopy[k] != pFull[k] {
			return merged, "parent"
		}
	}
	if len(child) != cLen {
		return merged, "child"
	}
	for k := range cCopy {
		if cCopy[k] != cFull[k] {
			return merged, "child"
		}
	}
	return merged, ""
}

func (m *mon) caseMerge(i int64, logIt bool) {
	c := m.c
	r := c.SubRand(i)
	mc := genMergeCase(r, 1)
	m.begin(mc, logIt, i == 1<<32)
	var eff constraint.Constraints
	modified, modifiedAt := "", 0
	cl, det := guard("Constraints.MergeParent", func() {
		// the way roleBase.getConstraints and Manager.BuildDescriptorConstraints fold:
		// near.MergeParent(everything farther)
		if len(mc.Levels) == 1 {
			if r.Intn(2) == 0 {
				eff = toConstraints(mc.Levels[0]).MergeParent(nil)
			} else {
				eff = toConstraints(mc.Levels[0]).MergeParent(constraint.Constraints{})
			}
			return
		}
		eff = toConstraints(mc.Levels[0])
		for l := 1; l < len(mc.Levels); l++ {
			eff, modified = mergeChecked(toConstraints(mc.Levels[l]), eff)
			if modified != "" {
				modifiedAt = l
				return
			}
		}
	})
	if cl != "" {
		m.violation("CRASH", cl, det, mc)
		return
	}
	if modified != "" {
		// an input that is written to is somebody else's constraint list: the
		// parent is the enclosing role's (or, in BuildDescriptorConstraints, the
		// cached task template's) list, shared by every other descendant
		m.violation("MERGE", "input-modified/"+modified, fmt.Sprintf("level %d .MergeParent(levels 0..%d merged) changed its %s argument", modifiedAt, modifiedAt-1, modified), mc)
		return
	}
	c.Count("merge_cases", 1)
	c.Count(fmt.Sprintf("merge_cases_levels_%d", len(mc.Levels)), 1)
	d2, d3, g2 := m.mergeStats("merge", mc.Levels)
	c.Nontrivial(vlib.Hash("merge", len(mc.Levels), capInt(d2, 3), capInt(d3, 2), capInt(g2, 2), capInt(len(eff), 5)))
	if class, detail := m.checkMerged("merge", mc.Levels, eff); class != "" {
		m.violation("MERGE", class, "MergeParent folded over "+strconv.Itoa(len(mc.Levels))+" levels: "+detail, mc)
		return
	}
	c.Count("merge_cases_agree", 1)
}

// ---------- ROLE TREE (roleBase.getConstraints through the exported API) ----------

func yamlConstraints(sb *strings.Builder, indent string, cts []ctDesc, explicitEmpty bool) {
	if len(cts) == 0 {
		if explicitEmpty {
			sb.WriteString(indent + "constraints: []\n")
		}
		return
	}
	sb.WriteString(indent + "constraints:\n")
	for _, ct := range cts {
		fmt.Fprintf(sb, "%s  - attribute: %q\n%s    value: %q\n", indent, ct.Attribute, indent, ct.Value)
	}
}

func (m *mon) caseRoleTree(i int64, logIt bool) {
	c := m.c
	r := c.SubRand(i)
	mc := genMergeCase(r, 2)
	mc.Fam = "roletree"
	k := len(mc.Levels)
	mc.Siblings = map[string][]ctDesc{}
	chains := map[string][][]ctDesc{} // task class name -> chain of levels
	var sb strings.Builder
	// levels 0..k-2 are aggregator roles, level k-1 is the task role
	for l := 0; l < k-1; l++ {
		ind := strings.Repeat("    ", l)
		if l == 0 {
			fmt.Fprintf(&sb, "name: \"r0\"\n")
			yamlConstraints(&sb, "", mc.Levels[0], r.Intn(5) == 0)
			sb.WriteString("roles:\n")
		} else {
			fmt.Fprintf(&sb, "%s- name: \"r%d\"\n", ind[2:], l)
			yamlConstraints(&sb, ind, mc.Levels[l], r.Intn(5) == 0)
			sb.WriteString(ind + "roles:\n")
		}
		childInd := strings.Repeat("    ", l+1)
		sibling := func(tag string) {
			cts := genLevel(r, 9, pick(r, mergeAttrPool))
			name := fmt.Sprintf("sib-%d%s", l, tag)
			mc.Siblings[name] = cts
			fmt.Fprintf(&sb, "%s- name: %q\n", childInd[2:], name)
			yamlConstraints(&sb, childInd, cts, false)
			fmt.Fprintf(&sb, "%stask:\n%s  load: %q\n", childInd, childInd, "cls-"+name)
			chain := append([][]ctDesc{}, mc.Levels[:l+1]...)
			chains["cls-"+name] = append(chain, cts)
		}
		if r.Intn(2) == 0 {
			sibling("a") // before the main branch
		}
		if l == k-2 {
			fmt.Fprintf(&sb, "%s- name: \"leaf\"\n", childInd[2:])
			yamlConstraints(&sb, childInd, mc.Levels[k-1], r.Intn(5) == 0)
			fmt.Fprintf(&sb, "%stask:\n%s  load: \"cls-leaf\"\n", childInd, childInd)
			chains["cls-leaf"] = mc.Levels
			if r.Intn(2) == 0 {
				sibling("b")
			}
		} else {
			// the next aggregator is emitted by the next iteration; a sibling after it must
			// be written later, so only "before" siblings exist at inner levels
		}
	}
	mc.YAML = sb.String()
	m.begin(mc, logIt, i == 2<<32)

	var ds task.Descriptors
	var uerr error
	cl, det := guard("workflow roles/getConstraints", func() {
		root := workflow.NewAggregatorRole("", nil)
		if uerr = yaml.Unmarshal([]byte(mc.YAML), root); uerr != nil {
			return
		}
		workflow.LinkChildrenToParents(root)
		ds = root.GenerateTaskDescriptors()
	})
	if cl != "" {
		m.violation("CRASH", cl, det, mc)
		return
	}
	if uerr != nil {
		c.Count("roletree_yaml_rejected", 1)
		c.Inconclusive("generated role tree was rejected by the role unmarshaller: " + uerr.Error())
		return
	}
	c.Count("roletree_cases", 1)
	c.Count("roletree_descriptors", int64(len(ds)))
	d2, d3, g2 := m.mergeStats("roletree", mc.Levels)
	c.Nontrivial(vlib.Hash("tree", k, capInt(d2, 3), capInt(d3, 2), capInt(g2, 2), len(chains)))
	if len(ds) != len(chains) {
		c.Inconclusive(fmt.Sprintf("role tree yielded %d descriptors, %d task roles were written", len(ds), len(chains)))
		return
	}
	for _, d := range ds {
		chain, ok := chains[d.TaskClassName]
		if !ok {
			c.Inconclusive("descriptor for unknown task class " + d.TaskClassName)
			return
		}
		if class, detail := m.checkMerged("roletree", chain, d.RoleConstraints); class != "" {
			m.violation("ROLE-MERGE", class, fmt.Sprintf("descriptor of %s (chain of %d levels): %s", d.TaskClassName, len(chain), detail), mc)
			return
		}
	}
	c.Count("roletree_cases_agree", 1)
}

// ---------- PORT EXPRESSIONS ----------

func (m *mon) caseParse(i int64, logIt bool) {
	c := m.c
	r := c.SubRand(i)
	pc, kinds := genParseCase(r)
	m.begin(pc, logIt, i == 3<<32)

	// harness self-check: the reference parser must read back what the generator wrote
	refItems, refOK := refParsePorts(pc.Expr)
	if refOK != pc.WellFormed || (refOK && !ivalsEqual(refItems, pc.Items)) {
		c.Inconclusive(fmt.Sprintf("harness: reference parser and generator disagree on %q (%v %v vs %v %v)", pc.Expr, refOK, refItems, pc.WellFormed, pc.Items))
		return
	}

	var got port.Ranges
	var err error
	var rw taskclass.ResourceWants
	fn := "port.RangesFromExpression"
	call := func() { got, err = port.RangesFromExpression(pc.Expr) }
	if pc.Via == "yaml" {
		fn = "taskclass.ResourceWants.UnmarshalYAML"
		doc := fmt.Sprintf("cpu: %q\nmemory: %q\nports: %q\n", pc.Cpu, pc.Mem, pc.Expr)
		call = func() {
			err = yaml.Unmarshal([]byte(doc), &rw)
			got = rw.Ports
		}
	}
	cl, det := guard(fn, call)
	if !pc.WellFormed {
		// probes outside the grammar: recorded, never judged
		c.Count("parse_malformed_probes", 1)
		switch {
		case cl != "":
			c.Count("parse_malformed_panicked", 1)
		case err == nil:
			c.Count("parse_malformed_accepted", 1)
			c.Count("parse_malformed_accepted_"+pc.MalKind, 1)
		default:
			c.Count("parse_malformed_rejected", 1)
		}
		return
	}
	if cl != "" {
		m.violation("CRASH", cl, det, pc)
		return
	}
	shape := exprShape(kinds)
	c.Count("parse_cases", 1)
	c.Count("parse_cases_"+shape, 1)
	if len(pc.Items) >= 2 {
		c.Count("parse_cases_2plus_items", 1)
	}
	if pc.Via == "yaml" {
		c.Count("parse_cases_via_yaml", 1)
	}
	c.Nontrivial(vlib.Hash("parse", shape, capInt(len(pc.Items), 5), pc.Blanks, pc.Via, err == nil))
	if err != nil {
		c.Count("parse_wellformed_rejected", 1)
		return
	}
	c.Count("parse_accepted_and_compared", 1)
	if len(pc.Items) == 0 {
		c.Count("parse_expected_no_ports", 1)
	} else {
		c.Count("parse_expected_some_ports", 1)
	}
	gotIv := make([]ival, 0, len(got))
	for _, g := range got {
		gotIv = append(gotIv, ival{g.Begin, g.End})
	}
	if pc.Via == "yaml" {
		wc, _ := strconv.ParseFloat(pc.Cpu, 64)
		wm, _ := strconv.ParseFloat(pc.Mem, 64)
		if rw.Cpu == nil || *rw.Cpu != wc {
			m.violation("WANTS-YAML", "cpu-mismatch", fmt.Sprintf("wants cpu %q read as %v", pc.Cpu, rw.Cpu), pc)
			return
		}
		if rw.Memory == nil || *rw.Memory != wm {
			m.violation("WANTS-YAML", "memory-mismatch", fmt.Sprintf("wants memory %q read as %v", pc.Mem, rw.Memory), pc)
			return
		}
	}
	// judge: same set of ports (order and the way the set is cut into ranges are free)
	reversed := false
	for _, g := range gotIv {
		if g.E < g.B {
			reversed = true
		}
	}
	if !reversed && ivalsEqual(normIvals(gotIv), normIvals(pc.Items)) {
		c.Count("parse_cases_agree", 1)
		return
	}
	// canonical class from an item-wise diff
	class := ""
	switch {
	case len(gotIv) < len(pc.Items):
		class = "items-dropped/" + shape
	case len(gotIv) > len(pc.Items):
		class = "items-added/" + shape
	default:
		for k := range gotIv {
			if gotIv[k] == pc.Items[k] {
				continue
			}
			kind := "single"
			if kinds[k] {
				kind = "range"
			}
			field := "both"
			if gotIv[k].B == pc.Items[k].B {
				field = "end"
			} else if gotIv[k].E == pc.Items[k].E {
				field = "begin"
			}
			class = "wrong-item/" + kind + "/" + field
			break
		}
	}
	m.violation("RANGE-PARSE", class, fmt.Sprintf("%s(%q) = %v, written: %v", fn, pc.Expr, got, pc.Items), pc)
}

// ---------- RESOURCES ----------

func toOffer(rc resCase) mesos.Resources {
	var rs mesos.Resources
	if rc.HasCPU {
		rs = append(rs, resources.NewCPUs(rc.OffCPU).Resource)
	}
	rs = append(rs, resources.NewDisk(10000).Resource) // distractor
	if rc.HasMem {
		rs = append(rs, resources.NewMemory(rc.OffMem).Resource)
	}
	if rc.HasPorts {
		rb := resources.BuildRanges()
		for _, p := range rc.OffPorts {
			rb = rb.Span(p.B, p.E)
		}
		rs = append(rs, resources.Build().Name(resources.NamePorts).Ranges(rb.Ranges).Resource)
	}
	return rs
}

func toWants(rc resCase) *task.Wants {
	w := &task.Wants{Cpu: rc.WantCPU, Memory: rc.WantMem}
	for _, s := range rc.Static {
		w.StaticPorts = append(w.StaticPorts, port.Range{Begin: s.B, End: s.E})
	}
	for _, in := range rc.Inbound {
		ib := channel.Inbound{Channel: channel.Channel{Name: in.Name, Type: channel.PUSH, Transport: channel.ZEROMQ}, Addressing: channel.TCP}
		if !in.TCP {
			ib.Addressing = channel.IPC
			ib.Transport = channel.SHMEM
		}
		w.InboundChannels = append(w.InboundChannels, ib)
	}
	return w
}

func (m *mon) caseResources(i int64, logIt bool) {
	c := m.c
	r := c.SubRand(i)
	rc := genResCase(r)
	m.begin(rc, logIt, i == 4<<32)
	tcp, ipc := 0, 0
	for _, in := range rc.Inbound {
		if in.TCP {
			tcp++
		} else {
			ipc++
		}
	}
	lacking := refLacking(rc.OffCPU, rc.OffMem, rc.OffPorts, rc.WantCPU, rc.WantMem, rc.Static, tcp)
	offer, wants := toOffer(rc), toWants(rc)
	var got bool
	if cl, det := guard("task.Resources.Satisfy", func() { got = task.Resources(offer).Satisfy(wants) }); cl != "" {
		m.violation("CRASH", cl, det, rc)
		return
	}
	c.Count("resources_cases", 1)
	lk := strings.Join(lacking, "+")
	c.Nontrivial(vlib.Hash("res", lk, got, capInt(len(rc.Static), 3), capInt(tcp, 3), capInt(ipc, 2), rc.HasCPU, rc.HasMem, rc.HasPorts))
	if len(rc.Static) > 0 {
		c.Count("resources_cases_with_static_ports", 1)
	}
	if tcp > 0 {
		c.Count("resources_cases_with_tcp_inbound", 1)
	}
	switch {
	case len(lacking) == 0:
		c.Count("resources_expected_true", 1)
		if !got {
			c.Count("resources_conservative_reject", 1)
			// mechanical breakdown for the evidence (not judged)
			free := ivalsSize(normIvals(rc.OffPorts)) - ivalsSize(normIvals(rc.Static))
			switch {
			case !rc.HasCPU || !rc.HasMem || !rc.HasPorts || rc.OffCPU == 0 || rc.OffMem == 0 || len(rc.OffPorts) == 0:
				c.Count("resources_conservative_reject_resource_absent_or_empty_in_offer", 1)
			case rc.WantMem > float64(uint64(rc.OffMem)):
				c.Count("resources_conservative_reject_fractional_mem_truncated", 1)
			case len(rc.Static) > 0 && ivalsEqual(normIvals(rc.Static), normIvals(rc.OffPorts)):
				c.Count("resources_conservative_reject_static_equals_whole_offer", 1)
			case free < uint64(tcp+ipc):
				c.Count("resources_conservative_reject_ipc_channel_counted_as_port", 1)
			default:
				c.Count("resources_conservative_reject_other", 1)
			}
		} else {
			m.allocIdiom(rc, offer, tcp)
		}
	case !got:
		c.Count("resources_expected_false", 1)
		for _, l := range lacking {
			c.Count("resources_expected_false_lacking_"+l, 1)
		}
		if len(lacking) == 1 {
			c.Count("resources_expected_false_only_"+lacking[0], 1)
		}
	default:
		c.Count("resources_expected_false", 1)
		m.violation("RESOURCES", "expected-false-got-true/lacking="+lk,
			fmt.Sprintf("Resources(%v).Satisfy(cpu=%v mem=%v static=%v inbound tcp=%d ipc=%d) = true, but the offer lacks: %s",
				offer, rc.WantCPU, rc.WantMem, rc.Static, tcp, ipc, lk), rc)
	}
}

// allocIdiom is NOT an oracle. For offers that Resources.Satisfy accepted it
// replays, on the mesos-go helpers, the steps makeTaskForMesosResources takes
// next (Ports → Remove(0..8999) → Min → Subtract per TCP channel, then
// Remove(0..29999) → Min for the control port) and counts the situations in
// which that sequence would call Ranges.Min on an empty Ranges (a panic in
// mesos-go) or hand out a port that is also one of the task's static ports.
// The counts go to the evidence as leads for part (b) of C05.
func (m *mon) allocIdiom(rc resCase, offer mesos.Resources, tcp int) {
	c := m.c
	c.Count("allocidiom_replays", 1)
	rem := offer.Clone()
	static := normIvals(rc.Static)
	inStatic := func(p uint64) bool { return ivalsSubset([]ival{{p, p}}, static) }
	take := func(cutoff uint64, what string) bool {
		av, ok := resources.Ports(rem...)
		if !ok {
			c.Count("allocidiom_no_ports_resource_left_"+what, 1)
			return false
		}
		av = av.Remove(mesos.Value_Range{Begin: 0, End: cutoff - 1})
		if len(av) == 0 {
			c.Count("allocidiom_min_on_empty_"+what, 1)
			return false
		}
		p := av.Min()
		if inStatic(p) {
			c.Count("allocidiom_port_collides_with_own_static_"+what, 1)
		}
		rem.Subtract(resources.Build().Name(resources.NamePorts).Ranges(resources.BuildRanges().Span(p, p).Ranges).Resource)
		return true
	}
	for k := 0; k < tcp; k++ {
		if !take(9000, "data") {
			return
		}
	}
	take(30000, "control")
}
