// mon-misc: in-process monitors that need no core and no hooks in most cases.
package main

import (
	"fmt"
	"os"
)

func main() {
	if len(os.Args) < 2 {
		fmt.Fprintln(os.Stderr, "usage: mon-misc <C20> [flags]")
		os.Exit(64)
	}
	switch os.Args[1] {
	case "C20":
		runC20()
	case "C18B":
		runC18B()
	default:
		fmt.Fprintln(os.Stderr, "unknown property", os.Args[1])
		os.Exit(64)
	}
}
