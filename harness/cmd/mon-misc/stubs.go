package main

func runC19() { panic("not built yet") }
func runC07() { panic("not built yet") }
