package main

// C18B — the roster (the core's record of the tasks it owns) conserves tasks under the concurrency
// the task manager subjects it to: deployments append to it while teardowns and clean-ups filter it
// (Manager.acquireTasks / Manager.doKillTasks). A task that drops out of the roster while it is alive
// is "a task the core no longer knows": the next reconciliation kills it although a live environment
// owns it (C18, second sentence), and a task that comes back after it was removed is never killed.
//
// The real roster (through task.VerifRoster, build tag verif) is driven by appenders (unique task ids),
// keepers (filters that remove ids of an EARLIER phase only, so whether a filter applies to an id never
// depends on the interleaving) and readers. Oracle at the quiescent point after each phase:
// conservation - roster == everything appended so far minus everything a completed keep had to remove.

import (
	"fmt"
	"os"
	"sort"
	"sync"

	"github.com/AliceO2Group/Control/core/task"

	"verif/harness/vlib"
)

type c18bCase struct {
	Phases    int `json:"phases"`
	Appenders int `json:"appenders"`
	PerApp    int `json:"appends_per_appender"`
	Keepers   int `json:"keepers"`
	PerKeep   int `json:"keeps_per_keeper"`
	Readers   int `json:"readers"`
	Initial   int `json:"initial"`
}

func runC18B() {
	c := vlib.Start(os.Args[1])
	defer c.Finish()
	nCases := 60
	if !vlib.Quick(c) {
		nCases = 600
	}
	lo, hi := c.Slice(nCases)
	violating := 0 // cases with a violation: two witnesses are enough (a broken roster makes the race detector crawl)
	for i := lo; i < hi; i++ {
		if violating >= 2 {
			c.Count("cases_skipped_after_two_violating_cases", int64(hi-i))
			break
		}
		r := c.SubRand(int64(i))
		cs := c18bCase{Phases: 2 + r.Intn(3), Appenders: 1 + r.Intn(6), PerApp: 20 + r.Intn(200), Keepers: 1 + r.Intn(4),
			PerKeep: 10 + r.Intn(100), Readers: 1 + r.Intn(3), Initial: 5 + r.Intn(40)}
		id := c.Case(cs)
		ro := task.VerifNewRoster()
		mk := func(tid string) *task.Task {
			return task.VerifNewTask(nil, nil, "cls", tid, "host1", "agent1", "exec-"+tid)
		}
		expect := map[string]bool{}
		var prev []string // ids appended in the previous phase (this phase's keeps remove some of them)
		for k := 0; k < cs.Initial; k++ {
			tid := fmt.Sprintf("c%d-init-%d", i, k)
			ro.Append(mk(tid))
			expect[tid] = true
			prev = append(prev, tid)
		}
		var overlaps, lostTotal, backTotal, badTotal int64
		for ph := 0; ph < cs.Phases; ph++ {
			var wg sync.WaitGroup
			var mu sync.Mutex
			var appended []string
			removed := map[string]bool{}
			// what each keep removes is decided before the phase starts
			plans := make([][][]string, cs.Keepers)
			for g := range plans {
				plans[g] = make([][]string, cs.PerKeep)
				for j := range plans[g] {
					if len(prev) == 0 {
						continue
					}
					n := r.Intn(3)
					for x := 0; x < n; x++ {
						v := prev[r.Intn(len(prev))]
						plans[g][j] = append(plans[g][j], v)
						removed[v] = true
					}
				}
			}
			start := make(chan struct{})
			var rmu sync.Mutex
			badSel := 0
			var inKeep, inAppend, ovl int64
			var omu sync.Mutex
			for g := 0; g < cs.Appenders; g++ {
				wg.Add(1)
				go func(g int) {
					defer wg.Done()
					<-start
					for j := 0; j < cs.PerApp; j++ {
						tid := fmt.Sprintf("c%d-p%d-a%d-%d", i, ph, g, j)
						t := mk(tid)
						omu.Lock()
						inAppend++
						if inKeep > 0 {
							ovl++
						}
						omu.Unlock()
						ro.Append(t)
						omu.Lock()
						inAppend--
						omu.Unlock()
						mu.Lock()
						appended = append(appended, tid)
						mu.Unlock()
					}
				}(g)
			}
			for g := 0; g < cs.Keepers; g++ {
				wg.Add(1)
				go func(g int) {
					defer wg.Done()
					<-start
					for j := 0; j < cs.PerKeep; j++ {
						drop := map[string]bool{}
						for _, v := range plans[g][j] {
							drop[v] = true
						}
						omu.Lock()
						inKeep++
						if inAppend > 0 {
							ovl++
						}
						omu.Unlock()
						ro.Keep(func(t *task.Task) bool { return !drop[t.GetTaskId()] })
						omu.Lock()
						inKeep--
						omu.Unlock()
					}
				}(g)
			}
			for g := 0; g < cs.Readers; g++ {
				wg.Add(1)
				go func() {
					defer wg.Done()
					<-start
					for j := 0; j < 50; j++ {
						_ = ro.GetTaskIds()
						// a selection that is not a prefix of the roster (every other task, by the last digit of its id)
						sel := ro.Filtered(func(t *task.Task) bool { id := t.GetTaskId(); return (id[len(id)-1]-'0')%2 == byte(j%2) })
						for _, t := range sel {
							if id := t.GetTaskId(); (id[len(id)-1]-'0')%2 != byte(j%2) {
								rmu.Lock()
								badSel++
								rmu.Unlock()
							}
						}
						_ = ro.Contains(func(t *task.Task) bool { return t.GetTaskId() == "no-such-task" })
					}
				}()
			}
			close(start)
			wg.Wait()
			if badSel > 0 {
				badTotal += int64(badSel)
				c.Violation("ROSTER-CONSERVATION", "filtered-returns-tasks-the-filter-rejects",
					fmt.Sprintf("%d task(s) returned by filtered() do not satisfy the filter they were selected with", badSel), id, map[string]interface{}{"case": cs, "phase": ph})
			}
			overlaps += ovl
			for _, v := range appended {
				expect[v] = true
			}
			for v := range removed {
				delete(expect, v)
			}
			have := map[string]int{}
			for _, v := range ro.GetTaskIds() {
				have[v]++
			}
			var lost, back, dup []string
			for v := range expect {
				if have[v] == 0 {
					lost = append(lost, v)
				}
			}
			for v, n := range have {
				if !expect[v] {
					back = append(back, v)
				}
				if n > 1 {
					dup = append(dup, v)
				}
			}
			sort.Strings(lost)
			sort.Strings(back)
			sort.Strings(dup)
			c.Count("roster_entries_judged", int64(len(expect)+len(back)))
			c.Count("phases_judged", 1)
			if len(lost) > 0 {
				lostTotal += int64(len(lost))
				c.Violation("ROSTER-CONSERVATION", "task-appended-during-a-filter-is-lost",
					fmt.Sprintf("%d task(s) appended to the roster while a keep() ran are missing from it afterwards (no filter named them): the core no longer knows tasks it launched", len(lost)),
					id, map[string]interface{}{"case": cs, "phase": ph, "lost": head(lost, 10), "roster_size": len(have), "expected": len(expect)})
			}
			if len(back) > 0 {
				backTotal += int64(len(back))
				c.Violation("ROSTER-CONSERVATION", "task-removed-by-a-filter-is-back",
					fmt.Sprintf("%d task(s) a completed keep() had removed are in the roster again", len(back)),
					id, map[string]interface{}{"case": cs, "phase": ph, "back": head(back, 10)})
			}
			if len(dup) > 0 {
				badTotal += int64(len(dup))
				c.Violation("ROSTER-CONSERVATION", "task-twice-in-the-roster",
					fmt.Sprintf("%d task id(s) appear more than once in the roster", len(dup)),
					id, map[string]interface{}{"case": cs, "phase": ph, "dup": head(dup, 10)})
			}
			prev = appended
			if lostTotal+backTotal+badTotal > 0 {
				break // the model no longer describes this roster
			}
		}
		if lostTotal+backTotal+badTotal > 0 {
			violating++
		}
		c.Count("append_keep_overlaps_observed", overlaps)
		if overlaps > 0 {
			c.Count("cases_with_overlap", 1)
			c.Nontrivial(vlib.Hash(cs.Phases, cs.Appenders, cs.Keepers, cs.Readers))
			c.Interleaving(vlib.Hash(i, overlaps))
		}
		if i-lo < 5 {
			c.Sample(map[string]interface{}{"case": cs, "overlaps": overlaps, "lost": lostTotal, "back": backTotal})
		}
	}
}

func head(s []string, n int) []string {
	if len(s) > n {
		return s[:n]
	}
	return s
}
