package main

// C20 — configuration lookups return the most specific existing entry.
// Real apricot/local.Service on a generated file:// backend; reference resolver,
// reference parser and reference substitution written from the statement.

import (
	"encoding/json"
	"fmt"
	"math/rand"
	"net/http"
	"net/http/httptest"
	"os"
	"path/filepath"
	"sort"
	"strings"
	"sync"

	"github.com/AliceO2Group/Control/apricot/local"
	apricotpb "github.com/AliceO2Group/Control/apricot/protos"
	"github.com/AliceO2Group/Control/configuration/componentcfg"

	"github.com/spf13/viper"

	simconsul "verif/harness/sim/consul"
	"verif/harness/vlib"
)

const (
	alLower = "abcdefghijklmnopqrstuvwxyz"
	alUpper = "ABCDEFGHIJKLMNOPQRSTUVWXYZ"
	alDigit = "0123456789"
)

func c20Name(r *rand.Rand, alphabet string, minLen, maxLen int) string {
	n := minLen + r.Intn(maxLen-minLen+1)
	b := make([]byte, n)
	for i := range b {
		b[i] = alphabet[r.Intn(len(alphabet))]
	}
	return string(b)
}

var c20RunTypes []string

func init() {
	for _, n := range apricotpb.RunType_name {
		c20RunTypes = append(c20RunTypes, n)
	}
	sort.Strings(c20RunTypes)
}

// ---------- reference implementations (from the statement) ----------

type refQuery struct{ Comp, RT, Role, Entry string }

func inSet(s, set string) bool {
	if s == "" {
		return false
	}
	for i := 0; i < len(s); i++ {
		if strings.IndexByte(set, s[i]) < 0 {
			return false
		}
	}
	return true
}

// refParse: component/RUNTYPE/rolename/entry[/more], surrounding blanks ignored.
func refParse(in string) (refQuery, string, bool) {
	t := strings.Trim(in, " \t\n\r")
	parts := strings.SplitN(t, "/", 4)
	if len(parts) != 4 {
		return refQuery{}, t, false
	}
	idc := alLower + alUpper + alDigit + "-_"
	if !inSet(parts[0], idc) || !inSet(parts[1], alUpper+alDigit+"-_") || !inSet(parts[2], idc) || !inSet(parts[3], idc+"/") {
		return refQuery{}, t, false
	}
	if _, ok := apricotpb.RunType_value[parts[1]]; !ok {
		return refQuery{}, t, false
	}
	return refQuery{parts[0], parts[1], parts[2], parts[3]}, t, true
}

// refResolve: first existing of (rt,role) (ANY,role) (rt,any) (ANY,any).
func refResolve(exists func(rt, role string) bool, rt, role string) (string, string, bool) {
	for _, c := range [][2]string{{rt, role}, {"ANY", role}, {rt, "any"}, {"ANY", "any"}} {
		if exists(c[0], c[1]) {
			return c[0], c[1], true
		}
	}
	return "", "", false
}

// template subset emitted by the generator: literal text and {{ name }}.
type tplPart struct {
	Lit string
	Var string
	// PrefixedOverride(varname, prefix): the utility function that reads the supplied variables
	PoVar, PoPrefix string
}

func tplText(ps []tplPart) string {
	var sb strings.Builder
	for _, p := range ps {
		if p.PoVar != "" {
			sb.WriteString(fmt.Sprintf("{{ util.PrefixedOverride(%q, %q) }}", p.PoVar, p.PoPrefix))
		} else if p.Var != "" {
			sb.WriteString("{{ " + p.Var + " }}")
		} else {
			sb.WriteString(p.Lit)
		}
	}
	return sb.String()
}

// refPrefixedOverride: prefix_var if supplied and not "none"/blank, else var if supplied and not
// "none"/blank, else "" (documented behaviour of the utility function).
func refPrefixedOverride(vars map[string]string, v, prefix string) string {
	usable := func(k string) (string, bool) {
		x, ok := vars[k]
		if !ok || x == "none" || strings.TrimSpace(x) == "" {
			return "", false
		}
		return x, true
	}
	if x, ok := usable(prefix + "_" + v); ok {
		return x
	}
	if x, ok := usable(v); ok {
		return x
	}
	return ""
}

func tplRef(ps []tplPart, vars map[string]string) string {
	var sb strings.Builder
	for _, p := range ps {
		if p.PoVar != "" {
			sb.WriteString(refPrefixedOverride(vars, p.PoVar, p.PoPrefix))
		} else if p.Var != "" {
			sb.WriteString(vars[p.Var]) // undefined renders empty
		} else {
			sb.WriteString(p.Lit)
		}
	}
	return sb.String()
}

// ---------- the monitor ----------

type c20Resolution struct {
	Backend               string `json:"backend,omitempty"`
	Comp, RT, Role, Entry string
	Pattern               int // bit0 (rt,role) bit1 (ANY,role) bit2 (rt,any) bit3 (ANY,any)
	Query                 string
	Vars                  []map[string]string
}

func runC20() {
	c := vlib.Start("C20")
	defer c.Finish()
	nSets, nQueries := 30, 5000
	if c.Tier == "thorough" {
		nSets, nQueries = 1500, 250000
	}
	lo, hi := c.Slice(nSets)
	for i := lo; i < hi; i++ {
		c20ResolutionSet(c, int64(i))
	}
	lo, hi = c.Slice(nQueries)
	c20Parser(c, lo, hi)
}

func c20ResolutionSet(c *vlib.Ctx, idx int64) {
	r := c.SubRand(idx)
	idc := alLower + alUpper + alDigit + "-_"
	comp := c20Name(r, idc, 1, 8)
	// run type: any valid name including ANY itself (degenerate: candidates coincide)
	rt := c20RunTypes[r.Intn(len(c20RunTypes))]
	role := c20Name(r, idc, 1, 8)
	if r.Intn(10) == 0 {
		role = "any"
	}
	entry := c20Name(r, idc, 1, 8)
	nested := r.Intn(3) == 0
	sub := ""
	if nested {
		sub = c20Name(r, alLower+alDigit+"_", 1, 5)
	}
	// variables and template
	nv := r.Intn(4)
	var varNames []string
	for k := 0; k < nv; k++ {
		varNames = append(varNames, fmt.Sprintf("v%d_%s", k, c20Name(r, alLower, 1, 4)))
	}

	for pattern := 0; pattern < 16; pattern++ {
		// each pattern gets its own component name so the 16 share one file
		pcomp := fmt.Sprintf("%s-p%d", comp, pattern)
		_ = pcomp
	}
	// build the file: 16 components, one per existence pattern
	root := map[string]interface{}{}
	comps := map[string]interface{}{}
	type cand struct{ rt, role string }
	cands := []cand{{rt, role}, {"ANY", role}, {rt, "any"}, {"ANY", "any"}}
	tpls := map[string][]tplPart{} // key comp|rt|role -> template parts
	putEntry := func(compMap map[string]interface{}, crt, crole, key string, val interface{}) {
		rtm, _ := compMap[crt].(map[string]interface{})
		if rtm == nil {
			rtm = map[string]interface{}{}
			compMap[crt] = rtm
		}
		rm, _ := rtm[crole].(map[string]interface{})
		if rm == nil {
			rm = map[string]interface{}{}
			rtm[crole] = rm
		}
		if nested && key == entry {
			sm, _ := rm[sub].(map[string]interface{})
			if sm == nil {
				sm = map[string]interface{}{}
				rm[sub] = sm
			}
			sm[key] = val
		} else {
			rm[key] = val
		}
	}
	for pattern := 0; pattern < 16; pattern++ {
		pcomp := fmt.Sprintf("%s-p%d", comp, pattern)
		cm := map[string]interface{}{}
		for ci, cd := range cands {
			// a distractor entry exists in every candidate directory, so a directory test
			// instead of an entry test is wrong
			putEntry(cm, cd.rt, cd.role, "zz-other", "distractor")
			// entries whose names merely START with the queried entry's name are other entries
			putEntry(cm, cd.rt, cd.role, entry+"0", "distractor-prefix-sibling")
			putEntry(cm, cd.rt, cd.role, entry+"-x", "distractor-prefix-sibling")
			if pattern&(1<<ci) != 0 {
				k := pcomp + "|" + cd.rt + "|" + cd.role
				if _, done := tpls[k]; done {
					continue // coinciding candidates
				}
				parts := []tplPart{{Lit: fmt.Sprintf("payload[%s/%s/%s]", pcomp, cd.rt, cd.role)}}
				if r.Intn(6) == 0 {
					// an entry whose content is empty is an existing entry all the same
					c.Count("entries_with_empty_content", 1)
					tpls[k] = nil
					putEntry(cm, cd.rt, cd.role, entry, "")
					continue
				}
				for _, vn := range varNames {
					if r.Intn(3) > 0 {
						parts = append(parts, tplPart{Lit: " " + vn + "="}, tplPart{Var: vn})
					}
				}
				if r.Intn(4) == 0 {
					parts = append(parts, tplPart{Lit: " u="}, tplPart{Var: "undefined_var"})
				}
				if len(varNames) > 0 && r.Intn(2) == 0 {
					// a utility function that looks variables up by name at call time
					parts = append(parts, tplPart{Lit: " po="}, tplPart{PoVar: varNames[r.Intn(len(varNames))], PoPrefix: "pfx"})
				}
				tpls[k] = parts
				putEntry(cm, cd.rt, cd.role, entry, tplText(parts))
			}
		}
		comps[pcomp] = cm
	}
	root["o2"] = map[string]interface{}{"components": comps}
	b, _ := json.Marshal(root)
	dir := os.Getenv("TMPDIR")
	if dir == "" {
		dir = os.TempDir()
	}
	path := filepath.Join(dir, fmt.Sprintf("c20-%d-%d.json", c.Batch, idx))
	if err := os.WriteFile(path, b, 0o644); err != nil {
		c.Inconclusive("cannot write backend file: " + err.Error())
		return
	}
	defer os.Remove(path)
	svc, err := local.NewService("file://" + path)
	if err != nil {
		c.Inconclusive("NewService: " + err.Error())
		return
	}
	entryPath := entry
	if nested {
		entryPath = sub + "/" + entry
	}
	// variable sets: exact, over-supplied, under-supplied, and a second different set
	mkVars := func(tag string, drop, extra bool) map[string]string {
		m := map[string]string{}
		for i, vn := range varNames {
			if drop && i == 0 {
				continue
			}
			m[vn] = tag + c20Name(r, alLower+alDigit, 1, 5)
		}
		if extra {
			m["extra_"+tag] = "EXTRA" + tag
			if len(varNames) > 0 {
				m["pfx_"+varNames[0]] = "PFX" + tag
			}
		}
		return m
	}
	varSets := []map[string]string{mkVars("a", false, false), mkVars("b", false, true), mkVars("c", true, false), {}}

	runPatterns := func(svc *local.Service, backend string) {
		// the same service behind its HTTP front end (apricot/local/servicehttp.go): the routes are driven
		// through the real router, in-process (the listener the constructor starts is closed at once)
		viper.Set("httpListenPort", 0)
		hsrv := local.NewHttpService(svc)
		_ = hsrv.Close()
		httpGet := func(path string) (int, string) {
			rec := httptest.NewRecorder()
			hsrv.Handler.ServeHTTP(rec, httptest.NewRequest(http.MethodGet, path, nil))
			return rec.Code, strings.TrimRight(rec.Body.String(), "\n")
		}
		for pattern := 0; pattern < 16; pattern++ {
			pcomp := fmt.Sprintf("%s-p%d", comp, pattern)
			qs := pcomp + "/" + rt + "/" + role + "/" + entryPath
			desc := c20Resolution{Comp: pcomp, RT: rt, Role: role, Entry: entryPath, Pattern: pattern, Query: qs, Vars: varSets, Backend: backend}
			id := c.Case(desc)
			if idx == 0 && pattern == 5 {
				c.Sample(desc)
			}
			exists := func(crt, crole string) bool {
				_, ok := tpls[pcomp+"|"+crt+"|"+crole]
				return ok
			}
			ert, erole, eok := refResolve(exists, rt, role)
			c.Nontrivial(vlib.Hash("res", pattern, rt == "ANY", role == "any", nested, len(varNames)))
			q, err := componentcfg.NewQuery(qs)
			if err != nil {
				c.Violation("PARSE", "wellformed-rejected", fmt.Sprintf("NewQuery(%q) rejected a well-formed query: %v", qs, err), id, desc)
				continue
			}
			res, err := svc.ResolveComponentQuery(q)
			c.Count("resolutions", 1)
			// GET /components/<component>/<runtype>/<rolename>/<entry>/resolve answers the resolved path
			{
				code, body := httpGet("/components/" + qs + "/resolve")
				c.Count("http_resolutions", 1)
				wantH := pcomp + "/" + ert + "/" + erole + "/" + entryPath
				switch {
				case !eok && code == http.StatusOK:
					c.Violation("RESOLVE", "http/success-when-none-exists", fmt.Sprintf("GET /components/%s/resolve answered 200 %q although no candidate exists", qs, body), id, desc)
				case eok && code != http.StatusOK:
					c.Violation("RESOLVE", "http/failure-when-candidate-exists", fmt.Sprintf("GET /components/%s/resolve answered %d %q although %s exists", qs, code, body, wantH), id, desc)
				case eok && body != wantH:
					c.Violation("RESOLVE", "http/wrong-candidate", fmt.Sprintf("GET /components/%s/resolve answered %q, most specific existing is %s", qs, body, wantH), id, desc)
				}
			}
			if !eok {
				c.Count("resolutions_none_exists", 1)
				if err == nil {
					c.Violation("RESOLVE", "success-when-none-exists", fmt.Sprintf("pattern %04b: resolved to %v although no candidate exists", pattern, res), id, desc)
				}
				continue
			}
			if err != nil || res == nil {
				c.Violation("RESOLVE", "failure-when-candidate-exists", fmt.Sprintf("pattern %04b: error %v although (%s,%s) exists", pattern, err, ert, erole), id, desc)
				continue
			}
			want := pcomp + "/" + ert + "/" + erole + "/" + entryPath
			if res.Raw() != want {
				c.Violation("RESOLVE", fmt.Sprintf("wrong-candidate/pattern-%04b", patternClass(pattern, rt, role)),
					fmt.Sprintf("pattern %04b query %s: resolved %s, most specific existing is %s", pattern, qs, res.Raw(), want), id, desc)
				continue
			}
			parts := tpls[pcomp+"|"+ert+"|"+erole]
			raw, err := svc.GetComponentConfiguration(res)
			if err != nil {
				c.Violation("RESOLVE", "resolved-path-unreadable", fmt.Sprintf("resolved %s cannot be read: %v", res.Raw(), err), id, desc)
				continue
			}
			if raw != tplText(parts) {
				c.Violation("RESOLVE", "resolved-content-mismatch", fmt.Sprintf("resolved %s content %q want %q", res.Raw(), raw, tplText(parts)), id, desc)
			}
			// GET /components/<resolved path> answers the entry's content, verbatim without process=true
			if code, body := httpGet("/components/" + want); code != http.StatusOK || body != strings.TrimRight(tplText(parts), "\n") {
				c.Violation("RESOLVE", "http/payload-mismatch", fmt.Sprintf("GET /components/%s answered %d %q, the entry's content is %q", want, code, body, tplText(parts)), id, desc)
			} else {
				c.Count("http_payloads", 1)
			}
			// templating with exactly the supplied variables; repeated on the same service so that
			// values leaking from a previous call would show
			for vi, vs := range varSets {
				got, err := svc.GetAndProcessComponentConfiguration(res, vs)
				c.Count("template_renders", 1)
				wantP := tplRef(parts, vs)
				if err != nil {
					c.Violation("TEMPLATE", "render-error", fmt.Sprintf("processing %s with %v: %v", res.Raw(), vs, err), id, desc)
					break
				}
				if got != wantP {
					c.Violation("TEMPLATE", "payload-mismatch", fmt.Sprintf("processing %s varset %d %v: got %q want %q", res.Raw(), vi, vs, got, wantP), id, desc)
					break
				}
			}
		}
	}
	// flipPatterns changes which candidate entries exist (pattern p becomes (7p+3+idx) mod 16), in the
	// reference and, through apply, in the store; restoreTpls puts the reference back (the store it was
	// applied to is not used afterwards)
	var savedTpls map[string][]tplPart
	flipPatterns := func(apply func(pcomp string, cd cand, add bool, text string)) {
		savedTpls = map[string][]tplPart{}
		for k, v := range tpls {
			savedTpls[k] = v
		}
		for pattern := 0; pattern < 16; pattern++ {
			pcomp := fmt.Sprintf("%s-p%d", comp, pattern)
			np := (pattern*7 + 3 + int(idx)) % 16
			seen := map[string]bool{}
			for ci, cd := range cands {
				k := pcomp + "|" + cd.rt + "|" + cd.role
				if seen[k] {
					continue // coinciding candidates: the first one decides
				}
				seen[k] = true
				_, had := tpls[k]
				want := np&(1<<ci) != 0
				switch {
				case had && !want:
					delete(tpls, k)
					apply(pcomp, cd, false, "")
					c.Count("entries_removed_under_live_service", 1)
				case !had && want:
					parts := []tplPart{{Lit: fmt.Sprintf("added-later[%s/%s/%s]", pcomp, cd.rt, cd.role)}}
					tpls[k] = parts
					apply(pcomp, cd, true, tplText(parts))
					c.Count("entries_added_under_live_service", 1)
				}
			}
		}
	}
	restoreTpls := func() {
		for k := range tpls {
			delete(tpls, k)
		}
		for k, v := range savedTpls {
			tpls[k] = v
		}
	}
	runPatterns(svc, "file")

	// the entry's content changes in the store and the template cache is invalidated: the next processed
	// request must return the NEW content (a payload is "that entry's content", not what it once was)
	if idx%2 == 1 {
		pcomp := fmt.Sprintf("%s-p%d", comp, 15)
		key := pcomp + "|" + rt + "|" + role
		if parts, ok := tpls[key]; ok {
			qs := pcomp + "/" + rt + "/" + role + "/" + entryPath
			desc := c20Resolution{Comp: pcomp, RT: rt, Role: role, Entry: entryPath, Pattern: 15, Query: qs, Vars: varSets, Backend: "file, content updated + cache invalidated"}
			id := c.Case(desc)
			q, qerr := componentcfg.NewQuery(qs)
			if qerr == nil {
				if res, rerr := svc.ResolveComponentQuery(q); rerr == nil && res != nil {
					_, _ = svc.GetAndProcessComponentConfiguration(res, varSets[0]) // make sure it is cached
					newParts := append([]tplPart{{Lit: "v2 "}}, parts...)
					putEntry(comps[pcomp].(map[string]interface{}), rt, role, entry, tplText(newParts))
					b2, _ := json.Marshal(root)
					if werr := os.WriteFile(path, b2, 0o644); werr == nil {
						svc.InvalidateComponentTemplateCache()
						c.Count("payloads_after_update_and_invalidate", 1)
						for vi, vs := range varSets {
							got, gerr := svc.GetAndProcessComponentConfiguration(res, vs)
							wantP := tplRef(newParts, vs)
							if gerr != nil {
								c.Violation("TEMPLATE", "render-error/after-invalidate", fmt.Sprintf("processing %s after update+invalidate: %v", res.Raw(), gerr), id, desc)
								break
							}
							if got != wantP {
								c.Violation("TEMPLATE", "stale-payload-after-invalidate", fmt.Sprintf("processing %s varset %d after the entry was updated and the template cache invalidated: got %q want %q", res.Raw(), vi, got, wantP), id, desc)
								break
							}
						}
						tpls[key] = newParts
					}
				}
			}
		}
	}

	// the same tree in a Consul key/value store (fake Consul agent), the production backend
	if idx%2 == 0 {
		cs := simconsul.New()
		if err := cs.Start(); err != nil {
			c.Inconclusive("fake consul: " + err.Error())
			return
		}
		defer cs.Stop()
		var flatten func(prefix string, v interface{})
		flatten = func(prefix string, v interface{}) {
			if m, ok := v.(map[string]interface{}); ok {
				for k, vv := range m {
					flatten(prefix+"/"+k, vv)
				}
				return
			}
			cs.Put(strings.TrimPrefix(prefix, "/"), fmt.Sprint(v))
		}
		flatten("", root)
		csvc, err := local.NewService("consul://" + cs.Addr)
		if err != nil {
			c.Inconclusive("NewService(consul): " + err.Error())
			return
		}
		c.Count("resolution_sets_on_consul_backend", 1)
		runPatterns(csvc, "consul")
		// another client edits the store while this service lives on: entries appear and disappear; every
		// later query must be resolved against the store as it is now
		if idx%4 == 0 {
			flipPatterns(func(pcomp string, cd cand, add bool, text string) {
				key := "o2/components/" + pcomp + "/" + cd.rt + "/" + cd.role + "/" + entryPath
				if add {
					cs.Put(key, text)
				} else {
					cs.Delete(key)
				}
			})
			csvc.InvalidateComponentTemplateCache()
			c.Count("resolution_sets_after_store_change", 1)
			runPatterns(csvc, "consul, entries added and removed under a live service")
			restoreTpls()
		}
	}

	// concurrent lookups on ONE service (apricot serves its clients concurrently): every result must
	// be the one a lone caller gets. (Schedules are not part of the property's quantifier; this is an
	// extra workload, judged by the same reference.)
	if idx%4 == 1 {
		c.Count("resolution_sets_with_concurrent_callers", 1)
		var wg sync.WaitGroup
		var cmu sync.Mutex
		reported := false
		for g := 0; g < 6; g++ {
			wg.Add(1)
			go func(g int) {
				defer wg.Done()
				for round := 0; round < 3; round++ {
					for pattern := 0; pattern < 16; pattern++ {
						pcomp := fmt.Sprintf("%s-p%d", comp, pattern)
						qs := pcomp + "/" + rt + "/" + role + "/" + entryPath
						exists := func(crt, crole string) bool {
							_, ok := tpls[pcomp+"|"+crt+"|"+crole]
							return ok
						}
						ert, erole, eok := refResolve(exists, rt, role)
						q, err := componentcfg.NewQuery(qs)
						if err != nil {
							continue
						}
						res, err := svc.ResolveComponentQuery(q)
						c.Count("concurrent_resolutions", 1)
						bad := ""
						switch {
						case !eok && err == nil:
							bad = fmt.Sprintf("resolved to %v although no candidate exists", res)
						case eok && (err != nil || res == nil):
							bad = fmt.Sprintf("error %v although (%s,%s) exists", err, ert, erole)
						case eok && res.Raw() != pcomp+"/"+ert+"/"+erole+"/"+entryPath:
							bad = fmt.Sprintf("resolved %s, most specific existing is %s/%s", res.Raw(), ert, erole)
						}
						if bad != "" {
							cmu.Lock()
							if !reported {
								reported = true
								desc := c20Resolution{Comp: pcomp, RT: rt, Role: role, Entry: entryPath, Pattern: pattern, Query: qs, Backend: "file, 6 concurrent callers"}
								c.Violation("RESOLVE", "concurrent-callers/differs-from-lone-caller", fmt.Sprintf("pattern %04b query %s with 6 concurrent callers on one service: %s", pattern, qs, bad), c.Case(desc), desc)
							}
							cmu.Unlock()
						}
					}
				}
			}(g)
		}
		wg.Wait()
	}

	// the backend file is edited (entries appear and disappear) while the service lives on
	if idx%4 == 3 {
		delEntry := func(compMap map[string]interface{}, crt, crole string) {
			rtm, _ := compMap[crt].(map[string]interface{})
			rm, _ := rtm[crole].(map[string]interface{})
			if rm == nil {
				return
			}
			if nested {
				if sm, _ := rm[sub].(map[string]interface{}); sm != nil {
					delete(sm, entry)
					if len(sm) == 0 {
						delete(rm, sub)
					}
				}
			} else {
				delete(rm, entry)
			}
		}
		flipPatterns(func(pcomp string, cd cand, add bool, text string) {
			cm := comps[pcomp].(map[string]interface{})
			if add {
				putEntry(cm, cd.rt, cd.role, entry, text)
			} else {
				delEntry(cm, cd.rt, cd.role)
			}
		})
		b3, _ := json.Marshal(root)
		if werr := os.WriteFile(path, b3, 0o644); werr == nil {
			svc.InvalidateComponentTemplateCache()
			c.Count("resolution_sets_after_store_change", 1)
			runPatterns(svc, "file, entries added and removed under a live service")
		}
		restoreTpls()
	}
}

// patternClass collapses coinciding candidates so the witness class is canonical.
func patternClass(pattern int, rt, role string) int { return pattern }

type c20ParseCase struct {
	Input string
	Kind  string
}

func c20Parser(c *vlib.Ctx, lo, hi int) {
	idc := alLower + alUpper + alDigit + "-_"
	bad := " .@:#%+=,;\\\"'()[]{}<>?!*~|&^$é"
	blanks := []string{"", " ", "  ", "\t", "\n", " \t ", "\r\n"}
	for i := lo; i < hi; i++ {
		r := c.SubRand(int64(1_000_000 + i))
		comp := c20Name(r, idc, 1, 10)
		rt := c20RunTypes[r.Intn(len(c20RunTypes))]
		role := c20Name(r, idc, 1, 10)
		nseg := 1 + r.Intn(3)
		var segs []string
		for k := 0; k < nseg; k++ {
			segs = append(segs, c20Name(r, idc, 1, 6))
		}
		entry := strings.Join(segs, "/")
		in := comp + "/" + rt + "/" + role + "/" + entry
		kind := "wellformed"
		switch r.Intn(20) {
		case 0: // missing segment
			kind = "missing-segment"
			in = comp + "/" + rt + "/" + role
		case 1:
			kind = "empty-component"
			in = "/" + rt + "/" + role + "/" + entry
		case 2:
			kind = "empty-role"
			in = comp + "/" + rt + "//" + entry
		case 3:
			kind = "lowercase-runtype"
			in = comp + "/" + strings.ToLower(rt) + "/" + role + "/" + entry
		case 4:
			kind = "unknown-runtype"
			in = comp + "/" + c20Name(r, alUpper, 3, 9) + "X9/" + role + "/" + entry
		case 5:
			kind = "illegal-char"
			pos := r.Intn(len(in))
			br := []rune(bad)
			in = in[:pos] + string(br[r.Intn(len(br))]) + in[pos:]
		case 6:
			kind = "inner-blank"
			pos := 1 + r.Intn(len(in)-1)
			in = in[:pos] + " " + in[pos:]
		case 7:
			kind = "empty"
			in = ""
		case 8:
			kind = "two-segments"
			in = comp + "/" + rt
		case 9:
			kind = "trailing-garbage-line"
			in = in + "\n" + c20Name(r, idc, 1, 4) + "@"
		default:
		}
		pre, post := blanks[r.Intn(len(blanks))], blanks[r.Intn(len(blanks))]
		full := pre + in + post
		pc := c20ParseCase{Input: full, Kind: kind}
		c.CaseQuiet()
		if i%997 == 0 {
			c.Case(pc)
		}
		if i == lo || i == lo+5 {
			c.Sample(pc)
		}
		want, trimmed, ok := refParse(full)
		c.Nontrivial(vlib.Hash("parse", kind, ok, pre != "", post != "", nseg))
		c.Count("queries_parsed", 1)
		q, err := componentcfg.NewQuery(full)
		if ok {
			c.Count("queries_wellformed", 1)
			if err != nil {
				c.Violation("PARSE", "wellformed-rejected", fmt.Sprintf("NewQuery(%q) = %v, but the string is well-formed", full, err), 0, pc)
				continue
			}
			got := refQuery{q.Component, apricotpb.RunType_name[int32(q.RunType)], q.RoleName, q.EntryKey}
			if got != want {
				c.Violation("PARSE", "mis-split", fmt.Sprintf("NewQuery(%q) = %+v, spelled %+v", full, got, want), 0, pc)
				continue
			}
			if q.Raw() != trimmed {
				c.Violation("PARSE", "raw-roundtrip", fmt.Sprintf("NewQuery(%q).Raw() = %q, want %q", full, q.Raw(), trimmed), 0, pc)
			}
			if q.Path() != trimmed || q.AbsoluteRaw() != "o2/components/"+trimmed {
				c.Violation("PARSE", "path-roundtrip", fmt.Sprintf("NewQuery(%q).Path()=%q AbsoluteRaw()=%q", full, q.Path(), q.AbsoluteRaw()), 0, pc)
			}
		} else {
			c.Count("queries_malformed", 1)
			if err == nil {
				c.Violation("PARSE", "malformed-accepted/"+kind, fmt.Sprintf("NewQuery(%q) accepted a malformed query as %+v", full, *q), 0, pc)
			}
		}
	}
}
