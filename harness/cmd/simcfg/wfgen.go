package main

// A small workflow model (nested roles, task templates with every field the three
// checks need) and its YAML rendering. Written by hand from
// docs/handbook/configuration.md and walnut/schemata.

import (
	"fmt"
	"sort"
	"strings"
)

type kv struct {
	K string `json:"k"`
	V string `json:"v"`
}

// chanSpec is one bind or connect entry. Empty fields are not written.
type chanSpec struct {
	Name       string `json:"name"`
	Type       string `json:"type"`
	Transport  string `json:"transport,omitempty"`
	Addressing string `json:"addressing,omitempty"` // inbound only
	Global     string `json:"global,omitempty"`     // inbound only
	Target     string `json:"target,omitempty"`     // outbound: mandatory; inbound: explicit bind address
}

type tplSpec struct {
	Name        string     `json:"name"`
	Mode        string     `json:"mode"` // basic | direct | fairmq
	CPU         float64    `json:"cpu"`
	Mem         float64    `json:"mem"`
	Ports       string     `json:"ports,omitempty"`
	Defaults    []kv       `json:"defaults,omitempty"`
	Vars        []kv       `json:"vars,omitempty"`
	Properties  []kv       `json:"properties,omitempty"`
	Bind        []chanSpec `json:"bind,omitempty"`
	Connect     []chanSpec `json:"connect,omitempty"`
	Constraints []kv       `json:"constraints,omitempty"`
	Args        []string   `json:"args,omitempty"`
	Env         []string   `json:"env,omitempty"`
}

type roleSpec struct {
	Name        string      `json:"name"`
	Constraints []kv        `json:"constraints,omitempty"`
	Defaults    []kv        `json:"defaults,omitempty"`
	Vars        []kv        `json:"vars,omitempty"`
	Bind        []chanSpec  `json:"bind,omitempty"`
	Connect     []chanSpec  `json:"connect,omitempty"`
	Children    []*roleSpec `json:"roles,omitempty"`
	Task        *tplSpec    `json:"task,omitempty"`
	Critical    bool        `json:"critical,omitempty"`
	CallFunc    string      `json:"call_func,omitempty"` // call role: the expression to evaluate
	CallTrigger string      `json:"call_trigger,omitempty"`

	parent *roleSpec
	path   string
}

func yq(s string) string { return fmt.Sprintf("%q", s) }

func writeKVs(sb *strings.Builder, ind, key string, kvs []kv) {
	if len(kvs) == 0 {
		return
	}
	fmt.Fprintf(sb, "%s%s:\n", ind, key)
	for _, e := range kvs {
		fmt.Fprintf(sb, "%s  %s: %s\n", ind, e.K, yq(e.V))
	}
}

func writeConstraints(sb *strings.Builder, ind string, cs []kv) {
	if len(cs) == 0 {
		return
	}
	fmt.Fprintf(sb, "%sconstraints:\n", ind)
	for _, c := range cs {
		fmt.Fprintf(sb, "%s  - attribute: %s\n%s    value: %s\n", ind, c.K, ind, yq(c.V))
	}
}

// writeChans: inRole = the list belongs to a workflow role (its fields are template fields); a task template's own
// bind/connect entries are written as they are.
func writeChans(sb *strings.Builder, ind, key string, chs []chanSpec, inRole bool) {
	if len(chs) == 0 {
		return
	}
	fmt.Fprintf(sb, "%s%s:\n", ind, key)
	for _, ch := range chs {
		fmt.Fprintf(sb, "%s  - name: %s\n%s    type: %s\n", ind, ch.Name, ind, ch.Type)
		if ch.Transport != "" {
			fmt.Fprintf(sb, "%s    transport: %s\n", ind, ch.Transport)
		}
		if ch.Addressing != "" {
			fmt.Fprintf(sb, "%s    addressing: %s\n", ind, ch.Addressing)
		}
		if ch.Global != "" {
			g := ch.Global
			if inRole && len(g)%2 == 1 && !strings.Contains(g, "{{") && !strings.ContainsAny(g, "'\"\\") {
				// the same alias written as a template expression (a string literal): resolved when the role is processed
				g = "{{ '" + g + "' }}"
			}
			fmt.Fprintf(sb, "%s    global: %s\n", ind, yq(g))
		}
		if ch.Target != "" {
			t := ch.Target
			if inRole && len(t)%3 == 0 {
				// surrounding blanks are not part of a target (a YAML block scalar leaves a newline behind)
				t = "  " + t + " \n"
			}
			fmt.Fprintf(sb, "%s    target: %s\n", ind, yq(t))
		}
	}
}

func (t *tplSpec) yaml() string {
	var sb strings.Builder
	fmt.Fprintf(&sb, "name: %s\n", t.Name)
	writeKVs(&sb, "", "defaults", t.Defaults)
	writeKVs(&sb, "", "vars", t.Vars)
	mode := t.Mode
	if mode == "" {
		mode = "direct"
	}
	fmt.Fprintf(&sb, "control:\n  mode: %s\n", mode)
	cpu, mem := t.CPU, t.Mem
	if cpu == 0 {
		cpu = 0.1
	}
	if mem == 0 {
		mem = 32
	}
	fmt.Fprintf(&sb, "wants:\n  cpu: %g\n  memory: %g\n", cpu, mem)
	if t.Ports != "" {
		fmt.Fprintf(&sb, "  ports: %s\n", yq(t.Ports))
	}
	writeConstraints(&sb, "", t.Constraints)
	writeChans(&sb, "", "bind", t.Bind, false)
	writeChans(&sb, "", "connect", t.Connect, false)
	writeKVs(&sb, "", "properties", t.Properties)
	sb.WriteString("command:\n  shell: true\n  env:\n    - \"VERIF_ROLE={{ task_parent_role }}\"\n")
	for _, e := range t.Env {
		fmt.Fprintf(&sb, "    - %s\n", yq(e))
	}
	if len(t.Args) > 0 {
		sb.WriteString("  arguments:\n")
		for _, a := range t.Args {
			fmt.Fprintf(&sb, "    - %s\n", yq(a))
		}
	}
	sb.WriteString("  value: \"sleep 100000\"\n")
	return sb.String()
}

func (r *roleSpec) writeBody(sb *strings.Builder, ind string, files map[string]string) {
	writeConstraints(sb, ind, r.Constraints)
	writeKVs(sb, ind, "defaults", r.Defaults)
	writeKVs(sb, ind, "vars", r.Vars)
	writeChans(sb, ind, "bind", r.Bind, true)
	writeChans(sb, ind, "connect", r.Connect, true)
	if r.Task != nil {
		fmt.Fprintf(sb, "%stask:\n%s  load: %s\n%s  critical: %v\n", ind, ind, r.Task.Name, ind, r.Critical)
		files["tasks/"+r.Task.Name+".yaml"] = r.Task.yaml()
		return
	}
	if r.CallFunc != "" {
		fmt.Fprintf(sb, "%scall:\n%s  func: %s\n%s  trigger: %s\n%s  timeout: 20s\n%s  critical: false\n", ind, ind, yq(r.CallFunc), ind, r.CallTrigger, ind, ind)
		return
	}
	fmt.Fprintf(sb, "%sroles:\n", ind)
	for _, ch := range r.Children {
		fmt.Fprintf(sb, "%s  - name: %s\n", ind, yq(ch.Name))
		ch.writeBody(sb, ind+"    ", files)
	}
}

// link fills parent pointers and role paths.
func (r *roleSpec) link(parent *roleSpec) {
	r.parent = parent
	if parent == nil {
		r.path = r.Name
	} else {
		r.path = parent.path + "." + r.Name
	}
	for _, ch := range r.Children {
		ch.link(r)
	}
}

// files renders the workflow rooted at r (r.Name = workflow name) and its task templates.
func (r *roleSpec) files() map[string]string {
	r.link(nil)
	files := map[string]string{}
	var sb strings.Builder
	fmt.Fprintf(&sb, "name: %s\n", r.Name)
	r.writeBody(&sb, "", files)
	files["workflows/"+r.Name+".yaml"] = sb.String()
	return files
}

// taskRoles lists the task roles below r in document order.
func (r *roleSpec) taskRoles() []*roleSpec {
	if r.Task != nil {
		return []*roleSpec{r}
	}
	var out []*roleSpec
	for _, ch := range r.Children {
		out = append(out, ch.taskRoles()...)
	}
	return out
}

// callRoles lists the call roles below r in document order.
func (r *roleSpec) callRoles() []*roleSpec {
	if r.CallFunc != "" {
		return []*roleSpec{r}
	}
	var out []*roleSpec
	for _, ch := range r.Children {
		out = append(out, ch.callRoles()...)
	}
	return out
}

// chain returns r, its parent, ... up to the root.
func (r *roleSpec) chain() []*roleSpec {
	var out []*roleSpec
	for p := r; p != nil; p = p.parent {
		out = append(out, p)
	}
	return out
}

func kvGet(kvs []kv, k string) (string, bool) {
	for _, e := range kvs {
		if e.K == k {
			return e.V, true
		}
	}
	return "", false
}

// parsePorts: the documented grammar "N" | "N-M", comma separated.
func parsePorts(expr string) []uint64 {
	var out []uint64
	for _, it := range strings.Split(expr, ",") {
		it = strings.TrimSpace(it)
		if it == "" {
			continue
		}
		var a, b uint64
		if strings.Contains(it, "-") {
			fmt.Sscanf(it, "%d-%d", &a, &b)
		} else {
			fmt.Sscanf(it, "%d", &a)
			b = a
		}
		for p := a; p <= b && p != 0; p++ {
			out = append(out, p)
		}
	}
	sort.Slice(out, func(i, j int) bool { return out[i] < out[j] })
	return out
}
