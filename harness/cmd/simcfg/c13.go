package main

func runC13() {}
