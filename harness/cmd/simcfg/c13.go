package main

// C13 — outbound channels connect to where the matching inbound channel was bound.
// Oracle: cross-check between the CONFIGURE arguments each fake executor received,
// the host each task was launched on and the ports of its ACCEPT.

import (
	"fmt"
	"math/rand"
	"os"
	"regexp"
	"sort"
	"strings"
	"time"

	pb "github.com/AliceO2Group/Control/core/protos"

	"verif/harness/coresim"
	simmesos "verif/harness/sim/mesos"
	"verif/harness/vlib"
)

type c13Scenario struct {
	DanglingPos  string    `json:"dangling_position,omitempty"` // first | middle | last among the task's outbound channels (merged order)
	DanglingDecl string    `json:"dangling_declared,omitempty"` // role | template | split
	DanglingTask string    `json:"dangling_task,omitempty"`
	Index        int       `json:"index"`
	Flavour      string    `json:"flavour"`
	Hosts        int       `json:"hosts"`
	Root         *roleSpec `json:"workflow"`
	Fault        string    `json:"fault,omitempty"` // "" | unmatched-* | alias-conflict-*
	Notes        []string  `json:"notes,omitempty"`
}

var c13Flavours = []string{
	"override-inbound-fields", "alias", "unmatched-role", "override-inbound", "explicit", "alias-conflict", "parent-expr", "case-collision",
	"unmatched-channel", "override-outbound", "aggregator-level", "case-wrong-target", "unmatched-alias", "connect-redeclared",
	"alias-same-task", "template-connect-without-target", "inbound-explicit", "alias-conflict-twin-ports", "override-inbound", "unmatched-role",
}

var c13Types = []string{"push", "pull", "pub", "sub"}
var c13Transports = []string{"", "default", "zeromq", "nanomsg", "shmem"}

type c13In struct {
	task *roleSpec
	ch   chanSpec
}

// inboundOf / outboundOf: the channels a task role ends up with: declarations on the
// role chain (the nearest one per name) over the template's.
func inboundOf(tr *roleSpec) []chanSpec { return mergedInbound(tr) }

func outboundOf(tr *roleSpec) []chanSpec {
	seen := map[string]bool{}
	var out []chanSpec
	for _, p := range tr.chain() {
		for _, ch := range p.Connect {
			if !seen[ch.Name] {
				seen[ch.Name] = true
				out = append(out, ch)
			}
		}
	}
	for _, ch := range tr.Task.Connect {
		if !seen[ch.Name] {
			seen[ch.Name] = true
			ch.Target = "" // a template-level target is not a thing
			out = append(out, ch)
		}
	}
	return out
}

func transportOr(t string) string {
	if t == "" {
		return "default"
	}
	return t
}

func c13Gen(c *vlib.Ctx, idx int) c13Scenario {
	r := scRand(c, 1313, idx)
	fl := c13Flavours[idx%len(c13Flavours)]
	sc := c13Scenario{Index: idx, Flavour: fl, Hosts: 1 + r.Intn(3)}
	wf := fmt.Sprintf("c13w%d", idx)
	root := &roleSpec{Name: wf, Defaults: []kv{{"hosts", `["host1"]`}, {"deploy_timeout", "60s"}}}
	sc.Root = root
	if fl == "connect-redeclared" {
		return c13GenConnectRedeclared(sc, r)
	}
	if fl == "case-collision" {
		return c13GenCaseCollision(sc, r)
	}
	if fl == "alias-conflict-twin-ports" {
		// Two claimants of one alias on two DIFFERENT hosts, each with exactly one tcp inbound channel and the
		// same transport: both get their agent's first free port >= 9000, i.e. equal port numbers. The two
		// endpoints differ (by host) and must still be rejected.
		sc.Hosts = 2 + r.Intn(2)
		tr := c13Transports[r.Intn(5)]
		mk := func(name, host string) *roleSpec {
			return &roleSpec{Name: name, Critical: true, Constraints: []kv{{"machine_id", host}},
				Task: &tplSpec{Name: wf + "-" + name, Mode: pick(r, "fairmq", "direct")}}
		}
		a, b := mk("ta", "host1"), mk("tb", "host2")
		chA := chanSpec{Name: "ina", Type: c13Types[r.Intn(4)], Transport: tr, Addressing: pick(r, "", "tcp"), Global: "twinport"}
		chB := chanSpec{Name: pick(r, "ina", "inb"), Type: c13Types[r.Intn(4)], Transport: tr, Addressing: pick(r, "", "tcp"), Global: "twinport"}
		if r.Intn(2) == 0 {
			a.Bind = append(a.Bind, chA)
		} else {
			a.Task.Bind = append(a.Task.Bind, chA)
		}
		if r.Intn(2) == 0 {
			b.Bind = append(b.Bind, chB)
		} else {
			b.Task.Bind = append(b.Task.Bind, chB)
		}
		// the consumer: one of the claimants or a third task without inbound channels
		consumer := b
		root.Children = []*roleSpec{a, b}
		if r.Intn(2) == 0 {
			consumer = mk("tc", fmt.Sprintf("host%d", 1+r.Intn(sc.Hosts)))
			root.Children = append(root.Children, consumer)
		}
		if r.Intn(2) == 0 { // the claimants in the other document order
			root.Children[0], root.Children[1] = root.Children[1], root.Children[0]
		}
		consumer.Connect = append(consumer.Connect, chanSpec{Name: "out0", Type: c13Types[r.Intn(4)], Target: "::twinport"})
		sc.Fault = "alias-conflict-two-tasks/same-port-different-hosts"
		sc.Notes = append(sc.Notes, "alias ::twinport is claimed by ta on host1 and tb on host2; each has a single tcp inbound channel, so both are allocated the same port number")
		root.link(nil)
		return sc
	}
	nTasks := 2 + r.Intn(5)
	groups := map[int]*roleSpec{}
	var tasks []*roleSpec
	for t := 0; t < nTasks; t++ {
		h := r.Intn(sc.Hosts)
		host := fmt.Sprintf("host%d", h+1)
		parent := root
		if g, ok := groups[h]; ok && r.Intn(4) != 0 {
			parent = g
		} else if !ok && r.Intn(3) != 0 {
			g := &roleSpec{Name: fmt.Sprintf("g%d", h+1)}
			if r.Intn(4) == 0 {
				root.Children = append(root.Children, &roleSpec{Name: fmt.Sprintf("m%d", h+1), Children: []*roleSpec{g}})
			} else {
				root.Children = append(root.Children, g)
			}
			groups[h] = g
			parent = g
		}
		tpl := &tplSpec{Name: fmt.Sprintf("%s-t%d", wf, t), Mode: pick(r, "fairmq", "direct")}
		role := &roleSpec{Name: fmt.Sprintf("t%d", t), Task: tpl, Critical: true, Constraints: []kv{{"machine_id", host}}}
		parent.Children = append(parent.Children, role)
		tasks = append(tasks, role)
	}
	root.link(nil)
	newIn := func(name string) chanSpec {
		ch := chanSpec{Name: name, Type: c13Types[r.Intn(4)], Transport: c13Transports[r.Intn(5)]}
		switch r.Intn(4) {
		case 0:
			ch.Addressing = "ipc"
		case 1:
			ch.Addressing = "tcp"
		}
		if fl == "ipc" && r.Intn(3) != 0 {
			ch.Addressing = "ipc"
		}
		return ch
	}
	// inbound channels
	chanSeq := 0
	for _, tr := range tasks {
		n := r.Intn(3)
		if tr == tasks[0] && n == 0 {
			n = 1
		}
		for b := 0; b < n; b++ {
			ch := newIn(fmt.Sprintf("in%d", chanSeq))
			chanSeq++
			if r.Intn(2) == 0 {
				tr.Task.Bind = append(tr.Task.Bind, ch)
			} else {
				tr.Bind = append(tr.Bind, ch)
			}
		}
	}
	if fl == "aggregator-level" || r.Intn(6) == 0 {
		// declared once on an aggregator, bound by every task below it
		if g := firstGroup(groups); g != nil {
			g.Bind = append(g.Bind, newIn("gin"))
			sc.Notes = append(sc.Notes, "bind 'gin' declared on aggregator "+g.Name)
		}
	}
	if fl == "override-inbound" {
		// same name at template and role level with every judged field different; and, if the role has an
		// aggregator above it, a third farther declaration
		tr := tasks[r.Intn(len(tasks))]
		tr.Task.Bind = append(tr.Task.Bind, chanSpec{Name: "ovr", Type: "pull", Transport: "zeromq", Addressing: "tcp"})
		tr.Bind = append(tr.Bind, chanSpec{Name: "ovr", Type: "pub", Transport: "shmem", Addressing: "ipc"})
		if tr.parent != root && r.Intn(2) == 0 {
			tr.parent.Bind = append(tr.parent.Bind, chanSpec{Name: "ovr", Type: "sub", Transport: "nanomsg", Addressing: "tcp"})
		}
		sc.Notes = append(sc.Notes, "inbound 'ovr' of "+tr.path+" is declared at template and role level")
	}
	var ovfTask *roleSpec
	if fl == "override-inbound-fields" {
		// The farther declaration of an inbound channel (template, or an aggregator) carries a static bind
		// address or a global alias; the nearer one (the task role) declares the same NAME again and leaves
		// that field empty. The nearer declaration is the effective one: the channel binds the endpoint
		// allocated at launch and carries no alias.
		tr := tasks[r.Intn(len(tasks))]
		ovfTask = tr
		low := chanSpec{Name: "ovf", Type: "pull", Transport: "zeromq", Addressing: "tcp"}
		if (idx/len(c13Flavours))%2 == 0 {
			low.Target = pick(r, "tcp://*:47100", "tcp://*:9777", "ipc://@c13-static")
		} else {
			low.Global = "ghost"
		}
		high := chanSpec{Name: "ovf", Type: "push", Transport: "shmem", Addressing: pick(r, "tcp", "")}
		where := "its template"
		if tr.parent != root && len(tr.parent.taskRoles()) == 1 && r.Intn(3) != 0 {
			// (only an aggregator with no other task below it: a sibling would inherit the declaration as its own)
			tr.parent.Bind = append(tr.parent.Bind, low)
			where = "aggregator " + tr.parent.Name
		} else {
			tr.Task.Bind = append(tr.Task.Bind, low)
		}
		tr.Bind = append(tr.Bind, high)
		sc.Notes = append(sc.Notes, fmt.Sprintf("inbound 'ovf' of %s: %s declares it with target=%q global=%q, the task role declares it again without either", tr.path, where, low.Target, low.Global))
	}
	if fl == "inbound-explicit" {
		tr := tasks[r.Intn(len(tasks))]
		addr := pick(r, "tcp://*:47000", "ipc://@c13-explicit", "tcp://*:9555")
		tr.Bind = append(tr.Bind, chanSpec{Name: "fixed", Type: "push", Transport: "zeromq", Target: addr})
		sc.Notes = append(sc.Notes, "inbound 'fixed' of "+tr.path+" has the explicit bind address "+addr)
	}
	// aliases
	allIn := func() []c13In {
		var out []c13In
		for _, tr := range tasks {
			for _, ch := range inboundOf(tr) {
				out = append(out, c13In{tr, ch})
			}
		}
		return out
	}
	setGlobal := func(tr *roleSpec, name, alias string) {
		for _, p := range tr.chain() {
			for i := range p.Bind {
				if p.Bind[i].Name == name {
					p.Bind[i].Global = alias
					return
				}
			}
		}
		for i := range tr.Task.Bind {
			if tr.Task.Bind[i].Name == name {
				tr.Task.Bind[i].Global = alias
			}
		}
	}
	ins := allIn()
	aliasN := 0
	for _, in := range ins {
		if in.ch.Name == "gin" || in.ch.Name == "ovr" || in.ch.Name == "ovf" {
			continue // an alias on a channel bound by several tasks would be a conflict by construction
		}
		if r.Intn(3) == 0 || ((fl == "alias" || fl == "alias-conflict" || fl == "unmatched-alias") && aliasN < 2) {
			aliasN++
			setGlobal(in.task, in.ch.Name, fmt.Sprintf("al%d", aliasN))
		}
	}
	ins = allIn()
	// outbound channels aimed at existing inbound ones
	target := func(from *roleSpec, in c13In) string {
		if in.ch.Global != "" && (r.Intn(2) == 0 || fl == "alias") {
			return "::" + in.ch.Global
		}
		lit := in.task.path + ":" + in.ch.Name
		if fl == "parent-expr" || r.Intn(3) == 0 {
			// {{ Up(k).Path }} of the lowest common ancestor
			fc := from.chain()
			for k := 1; k < len(fc); k++ {
				anc := fc[k]
				if strings.HasPrefix(in.task.path, anc.path+".") {
					rest := strings.TrimPrefix(in.task.path, anc.path)
					if k == 1 {
						return "{{ Parent().Path }}" + rest + ":" + in.ch.Name
					}
					return fmt.Sprintf("{{ Up(%d).Path }}%s:%s", k, rest, in.ch.Name)
				}
			}
		}
		return lit
	}
	outSeq := 0
	for _, tr := range tasks {
		n := r.Intn(3)
		if tr == tasks[len(tasks)-1] && n == 0 {
			n = 1
		}
		for o := 0; o < n && len(ins) > 0; o++ {
			in := ins[r.Intn(len(ins))]
			ch := chanSpec{Name: fmt.Sprintf("out%d", outSeq), Type: c13Types[r.Intn(4)], Transport: c13Transports[r.Intn(5)]}
			outSeq++
			if in.ch.Target != "" && fl != "inbound-explicit" {
				continue
			}
			ch.Target = target(tr, in)
			if (fl == "explicit" || r.Intn(6) == 0) && o == 0 {
				ch.Target = pick(r, "tcp://somehost.example:5555", "ipc:///tmp/c13-pipe", "ipc://@abstract-name", "tcp://10.0.0.7:9000")
			}
			tr.Connect = append(tr.Connect, ch)
		}
	}
	last := tasks[len(tasks)-1]
	switch fl {
	case "inbound-explicit":
		// somebody connects to the channel with the explicit bind address by its role path
		for _, in := range ins {
			if in.ch.Name == "fixed" {
				last.Connect = append(last.Connect, chanSpec{Name: "tofixed", Type: "pull", Target: in.task.path + ":fixed"})
			}
		}
	case "override-outbound":
		in := ins[r.Intn(len(ins))]
		last.Task.Connect = append(last.Task.Connect, chanSpec{Name: "ovo", Type: "pull", Transport: "zeromq"})
		last.Connect = append(last.Connect, chanSpec{Name: "ovo", Type: "sub", Transport: "nanomsg", Target: in.task.path + ":" + in.ch.Name})
		sc.Notes = append(sc.Notes, "outbound 'ovo' of "+last.path+" is declared at template level (no target) and at role level")
	case "aggregator-level":
		if g := firstGroup(groups); g != nil {
			in := ins[r.Intn(len(ins))]
			g.Connect = append(g.Connect, chanSpec{Name: "gout", Type: "sub", Target: in.task.path + ":" + in.ch.Name})
		}
	case "unmatched-role", "unmatched-channel", "unmatched-alias", "template-connect-without-target":
		kind := map[string]string{"unmatched-role": "role", "unmatched-channel": "channel", "unmatched-alias": "alias", "template-connect-without-target": "empty-target"}[fl]
		placeDangling(&sc, r, last, ins, kind)
	case "override-inbound-fields":
		if (idx/len(c13Flavours))%2 == 0 {
			// somebody connects to the channel by its role path: it must be sent to the allocated endpoint
			last.Connect = append(last.Connect, chanSpec{Name: "toovf", Type: "pull", Target: ovfTask.path + ":ovf"})
		} else {
			// the alias only exists on the overridden declaration: nothing carries it, the target dangles
			last.Connect = append(last.Connect, chanSpec{Name: "lost", Type: "pull", Target: "::ghost"})
			sc.Fault = "unmatched-overridden-alias"
			sc.DanglingPos, sc.DanglingDecl, sc.DanglingTask = "last", "role", last.path
		}
	case "case-wrong-target":
		// an existing role / channel / alias, spelled with the wrong case: matches nothing
		placeDangling(&sc, r, last, ins, []string{"case-channel", "case-role", "case-alias"}[(idx/len(c13Flavours))%3])
	case "alias-conflict":
		// a second task claims an alias that is already taken
		var first *c13In
		for i := range ins {
			if ins[i].ch.Global != "" {
				first = &ins[i]
				break
			}
		}
		if first != nil {
			for _, tr := range tasks {
				if tr != first.task {
					ch := newIn("dup")
					ch.Global = first.ch.Global
					tr.Bind = append(tr.Bind, ch)
					sc.Fault = "alias-conflict-two-tasks"
					break
				}
			}
			if sc.Fault == "" { // a single task: fall back to two channels of the same task
				ch := newIn("dup")
				ch.Global = first.ch.Global
				first.task.Bind = append(first.task.Bind, ch)
				sc.Fault = "alias-conflict-same-task"
			}
		}
	case "alias-same-task":
		tr := tasks[r.Intn(len(tasks))]
		a, b := newIn("twinA"), newIn("twinB")
		a.Global, b.Global = "twin", "twin"
		tr.Bind = append(tr.Bind, a)
		tr.Task.Bind = append(tr.Task.Bind, b)
		sc.Fault = "alias-conflict-same-task"
	}
	root.link(nil)
	return sc
}

func runC13() {
	c := vlib.Start("C13")
	defer c.Finish()
	n := 40
	if c.Tier == "thorough" {
		n = 400
	}
	lo, hi := only(c.Slice(n))
	parallel(lo, hi, 3, func(i int) { c13Run(c, i) })
}

type c13TaskObs struct {
	Role      string            `json:"role"`
	Host      string            `json:"host"`
	Mode      string            `json:"mode"`
	Ports     []uint64          `json:"ports"`
	Control   uint64            `json:"control_port"`
	Configure map[string]string `json:"configure_chans,omitempty"`
}

type c13Obs struct {
	Scenario c13Scenario  `json:"scenario"`
	Steps    []string     `json:"steps"`
	Tasks    []c13TaskObs `json:"tasks"`
}

var tcpBoundRe = regexp.MustCompile(`^tcp://\*:(\d+)$`)
var tcpAddrRe = regexp.MustCompile(`^tcp://([^:]+):(\d+)$`)

func c13Run(c *vlib.Ctx, idx int) {
	sc := c13Gen(c, idx)
	id := c.Case(map[string]interface{}{"index": idx, "flavour": sc.Flavour, "fault": sc.Fault, "hosts": sc.Hosts, "workflow": sc.Root})
	if idx%11 == 0 {
		c.Sample(map[string]interface{}{"index": idx, "flavour": sc.Flavour, "fault": sc.Fault, "workflow": sc.Root})
	}
	obs := &c13Obs{Scenario: sc}
	var agents []*simmesos.Agent
	dets := map[string][]string{}
	detNames := []string{"TST", "ITS", "TPC"}
	for j := 1; j <= sc.Hosts; j++ {
		h := fmt.Sprintf("host%d", j)
		agents = append(agents, &simmesos.Agent{ID: "agent-" + h, Hostname: h, Attributes: map[string]string{"machine_id": h}, CPU: 16, Mem: 16384, Ports: [][2]uint64{{9000, 9200}, {30000, 30200}}})
		dets[detNames[j-1]] = []string{h}
	}
	s, err := coresim.Start(coresim.Options{Agents: agents, Detectors: dets, Files: sc.Root.files()})
	if err != nil {
		c.Inconclusive("coresim start: " + truncate(err.Error(), 4000))
		return
	}
	s.Master.OnLaunch = func(t *simmesos.LaunchedTask) simmesos.LaunchPlan {
		return simmesos.LaunchPlan{Kind: "running", Delay: 30 * time.Millisecond}
	}
	s.Master.OfferDelay = offerDelay()
	defer func() {
		if debugOn() {
			fmt.Println(sc.Root.files()["workflows/"+sc.Root.Name+".yaml"])
			fmt.Println(strings.Join(obs.Steps, "\n"))
			fmt.Println(jsonS(obs.Tasks))
		}
		finishSim(c, s, id, obs)
		s.Close()
	}()
	ctx, cancel := coresim.Ctx(150 * time.Second)
	t0 := time.Now()
	_, cerr := s.Client.NewEnvironment(ctx, &pb.NewEnvironmentRequest{WorkflowTemplate: sc.Root.Name, Vars: map[string]string{}})
	cancel()
	msg := grpcMsg(cerr)
	obs.Steps = append(obs.Steps, fmt.Sprintf("NewEnvironment err=%q in %s", truncate(msg, 500), time.Since(t0).Round(time.Millisecond)))
	if d := time.Since(t0); d > 30*time.Second {
		fmt.Fprintf(os.Stderr, "C13 scenario %d (%s) slow: %s\n", idx, sc.Flavour, strings.Join(obs.Steps, " | "))
	}
	c.Count("environments_driven", 1)
	viol := func(rule, class, detail string) {
		c.Violation(rule, class, fmt.Sprintf("%s [scenario %d, %s]", detail, idx, sc.Flavour), id, obs)
	}
	byPath := map[string]*simmesos.LaunchedTask{}
	cfgOf := map[string]map[string]string{}
	mtasks := s.Master.Tasks()
	for i := range mtasks {
		t := &mtasks[i]
		byPath[t.RolePath] = t
		to := c13TaskObs{Role: t.RolePath, Host: t.Hostname, Mode: t.Mode, Ports: t.Ports, Control: t.ControlPort}
		for _, cmd := range t.Commands {
			if cmd.Event == "CONFIGURE" {
				cfgOf[t.RolePath] = cmd.Arguments
				to.Configure = map[string]string{}
				for k, v := range cmd.Arguments {
					if strings.HasPrefix(k, "chans.") && (strings.HasSuffix(k, ".address") || strings.HasSuffix(k, ".method") || strings.HasSuffix(k, ".transport") || strings.HasSuffix(k, ".type") || strings.HasSuffix(k, ".numSockets")) {
						to.Configure[k] = v
					}
				}
			}
		}
		obs.Tasks = append(obs.Tasks, to)
	}
	fp := []string{sc.Flavour, sc.Fault, fmt.Sprint(sc.Hosts), fmt.Sprint(len(sc.Root.taskRoles()))}
	defer func() { c.Nontrivial(vlib.Hash("c13", strings.Join(fp, "|"))) }()

	if sc.Fault != "" {
		c.Count("faulty_workflows", 1)
		c.Count("faulty_"+strings.SplitN(sc.Fault, "-", 2)[0], 1)
		if sc.DanglingPos != "" {
			c.Count("unmatched_dangling_"+sc.DanglingPos, 1)
			c.Count("unmatched_declared_"+sc.DanglingDecl, 1)
			if sc.DanglingPos != "last" {
				c.Count("unmatched_followed_by_resolvable", 1)
			}
		}
		if strings.HasSuffix(sc.Fault, "same-port-different-hosts") {
			// was the intended coincidence really produced? (ports of the ACCEPT minus the control port)
			ta, tb := byPath[sc.Root.Name+".ta"], byPath[sc.Root.Name+".tb"]
			dyn := func(t *simmesos.LaunchedTask) []uint64 {
				var out []uint64
				if t != nil {
					for _, p := range t.Ports {
						if p != t.ControlPort {
							out = append(out, p)
						}
					}
				}
				return out
			}
			da, db := dyn(ta), dyn(tb)
			if ta != nil && tb != nil && ta.Hostname != tb.Hostname && len(da) == 1 && len(db) == 1 && da[0] == db[0] {
				c.Count("alias_conflicts_same_port_different_hosts", 1)
			} else {
				c.Count("alias_conflicts_twin_ports_not_produced", 1)
			}
		}
		if cerr == nil {
			switch {
			case strings.HasPrefix(sc.Fault, "unmatched"):
				followed := "dangling-last"
				if sc.DanglingPos != "last" {
					followed = "dangling-followed-by-resolvable"
				}
				missing := "the task was not configured"
				if args := cfgOf[sc.DanglingTask]; args != nil {
					if a, ok := args["chans.lost.0.address"]; ok {
						missing = "the dangling channel was given the address " + a
					} else {
						missing = "the task's CONFIGURE arguments silently lack chans.lost.*"
					}
				}
				viol("TARGET", "unmatched-accepted/"+strings.TrimPrefix(sc.Fault, "unmatched-")+"/"+followed, fmt.Sprintf("the environment was configured although outbound channel 'lost' of %s names a target that matches no inbound channel (%s; it is the %s of the task's outbound channels, declared: %s); %s", sc.DanglingTask, sc.Fault, sc.DanglingPos, sc.DanglingDecl, missing))
			default:
				viol("ALIAS", "conflict-accepted/"+strings.TrimPrefix(sc.Fault, "alias-conflict-"), "the environment was configured although two different inbound channels claim the same global alias ("+sc.Fault+")")
			}
		} else {
			if strings.Contains(msg, "DeadlineExceeded") {
				c.Inconclusive(fmt.Sprintf("scenario %d: NewEnvironment did not return in time", idx))
				return
			}
			c.Count("faulty_workflows_rejected", 1)
			if len(cfgOf) > 0 {
				// rejected, but some task was configured all the same (the configuration must fail as a whole: not judged beyond the statement)
				c.Count("faulty_workflows_rejected_after_some_configure", 1)
			}
		}
		return
	}
	if cerr != nil {
		if strings.Contains(msg, "channel") || strings.Contains(msg, "alias") || strings.Contains(msg, "target") {
			viol("CONFIGURE-REFUSED", "well-formed-channels", "a workflow whose every target matches exactly one inbound channel and whose aliases are unique was refused: "+truncate(msg, 400))
		} else {
			c.Inconclusive(fmt.Sprintf("scenario %d: fault-free creation failed for a reason unrelated to channels: %s", idx, truncate(msg, 300)))
		}
		return
	}
	c.Count("environments_configured", 1)

	// ---- per task: inbound channels ----
	type bound struct {
		addr, transport string
		task            *simmesos.LaunchedTask
		spec            chanSpec
	}
	boundBy := map[string]bound{}    // "<role path>:<chan>" -> what that task was told to bind
	aliasBy := map[string][]string{} // alias -> keys
	get := func(args map[string]string, ch, f string) string { return args["chans."+ch+".0."+f] }
	for _, tr := range sc.Root.taskRoles() {
		mt := byPath[tr.path]
		args := cfgOf[tr.path]
		if mt == nil || args == nil {
			c.Inconclusive(fmt.Sprintf("scenario %d: task %s was not launched/configured although the environment was created", idx, tr.path))
			return
		}
		portSet := map[uint64]bool{}
		for _, p := range mt.Ports {
			portSet[p] = true
		}
		usedPorts := map[uint64]string{}
		for _, ch := range inboundOf(tr) {
			c.Count("inbound_channels_checked", 1)
			if lv, fromAgg := declLevels(tr, ch.Name, true); lv > 1 {
				c.Count("inbound_declared_at_2plus_levels", 1)
			} else if fromAgg {
				c.Count("inbound_inherited_from_aggregator", 1)
			}
			key := tr.path + ":" + ch.Name
			addr := get(args, ch.Name, "address")
			if get(args, ch.Name, "method") != "bind" || args["chans."+ch.Name+".numSockets"] != "1" {
				viol("INBOUND", "not-told-to-bind", fmt.Sprintf("task %s: inbound channel %s: method=%q numSockets=%q address=%q", tr.path, ch.Name, get(args, ch.Name, "method"), args["chans."+ch.Name+".numSockets"], addr))
				continue
			}
			if got := get(args, ch.Name, "type"); got != ch.Type {
				viol("INBOUND", "declaration-not-honoured/type", fmt.Sprintf("task %s: inbound channel %s has type %q, the nearest declaration says %q", tr.path, ch.Name, got, ch.Type))
			}
			if got := get(args, ch.Name, "transport"); got != transportOr(ch.Transport) {
				viol("INBOUND", "declaration-not-honoured/transport", fmt.Sprintf("task %s: inbound channel %s has transport %q, the nearest declaration says %q", tr.path, ch.Name, got, transportOr(ch.Transport)))
			}
			if far := fartherStaticAddress(tr, ch.Name); ch.Target == "" && far != "" {
				c.Count("inbound_overriding_a_static_address", 1)
				if addr == far {
					viol("INBOUND", "overridden-static-address-inherited", fmt.Sprintf("task %s: inbound channel %s is told to bind %q, the static address of a farther declaration that the nearest declaration (which has none) overrides; its ACCEPT reserved ports %v", tr.path, ch.Name, addr, mt.Ports))
					boundBy[key] = bound{addr, get(args, ch.Name, "transport"), mt, ch}
					continue
				}
			}
			switch {
			case ch.Target != "":
				c.Count("inbound_explicit_addresses", 1)
				if addr != ch.Target {
					viol("EXPLICIT", "inbound-address-altered", fmt.Sprintf("task %s: inbound channel %s declares the bind address %q and was told %q", tr.path, ch.Name, ch.Target, addr))
				}
			case ch.Addressing == "ipc":
				c.Count("inbound_ipc", 1)
				if !strings.HasPrefix(addr, "ipc://") || len(addr) <= len("ipc://") {
					viol("INBOUND", "declaration-not-honoured/addressing", fmt.Sprintf("task %s: inbound channel %s is declared with ipc addressing and was told to bind %q", tr.path, ch.Name, addr))
				}
			default:
				c.Count("inbound_tcp", 1)
				m := tcpBoundRe.FindStringSubmatch(addr)
				if m == nil {
					viol("INBOUND", "declaration-not-honoured/addressing", fmt.Sprintf("task %s: inbound channel %s is declared with tcp addressing and was told to bind %q", tr.path, ch.Name, addr))
					break
				}
				var port uint64
				fmt.Sscan(m[1], &port)
				if !portSet[port] {
					viol("INBOUND", "port-not-allocated-at-launch", fmt.Sprintf("task %s: inbound channel %s is told to bind port %d, which is not among the ports of its ACCEPT %v", tr.path, ch.Name, port, mt.Ports))
				}
				if port == mt.ControlPort {
					viol("INBOUND", "port-is-control-port", fmt.Sprintf("task %s: inbound channel %s is told to bind the task's control port %d", tr.path, ch.Name, port))
				}
				if prev, dup := usedPorts[port]; dup {
					viol("INBOUND", "port-shared-by-two-channels", fmt.Sprintf("task %s: inbound channels %s and %s are told to bind the same port %d", tr.path, prev, ch.Name, port))
				}
				usedPorts[port] = ch.Name
			}
			boundBy[key] = bound{addr, get(args, ch.Name, "transport"), mt, ch}
			if ch.Global != "" {
				aliasBy[ch.Global] = append(aliasBy[ch.Global], key)
			}
		}
	}
	var boundKeys, aliasKeys []string
	for k := range boundBy {
		boundKeys = append(boundKeys, k)
	}
	for a := range aliasBy {
		aliasKeys = append(aliasKeys, "::"+a)
	}
	// ---- per task: outbound channels ----
	for _, tr := range sc.Root.taskRoles() {
		args := cfgOf[tr.path]
		for _, ch := range outboundOf(tr) {
			c.Count("outbound_channels_checked", 1)
			if lv, fromAgg := declLevels(tr, ch.Name, false); lv > 1 {
				c.Count("outbound_declared_at_2plus_levels", 1)
			} else if fromAgg {
				c.Count("outbound_inherited_from_aggregator", 1)
			}
			addr := get(args, ch.Name, "address")
			if get(args, ch.Name, "method") != "connect" {
				viol("OUTBOUND", "not-told-to-connect", fmt.Sprintf("task %s: outbound channel %s (target %q): method=%q address=%q", tr.path, ch.Name, ch.Target, get(args, ch.Name, "method"), addr))
				continue
			}
			if got := get(args, ch.Name, "type"); got != ch.Type {
				viol("OUTBOUND", "declaration-not-honoured/type", fmt.Sprintf("task %s: outbound channel %s has type %q, the nearest declaration says %q", tr.path, ch.Name, got, ch.Type))
			}
			if strings.HasPrefix(ch.Target, "tcp://") || strings.HasPrefix(ch.Target, "ipc://") {
				c.Count("outbound_explicit_addresses", 1)
				if addr != ch.Target {
					viol("EXPLICIT", "outbound-address-altered", fmt.Sprintf("task %s: outbound channel %s has the explicit target %q and was given %q", tr.path, ch.Name, ch.Target, addr))
				}
				continue
			}
			// resolve the target text the way the handbook describes it
			tgt := ch.Target
			declaredAt := tr
			for _, p := range tr.chain() {
				if _, ok := kvGetChan(p.Connect, ch.Name); ok {
					declaredAt = p
					break
				}
			}
			tgt = resolveTargetExpr(tgt, declaredAt)
			var key string
			kind := "path"
			if strings.HasPrefix(tgt, "::") {
				kind = "alias"
				ks := aliasBy[strings.TrimPrefix(tgt, "::")]
				if len(ks) != 1 {
					c.Inconclusive(fmt.Sprintf("scenario %d: generator error: alias %s has %d owners", idx, tgt, len(ks)))
					continue
				}
				key = ks[0]
				c.Count("outbound_by_alias", 1)
			} else {
				key = tgt
				if tgt != ch.Target {
					c.Count("outbound_by_path_expression", 1)
				} else {
					c.Count("outbound_by_literal_path", 1)
				}
			}
			b, ok := boundBy[key]
			if !ok {
				c.Inconclusive(fmt.Sprintf("scenario %d: generator error: target %q of %s:%s resolves to no inbound channel", idx, tgt, tr.path, ch.Name))
				continue
			}
			if redeclaredWithOtherTarget(tr, ch.Name) {
				c.Count("outbound_redeclared_with_other_target", 1)
			}
			if hasCaseTwin(key, boundKeys) || (kind == "alias" && hasCaseTwin(tgt, aliasKeys)) {
				c.Count("outbound_targets_with_case_twin", 1)
			}
			cls := kind
			if b.spec.Target != "" {
				cls = kind + "+inbound-has-explicit-address"
			}
			if b.task.Hostname != byPath[tr.path].Hostname {
				c.Count("outbound_to_other_host", 1)
			}
			want := b.addr
			if m := tcpBoundRe.FindStringSubmatch(b.addr); m != nil {
				want = "tcp://" + b.task.Hostname + ":" + m[1]
			}
			if addr != want {
				what := "address"
				if gm := tcpAddrRe.FindStringSubmatch(addr); gm != nil {
					if wm := tcpAddrRe.FindStringSubmatch(want); wm != nil {
						switch {
						case gm[1] != wm[1] && gm[2] == wm[2]:
							what = "host"
						case gm[1] == wm[1] && gm[2] != wm[2]:
							what = "port"
						}
					}
				}
				class := fmt.Sprintf("address-differs-from-bound/%s/%s", cls, what)
				switch {
				case b.spec.Target != "":
					class = "address-differs-from-bound/inbound-has-explicit-address"
				case redeclaredWithOtherTarget(tr, ch.Name):
					class = "address-differs-from-bound/connect-redeclared-nearer"
				case hasCaseTwin(key, boundKeys) || (kind == "alias" && hasCaseTwin(tgt, aliasKeys)):
					class = "address-differs-from-bound/target-has-case-twin"
				}
				viol("OUTBOUND", class, fmt.Sprintf("task %s: outbound channel %s (target %q) was given %q; the inbound channel %s was told to bind %q on host %s, i.e. %q", tr.path, ch.Name, ch.Target, addr, key, b.addr, b.task.Hostname, want))
			}
			if got := get(args, ch.Name, "transport"); got != b.transport {
				viol("OUTBOUND", "transport-differs-from-inbound/"+cls, fmt.Sprintf("task %s: outbound channel %s (target %q) was given transport %q; the inbound side %s uses %q", tr.path, ch.Name, ch.Target, got, key, b.transport))
			} else if transportOr(ch.Transport) != b.transport {
				c.Count("outbound_transport_replaced_by_inbound_side", 1)
			}
		}
	}
}

func kvGetChan(chs []chanSpec, name string) (chanSpec, bool) {
	for _, ch := range chs {
		if ch.Name == name {
			return ch, true
		}
	}
	return chanSpec{}, false
}

var upRe = regexp.MustCompile(`\{\{ (Parent\(\)|Up\((\d+)\))\.Path \}\}`)

// resolveTargetExpr evaluates {{ Parent().Path }} / {{ Up(n).Path }} relative to the
// role that declares the channel.
func resolveTargetExpr(t string, at *roleSpec) string {
	return upRe.ReplaceAllStringFunc(t, func(m string) string {
		sm := upRe.FindStringSubmatch(m)
		k := 1
		if sm[2] != "" {
			fmt.Sscan(sm[2], &k)
		}
		ch := at.chain()
		if k < len(ch) {
			return ch[k].path
		}
		return "<no-such-ancestor>"
	})
}

func firstGroup(groups map[int]*roleSpec) *roleSpec {
	ks := []int{}
	for k := range groups {
		ks = append(ks, k)
	}
	sort.Ints(ks)
	if len(ks) == 0 {
		return nil
	}
	return groups[ks[0]]
}

// declLevels counts at how many levels (template, task role, ancestors) a channel name is
// declared for a task, and whether its nearest declaration sits on an aggregator.
func declLevels(tr *roleSpec, name string, inbound bool) (levels int, nearestOnAggregator bool) {
	nearest := -1
	for i, p := range tr.chain() {
		chs := p.Connect
		if inbound {
			chs = p.Bind
		}
		if _, ok := kvGetChan(chs, name); ok {
			levels++
			if nearest < 0 {
				nearest = i
			}
		}
	}
	chs := tr.Task.Connect
	if inbound {
		chs = tr.Task.Bind
	}
	if _, ok := kvGetChan(chs, name); ok {
		levels++
	}
	return levels, nearest > 0
}

// placeDangling rebuilds the outbound channels of task role tr: 2-4 channels of which exactly one
// ('lost') names a target that matches nothing, at the first, a middle or the last position of the
// order in which the core merges them (the role's own connect list, then its ancestors', then the
// template's), the others resolvable (role path, alias, explicit address). Declared at role level
// only, in the task template as well (type there, target on the role), or split over the role and
// its parent. Position and declaration style cycle with the scenario index.
func placeDangling(sc *c13Scenario, r *rand.Rand, tr *roleSpec, ins []c13In, kind string) {
	slot := sc.Index % len(c13Flavours)
	cycle := sc.Index / len(c13Flavours)
	pos := []string{"first", "middle", "last"}[(slot+cycle)%3]
	decl := []string{"role", "template", "split"}[(slot+2*cycle)%3]
	n := 2 + r.Intn(3)
	if pos == "middle" && n < 3 {
		n = 3
	}
	p := 0
	switch pos {
	case "middle":
		p = 1 + r.Intn(n-2)
	case "last":
		p = n - 1
	}
	wf := sc.Root.Name
	dangling := chanSpec{Name: "lost", Type: c13Types[r.Intn(4)], Transport: c13Transports[r.Intn(5)]}
	switch kind {
	case "role":
		dangling.Target = wf + ".nosuchrole:" + ins[0].ch.Name
	case "channel":
		dangling.Target = ins[0].task.path + ":nosuchchannel"
	case "alias":
		dangling.Target = "::nosuchalias"
	case "empty-target":
		dangling.Target = ""
	case "case-channel":
		dangling.Target = ins[0].task.path + ":" + strings.ToUpper(ins[0].ch.Name)
	case "case-role":
		pth := ins[0].task.path
		i := strings.LastIndex(pth, ".")
		dangling.Target = pth[:i+1] + strings.ToUpper(pth[i+1:]) + ":" + ins[0].ch.Name
	case "case-alias":
		dangling.Target = ins[0].task.path + ":" + strings.ToUpper(ins[0].ch.Name)
		for _, in := range ins {
			if in.ch.Global != "" {
				dangling.Target = "::" + strings.ToUpper(in.ch.Global)
				break
			}
		}
	}
	var chs []chanSpec
	for i := 0; i < n; i++ {
		if i == p {
			chs = append(chs, dangling)
			continue
		}
		ch := chanSpec{Name: fmt.Sprintf("ok%d", i), Type: c13Types[r.Intn(4)], Transport: c13Transports[r.Intn(5)]}
		var withAlias []c13In
		for _, in := range ins {
			if in.ch.Global != "" && in.ch.Target == "" {
				withAlias = append(withAlias, in)
			}
		}
		switch k := r.Intn(3); {
		case k == 0:
			ch.Target = pick(r, "tcp://somehost.example:5555", "ipc:///tmp/c13-pipe", "ipc://@abstract-name")
		case k == 1 && len(withAlias) > 0:
			ch.Target = "::" + withAlias[r.Intn(len(withAlias))].ch.Global
		default:
			in := ins[r.Intn(len(ins))]
			ch.Target = in.task.path + ":" + in.ch.Name
		}
		chs = append(chs, ch)
	}
	tr.Connect, tr.Task.Connect = nil, nil
	tplOf := func(ch chanSpec) chanSpec { // what a template may say about an outbound channel: no target
		return chanSpec{Name: ch.Name, Type: c13Types[r.Intn(4)], Transport: c13Transports[r.Intn(5)]}
	}
	switch decl {
	case "role":
		tr.Connect = chs
		if kind == "empty-target" && pos == "last" && r.Intn(2) == 0 {
			// the classic form: the template declares the channel and nobody gives it a target
			tr.Connect = chs[:p]
			tr.Task.Connect = []chanSpec{tplOf(dangling)}
			decl = "template"
		}
	case "template":
		// every channel is declared by the template (in the opposite order); the role supplies the targets
		for i := n - 1; i >= 0; i-- {
			tr.Task.Connect = append(tr.Task.Connect, tplOf(chs[i]))
		}
		tr.Connect = chs
		if kind == "empty-target" && pos == "last" {
			tr.Connect = chs[:p] // the dangling one exists in the template only
		}
	case "split":
		if p < n-1 && tr.parent != nil {
			// up to the dangling one on the role, the followers inherited from the parent role
			tr.Connect = append([]chanSpec(nil), chs[:p+1]...)
			tr.parent.Connect = append(tr.parent.Connect, chs[p+1:]...)
		} else {
			// the resolvable ones declared in template + role, the dangling one on the role only
			for i, ch := range chs {
				if i != p && i%2 == 0 {
					tr.Task.Connect = append(tr.Task.Connect, tplOf(ch))
				}
			}
			tr.Connect = chs
		}
	}
	sc.Fault = "unmatched-" + kind
	sc.DanglingPos, sc.DanglingDecl, sc.DanglingTask = pos, decl, tr.path
	sc.Notes = append(sc.Notes, fmt.Sprintf("task %s has %d outbound channels; 'lost' (%s) is the %s one, declared: %s", tr.path, n, kind, pos, decl))
}

// redeclaredWithOtherTarget: the outbound channel name is declared at two or more role levels of the
// task's branch with different targets (a child redeclares an inherited channel).
func redeclaredWithOtherTarget(tr *roleSpec, name string) bool {
	targets := map[string]bool{}
	for _, p := range tr.chain() {
		if ch, ok := kvGetChan(p.Connect, name); ok {
			targets[resolveTargetExpr(ch.Target, p)] = true
		}
	}
	return len(targets) > 1
}

// hasCaseTwin: another key differs from k by case only.
func hasCaseTwin(k string, keys []string) bool {
	for _, o := range keys {
		if o != k && strings.EqualFold(o, k) {
			return true
		}
	}
	return false
}

// c13GenConnectRedeclared: an outbound channel name declared at two or three role levels of one branch
// with different (all valid) targets; the nearest declaration's target is the one that must be wired.
// Variants cycle: aggregator -> task role (the template declares the channel too), two aggregator levels,
// three levels; siblings that do not redeclare keep the inherited target.
func c13GenConnectRedeclared(sc c13Scenario, r *rand.Rand) c13Scenario {
	wf := sc.Root.Name
	root := sc.Root
	sc.Hosts = 2 + r.Intn(2)
	host := func() string { return fmt.Sprintf("host%d", 1+r.Intn(sc.Hosts)) }
	mk := func(name, h string) *roleSpec {
		return &roleSpec{Name: name, Critical: true, Constraints: []kv{{"machine_id", h}},
			Task: &tplSpec{Name: wf + "-" + name, Mode: pick(r, "fairmq", "direct")}}
	}
	in := func(name string, alias string) chanSpec {
		ch := chanSpec{Name: name, Type: c13Types[r.Intn(4)], Transport: []string{"zeromq", "nanomsg", "shmem", "default"}[r.Intn(4)], Global: alias}
		if r.Intn(4) == 0 {
			ch.Addressing = "ipc"
		}
		return ch
	}
	// the providers: three distinct inbound channels on one or two tasks
	pa, pb := mk("pa", "host1"), mk("pb", "host2")
	pa.Task.Bind = []chanSpec{in("ina", ""), in("inb", "rcalias")}
	pb.Bind = []chanSpec{in("inc", "")}
	tA, tB, tC := wf+".pa:ina", "::rcalias", wf+".pb:inc"
	if r.Intn(2) == 0 {
		tB = wf + ".pa:inb"
	}
	m := &roleSpec{Name: "m1"}
	g := &roleSpec{Name: "g1"}
	ta, tb, td := mk("ta", host()), mk("tb", host()), mk("td", host())
	m.Children = []*roleSpec{g, td}
	g.Children = []*roleSpec{ta, tb}
	root.Children = []*roleSpec{pa, pb, m}
	rc := func(target string) chanSpec {
		return chanSpec{Name: "rc", Type: c13Types[r.Intn(4)], Transport: c13Transports[r.Intn(5)], Target: target}
	}
	variant := (sc.Index / len(c13Flavours)) % 3
	switch variant {
	case 0: // aggregator -> task role, the template declares the channel as well
		g.Connect = []chanSpec{rc(tA)}
		ta.Connect = []chanSpec{rc(tB)}
		ta.Task.Connect = []chanSpec{{Name: "rc", Type: "pull", Transport: "zeromq"}}
		sc.Notes = append(sc.Notes, "connect 'rc': g1 -> "+tA+", redeclared by ta -> "+tB+"; tb keeps g1's")
	case 1: // two aggregator levels
		m.Connect = []chanSpec{rc(tA)}
		g.Connect = []chanSpec{rc(tC)}
		sc.Notes = append(sc.Notes, "connect 'rc': m1 -> "+tA+", redeclared by g1 -> "+tC+"; ta and tb inherit g1's, td keeps m1's")
	case 2: // three levels
		m.Connect = []chanSpec{rc(tA)}
		g.Connect = []chanSpec{rc(tB)}
		tb.Connect = []chanSpec{rc(tC)}
		sc.Notes = append(sc.Notes, "connect 'rc': m1 -> "+tA+", g1 -> "+tB+", tb -> "+tC+"; ta inherits g1's, td keeps m1's")
	}
	// an unrelated second channel so that the tasks have something else to merge
	ta.Connect = append(ta.Connect, chanSpec{Name: "other", Type: "sub", Target: tC})
	root.link(nil)
	return sc
}

// c13GenCaseCollision: role names, channel names and global aliases that differ by case only, every one of
// them targeted exactly once by a consumer: each outbound channel must get exactly its own inbound's address.
func c13GenCaseCollision(sc c13Scenario, r *rand.Rand) c13Scenario {
	wf := sc.Root.Name
	root := sc.Root
	sc.Hosts = 2
	mk := func(name, h string) *roleSpec {
		return &roleSpec{Name: name, Critical: true, Constraints: []kv{{"machine_id", h}},
			Task: &tplSpec{Name: wf + "-" + name, Mode: pick(r, "fairmq", "direct")}}
	}
	tr4 := []string{"zeromq", "nanomsg", "shmem", "default"}
	in := func(name, alias string, i int) chanSpec {
		return chanSpec{Name: name, Type: c13Types[r.Intn(4)], Transport: tr4[i%4], Global: alias}
	}
	lower, upper := mk("proc", "host1"), mk("Proc", pick(r, "host1", "host2"))
	lower.Task.Bind = []chanSpec{in("out", "readout", 0), in("OUT", "", 1)}
	upper.Bind = []chanSpec{in("out", "Readout", 2), in("OUT", "", 3)}
	if r.Intn(2) == 0 { // the aliases on the other pair of channels
		lower.Task.Bind[0].Global, lower.Task.Bind[1].Global = "", "readout"
	}
	cons := mk("cons", "host2")
	targets := []string{wf + ".proc:out", wf + ".proc:OUT", wf + ".Proc:out", wf + ".Proc:OUT", "::readout", "::Readout"}
	r.Shuffle(len(targets), func(i, j int) { targets[i], targets[j] = targets[j], targets[i] })
	names := []string{"snk", "SNK", "o2", "o3", "o4", "o5"}
	for i, t := range targets {
		cons.Connect = append(cons.Connect, chanSpec{Name: names[i], Type: c13Types[r.Intn(4)], Target: t})
	}
	root.Children = []*roleSpec{lower, upper, cons}
	if r.Intn(2) == 0 {
		root.Children = []*roleSpec{upper, cons, lower}
	}
	sc.Notes = append(sc.Notes, "roles proc/Proc, channels out/OUT, aliases ::readout/::Readout; cons targets each of the six exactly")
	root.link(nil)
	return sc
}

// fartherStaticAddress: a declaration of the inbound channel farther than the nearest one (an ancestor
// role or the template) carries an explicit bind address.
func fartherStaticAddress(tr *roleSpec, name string) string {
	seen := false
	for _, p := range tr.chain() {
		if ch, ok := kvGetChan(p.Bind, name); ok {
			if seen && ch.Target != "" {
				return ch.Target
			}
			seen = true
		}
	}
	if ch, ok := kvGetChan(tr.Task.Bind, name); ok && seen && ch.Target != "" {
		return ch.Target
	}
	return ""
}
