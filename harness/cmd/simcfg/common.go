package main

import (
	"encoding/json"
	"fmt"
	"io"
	"math/rand"
	"os"
	"path/filepath"
	"regexp"
	"sort"
	"strings"
	"sync"
	"sync/atomic"
	"time"

	"google.golang.org/grpc/status"

	"verif/harness/coresim"
	"verif/harness/vlib"
)

var raceCopySeq int64

var addrRe = regexp.MustCompile(`0x[0-9a-f]+`)

// finishSim copies the core's race logs next to the batch's own (so the parent
// parses them) and reports a core crash as a violation attributed to the case.
func finishSim(c *vlib.Ctx, s *coresim.Sim, caseID int64, witness interface{}) (crashed bool) {
	for _, rl := range s.RaceLogs() {
		n := atomic.AddInt64(&raceCopySeq, 1)
		src, err := os.Open(rl)
		if err != nil {
			continue
		}
		dst, err := os.Create(filepath.Join(c.OutDir, fmt.Sprintf("race.core-%d-%d", os.Getpid(), n)))
		if err == nil {
			io.Copy(dst, src)
			dst.Close()
		}
		src.Close()
	}
	if crash := s.CoreCrash(); crash != "" {
		head := strings.SplitN(crash, "\n", 2)[0]
		where := "?"
		for _, ln := range strings.Split(crash, "\n") {
			t := strings.TrimSpace(ln)
			if i := strings.Index(t, "/core/"); i >= 0 && (strings.HasPrefix(t, "/repo/") || strings.HasPrefix(t, "/tmp/")) && !strings.Contains(t, "/pkg/mod/") {
				// /repo/core/task/scheduler.go:1356 +0x... (a scratch copy of the tree under /tmp counts as the repository)
				where = strings.SplitN(t[i+1:], ":", 2)[0]
				break
			}
			if strings.HasPrefix(t, "/repo/") {
				where = strings.SplitN(strings.TrimPrefix(t, "/repo/"), ":", 2)[0]
				break
			}
			if strings.HasPrefix(t, "/verif/") {
				where = "HARNESS:" + strings.SplitN(t, ":", 2)[0]
				break
			}
		}
		if strings.HasPrefix(where, "HARNESS:") {
			c.Inconclusive("core child crashed in harness code: " + head + " at " + where)
		} else {
			c.Violation("CRASH", addrRe.ReplaceAllString(head, "0x?")+"@"+where, "the core process died: "+truncate(crash, 1500), caseID, witness)
		}
		return true
	}
	return false
}

func truncate(s string, n int) string {
	if len(s) > n {
		return s[:n] + "…"
	}
	return s
}

// parallel runs f(i) for i in [lo,hi) with at most n concurrently.
func parallel(lo, hi, n int, f func(i int)) {
	sem := make(chan struct{}, n)
	var wg sync.WaitGroup
	for i := lo; i < hi; i++ {
		wg.Add(1)
		sem <- struct{}{}
		go func(i int) {
			defer wg.Done()
			defer func() { <-sem }()
			f(i)
		}(i)
	}
	wg.Wait()
}

func grpcMsg(err error) string {
	if err == nil {
		return ""
	}
	if st, ok := status.FromError(err); ok {
		return st.Code().String() + ": " + st.Message()
	}
	return err.Error()
}

func pick(r *rand.Rand, xs ...string) string { return xs[r.Intn(len(xs))] }

func sortedKeys(m map[string]string) []string {
	ks := make([]string, 0, len(m))
	for k := range m {
		ks = append(ks, k)
	}
	sort.Strings(ks)
	return ks
}

func jsonS(v interface{}) string {
	b, _ := json.Marshal(v)
	return string(b)
}

// only returns the scenario window: all of [lo,hi) or just VERIF_ONLY.
func only(lo, hi int) (int, int) {
	if o := os.Getenv("VERIF_ONLY"); o != "" {
		fmt.Sscan(o, &lo)
		hi = lo + 1
	}
	return lo, hi
}

// offerDelay: 0 = the master sends the offers inside the REVIVE call (default). VERIF_OFFER_DELAY_MS=n
// makes them follow n ms later from another goroutine, as a real master's allocation cycle would.
func offerDelay() time.Duration {
	ms := 0
	if v := os.Getenv("VERIF_OFFER_DELAY_MS"); v != "" {
		fmt.Sscan(v, &ms)
	}
	return time.Duration(ms) * time.Millisecond
}

func debugOn() bool { return os.Getenv("VERIF_DEBUG") != "" }
