package main

// C14 part (b): variable precedence as seen on the launched command line
// (arguments, environment) and in the CONFIGURE properties of a task.

import (
	"encoding/json"
	"fmt"
	"os"
	"sort"
	"strings"
	"time"

	pb "github.com/AliceO2Group/Control/core/protos"

	"verif/harness/coresim"
	simmesos "verif/harness/sim/mesos"
	"verif/harness/vlib"
)

const c14Keys = 8 // six ordinary keys and the two the core itself reads from the configuration store at START_ACTIVITY

const c14Ordinary = 6

// c14StorePromotion (default on; VERIF_C14B_STORE_PROMOTION=0 switches it off): the generator also lets
// the root role's own vars define lhc_period / pdp_n_hbf_per_tf and defines them in the store's defaults
// without the store's vars. In those placements the core (environment.go, before START_ACTIVITY)
// deliberately copies the store value into the root role's vars, where it outranks the root's own var and
// every workflow-level default: a known finding, reported under one canonical class per key
// (after-start/store-value-copied-into-root-vars/<key>).
func c14StorePromotion() bool { return os.Getenv("VERIF_C14B_STORE_PROMOTION") != "0" }

type c14Task struct {
	Path   string              `json:"path"`
	Mode   string              `json:"mode"`
	Fields map[string][]string `json:"fields"` // key -> subset of {arg, env, prop}
}

type c14Scenario struct {
	Index       int               `json:"index"`
	Root        *roleSpec         `json:"workflow"`
	EnvVars     map[string]string `json:"consul_vars"`
	EnvDefaults map[string]string `json:"consul_defaults"`
	UserVars    map[string]string `json:"user_vars"`
	Tasks       []c14Task         `json:"tasks"`
}

func c14Key(i int) string {
	switch i {
	case 6:
		return "lhc_period"
	case 7:
		return "pdp_n_hbf_per_tf"
	}
	return fmt.Sprintf("ck%d", i)
}

// tag is the unique value a source gives a key; "" for an empty definition.
func c14Tag(src, key string, empty bool) string {
	if empty {
		return ""
	}
	return src + "~" + key
}

func c14Gen(c *vlib.Ctx, idx int) c14Scenario {
	r := scRand(c, 1414, idx)
	sc := c14Scenario{Index: idx, EnvVars: map[string]string{}, EnvDefaults: map[string]string{}, UserVars: map[string]string{}}
	wf := fmt.Sprintf("c14w%d", idx)
	root := &roleSpec{Name: wf, Defaults: []kv{{"hosts", `["host1"]`}, {"deploy_timeout", "60s"}}}
	sc.Root = root
	// chain of aggregators below the root: 0-2
	depth := r.Intn(3)
	cur := root
	var aggs []*roleSpec
	for d := 0; d < depth; d++ {
		a := &roleSpec{Name: fmt.Sprintf("a%d", d+1)}
		cur.Children = append(cur.Children, a)
		aggs = append(aggs, a)
		cur = a
	}
	nTasks := 1 + r.Intn(3)
	var troles []*roleSpec
	for t := 0; t < nTasks; t++ {
		// tasks hang at the deepest aggregator, sometimes higher
		parent := cur
		if t > 0 && len(aggs) > 0 && r.Intn(4) == 0 {
			parent = aggs[r.Intn(len(aggs))]
			if r.Intn(2) == 0 {
				parent = root
			}
		}
		tpl := &tplSpec{Name: fmt.Sprintf("%s-t%d", wf, t), Mode: []string{"fairmq", "direct", "basic"}[r.Intn(3)]}
		if t == 0 && tpl.Mode == "basic" {
			tpl.Mode = "direct"
		}
		role := &roleSpec{Name: fmt.Sprintf("t%d", t), Task: tpl, Critical: true, Constraints: []kv{{"machine_id", "host1"}}}
		parent.Children = append(parent.Children, role)
		troles = append(troles, role)
	}
	// call roles: their func is an expression over the keys, evaluated when the hook fires; the published
	// call event carries the result
	triggers := []string{"before_START_ACTIVITY+10", "after_START_ACTIVITY+5", "before_STOP_ACTIVITY+5", "after_STOP_ACTIVITY+10", "after_START_ACTIVITY+50", "before_START_ACTIVITY+1"}
	nCalls := 2 + r.Intn(3)
	var croles []*roleSpec
	for ci := 0; ci < nCalls; ci++ {
		parent := root
		if len(aggs) > 0 && r.Intn(2) == 0 {
			parent = aggs[r.Intn(len(aggs))]
		}
		cr := &roleSpec{Name: fmt.Sprintf("c%d", ci), CallTrigger: triggers[(idx+ci)%len(triggers)], CallFunc: "pending"}
		parent.Children = append(parent.Children, cr)
		croles = append(croles, cr)
	}
	root.link(nil)
	// place the keys
	state := func(density int) int { // 0 absent, 1 present, 2 empty
		if r.Intn(100) >= density {
			return 0
		}
		if r.Intn(4) == 0 {
			return 2
		}
		return 1
	}
	for k := 0; k < c14Keys; k++ {
		key := c14Key(k)
		density := []int{8, 20, 40, 65}[r.Intn(4)]
		special := k >= c14Ordinary
		if special {
			density = []int{30, 45, 65}[r.Intn(3)]
		}
		put := func(dst *[]kv, src string) {
			d := density
			if strings.HasPrefix(src, "vars@") {
				d = density * 2 / 3
			}
			if st := state(d); st != 0 {
				*dst = append(*dst, kv{key, c14Tag(src, key, st == 2)})
			}
		}
		putm := func(dst map[string]string, src string) {
			d := density * 2 / 3
			if src == "user" {
				d = density / 3
			}
			if st := state(d); st != 0 {
				dst[key] = c14Tag(src, key, st == 2)
			}
		}
		putm(sc.UserVars, "user")
		if special && !c14StorePromotion() {
			// the store defines the key in its vars most of the time, in its defaults only on top of that,
			// and the root role's own vars leave it alone (see c14StorePromotion)
			if r.Intn(10) < 7 {
				sc.EnvVars[key] = c14Tag("vars@env", key, r.Intn(6) == 0)
				putm(sc.EnvDefaults, "defaults@env")
			}
		} else {
			putm(sc.EnvVars, "vars@env")
			putm(sc.EnvDefaults, "defaults@env")
			put(&root.Vars, "vars@root")
		}
		put(&root.Defaults, "defaults@root")
		for _, a := range aggs {
			put(&a.Vars, "vars@"+a.Name)
			put(&a.Defaults, "defaults@"+a.Name)
		}
		for _, tr := range troles {
			put(&tr.Vars, "vars@"+tr.Name)
			put(&tr.Defaults, "defaults@"+tr.Name)
			put(&tr.Task.Vars, "tpl-vars@"+tr.Name)
			put(&tr.Task.Defaults, "tpl-defaults@"+tr.Name)
		}
		for _, cr := range croles {
			put(&cr.Vars, "vars@"+cr.Name)
			put(&cr.Defaults, "defaults@"+cr.Name)
		}
	}
	for _, cr := range croles {
		var parts []string
		for k := 0; k < c14Keys; k++ {
			key := c14Key(k)
			if _, _, ok := c14Resolve(&sc, cr, key); !ok {
				cr.Defaults = append(cr.Defaults, kv{key, c14Tag("defaults@"+cr.Name, key, false)})
			}
			parts = append(parts, fmt.Sprintf("'|%s=[' + %s + ']'", key, key))
		}
		cr.CallFunc = "'P' + " + strings.Join(parts, " + ")
	}
	// every key a task references must be defined somewhere for it (an undefined name is a template error)
	for _, tr := range troles {
		ct := c14Task{Path: tr.path, Mode: tr.Task.Mode, Fields: map[string][]string{}}
		for k := 0; k < c14Keys; k++ {
			key := c14Key(k)
			if _, _, ok := c14Resolve(&sc, tr, key); !ok {
				if r.Intn(2) == 0 {
					tr.Task.Defaults = append(tr.Task.Defaults, kv{key, c14Tag("tpl-defaults@"+tr.Name, key, false)})
				} else {
					tr.Task.Vars = append(tr.Task.Vars, kv{key, c14Tag("tpl-vars@"+tr.Name, key, false)})
				}
			}
			var fs []string
			for _, f := range []string{"arg", "env", "prop"} {
				if f == "prop" && tr.Task.Mode == "basic" {
					continue
				}
				if r.Intn(3) != 0 {
					fs = append(fs, f)
				}
			}
			if len(fs) == 0 {
				fs = []string{"arg"}
			}
			ct.Fields[key] = fs
			for _, f := range fs {
				switch f {
				case "arg":
					tr.Task.Args = append(tr.Task.Args, fmt.Sprintf("--%s=[{{ %s }}]", key, key))
				case "env":
					tr.Task.Env = append(tr.Task.Env, fmt.Sprintf("%s=[{{ %s }}]", strings.ToUpper(key), key))
				case "prop":
					tr.Task.Properties = append(tr.Task.Properties, kv{"p_" + key, fmt.Sprintf("[{{ %s }}]", key)})
				}
			}
		}
		sc.Tasks = append(sc.Tasks, ct)
	}
	return sc
}

// c14Resolve is the reference resolver written from the statement. It returns the
// accepted values (more than one only when the template's own defaults and vars
// both define the key and nothing from the workflow does), and the winning source.
func c14Resolve(sc *c14Scenario, tr *roleSpec, key string) (vals []string, src string, ok bool) {
	if v, ok := sc.UserVars[key]; ok {
		return []string{v}, "user", true
	}
	chain := tr.chain() // role, ancestors..., root
	name := func(i int, p *roleSpec) string {
		switch {
		case p.parent == nil:
			return "root"
		case i == 0:
			return "role"
		default:
			return fmt.Sprintf("anc%d", i)
		}
	}
	for i, p := range chain {
		if v, ok := kvGet(p.Vars, key); ok {
			return []string{v}, "vars@" + name(i, p), true
		}
	}
	if v, ok := sc.EnvVars[key]; ok {
		return []string{v}, "vars@env", true
	}
	for i, p := range chain {
		if v, ok := kvGet(p.Defaults, key); ok {
			return []string{v}, "defaults@" + name(i, p), true
		}
	}
	if v, ok := sc.EnvDefaults[key]; ok {
		return []string{v}, "defaults@env", true
	}
	if tr.Task == nil {
		return nil, "", false
	}
	tv, okV := kvGet(tr.Task.Vars, key)
	td, okD := kvGet(tr.Task.Defaults, key)
	switch {
	case okV && okD:
		return []string{tv, td}, "tpl-vars|tpl-defaults", true
	case okV:
		return []string{tv}, "tpl-vars", true
	case okD:
		return []string{td}, "tpl-defaults", true
	}
	return nil, "", false
}

// c14Decode names the source a seen value came from (canonical, relative to the task role).
func c14Decode(sc *c14Scenario, tr *roleSpec, key, val string) string {
	if val == "" {
		return "empty"
	}
	i := strings.LastIndex(val, "~")
	if i < 0 || val[i+1:] != key {
		return "unknown"
	}
	src := val[:i]
	at := strings.SplitN(src, "@", 2)
	if len(at) != 2 {
		return src // user
	}
	if at[1] == "env" {
		return src
	}
	if strings.HasPrefix(at[0], "tpl-") {
		if at[1] == tr.Name {
			return at[0]
		}
		return at[0] + "@other-task"
	}
	for i, p := range tr.chain() {
		if p.Name == at[1] || (p.parent == nil && at[1] == "root") {
			switch {
			case p.parent == nil:
				return at[0] + "@root"
			case i == 0:
				return at[0] + "@role"
			default:
				return fmt.Sprintf("%s@anc%d", at[0], i)
			}
		}
	}
	return at[0] + "@other-branch"
}

func runC14B() {
	c := vlib.Start("C14B")
	defer c.Finish()
	n := 40
	if c.Tier == "thorough" {
		n = 320
	}
	lo, hi := only(c.Slice(n))
	parallel(lo, hi, 3, func(i int) { c14Run(c, i) })
}

type c14Obs struct {
	Scenario c14Scenario         `json:"scenario"`
	Steps    []string            `json:"steps"`
	Seen     map[string][]string `json:"seen"` // role path -> arguments, env, properties as received
}

func c14Run(c *vlib.Ctx, idx int) {
	sc := c14Gen(c, idx)
	id := c.Case(map[string]interface{}{"index": idx, "scenario": sc})
	if idx%13 == 2 {
		c.Sample(sc)
	}
	obs := &c14Obs{Scenario: sc, Seen: map[string][]string{}}
	agents := []*simmesos.Agent{{ID: "agent-host1", Hostname: "host1", Attributes: map[string]string{"machine_id": "host1"}, CPU: 16, Mem: 16384, Ports: [][2]uint64{{9000, 9200}, {30000, 30200}}}}
	s, err := coresim.Start(coresim.Options{Agents: agents, Detectors: map[string][]string{"TST": {"host1"}}, Files: sc.Root.files(), Vars: sc.EnvVars, Defaults: sc.EnvDefaults})
	if err != nil {
		c.Inconclusive("coresim start: " + truncate(err.Error(), 4000))
		return
	}
	s.Master.OnLaunch = func(t *simmesos.LaunchedTask) simmesos.LaunchPlan {
		return simmesos.LaunchPlan{Kind: "running", Delay: 30 * time.Millisecond}
	}
	s.Master.OfferDelay = offerDelay()
	defer func() {
		if debugOn() {
			fs := sc.Root.files()
			ks := sortedKeys(fs)
			for _, k := range ks {
				fmt.Println("#", k)
				fmt.Println(fs[k])
			}
			fmt.Println(jsonS(sc.UserVars), jsonS(sc.EnvVars), jsonS(sc.EnvDefaults))
			fmt.Println(strings.Join(obs.Steps, "\n"))
			fmt.Println(jsonS(obs.Seen))
		}
		finishSim(c, s, id, obs)
		s.Close()
	}()
	ctx, cancel := coresim.Ctx(150 * time.Second)
	t0 := time.Now()
	uv := map[string]string{}
	for k, v := range sc.UserVars {
		uv[k] = v
	}
	reply, cerr := s.Client.NewEnvironment(ctx, &pb.NewEnvironmentRequest{WorkflowTemplate: sc.Root.Name, Vars: uv})
	cancel()
	msg := grpcMsg(cerr)
	obs.Steps = append(obs.Steps, fmt.Sprintf("NewEnvironment err=%q in %s", truncate(msg, 500), time.Since(t0).Round(time.Millisecond)))
	if d := time.Since(t0); d > 30*time.Second {
		fmt.Fprintf(os.Stderr, "C14B scenario %d slow: %s\n", idx, strings.Join(obs.Steps, " | "))
	}
	c.Count("environments_driven", 1)
	if cerr != nil {
		c.Inconclusive(fmt.Sprintf("scenario %d: environment creation failed: %s", idx, truncate(msg, 400)))
		return
	}
	byPath := map[string]simmesos.LaunchedTask{}
	for _, t := range s.Master.Tasks() {
		byPath[t.RolePath] = t
	}
	winners := map[string]bool{}
	for _, tr := range sc.Root.taskRoles() {
		mt, ok := byPath[tr.path]
		if !ok {
			c.Inconclusive(fmt.Sprintf("scenario %d: task %s not launched", idx, tr.path))
			continue
		}
		c.Count("tasks_checked", 1)
		var args, envs []string
		if l, ok := mt.Cmd["arguments"].([]interface{}); ok {
			for _, a := range l {
				args = append(args, fmt.Sprint(a))
			}
		}
		if l, ok := mt.Cmd["env"].([]interface{}); ok {
			for _, a := range l {
				envs = append(envs, fmt.Sprint(a))
			}
		}
		var props map[string]string
		for _, cmd := range mt.Commands {
			if cmd.Event == "CONFIGURE" {
				props = cmd.Arguments
			}
		}
		var pl []string
		for k, v := range props {
			if strings.HasPrefix(k, "p_") {
				pl = append(pl, k+"="+v)
			}
		}
		sort.Strings(pl)
		obs.Seen[tr.path] = append(append(append([]string{"ARGS"}, args...), append([]string{"ENV"}, envs...)...), append([]string{"PROPS"}, pl...)...)
		var fields map[string][]string
		for _, ct := range sc.Tasks {
			if ct.Path == tr.path {
				fields = ct.Fields
			}
		}
		for k := 0; k < c14Keys; k++ {
			key := c14Key(k)
			want, src, _ := c14Resolve(&sc, tr, key)
			winners[src] = true
			c.Count("keys_resolved", 1)
			c.Count("winner_"+strings.SplitN(src, "@", 2)[0], 1)
			if at := strings.SplitN(src, "@", 2); len(at) == 2 {
				lvl := at[1]
				if strings.HasPrefix(lvl, "anc") {
					lvl = "ancestor"
				}
				c.Count("winner_level_"+lvl, 1)
				// how many levels define the key in the winning kind: > 1 means a nearer definition beat a farther one
				n := 0
				for _, p := range tr.chain() {
					kvs := p.Vars
					if at[0] == "defaults" {
						kvs = p.Defaults
					}
					if _, ok := kvGet(kvs, key); ok {
						n++
					}
				}
				envm := sc.EnvVars
				if at[0] == "defaults" {
					envm = sc.EnvDefaults
				}
				if _, ok := envm[key]; ok {
					n++
				}
				if n > 1 {
					c.Count("nearer_definition_beats_farther", 1)
				}
			}
			if len(want) == 1 && want[0] == "" {
				c.Count("winner_is_empty_definition", 1)
			}
			if strings.HasPrefix(src, "tpl-") {
				c.Count("keys_from_template_only", 1)
			} else if _, ok := kvGet(tr.Task.Defaults, key); ok {
				c.Count("workflow_over_template_default", 1)
			} else if _, ok := kvGet(tr.Task.Vars, key); ok {
				c.Count("workflow_over_template_var", 1)
			}
			for _, f := range fields[key] {
				got, found := "", false
				switch f {
				case "arg":
					got, found = findProbe(args, "--"+key+"=[")
				case "env":
					got, found = findProbe(envs, strings.ToUpper(key)+"=[")
				case "prop":
					if v, ok := props["p_"+key]; ok && strings.HasPrefix(v, "[") && strings.HasSuffix(v, "]") {
						got, found = v[1:len(v)-1], true
					}
				}
				where := "cmdline"
				if f == "prop" {
					where = "property"
					c.Count("properties_compared", 1)
				} else {
					c.Count("cmdline_values_compared", 1)
				}
				if !found {
					c.Violation("PRECEDENCE", where+"/probe-missing", fmt.Sprintf("task %s: the %s probe for %s is absent from what the task received [scenario %d]", tr.path, f, key, idx), id, obs)
					continue
				}
				okv := false
				for _, w := range want {
					if got == w {
						okv = true
					}
				}
				if !okv {
					gsrc := c14Decode(&sc, tr, key, got)
					wsrc := src
					if len(want) == 1 && want[0] == "" {
						wsrc += "(empty)"
					}
					c.Violation("PRECEDENCE", fmt.Sprintf("%s/want=%s,got=%s", where, wsrc, gsrc),
						fmt.Sprintf("task %s (%s): %s of %s is %q (from %s); the highest-ranking definition is %s with value %q [scenario %d]", tr.path, tr.Task.Mode, f, key, got, gsrc, src, want, idx), id, obs)
				}
			}
		}
	}
	c14StartPhase(c, s, &sc, reply.GetEnvironment().GetId(), id, obs, winners)
	var ws []string
	for w := range winners {
		ws = append(ws, w)
	}
	sort.Strings(ws)
	c.Nontrivial(vlib.Hash("c14b", len(sc.Root.taskRoles()), strings.Join(ws, ",")))
}

func findProbe(list []string, prefix string) (string, bool) {
	for _, a := range list {
		if strings.HasPrefix(a, prefix) && strings.HasSuffix(a, "]") {
			return a[len(prefix) : len(a)-1], true
		}
	}
	return "", false
}

// ---- after START_ACTIVITY -------------------------------------------------------------------

type c14CallEvent struct {
	Path       string      `json:"path"`
	Output     string      `json:"output"`
	CallStatus interface{} `json:"callStatus"`
	Traits     struct {
		Trigger string `json:"trigger"`
	} `json:"traits"`
}

// c14StartPhase drives START_ACTIVITY and STOP_ACTIVITY and applies the same precedence table to
// what is visible from START on: the START command arguments the fake executors receive, the values
// call hooks see at before_/after_START_ACTIVITY and at STOP, and the three maps GetEnvironment returns.
func c14StartPhase(c *vlib.Ctx, s *coresim.Sim, sc *c14Scenario, envID string, caseID int64, obs *c14Obs, winners map[string]bool) {
	idx := sc.Index
	// storeCopy: the value the core copies into the root role's vars before START_ACTIVITY (store vars over
	// store defaults), for the two keys it does that for.
	storeCopy := func(key string) (string, bool) {
		if key != "lhc_period" && key != "pdp_n_hbf_per_tf" {
			return "", false
		}
		if v, ok := sc.EnvVars[key]; ok {
			return v, true
		}
		v, ok := sc.EnvDefaults[key]
		return v, ok
	}
	// violAt reports a mismatch. One family gets a canonical class: the value seen is the copied store value
	// and it displaced what ONLY a copy in the root role's vars can displace - the root's own var, a default of
	// any level, or nothing at all in the vars map. A user value, a descendant role's own var, the user-vars
	// map and the defaults map are out of its reach: those keep their fine-grained class.
	violAt := func(where, key, wantSrc, wantLabel string, gotVal string, gotPresent bool, gotLabel, detail string) {
		class := fmt.Sprintf("after-start/%s/want=%s,got=%s", where, wantLabel, gotLabel)
		if sv, ok := storeCopy(key); ok && gotPresent && gotVal == sv && where != "uservars-map" && where != "defaults-map" {
			reach := wantSrc == "vars@root" || strings.HasPrefix(wantSrc, "defaults@") || (wantSrc == "absent" && where == "vars-map")
			if reach {
				class = "after-start/store-value-copied-into-root-vars/" + key
				detail = fmt.Sprintf("%s {seen at %s: want=%s, got=%s}", detail, where, wantLabel, gotLabel)
			}
		}
		c.Violation("PRECEDENCE", class, fmt.Sprintf("%s [scenario %d]", detail, idx), caseID, obs)
	}
	control := func(op pb.ControlEnvironmentRequest_Optype) error {
		ctx, cancel := coresim.Ctx(150 * time.Second)
		defer cancel()
		t0 := time.Now()
		_, err := s.Client.ControlEnvironment(ctx, &pb.ControlEnvironmentRequest{Id: envID, Type: op})
		obs.Steps = append(obs.Steps, fmt.Sprintf("%s err=%q in %s", op, truncate(grpcMsg(err), 300), time.Since(t0).Round(time.Millisecond)))
		return err
	}
	if err := control(pb.ControlEnvironmentRequest_START_ACTIVITY); err != nil {
		c.Inconclusive(fmt.Sprintf("scenario %d: START_ACTIVITY failed: %s", idx, truncate(grpcMsg(err), 300)))
		return
	}
	c.Count("environments_started", 1)
	root := sc.Root
	label := func(vals []string, src string) string {
		if len(vals) == 1 && vals[0] == "" {
			return src + "(empty)"
		}
		return src
	}
	// (1) START command arguments: lhc_period is among the keys the core pushes from the root's stack
	wantL, srcL, okL := c14Resolve(sc, root, "lhc_period")
	for _, t := range s.Master.Tasks() {
		for _, cmd := range t.Commands {
			if cmd.Event != "START" {
				continue
			}
			c.Count("start_commands_checked", 1)
			for _, k := range []string{"lhc_period", "lhcPeriod"} {
				got, present := cmd.Arguments[k]
				switch {
				case okL && !present:
					violAt("start-arguments", "lhc_period", srcL, label(wantL, srcL), "", false, "absent", fmt.Sprintf("task %s: START arguments lack %s although the root role resolves lhc_period from %s", t.RolePath, k, srcL))
				case !okL && present:
					violAt("start-arguments", "lhc_period", "undefined", "undefined", got, true, c14Decode(sc, root, "lhc_period", got), fmt.Sprintf("task %s: START arguments carry %s=%q although nothing visible at the root role defines lhc_period", t.RolePath, k, got))
				case okL && got != wantL[0]:
					violAt("start-arguments", "lhc_period", srcL, label(wantL, srcL), got, true, c14Decode(sc, root, "lhc_period", got), fmt.Sprintf("task %s: START argument %s is %q; the highest-ranking definition at the root role is %s = %q", t.RolePath, k, got, srcL, wantL[0]))
				}
				if okL {
					c.Count("start_argument_values_compared", 1)
				}
			}
		}
	}
	// (2) the three maps of GetEnvironment (root role: own layer over the environment-wide one, per kind)
	checkMaps := func(when string) {
		ctx, cancel := coresim.Ctx(30 * time.Second)
		r, err := s.Client.GetEnvironment(ctx, &pb.GetEnvironmentRequest{Id: envID})
		cancel()
		if err != nil {
			c.Inconclusive(fmt.Sprintf("scenario %d: GetEnvironment: %s", idx, grpcMsg(err)))
			return
		}
		e := r.GetEnvironment()
		for k := 0; k < c14Keys; k++ {
			key := c14Key(k)
			type layer struct {
				name     string
				got      map[string]string
				own      []kv
				envw     map[string]string
				userOnly bool
			}
			for _, l := range []layer{
				{"uservars-map", e.GetUserVars(), nil, sc.UserVars, true},
				{"vars-map", e.GetVars(), root.Vars, sc.EnvVars, false},
				{"defaults-map", e.GetDefaults(), root.Defaults, sc.EnvDefaults, false},
			} {
				want, wsrc, wok := "", "absent", false
				if v, ok := kvGet(l.own, key); ok {
					want, wok = v, true
					wsrc = strings.TrimSuffix(l.name, "-map") + "@root"
				} else if v, ok := l.envw[key]; ok {
					want, wok = v, true
					wsrc = strings.TrimSuffix(l.name, "-map") + "@env"
					if l.userOnly {
						wsrc = "user"
					}
				}
				got, gok := l.got[key]
				c.Count("environment_map_entries_compared", 1)
				if wok != gok || (wok && got != want) {
					gs := "absent"
					if gok {
						gs = c14Decode(sc, root, key, got)
					}
					wlabel := wsrc
					if wok && want == "" {
						wlabel += "(empty)"
					}
					violAt(l.name, key, wsrc, wlabel, got, gok, gs, fmt.Sprintf("GetEnvironment %s: %s[%s] is %q (present=%v); by the sources of that kind it should be %q (present=%v, from %s)", when, l.name, key, got, gok, want, wok, wsrc))
				}
			}
		}
	}
	checkMaps("after START_ACTIVITY")
	if err := control(pb.ControlEnvironmentRequest_STOP_ACTIVITY); err != nil {
		c.Inconclusive(fmt.Sprintf("scenario %d: STOP_ACTIVITY failed: %s", idx, truncate(grpcMsg(err), 300)))
		return
	}
	checkMaps("after STOP_ACTIVITY")
	// (3) what the call hooks saw: wait (logically) until every call role has published its result
	calls := root.callRoles()
	seen := map[string]string{}
	deadline := time.Now().Add(60 * time.Second)
	for {
		for _, ev := range s.Events() {
			if !strings.HasSuffix(ev.Type, "Ev_CallEvent") {
				continue
			}
			var ce c14CallEvent
			if json.Unmarshal(ev.Ev, &ce) != nil || !strings.HasPrefix(ce.Output, "P|") {
				continue
			}
			seen[ce.Path] = ce.Output
		}
		if len(seen) >= len(calls) || time.Now().After(deadline) {
			break
		}
		time.Sleep(20 * time.Millisecond)
	}
	for _, cr := range calls {
		out, ok := seen[cr.path]
		if !ok {
			c.Count("call_results_missing", 1)
			c.Inconclusive(fmt.Sprintf("scenario %d: call role %s (%s) published no result", idx, cr.path, cr.CallTrigger))
			continue
		}
		obs.Seen[cr.path+" @"+cr.CallTrigger] = []string{out}
		c.Count("call_hooks_checked", 1)
		c.Count("call_hooks_"+strings.SplitN(cr.CallTrigger, "+", 2)[0], 1)
		for k := 0; k < c14Keys; k++ {
			key := c14Key(k)
			got, found := "", false
			for _, part := range strings.Split(out, "|") {
				if strings.HasPrefix(part, key+"=[") && strings.HasSuffix(part, "]") {
					got, found = part[len(key)+2:len(part)-1], true
				}
			}
			want, src, _ := c14Resolve(sc, cr, key)
			winners["call:"+src] = true
			c.Count("call_values_compared", 1)
			if k >= c14Ordinary {
				c.Count("call_values_compared_store_keys", 1)
				_, inStore := sc.EnvVars[key]
				if _, d := sc.EnvDefaults[key]; d {
					inStore = true
				}
				if inStore && !strings.HasSuffix(src, "@env") {
					c.Count("store_key_outranked_by_user_or_workflow", 1)
				}
			}
			if !found {
				violAt("call", key, src, src, "", false, "missing", fmt.Sprintf("call role %s (%s): result %q has no value for %s", cr.path, cr.CallTrigger, out, key))
				continue
			}
			if len(want) == 0 || got != want[0] {
				violAt("call", key, src, label(want, src), got, true, c14Decode(sc, cr, key, got), fmt.Sprintf("call role %s at %s sees %s = %q (from %s); the highest-ranking definition is %s with value %q", cr.path, cr.CallTrigger, key, got, c14Decode(sc, cr, key, got), src, want))
			}
		}
	}
}
