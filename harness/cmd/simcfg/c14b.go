package main

func runC14B() {}
