// simcfg: whole-core simulation checks about what a task is given at launch and
// configuration time: C13 (channel endpoints), C14B (variable precedence on the
// command line and in properties), C05B (placement and resources in the OFFERS round).
package main

import (
	"fmt"
	"os"
)

func main() {
	if len(os.Args) < 2 {
		fmt.Fprintln(os.Stderr, "usage: simcfg <C13|C14B|C05B> [flags]")
		os.Exit(64)
	}
	switch os.Args[1] {
	case "C13":
		runC13()
	case "C14B":
		runC14B()
	case "C05B":
		runC05B()
	default:
		fmt.Fprintln(os.Stderr, "unknown property", os.Args[1])
		os.Exit(64)
	}
}
