package main

// C05 part (b): the OFFERS round of a real DEPLOY, judged from the master's log.

import (
	"fmt"
	"math/rand"
	"os"
	"os/exec"
	"path/filepath"
	"sort"
	"strings"
	"sync/atomic"
	"time"

	pb "github.com/AliceO2Group/Control/core/protos"

	"verif/harness/coresim"
	simmesos "verif/harness/sim/mesos"
	"verif/harness/vlib"
)

type c05Agent struct {
	Host  string            `json:"host"`
	Attrs map[string]string `json:"attrs"`
	CPU   float64           `json:"cpu"`
	Mem   float64           `json:"mem"`
	Ports [][2]uint64       `json:"ports"`
	Execs []string          `json:"executors,omitempty"`
}

type c05Scenario struct {
	// template-edit flavour: the workflow as it is after the task templates were rewritten between two
	// environments of one core life (same roles, same commands and wants; other constraints, one more channel)
	Root2      *roleSpec         `json:"workflow_after_edit,omitempty"`
	PortBudget map[string]string `json:"port_budget,omitempty"` // task role name -> exact | fewer | plenty (override-bind flavour)
	Index      int               `json:"index"`
	Flavour    string            `json:"flavour"`
	Agents     []c05Agent        `json:"agents"`
	Root       *roleSpec         `json:"workflow"`
	Notes      []string          `json:"notes,omitempty"`
}

var c05Flavours = []string{
	"plain", "tight-cpu", "static-vs-dynamic", "host-absent", "multi-valued", "tight-mem", "same-static-twice",
	"override", "exact-cpu", "static-vs-control", "port-starved", "many-per-host", "nearest-unsat", "no-high-ports",
	"executors", "unsat-constraint", "override-bind", "exact-mem", "template-edit", "host-absent",
}

var c05AttrPool = map[string][]string{
	"rack": {"r1", "r2", "r1,r2"},
	"kind": {"flp", "epn", "flp,epn"},
	"zone": {"a", "b", "a,b,c"},
}

func scRand(c *vlib.Ctx, salt int64, i int) *rand.Rand {
	return rand.New(rand.NewSource(c.Seed*1000003 + int64(i)*104729 + salt))
}

// satisfiedValue returns a constraint value that the attribute value v satisfies.
func satisfiedValue(r *rand.Rand, v string) string {
	if strings.Contains(v, ",") && r.Intn(4) != 0 {
		parts := strings.Split(v, ",")
		return parts[r.Intn(len(parts))]
	}
	return v
}

func attrSat(attrs map[string]string, k, want string) bool {
	v, ok := attrs[k]
	if !ok {
		return false
	}
	if v == want {
		return true
	}
	for _, p := range strings.Split(v, ",") {
		if p == want {
			return true
		}
	}
	return false
}

func c05Gen(c *vlib.Ctx, idx int) c05Scenario {
	r := scRand(c, 5051, idx)
	fl := c05Flavours[idx%len(c05Flavours)]
	sc := c05Scenario{Index: idx, Flavour: fl}
	wf := fmt.Sprintf("c05w%d", idx)
	if fl == "override-bind" {
		return c05GenOverrideBind(sc, r, wf)
	}
	if fl == "template-edit" {
		return c05GenTemplateEdit(sc, r, wf)
	}
	nAgents := 1 + r.Intn(3)
	if fl == "many-per-host" || fl == "same-static-twice" {
		nAgents = 1 + r.Intn(2)
	}
	for j := 1; j <= nAgents; j++ {
		h := fmt.Sprintf("host%d", j)
		a := c05Agent{Host: h, Attrs: map[string]string{"machine_id": h, "site": "p2"}, CPU: 16, Mem: 16384,
			Ports: [][2]uint64{{9000, 9100}, {30000, 30100}}}
		for _, k := range []string{"rack", "kind", "zone"} {
			if r.Intn(3) != 0 || fl == "multi-valued" || fl == "override" {
				vs := c05AttrPool[k]
				a.Attrs[k] = vs[r.Intn(len(vs))]
				if fl == "multi-valued" {
					a.Attrs[k] = vs[2]
				}
			}
		}
		switch r.Intn(6) {
		case 0:
			a.Ports = [][2]uint64{{8000, 8010}, {9000, 9040}, {30000, 30040}, {31000, 31005}}
		case 1:
			a.Ports = [][2]uint64{{9000, 9000}, {9002, 9010}, {30001, 30020}}
		}
		if fl == "executors" || r.Intn(5) == 0 {
			for e := 0; e < 1+r.Intn(2); e++ {
				a.Execs = append(a.Execs, fmt.Sprintf("exec-%s-%d", h, e))
			}
		}
		sc.Agents = append(sc.Agents, a)
	}
	root := &roleSpec{Name: wf, Defaults: []kv{{"hosts", `["host1"]`}, {"deploy_timeout", "6s"}}}
	sc.Root = root
	// groups: one aggregator per agent (most of the time), tasks below it are meant for that agent
	nTasks := 2 + r.Intn(5)
	if fl == "many-per-host" {
		nTasks = 4 + r.Intn(3)
	}
	groups := map[int]*roleSpec{}
	homeOf := map[*roleSpec]int{}
	rootWrong := ""
	if fl == "override" || r.Intn(5) == 0 {
		// a root-level constraint that every branch must override
		rootWrong = pick(r, "rack", "kind", "zone")
		root.Constraints = append(root.Constraints, kv{rootWrong, "nowhere"})
	} else if r.Intn(3) == 0 {
		root.Constraints = append(root.Constraints, kv{"site", "p2"})
	}
	modes := []string{"basic", "direct", "fairmq"}
	for t := 0; t < nTasks; t++ {
		home := r.Intn(nAgents)
		if fl == "many-per-host" || fl == "same-static-twice" || fl == "tight-cpu" || fl == "tight-mem" {
			home = 0
		}
		ag := &sc.Agents[home]
		parent := root
		if g, ok := groups[home]; ok {
			parent = g
		} else if r.Intn(4) != 0 {
			g := &roleSpec{Name: fmt.Sprintf("g%d", home+1)}
			if r.Intn(2) == 0 {
				g.Constraints = append(g.Constraints, kv{"machine_id", ag.Host})
			}
			if r.Intn(3) == 0 {
				// a second aggregator level
				mid := &roleSpec{Name: fmt.Sprintf("m%d", home+1), Children: []*roleSpec{g}}
				root.Children = append(root.Children, mid)
			} else {
				root.Children = append(root.Children, g)
			}
			groups[home] = g
			parent = g
		}
		tpl := &tplSpec{Name: fmt.Sprintf("%s-t%d", wf, t), Mode: modes[r.Intn(3)],
			CPU: []float64{0.1, 0.25, 0.5, 1}[r.Intn(4)], Mem: []float64{32, 128, 256, 512}[r.Intn(4)]}
		role := &roleSpec{Name: fmt.Sprintf("t%d", t), Task: tpl, Critical: true}
		parent.Children = append(parent.Children, role)
		homeOf[role] = home
		// constraints satisfied by the home agent, spread over the levels
		attrs := []string{}
		for k := range ag.Attrs {
			if k != "site" {
				attrs = append(attrs, k)
			}
		}
		sort.Strings(attrs)
		r.Shuffle(len(attrs), func(i, j int) { attrs[i], attrs[j] = attrs[j], attrs[i] })
		nc := r.Intn(3)
		if fl == "multi-valued" || fl == "override" {
			nc = 1 + r.Intn(2)
		}
		if nc > len(attrs) {
			nc = len(attrs)
		}
		for _, k := range attrs[:nc] {
			v := satisfiedValue(r, ag.Attrs[k])
			switch lvl := r.Intn(5); {
			case lvl == 0:
				tpl.Constraints = append(tpl.Constraints, kv{k, v})
			case lvl == 1 && parent != root:
				if _, dup := kvGet(parent.Constraints, k); !dup {
					parent.Constraints = append(parent.Constraints, kv{k, v})
					break
				}
				fallthrough
			default:
				role.Constraints = append(role.Constraints, kv{k, v})
			}
			// a farther, conflicting definition of the same attribute that the nearer one overrides
			if (fl == "override" || r.Intn(4) == 0) && parent != root {
				if _, atRole := kvGet(role.Constraints, k); atRole {
					if _, dup := kvGet(parent.Constraints, k); !dup {
						parent.Constraints = append(parent.Constraints, kv{k, "elsewhere"})
					}
				}
			}
		}
		// binds
		nb := r.Intn(3)
		for b := 0; b < nb; b++ {
			ch := chanSpec{Name: fmt.Sprintf("in%d", b), Type: pick(r, "push", "pull", "pub", "sub")}
			if r.Intn(3) == 0 {
				ch.Addressing = "ipc"
			} else if r.Intn(2) == 0 {
				ch.Addressing = "tcp"
			}
			if r.Intn(2) == 0 {
				tpl.Bind = append(tpl.Bind, ch)
			} else {
				role.Bind = append(role.Bind, ch)
			}
		}
		if r.Intn(6) == 0 {
			tpl.Ports = pick(r, "8000-8002", "8005", "31000-31001,31003")
			if len(ag.Ports) != 4 {
				ag.Ports = [][2]uint64{{8000, 8010}, {9000, 9040}, {30000, 30040}, {31000, 31005}}
			}
		}
	}
	// every task below a root-level "nowhere" must see a nearer definition
	if rootWrong != "" {
		for _, tr := range root.taskRoles() {
			defined := false
			for _, p := range append([]*roleSpec{tr}, tr.ancestorsIn(root)...) {
				if p == root {
					continue
				}
				if _, ok := kvGet(p.Constraints, rootWrong); ok {
					defined = true
				}
			}
			if !defined {
				// override at the role with a value its intended agent satisfies (any agent that has the attribute)
				val := "nowhere-either"
				for _, a := range sc.Agents {
					if v, ok := a.Attrs[rootWrong]; ok {
						val = satisfiedValue(r, v)
						break
					}
				}
				tr.Constraints = append(tr.Constraints, kv{rootWrong, val})
			}
		}
	}
	tasks := root.taskRoles()
	// an aggregator-level "elsewhere" is only there to be overridden: every task below it needs a nearer
	// definition that its intended agent satisfies
	for _, tr := range tasks {
		anc := tr.ancestorsIn(root)
		for ai, a := range anc {
			for _, cst := range a.Constraints {
				if cst.V != "elsewhere" {
					continue
				}
				nearer := false
				for _, p := range append([]*roleSpec{tr}, anc[:ai]...) {
					if _, ok := kvGet(p.Constraints, cst.K); ok {
						nearer = true
					}
				}
				if nearer {
					continue
				}
				if v, ok := sc.Agents[homeOf[tr]].Attrs[cst.K]; ok {
					tr.Constraints = append(tr.Constraints, kv{cst.K, satisfiedValue(r, v)})
				} else {
					a.Constraints = kvDel(a.Constraints, cst.K)
				}
			}
		}
	}
	first := tasks[0]
	a0 := &sc.Agents[0]
	pin := func(tr *roleSpec, host string) {
		for i, cst := range tr.Constraints {
			if cst.K == "machine_id" {
				tr.Constraints[i].V = host
				return
			}
		}
		tr.Constraints = append(tr.Constraints, kv{"machine_id", host})
	}
	switch fl {
	case "tight-cpu":
		// every task is pinned to agent host1, which has room for one of them only
		for _, tr := range tasks {
			pin(tr, a0.Host)
			tr.Task.CPU = first.Task.CPU
		}
		a0.CPU = first.Task.CPU + 0.01 + 0.02
		sc.Notes = append(sc.Notes, "agent host1 has cpu for one task only")
	case "tight-mem":
		for _, tr := range tasks {
			pin(tr, a0.Host)
			tr.Task.Mem = first.Task.Mem
		}
		a0.Mem = first.Task.Mem + 64 + 8
		sc.Notes = append(sc.Notes, "agent host1 has memory for one task only")
	case "exact-cpu":
		for _, tr := range tasks {
			tr.Task.CPU = 1 // never fits host1
		}
		pin(first, a0.Host)
		first.Task.CPU = 0.5
		a0.CPU = 0.5
		sc.Notes = append(sc.Notes, "agent host1 offers exactly the cpu the first task's template wants (nothing left for the executor's share)")
	case "exact-mem":
		for _, tr := range tasks {
			tr.Task.Mem = 512
		}
		pin(first, a0.Host)
		first.Task.Mem = 256
		a0.Mem = 256
		sc.Notes = append(sc.Notes, "agent host1 offers exactly the memory the first task's template wants")
	case "static-vs-dynamic":
		pin(first, a0.Host)
		first.Task.Ports = pick(r, "9000-9001", "9000", "9000-9002,9005")
		first.Task.Bind = append(first.Task.Bind, chanSpec{Name: "dyn", Type: "push", Addressing: "tcp"})
		if first.Task.Mode == "basic" {
			first.Task.Mode = "direct"
		}
		a0.Ports = [][2]uint64{{9000, 9100}, {30000, 30100}}
		sc.Notes = append(sc.Notes, "static range starts at the lowest offered port >= 9000 and the task also binds a tcp channel")
	case "static-vs-control":
		pin(first, a0.Host)
		first.Task.Ports = pick(r, "30000", "30000-30001")
		first.Task.Mode = pick(r, "direct", "fairmq")
		a0.Ports = [][2]uint64{{9000, 9100}, {30000, 30100}}
		sc.Notes = append(sc.Notes, "static range starts at the lowest offered port >= 30000 of a controllable task")
	case "same-static-twice":
		for i, tr := range tasks {
			if i < 2 {
				pin(tr, a0.Host)
				tr.Task.Ports = "8000-8002"
			}
		}
		a0.Ports = [][2]uint64{{8000, 8010}, {9000, 9040}, {30000, 30040}}
		sc.Notes = append(sc.Notes, "two tasks on one agent ask for the same static range")
	case "port-starved":
		pin(first, a0.Host)
		first.Task.Bind = []chanSpec{{Name: "in0", Type: "push", Addressing: "tcp"}, {Name: "in1", Type: "pull"}}
		first.Bind = nil
		first.Task.Ports = ""
		a0.Ports = [][2]uint64{{9000, 9000}, {30000, 30000}}
		sc.Notes = append(sc.Notes, "agent host1 offers two ports; the first task needs two dynamic ports and a control port")
	case "no-high-ports":
		pin(first, a0.Host)
		a0.Ports = [][2]uint64{{9000, 9050}}
		if r.Intn(2) == 0 {
			a0.Ports = [][2]uint64{{5000, 5010}}
		}
		sc.Notes = append(sc.Notes, "agent host1 offers no port >= 30000")
	case "host-absent":
		pin(tasks[len(tasks)-1], "host9")
		sc.Notes = append(sc.Notes, "one task is pinned to a host that is never offered: the whole round is abandoned and every offer must be declined")
	case "unsat-constraint":
		tasks[len(tasks)-1].Constraints = append(tasks[len(tasks)-1].Constraints, kv{"colour", "blue"})
		sc.Notes = append(sc.Notes, "one task asks for an attribute no agent has")
	case "nearest-unsat":
		// farther level satisfied by every agent, nearest definition satisfied by none: must not be launched
		tr := tasks[len(tasks)-1]
		for i := range sc.Agents {
			sc.Agents[i].Attrs["tier"] = "t1"
		}
		par := tr.parentOf(root)
		par.Constraints = append(par.Constraints, kv{"tier", "t1"})
		tr.Constraints = append(tr.Constraints, kv{"tier", "nowhere"})
		sc.Notes = append(sc.Notes, "the nearest definition of tier for "+tr.Name+" is satisfied by no agent, a farther one by all")
	}
	root.link(nil)
	return sc
}

func kvDel(kvs []kv, k string) []kv {
	var out []kv
	for _, e := range kvs {
		if e.K != k {
			out = append(out, e)
		}
	}
	return out
}

// helpers that work before link() has been called
func (r *roleSpec) parentOf(root *roleSpec) *roleSpec {
	var find func(p *roleSpec) *roleSpec
	find = func(p *roleSpec) *roleSpec {
		for _, ch := range p.Children {
			if ch == r {
				return p
			}
			if f := find(ch); f != nil {
				return f
			}
		}
		return nil
	}
	return find(root)
}

func (r *roleSpec) ancestorsIn(root *roleSpec) []*roleSpec {
	var out []*roleSpec
	for p := r.parentOf(root); p != nil; p = p.parentOf(root) {
		out = append(out, p)
	}
	return out
}

// ---- reference: effective constraints --------------------------------------------------

type c05Constraint struct {
	Attr   string   `json:"attr"`
	Values []string `json:"accepted_values"` // more than one only when template and role chain both define it
	Level  string   `json:"level"`
}

// effectiveConstraints: every attribute constrained at the template or on the role
// chain; the nearest role-level definition wins among roles. Whether the template
// is nearer or farther than the roles is not said by the statement: if both define
// the attribute with different values, an agent satisfying either is accepted.
func effectiveConstraints(tr *roleSpec) []c05Constraint {
	seen := map[string]int{}
	var out []c05Constraint
	for depth, p := range tr.chain() {
		for _, cst := range p.Constraints {
			if _, ok := seen[cst.K]; ok {
				continue
			}
			seen[cst.K] = len(out)
			lvl := "role"
			if depth == 1 {
				lvl = "parent"
			} else if depth > 1 {
				lvl = "ancestor"
			}
			out = append(out, c05Constraint{Attr: cst.K, Values: []string{cst.V}, Level: lvl})
		}
	}
	for _, cst := range tr.Task.Constraints {
		if i, ok := seen[cst.K]; ok {
			if out[i].Values[0] != cst.V {
				out[i].Values = append(out[i].Values, cst.V)
				out[i].Level += "|template"
			}
			continue
		}
		seen[cst.K] = len(out)
		out = append(out, c05Constraint{Attr: cst.K, Values: []string{cst.V}, Level: "template"})
	}
	return out
}

// ---- run -------------------------------------------------------------------------------

func runC05B() {
	c := vlib.Start("C05B")
	defer c.Finish()
	n := 40
	if c.Tier == "thorough" {
		n = 400
	}
	lo, hi := only(c.Slice(n))
	parallel(lo, hi, 3, func(i int) { c05Run(c, i) })
}

type c05TaskObs struct {
	Role     string   `json:"role"`
	Task     string   `json:"task"`
	Agent    string   `json:"agent"`
	Offer    string   `json:"offer"`
	Executor string   `json:"executor"`
	Mode     string   `json:"mode"`
	CPU      float64  `json:"cpu"`
	Mem      float64  `json:"mem"`
	Ports    []uint64 `json:"ports"`
	Control  uint64   `json:"control_port"`
}

type c05Obs struct {
	Scenario c05Scenario          `json:"scenario"`
	Steps    []string             `json:"steps"`
	Offers   []simmesos.OfferView `json:"offers"`
	Tasks    []c05TaskObs         `json:"tasks"`
}

const eps = 1e-9

func c05Run(c *vlib.Ctx, idx int) {
	sc := c05Gen(c, idx)
	id := c.Case(map[string]interface{}{"index": idx, "flavour": sc.Flavour, "agents": sc.Agents, "workflow": sc.Root})
	if idx%13 == 1 {
		c.Sample(map[string]interface{}{"index": idx, "flavour": sc.Flavour, "agents": sc.Agents, "workflow": sc.Root})
	}
	obs := &c05Obs{Scenario: sc}
	files := sc.Root.files()
	// the flush workflow: its REVIVE proves that the previous deployment request was fully processed
	flushTpl := &tplSpec{Name: sc.Root.Name + "-flush", Mode: "direct", CPU: 0.1, Mem: 32}
	flush := &roleSpec{Name: sc.Root.Name + "f", Defaults: []kv{{"hosts", `["hostF"]`}, {"deploy_timeout", "20s"}},
		Children: []*roleSpec{{Name: "flush", Task: flushTpl, Critical: true, Constraints: []kv{{"machine_id", "hostF"}}}}}
	for k, v := range flush.files() {
		files[k] = v
	}
	var agents []*simmesos.Agent
	dets := map[string][]string{"FLU": {"hostF"}}
	detNames := []string{"TST", "ITS", "TPC"}
	for j, a := range sc.Agents {
		agents = append(agents, &simmesos.Agent{ID: "agent-" + a.Host, Hostname: a.Host, Attributes: a.Attrs, CPU: a.CPU, Mem: a.Mem, Ports: a.Ports, ExecutorIDs: a.Execs})
		dets[detNames[j%3]] = append(dets[detNames[j%3]], a.Host)
	}
	agents = append(agents, &simmesos.Agent{ID: "agent-hostF", Hostname: "hostF", Attributes: map[string]string{"machine_id": "hostF"}, CPU: 1, Mem: 1024, Ports: [][2]uint64{{9000, 9010}, {30000, 30010}}})
	s, err := coresim.Start(coresim.Options{Agents: agents, Detectors: dets, Files: files})
	if err != nil {
		c.Inconclusive("coresim start: " + truncate(err.Error(), 4000))
		return
	}
	var phase int32
	s.Master.OfferFilter = func(a *simmesos.Agent) bool {
		if atomic.LoadInt32(&phase) == 0 {
			return a.Hostname != "hostF"
		}
		return a.Hostname == "hostF"
	}
	s.Master.OnLaunch = func(t *simmesos.LaunchedTask) simmesos.LaunchPlan {
		return simmesos.LaunchPlan{Kind: "running", Delay: 30 * time.Millisecond}
	}
	s.Master.OfferDelay = offerDelay()
	crashed := false
	defer func() {
		if debugOn() {
			for _, rec := range s.Master.Log() {
				if rec.Type == "OFFER" || rec.Type == "ACCEPT" || rec.Type == "DECLINE" || rec.Type == "REVIVE" || rec.Type == "LAUNCH" {
					fmt.Println(jsonS(rec))
				}
			}
			fmt.Println(strings.Join(obs.Steps, "\n"))
		}
		s.Close()
	}()

	ctx, cancel := coresim.Ctx(120 * time.Second)
	t0 := time.Now()
	reply1, cerr := s.Client.NewEnvironment(ctx, &pb.NewEnvironmentRequest{WorkflowTemplate: sc.Root.Name, Vars: map[string]string{}})
	cancel()
	obs.Steps = append(obs.Steps, fmt.Sprintf("NewEnvironment(%s) err=%q in %s", sc.Root.Name, truncate(grpcMsg(cerr), 300), time.Since(t0).Round(time.Millisecond)))
	c.Count("deployments_driven", 1)
	gen2Seq := int64(-1) // tasks launched after this point belong to the second generation (template-edit)
	if sc.Root2 != nil {
		if cerr != nil {
			c.Inconclusive(fmt.Sprintf("scenario %d: first-generation environment could not be created: %s", idx, truncate(grpcMsg(cerr), 300)))
		} else {
			step := func(what string, err error) bool {
				obs.Steps = append(obs.Steps, fmt.Sprintf("%s err=%q", what, truncate(grpcMsg(err), 300)))
				if err != nil {
					c.Inconclusive(fmt.Sprintf("scenario %d: %s failed: %s", idx, what, truncate(grpcMsg(err), 300)))
				}
				return err == nil
			}
			ctx, cancel = coresim.Ctx(120 * time.Second)
			_, derr := s.Client.DestroyEnvironment(ctx, &pb.DestroyEnvironmentRequest{Id: reply1.GetEnvironment().GetId()})
			cancel()
			ok := step("DestroyEnvironment(generation 1)", derr)
			// rewrite the task templates in the scratch repository (a new commit), let the core fetch it
			if ok {
				for k, v := range sc.Root2.files() {
					if strings.HasPrefix(k, "tasks/") {
						if werr := os.WriteFile(filepath.Join(s.RepoDir, k), []byte(v), 0o644); werr != nil {
							ok = step("rewrite "+k, werr)
						}
					}
				}
			}
			if ok {
				for _, args := range [][]string{{"add", "-A"}, {"-c", "user.name=verif", "-c", "user.email=verif@example.invalid", "commit", "-q", "-m", "templates v2"}} {
					cmd := exec.Command("git", args...)
					cmd.Dir = s.RepoDir
					if out, gerr := cmd.CombinedOutput(); gerr != nil {
						ok = step("git "+args[len(args)-1], fmt.Errorf("%v: %s", gerr, out))
					}
				}
			}
			if ok {
				ctx, cancel = coresim.Ctx(60 * time.Second)
				_, rerr := s.Client.RefreshRepos(ctx, &pb.RefreshReposRequest{Index: -1})
				cancel()
				ok = step("RefreshRepos", rerr)
			}
			if ok {
				gen2Seq = s.Master.Note("GENERATION_2", nil)
				ctx, cancel = coresim.Ctx(120 * time.Second)
				t2 := time.Now()
				_, cerr = s.Client.NewEnvironment(ctx, &pb.NewEnvironmentRequest{WorkflowTemplate: sc.Root.Name, Vars: map[string]string{}})
				cancel()
				obs.Steps = append(obs.Steps, fmt.Sprintf("NewEnvironment(%s, templates v2) err=%q in %s", sc.Root.Name, truncate(grpcMsg(cerr), 300), time.Since(t2).Round(time.Millisecond)))
				c.Count("deployments_driven", 1)
				c.Count("second_generation_deployments", 1)
			}
		}
	}
	if os.Getenv("VERIF_TRACE") != "" {
		fmt.Fprintf(os.Stderr, "TRACE %d %s: %s\n", idx, sc.Flavour, truncate(grpcMsg(cerr), 260))
	}
	if strings.Contains(grpcMsg(cerr), "DeadlineExceeded") {
		// not this property's subject (C02/C06); without the answer the round cannot be delimited
		c.Inconclusive(fmt.Sprintf("scenario %d: NewEnvironment did not return within 120 s; blocked goroutines: %s", idx, truncate(s.DumpGoroutines(), 3000)))
	}
	if cerr == nil {
		c.Count("deployments_succeeded", 1)
	}
	flushSeq := int64(-1)
	if len(unansweredAtRevive(s.Master)) == 0 && s.CoreAlive() && s.CoreCrash() == "" {
		mark := s.Master.Note("FLUSH_PHASE", nil)
		atomic.StoreInt32(&phase, 1)
		ctx, cancel = coresim.Ctx(90 * time.Second)
		t1 := time.Now()
		_, ferr := s.Client.NewEnvironment(ctx, &pb.NewEnvironmentRequest{WorkflowTemplate: flush.Name, Vars: map[string]string{}})
		cancel()
		obs.Steps = append(obs.Steps, fmt.Sprintf("NewEnvironment(flush) err=%q in %s", truncate(grpcMsg(ferr), 200), time.Since(t1).Round(time.Millisecond)))
		if strings.Contains(grpcMsg(ferr), "DeadlineExceeded") {
			// a later creation request that never starts its deployment: the previous request still holds the
			// deployment lock. Not this property's subject; reported so that it is not lost.
			c.Count("later_creation_blocked", 1)
			obs.Steps = append(obs.Steps, "blocked goroutines: "+truncate(s.DumpGoroutines(), 4000))
		}
		for _, rec := range s.Master.Log() {
			if rec.Seq > mark && rec.Kind == "call" && rec.Type == "REVIVE" {
				flushSeq = rec.Seq
				break
			}
		}
	}
	if d := time.Since(t0); d > 20*time.Second {
		fmt.Fprintf(os.Stderr, "C05B scenario %d (%s) slow: %s\n", idx, sc.Flavour, strings.Join(obs.Steps, " | "))
	}
	crashed = finishSim(c, s, id, obs)
	if crashed {
		c.Count("core_crashes", 1)
	}

	// ---------------- oracle: everything from the master's log ----------------
	specByPath := map[string]*roleSpec{}
	spec2ByPath := map[string]*roleSpec{}
	if sc.Root2 != nil {
		for _, tr := range sc.Root2.taskRoles() {
			spec2ByPath[tr.path] = tr
		}
	}
	for _, tr := range sc.Root.taskRoles() {
		specByPath[tr.path] = tr
	}
	agentBy := map[string]c05Agent{}
	for _, a := range sc.Agents {
		agentBy["agent-"+a.Host] = a
	}
	offers := s.Master.OffersView()
	obs.Offers = offers
	offerBy := map[string]simmesos.OfferView{}
	for _, o := range offers {
		offerBy[o.ID] = o
	}
	tasks := s.Master.Tasks()
	perOffer := map[string][]simmesos.LaunchedTask{}
	for _, t := range tasks {
		obs.Tasks = append(obs.Tasks, c05TaskObs{Role: t.RolePath, Task: t.ID, Agent: t.AgentID, Offer: t.OfferID, Executor: t.ExecutorID, Mode: t.Mode, CPU: t.CPU, Mem: t.Mem, Ports: t.Ports, Control: t.ControlPort})
		perOffer[t.OfferID] = append(perOffer[t.OfferID], t)
	}
	viol := func(rule, class, detail string) {
		c.Violation(rule, class, fmt.Sprintf("%s [scenario %d, %s]", detail, idx, sc.Flavour), id, obs)
	}
	inRanges := func(p uint64, rs [][2]uint64) bool {
		for _, rg := range rs {
			if p >= rg[0] && p <= rg[1] {
				return true
			}
		}
		return false
	}
	nLaunched := 0
	fpParts := []string{sc.Flavour, fmt.Sprint(len(sc.Agents))}
	for _, o := range offers {
		ts := perOffer[o.ID]
		if len(ts) == 0 {
			continue
		}
		c.Count("offers_used", 1)
		if len(ts) > 1 {
			c.Count("offers_with_2plus_tasks", 1)
		}
		var sumCPU, sumMem float64
		type owner struct {
			role, kind string
		}
		portOwner := map[uint64]owner{}
		for _, t := range ts {
			tr := specByPath[t.RolePath]
			if gen2Seq > 0 && t.SeqLaunch > gen2Seq && spec2ByPath[t.RolePath] != nil {
				tr = spec2ByPath[t.RolePath] // launched for the environment created after the templates were rewritten
				c.Count("second_generation_tasks_launched", 1)
			}
			if tr == nil {
				continue // the flush task
			}
			nLaunched++
			c.Count("tasks_launched", 1)
			ag, ok := agentBy[t.AgentID]
			if !ok {
				viol("PLACEMENT", "unknown-agent", fmt.Sprintf("task %s launched on agent %s which made no offer", t.RolePath, t.AgentID))
				continue
			}
			if o.AgentID != t.AgentID {
				viol("PLACEMENT", "agent-differs-from-offer", fmt.Sprintf("task %s names agent %s but was accepted on offer %s of agent %s", t.RolePath, t.AgentID, o.ID, o.AgentID))
			}
			// 1. constraints
			for _, ec := range effectiveConstraints(tr) {
				c.Count("constraints_checked", 1)
				sat := false
				for _, v := range ec.Values {
					if attrSat(ag.Attrs, ec.Attr, v) {
						sat = true
						if strings.Contains(ag.Attrs[ec.Attr], ",") {
							c.Count("constraints_met_by_list_membership", 1)
						}
					}
				}
				if ec.Level != "role" && ec.Level != "template" {
					c.Count("constraints_from_enclosing_roles", 1)
				}
				if !sat {
					have, present := ag.Attrs[ec.Attr]
					what := "attribute-absent"
					if present {
						what = "value-mismatch"
					}
					viol("CONSTRAINT", fmt.Sprintf("unsatisfied/%s/%s", ec.Level, what),
						fmt.Sprintf("task %s was launched on %s although its effective constraint %s=%v (defined at %s level) is not satisfied there (agent has %q, present=%v)", t.RolePath, ag.Host, ec.Attr, ec.Values, ec.Level, have, present))
				}
			}
			// 2. sums
			sumCPU += t.CPU
			sumMem += t.Mem
			if t.CPU+eps < tr.Task.CPU || t.Mem+eps < tr.Task.Mem {
				viol("RESOURCES", "request-below-wants", fmt.Sprintf("task %s asks for cpu %g mem %g in the ACCEPT, its template wants cpu %g mem %g", t.RolePath, t.CPU, t.Mem, tr.Task.CPU, tr.Task.Mem))
			}
			// 3.-5. ports
			static := parsePorts(tr.Task.Ports)
			staticSet := map[uint64]bool{}
			for _, p := range static {
				staticSet[p] = true
			}
			have := map[uint64]bool{}
			for _, p := range t.Ports {
				have[p] = true
			}
			for _, p := range static {
				c.Count("static_ports_checked", 1)
				if !have[p] {
					viol("PORTS", "static-range-not-as-written", fmt.Sprintf("task %s: static port %d of %q is not among the ports requested %v", t.RolePath, p, tr.Task.Ports, t.Ports))
					break
				}
			}
			nTCP := 0
			for _, ch := range mergedInbound(tr) {
				if ch.Addressing != "ipc" {
					nTCP++
				}
			}
			controllable := t.Mode == "direct" || t.Mode == "fairmq"
			if controllable != (tr.Task.Mode == "direct" || tr.Task.Mode == "fairmq") {
				viol("PLACEMENT", "control-mode-differs", fmt.Sprintf("task %s launched with mode %s, template says %s", t.RolePath, t.Mode, tr.Task.Mode))
			}
			if controllable {
				c.Count("controllable_tasks", 1)
				if t.ControlPort == 0 {
					viol("PORTS", "control-port-missing", fmt.Sprintf("controllable task %s (%s) was given no control port", t.RolePath, t.Mode))
				} else {
					if !have[t.ControlPort] {
						viol("PORTS", "control-port-not-requested", fmt.Sprintf("task %s: control port %d is not among the ports requested from the offer %v", t.RolePath, t.ControlPort, t.Ports))
					}
					if staticSet[t.ControlPort] {
						viol("PORTS", "not-distinct/within-task/control-in-static-range", fmt.Sprintf("task %s: control port %d lies inside its own static range %q", t.RolePath, t.ControlPort, tr.Task.Ports))
					}
					if t.ControlPort < 30000 {
						c.Count("control_port_below_30000", 1)
					}
				}
			} else if t.ControlPort != 0 {
				viol("PORTS", "control-port-for-uncontrollable-task", fmt.Sprintf("task %s (%s) was told control port %d", t.RolePath, t.Mode, t.ControlPort))
			}
			other := 0 // ports that are neither static nor the announced control port
			for p := range have {
				if !staticSet[p] && !(controllable && p == t.ControlPort) {
					other++
					if p < 9000 {
						c.Count("dynamic_port_below_9000", 1)
					}
				}
			}
			c.Count("inbound_tcp_channels", int64(nTCP))
			if b := sc.PortBudget[tr.Name]; b != "" {
				c.Count("override_bind_tasks_launched", 1)
				c.Count("override_bind_launched_on_"+b+"_ports", 1)
			}
			// what the task is told at CONFIGURE: every inbound channel it declares has an address (cheap echo of C13)
			if controllable {
				for _, cmd := range t.Commands {
					if cmd.Event != "CONFIGURE" {
						continue
					}
					for _, ch := range mergedInbound(tr) {
						c.Count("configured_inbound_channels_checked", 1)
						if _, ok := cmd.Arguments["chans."+ch.Name+".0.address"]; !ok {
							viol("CONFIGURE", "inbound-channel-without-address", fmt.Sprintf("task %s was configured without chans.%s.0.address although it declares the inbound channel %s (ports of its ACCEPT: %v)", t.RolePath, ch.Name, ch.Name, t.Ports))
						}
					}
				}
			}
			if other < nTCP {
				viol("PORTS", "not-distinct/within-task/dynamic-port-shared", fmt.Sprintf("task %s binds %d tcp channel(s) but only %d requested port(s) are neither static (%q) nor its control port %d: a tcp channel got no port of its own (it shares one with another port of the task, or was given none) (ports %v)", t.RolePath, nTCP, other, tr.Task.Ports, t.ControlPort, t.Ports))
			}
			extra := other - nTCP
			if !controllable && extra == 1 {
				c.Count("uncontrollable_task_with_spare_port", 1) // the code claims a control port for every task; recorded, not judged
			} else if extra > 0 {
				viol("PORTS", "more-ports-than-asked", fmt.Sprintf("task %s requests %d port(s) beyond its static ranges, %d tcp channel(s) and control port (ports %v)", t.RolePath, extra, nTCP, t.Ports))
			}
			for p := range have {
				kind := "dynamic"
				if staticSet[p] {
					kind = "static"
				} else if controllable && p == t.ControlPort {
					kind = "control"
				}
				c.Count("ports_checked", 1)
				if !inRanges(p, o.Ports) {
					viol("PORTS", "outside-offer/"+kind, fmt.Sprintf("task %s: %s port %d is not in offer %s of %s (ranges %v)", t.RolePath, kind, p, o.ID, ag.Host, o.Ports))
				}
				if prev, dup := portOwner[p]; dup {
					ks := []string{prev.kind, kind}
					sort.Strings(ks)
					viol("PORTS", "not-distinct/across-tasks/"+strings.Join(ks, "+"), fmt.Sprintf("port %d on %s is given to %s (%s) and to %s (%s) from the same offer", p, ag.Host, prev.role, prev.kind, t.RolePath, kind))
				} else {
					portOwner[p] = owner{t.RolePath, kind}
				}
			}
			if len(o.Ports) > 0 && len(ag.Execs) > 0 {
				c.Count("tasks_on_offers_with_executor_ids", 1)
			}
		}
		nt := "single-task"
		if len(ts) > 1 {
			nt = "multi-task"
		}
		c.Count("offer_sums_checked", 1)
		if sumCPU > o.CPU+eps {
			viol("OVERCOMMIT", "cpu/"+nt, fmt.Sprintf("offer %s of %s has cpus %g; the ACCEPT launches %d task(s) asking for %g in total", o.ID, o.Hostname, o.CPU, len(ts), sumCPU))
		}
		if sumMem > o.Mem+eps {
			viol("OVERCOMMIT", "mem/"+nt, fmt.Sprintf("offer %s of %s has mem %g; the ACCEPT launches %d task(s) asking for %g in total", o.ID, o.Hostname, o.Mem, len(ts), sumMem))
		}
		if (o.CPU < 4 || o.Mem < 2048) && o.Hostname != "hostF" {
			c.Count("tight_offers_used", 1)
		}
	}
	// 6. offers that are not used are declined. A deployment request sends its REVIVE only after the
	// previous request's offers round has reported its outcome, which the OFFERS handler does after its
	// DECLINE call; offers are only ever sent in answer to a REVIVE. So when a REVIVE arrives, every offer
	// sent before it has been through its handler: one that is still unanswered then was not declined.
	unanswered := unansweredAtRevive(s.Master)
	for _, u := range unanswered {
		viol("DECLINE", "unused-offer-never-answered", fmt.Sprintf("offer %s of %s (sent at seq %d) was neither accepted nor declined when the next deployment request arrived (REVIVE at seq %d)", u.offer, u.host, u.offerSeq, u.reviveSeq))
		break
	}
	lastRevive := lastReviveSeq(s.Master)
	for _, o := range offers {
		if o.Seq < lastRevive {
			c.Count("offers_judged_for_decline", 1)
			if len(perOffer[o.ID]) == 0 {
				c.Count("unused_offers", 1)
			}
		}
	}
	for _, rec := range s.Master.Log() {
		if rec.Kind == "call" && rec.Type == "DECLINE" && rec.Seq < lastRevive {
			c.Count("decline_calls", 1)
		}
	}
	if flushSeq < 0 && len(unanswered) == 0 && !crashed {
		c.Inconclusive(fmt.Sprintf("scenario %d: the flush deployment request never reached the master; the last offers round cannot be judged for declines (steps: %s)", idx, strings.Join(obs.Steps, " | ")))
	}
	for name, b := range sc.PortBudget {
		if b != "fewer" {
			continue
		}
		launched := false
		for _, t := range tasks {
			if strings.HasSuffix(t.RolePath, "."+name) {
				launched = true
			}
		}
		if !launched {
			c.Count("override_bind_not_launched_for_lack_of_ports", 1)
		}
	}
	if sc.Flavour == "host-absent" && !crashed {
		c.Count("rounds_abandoned_for_absent_host", 1)
	}
	fpParts = append(fpParts, fmt.Sprint(nLaunched), fmt.Sprint(len(sc.Root.taskRoles())))
	c.Nontrivial(vlib.Hash("c05b", strings.Join(fpParts, "|")))
}

// mergedInbound: the inbound channels of a task role: template-level ones and those
// declared on the role chain, one per name.
func mergedInbound(tr *roleSpec) []chanSpec {
	seen := map[string]bool{}
	var out []chanSpec
	for _, p := range tr.chain() {
		for _, ch := range p.Bind {
			if !seen[ch.Name] {
				seen[ch.Name] = true
				out = append(out, ch)
			}
		}
	}
	for _, ch := range tr.Task.Bind {
		if !seen[ch.Name] {
			seen[ch.Name] = true
			out = append(out, ch)
		}
	}
	return out
}

type unansweredOffer struct {
	offer, host         string
	offerSeq, reviveSeq int64
}

func lastReviveSeq(m *simmesos.Master) int64 {
	last := int64(0)
	for _, rec := range m.Log() {
		if rec.Kind == "call" && rec.Type == "REVIVE" && rec.Status == 202 {
			last = rec.Seq
		}
	}
	return last
}

// unansweredAtRevive lists offers that had been sent, and not been mentioned in any
// ACCEPT or DECLINE call, when a later REVIVE call arrived.
func unansweredAtRevive(m *simmesos.Master) []unansweredOffer {
	log := m.Log()
	answered := map[string]int64{}
	for _, rec := range log {
		if rec.Kind == "call" && (rec.Type == "ACCEPT" || rec.Type == "DECLINE") && rec.Status == 202 {
			if ids, ok := rec.F["offers"].([]string); ok {
				for _, id := range ids {
					if _, seen := answered[id]; !seen {
						answered[id] = rec.Seq
					}
				}
			}
		}
	}
	var out []unansweredOffer
	seen := map[string]bool{}
	for _, rv := range log {
		if rv.Kind != "call" || rv.Type != "REVIVE" || rv.Status != 202 {
			continue
		}
		for _, o := range log {
			if o.Kind != "event" || o.Type != "OFFER" || o.Seq > rv.Seq {
				continue
			}
			id, _ := o.F["offer"].(string)
			host, _ := o.F["host"].(string)
			if a, ok := answered[id]; (!ok || a > rv.Seq) && !seen[id] {
				seen[id] = true
				out = append(out, unansweredOffer{id, host, o.Seq, rv.Seq})
			}
		}
	}
	return out
}

// c05GenOverrideBind: three agents, one pinned fairmq/direct task each. Every task template declares 3-4
// inbound tcp channels; the task role, or an aggregator around it, declares a channel with the NAME of the
// first or of a middle one of them again (other type / transport / global alias, once ipc addressing), so
// that further template channels follow the overridden one. The agent offers exactly as many ports as the
// task needs (one per tcp channel from 9000 on, and 30000 for the control port), one fewer, or plenty.
func c05GenOverrideBind(sc c05Scenario, r *rand.Rand, wf string) c05Scenario {
	cycle := sc.Index / len(c05Flavours)
	budgets := []string{"exact", "plenty", "exact"}
	if cycle%2 == 1 {
		budgets = []string{"exact", "fewer", "plenty"}
	}
	root := &roleSpec{Name: wf, Defaults: []kv{{"hosts", `["host1"]`}, {"deploy_timeout", "6s"}}}
	sc.Root = root
	sc.PortBudget = map[string]string{}
	types := []string{"push", "pull", "pub", "sub"}
	for j, budget := range budgets {
		host := fmt.Sprintf("host%d", j+1)
		n := 3 + r.Intn(2)
		tpl := &tplSpec{Name: fmt.Sprintf("%s-ob%d", wf, j), Mode: pick(r, "fairmq", "direct"), CPU: 0.1, Mem: 32}
		for b := 0; b < n; b++ {
			tpl.Bind = append(tpl.Bind, chanSpec{Name: fmt.Sprintf("in%d", b), Type: types[r.Intn(4)], Transport: "zeromq", Addressing: "tcp"})
		}
		over := 0 // the first one
		if (j+cycle)%2 == 1 {
			over = 1 + r.Intn(n-2) // a middle one
		}
		ovr := chanSpec{Name: tpl.Bind[over].Name, Type: types[r.Intn(4)], Transport: "shmem", Addressing: "tcp"}
		switch r.Intn(3) {
		case 0:
			ovr.Global = fmt.Sprintf("ob-alias-%d", j)
		case 1:
			if j == 2 {
				ovr.Addressing = "ipc"
			}
		}
		role := &roleSpec{Name: fmt.Sprintf("ob%d", j), Task: tpl, Critical: true, Constraints: []kv{{"machine_id", host}}}
		where := "task role"
		if j%2 == 1 {
			g := &roleSpec{Name: fmt.Sprintf("g%d", j+1), Children: []*roleSpec{role}, Bind: []chanSpec{ovr}}
			root.Children = append(root.Children, g)
			where = "aggregator " + g.Name
		} else {
			role.Bind = []chanSpec{ovr}
			root.Children = append(root.Children, role)
		}
		root.link(nil)
		nTCP := 0
		for _, ch := range mergedInbound(role) {
			if ch.Addressing != "ipc" {
				nTCP++
			}
		}
		a := c05Agent{Host: host, Attrs: map[string]string{"machine_id": host, "site": "p2"}, CPU: 16, Mem: 16384,
			Ports: [][2]uint64{{9000, 9100}, {30000, 30100}}}
		switch budget {
		case "exact":
			a.Ports = [][2]uint64{{9000, 9000 + uint64(nTCP) - 1}, {30000, 30000}}
		case "fewer":
			a.Ports = [][2]uint64{{9000, 9000 + uint64(nTCP) - 2}, {30000, 30000}}
		}
		sc.Agents = append(sc.Agents, a)
		sc.PortBudget[role.Name] = budget
		sc.Notes = append(sc.Notes, fmt.Sprintf("%s: template binds %d tcp channels, %s declares %s again (%d tcp channels in effect); agent %s offers %s ports: %v", role.Name, n, where, ovr.Name, nTCP, host, budget, a.Ports))
	}
	root.link(nil)
	return sc
}

// c05GenTemplateEdit: two generations of the same workflow on one core life. Between them the task
// template files are rewritten: command and wants stay, the template-level constraint moves from one
// value of an agent attribute to another (so the task has to move to the other agent) and one more
// inbound tcp channel is declared. Everything launched for the second environment is judged by v2.
func c05GenTemplateEdit(sc c05Scenario, r *rand.Rand, wf string) c05Scenario {
	attr := pick(r, "rack", "kind", "zone")
	v1, v2 := c05AttrPool[attr][0], c05AttrPool[attr][1]
	if r.Intn(2) == 0 {
		v1, v2 = v2, v1
	}
	for j, v := range []string{v1, v2} {
		h := fmt.Sprintf("host%d", j+1)
		sc.Agents = append(sc.Agents, c05Agent{Host: h, Attrs: map[string]string{"machine_id": h, "site": "p2", attr: v}, CPU: 16, Mem: 16384,
			Ports: [][2]uint64{{9000, 9100}, {30000, 30100}}})
	}
	build := func(gen int) *roleSpec {
		rr := scRandCopy(sc.Index, 77) // the same choices in both generations
		root := &roleSpec{Name: wf, Defaults: []kv{{"hosts", `["host1"]`}, {"deploy_timeout", "6s"}}}
		n := 1 + rr.Intn(2)
		for t := 0; t < n; t++ {
			tpl := &tplSpec{Name: fmt.Sprintf("%s-te%d", wf, t), Mode: []string{"fairmq", "direct", "basic"}[rr.Intn(3)],
				CPU: []float64{0.1, 0.25}[rr.Intn(2)], Mem: []float64{32, 128}[rr.Intn(2)]}
			nb := 1 + rr.Intn(2)
			for b := 0; b < nb; b++ {
				tpl.Bind = append(tpl.Bind, chanSpec{Name: fmt.Sprintf("in%d", b), Type: "push", Addressing: "tcp"})
			}
			tpl.Constraints = []kv{{attr, v1}}
			if gen == 2 {
				tpl.Constraints = []kv{{attr, v2}}
				tpl.Bind = append(tpl.Bind, chanSpec{Name: "added", Type: "pull", Addressing: "tcp"})
			}
			role := &roleSpec{Name: fmt.Sprintf("te%d", t), Task: tpl, Critical: true}
			root.Children = append(root.Children, role)
		}
		// a bystander whose template does not change
		root.Children = append(root.Children, &roleSpec{Name: "same", Critical: true, Task: &tplSpec{Name: wf + "-same", Mode: "direct", CPU: 0.1, Mem: 32,
			Bind: []chanSpec{{Name: "in0", Type: "push", Addressing: "tcp"}}}})
		root.link(nil)
		return root
	}
	sc.Root, sc.Root2 = build(1), build(2)
	sc.Notes = append(sc.Notes, fmt.Sprintf("templates rewritten between two environments: constraint %s=%s -> %s=%s, one more inbound tcp channel; command and wants unchanged", attr, v1, attr, v2))
	return sc
}

func scRandCopy(idx int, salt int64) *rand.Rand {
	return rand.New(rand.NewSource(int64(idx)*7919 + salt))
}
