// mon-env: runtime monitors that drive a REAL core/environment.Environment
// (verif/harness/envlab) from inside the monitor process.
//
//	C10     run number and run timestamps bracket every run exactly once
//	C01INP  in-process part of C01: state graph and one-transition-at-a-time at the
//	        TryTransition / Manager.TeardownEnvironment level (the gRPC level is C01API in simdrv)
//
//	mon-env C10|C01INP --seed S --tier quick|thorough --batch i --nbatch n --out dir
//	mon-env C10|C01INP --replay violation.json     (re-runs the recorded case only and prints its records)
package main

import (
	"fmt"
	"os"
)

func main() {
	if len(os.Args) < 2 {
		fmt.Fprintln(os.Stderr, "usage: mon-env C10|C01INP [flags]")
		os.Exit(2)
	}
	switch os.Args[1] {
	case "C10":
		runC10()
	case "C01INP":
		runC01()
	default:
		fmt.Fprintln(os.Stderr, "unknown property", os.Args[1])
		os.Exit(2)
	}
}
