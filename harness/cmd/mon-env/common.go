package main

import (
	"encoding/json"
	"fmt"
	"os"
	"strings"

	"verif/harness/envlab"
	"verif/harness/vlib"
)

// The events a request can name at this level (EXIT and RECOVER are in the FSM
// table but no entry point of the core can request them: never driven).
var lifeEvents = []string{"DEPLOY", "CONFIGURE", "START_ACTIVITY", "STOP_ACTIVITY", "RESET", "GO_ERROR"}

// refEdges is the reference transition graph (fsm.Events in newEnvironment,
// restricted to the requestable events).
var refEdges = map[string]map[string]string{
	"DEPLOY":         {"STANDBY": "DEPLOYED"},
	"CONFIGURE":      {"DEPLOYED": "CONFIGURED"},
	"RESET":          {"CONFIGURED": "DEPLOYED"},
	"START_ACTIVITY": {"CONFIGURED": "RUNNING"},
	"STOP_ACTIVITY":  {"RUNNING": "CONFIGURED"},
	"GO_ERROR":       {"STANDBY": "ERROR", "DEPLOYED": "ERROR", "CONFIGURED": "ERROR", "RUNNING": "ERROR"},
}

func refDst(ev, src string) string { return refEdges[ev][src] }

var probeWeights = []int{-1, 0, 1}

// probeMoments: every hook moment a requestable event (or a teardown) can reach.
func probeMoments() []string {
	var out []string
	for _, e := range lifeEvents {
		out = append(out, "before_"+e, "after_"+e)
	}
	for _, s := range []string{"STANDBY", "DEPLOYED", "CONFIGURED", "RUNNING", "ERROR"} {
		out = append(out, "leave_"+s)
	}
	for _, s := range []string{"DEPLOYED", "CONFIGURED", "RUNNING", "ERROR"} {
		out = append(out, "enter_"+s)
	}
	return out
}

func wTag(w int) string {
	switch {
	case w < 0:
		return fmt.Sprintf("n%d", -w)
	case w > 0:
		return fmt.Sprintf("p%d", w)
	}
	return "z0"
}

func probeName(moment string, w int) string { return "p_" + moment + "_" + wTag(w) }

// probeSet: one synchronous (await = trigger), critical (trait omitted = documented
// default) verif.Probe() call at weights -1/0/+1 of every moment: 63 hooks.
func probeSet() []envlab.HookSpec {
	var hs []envlab.HookSpec
	for _, m := range probeMoments() {
		for _, w := range probeWeights {
			hs = append(hs, envlab.HookSpec{Name: probeName(m, w), Kind: envlab.Call, Trigger: envlab.Expr(m, w)})
		}
	}
	return hs
}

// the variables of the statement, as hooks see them
const (
	vRN    = "run_number"
	vRN2   = "runNumber"
	vSOSOR = "run_start_time_ms"
	vEOSOR = "run_start_completion_time_ms"
	vSOEOR = "run_end_time_ms"
	vEOEOR = "run_end_completion_time_ms"
	vLast  = "last_run_number"
)

var runVars = []string{vRN, vRN2, vSOSOR, vEOSOR, vSOEOR, vEOEOR, vLast}

// snapOf copies the run variables that are PRESENT in a variable stack (a present
// but empty variable stays in the map with value "").
func snapOf(vs map[string]string) map[string]string {
	out := map[string]string{}
	for _, k := range runVars {
		if v, ok := vs[k]; ok {
			out[k] = v
		}
	}
	return out
}

func momentKindOf(moment string) string {
	if i := strings.Index(moment, "_"); i > 0 {
		return moment[:i]
	}
	return moment
}

func wSign(w int) string {
	if w < 0 {
		return "neg"
	}
	return "nonneg"
}

type viol struct {
	Rule, Class, Detail string
	Seq                 int64
}

func firstAnomaly(recs []envlab.Record) string {
	for _, r := range recs {
		if r.Kind == envlab.KAnomaly {
			return r.Msg
		}
	}
	return ""
}

// window returns the records whose Seq lies in [seq-before, seq+after] positions around seq.
func window(recs []envlab.Record, seq int64, before, after int) []envlab.Record {
	idx := -1
	for i, r := range recs {
		if r.Seq >= seq {
			idx = i
			break
		}
	}
	if idx < 0 {
		idx = len(recs) - 1
	}
	lo, hi := idx-before, idx+after+1
	if lo < 0 {
		lo = 0
	}
	if hi > len(recs) {
		hi = len(recs)
	}
	return recs[lo:hi]
}

// slimRecords drops the bulky fields that no oracle of this binary reads.
func slimRecords(recs []envlab.Record) []envlab.Record {
	out := make([]envlab.Record, len(recs))
	for i, r := range recs {
		r.Path, r.Vars, r.Timeout, r.Await = "", nil, "", ""
		out[i] = r
	}
	return out
}

func readReplay(c *vlib.Ctx, v interface{}) error {
	b, err := os.ReadFile(c.Replay)
	if err != nil {
		return err
	}
	var w struct {
		Witness struct {
			Case json.RawMessage `json:"case"`
		} `json:"witness"`
	}
	if err := json.Unmarshal(b, &w); err != nil {
		return err
	}
	if len(w.Witness.Case) == 0 {
		return fmt.Errorf("replay file has no witness.case")
	}
	return json.Unmarshal(w.Witness.Case, v)
}

func dumpRecords(recs []envlab.Record) {
	enc := json.NewEncoder(os.Stdout)
	for _, r := range slimRecords(recs) {
		_ = enc.Encode(r)
	}
}
