package main

// C01INP — in-process part of C01 (state graph, one transition at a time) at the
// level of Environment.TryTransition and Manager.TeardownEnvironment.
//
// Workload: one real Environment per case (envlab world: real FSM and callbacks,
// real Manager, generated workflow with 63 synchronous critical probes = every
// moment x weights -1/0/+1). K caller goroutines issue seeded request sequences
// over DEPLOY, CONFIGURE, START_ACTIVITY, STOP_ACTIVITY, RESET, GO_ERROR and
// teardown (plain / force); an intent is either "whatever is legal in the state I
// sample now" or a fixed (often illegal) request. Per request a script: a
// critical probe failing at (moment kind, weight), a failing transition body, a
// body that blocks until other callers have piled up on the transition mutex.
//
// Attribution (exact): Ev_EnvironmentEvents are published synchronously on the
// goroutine that executes TryTransition / TeardownEnvironment, and the body is a
// per-request closure; both carry the request id. The "attempt delayed" path is
// observed through a logrus hook on the caller's goroutine. Probe records are
// located by sequence number inside the (pairwise disjoint - that is oracle 2)
// request intervals.
//
// Oracles: see checkC01.

import (
	"errors"
	"fmt"
	"io"
	"math/rand"
	"os"
	"sort"
	"strconv"
	"strings"
	"sync"
	"sync/atomic"
	"time"

	"github.com/sirupsen/logrus"

	"github.com/AliceO2Group/Control/core/environment"

	"verif/harness/envlab"
	"verif/harness/vlib"
)

const (
	kReqBegin envlab.Kind = "req_begin"
	kReqEnd   envlab.Kind = "req_end"
	kDelayed  envlab.Kind = "delayed"
	kGateOpen envlab.Kind = "gate_open"
)

type Script struct {
	FailKind   string `json:"fail_kind,omitempty"` // before | leave | enter | after: the probe of that moment and weight reports an error
	FailWeight int    `json:"fail_weight,omitempty"`
	FailBody   bool   `json:"fail_body,omitempty"`
	Block      int    `json:"block,omitempty"` // body waits until this many other callers wait for the transition mutex
}

type Intent struct {
	Mode   string `json:"mode"` // legal | fixed
	Op     string `json:"op,omitempty"`
	Force  bool   `json:"force,omitempty"`
	Choice int    `json:"choice,omitempty"`
	Script Script `json:"script"`
}

type C01Case struct {
	Prop    string     `json:"prop"`
	Idx     int64      `json:"idx"`
	K       int        `json:"k"`
	Callers [][]Intent `json:"callers"`
}

// ---------------------------------------------------------------- generation

func genScript(r *rand.Rand, k int) Script {
	var s Script
	p := r.Intn(100)
	switch {
	case p < 20:
		s.FailKind = hookMomentKinds[r.Intn(4)]
		s.FailWeight = probeWeights[r.Intn(3)]
	case p < 27:
		s.FailBody = true
	}
	if k > 1 && r.Intn(100) < 22 {
		s.Block = 1 + r.Intn(k-1)
	}
	return s
}

func genC01(c *vlib.Ctx, idx int64, k int) C01Case {
	r := c.SubRand(idx*8 + int64(k))
	cs := C01Case{Prop: "C01INP", Idx: idx, K: k}
	for ci := 0; ci < k; ci++ {
		n := 1 + r.Intn(8)
		if k > 1 && n < 2 {
			n = 2
		}
		var ins []Intent
		for i := 0; i < n; i++ {
			in := Intent{Script: genScript(r, k)}
			if r.Intn(100) < 68 {
				in.Mode = "legal"
				in.Choice = r.Intn(1000)
			} else {
				in.Mode = "fixed"
				p := r.Intn(100)
				switch {
				case p < 91:
					in.Op = lifeEvents[r.Intn(5)] // not GO_ERROR
				case p < 95:
					in.Op = "GO_ERROR"
				case p < 98:
					in.Op = "TEARDOWN"
				default:
					in.Op, in.Force = "TEARDOWN", true
				}
			}
			ins = append(ins, in)
		}
		cs.Callers = append(cs.Callers, ins)
	}
	return cs
}

// resolve turns an intent into a request, given the state the caller has just sampled.
func resolve(in Intent, state string) (op string, force bool) {
	if in.Mode == "fixed" {
		return in.Op, in.Force
	}
	c := in.Choice
	switch state {
	case "STANDBY":
		if c%40 == 0 {
			return "GO_ERROR", false
		}
		if c%40 == 1 {
			return "TEARDOWN", false
		}
		return "DEPLOY", false
	case "DEPLOYED":
		if c%40 == 0 {
			return "GO_ERROR", false
		}
		if c%40 == 1 {
			return "TEARDOWN", false
		}
		return "CONFIGURE", false
	case "CONFIGURED":
		switch {
		case c%40 == 0:
			return "GO_ERROR", false
		case c%40 == 1:
			return "TEARDOWN", true
		case c%4 == 0:
			return "RESET", false
		}
		return "START_ACTIVITY", false
	case "RUNNING":
		switch {
		case c%20 == 0:
			return "GO_ERROR", false
		case c%20 == 1:
			return "TEARDOWN", true
		}
		return "STOP_ACTIVITY", false
	case "ERROR":
		if c%3 == 0 {
			return "TEARDOWN", true
		}
		return lifeEvents[c%len(lifeEvents)], false
	}
	// DONE: nothing is legal any more
	if c%5 == 0 {
		return "TEARDOWN", true
	}
	return lifeEvents[c%len(lifeEvents)], false
}

func c01Fingerprint(cs C01Case) string {
	var sb strings.Builder
	fmt.Fprintf(&sb, "k%d;", cs.K)
	for _, ins := range cs.Callers {
		for _, in := range ins {
			fmt.Fprintf(&sb, "%s/%s/%v/%d/%v,", in.Mode, in.Op, in.Force, in.Choice%100, in.Script)
		}
		sb.WriteString("|")
	}
	return sb.String()
}

// ---------------------------------------------------------------- execution

type request struct {
	id, caller int
	op         string
	force      bool
	script     Script
	delayed    bool // logged "attempt delayed"
	entered    bool // published its first event or returned
	returned   atomic.Bool
}

type c01Run struct {
	lab *envlab.Lab

	mu        sync.Mutex
	reqOf     map[int]*request // goroutine id -> request it is executing
	cur       *request         // request that published the latest event (the one inside the mutex)
	reqs      []*request
	done      []bool
	timeouts  int
	anomalies []string
}

var activeRun atomic.Pointer[c01Run]

// delaySubs: environment id -> chan struct{} notified for every "attempt delayed" line of that environment.
var delaySubs sync.Map

// delayHook observes the "attempt delayed" branch of TryTransition / TeardownEnvironment.
type delayHook struct{}

func (delayHook) Levels() []logrus.Level { return []logrus.Level{logrus.WarnLevel} }
func (delayHook) Fire(e *logrus.Entry) error {
	if !strings.Contains(e.Message, "attempt delayed") {
		return nil
	}
	if p, _ := e.Data["partition"].(string); p != "" {
		if ch, ok := delaySubs.Load(p); ok { // C10: a driver waits for "the other goroutine is parked on the mutex"
			select {
			case ch.(chan struct{}) <- struct{}{}:
			default:
			}
		}
	}
	run := activeRun.Load()
	if run == nil {
		return nil
	}
	if p, _ := e.Data["partition"].(string); p != run.lab.ID {
		return nil
	}
	g := envlab.GoroutineID()
	run.mu.Lock()
	req := run.reqOf[g]
	id := 0
	if req != nil {
		req.delayed = true
		id = req.id
	}
	run.mu.Unlock()
	run.lab.Add(envlab.Record{Kind: kDelayed, Req: id, Msg: e.Message})
	return nil
}

type nullFormatter struct{}

func (nullFormatter) Format(*logrus.Entry) ([]byte, error) { return nil, nil }

var logOnce sync.Once

func setupDelayHook() {
	logOnce.Do(func() {
		if os.Getenv("VERIF_LOG") == "" {
			logrus.SetOutput(io.Discard)
			logrus.SetFormatter(nullFormatter{})
		}
		logrus.SetLevel(logrus.WarnLevel) // the hook only fires for levels that are enabled
		logrus.AddHook(delayHook{})
	})
}

const gateDeadline = 20 * time.Second

func (run *c01Run) onRecord(r *envlab.Record) {
	if r.Kind != envlab.KEnvEvent {
		return
	}
	run.mu.Lock()
	if req := run.reqOf[r.G]; req != nil {
		r.Req = req.id
		req.entered = true
		run.cur = req
	}
	run.mu.Unlock()
}

func (run *c01Run) onProbe(pi envlab.ProbeInfo) envlab.ProbeAction {
	act := envlab.ProbeAction{Snap: map[string]string{"__ct": run.lab.Env.CurrentTransition()}}
	run.mu.Lock()
	req := run.cur
	run.mu.Unlock()
	if req != nil {
		act.Req = req.id
		if req.script.FailKind != "" {
			m, w := envlab.ParseExpr(pi.Trigger)
			if momentKindOf(m) == req.script.FailKind && w == req.script.FailWeight {
				act.Fail = true
			}
		}
	}
	return act
}

// block keeps the transition (and with it the transition mutex) busy until
// enough other callers wait for the mutex, or nobody else is left to come.
func (run *c01Run) block(req *request) {
	deadline := time.Now().Add(gateDeadline)
	waiting := 0
	for {
		run.mu.Lock()
		intruder := false
		for _, q := range run.reqOf {
			if q != req && q.entered && !q.returned.Load() {
				intruder = true
			}
		}
		if intruder {
			// another request is publishing events while this body holds the transition mutex:
			// the overlap is on record (oracle 2 reports it), waiting would only stall both
			run.mu.Unlock()
			break
		}
		waiting = 0
		for _, q := range run.reqOf {
			if q != req && q.delayed && !q.entered {
				waiting++
			}
		}
		others := 0
		for i, d := range run.done {
			if i != req.caller && !d {
				others++
			}
		}
		run.mu.Unlock()
		need := req.script.Block
		if others < need {
			need = others
		}
		if waiting >= need {
			break
		}
		if time.Now().After(deadline) {
			run.mu.Lock()
			run.timeouts++
			run.mu.Unlock()
			break
		}
		time.Sleep(20 * time.Microsecond)
	}
	run.lab.Add(envlab.Record{Kind: kGateOpen, Req: req.id, N: waiting})
}

func (run *c01Run) issue(caller int, g int, op string, force bool, sc Script, sampled string) {
	lab := run.lab
	req := &request{caller: caller, op: op, force: force, script: sc}
	run.mu.Lock()
	run.reqs = append(run.reqs, req)
	req.id = len(run.reqs)
	run.reqOf[g] = req
	run.mu.Unlock()
	msg := ""
	if force {
		msg = "force"
	}
	lab.Add(envlab.Record{Kind: kReqBegin, Req: req.id, Event: op, N: caller, State: sampled, Msg: msg})
	var err error
	if op == "TEARDOWN" {
		err = lab.W.Mgr.TeardownEnvironment(lab.Env.Id(), force)
	} else {
		err = lab.Env.TryTransition(environment.VerifNewTransition(op, func(*environment.Environment) error {
			lab.Add(envlab.Record{Kind: envlab.KBodyEnter, Req: req.id, Event: op})
			if sc.Block > 0 {
				run.block(req)
			}
			var berr error
			if sc.FailBody {
				berr = errors.New("verif: tasks failed to transition (scripted)")
			}
			r := envlab.Record{Kind: envlab.KBodyExit, Req: req.id, Event: op}
			if berr != nil {
				r.Err = berr.Error()
			}
			lab.Add(r)
			return berr
		}))
	}
	req.returned.Store(true)
	from := vlib.Seq()
	st := lab.Env.CurrentState()
	ct := lab.Env.CurrentTransition()
	run.mu.Lock()
	delete(run.reqOf, g)
	req.entered = true
	if run.cur == req {
		run.cur = nil
	}
	run.mu.Unlock()
	r := envlab.Record{Kind: kReqEnd, Req: req.id, Event: op, N: caller, State: st, Snap: map[string]string{"ct": ct, "from": strconv.FormatInt(from, 10)}}
	if err != nil {
		r.Err = err.Error()
	}
	lab.Add(r)
}

type c01Outcome struct {
	Case      C01Case
	Records   []envlab.Record
	Scripts   map[int]Script
	Timeouts  int
	Anomalies []string
	Stuck     bool
}

func execC01(w *envlab.World, cs C01Case) (*c01Outcome, error) {
	setupDelayHook()
	lab, err := w.NewLab(probeSet(), nil)
	if err != nil {
		return nil, err
	}
	defer lab.Close()
	run := &c01Run{lab: lab, reqOf: map[int]*request{}, done: make([]bool, cs.K)}
	lab.StampG = true
	lab.OnRecord = run.onRecord
	lab.OnProbe = run.onProbe
	activeRun.Store(run)
	defer activeRun.Store(nil)

	var wg sync.WaitGroup
	start := make(chan struct{})
	for ci := 0; ci < cs.K; ci++ {
		wg.Add(1)
		go func(ci int) {
			defer wg.Done()
			g := envlab.GoroutineID()
			<-start
			for _, in := range cs.Callers[ci] {
				st := lab.Env.CurrentState()
				op, force := resolve(in, st)
				sc := in.Script
				if op == "TEARDOWN" {
					sc.Block, sc.FailBody = 0, false
				}
				run.issue(ci, g, op, force, sc, st)
			}
			run.mu.Lock()
			run.done[ci] = true
			run.mu.Unlock()
		}(ci)
	}
	close(start)
	fin := make(chan struct{})
	go func() { wg.Wait(); close(fin) }()
	out := &c01Outcome{Case: cs}
	select {
	case <-fin:
	case <-time.After(watchdog):
		out.Stuck = true
		out.Records = lab.Records()
		out.Anomalies = append(out.Anomalies, "watchdog: callers did not finish: "+blockedSummary())
		return out, nil
	}
	// clean up (a request like any other: judged by the same oracles)
	if lab.Env.CurrentState() != "DONE" {
		cdone := make(chan struct{})
		go func() {
			run.issue(-1, envlab.GoroutineID(), "TEARDOWN", true, Script{}, lab.Env.CurrentState())
			close(cdone)
		}()
		select {
		case <-cdone:
		case <-time.After(watchdog):
			out.Stuck = true
			out.Anomalies = append(out.Anomalies, "watchdog: final teardown did not return: "+blockedSummary())
		}
	}
	out.Records = lab.Records()
	run.mu.Lock()
	out.Timeouts = run.timeouts
	out.Scripts = map[int]Script{}
	for _, q := range run.reqs {
		out.Scripts[q.id] = q.script
	}
	run.mu.Unlock()
	if n := lab.Anomalies(); n > 0 {
		out.Anomalies = append(out.Anomalies, firstAnomaly(out.Records))
	}
	return out, nil
}

func blockedSummary() string {
	var out []string
	for _, g := range envlab.Goroutines() {
		if g.Has("core/environment.") && g.Blocked() {
			lines := strings.Split(g.Text, "\n")
			fr := ""
			for _, ln := range lines[1:] {
				if strings.Contains(ln, "AliceO2Group/Control/") && !strings.HasPrefix(ln, "\t") {
					fr = ln
					break
				}
			}
			out = append(out, "["+g.State+"] "+fr)
		}
		if len(out) >= 6 {
			break
		}
	}
	return strings.Join(out, "; ")
}

// ---------------------------------------------------------------- oracle

type reqInfo struct {
	ID, Caller  int
	Op          string
	Force       bool
	Script      Script
	Begin, End  int64
	Err         string
	HasEnd      bool
	StAfter     string
	CtAfter     string
	SampleFrom  int64
	First, Last int64 // exact interval: events published by the executing goroutine + body records
	Events      []envlab.Record
	Bodies      []envlab.Record
	Probes      []envlab.Record // hook_start records inside [First, Last]
	HookEnds    int
	Delayed     bool
	// model
	Pre, Post string
	Legal     bool
	Cancelled bool
	AfterRan  bool
}

func (q *reqInfo) kind() string {
	if q.Op == "TEARDOWN" {
		return "teardown"
	}
	return "transition"
}

type seg struct {
	first, last int64
	pre, post   string
}

type c01Oracle struct {
	v    []viol
	cnt  map[string]int64
	segs []seg
}

func (o *c01Oracle) hit(seq int64, class, detail string) {
	o.v = append(o.v, viol{Rule: "C01", Class: class, Detail: detail, Seq: seq})
}

// statesDuring: every state the model allows at some instant of [a, b].
func (o *c01Oracle) statesDuring(a, b int64) map[string]bool {
	out := map[string]bool{}
	cur := "STANDBY"
	for _, s := range o.segs {
		if s.last < a {
			cur = s.post
			continue
		}
		if s.first > b {
			break
		}
		// intersects
		if s.first > a {
			out[cur] = true
		}
		out[s.pre], out[s.post] = true, true
		cur = s.post
		a = s.last + 1
		if a > b {
			return out
		}
	}
	out[cur] = true
	return out
}

func setString(m map[string]bool) string {
	var ks []string
	for k := range m {
		ks = append(ks, k)
	}
	sort.Strings(ks)
	return strings.Join(ks, "|")
}

func checkC01(out *c01Outcome) (vs []viol, cnt map[string]int64, lockOrder string, inconcl string) {
	o := &c01Oracle{cnt: map[string]int64{}}
	recs := out.Records
	reqs := map[int]*reqInfo{}
	get := func(id int) *reqInfo {
		q := reqs[id]
		if q == nil {
			q = &reqInfo{ID: id, Script: out.Scripts[id]}
			reqs[id] = q
		}
		return q
	}
	touch := func(q *reqInfo, seq int64) {
		if q.First == 0 || seq < q.First {
			q.First = seq
		}
		if seq > q.Last {
			q.Last = seq
		}
	}
	var inconclusive string
	for _, r := range recs {
		switch r.Kind {
		case kReqBegin:
			q := get(r.Req)
			q.Begin, q.Op, q.Caller, q.Force = r.Seq, r.Event, r.N, r.Msg == "force"
		case kReqEnd:
			q := get(r.Req)
			q.End, q.Err, q.StAfter, q.HasEnd = r.Seq, r.Err, r.State, true
			q.CtAfter = r.Snap["ct"]
			q.SampleFrom, _ = strconv.ParseInt(r.Snap["from"], 10, 64)
		case envlab.KEnvEvent:
			if r.Req == 0 {
				inconclusive = fmt.Sprintf("environment event published by a goroutine that executes no request (seq %d, %s %s %q)", r.Seq, r.Event, r.Step, r.Msg)
				continue
			}
			q := get(r.Req)
			q.Events = append(q.Events, r)
			touch(q, r.Seq)
		case envlab.KBodyEnter, envlab.KBodyExit:
			q := get(r.Req)
			q.Bodies = append(q.Bodies, r)
			touch(q, r.Seq)
		case kDelayed:
			if r.Req != 0 {
				get(r.Req).Delayed = true
			}
			o.cnt["mutex_taken"]++
		case kGateOpen:
			o.cnt["bodies_blocked"]++
			o.cnt["callers_piled_up_at_gate_open"] += int64(r.N)
		}
	}
	var placed, floating []*reqInfo
	for _, q := range reqs {
		if !q.HasEnd {
			inconclusive = fmt.Sprintf("request %d (%s) never returned", q.ID, q.Op)
			continue
		}
		o.cnt["requests"]++
		if q.First != 0 {
			placed = append(placed, q)
		} else {
			floating = append(floating, q)
		}
	}
	if inconclusive != "" {
		return nil, o.cnt, "", inconclusive
	}
	sort.Slice(placed, func(i, j int) bool { return placed[i].First < placed[j].First })
	sort.Slice(floating, func(i, j int) bool { return floating[i].Begin < floating[j].Begin })

	// ---- oracle 2: the exactly attributed intervals of two requests never overlap
	for i := 1; i < len(placed); i++ {
		a, b := placed[i-1], placed[i]
		if b.First <= a.Last {
			ks := []string{a.kind(), b.kind()}
			sort.Strings(ks)
			o.hit(b.First, "OVERLAP/"+ks[0]+"+"+ks[1], fmt.Sprintf("request %d (%s, caller %d) recorded events/body in [%d,%d] while request %d (%s, caller %d) was in progress [%d,%d]: two transitions/teardowns of one environment at the same time",
				b.ID, b.Op, b.Caller, b.First, b.Last, a.ID, a.Op, a.Caller, a.First, a.Last))
			return o.v, o.cnt, "", "" // everything below presupposes disjoint intervals
		}
	}
	// arrivals while another request was inside the mutex (wall order of the records)
	for _, q := range reqs {
		for _, p := range placed {
			if p != q && q.Begin > p.First && q.Begin < p.Last {
				o.cnt["arrivals_during_another_request"]++
				break
			}
		}
	}

	// locate probe records
	find := func(seq int64) *reqInfo {
		i := sort.Search(len(placed), func(i int) bool { return placed[i].Last >= seq })
		if i < len(placed) && placed[i].First <= seq {
			return placed[i]
		}
		return nil
	}
	for _, r := range recs {
		if r.Kind != envlab.KHookStart && r.Kind != envlab.KHookEnd {
			continue
		}
		q := find(r.Seq)
		if q == nil {
			m, _ := envlab.ParseExpr(r.Trigger)
			o.hit(r.Seq, "PROBE-OUTSIDE-REQUEST/"+momentKindOf(m), fmt.Sprintf("hook record %s %s (seq %d) while no request was in progress", r.Kind, r.Hook, r.Seq))
			continue
		}
		if r.Kind == envlab.KHookStart {
			q.Probes = append(q.Probes, r)
			o.cnt["probe_records"]++
		} else {
			q.HookEnds++
		}
	}

	// ---- oracle 1 + 3 + 4: replay in lock order against the reference FSM
	state := "STANDBY"
	var order []string
	for _, q := range placed {
		q.Pre = state
		order = append(order, fmt.Sprintf("%d:%s", q.Caller, q.Op))
		where := q.Op + "@" + q.Pre
		if q.Op == "TEARDOWN" {
			o.teardown(q, where)
		} else {
			o.transition(q, where)
		}
		if n := len(q.Events); n > 0 && q.Events[n-1].State != q.Post {
			e := q.Events[n-1]
			o.hit(e.Seq, "STATE/final-event/"+where+"/got="+e.State+"/model="+q.Post, fmt.Sprintf("request %d %s: last published event (%q) reports state %s, reference model says %s", q.ID, where, e.Msg, e.State, q.Post))
		}
		o.segs = append(o.segs, seg{q.First, q.Last, q.Pre, q.Post})
		state = q.Post
	}
	// rejected teardowns (no event published): what they saw must have been a state of their window
	for _, q := range floating {
		if q.Op != "TEARDOWN" {
			return o.v, o.cnt, "", fmt.Sprintf("request %d %s returned (%q) without any captured event", q.ID, q.Op, q.Err)
		}
		o.cnt["teardowns_rejected"]++
		win := o.statesDuring(q.Begin, q.End)
		switch {
		case q.Err == "":
			return o.v, o.cnt, "", fmt.Sprintf("teardown request %d returned nil without any captured event", q.ID)
		case strings.Contains(q.Err, "already in DONE") || strings.Contains(q.Err, "no environment with id"):
			o.cnt["illegal_requests"]++
			o.cnt["illegal_teardown_after_done"]++
			if !win["DONE"] {
				o.hit(q.Begin, "STATE/teardown-rejected-as-done/model="+setString(win), fmt.Sprintf("teardown request %d was refused (%q) but the environment was never DONE during the request", q.ID, q.Err))
			}
		case strings.Contains(q.Err, "cannot teardown environment in state "):
			s := strings.TrimSpace(q.Err[strings.Index(q.Err, "in state ")+len("in state "):])
			o.cnt["plain_teardown_refused_in_"+strings.ToLower(s)]++
			if !win[s] {
				o.hit(q.Begin, "STATE/teardown-rejected-saw="+s+"/model="+setString(win), fmt.Sprintf("teardown request %d was refused because of state %s, which the environment did not have during the request", q.ID, s))
			}
		default:
			return o.v, o.cnt, "", fmt.Sprintf("teardown request %d failed before its first event with an unknown error: %q", q.ID, q.Err)
		}
	}
	// CurrentState() / CurrentTransition() sampled by the caller after its request returned
	for _, q := range reqs {
		win := o.statesDuring(q.SampleFrom, q.End)
		if !win[q.StAfter] {
			o.hit(q.End, "STATE/after-request/got="+q.StAfter+"/model="+setString(win), fmt.Sprintf("CurrentState() after request %d (%s) returned %s; the reference model allows %s at that point", q.ID, q.Op, q.StAfter, setString(win)))
		}
		o.cnt["state_samples"]++
		// quiescence: no request in progress during the sampling window
		quiet := true
		var last *reqInfo
		for _, p := range placed {
			if p.Last < q.SampleFrom {
				last = p
			} else if p.First <= q.End {
				quiet = false
			}
		}
		if quiet && last != nil && last.Op != "TEARDOWN" && last.Legal && !last.AfterRan && q.CtAfter != "" {
			o.cnt["ct_stale_after_cancelled_transition"]++ // observed, not judged (see assumptions)
		}
		if quiet && last != nil && last.Op != "TEARDOWN" && last.Legal && last.AfterRan {
			o.cnt["quiescent_transition_samples"]++
			if q.CtAfter != "" {
				o.hit(q.End, "CT-NOT-EMPTY/after-"+last.Op, fmt.Sprintf("CurrentTransition() = %q with no request in progress (last one: %d %s, completed)", q.CtAfter, last.ID, last.Op))
			}
		}
	}
	return o.v, o.cnt, strings.Join(order, ","), ""
}

func (o *c01Oracle) teardown(q *reqInfo, where string) {
	pre := q.Pre
	q.Legal = pre != "DONE"
	if !q.Legal {
		o.hit(q.First, "ILLEGAL-EXECUTED/teardown/"+where, fmt.Sprintf("teardown request %d ran (events published) although the environment was already DONE", q.ID))
		q.Post = "DONE"
		return
	}
	if !q.Force && pre != "STANDBY" && pre != "DEPLOYED" {
		o.cnt["plain_teardown_accepted_in_"+strings.ToLower(pre)]++ // the statement does not say: tolerated
	}
	o.cnt["teardowns_executed"]++
	o.cnt["teardown_from_"+strings.ToLower(pre)]++
	q.Post = "DONE"
	if q.Err != "" {
		// a teardown that reports an error (tasks not released) may have stopped half-way
		if n := len(q.Events); n > 0 {
			q.Post = q.Events[n-1].State
		}
		if q.Post != pre && q.Post != "DONE" {
			q.Post = "DONE"
		}
	}
	sawDone := false
	for _, e := range q.Events {
		switch {
		case e.State == "DONE":
			sawDone = true
		case e.State == pre && !sawDone:
		default:
			o.hit(e.Seq, "STATE/event/"+where+"/got="+e.State, fmt.Sprintf("teardown request %d from %s: event %q (%s) reports state %s", q.ID, pre, e.Msg, e.Step, e.State))
		}
	}
	for _, b := range q.Bodies {
		o.hit(b.Seq, "BODY-IN-TEARDOWN", fmt.Sprintf("transition body record of request %d inside teardown request %d", b.Req, q.ID))
	}
	for _, p := range q.Probes {
		m, _ := envlab.ParseExpr(p.Trigger)
		if m != "leave_"+pre {
			o.hit(p.Seq, "WRONG-HOOK/"+momentKindOf(m)+"/in-teardown", fmt.Sprintf("hook %s ran inside teardown request %d from %s", p.Trigger, q.ID, pre))
		}
		if p.State != pre {
			o.hit(p.Seq, "STATE/probe/"+where+"/got="+p.State, fmt.Sprintf("probe %s of teardown request %d saw state %s, model says %s", p.Trigger, q.ID, p.State, pre))
		}
		if ct := p.Snap["__ct"]; ct != "DESTROY" {
			o.hit(p.Seq, "CT-PROBE/teardown/got="+ct, fmt.Sprintf("probe %s of teardown request %d: CurrentTransition() = %q", p.Trigger, q.ID, ct))
		}
		o.cnt["ct_samples_in_probes"]++
	}
}

func (o *c01Oracle) transition(q *reqInfo, where string) {
	pre := q.Pre
	dst := refDst(q.Op, pre)
	if dst == "" && q.Op == "GO_ERROR" && pre == "ERROR" && q.Err == "" {
		dst = "ERROR" // "GO_ERROR from any live state": accepted either way, the state stays ERROR
	}
	if dst == "" {
		// ---- oracle 3: a request that is not legal in the current state is never executed
		o.cnt["illegal_requests"]++
		o.cnt["illegal_"+strings.ToLower(q.Op)]++
		q.Post = pre
		if q.Err == "" {
			o.hit(q.First, "ILLEGAL-ACCEPTED/"+where, fmt.Sprintf("request %d %s returned no error although %s is not legal in %s", q.ID, q.Op, q.Op, pre))
		}
		if len(q.Probes) > 0 {
			o.hit(q.Probes[0].Seq, "ILLEGAL-EXECUTED/hooks/"+where, fmt.Sprintf("request %d %s is not legal in %s but %d hooks ran for it (first: %s)", q.ID, q.Op, pre, len(q.Probes), q.Probes[0].Trigger))
		}
		if len(q.Bodies) > 0 {
			o.hit(q.Bodies[0].Seq, "ILLEGAL-EXECUTED/body/"+where, fmt.Sprintf("request %d %s is not legal in %s but its transition body (task commands) ran", q.ID, q.Op, pre))
		}
		for _, e := range q.Events {
			if e.State != pre {
				o.hit(e.Seq, "STATE/event/"+where+"/got="+e.State, fmt.Sprintf("illegal request %d %s: event %q reports state %s, model says %s", q.ID, q.Op, e.Msg, e.State, pre))
				q.Post = e.State // follow the observation so that one defect is reported once
			}
		}
		return
	}
	q.Legal = true
	o.cnt["legal_requests_executed"]++
	o.cnt["legal_"+strings.ToLower(q.Op)]++
	sc := q.Script
	q.Cancelled = sc.FailBody || sc.FailKind == "before" || sc.FailKind == "leave"
	q.AfterRan = !q.Cancelled
	if q.Cancelled {
		q.Post = pre
		o.cnt["transitions_cancelled_by_script"]++
	} else {
		q.Post = dst
		if sc.FailKind != "" {
			o.cnt["transitions_failed_late_by_script"]++
		}
	}
	if q.Delayed {
		o.cnt["executed_after_waiting_for_mutex"]++
	}
	for _, e := range q.Events {
		want := ""
		switch {
		case e.Step == "" && e.Msg == "transition starting":
			want = pre // each request sees the state left by the previous one
		case e.Step == "":
			want = q.Post
		case e.Step == "before_"+q.Op, e.Step == "leave_"+pre:
			want = pre
		case e.Step == "tasks_"+q.Op:
			want = pre
			if e.Msg == "transition step finished" && e.Err == "" {
				want = dst
			}
		case e.Step == "enter_"+dst, e.Step == "after_"+q.Op:
			want = dst
		default:
			o.hit(e.Seq, "WRONG-STEP/"+where, fmt.Sprintf("request %d %s from %s published step %q", q.ID, q.Op, pre, e.Step))
			continue
		}
		if e.State != want {
			o.hit(e.Seq, "STATE/event/"+where+"/got="+e.State, fmt.Sprintf("request %d %s: event %q (%s) reports state %s, model says %s", q.ID, q.Op, e.Msg, e.Step, e.State, want))
		}
		if e.Event != q.Op {
			o.hit(e.Seq, "WRONG-EVENT/"+where, fmt.Sprintf("request %d %s published an event of transition %s", q.ID, q.Op, e.Event))
		}
	}
	for _, p := range q.Probes {
		m, _ := envlab.ParseExpr(p.Trigger)
		want := ""
		switch m {
		case "before_" + q.Op, "leave_" + pre:
			want = pre
		case "enter_" + dst, "after_" + q.Op:
			want = dst
		default:
			o.hit(p.Seq, "WRONG-HOOK/"+momentKindOf(m)+"/"+where, fmt.Sprintf("hook %s ran inside request %d %s from %s", p.Trigger, q.ID, q.Op, pre))
			continue
		}
		if p.State != want {
			o.hit(p.Seq, "STATE/probe/"+where+"/got="+p.State, fmt.Sprintf("probe %s of request %d %s saw state %s, model says %s", p.Trigger, q.ID, q.Op, p.State, want))
		}
		// ---- oracle 4
		if ct := p.Snap["__ct"]; ct != q.Op {
			o.hit(p.Seq, "CT-PROBE/"+momentKindOf(m)+"/got="+ct, fmt.Sprintf("probe %s of request %d %s: CurrentTransition() = %q", p.Trigger, q.ID, q.Op, ct))
		}
		o.cnt["ct_samples_in_probes"]++
	}
	for _, b := range q.Bodies {
		if b.Req != q.ID {
			o.hit(b.Seq, "WRONG-BODY/"+where, fmt.Sprintf("body of request %d ran inside request %d", b.Req, q.ID))
		}
	}
}

// ---------------------------------------------------------------- main loop

func c01Plan(tier string) (seqs int, ks []int, perSeqAllK bool) {
	if tier == "thorough" {
		return 5000, []int{1, 2, 4, 8}, false // K cycles over the sequences
	}
	return 300, []int{1, 4}, true // every sequence index with both K
}

func runC01() {
	c := vlib.Start("C01INP")
	defer c.Finish()
	w, err := envlab.Setup()
	if err != nil {
		c.Inconclusive("envlab setup: " + err.Error())
		return
	}
	if c.Replay != "" {
		var ac AutoCase
		if err := readReplay(c, &ac); err == nil && ac.Auto {
			out, err := execAuto(w, ac)
			if err != nil {
				c.Inconclusive(err.Error())
				return
			}
			dumpRecords(out.Records)
			vs, _ := checkAuto(out)
			for _, v := range vs {
				fmt.Fprintf(os.Stdout, "VIOLATION %s/%s: %s\n", v.Rule, v.Class, v.Detail)
				c.Violation(v.Rule, v.Class, v.Detail, 0, nil)
			}
			return
		}
		var cs C01Case
		if err := readReplay(c, &cs); err != nil {
			c.Inconclusive("replay: " + err.Error())
			return
		}
		out, err := execC01(w, cs)
		if err != nil {
			c.Inconclusive(err.Error())
			return
		}
		dumpRecords(out.Records)
		vs, _, order, why := checkC01(out)
		fmt.Fprintf(os.Stdout, "lock order: %s %s\n", order, why)
		for _, v := range vs {
			fmt.Fprintf(os.Stdout, "VIOLATION %s/%s: %s\n", v.Rule, v.Class, v.Detail)
			c.Violation(v.Rule, v.Class, v.Detail, 0, nil)
		}
		return
	}
	runAutoScenarios(c, w)
	seqs, ks, all := c01Plan(c.Tier)
	type job struct {
		idx int64
		k   int
	}
	var jobs []job
	if all {
		// K-major order, so that every batch (j mod nbatch) gets every K
		for _, k := range ks {
			for i := 0; i < seqs; i++ {
				jobs = append(jobs, job{int64(i), k})
			}
		}
	} else {
		for i := 0; i < seqs; i++ {
			jobs = append(jobs, job{int64(i), ks[(i/7)%len(ks)]})
		}
	}
	nb := c.NBatch
	if nb < 1 {
		nb = 1
	}
	samples := 0
	for j := c.Batch; j < len(jobs); j += nb {
		cs := genC01(c, jobs[j].idx, jobs[j].k)
		id := c.Case(cs)
		out, err := execC01(w, cs)
		if err != nil {
			c.Inconclusive(fmt.Sprintf("case %d/k%d: %v", cs.Idx, cs.K, err))
			continue
		}
		vs, cnt, order, why := checkC01(out)
		seen := map[string]bool{}
		for _, v := range vs {
			if seen[v.Class] {
				continue
			}
			seen[v.Class] = true
			c.Violation(v.Rule, v.Class, v.Detail, id, map[string]interface{}{"case": cs, "lock_order": order,
				"records_around": slimRecords(window(out.Records, v.Seq, 45, 8))})
		}
		if out.Stuck {
			c.Inconclusive(fmt.Sprintf("case %d/k%d: %s", cs.Idx, cs.K, strings.Join(out.Anomalies, "; ")))
			return // goroutines of the stuck case are still inside the environment code: stop this batch
		}
		if why == "" && len(vs) == 0 && (len(out.Anomalies) > 0 || out.Timeouts > 0) {
			// the lab could not drive the case as planned and no oracle fired: not judged
			why = fmt.Sprintf("gate timeouts=%d anomalies=%v", out.Timeouts, out.Anomalies)
		}
		if why != "" {
			c.Inconclusive(fmt.Sprintf("case %d/k%d: %s", cs.Idx, cs.K, why))
			c.Count("cases_not_judged", 1)
			continue
		}
		c.Count("sequences", 1)
		c.Count(fmt.Sprintf("k_%d", cs.K), 1)
		c.Count("gate_timeouts", int64(out.Timeouts))
		for k, n := range cnt {
			c.Count(k, n)
		}
		if cnt["legal_requests_executed"] > 0 {
			c.Nontrivial(vlib.Hash(c01Fingerprint(cs)))
		}
		if order != "" {
			c.Interleaving(vlib.Hash(order))
		}
		if samples < 2 && cs.K > 1 {
			c.Sample(map[string]interface{}{"k": cs.K, "callers": cs.Callers, "lock_order": order})
			samples++
		}
	}
}

// runAutoScenarios runs this batch's share of the auto-stop scenarios, all at once (each one
// mostly sleeps on a real timer of the code under test), before the request sequences.
func runAutoScenarios(c *vlib.Ctx, w *envlab.World) {
	nb := c.NBatch
	if nb < 1 {
		nb = 1
	}
	type res struct {
		id  int64
		ac  AutoCase
		out *autoOutcome
		err error
	}
	var wg sync.WaitGroup
	var mu sync.Mutex
	var all []res
	for i := c.Batch; i < autoTotal(c.Tier); i += nb {
		ac := genAuto(int64(i))
		id := c.Case(ac)
		wg.Add(1)
		go func() {
			defer wg.Done()
			out, err := execAuto(w, ac)
			mu.Lock()
			all = append(all, res{id, ac, out, err})
			mu.Unlock()
		}()
	}
	wg.Wait()
	for _, r := range all {
		if r.err != nil {
			c.Inconclusive(fmt.Sprintf("auto-stop scenario %d: %v", r.ac.Idx, r.err))
			continue
		}
		vs, cnt := checkAuto(r.out)
		if len(vs) == 0 && r.out.Anomaly != "" {
			c.Inconclusive(fmt.Sprintf("auto-stop scenario %d (%s): %s", r.ac.Idx, r.ac.Variant, r.out.Anomaly))
			continue
		}
		for k, n := range cnt {
			c.Count(k, n)
		}
		c.Nontrivial(vlib.Hash("auto", r.ac.Variant, r.ac.PrefixRun, r.ac.LateFail, r.ac.TimeoutMs))
		seen := map[string]bool{}
		for _, v := range vs {
			if seen[v.Class] {
				continue
			}
			seen[v.Class] = true
			c.Violation(v.Rule, v.Class, v.Detail, r.id, map[string]interface{}{"case": r.ac,
				"records_around": slimRecords(window(r.out.Records, v.Seq, 45, 8))})
		}
	}
}
