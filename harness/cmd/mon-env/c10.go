package main

// C10 — run number and run timestamps bracket every run exactly once.
//
// Workload: seeded walks over one real Environment (envlab): DEPLOY, CONFIGURE,
// then up to 8 steps drawn from START_ACTIVITY / STOP_ACTIVITY / GO_ERROR (each
// plain, or failing through a critical hook at any (moment, weight) or through
// the transition body), RESET+CONFIGURE, real Manager.TeardownEnvironment
// (force and plain, while RUNNING and not), and requests that are illegal in the
// current state. 63 synchronous verif.Probe() calls (every moment x weights
// -1/0/+1) record the variable stack they see; a "quiescent" record holds the
// root role's consolidated variable stack after every step; Ev_RunEvents are
// captured with the.VerifSetWriter(topic.Run). Run numbers come from the real
// NewRunNumber against the fake Consul.
//
// Oracle: a run-bracket automaton over that stream (see c10Oracle). It follows
// the soundness notes of DESIGN.md "### C10":
//   - "previous values not visible" is decided on emptiness at the first snapshot
//     that sees the new run number, never on value inequality of timestamps;
//   - order uses <=, on the values the code wrote;
//   - end timestamps must be present once a run that reached RUNNING has ended
//     (stop / GO_ERROR / teardown); for a start cancelled before RUNNING only
//     "at most once" is required;
//   - negative-weight before_START_ACTIVITY hooks may see the previous attempt's
//     values (documented order);
//   - "gone afterwards" is required of the run number only, and only after
//     after_STOP_ACTIVITY (after GO_ERROR / teardown the statement is silent).
// A new start attempt must never show a run number that an earlier attempt of
// the same environment already showed (also one cancelled after the number was
// drawn).

import (
	"errors"
	"fmt"
	"math/rand"
	"os"
	"strconv"
	"strings"
	"sync"
	"time"

	"github.com/AliceO2Group/Control/common/event"
	"github.com/AliceO2Group/Control/common/event/topic"
	pb "github.com/AliceO2Group/Control/common/protos"
	"github.com/AliceO2Group/Control/core/environment"
	odcevent "github.com/AliceO2Group/Control/core/integration/odc/event"
	"github.com/AliceO2Group/Control/core/task"
	"github.com/AliceO2Group/Control/core/the"

	"verif/harness/envlab"
	"verif/harness/vlib"
)

const (
	kQuiescent envlab.Kind = "quiescent"
	kRunEvent  envlab.Kind = "run_event"
	kCaseInfo  envlab.Kind = "case_info"

	staleUserRN = "42" // what a pasted variable dump would carry
)

type Step struct {
	Op       string   `json:"op"` // event name or TEARDOWN
	Force    bool     `json:"force,omitempty"`
	Fail     []string `json:"fail,omitempty"` // trigger expressions of the probes that report an error in this step
	FailBody bool     `json:"fail_body,omitempty"`
	Slow     []string `json:"slow,omitempty"` // probes that take 1.1 ms in this step
	Src      string   `json:"src"`
	Expect   string   `json:"expect"` // state predicted by the documented semantics
	Note     string   `json:"note,omitempty"`
	// Race: a forced teardown is requested from a second goroutine while the body of this transition is
	// executing; it waits on the transition mutex and runs as soon as the transition is over.
	Race bool `json:"race,omitempty"`
}

type C10Case struct {
	Prop string `json:"prop"`
	Idx  int64  `json:"idx"`
	// Real: START_ACTIVITY / STOP_ACTIVITY (and plain GO_ERROR) are the REAL transitions of the core
	// (environment.NewStartActivityTransition etc.); the lab plays the task manager and answers their
	// task command with success or with the scripted "tasks failed to transition".
	Real bool `json:"real,omitempty"`
	// UserRN (real walks only): the environment is created with the USER variable(s) run_number and/or
	// runNumber preset to a stale value. User variables outrank the root variable the core sets, so the
	// hooks of such an environment never see the allocated number (that is C14's rule, not judged); the
	// task command arguments and the Ev_RunEvents, which the core fills from the allocated number, are.
	UserRN []string `json:"user_rn,omitempty"`
	Steps  []Step   `json:"steps"`
}

// ---------------------------------------------------------------- generation

var hookMomentKinds = []string{"before", "leave", "enter", "after"}

// forcedError (VERIF_C10_FORCED_ERROR=1, off by default): also drive the forced move to ERROR
// (Sm.SetState, as core/server.go:ControlEnvironment does when GO_ERROR cannot complete) after a
// GO_ERROR that was cancelled while RUNNING, and judge it as "the run ended by error".
var forcedError = os.Getenv("VERIF_C10_FORCED_ERROR") == "1"

// realTransitions (VERIF_C10_REAL=0 switches it off): 3 walks out of 5 use the real transitions.
var realTransitions = os.Getenv("VERIF_C10_REAL") != "0"

func momentsOfStep(ev, src, dst string) map[string]string {
	return map[string]string{"before": "before_" + ev, "leave": "leave_" + src, "enter": "enter_" + dst, "after": "after_" + ev}
}

func plainStep(op, src string) Step {
	return Step{Op: op, Src: src, Expect: refDst(op, src), Note: "ok"}
}

func addSlow(r *rand.Rand, s *Step, dst string) {
	if r.Intn(100) >= 45 {
		return
	}
	ms := momentsOfStep(s.Op, s.Src, dst)
	s.Slow = append(s.Slow, envlab.Expr(ms[hookMomentKinds[r.Intn(4)]], probeWeights[r.Intn(3)]))
}

// failingStep scripts 1 (sometimes 2) failure points into a legal transition.
func failingStep(r *rand.Rand, op, src string) Step {
	dst := refDst(op, src)
	s := Step{Op: op, Src: src, Note: "fail"}
	ms := momentsOfStep(op, src, dst)
	cancelled := false
	n := 1
	if r.Intn(100) < 12 {
		n = 2
	}
	for i := 0; i < n; i++ {
		p := r.Intn(100)
		switch {
		case p < 80:
			k := hookMomentKinds[r.Intn(4)]
			s.Fail = append(s.Fail, envlab.Expr(ms[k], probeWeights[r.Intn(3)]))
			if k == "before" || k == "leave" {
				cancelled = true
			}
		default:
			s.FailBody = true
			cancelled = true
		}
	}
	if cancelled {
		s.Expect = src
	} else {
		s.Expect = dst
	}
	return s
}

func teardownStep(r *rand.Rand, src string, force bool) Step {
	s := Step{Op: "TEARDOWN", Force: force, Src: src}
	if force || src == "STANDBY" || src == "DEPLOYED" {
		s.Expect, s.Note = "DONE", "ok"
		if r.Intn(100) < 15 {
			s.Fail = append(s.Fail, envlab.Expr("leave_"+src, probeWeights[r.Intn(3)])) // only logged by the teardown
		}
		if r.Intn(100) < 30 {
			s.Slow = append(s.Slow, envlab.Expr("leave_"+src, probeWeights[r.Intn(3)]))
		}
	} else {
		s.Expect, s.Note = src, "rejected"
	}
	return s
}

func illegalStep(r *rand.Rand, src string) Step {
	var c []string
	for _, e := range lifeEvents {
		if refDst(e, src) == "" {
			c = append(c, e)
		}
	}
	return Step{Op: c[r.Intn(len(c))], Src: src, Expect: src, Note: "illegal"}
}

func genC10(c *vlib.Ctx, idx int64) C10Case {
	r := c.SubRand(idx)
	cs := C10Case{Prop: "C10", Idx: idx, Real: realTransitions && idx%5 < 3}
	if cs.Real && idx%5 == 1 {
		cs.UserRN = [][]string{{vRN}, {vRN2}, {vRN, vRN2}}[(idx/5)%3]
	}
	cs.Steps = append(cs.Steps, plainStep("DEPLOY", "STANDBY"), plainStep("CONFIGURE", "DEPLOYED"))
	state := "CONFIGURED"
	n := 1 + r.Intn(8)
	add := func(s Step) {
		if s.Note == "ok" && s.Op != "TEARDOWN" {
			addSlow(r, &s, s.Expect)
		} else if s.Note == "fail" {
			addSlow(r, &s, refDst(s.Op, s.Src))
		}
		cs.Steps = append(cs.Steps, s)
		state = s.Expect
	}
	for k := 0; k < n && state != "DONE"; k++ {
		p := r.Intn(100)
		switch state {
		case "CONFIGURED":
			switch {
			case p < 36:
				add(plainStep("START_ACTIVITY", state))
			case p < 72:
				add(failingStep(r, "START_ACTIVITY", state))
			case p < 80:
				add(plainStep("RESET", state))
				add(plainStep("CONFIGURE", state))
				k++
			case p < 84:
				add(plainStep("GO_ERROR", state))
			case p < 87:
				add(failingStep(r, "GO_ERROR", state))
			case p < 91:
				add(teardownStep(r, state, true))
			case p < 94:
				add(teardownStep(r, state, false))
			default:
				add(illegalStep(r, state))
			}
		case "RUNNING":
			switch {
			case p < 34:
				add(plainStep("STOP_ACTIVITY", state))
			case p < 55:
				add(failingStep(r, "STOP_ACTIVITY", state))
			case p < 66:
				cs.Steps = append(cs.Steps, odcStep(r))
				state = "ERROR"
			case p < 75:
				add(plainStep("GO_ERROR", state))
			case p < 82:
				add(failingStep(r, "GO_ERROR", state))
				if forcedError && state == "RUNNING" {
					// what core/server.go does when the GO_ERROR that follows a failed request fails too
					add(Step{Op: "FORCE_ERROR", Src: state, Expect: "ERROR", Note: "forced"})
				}
			case p < 90:
				add(teardownStep(r, state, true))
			case p < 94:
				add(teardownStep(r, state, false))
			default:
				add(illegalStep(r, state))
			}
		case "ERROR":
			switch {
			case p < 50:
				add(teardownStep(r, state, true))
			case p < 70:
				add(teardownStep(r, state, false))
			default:
				add(illegalStep(r, state))
			}
		case "DEPLOYED":
			add(plainStep("CONFIGURE", state))
		default:
			k = n
		}
	}
	if state != "DONE" {
		if (state == "CONFIGURED" || state == "RUNNING") && r.Intn(100) < 45 {
			cs.Steps = append(cs.Steps, raceStepGen(r, state))
		} else {
			cs.Steps = append(cs.Steps, teardownStep(r, state, true))
		}
	}
	return cs
}

// odcStep: an ODC_PARTITION_STATE_CHANGE event with state ERROR for a RUNNING environment, handed to the
// real Manager.NotifyIntegratedServiceEvent. The manager's handler then runs, on its own goroutine, the
// REAL STOP_ACTIVITY, then (unless the environment is in ERROR) the REAL GO_ERROR, and finally forces
// the state with Environment.setState("ERROR"): the production path to a forced ERROR. Script: both
// transitions cancelled by critical hooks / failing tasks (the run is still open when the state is
// forced), only the STOP cancelled, or nothing failing.
func odcStep(r *rand.Rand) Step {
	s := Step{Op: "ODC_ERROR", Src: "RUNNING", Expect: "ERROR", Note: "odc"}
	w := func() int { return probeWeights[r.Intn(3)] }
	switch p := r.Intn(100); {
	case p < 22:
		s.Fail = []string{envlab.Expr("leave_RUNNING", w())} // cancels both
	case p < 46:
		s.Fail = []string{envlab.Expr("before_STOP_ACTIVITY", w()), envlab.Expr("before_GO_ERROR", w())}
	case p < 62:
		s.FailBody = true // the tasks fail to stop
		s.Fail = []string{envlab.Expr([]string{"before_GO_ERROR", "leave_RUNNING"}[r.Intn(2)], w())}
	case p < 72:
		s.Fail = []string{envlab.Expr("before_STOP_ACTIVITY", w())}
	case p < 82:
		s.FailBody = true
	}
	if r.Intn(100) < 40 {
		ms := []string{"before_STOP_ACTIVITY", "leave_RUNNING", "before_GO_ERROR", "enter_ERROR", "after_GO_ERROR"}
		s.Slow = append(s.Slow, envlab.Expr(ms[r.Intn(len(ms))], w()))
	}
	return s
}

// raceStepGen: START_ACTIVITY (from CONFIGURED) or STOP_ACTIVITY / GO_ERROR (from RUNNING) with a forced
// teardown requested while the transition body runs. The transition may also fail (body, enter_, after_:
// the points that are still reached once the body has been entered).
func raceStepGen(r *rand.Rand, src string) Step {
	op := "START_ACTIVITY"
	if src == "RUNNING" {
		op = "STOP_ACTIVITY"
		if r.Intn(100) < 20 {
			op = "GO_ERROR"
		}
	}
	dst := refDst(op, src)
	s := Step{Op: op, Src: src, Race: true, Expect: "DONE", Note: "race"}
	ms := momentsOfStep(op, src, dst)
	switch p := r.Intn(100); {
	case p < 15:
		s.FailBody = true
	case p < 35:
		k := []string{"enter", "after"}[r.Intn(2)]
		s.Fail = append(s.Fail, envlab.Expr(ms[k], probeWeights[r.Intn(3)]))
	}
	if r.Intn(100) < 40 {
		s.Slow = append(s.Slow, envlab.Expr(ms[hookMomentKinds[r.Intn(4)]], probeWeights[r.Intn(3)]))
	}
	return s
}

func c10Fingerprint(cs C10Case) string {
	var sb strings.Builder
	for _, s := range cs.Steps {
		fmt.Fprintf(&sb, "%s/%v/%v/%v;", s.Op, s.Force, s.Fail, s.FailBody)
	}
	fmt.Fprintf(&sb, "real=%v/%v", cs.Real, cs.UserRN)
	return sb.String()
}

// ---------------------------------------------------------------- capture of Ev_RunEvent

type runCap struct{ w *envlab.World }

func (c *runCap) WriteEvent(e interface{}) { c.WriteEventWithTimestamp(e, time.Time{}) }
func (c *runCap) WriteEventWithTimestamp(e interface{}, ts time.Time) {
	ev, ok := e.(*pb.Ev_RunEvent)
	if !ok || ev == nil {
		return
	}
	if l := c.w.Lab(ev.EnvironmentId); l != nil {
		tsS := ""
		if !ts.IsZero() {
			tsS = strconv.FormatInt(ts.UnixMilli(), 10)
		}
		l.Add(envlab.Record{Kind: kRunEvent, Event: ev.Transition, State: ev.State, Step: ev.TransitionStatus.String(), Err: ev.Error,
			N: int(ev.RunNumber), Snap: map[string]string{"ts": tsS}})
	}
}
func (c *runCap) Close() {}

// ---------------------------------------------------------------- execution

type stepResult struct {
	State string `json:"state"`
	Err   string `json:"err,omitempty"`
}

type c10Outcome struct {
	Case      C10Case
	Results   []stepResult
	Records   []envlab.Record
	Diverged  int // index of the first step whose state differs from the prediction, -1 if none
	Anomalies int
}

type c10Script struct {
	mu   sync.Mutex
	fail map[string]bool
	slow map[string]bool
	body func() error // what the task manager does with the task command of a REAL transition (nil: success)
}

func (s *c10Script) setBody(f func() error) { s.mu.Lock(); s.body = f; s.mu.Unlock() }

// useReal: which steps of a Real walk run the core's own transition. GO_ERROR's real transition sends
// no task command, so a GO_ERROR that is to fail in its body or to wait at a gate stays a stand-in.
func useReal(cs *C10Case, st *Step) bool {
	switch st.Op {
	case "START_ACTIVITY", "STOP_ACTIVITY":
		return cs.Real
	case "GO_ERROR":
		return cs.Real && !st.FailBody && !st.Race
	}
	return false
}

// makeTransition builds the transition of a step: the real one (its task command is handed to `body`
// by the lab's OnTaskCommand) or the stand-in whose body is `body`. Both write body_enter / body_exit.
func makeTransition(lab *envlab.Lab, sc *c10Script, real bool, op string, body func() error) environment.Transition {
	if real {
		sc.setBody(body)
		tm := lab.W.In.Taskman
		switch op {
		case "START_ACTIVITY":
			return environment.NewStartActivityTransition(tm)
		case "STOP_ACTIVITY":
			return environment.NewStopActivityTransition(tm)
		default:
			return environment.NewGoErrorTransition(tm)
		}
	}
	return environment.VerifNewTransition(op, func(*environment.Environment) error {
		lab.Add(envlab.Record{Kind: envlab.KBodyEnter, Event: op})
		var berr error
		if body != nil {
			berr = body()
		}
		r := envlab.Record{Kind: envlab.KBodyExit, Event: op}
		if berr != nil {
			r.Err = berr.Error()
		}
		lab.Add(r)
		return berr
	})
}

// taskCommand is the lab's OnTaskCommand: the task manager's side of a real transition.
func (s *c10Script) taskCommand(lab *envlab.Lab) func(*task.TaskmanMessage) error {
	return func(m *task.TaskmanMessage) error {
		args := map[string]string{}
		for _, k := range []string{"runNumber", vRN, vSOSOR, vSOEOR} {
			if v, ok := m.GetArguments()[k]; ok {
				args[k] = v
			}
		}
		lab.Add(envlab.Record{Kind: envlab.KBodyEnter, Event: m.GetEvent(), Msg: "task command of the real transition", Snap: args})
		s.mu.Lock()
		f := s.body
		s.mu.Unlock()
		var berr error
		if f != nil {
			berr = f()
		}
		r := envlab.Record{Kind: envlab.KBodyExit, Event: m.GetEvent()}
		if berr != nil {
			r.Err = berr.Error()
		}
		lab.Add(r)
		return berr
	}
}

func (s *c10Script) set(st *Step) {
	s.mu.Lock()
	s.fail, s.slow = map[string]bool{}, map[string]bool{}
	if st != nil {
		for _, f := range st.Fail {
			s.fail[f] = true
		}
		for _, f := range st.Slow {
			s.slow[f] = true
		}
	}
	s.mu.Unlock()
}

const slowHook = 1100 * time.Microsecond // > 1 ms: the millisecond clock of the timestamps certainly ticks

func execC10(w *envlab.World, cs C10Case) (*c10Outcome, error) {
	t0 := time.Now()
	var userVars map[string]string
	if len(cs.UserRN) > 0 {
		userVars = map[string]string{}
		for _, k := range cs.UserRN {
			userVars[k] = staleUserRN
		}
	}
	lab, err := w.NewLab(probeSet(), userVars)
	if err != nil {
		return nil, err
	}
	defer lab.Close()
	if len(cs.UserRN) > 0 {
		lab.Add(envlab.Record{Kind: kCaseInfo, Msg: "user run number variables"})
	}
	if os.Getenv("VERIF_TIMING") != "" {
		defer func(t1 time.Time) {
			fmt.Fprintf(os.Stderr, "timing: newlab=%v walk(%d steps)=%v\n", t1.Sub(t0), len(cs.Steps), time.Since(t1))
		}(time.Now())
	}
	sc := &c10Script{}
	sc.set(nil)
	lab.OnTaskCommand = sc.taskCommand(lab)
	lab.OnProbe = func(pi envlab.ProbeInfo) envlab.ProbeAction {
		act := envlab.ProbeAction{Snap: snapOf(pi.VarStack)}
		sc.mu.Lock()
		act.Fail = sc.fail[pi.Trigger]
		if sc.slow[pi.Trigger] {
			act.Sleep = slowHook
		}
		sc.mu.Unlock()
		return act
	}
	out := &c10Outcome{Case: cs, Diverged: -1}
	quiescent := func(op, state, errText string) {
		snap := map[string]string{}
		if wf := lab.Env.Workflow(); wf != nil {
			if vs, err := wf.ConsolidatedVarStack(); err == nil {
				snap = snapOf(vs)
			} else {
				snap["__error"] = err.Error()
			}
		}
		lab.Add(envlab.Record{Kind: kQuiescent, Event: op, State: state, Err: errText, Snap: snap})
	}
	state := "STANDBY"
	for i := range cs.Steps {
		st := &cs.Steps[i]
		sc.set(st)
		var res stepResult
		var derr error
		if st.Race {
			var an string
			res.State, derr, an = raceTeardown(lab, st, sc, useReal(&cs, st))
			if an != "" {
				out.Anomalies++
				lab.Add(envlab.Record{Kind: envlab.KAnomaly, Msg: an})
			}
		} else if st.Op == "ODC_ERROR" {
			var an string
			res.State, an = odcError(lab, st, sc)
			if an != "" {
				out.Anomalies++
				lab.Add(envlab.Record{Kind: envlab.KAnomaly, Msg: an})
			}
		} else if st.Op == "TEARDOWN" {
			res.State, derr = seqTeardown(lab, st.Force)
		} else if st.Op == "FORCE_ERROR" {
			src := lab.Env.CurrentState()
			lab.Add(envlab.Record{Kind: envlab.KTransBegin, Event: st.Op, Src: src, State: src})
			lab.Env.Sm.SetState("ERROR")
			res.State = lab.Env.CurrentState()
			lab.Add(envlab.Record{Kind: envlab.KTransEnd, Event: st.Op, Src: src, State: res.State})
		} else {
			var body func() error
			if st.FailBody {
				body = func() error { return errors.New("verif: tasks failed to transition (scripted)") }
			}
			res.State, derr = seqTransitionT(lab, st.Op, makeTransition(lab, sc, useReal(&cs, st), st.Op, body))
			sc.setBody(nil)
		}
		if derr != nil {
			res.Err = derr.Error()
		}
		if derr == errWatchdog {
			out.Anomalies++
			out.Records = normalizeC10(lab.Records())
			return out, nil
		}
		sc.set(nil)
		quiescent(st.Op, res.State, res.Err)
		out.Results = append(out.Results, res)
		state = res.State
		if res.State != st.Expect {
			out.Diverged = i
			break
		}
	}
	if state != "DONE" {
		// not part of the plan (the walk diverged from the predicted states): clean up, still observed
		st, derr := seqTeardown(lab, true)
		if derr == errWatchdog {
			out.Anomalies++
		}
		quiescent("TEARDOWN", st, "")
	}
	out.Records = normalizeC10(lab.Records())
	out.Anomalies += lab.Anomalies()
	return out, nil
}

const (
	kRaceBegin envlab.Kind = "race_begin"
	kRaceEnd   envlab.Kind = "race_end"
	kRaceNote  envlab.Kind = "race_note"
)

// raceTeardown drives one Race step: the transition runs on its own goroutine with a body that waits
// at a gate; Manager.TeardownEnvironment(force) is called from a second goroutine; when that one has
// logged "attempt delayed" (it is parked on the transition mutex) the gate opens. The trans_end /
// teardown_begin / teardown_end records of the two overlapping calls are written afterwards by
// normalizeC10, at the positions that the mutex defines.
func raceTeardown(lab *envlab.Lab, st *Step, sc *c10Script, real bool) (state string, err error, anomaly string) {
	setupDelayHook()
	delayed := make(chan struct{}, 4)
	delaySubs.Store(lab.ID, delayed)
	defer delaySubs.Delete(lab.ID)
	defer sc.setBody(nil)
	src := lab.Env.CurrentState()
	lab.Add(envlab.Record{Kind: kRaceBegin, Event: st.Op, Src: src, State: src})
	entered := make(chan struct{})
	gate := make(chan struct{})
	transDone := make(chan error, 1)
	tdDone := make(chan error, 1)
	tr := makeTransition(lab, sc, real, st.Op, func() error {
		close(entered)
		<-gate
		if st.FailBody {
			return errors.New("verif: tasks failed to transition (scripted)")
		}
		return nil
	})
	go func() { transDone <- lab.Env.TryTransition(tr) }()
	var terr error
	transReturned := false
	select {
	case <-entered:
	case terr = <-transDone: // cancelled before its body: nothing to race with
		transReturned = true
	case <-time.After(watchdog):
		close(gate)
		return lab.Env.CurrentState(), errWatchdog, ""
	}
	lab.Add(envlab.Record{Kind: kRaceNote, Msg: "teardown requested", State: lab.Env.CurrentState()})
	go func() { tdDone <- lab.W.Mgr.TeardownEnvironment(lab.Env.Id(), true) }()
	var tdErr error
	tdReturned := false
	if !transReturned {
		select {
		case <-delayed:
			lab.Add(envlab.Record{Kind: kRaceNote, Msg: "teardown waits for the transition mutex"})
		case tdErr = <-tdDone:
			tdReturned = true
			lab.Add(envlab.Record{Kind: kRaceNote, Msg: "teardown returned while the transition body was executing"})
		case <-time.After(30 * time.Second):
			anomaly = "race step: the teardown neither waited for the mutex nor returned within 30 s"
		}
		close(gate)
	}
	if !transReturned {
		select {
		case terr = <-transDone:
		case <-time.After(watchdog):
			return lab.Env.CurrentState(), errWatchdog, anomaly
		}
	}
	if !tdReturned {
		select {
		case tdErr = <-tdDone:
		case <-time.After(watchdog):
			return lab.Env.CurrentState(), errWatchdog, anomaly
		}
	}
	state = lab.Env.CurrentState()
	r := envlab.Record{Kind: kRaceEnd, Event: st.Op, Src: src, State: state}
	if tdErr != nil {
		r.Err = tdErr.Error()
	}
	if terr != nil {
		r.Msg = terr.Error()
	}
	lab.Add(r)
	return state, tdErr, anomaly
}

const (
	kOdcBegin envlab.Kind = "odc_begin"
	kOdcEnd   envlab.Kind = "odc_end"
)

const fnOdcHandler = "core/environment.(*Manager).handleIntegratedServiceEvent.func"

// odcError drives one ODC_ERROR step and returns when the handler's goroutine is gone.
func odcError(lab *envlab.Lab, st *Step, sc *c10Script) (state string, anomaly string) {
	src := lab.Env.CurrentState()
	lab.Add(envlab.Record{Kind: kOdcBegin, Event: st.Op, Src: src, State: src})
	if st.FailBody {
		sc.setBody(func() error { return errors.New("verif: tasks failed to transition (scripted)") })
		defer sc.setBody(nil)
	}
	lab.W.Mgr.NotifyIntegratedServiceEvent(&odcevent.OdcPartitionStateChangeEvent{
		IntegratedServiceEventBase: event.IntegratedServiceEventBase{ServiceName: "ODC"},
		EnvironmentId:              lab.Env.Id(), State: "ERROR", EcsState: src})
	deadline := time.Now().Add(watchdog)
	for {
		if lab.Env.CurrentState() == "ERROR" {
			busy := false
			for _, g := range envlab.Goroutines() {
				if g.Has(fnOdcHandler) {
					busy = true
				}
			}
			if !busy {
				break
			}
		}
		if time.Now().After(deadline) {
			anomaly = "ODC_ERROR step: the environment did not reach ERROR / the handler did not finish"
			break
		}
		time.Sleep(200 * time.Microsecond)
	}
	state = lab.Env.CurrentState()
	lab.Add(envlab.Record{Kind: kOdcEnd, Event: st.Op, Src: src, State: state})
	return state, anomaly
}

// normalizeC10 turns the records of a Race step into the sequential shape the oracle reads: the
// transition ends at its last published event ("transition completed successfully" / "transition
// error", written under the transition mutex, with the state it left), the teardown begins right
// there and ends at race_end.
func normalizeC10(recs []envlab.Record) []envlab.Record {
	out := make([]envlab.Record, 0, len(recs)+8)
	op, src := "", ""
	inRace, final := false, false
	inOdc, odcLast := false, ""
	for _, r := range recs {
		switch {
		// ODC_ERROR step: the handler's own transitions are bracketed by their first and last published
		// event; a state that differs from the one they left at the end of the step was forced
		case r.Kind == kOdcBegin:
			inOdc, odcLast = true, r.Src
			out = append(out, r)
		case inOdc && r.Kind == envlab.KEnvEvent && r.Step == "" && r.Msg == "transition starting":
			out = append(out, r, envlab.Record{Seq: r.Seq, Kind: envlab.KTransBegin, Event: r.Event, Src: r.State, State: r.State, Msg: "odc"})
		case inOdc && r.Kind == envlab.KEnvEvent && r.Step == "" &&
			(r.Msg == "transition completed successfully" || r.Msg == "transition error" || r.Msg == "transition impossible"):
			out = append(out, r, envlab.Record{Seq: r.Seq, Kind: envlab.KTransEnd, Event: r.Event, State: r.State, Err: r.Err, Msg: "odc"})
			odcLast = r.State
		case r.Kind == kOdcEnd:
			if r.State != odcLast {
				out = append(out, envlab.Record{Seq: r.Seq, Kind: envlab.KTransBegin, Event: "FORCE_ERROR", Src: odcLast, State: odcLast, Msg: "odc: Environment.setState"},
					envlab.Record{Seq: r.Seq, Kind: envlab.KTransEnd, Event: "FORCE_ERROR", Src: odcLast, State: r.State, Msg: "odc: Environment.setState"})
			}
			out = append(out, r)
			inOdc = false
		case r.Kind == kRaceBegin:
			op, src, inRace, final = r.Event, r.Src, true, false
			out = append(out, envlab.Record{Seq: r.Seq, Kind: envlab.KTransBegin, Event: op, Src: src, State: src, Msg: "race"})
		case inRace && !final && r.Kind == envlab.KEnvEvent && r.Event == op && r.Step == "" &&
			(r.Msg == "transition completed successfully" || r.Msg == "transition error" || r.Msg == "transition impossible"):
			final = true
			out = append(out, r,
				envlab.Record{Seq: r.Seq, Kind: envlab.KTransEnd, Event: op, Src: src, State: r.State, Err: r.Err, Msg: "race"},
				envlab.Record{Seq: r.Seq, Kind: envlab.KTeardownBegin, Event: "DESTROY", Src: r.State, State: r.State, Msg: "race"})
		case r.Kind == kRaceEnd:
			if !final {
				out = append(out, envlab.Record{Seq: r.Seq, Kind: envlab.KTransEnd, Event: op, Src: src, State: src, Err: r.Msg, Msg: "race: no final event"},
					envlab.Record{Seq: r.Seq, Kind: envlab.KTeardownBegin, Event: "DESTROY", Src: src, State: src, Msg: "race"})
			}
			out = append(out, envlab.Record{Seq: r.Seq, Kind: envlab.KTeardownEnd, Event: "DESTROY", State: r.State, Err: r.Err, Msg: "race"})
			inRace = false
		default:
			out = append(out, r)
		}
	}
	return out
}

// ---------------------------------------------------------------- oracle

type bracket struct {
	N, S  string
	ts    map[string]string // non-empty values seen so far for EOSOR / SOEOR / EOEOR
	k     int               // occurrence that opened it
	phase string            // starting | active | stale (start cancelled) | gone (after_STOP done) | ended (error / teardown)
}

type occInfo struct {
	K          int
	Event, Src string
}

type c10Oracle struct {
	v         []viol
	br        *bracket
	prevN     map[string]bool
	prevS     map[string]bool
	occ       occInfo
	justEnded string
	lastStart struct {
		N string
		K int
	}
	evStart map[int]bool
	evCnt   map[int]map[string]int
	cnt     map[string]int64
	// task side (walks with real transitions): the last value pushed to the tasks for each key; command
	// arguments stay with a task until a later command overwrites them
	taskView map[string]string
	prevEnd  map[string]bool // end-of-run values of earlier brackets
	// shadow: the environment carries user variables run_number / runNumber: what the hooks see of the
	// run number is the user's value, by the precedence rule; the run number is then followed through
	// the Ev_RunEvents and the task command arguments only
	shadow bool
}

// shadowVars: in a shadow walk the hooks' view of the run number is replaced by `rn` (what the bracket
// automaton expects at this point), which leaves its timestamp rules in force and its run number rules
// idle.
func (o *c10Oracle) shadowVars(vars map[string]string, rn string) map[string]string {
	if !o.shadow {
		return vars
	}
	out := map[string]string{}
	for k, v := range vars {
		out[k] = v
	}
	delete(out, vRN)
	delete(out, vRN2)
	if rn != "" {
		out[vRN], out[vRN2] = rn, rn
	}
	return out
}

func (o *c10Oracle) phaseRN() string {
	if o.br == nil || o.br.phase == "gone" {
		return ""
	}
	return o.br.N
}

var tsKinds = []string{vEOSOR, vSOEOR, vEOEOR}
var tsShort = map[string]string{vSOSOR: "start", vEOSOR: "start-completion", vSOEOR: "end", vEOEOR: "end-completion"}

func (o *c10Oracle) hit(r envlab.Record, class, detail string) {
	o.v = append(o.v, viol{Rule: "C10", Class: class, Detail: fmt.Sprintf("%s [k=%d %s from %s, record seq %d %s %s]", detail, o.occ.K, o.occ.Event, o.occ.Src, r.Seq, r.Kind, r.Trigger), Seq: r.Seq})
}

func checkC10(recs []envlab.Record) ([]viol, map[string]int64) {
	o := &c10Oracle{prevN: map[string]bool{}, prevS: map[string]bool{}, evStart: map[int]bool{}, evCnt: map[int]map[string]int{}, cnt: map[string]int64{}, taskView: map[string]string{}, prevEnd: map[string]bool{}}
	for _, r := range recs {
		switch r.Kind {
		case envlab.KTransBegin:
			o.occ = occInfo{K: o.occ.K + 1, Event: r.Event, Src: r.Src}
		case envlab.KTeardownBegin:
			o.occ = occInfo{K: o.occ.K + 1, Event: "DESTROY", Src: r.Src}
		case envlab.KHookStart:
			if r.Snap != nil {
				o.cnt["snapshots"]++
				o.snap(r)
			}
		case envlab.KBodyEnter:
			if r.Snap != nil && strings.HasPrefix(r.Msg, "task command") {
				o.taskCommand(r)
			}
		case kCaseInfo:
			o.shadow = true
		case kQuiescent:
			o.cnt["quiescent_snapshots"]++
			o.quiescent(r)
		case kRunEvent:
			o.cnt["run_events"]++
			o.runEvent(r)
		case kRaceNote:
			switch r.Msg {
			case "teardown waits for the transition mutex":
				o.cnt["race_teardown_waited_for_mutex"]++
			case "teardown returned while the transition body was executing":
				o.cnt["race_teardown_did_not_wait"]++
			}
		case envlab.KTransEnd, envlab.KTeardownEnd:
			o.endOcc(r)
		}
	}
	return o.v, o.cnt
}

func (o *c10Oracle) snap(r envlab.Record) {
	m, w := envlab.ParseExpr(r.Trigger)
	pos := m + "/" + wSign(w)
	if o.occ.Event == "START_ACTIVITY" && o.occ.Src == "CONFIGURED" {
		if m == "before_START_ACTIVITY" && w < 0 {
			r.Snap = o.shadowVars(r.Snap, "")
			o.pre(r, pos)
			return
		}
		if o.br == nil || o.br.k != o.occ.K {
			n := ""
			if o.lastStart.K == o.occ.K {
				n = o.lastStart.N
			}
			r.Snap = o.shadowVars(r.Snap, n)
			o.open(r, m, w, pos)
			return
		}
	}
	o.in(r, o.shadowVars(r.Snap, o.phaseRN()), pos)
}

// pre: negative-weight before_START_ACTIVITY hook: nothing of the new run yet.
func (o *c10Oracle) pre(r envlab.Record, pos string) {
	o.cnt["neg_before_start_snapshots"]++
	early := false
	for _, k := range []string{vRN, vRN2} {
		if v := r.Snap[k]; v != "" && !o.prevN[v] {
			o.hit(r, "RN-EARLY/"+pos, fmt.Sprintf("negative-weight before_START_ACTIVITY hook sees %s=%s, a number no earlier attempt of this environment had: the new run number is set before the negative-weight hooks", k, v))
			early = true
		}
	}
	if v := r.Snap[vSOSOR]; v != "" && !o.prevS[v] {
		o.hit(r, "START-TIME-EARLY/"+pos, fmt.Sprintf("negative-weight before_START_ACTIVITY hook sees run_start_time_ms=%s, a value no earlier attempt had", v))
		early = true
	}
	if o.br != nil && o.br.phase == "stale" && r.Snap[vRN] == o.br.N {
		o.cnt["neg_hooks_saw_previous_attempt"]++ // documented order: accepted
	}
	if !early {
		o.in(r, r.Snap, pos)
	}
}

// open: first snapshot after the set point of a start attempt.
func (o *c10Oracle) open(r envlab.Record, m string, w int, pos string) {
	vars := r.Snap
	rn, s := vars[vRN], vars[vSOSOR]
	prevPhase := ""
	if o.br != nil {
		prevPhase = o.br.phase
		if v := o.br.ts[vSOEOR]; v != "" {
			o.prevEnd[v] = true
		}
	}
	o.cnt["start_attempts_with_number"]++
	switch {
	case rn == "":
		o.hit(r, "RN-MISSING/"+pos, "hook after the set point of START_ACTIVITY sees no run_number")
	case o.prevN[rn]:
		after := "after-completed-run"
		if prevPhase == "stale" {
			after = "after-cancelled-start"
		}
		o.hit(r, "RN-REUSED/"+after, fmt.Sprintf("start attempt shows run number %s, which an earlier attempt of this environment already showed", rn))
	}
	if prevPhase == "stale" {
		o.cnt["restarts_after_cancelled_start"]++
	} else if prevPhase != "" {
		o.cnt["restarts_after_run"]++
	}
	if vars[vRN2] != rn {
		o.hit(r, "RN-VARS-DIFFER/"+pos, fmt.Sprintf("run_number=%q but runNumber=%q", rn, vars[vRN2]))
	}
	if s == "" {
		o.hit(r, "START-TIME-MISSING/"+pos, "hook after the set point of START_ACTIVITY sees no run_start_time_ms")
	}
	if o.lastStart.K == o.occ.K && o.lastStart.N != "" && o.lastStart.N != rn {
		o.hit(r, "RN-EVENT-MISMATCH", fmt.Sprintf("Ev_RunEvent START_ACTIVITY/STARTED carries run %s, hooks see %s", o.lastStart.N, rn))
	}
	b := &bracket{N: rn, S: s, ts: map[string]string{}, k: o.occ.K, phase: "starting"}
	for _, k := range tsKinds {
		v := vars[k]
		if v == "" {
			continue
		}
		if k == vEOSOR && m == "after_START_ACTIVITY" && w >= 0 {
			b.ts[k] = v
			continue
		}
		o.hit(r, "PREV-VISIBLE/"+tsShort[k], fmt.Sprintf("first hook that sees run %s also sees %s=%s: the value of the previous run was not cleared", rn, k, v))
		b.ts[k] = v
	}
	o.cnt["prev_visible_checks"]++
	if rn != "" {
		o.prevN[rn] = true
	}
	if s != "" {
		o.prevS[s] = true
	}
	o.br = b
	o.order(r, vars)
}

func (o *c10Oracle) in(r envlab.Record, vars map[string]string, pos string) {
	b := o.br
	if b == nil {
		return
	}
	rn, s := vars[vRN], vars[vSOSOR]
	switch b.phase {
	case "starting", "active":
		if rn != b.N {
			if rn == "" {
				o.hit(r, "RN-LOST/"+pos, fmt.Sprintf("run %s is in progress but the hook sees no run_number", b.N))
			} else {
				o.hit(r, "RN-CHANGED/"+pos, fmt.Sprintf("run %s is in progress but the hook sees run_number=%s", b.N, rn))
			}
		}
		if vars[vRN2] != rn {
			o.hit(r, "RN-VARS-DIFFER/"+pos, fmt.Sprintf("run_number=%q but runNumber=%q", rn, vars[vRN2]))
		}
		if s != b.S {
			if s == "" {
				o.hit(r, "START-TIME-LOST/"+pos, fmt.Sprintf("run %s is in progress but the hook sees no run_start_time_ms", b.N))
			} else {
				o.hit(r, "START-TIME-CHANGED/"+pos, fmt.Sprintf("run %s: run_start_time_ms was %s, now %s", b.N, b.S, s))
			}
		}
	case "stale", "ended":
		if rn != "" && rn != b.N {
			o.hit(r, "RN-CHANGED/"+pos, fmt.Sprintf("last start attempt had run %s, the hook sees run_number=%s without a new start", b.N, rn))
		}
		if s != "" && s != b.S {
			o.hit(r, "START-TIME-CHANGED/"+pos, fmt.Sprintf("run %s: run_start_time_ms was %s, now %s", b.N, b.S, s))
		}
	case "gone":
		if rn != "" || vars[vRN2] != "" {
			o.hit(r, "RN-STILL-VISIBLE/"+pos, fmt.Sprintf("run %s ended with after_STOP_ACTIVITY but run_number=%q runNumber=%q are still visible", b.N, rn, vars[vRN2]))
		}
		if s != "" && s != b.S {
			o.hit(r, "START-TIME-CHANGED/"+pos, fmt.Sprintf("run %s: run_start_time_ms was %s, now %s", b.N, b.S, s))
		}
	}
	for _, k := range tsKinds {
		v, prev := vars[k], b.ts[k]
		switch {
		case prev != "" && v == "":
			o.hit(r, "TS-CLEARED/"+tsShort[k]+"/"+b.phase, fmt.Sprintf("run %s: %s was %s and reads empty now", b.N, k, prev))
		case prev != "" && v != prev:
			o.hit(r, "TS-SET-TWICE/"+tsShort[k]+"/"+b.phase, fmt.Sprintf("run %s: %s was %s and is %s now: set a second time", b.N, k, prev, v))
			b.ts[k] = v
		case prev == "" && v != "":
			b.ts[k] = v
			o.cnt["ts_set_"+tsShort[k]]++
		}
	}
	o.order(r, vars)
}

// taskCommand: what the tasks see after the command of a real START_ACTIVITY / STOP_ACTIVITY. Only the
// statement's "values of a previous run are never visible in the next" is judged: after START the
// task-side end timestamp must read empty (it can only be the previous run's), and the run number /
// start time / end time the tasks hold must not be those of an earlier attempt.
func (o *c10Oracle) taskCommand(r envlab.Record) {
	hadEnd := o.taskView[vSOEOR] != ""
	for k, v := range r.Snap {
		o.taskView[k] = v
	}
	b := o.br
	if b == nil {
		return
	}
	switch {
	case o.occ.Event == "START_ACTIVITY" && b.k == o.occ.K && b.phase == "starting":
		o.cnt["task_side_checks_at_start"]++
		// the number the tasks are started with is the one the environment holds for this run
		// (the Ev_RunEvent START_ACTIVITY/STARTED of this start carries it)
		if o.lastStart.K == o.occ.K && o.lastStart.N != "" {
			o.cnt["task_side_run_number_checks"]++
			if o.shadow {
				o.cnt["task_side_run_number_checks_with_user_var"]++
			}
			for _, k := range []string{"runNumber", vRN} {
				if v, pushed := r.Snap[k]; pushed && v != o.lastStart.N {
					o.hit(r, "RN-MISMATCH/task-args/"+k, fmt.Sprintf("the START_ACTIVITY command carries %s=%q but the environment holds run number %s for this run (Ev_RunEvent START_ACTIVITY/STARTED)", k, v, o.lastStart.N))
				}
			}
		}
		if hadEnd {
			o.cnt["task_side_checks_at_restart_after_stop"]++
		}
		if v := o.taskView[vSOEOR]; v != "" {
			o.hit(r, "PREV-RUN-VISIBLE/task-args/"+vSOEOR, fmt.Sprintf("after the START_ACTIVITY command of run %s the tasks still hold run_end_time_ms=%s, the end of a previous run: the cleared value was not pushed with START", b.N, v))
		}
		if v := o.taskView["runNumber"]; v != b.N && v != "" && o.prevN[v] {
			o.hit(r, "PREV-RUN-VISIBLE/task-args/runNumber", fmt.Sprintf("the START_ACTIVITY command of run %s leaves the tasks with runNumber=%s, the number of an earlier attempt", b.N, v))
		}
		if v := o.taskView[vSOSOR]; v != b.S && v != "" && o.prevS[v] {
			o.hit(r, "PREV-RUN-VISIBLE/task-args/"+vSOSOR, fmt.Sprintf("the START_ACTIVITY command of run %s leaves the tasks with run_start_time_ms=%s, the start of an earlier attempt (this run: %s)", b.N, v, b.S))
		}
	case o.occ.Event == "STOP_ACTIVITY" && b.phase == "active":
		o.cnt["task_side_checks_at_stop"]++
		cur := b.ts[vSOEOR]
		if v := o.taskView[vSOEOR]; v != "" && cur != "" && v != cur && o.prevEnd[v] {
			o.hit(r, "PREV-RUN-VISIBLE/task-args/"+vSOEOR, fmt.Sprintf("the STOP_ACTIVITY command of run %s leaves the tasks with run_end_time_ms=%s, the end of a previous run (this run: %s)", b.N, v, cur))
		}
	}
}

func (o *c10Oracle) order(r envlab.Record, vars map[string]string) {
	ks := []string{vSOSOR, vEOSOR, vSOEOR, vEOEOR}
	for i := 0; i < len(ks); i++ {
		a, errA := strconv.ParseInt(vars[ks[i]], 10, 64)
		if vars[ks[i]] == "" {
			continue
		}
		if errA != nil {
			o.hit(r, "TS-NOT-A-NUMBER/"+tsShort[ks[i]], fmt.Sprintf("%s=%q", ks[i], vars[ks[i]]))
			continue
		}
		for j := i + 1; j < len(ks); j++ {
			if vars[ks[j]] == "" {
				continue
			}
			b, errB := strconv.ParseInt(vars[ks[j]], 10, 64)
			if errB == nil && a > b {
				o.hit(r, "TS-ORDER/"+tsShort[ks[i]]+">"+tsShort[ks[j]], fmt.Sprintf("%s=%d is later than %s=%d", ks[i], a, ks[j], b))
			}
		}
	}
}

func (o *c10Oracle) endOcc(r envlab.Record) {
	b := o.br
	if b == nil {
		return
	}
	switch {
	case o.occ.Event == "START_ACTIVITY" && b.k == o.occ.K && b.phase == "starting":
		if r.State == "RUNNING" {
			b.phase = "active"
			o.cnt["runs_reached_running"]++
			if r.Err != "" {
				o.cnt["runs_reached_running_with_error"]++
			}
		} else {
			b.phase = "stale"
			o.cnt["starts_cancelled_after_number_drawn"]++
		}
	case b.phase == "active" && o.occ.Src == "RUNNING":
		switch {
		case o.occ.Event == "STOP_ACTIVITY" && r.State == "CONFIGURED":
			b.phase, o.justEnded = "gone", "stop"
		case o.occ.Event == "GO_ERROR" && r.State == "ERROR":
			b.phase, o.justEnded = "ended", "error"
		case o.occ.Event == "DESTROY" && r.State == "DONE":
			b.phase, o.justEnded = "ended", "teardown"
		case o.occ.Event == "FORCE_ERROR" && r.State == "ERROR":
			b.phase, o.justEnded = "ended", "forced-error"
		case r.Err != "" && r.State == "RUNNING" && (o.occ.Event == "STOP_ACTIVITY" || o.occ.Event == "GO_ERROR"):
			o.cnt["run_survived_failed_"+strings.ToLower(o.occ.Event)]++
		}
		if o.justEnded != "" {
			o.cnt["runs_ended_by_"+o.justEnded]++
		}
	}
}

func (o *c10Oracle) quiescent(r envlab.Record) {
	o.in(r, o.shadowVars(r.Snap, o.phaseRN()), "quiescent")
	if o.justEnded == "forced-error" && r.State != "DONE" {
		// forced move to ERROR (optional workload): a teardown may still complete the bracket
		return
	}
	if o.justEnded != "" && o.br != nil {
		for _, k := range []string{vSOEOR, vEOEOR} {
			if r.Snap[k] == "" {
				o.hit(r, "END-MISSING/"+tsShort[k]+"/"+o.justEnded, fmt.Sprintf("run %s reached RUNNING and ended by %s but %s is empty", o.br.N, o.justEnded, k))
			}
		}
		o.cnt["end_timestamp_checks"]++
		o.justEnded = ""
	}
}

func (o *c10Oracle) runEvent(r envlab.Record) {
	n := r.N
	if r.Event == "START_ACTIVITY" && r.Step == "STARTED" {
		if o.evStart[n] {
			o.hit(r, "EV-RN-REUSED", fmt.Sprintf("second Ev_RunEvent START_ACTIVITY/STARTED with run number %d in this environment", n))
		}
		o.evStart[n] = true
		o.lastStart.N, o.lastStart.K = strconv.Itoa(n), o.occ.K
		return
	}
	class := ""
	switch {
	case r.Event == "START_ACTIVITY":
		class = "start-completion"
	case r.Event == "TEARDOWN":
		class = "teardown"
	case r.Step == "STARTED":
		class = "end"
	default:
		class = "end-completion"
	}
	if b := o.br; b != nil && b.phase == "active" && strconv.Itoa(n) != b.N {
		o.hit(r, "EV-RN-MISMATCH/"+class, fmt.Sprintf("run %s is in progress, Ev_RunEvent %s/%s carries run number %d", b.N, r.Event, r.Step, n))
	}
	if n == 0 {
		return
	}
	if o.evCnt[n] == nil {
		o.evCnt[n] = map[string]int{}
	}
	c := o.evCnt[n]
	c[class]++
	if class != "teardown" && c[class] > 1 {
		o.hit(r, "EV-TWICE/"+class, fmt.Sprintf("run %d: %d %s events published (a timestamp was set twice)", n, c[class], class))
	} else if c["end"]+c["end-completion"]+c["teardown"] > 2 {
		o.hit(r, "EV-TWICE/end-by-teardown", fmt.Sprintf("run %d: end / end-completion published %d times in total", n, c["end"]+c["end-completion"]+c["teardown"]))
	}
}

// ---------------------------------------------------------------- main loop

func c10Total(tier string) int {
	if tier == "thorough" {
		return 10000
	}
	return 500
}

func countC10Case(c *vlib.Ctx, cs C10Case, out *c10Outcome) {
	c.Count("walks", 1)
	c.Count("steps", int64(len(out.Results)))
	if len(cs.UserRN) > 0 {
		c.Count("walks_with_user_run_number_variable", 1)
	}
	if cs.Real {
		c.Count("walks_with_real_transitions", 1)
		for i := range out.Results {
			s := &cs.Steps[i]
			if useReal(&cs, s) {
				c.Count("real_"+strings.ToLower(s.Op), 1)
				if s.FailBody {
					c.Count("real_"+strings.ToLower(s.Op)+"_tasks_failed", 1)
				}
			}
		}
	}
	for i := range out.Results {
		s := cs.Steps[i]
		key := strings.ToLower(s.Op)
		switch s.Note {
		case "fail":
			for _, f := range s.Fail {
				m, _ := envlab.ParseExpr(f)
				c.Count("failed_"+key+"_at_"+momentKindOf(m), 1)
			}
			if s.FailBody {
				c.Count("failed_"+key+"_at_body", 1)
			}
		case "odc":
			c.Count("odc_error_steps", 1)
			if s.FailBody && !(len(s.Fail) > 0 && strings.HasPrefix(s.Fail[0], "leave_RUNNING")) {
				c.Count("real_stop_activity_tasks_failed", 1) // the handler's real STOP reached its task command
			}
			if len(s.Fail) > 0 && (len(s.Fail) > 1 || s.FailBody || strings.HasPrefix(s.Fail[0], "leave_RUNNING")) {
				c.Count("odc_error_steps_both_transitions_cancelled", 1)
			}
		case "race":
			c.Count("race_teardown_during_"+key, 1)
			if out.Results[i].State == "DONE" {
				c.Count("race_teardown_completed", 1)
			}
		case "illegal":
			c.Count("illegal_requests", 1)
		case "rejected":
			c.Count("rejected_teardowns", 1)
		case "ok":
			if s.Op == "TEARDOWN" {
				c.Count("teardown_from_"+strings.ToLower(s.Src), 1)
			}
		}
		if len(s.Slow) > 0 {
			c.Count("steps_with_slow_hook", 1)
		}
	}
	if out.Diverged >= 0 {
		c.Count("walks_diverged_from_predicted_state", 1)
	}
}

func runC10() {
	c := vlib.Start("C10")
	defer c.Finish()
	w, err := envlab.Setup()
	if err != nil {
		c.Inconclusive("envlab setup: " + err.Error())
		return
	}
	the.VerifSetWriter(topic.Run, &runCap{w: w})
	if c.Replay != "" {
		var cs C10Case
		if err := readReplay(c, &cs); err != nil {
			c.Inconclusive("replay: " + err.Error())
			return
		}
		out, err := execC10(w, cs)
		if err != nil {
			c.Inconclusive(err.Error())
			return
		}
		dumpRecords(out.Records)
		vs, _ := checkC10(out.Records)
		for _, v := range vs {
			fmt.Fprintf(os.Stdout, "VIOLATION %s/%s: %s\n", v.Rule, v.Class, v.Detail)
			c.Violation(v.Rule, v.Class, v.Detail, 0, nil)
		}
		return
	}
	total := c10Total(c.Tier)
	nb := c.NBatch
	if nb < 1 {
		nb = 1
	}
	samples := 0
	for i := c.Batch; i < total; i += nb {
		cs := genC10(c, int64(i))
		id := c.Case(cs)
		out, err := execC10(w, cs)
		if err != nil {
			c.Inconclusive(fmt.Sprintf("case %d: %v", i, err))
			continue
		}
		if out.Anomalies > 0 {
			c.Inconclusive(fmt.Sprintf("case %d: %d lab anomalies: %s", i, out.Anomalies, firstAnomaly(out.Records)))
			c.Count("cases_with_lab_anomalies", 1)
			continue
		}
		countC10Case(c, cs, out)
		vs, cnt := checkC10(out.Records)
		for k, n := range cnt {
			c.Count(k, n)
		}
		if cnt["start_attempts_with_number"] > 0 {
			c.Nontrivial(vlib.Hash(c10Fingerprint(cs)))
		}
		seen := map[string]bool{}
		for _, v := range vs {
			if seen[v.Class] {
				continue
			}
			seen[v.Class] = true
			c.Violation(v.Rule, v.Class, v.Detail, id, map[string]interface{}{"case": cs, "results": out.Results,
				"records_around": slimRecords(window(out.Records, v.Seq, 40, 5))})
		}
		if samples < 2 && len(cs.Steps) > 4 {
			c.Sample(map[string]interface{}{"steps": cs.Steps, "results": out.Results})
			samples++
		}
	}
}
