package main

// C01INP, auto-stop scenarios: transitions that belong to no request.
//
// An environment created with auto_stop_enabled / auto_stop_timeout arms a timer at the end of
// START_ACTIVITY; its goroutine later calls TryTransition(STOP_ACTIVITY) - the REAL transition,
// envlab answers its task command - then, if that fails, GO_ERROR, and finally forces ERROR. The
// timer has to be disarmed whenever the run ends. Each scenario is a short single-driver walk with a
// real timeout of 150-400 ms, then a bounded sleep until twice the timeout has passed since START
// (a real timer of the code under test has to get its chance), then the environment is looked at again.
//
// Oracle (statement only): every change of the observed state (published events, states after each
// request, final samples) is an edge of the documented graph (RUNNING -> ERROR by the timer is one);
// nothing leaves DONE; no hook and no body runs after the teardown has ended; events published by two
// goroutines never interleave inside a transition / teardown bracket.

import (
	"errors"
	"fmt"
	"os"
	"strings"
	"sync"
	"time"

	"github.com/AliceO2Group/Control/common/event"
	odcevent "github.com/AliceO2Group/Control/core/integration/odc/event"

	"verif/harness/envlab"
)

const kFinalSample envlab.Kind = "final_sample"

type AutoCase struct {
	Prop      string `json:"prop"`
	Auto      bool   `json:"auto"`
	Idx       int64  `json:"idx"`
	Variant   string `json:"variant"`
	TimeoutMs int    `json:"timeout_ms"`
	PrefixRun bool   `json:"prefix_run,omitempty"` // a complete START/STOP before (the timer is armed, disarmed and armed again)
	LateFail  string `json:"late_fail,omitempty"`  // START_ACTIVITY fails at this enter_/after_ probe (RUNNING is reached, the timer is armed)
}

// teardownWhileRunning: also the variants in which a forced teardown ends the run while the timer is
// armed (they fired on the pinned tree and hold since fix d44d3d9; VERIF_C01_AUTOSTOP_TEARDOWN_RUNNING=0
// leaves them out).
var teardownWhileRunning = os.Getenv("VERIF_C01_AUTOSTOP_TEARDOWN_RUNNING") != "0"

// odcDuringTeardown: the other transition that belongs to no request - ODC reports its partition in ERROR
// while the environment is RUNNING; the manager's handler goroutine tries STOP_ACTIVITY, GO_ERROR and
// finally forces ERROR. In this variant the report arrives while a forced teardown is at its
// leave_RUNNING hooks (it holds the transition mutex, the environment still says RUNNING): the handler's
// goroutine waits at the mutex and goes on when the environment is DONE.
var odcDuringTeardown = os.Getenv("VERIF_C01_ODC_TEARDOWN") != "0"

func autoVariants() []string {
	v := []string{"error-then-teardown", "manual-stop", "timer-stops", "error-then-teardown", "timer-stop-fails", "failed-start"}
	if teardownWhileRunning {
		v = append(v, "teardown-while-running", "timeout-during-teardown")
	}
	if odcDuringTeardown {
		v = append(v, "odc-error-during-teardown")
	}
	return v
}

func autoTotal(tier string) int {
	per := 8 // scenarios per entry of the variant cycle
	if tier == "thorough" {
		per = 32
	}
	return per * len(autoVariants())
}

func genAuto(idx int64) AutoCase {
	vs := autoVariants()
	ac := AutoCase{Prop: "C01INP", Auto: true, Idx: idx, Variant: vs[int(idx)%len(vs)]}
	ac.TimeoutMs = 150 + int((idx*67)%251)
	k := idx / int64(len(vs))
	if ac.Variant == "error-then-teardown" || ac.Variant == "teardown-while-running" || ac.Variant == "timeout-during-teardown" {
		ac.PrefixRun = k%2 == 1
		switch k % 3 {
		case 1:
			ac.LateFail = "enter_RUNNING"
		case 2:
			ac.LateFail = "after_START_ACTIVITY+1"
		}
	}
	return ac
}

type autoOutcome struct {
	Case      AutoCase
	Records   []envlab.Record
	StopsSent int // STOP_ACTIVITY requests issued by the driver
	Anomaly   string
}

// autoDrive serialises the driving parts of concurrently running scenarios (workflow load, requests:
// concurrent NewRunNumber calls may fail on the Consul check-and-set, which is C07's subject, not this
// one's); only the waits for the timers overlap.
var autoDrive sync.Mutex

func execAuto(w *envlab.World, ac AutoCase) (*autoOutcome, error) {
	T := time.Duration(ac.TimeoutMs) * time.Millisecond
	autoDrive.Lock()
	defer autoDrive.Unlock()
	pause := func(f func()) { autoDrive.Unlock(); f(); autoDrive.Lock() }
	lab, err := w.NewLab(probeSet(), map[string]string{"auto_stop_enabled": "true", "auto_stop_timeout": fmt.Sprintf("%dms", ac.TimeoutMs)})
	if err != nil {
		return nil, err
	}
	defer lab.Close()
	lab.StampG = true
	var mu sync.Mutex
	fail := map[string]bool{}
	slow := map[string]time.Duration{}
	setFail := func(tr string, on bool) { mu.Lock(); fail[tr] = on; mu.Unlock() }
	setSlow := func(tr string, d time.Duration) { mu.Lock(); slow[tr] = d; mu.Unlock() }
	odcArmed, odcSent := false, false
	lab.OnProbe = func(pi envlab.ProbeInfo) envlab.ProbeAction {
		mu.Lock()
		f, d := fail[pi.Trigger], slow[pi.Trigger]
		report := odcArmed && !odcSent && strings.HasPrefix(pi.Trigger, "leave_RUNNING")
		if report {
			odcSent = true
		}
		mu.Unlock()
		if report {
			lab.Add(envlab.Record{Kind: "note_odc", Msg: "ODC partition state ERROR reported", State: lab.Env.CurrentState()})
			lab.W.Mgr.NotifyIntegratedServiceEvent(&odcevent.OdcPartitionStateChangeEvent{
				IntegratedServiceEventBase: event.IntegratedServiceEventBase{ServiceName: "ODC"},
				EnvironmentId:              lab.Env.Id(), State: "ERROR", EcsState: "RUNNING"})
			if d < 80*time.Millisecond {
				d = 80 * time.Millisecond // the handler's goroutine gets to the transition mutex meanwhile
			}
		}
		return envlab.ProbeAction{Fail: f, Sleep: d}
	}
	out := &autoOutcome{Case: ac}
	stuck, aborted := false, false
	tr := func(ev string, body func() error) string {
		if stuck || aborted {
			return ""
		}
		st, err := seqTransition(lab, ev, body)
		if err == errWatchdog {
			stuck = true
			out.Anomaly = "watchdog: " + ev + " did not return"
		}
		if ev == "STOP_ACTIVITY" {
			out.StopsSent++
		}
		return st
	}
	td := func() {
		if stuck || aborted {
			return
		}
		if _, err := seqTeardown(lab, true); err == errWatchdog {
			stuck = true
			out.Anomaly = "watchdog: teardown did not return"
		}
	}
	sample := func() {
		lab.Add(envlab.Record{Kind: kFinalSample, State: lab.Env.CurrentState(), Msg: lab.Env.CurrentTransition()})
	}
	tr("DEPLOY", nil)
	tr("CONFIGURE", nil)
	if ac.PrefixRun {
		tr("START_ACTIVITY", nil)
		tr("STOP_ACTIVITY", nil)
	}
	var t0 time.Time
	start := func() {
		if ac.LateFail != "" {
			setFail(ac.LateFail, true)
		}
		if st := tr("START_ACTIVITY", nil); st != "RUNNING" && !stuck {
			aborted = true
			out.Anomaly = "START_ACTIVITY did not reach RUNNING (state " + st + "): scenario not driven"
		}
		t0 = time.Now()
		if ac.LateFail != "" {
			setFail(ac.LateFail, false)
		}
	}
	waitTimer := func() { // until the timer has certainly had its chance
		if d := time.Until(t0.Add(2*T + 100*time.Millisecond)); d > 0 && !stuck && !aborted {
			pause(func() { time.Sleep(d) })
		}
	}
	waitNotRunning := func() {
		deadline := t0.Add(2*T + 3*time.Second)
		pause(func() {
			for lab.Env.CurrentState() == "RUNNING" && time.Now().Before(deadline) {
				time.Sleep(2 * time.Millisecond)
			}
		})
		if lab.Env.CurrentState() == "RUNNING" {
			lab.Add(envlab.Record{Kind: "note", Msg: "auto stop did not end the run"})
		}
	}
	switch ac.Variant {
	case "error-then-teardown":
		start()
		tr("GO_ERROR", nil)
		td()
		waitTimer()
	case "manual-stop":
		start()
		tr("STOP_ACTIVITY", nil)
		td()
		waitTimer()
	case "timer-stops":
		start()
		waitNotRunning()
		td()
		pause(func() { time.Sleep(50 * time.Millisecond) })
	case "timer-stop-fails":
		setFail("before_STOP_ACTIVITY", true) // the timer's own STOP is cancelled by a critical hook: it goes for GO_ERROR
		start()
		waitNotRunning()
		setFail("before_STOP_ACTIVITY", false)
		td()
		pause(func() { time.Sleep(50 * time.Millisecond) })
	case "failed-start":
		t0 = time.Now()
		tr("START_ACTIVITY", func() error { return errors.New("verif: tasks failed to transition (scripted)") })
		td()
		waitTimer()
	case "teardown-while-running":
		start()
		td()
		waitTimer()
	case "odc-error-during-teardown":
		start()
		mu.Lock()
		odcArmed = true
		mu.Unlock()
		pause(td)
		// the handler's goroutine (bounded: two refused transitions) has to be through
		pause(func() {
			deadline := time.Now().Add(5 * time.Second)
			for time.Now().Before(deadline) {
				busy := false
				for _, g := range envlab.Goroutines() {
					if g.Has(fnOdcHandler) {
						busy = true
					}
				}
				if !busy {
					break
				}
				time.Sleep(2 * time.Millisecond)
			}
		})
		mu.Lock()
		if !odcSent {
			out.Anomaly = "the teardown ran no leave_RUNNING probe: ODC report not delivered"
		}
		mu.Unlock()
		waitTimer()
	case "timeout-during-teardown":
		// a leave_RUNNING hook of the teardown outlasts the timeout: the timer fires while the teardown
		// holds the transition mutex, its goroutine waits there and goes on when the environment is DONE
		start()
		setSlow("leave_RUNNING", T+60*time.Millisecond)
		pause(td)
		setSlow("leave_RUNNING", 0)
		waitTimer()
	}
	sample()
	pause(func() { time.Sleep(30 * time.Millisecond) })
	sample()
	if lab.Env.CurrentState() != "DONE" && !stuck {
		_, _ = seqTeardown(lab, true)
	}
	out.Records = lab.Records()
	if out.Anomaly == "" && lab.Anomalies() > 0 {
		out.Anomaly = firstAnomaly(out.Records)
	}
	return out, nil
}

func edgeAllowed(a, b string) bool {
	if a == "DONE" {
		return false
	}
	if b == "DONE" {
		return true
	}
	for _, e := range lifeEvents {
		if refDst(e, a) == b {
			return true
		}
	}
	return false
}

func checkAuto(out *autoOutcome) ([]viol, map[string]int64) {
	var v []viol
	cnt := map[string]int64{}
	hit := func(seq int64, class, detail string) {
		v = append(v, viol{Rule: "C01", Class: class, Detail: detail + fmt.Sprintf(" [auto-stop scenario %s, timeout %d ms, record seq %d]", out.Case.Variant, out.Case.TimeoutMs, seq), Seq: seq})
	}
	state := "STANDBY"
	observe := func(seq int64, s, where string) {
		if s == "" || s == state {
			return
		}
		switch {
		case state == "DONE":
			hit(seq, "DONE-NOT-TERMINAL/state-after-done="+s, fmt.Sprintf("the environment was DONE and is %s now (%s)", s, where))
		case !edgeAllowed(state, s):
			hit(seq, "GRAPH/"+state+"->"+s, fmt.Sprintf("state changed from %s to %s (%s): not an edge of the documented graph", state, s, where))
		}
		state = s
	}
	owner := 0
	tornDown := int64(0)
	stops := 0
	for _, r := range out.Records {
		switch r.Kind {
		case envlab.KEnvEvent:
			if owner != 0 && r.G != owner {
				hit(r.Seq, "OVERLAP/internal", fmt.Sprintf("goroutine %d published %s %q while the transition/teardown of goroutine %d was in progress", r.G, r.Event, r.Msg, owner))
			}
			switch r.Msg {
			case "transition starting":
				owner = r.G
				if r.Event == "STOP_ACTIVITY" {
					stops++
				}
			case "workflow teardown started":
				owner = r.G
			case "transition completed successfully", "transition error", "transition impossible",
				"environment teardown complete", "environment teardown finished with error":
				owner = 0
			}
			observe(r.Seq, r.State, "published event "+r.Event+" "+r.Step+" "+r.Msg)
		case envlab.KTransEnd, envlab.KTeardownEnd:
			observe(r.Seq, r.State, "CurrentState() after "+r.Event)
			if r.Kind == envlab.KTeardownEnd && r.State == "DONE" && tornDown == 0 {
				tornDown = r.Seq
			}
		case kFinalSample:
			observe(r.Seq, r.State, "CurrentState() sampled after the auto-stop timeout")
			cnt["autostop_final_samples"]++
		case envlab.KHookStart, envlab.KBodyEnter:
			if tornDown != 0 {
				hit(r.Seq, "DONE-NOT-TERMINAL/activity-after-done", fmt.Sprintf("%s %s%s ran after the teardown had ended", r.Kind, r.Hook, r.Event))
			}
		case "note":
			cnt["autostop_timer_did_not_end_run"]++
		case "note_odc":
			cnt["odc_error_reports_during_teardown"]++
		}
	}
	if os.Getenv("VERIF_AUTO_DEBUG") != "" {
		tr := ""
		for _, r := range out.Records {
			if r.Kind == envlab.KTransEnd || r.Kind == envlab.KTeardownEnd {
				e := r.Err
				if len(e) > 50 {
					e = e[:50]
				}
				tr += fmt.Sprintf(" %s>%s(%s)", r.Event, r.State, e)
			}
		}
		fmt.Fprintf(os.Stderr, "auto %d %s T=%d stops=%d sent=%d final=%s viol=%d%s\n", out.Case.Idx, out.Case.Variant, out.Case.TimeoutMs, stops, out.StopsSent, state, len(v), tr)
	}
	cnt["autostop_scenarios"]++
	cnt["autostop_"+out.Case.Variant]++
	if stops > out.StopsSent {
		cnt["autostop_timer_fired"] += int64(stops - out.StopsSent)
	}
	return v, cnt
}
