package main

// Direct driving of the lab's Environment: env.TryTransition with a
// VerifNewTransition body, and Manager.TeardownEnvironment. All probes of this
// binary are synchronous calls (await = trigger), so when the driven call has
// returned every hook record of it has been written; envlab's gate controller
// (goroutine-dump polling) is not needed.

import (
	"errors"
	"time"

	"github.com/AliceO2Group/Control/core/environment"

	"verif/harness/envlab"
)

// watchdog bounds every driven call; its expiry is reported as inconclusive.
const watchdog = 120 * time.Second

var errWatchdog = errors.New("mon-env: watchdog: driven call did not return")

func withWatchdog(f func() error) error {
	done := make(chan error, 1)
	go func() { done <- f() }()
	select {
	case err := <-done:
		return err
	case <-time.After(watchdog):
		return errWatchdog
	}
}

// seqTransition: one transition of a single-driver walk, bracketed by
// trans_begin / trans_end records (same kinds and fields as Lab.Transition).
func seqTransition(lab *envlab.Lab, ev string, body func() error) (state string, err error) {
	src := lab.Env.CurrentState()
	lab.Add(envlab.Record{Kind: envlab.KTransBegin, Event: ev, Src: src, State: src})
	tr := environment.VerifNewTransition(ev, func(*environment.Environment) error {
		lab.Add(envlab.Record{Kind: envlab.KBodyEnter, Event: ev})
		var berr error
		if body != nil {
			berr = body()
		}
		r := envlab.Record{Kind: envlab.KBodyExit, Event: ev}
		if berr != nil {
			r.Err = berr.Error()
		}
		lab.Add(r)
		return berr
	})
	err = withWatchdog(func() error { return lab.Env.TryTransition(tr) })
	state = lab.Env.CurrentState()
	r := envlab.Record{Kind: envlab.KTransEnd, Event: ev, Src: src, State: state}
	if err != nil {
		r.Err = err.Error()
	}
	lab.Add(r)
	return
}

// seqTransitionT: the same for a transition prepared by the caller (real or stand-in).
func seqTransitionT(lab *envlab.Lab, ev string, tr environment.Transition) (state string, err error) {
	src := lab.Env.CurrentState()
	lab.Add(envlab.Record{Kind: envlab.KTransBegin, Event: ev, Src: src, State: src})
	err = withWatchdog(func() error { return lab.Env.TryTransition(tr) })
	state = lab.Env.CurrentState()
	r := envlab.Record{Kind: envlab.KTransEnd, Event: ev, Src: src, State: state}
	if err != nil {
		r.Err = err.Error()
	}
	lab.Add(r)
	return
}

func seqTeardown(lab *envlab.Lab, force bool) (state string, err error) {
	src := lab.Env.CurrentState()
	lab.Add(envlab.Record{Kind: envlab.KTeardownBegin, Event: "DESTROY", Src: src, State: src})
	err = withWatchdog(func() error { return lab.W.Mgr.TeardownEnvironment(lab.Env.Id(), force) })
	state = lab.Env.CurrentState()
	r := envlab.Record{Kind: envlab.KTeardownEnd, Event: "DESTROY", Src: src, State: state}
	if err != nil {
		r.Err = err.Error()
	}
	lab.Add(r)
	return
}
