package main

// C12 — every control command completes exactly once, within its response
// timeout, with a per-target result that is either that target's own reply or a
// send/timeout error; replies are attributed by (command id, target).
//
// Driven: real controlcommands.CommandQueue(s) sharing one real Servent with an
// injected SendFunc. Commands come from the exported constructors with a short
// exported ResponseTimeout. The injected SendFunc plays, per (command, target),
// a behaviour fixed by the seed; every reply object is unique (pointer identity)
// and additionally carries a unique nonce in a field that survives into the
// result. All observations are recorded with vlib.Seq() and judged offline
// after the case has quiesced.

import (
	"errors"
	"fmt"
	"io"
	"math/rand"
	"runtime"
	"sort"
	"strings"
	"sync"
	"time"

	"github.com/AliceO2Group/Control/common/utils/uid"
	cc "github.com/AliceO2Group/Control/core/controlcommands"
	"github.com/rs/xid"
	"github.com/sirupsen/logrus"

	"verif/harness/vlib"
)

const (
	// bounded progress: completion is judged against timeout + c12Slack
	// (>= 20x the largest nominal timeout of 200 ms) and confirmed by a second look.
	c12Slack      = 4 * time.Second
	c12PoolSize   = 16
	c12SendErrTag = "c12-send-error nonce="
	c12TimeoutTag = " timed out for task "
	c12Parallel   = 8
)

var c12Behaviours = []string{"reply", "errreply", "senderr", "silence", "dup", "late", "foreign", "wrongtarget"}

// ---------------------------------------------------------------- case spec

type c12ActionSpec struct {
	DelayMs int    `json:"d"`                 // measured from the SendFunc invocation
	Key     string `json:"key"`               // "own" | "cmd:<j>" | "unknown"
	Sender  string `json:"snd"`               // "own" | "pool:<k>" | "alien-agent" | "alien"
	Err     bool   `json:"err,omitempty"`     // reply carries an error string
	ErrText string `json:"errtext,omitempty"` // error text shared byte for byte with other targets of the command (else unique)
}

type c12TargetSpec struct {
	T       int             `json:"t"` // index in the target pool
	Beh     string          `json:"b"`
	Shared  string          `json:"shared,omitempty"` // failure text shared with other targets of this command
	Actions []c12ActionSpec `json:"a,omitempty"`
}

type c12CmdSpec struct {
	Queue     int             `json:"q"`
	Type      string          `json:"type"` // transition | hook | base
	TimeoutMs int             `json:"timeout_ms"`
	StaggerUs int             `json:"stagger_us"`
	Buffered  bool            `json:"buffered_cb"`
	Targets   []c12TargetSpec `json:"targets"`
}

type c12CaseSpec struct {
	// BlankIDs: the last two targets of the pool have lost their executor (executor id blank) or their agent
	// (both ids blank), as HandleExecutorFailed / HandleAgentFailed leave a task: a MESSAGE for them is
	// refused by the sender, nothing can come back, and the result must say so for exactly these targets
	BlankIDs bool `json:"blank_ids,omitempty"`
	// Pipelined: one client per queue enqueues all its commands back to back and only then starts to read the
	// answers (the callbacks of the first commands have no reader while the later ones are being enqueued)
	Pipelined bool         `json:"pipelined,omitempty"`
	Idx       int64        `json:"idx"`
	Queues    int          `json:"queues"`
	Pool      int          `json:"pool"`
	Cmds      []c12CmdSpec `json:"cmds"`
}

func c12GenCase(r *rand.Rand, idx int64) *c12CaseSpec {
	cs := &c12CaseSpec{Idx: idx, Pool: c12PoolSize, BlankIDs: idx%4 == 0, Pipelined: idx%5 == 2}
	switch x := r.Intn(10); {
	case x < 4:
		cs.Queues = 1
	case x < 7:
		cs.Queues = 2
	default:
		cs.Queues = 3
	}
	ncmd := 1 + r.Intn(8)
	types := []string{"transition", "transition", "transition", "hook", "base"}
	for j := 0; j < ncmd; j++ {
		c := c12CmdSpec{Queue: r.Intn(cs.Queues), Type: types[r.Intn(len(types))], TimeoutMs: 50 + r.Intn(151),
			StaggerUs: r.Intn(3) * r.Intn(1500), Buffered: r.Intn(2) == 0}
		var n int
		switch x := r.Intn(100); {
		case x < 3:
			n = 0
		case x < 22:
			n = 1
		case x < 60:
			n = 2 + r.Intn(3)
		default:
			n = 5 + r.Intn(12)
		}
		pReply := []int{90, 50, 15}[r.Intn(3)]
		perm := r.Perm(c12PoolSize)[:n]
		for _, t := range perm {
			beh := "reply"
			if r.Intn(100) >= pReply {
				beh = c12Behaviours[1+r.Intn(len(c12Behaviours)-1)]
			}
			c.Targets = append(c.Targets, c12TargetSpec{T: t, Beh: beh})
		}
		// a share of the commands has 2-4 targets failing with BYTE-IDENTICAL error text: the same
		// executor error, the same send error, one group of each, or one text across both kinds
		// (the reply objects / targets stay unique, only the text is shared)
		if n >= 2 && r.Intn(100) < 40 {
			j := len(cs.Cmds)
			execText := fmt.Sprintf("executor: transition failed, device went to ERROR (c12 shared text, command %d)", j)
			sendText := c12SendErrTag + fmt.Sprintf("shared-cmd%d (transport refused)", j)
			order := r.Perm(n)
			k := 2 + r.Intn(3)
			if k > n {
				k = n
			}
			mode := r.Intn(4)
			if mode == 2 && n < 4 {
				mode = r.Intn(2)
			}
			set := func(pos int, beh, text string) {
				c.Targets[order[pos]].Beh, c.Targets[order[pos]].Shared = beh, text
			}
			switch mode {
			case 0: // same executor error
				for x := 0; x < k; x++ {
					set(x, "errreply", execText)
				}
			case 1: // same send error
				for x := 0; x < k; x++ {
					set(x, "senderr", sendText)
				}
			case 2: // one group of each
				set(0, "errreply", execText)
				set(1, "errreply", execText)
				set(2, "senderr", sendText)
				set(3, "senderr", sendText)
			default: // executor error and send error with one and the same text
				for x := 0; x < k; x++ {
					set(x, []string{"errreply", "senderr"}[x%2], sendText)
				}
			}
		}
		if cs.BlankIDs {
			for x := range c.Targets {
				if c.Targets[x].T >= c12PoolSize-2 {
					c.Targets[x].Beh = "senderr"
					if !strings.HasPrefix(c.Targets[x].Shared, c12SendErrTag) {
						c.Targets[x].Shared = ""
					}
				}
			}
		}
		cs.Cmds = append(cs.Cmds, c)
	}
	// second pass: concrete reply actions (foreign ids need the other commands)
	for j := range cs.Cmds {
		c := &cs.Cmds[j]
		tau := c.TimeoutMs
		inTime := func() int { return r.Intn(4) * tau / 8 }
		isTarget := map[int]bool{}
		for _, ts := range c.Targets {
			isTarget[ts.T] = true
		}
		for k := range c.Targets {
			ts := &c.Targets[k]
			own := func(d int, e bool) c12ActionSpec { return c12ActionSpec{DelayMs: d, Key: "own", Sender: "own", Err: e} }
			switch ts.Beh {
			case "reply":
				ts.Actions = []c12ActionSpec{own(inTime(), false)}
			case "errreply":
				a := own(inTime(), true)
				a.ErrText = ts.Shared
				ts.Actions = []c12ActionSpec{a}
			case "senderr":
				if cs.BlankIDs && ts.T >= c12PoolSize-2 {
					break // no executor to answer
				}
				if r.Intn(3) == 0 { // the message did get through although the send reported failure
					ts.Actions = []c12ActionSpec{own(r.Intn(20), false)}
				}
			case "silence":
			case "dup":
				d0 := inTime()
				ts.Actions = []c12ActionSpec{own(d0, false)}
				for x := 1 + r.Intn(2); x > 0; x-- {
					d := []int{d0, d0 + 1, d0 + 20, tau + 60 + r.Intn(60)}[r.Intn(4)]
					ts.Actions = append(ts.Actions, own(d, r.Intn(4) == 0))
				}
			case "late":
				if r.Intn(3) == 0 { // on the edge: races with the response timer
					ts.Actions = []c12ActionSpec{own(tau-1+r.Intn(3), r.Intn(4) == 0)}
				} else {
					ts.Actions = []c12ActionSpec{own(tau+40+r.Intn(81), r.Intn(4) == 0)}
				}
			case "foreign":
				for x := 1 + r.Intn(2); x > 0; x-- {
					key := "unknown"
					if len(cs.Cmds) > 1 && r.Intn(3) > 0 {
						o := r.Intn(len(cs.Cmds) - 1)
						if o >= j {
							o++
						}
						key = fmt.Sprintf("cmd:%d", o)
					}
					ts.Actions = append(ts.Actions, c12ActionSpec{DelayMs: r.Intn(tau), Key: key, Sender: "own", Err: r.Intn(4) == 0})
				}
				if r.Intn(2) == 0 {
					ts.Actions = append(ts.Actions, own(inTime(), false))
				}
			case "wrongtarget":
				snd := []string{"alien-agent", "alien"}[r.Intn(2)]
				if len(c.Targets) < c12PoolSize && r.Intn(3) > 0 {
					var outs []int
					for p := 0; p < c12PoolSize; p++ {
						if !isTarget[p] {
							outs = append(outs, p)
						}
					}
					snd = fmt.Sprintf("pool:%d", outs[r.Intn(len(outs))])
				}
				ts.Actions = []c12ActionSpec{{DelayMs: inTime(), Key: "own", Sender: snd, Err: r.Intn(4) == 0}}
				if r.Intn(2) == 0 {
					ts.Actions = append(ts.Actions, own(inTime(), false))
				}
			}
		}
	}
	return cs
}

// ---------------------------------------------------------------- run state

type c12Target = cc.MesosCommandTarget

type c12TState struct {
	spec      *c12TargetSpec
	tgt       c12Target
	sends     int
	sendSeq   int64
	sendT     time.Time
	sendNonce string // nonce carried by this target's send error, if its behaviour is senderr
	sendText  string // full text of that send error
}

type c12EntrySnap struct {
	Ptr   string `json:"ptr"`
	Nonce string `json:"nonce,omitempty"`
	Err   string `json:"err,omitempty"`
}

type c12Delivery struct {
	seq  int64
	t    time.Time
	resp cc.MesosCommandResponse
	snap map[c12Target]c12EntrySnap
}

type c12Cmd struct {
	idx          int
	spec         *c12CmdSpec
	probe        int // 0 = workload, 1 = probe, 2 = confirmation probe
	cmd          cc.MesosCommand
	id           xid.ID
	timeout      time.Duration
	ts           []*c12TState
	tIndex       map[c12Target]int
	enqSeq       int64
	enqErr       error
	firstSendSeq int64
	firstSendT   time.Time
	deliveries   []c12Delivery
	never        bool // still undelivered at the second look
}

type c12Reply struct {
	nonce              string
	kind               string
	keyID              xid.ID
	keySender          c12Target
	keyCmd             *c12Cmd
	validKey           bool // keySender is a target of keyCmd
	originCmd, originT int
	action             int
	isErr              bool
	errText            string // error text the reply was sent with
	resp               cc.MesosCommandResponse
	started, returned  bool
	stuckSeen          bool
	startSeq, endSeq   int64
	startT, endT       time.Time
}

type c12CaseRun struct {
	spec     *c12CaseSpec
	tag      string
	mu       sync.Mutex
	servent  *cc.Servent
	queues   []*cc.CommandQueue
	pool     []c12Target
	envID    uid.ID
	cmds     []*c12Cmd
	byID     map[xid.ID]*c12Cmd
	replies  []*c12Reply
	byPtr    map[cc.MesosCommandResponse]*c12Reply
	anomaly  []string
	sendCnt  int
	maxInfl  int
	stop     chan struct{}
	aborted  string // non-empty: case aborted (never-completed / stalled)
	nonceSeq int
}

func (cr *c12CaseRun) newNonce(what string) string {
	cr.nonceSeq++
	return fmt.Sprintf("%s-%s-%d", cr.tag, what, cr.nonceSeq)
}

func c12NonceOf(r cc.MesosCommandResponse) string {
	switch v := r.(type) {
	case *cc.MesosCommandResponse_Transition:
		if v != nil {
			return v.CurrentState
		}
	case *cc.MesosCommandResponse_TriggerHook:
		if v != nil {
			return v.TaskId
		}
	case *cc.MesosCommandResponseBase:
		if v != nil {
			return strings.TrimPrefix(v.MessageType, "MesosCommandResponse#")
		}
	}
	return ""
}

func c12MakeResp(like cc.MesosCommand, id xid.ID, nonce string, errText string, taskID string) cc.MesosCommandResponse {
	var err error
	if errText != "" {
		err = errors.New(errText)
	}
	switch v := like.(type) {
	case *cc.MesosCommand_Transition:
		r := cc.NewMesosCommandResponse_Transition(v, err, nonce, taskID)
		r.CommandId = id
		return r
	case *cc.MesosCommand_TriggerHook:
		r := cc.NewMesosCommandResponse_TriggerHook(v, err, nonce)
		r.CommandId = id
		return r
	default:
		r := cc.NewMesosCommandResponse(like, err)
		r.MessageType = "MesosCommandResponse#" + nonce
		r.CommandId = id
		return r
	}
}

func (cr *c12CaseRun) makeCmd(spec *c12CmdSpec, probe int) *c12Cmd {
	cm := &c12Cmd{spec: spec, probe: probe, timeout: time.Duration(spec.TimeoutMs) * time.Millisecond, tIndex: map[c12Target]int{}}
	var tl []c12Target
	for k := range spec.Targets {
		t := cr.pool[spec.Targets[k].T]
		tl = append(tl, t)
		cm.tIndex[t] = k
		cm.ts = append(cm.ts, &c12TState{spec: &spec.Targets[k], tgt: t})
	}
	switch spec.Type {
	case "hook":
		c := cc.NewMesosCommand_TriggerHook(cr.envID, tl)
		c.ResponseTimeout = cm.timeout
		cm.cmd, cm.id = c, c.Id
	case "base":
		c := cc.NewMesosCommand("C12_Generic", cr.envID, tl, cc.PropertyMapsMap{})
		c.ResponseTimeout = cm.timeout
		cm.cmd, cm.id = c, c.Id
	default:
		c := cc.NewMesosCommand_Transition(cr.envID, tl, "STANDBY", "CONFIGURE", "CONFIGURED", cc.PropertyMapsMap{})
		c.ResponseTimeout = cm.timeout
		cm.cmd, cm.id = c, c.Id
	}
	cr.mu.Lock()
	cm.idx = len(cr.cmds)
	cr.cmds = append(cr.cmds, cm)
	cr.byID[cm.id] = cm
	cr.mu.Unlock()
	return cm
}

// send is the injected SendFunc.
func (cr *c12CaseRun) send(cmd cc.MesosCommand, rcv c12Target) error {
	now := time.Now()
	seq := vlib.Seq()
	id := cmd.GetId()
	cr.mu.Lock()
	cr.sendCnt++
	cm := cr.byID[id]
	if cm == nil {
		cr.anomaly = append(cr.anomaly, "send-with-unknown-command-id")
		cr.mu.Unlock()
		return nil
	}
	k, ok := cm.tIndex[rcv]
	if !ok {
		cr.anomaly = append(cr.anomaly, "send-to-non-target")
		cr.mu.Unlock()
		return nil
	}
	st := cm.ts[k]
	st.sends++
	if st.sends > 1 {
		cr.mu.Unlock()
		return nil
	}
	st.sendSeq, st.sendT = seq, now
	if cm.firstSendT.IsZero() {
		cm.firstSendSeq, cm.firstSendT = seq, now
	}
	infl := 0
	for _, o := range cr.cmds {
		if !o.firstSendT.IsZero() && len(o.deliveries) == 0 {
			infl++
		}
	}
	if infl > cr.maxInfl {
		cr.maxInfl = infl
	}
	var sendErr error
	if st.spec.Beh == "senderr" {
		if st.spec.Shared != "" {
			st.sendText = st.spec.Shared // the same text for several targets of this command
			st.sendNonce = strings.TrimSuffix(strings.TrimPrefix(st.sendText, c12SendErrTag), " (transport refused)")
		} else {
			st.sendNonce = cr.newNonce("se")
			st.sendText = c12SendErrTag + st.sendNonce + " (transport refused)"
		}
		sendErr = errors.New(st.sendText)
	}
	var todo []*c12Reply
	var delays []time.Duration
	for ai, a := range st.spec.Actions {
		rr := &c12Reply{originCmd: cm.idx, originT: k, action: ai, isErr: a.Err, nonce: cr.newNonce("r")}
		// key: command id
		like := cm.cmd
		switch {
		case a.Key == "own":
			rr.keyID, rr.keyCmd = cm.id, cm
		case strings.HasPrefix(a.Key, "cmd:"):
			var j int
			fmt.Sscanf(a.Key, "cmd:%d", &j)
			o := cr.cmds[j] // workload commands are created first, in spec order
			rr.keyID, rr.keyCmd, like = o.id, o, o.cmd
		default:
			rr.keyID = xid.New()
		}
		// sender
		switch {
		case a.Sender == "own":
			rr.keySender = rcv
		case strings.HasPrefix(a.Sender, "pool:"):
			var p int
			fmt.Sscanf(a.Sender, "pool:%d", &p)
			rr.keySender = cr.pool[p]
		case a.Sender == "alien-agent":
			rr.keySender = rcv
			rr.keySender.AgentId.Value = rcv.AgentId.Value + "-other"
		default:
			rr.keySender.AgentId.Value = "alien-agent"
			rr.keySender.ExecutorId.Value = "alien-exec"
			rr.keySender.TaskId.Value = cr.tag + "-alien-task"
		}
		if rr.keyCmd != nil {
			_, rr.validKey = rr.keyCmd.tIndex[rr.keySender]
		}
		switch {
		case rr.keyCmd == nil:
			rr.kind = "unknown-id"
		case a.Sender != "own":
			if rr.validKey { // cannot happen by construction
				rr.kind = "own"
			} else if a.Sender == "alien-agent" {
				rr.kind = "wrong-sender-alien-agent"
			} else if a.Sender == "alien" {
				rr.kind = "wrong-sender-alien"
			} else {
				rr.kind = "wrong-sender-pool"
			}
		case a.Key != "own":
			if rr.validKey {
				rr.kind = "cross-command"
			} else {
				rr.kind = "other-command-nontarget"
			}
		default:
			switch {
			case st.spec.Beh == "senderr":
				rr.kind = "own-after-senderr"
			case st.spec.Beh == "late":
				rr.kind = "own-late"
			case st.spec.Beh == "dup" && ai > 0:
				rr.kind = "own-dup"
			default:
				rr.kind = "own"
			}
		}
		if a.Err {
			rr.errText = "c12 task-side error nonce=" + rr.nonce
			if a.ErrText != "" {
				rr.errText = a.ErrText
			}
		}
		rr.resp = c12MakeResp(like, rr.keyID, rr.nonce, rr.errText, rr.keySender.TaskId.Value)
		cr.replies = append(cr.replies, rr)
		cr.byPtr[rr.resp] = rr
		todo = append(todo, rr)
		delays = append(delays, time.Duration(a.DelayMs)*time.Millisecond)
	}
	cr.mu.Unlock()
	for i, rr := range todo {
		go cr.deliver(rr, now.Add(delays[i]))
	}
	return sendErr
}

// deliver hands one reply to the servent from its own goroutine (as the scheduler does).
func (cr *c12CaseRun) deliver(rr *c12Reply, due time.Time) {
	if d := time.Until(due); d > 0 {
		time.Sleep(d)
	}
	cr.mu.Lock()
	rr.started, rr.startSeq, rr.startT = true, vlib.Seq(), time.Now()
	cr.mu.Unlock()
	cr.servent.ProcessResponse(rr.resp, rr.keySender)
	t := time.Now()
	cr.mu.Lock()
	rr.returned, rr.endSeq, rr.endT = true, vlib.Seq(), t
	cr.mu.Unlock()
}

func (cr *c12CaseRun) snapshot(cm *c12Cmd, res cc.MesosCommandResponse) map[c12Target]c12EntrySnap {
	out := map[c12Target]c12EntrySnap{}
	one := func(t c12Target, e cc.MesosCommandResponse) {
		s := c12EntrySnap{Ptr: fmt.Sprintf("%p", e), Nonce: c12NonceOf(e)}
		if e != nil && !c12IsNilPtr(e) {
			if err := e.Err(); err != nil {
				s.Err = err.Error()
			}
		}
		out[t] = s
	}
	if res == nil || c12IsNilPtr(res) {
		return out
	}
	if m, ok := res.(*cc.MesosCommandMultiResponse); ok {
		for t, e := range m.GetResponses() {
			one(t, e)
		}
		return out
	}
	if len(cm.ts) == 1 {
		one(cm.ts[0].tgt, res)
	} else {
		one(c12Target{}, res)
	}
	return out
}

func c12IsNilPtr(r cc.MesosCommandResponse) bool {
	switch v := r.(type) {
	case *cc.MesosCommandResponse_Transition:
		return v == nil
	case *cc.MesosCommandResponse_TriggerHook:
		return v == nil
	case *cc.MesosCommandResponseBase:
		return v == nil
	case *cc.MesosCommandMultiResponse:
		return v == nil
	}
	return false
}

func (cr *c12CaseRun) enqueue(cm *c12Cmd) {
	cr.enqueueThen(cm, true)()
}

// enqueueThen enqueues the command; the collector of its callback is started at once (collectNow) or by the
// function returned (a pipelined client reads its answers only after it has enqueued everything).
func (cr *c12CaseRun) enqueueThen(cm *c12Cmd, collectNow bool) (startCollector func()) {
	var cb chan cc.MesosCommandResponse
	if cm.spec.Buffered {
		cb = make(chan cc.MesosCommandResponse, 1)
	} else {
		cb = make(chan cc.MesosCommandResponse) // what task.Manager uses
	}
	collector := func() { // collector: counts every value ever delivered for this command
		for {
			select {
			case r := <-cb:
				t := time.Now()
				cr.mu.Lock()
				cm.deliveries = append(cm.deliveries, c12Delivery{seq: vlib.Seq(), t: t, resp: r, snap: cr.snapshot(cm, r)})
				cr.mu.Unlock()
			case <-cr.stop:
				return
			}
		}
	}
	startCollector = func() {}
	if collectNow {
		go collector()
	} else {
		startCollector = func() { go collector() }
	}
	cr.mu.Lock()
	cm.enqSeq = vlib.Seq()
	cr.mu.Unlock()
	if err := cr.queues[cm.spec.Queue].Enqueue(cm.cmd, cb); err != nil {
		cr.mu.Lock()
		cm.enqErr = err
		cr.mu.Unlock()
	}
	return startCollector
}

// await blocks until every command in cmds was delivered; false if one is still
// undelivered at the second look after timeout+slack (or nothing moves at all).
func (cr *c12CaseRun) await(cmds []*c12Cmd) bool {
	lastProgress := time.Now()
	lastDelivered, lastSends := -1, -1
	firstLook := map[*c12Cmd]time.Time{}
	for {
		now := time.Now()
		cr.mu.Lock()
		nd, all, anySent := 0, true, false
		var overdue *c12Cmd
		for _, cm := range cmds {
			if len(cm.deliveries) > 0 || cm.enqErr != nil {
				nd++
				continue
			}
			all = false
			if cm.firstSendT.IsZero() {
				continue
			}
			anySent = true
			if now.Sub(cm.firstSendT) > cm.timeout+c12Slack {
				if t1, seen := firstLook[cm]; !seen {
					firstLook[cm] = now
				} else if now.Sub(t1) > c12Slack {
					overdue = cm
				}
			}
		}
		sends := cr.sendCnt
		if overdue != nil {
			overdue.never = true
			cr.aborted = "never-completed"
		}
		cr.mu.Unlock()
		if all {
			return true
		}
		if overdue != nil {
			return false
		}
		if nd != lastDelivered || sends != lastSends {
			lastDelivered, lastSends, lastProgress = nd, sends, now
		}
		if !anySent && now.Sub(lastProgress) > 2*c12Slack+time.Second {
			cr.mu.Lock()
			cr.aborted = "queue-stalled"
			cr.mu.Unlock()
			return false
		}
		time.Sleep(2 * time.Millisecond)
	}
}

// judged: a reply for which no call record can exist when ProcessResponse starts
// (key matches no call, or the call started after its command was delivered), so
// ProcessResponse has to return. Caller holds cr.mu.
func (rr *c12Reply) judged() bool {
	if !rr.validKey {
		return true
	}
	return rr.started && len(rr.keyCmd.deliveries) > 0 && rr.startSeq > rr.keyCmd.deliveries[0].seq
}

// awaitReplies waits until every scheduled reply was handed to ProcessResponse
// and the call returned. A judged call that is still blocked after slack, and
// again after a second slack, is left for the oracle; a call that raced with the
// response timer of a command in flight is only given a short grace (reported,
// never judged).
func (cr *c12CaseRun) awaitReplies() {
	var look1 time.Time
	for {
		now := time.Now()
		cr.mu.Lock()
		notStarted, blocked := 0, 0
		var newest time.Time
		for _, rr := range cr.replies {
			switch {
			case rr.stuckSeen:
			case !rr.started:
				notStarted++
			case !rr.returned:
				if !rr.judged() && now.Sub(rr.startT) > 500*time.Millisecond {
					rr.stuckSeen = true
					continue
				}
				blocked++
				if rr.startT.After(newest) {
					newest = rr.startT
				}
			}
		}
		cr.mu.Unlock()
		if notStarted == 0 && blocked == 0 {
			return
		}
		if notStarted == 0 && now.Sub(newest) > c12Slack {
			if look1.IsZero() {
				look1 = now
			} else if now.Sub(look1) > c12Slack {
				cr.mu.Lock()
				for _, rr := range cr.replies {
					if rr.started && !rr.returned {
						rr.stuckSeen = true
					}
				}
				cr.mu.Unlock()
				return
			}
		}
		time.Sleep(2 * time.Millisecond)
	}
}

func (cr *c12CaseRun) probeSpec(q int, targets []int, timeoutMs int) *c12CmdSpec {
	ps := &c12CmdSpec{Queue: q, Type: "transition", TimeoutMs: timeoutMs, Buffered: q%2 == 0}
	for _, t := range targets {
		ps.Targets = append(ps.Targets, c12TargetSpec{T: t, Beh: "reply", Actions: []c12ActionSpec{{DelayMs: 0, Key: "own", Sender: "own"}}})
	}
	return ps
}

// probeOK: every entry of a delivered probe is that target's own error-free reply.
func (cr *c12CaseRun) probeOK(cm *c12Cmd) bool {
	cr.mu.Lock()
	defer cr.mu.Unlock()
	if len(cm.deliveries) != 1 {
		return false
	}
	ents, _ := c12Entries(cm, cm.deliveries[0].resp)
	for _, st := range cm.ts {
		e := ents[st.tgt]
		rr := cr.byPtr[e]
		if e == nil || rr == nil || rr.keyID != cm.id || rr.keySender != st.tgt || e.Err() != nil {
			return false
		}
	}
	return true
}

// c12Entries reads the per-target entries of a result the way the callers in
// core/task do: a multi response carries a map, a single response is the entry
// of the only target. Second value: structural problem, if any.
func c12Entries(cm *c12Cmd, res cc.MesosCommandResponse) (map[c12Target]cc.MesosCommandResponse, string) {
	out := map[c12Target]cc.MesosCommandResponse{}
	if res == nil || c12IsNilPtr(res) {
		return out, "nil-result"
	}
	if m, ok := res.(*cc.MesosCommandMultiResponse); ok {
		for t, e := range m.GetResponses() {
			out[t] = e
		}
		return out, ""
	}
	if len(cm.ts) == 1 {
		out[cm.ts[0].tgt] = res
		return out, ""
	}
	return out, "single-response-for-multi-target-command"
}

func c12RunCase(spec *c12CaseSpec, tag string) *c12CaseRun {
	cr := &c12CaseRun{spec: spec, tag: tag, byID: map[xid.ID]*c12Cmd{}, byPtr: map[cc.MesosCommandResponse]*c12Reply{},
		stop: make(chan struct{}), envID: uid.New()}
	for p := 0; p < spec.Pool; p++ {
		var t c12Target
		t.AgentId.Value = fmt.Sprintf("agent-%d", p%5)
		t.ExecutorId.Value = fmt.Sprintf("exec-%d", p)
		t.TaskId.Value = fmt.Sprintf("%s-task-%d", tag, p)
		if spec.BlankIDs && p == spec.Pool-2 {
			t.ExecutorId.Value = ""
		}
		if spec.BlankIDs && p == spec.Pool-1 {
			t.AgentId.Value, t.ExecutorId.Value = "", ""
		}
		cr.pool = append(cr.pool, t)
	}
	cr.servent = cc.NewServent(cr.send)
	for q := 0; q < spec.Queues; q++ {
		cq := cc.NewCommandQueue(cr.servent)
		cq.Start()
		cr.queues = append(cr.queues, cq)
	}
	var work []*c12Cmd
	for j := range spec.Cmds {
		work = append(work, cr.makeCmd(&spec.Cmds[j], 0))
	}
	if spec.Pipelined {
		byQueue := map[int][]*c12Cmd{}
		for _, cm := range work {
			byQueue[cm.spec.Queue] = append(byQueue[cm.spec.Queue], cm)
		}
		for _, cms := range byQueue {
			go func(cms []*c12Cmd) {
				var starts []func()
				for _, cm := range cms {
					if cm.spec.StaggerUs > 0 {
						time.Sleep(time.Duration(cm.spec.StaggerUs) * time.Microsecond)
					}
					starts = append(starts, cr.enqueueThen(cm, false))
				}
				for _, f := range starts {
					f()
				}
			}(cms)
		}
	} else {
		for _, cm := range work {
			go func(cm *c12Cmd) {
				if cm.spec.StaggerUs > 0 {
					time.Sleep(time.Duration(cm.spec.StaggerUs) * time.Microsecond)
				}
				cr.enqueue(cm)
			}(cm)
		}
	}
	if !cr.await(work) {
		cr.awaitReplies()
		close(cr.stop)
		return cr // queues are wedged: Stop() would block on the queue mutex
	}
	cr.awaitReplies()

	// final probes: nothing may be stuck for any target that was addressed
	used := map[int]bool{}
	for _, c := range spec.Cmds {
		for _, ts := range c.Targets {
			used[ts.T] = true
		}
	}
	var ut []int
	for t := range used {
		if spec.BlankIDs && t >= spec.Pool-2 {
			continue // a probe is answered by an executor
		}
		ut = append(ut, t)
	}
	sort.Ints(ut)
	if len(ut) == 0 {
		ut = []int{0, 1}
	}
	runProbe := func(q int, targets []int) bool {
		p := cr.makeCmd(cr.probeSpec(q, targets, 2000), 1)
		cr.enqueue(p)
		if !cr.await([]*c12Cmd{p}) {
			return false
		}
		if cr.probeOK(p) {
			return true
		}
		// second look with a longer timeout before anything is declared
		p2 := cr.makeCmd(cr.probeSpec(q, targets, 6000), 2)
		cr.enqueue(p2)
		return cr.await([]*c12Cmd{p2})
	}
	okAll := true
	for q := 0; q < spec.Queues && okAll; q++ {
		okAll = runProbe(q, ut)
	}
	if okAll {
		q := int(spec.Idx) % spec.Queues
		for _, t := range ut {
			if !runProbe(q, []int{t}) {
				okAll = false
				break
			}
		}
	}
	cr.awaitReplies()
	if okAll {
		for _, cq := range cr.queues {
			cq.Stop()
		}
	}
	time.Sleep(5 * time.Millisecond) // let a spurious second delivery show up
	close(cr.stop)
	return cr
}

// ---------------------------------------------------------------- oracle

type c12Obs struct {
	Cmd        int                     `json:"cmd"`
	Probe      int                     `json:"probe,omitempty"`
	ID         string                  `json:"id"`
	TimeoutMs  int                     `json:"timeout_ms"`
	Targets    int                     `json:"targets"`
	EnqSeq     int64                   `json:"enq_seq"`
	FirstSend  int64                   `json:"first_send_seq"`
	Deliveries []int64                 `json:"delivery_seqs"`
	DurMs      float64                 `json:"first_send_to_delivery_ms"`
	Entries    map[string]c12EntrySnap `json:"entries,omitempty"`
}

type c12ReplyObs struct {
	Nonce    string `json:"nonce"`
	Kind     string `json:"kind"`
	From     string `json:"origin"` // cmd/targetIndex/action
	KeyID    string `json:"key_id"`
	KeyTask  string `json:"key_task"`
	Start    int64  `json:"start_seq"`
	End      int64  `json:"end_seq"`
	Returned bool   `json:"returned"`
}

func (cr *c12CaseRun) witness(focus *c12Cmd) interface{} {
	var obs []c12Obs
	for _, cm := range cr.cmds {
		if cm.probe != 0 && cm != focus {
			continue
		}
		o := c12Obs{Cmd: cm.idx, Probe: cm.probe, ID: cm.id.String(), TimeoutMs: cm.spec.TimeoutMs, Targets: len(cm.ts),
			EnqSeq: cm.enqSeq, FirstSend: cm.firstSendSeq}
		for _, d := range cm.deliveries {
			o.Deliveries = append(o.Deliveries, d.seq)
		}
		if len(cm.deliveries) > 0 {
			if !cm.firstSendT.IsZero() {
				o.DurMs = float64(cm.deliveries[0].t.Sub(cm.firstSendT).Microseconds()) / 1000
			}
			if cm == focus {
				o.Entries = map[string]c12EntrySnap{}
				for t, s := range cm.deliveries[0].snap {
					o.Entries[t.TaskId.Value+"@"+t.AgentId.Value] = s
				}
			}
		}
		obs = append(obs, o)
	}
	var ro []c12ReplyObs
	for _, rr := range cr.replies {
		if focus != nil && rr.originCmd != focus.idx && rr.keyCmd != focus {
			continue
		}
		if len(ro) >= 80 {
			break
		}
		ro = append(ro, c12ReplyObs{Nonce: rr.nonce, Kind: rr.kind, From: fmt.Sprintf("%d/%d/%d", rr.originCmd, rr.originT, rr.action),
			KeyID: rr.keyID.String(), KeyTask: rr.keySender.TaskId.Value + "@" + rr.keySender.AgentId.Value, Start: rr.startSeq, End: rr.endSeq, Returned: rr.returned})
	}
	return map[string]interface{}{"case": cr.spec, "commands": obs, "replies": ro}
}

func c12BehMultiset(cs *c12CmdSpec) string {
	var b []string
	for _, ts := range cs.Targets {
		if ts.Shared != "" {
			b = append(b, ts.Beh+"=")
		} else {
			b = append(b, ts.Beh)
		}
	}
	sort.Strings(b)
	return strings.Join(b, ",")
}

// c12Judge applies the oracle to a quiesced case. boundOnly: confirmation run
// for the completion bound (second look); returns whether the bound was exceeded.
func c12Judge(c *vlib.Ctx, cr *c12CaseRun, caseID int64, boundOnly bool) (boundExceeded bool) {
	cr.mu.Lock()
	defer cr.mu.Unlock()
	viol := func(rule, class, detail string, focus *c12Cmd) {
		if boundOnly {
			return
		}
		c.Violation(rule, class, detail, caseID, cr.witness(focus))
	}

	for _, a := range cr.anomaly {
		viol("SEND", a, "the injected send function was invoked with a command id / receiver pair that belongs to no enqueued command", nil)
	}

	// index replies by exact key
	type key struct {
		id xid.ID
		t  c12Target
	}
	byKey := map[key][]*c12Reply{}
	for _, rr := range cr.replies {
		byKey[key{rr.keyID, rr.keySender}] = append(byKey[key{rr.keyID, rr.keySender}], rr)
	}

	for _, cm := range cr.cmds {
		if cm.enqErr != nil {
			c.Inconclusive("Enqueue refused a command: " + cm.enqErr.Error())
			continue
		}
		n := len(cm.ts)
		if !boundOnly && cm.probe == 0 {
			c.Count("commands", 1)
			if cr.spec.Pipelined {
				c.Count("commands_of_pipelined_clients", 1)
			}
			c.Count("targets", int64(n))
			if n == 0 {
				c.Count("commands_zero_targets", 1)
			} else if n == 1 {
				c.Count("commands_single_target", 1)
			} else {
				c.Count("commands_multi_target", 1)
			}
			for _, st := range cm.ts {
				c.Count("beh_"+st.spec.Beh, 1)
				if st.tgt.ExecutorId.Value == "" {
					c.Count("targets_without_executor_id", 1)
				}
				c.Count("sends", int64(st.sends))
				if st.sends > 1 {
					c.Count("duplicate_sends", int64(st.sends-1))
				}
			}
		}
		// ---- exactly once / bounded completion
		if len(cm.deliveries) == 0 {
			if cm.never {
				viol("BOUND", "never-completed", fmt.Sprintf("command %d (%d targets, timeout %v) had its first send at seq %d but nothing was delivered on its callback channel after timeout+%v, nor %v later",
					cm.idx, n, cm.timeout, cm.firstSendSeq, c12Slack, c12Slack), cm)
			}
			continue // commands queued behind a wedged one are collateral, not separate findings
		}
		if len(cm.deliveries) > 1 {
			viol("ONCE", "multiple-deliveries", fmt.Sprintf("command %d received %d values on its callback channel", cm.idx, len(cm.deliveries)), cm)
		}
		d := cm.deliveries[0]
		if !cm.firstSendT.IsZero() {
			if dur := d.t.Sub(cm.firstSendT); dur > cm.timeout+c12Slack {
				boundExceeded = true
			}
		}
		if boundOnly {
			continue
		}
		if n == 0 {
			continue // nothing to answer: excluded from the per-target clauses
		}
		// ---- result structure
		ents, structural := c12Entries(cm, d.resp)
		if structural == "nil-result" {
			viol("ENTRY", "nil-result", fmt.Sprintf("command %d with %d targets completed with a nil result", cm.idx, n), cm)
			continue
		}
		if d.resp.GetCommandId() != cm.id {
			viol("ATTRIB", "result-command-id-mismatch", fmt.Sprintf("command %d (%s) completed with a result for command id %s", cm.idx, cm.id, d.resp.GetCommandId()), cm)
		}
		for t := range ents {
			if _, ok := cm.tIndex[t]; !ok {
				viol("ENTRY", "entry-for-non-target", fmt.Sprintf("command %d: result holds an entry for %s which is not one of its targets", cm.idx, t.TaskId.Value), cm)
			}
		}
		okProbe := true
		for k, st := range cm.ts {
			e, has := ents[st.tgt]
			if !has || e == nil || c12IsNilPtr(e) {
				cls := "missing-target-entry"
				if structural != "" {
					cls = "missing-target-entry/" + structural
				}
				viol("ENTRY", cls, fmt.Sprintf("command %d: result of %d-target command has no entry for target #%d %s (behaviour %s)", cm.idx, n, k, st.tgt.TaskId.Value, st.spec.Beh), cm)
				okProbe = false
				continue
			}
			own := byKey[key{cm.id, st.tgt}]
			if rr := cr.byPtr[e]; rr != nil {
				// a reply object handed to ProcessResponse by this monitor
				if rr.keyID != cm.id || rr.keySender != st.tgt {
					sub := rr.kind
					if rr.keyID == cm.id {
						sub = "other-target-same-command"
					}
					viol("ATTRIB", "foreign-reply-in-result/"+sub, fmt.Sprintf("command %d target #%d %s: entry is reply %s which was sent as (command %s, sender %s@%s), kind %s",
						cm.idx, k, st.tgt.TaskId.Value, rr.nonce, rr.keyID, rr.keySender.TaskId.Value, rr.keySender.AgentId.Value, rr.kind), cm)
					okProbe = false
					continue
				}
				if got := c12NonceOf(e); got != rr.nonce {
					viol("ALTER", "reply-payload-changed", fmt.Sprintf("command %d target #%d: reply %s now carries payload %q", cm.idx, k, rr.nonce, got), cm)
				}
				if (e.Err() != nil) != rr.isErr {
					viol("ALTER", "reply-error-flag-changed", fmt.Sprintf("command %d target #%d: reply %s error flag %v, sent with %v", cm.idx, k, rr.nonce, e.Err() != nil, rr.isErr), cm)
				}
				if rr.isErr {
					okProbe = false
					if got := e.Err(); got != nil && got.Error() != rr.errText {
						viol("ALTER", "reply-error-text-changed", fmt.Sprintf("command %d target #%d: reply %s was sent with error %q and now reports %q", cm.idx, k, rr.nonce, rr.errText, got.Error()), cm)
					}
				}
				if cm.probe == 0 {
					c.Count("entries_own_reply", 1)
					c.Count("entries_own_reply_"+rr.kind, 1)
				}
				continue
			}
			okProbe = false
			err := e.Err()
			if err == nil {
				viol("ENTRY", "neither-own-reply-nor-error", fmt.Sprintf("command %d target #%d %s: entry %T is not a reply of that target and carries no error", cm.idx, k, st.tgt.TaskId.Value, e), cm)
				continue
			}
			txt := err.Error()
			switch {
			case strings.Contains(txt, c12SendErrTag):
				if st.sendNonce == "" || !strings.Contains(txt, c12SendErrTag+st.sendNonce+" ") {
					viol("ATTRIB", "foreign-send-error", fmt.Sprintf("command %d target #%d %s: entry holds a send error that was returned for a different send: %q", cm.idx, k, st.tgt.TaskId.Value, txt), cm)
				}
				if cm.probe == 0 {
					c.Count("entries_error_send", 1)
				}
			case strings.Contains(txt, c12TimeoutTag):
				if !strings.HasSuffix(txt, c12TimeoutTag+st.tgt.TaskId.Value) {
					viol("ATTRIB", "foreign-timeout-error", fmt.Sprintf("command %d target #%d %s: entry holds a timeout error of another task: %q", cm.idx, k, st.tgt.TaskId.Value, txt), cm)
				}
				if cm.probe == 0 {
					c.Count("timeouts_observed", 1)
				}
			default:
				if cm.probe == 0 {
					c.Count("entries_error_other", 1)
				}
			}
			// a reply that was handed over, and whose hand-over RETURNED, strictly before
			// the earliest instant the response timer could fire cannot be reported as unanswered
			if st.sends == 1 && st.spec.Beh != "senderr" {
				deadline := st.sendT.Add(cm.timeout)
				inTime, clean := false, true
				for _, rr := range own {
					if !rr.started || !rr.startT.Before(deadline) {
						continue
					}
					if !rr.returned || !rr.endT.Before(deadline) {
						clean = false
					} else if rr.startSeq > st.sendSeq {
						inTime = true
					}
				}
				if inTime && clean {
					viol("LOST", "in-time-reply-reported-as-error", fmt.Sprintf("command %d target #%d %s: a reply of that target was accepted by ProcessResponse (call returned) before send+timeout, yet the entry is the error %q",
						cm.idx, k, st.tgt.TaskId.Value, txt), cm)
				}
			}
		}
		// ---- the public surface core/task uses to tell failed targets from the others:
		// IsMultiResponse(), then Errors() (configureTasks, transitionTasks) or Err() (TriggerHooks, single results)
		if structural == "" {
			failed := map[c12Target]string{}
			isReply := map[c12Target]bool{}
			complete := true
			for _, st := range cm.ts {
				e, has := ents[st.tgt]
				if !has || e == nil || c12IsNilPtr(e) {
					complete = false
					break
				}
				if err := e.Err(); err != nil {
					failed[st.tgt] = err.Error()
					isReply[st.tgt] = cr.byPtr[e] != nil
				}
			}
			if complete {
				c12Surface(c, cm, d.resp, failed, isReply, viol)
			}
		}
		// ---- the result must not change after delivery
		now := cr.snapshot(cm, d.resp)
		if len(now) != len(d.snap) {
			viol("ALTER", "result-changed-after-delivery", fmt.Sprintf("command %d: result had %d entries at delivery, %d at quiescence", cm.idx, len(d.snap), len(now)), cm)
		} else {
			for t, s := range d.snap {
				if now[t] != s {
					viol("ALTER", "result-changed-after-delivery", fmt.Sprintf("command %d: entry of %s was %+v at delivery and is %+v at quiescence", cm.idx, t.TaskId.Value, s, now[t]), cm)
					break
				}
			}
		}
		// ---- probes: confirmation probe decides
		if cm.probe == 1 {
			c.Count("probes", 1)
			c.Count("probe_targets", int64(n))
			if !okProbe {
				c.Count("probe_first_look_failed", 1)
			}
		}
		if cm.probe == 2 {
			if !okProbe {
				viol("PROBE", "target-unanswerable-at-quiescence", fmt.Sprintf("after the workload quiesced, a fresh command to %d target(s) with immediate replies did not collect every target's own reply, twice (2 s and 6 s timeouts)", n), cm)
			} else {
				c.Inconclusive(fmt.Sprintf("case %d: first final probe failed, confirmation probe passed (machine too slow?)", cr.spec.Idx))
			}
		}
		// ---- coverage
		if cm.probe == 0 {
			nonReply := false
			for _, st := range cm.ts {
				if st.spec.Beh != "reply" {
					nonReply = true
				}
			}
			if nonReply || len(cr.spec.Cmds) > 1 {
				c.Nontrivial(vlib.Hash("c12", n, c12BehMultiset(cm.spec), len(cr.spec.Cmds), cr.spec.Queues))
			}
		}
	}
	if boundOnly {
		return
	}
	if cr.aborted == "queue-stalled" {
		viol("BOUND", "queue-stalled", fmt.Sprintf("enqueued commands were neither sent nor completed for more than %v", 2*c12Slack), nil)
	}

	// ---- replies that block forever: evidence of a call record that survived its command
	for _, rr := range cr.replies {
		if cr.cmds[rr.originCmd].probe != 0 {
			c.Count("replies_probe", 1)
			if rr.started && !rr.returned {
				viol("PENDING", "probe-reply-blocked", "ProcessResponse for the immediate reply to a final probe never returned", cr.cmds[rr.originCmd])
			}
			continue
		}
		c.Count("replies_handed_over", 1)
		c.Count("replies_"+rr.kind, 1)
		if !rr.started {
			continue
		}
		afterCompletion := false
		if rr.keyCmd != nil && len(rr.keyCmd.deliveries) > 0 && rr.startSeq > rr.keyCmd.deliveries[0].seq {
			afterCompletion = true
			c.Count("replies_after_completion", 1)
		}
		if !rr.validKey {
			c.Count("replies_foreign_or_unknown", 1)
		}
		if rr.validKey && !afterCompletion && !rr.startT.Before(rr.keyCmd.ts[rr.keyCmd.tIndex[rr.keySender]].sendT.Add(rr.keyCmd.timeout-3*time.Millisecond)) {
			c.Count("replies_racing_the_timer", 1) // arrived within 3 ms of, or after, the earliest timer expiry while in flight
		}
		if rr.returned {
			continue
		}
		switch {
		case !rr.validKey:
			viol("PENDING", "reply-with-unknown-key-blocked", fmt.Sprintf("ProcessResponse for a reply of kind %s (command id %s, sender %s) that matches no call never returned (2 looks, %v apart)",
				rr.kind, rr.keyID, rr.keySender.TaskId.Value, c12Slack), rr.keyCmd)
		case afterCompletion:
			viol("PENDING", "stale-call-accepts-reply-after-completion", fmt.Sprintf("ProcessResponse for reply %s (%s) started at seq %d, after command %d had been delivered at seq %d, and never returned: a call record for (%s, %s) outlived its command",
				rr.nonce, rr.kind, rr.startSeq, rr.keyCmd.idx, rr.keyCmd.deliveries[0].seq, rr.keyID, rr.keySender.TaskId.Value), rr.keyCmd)
		default:
			// hand-over raced with the timeout while the command was in flight: reported, not judged
			c.Count("replies_blocked_inflight_race", 1)
		}
	}
	if cr.maxInfl >= 2 {
		c.Count("cases_with_concurrent_commands_in_flight", 1)
	}
	c.Count("max_commands_in_flight_sum", int64(cr.maxInfl))
	// interleaving: order in which replies reached the servent
	ord := make([]*c12Reply, 0, len(cr.replies))
	for _, rr := range cr.replies {
		if rr.started {
			ord = append(ord, rr)
		}
	}
	sort.Slice(ord, func(i, j int) bool { return ord[i].startSeq < ord[j].startSeq })
	var sb strings.Builder
	for _, rr := range ord {
		fmt.Fprintf(&sb, "%d.%d.%d;", rr.originCmd, rr.originT, rr.action)
	}
	c.Interleaving(vlib.Hash(cr.spec.Idx, sb.String()))
	return
}

// c12Surface: every failed target, and no other, must be visible as failed through
// the accessors the callers use. failed: target -> error text of its own entry.
func c12Surface(c *vlib.Ctx, cm *c12Cmd, res cc.MesosCommandResponse, failed map[c12Target]string, isReply map[c12Target]bool,
	viol func(rule, class, detail string, focus *c12Cmd)) {
	n := len(cm.ts)
	texts := map[string]int{}
	for _, txt := range failed {
		texts[txt]++
	}
	shareClass := func(txt string) string {
		if texts[txt] > 1 {
			return "text-identical-to-another-failed-target"
		}
		return "text-unique"
	}
	if cm.probe == 0 {
		groups := 0
		for txt, cnt := range texts {
			if cnt < 2 {
				continue
			}
			groups++
			ex, se := 0, 0
			for t, x := range failed {
				if x == txt {
					if isReply[t] {
						ex++
					} else {
						se++
					}
				}
			}
			c.Count("identical_text_failed_targets", int64(cnt))
			switch {
			case ex > 0 && se > 0:
				c.Count("identical_text_groups_reply_and_send_error", 1)
			case ex > 0:
				c.Count("identical_text_groups_error_replies", 1)
			default:
				c.Count("identical_text_groups_send_errors", 1)
			}
		}
		if groups > 0 {
			c.Count("commands_with_identical_error_texts", 1)
		}
		if groups > 1 {
			c.Count("commands_with_two_identical_text_groups", 1)
		}
	}
	multi := res.IsMultiResponse()
	if n >= 2 && !multi {
		viol("SURFACE", "ismultiresponse-false-for-multi-target-result", fmt.Sprintf("command %d: the result of a %d-target command says IsMultiResponse()==false, callers will read Err() of the header only", cm.idx, n), cm)
	}
	errTxt := ""
	if err := res.Err(); err != nil {
		errTxt = err.Error()
	}
	blank := len(strings.TrimSpace(errTxt)) == 0 // the test the callers apply
	if !multi {
		if n == 1 {
			if cm.probe == 0 {
				c.Count("surface_single_results_checked", 1)
			}
			if len(failed) == 1 && blank {
				viol("SURFACE", "err-blank-although-target-failed", fmt.Sprintf("command %d: single result, the target failed but Err() is blank", cm.idx), cm)
			}
			if len(failed) == 0 && !blank {
				viol("SURFACE", "err-set-although-target-succeeded", fmt.Sprintf("command %d: single result, the target succeeded but Err() is %q", cm.idx, errTxt), cm)
			}
		}
		return
	}
	if cm.probe == 0 {
		c.Count("surface_multi_results_checked", 1)
		c.Count("surface_failed_targets", int64(len(failed)))
		if len(failed) > 0 {
			c.Count("surface_multi_results_with_failures", 1)
		}
	}
	em := res.Errors()
	for k, st := range cm.ts {
		txt, isFailed := failed[st.tgt]
		ee, listed := em[st.tgt]
		switch {
		case isFailed && (!listed || ee == nil):
			viol("SURFACE", "errors-map-omits-failed-target/"+shareClass(txt), fmt.Sprintf("command %d target #%d %s failed with %q (%d failed target(s) of this command carry exactly this text) but Errors() has no entry for it: %d failed targets, %d entries in Errors()",
				cm.idx, k, st.tgt.TaskId.Value, txt, texts[txt], len(failed), len(em)), cm)
		case isFailed && ee.Error() != txt:
			viol("SURFACE", "errors-map-holds-another-error", fmt.Sprintf("command %d target #%d %s failed with %q but Errors() reports %q for it", cm.idx, k, st.tgt.TaskId.Value, txt, ee.Error()), cm)
		case !isFailed && listed:
			viol("SURFACE", "errors-map-lists-successful-target", fmt.Sprintf("command %d target #%d %s answered without error but Errors() lists it with %v", cm.idx, k, st.tgt.TaskId.Value, ee), cm)
		}
		mark := "[task " + st.tgt.TaskId.Value + "] "
		if isFailed && !strings.Contains(errTxt, mark) {
			viol("SURFACE", "err-omits-failed-target/"+shareClass(txt), fmt.Sprintf("command %d target #%d %s failed with %q but Err() does not name it: %q", cm.idx, k, st.tgt.TaskId.Value, txt, errTxt), cm)
		}
		if !isFailed && strings.Contains(errTxt, mark) {
			viol("SURFACE", "err-names-successful-target", fmt.Sprintf("command %d target #%d %s answered without error but Err() names it: %q", cm.idx, k, st.tgt.TaskId.Value, errTxt), cm)
		}
	}
	for t := range em {
		if _, ok := cm.tIndex[t]; !ok {
			viol("SURFACE", "errors-map-lists-non-target", fmt.Sprintf("command %d: Errors() has an entry for %s which is not one of its targets", cm.idx, t.TaskId.Value), cm)
		}
	}
	if len(failed) > 0 && blank {
		viol("SURFACE", "err-blank-although-targets-failed", fmt.Sprintf("command %d: %d targets failed but Err() is blank", cm.idx, len(failed)), cm)
	}
	if len(failed) == 0 && !blank {
		viol("SURFACE", "err-set-although-all-targets-succeeded", fmt.Sprintf("command %d: every target answered without error but Err() is %q", cm.idx, errTxt), cm)
	}
}

// ---------------------------------------------------------------- driver

func runC12() {
	c := vlib.Start("C12")
	defer c.Finish()
	logrus.SetOutput(io.Discard) // warnings about dropped replies are expected by the thousand
	nCases := 320
	if c.Tier == "thorough" {
		nCases = 5120
	}
	lo, hi := c.Slice(nCases)
	g0 := runtime.NumGoroutine()
	var wg sync.WaitGroup
	sem := make(chan struct{}, c12Parallel)
	for i := lo; i < hi; i++ {
		idx := int64(i)
		spec := c12GenCase(c.SubRand(idx), idx)
		id := c.Case(spec) // logged before it is executed
		if i < lo+2 {
			c.Sample(spec)
		}
		sem <- struct{}{}
		wg.Add(1)
		go func() {
			defer wg.Done()
			defer func() { <-sem }()
			cr := c12RunCase(spec, fmt.Sprintf("b%dc%d", c.Batch, idx))
			if c12Judge(c, cr, id, false) {
				// completion later than timeout+slack: second look on a fresh instance of the same case
				c.Count("bound_exceeded_first_look", 1)
				cr2 := c12RunCase(spec, fmt.Sprintf("b%dc%dx", c.Batch, idx))
				if c12Judge(c, cr2, id, true) {
					cr.mu.Lock()
					w := cr.witness(nil)
					cr.mu.Unlock()
					c.Violation("BOUND", "completion-later-than-timeout-plus-slack",
						fmt.Sprintf("a command was delivered more than timeout+%v after its first send, in two independent executions of the case", c12Slack), id, w)
				} else {
					c.Inconclusive(fmt.Sprintf("case %d: completion exceeded timeout+%v once, not on the second look", idx, c12Slack))
				}
			}
		}()
	}
	wg.Wait()
	time.Sleep(50 * time.Millisecond)
	if g := runtime.NumGoroutine() - g0; g > 0 {
		c.Count("goroutines_above_baseline_at_end", int64(g)) // reported, not deciding
	}
}
