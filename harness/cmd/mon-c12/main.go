// mon-c12: runtime monitor for property C12 (one answer per target per control
// command, never someone else's). Drives the real controlcommands.CommandQueue
// and Servent with an injected SendFunc; see c12.go.
package main

import (
	"fmt"
	"os"
)

func main() {
	if len(os.Args) >= 2 && os.Args[1] != "C12" && len(os.Args[1]) > 0 && os.Args[1][0] != '-' {
		fmt.Fprintln(os.Stderr, "mon-c12 serves only C12; got", os.Args[1])
		os.Exit(64)
	}
	runC12()
}
