// vcore is the real AliECS core (core.NewConfig + core.Run, exactly as
// cmd/o2-aliecs-core) plus the verification plugin and an event tap that
// streams every published event as a JSON line to $VERIF_EVENT_LOG.
package main

import (
	"encoding/json"
	"fmt"
	"os"
	"sync"
	"sync/atomic"
	"time"

	log "github.com/sirupsen/logrus"
	"github.com/spf13/viper"
	prefixed "github.com/teo/logrus-prefixed-formatter"
	"google.golang.org/protobuf/encoding/protojson"
	"google.golang.org/protobuf/proto"

	"github.com/AliceO2Group/Control/common/event/topic"
	"github.com/AliceO2Group/Control/core"
	"github.com/AliceO2Group/Control/core/integration"
	"github.com/AliceO2Group/Control/core/integration/testplugin"
	"github.com/AliceO2Group/Control/core/the"

	"verif/harness/verifplugin"
)

type tap struct {
	topic string
}

var (
	tapMu  sync.Mutex
	tapF   *os.File
	tapSeq int64
)

func (t *tap) write(e interface{}) {
	var body json.RawMessage
	if m, ok := e.(proto.Message); ok {
		b, err := protojson.MarshalOptions{EmitUnpopulated: false, UseProtoNames: true}.Marshal(m)
		if err == nil {
			body = b
		}
	}
	if body == nil {
		b, err := json.Marshal(e)
		if err != nil {
			b, _ = json.Marshal(fmt.Sprintf("%+v", e))
		}
		body = b
	}
	rec := map[string]interface{}{"seq": atomic.AddInt64(&tapSeq, 1), "ts_ns": time.Now().UnixNano(), "topic": t.topic, "type": fmt.Sprintf("%T", e), "ev": body}
	b, _ := json.Marshal(rec)
	tapMu.Lock()
	if tapF != nil {
		tapF.Write(append(b, '\n'))
	}
	tapMu.Unlock()
}

func (t *tap) WriteEvent(e interface{})                           { t.write(e) }
func (t *tap) WriteEventWithTimestamp(e interface{}, _ time.Time) { t.write(e) }
func (t *tap) Close()                                             {}

func main() {
	integration.RegisterPlugin("testplugin", "testPluginEndpoint", testplugin.NewPlugin)
	verifplugin.Register()
	viper.SetDefault("verifPluginEndpoint", "//127.0.0.1:0")
	log.SetFormatter(&prefixed.TextFormatter{FullTimestamp: true, SpacePadding: 20, PrefixPadding: 12})
	log.SetOutput(os.Stderr)
	if p := os.Getenv("VERIF_EVENT_LOG"); p != "" {
		f, err := os.OpenFile(p, os.O_CREATE|os.O_WRONLY|os.O_APPEND, 0o644)
		if err == nil {
			tapF = f
			for _, tp := range []topic.Topic{topic.Root, topic.Run, topic.Environment, topic.Role, topic.Task, topic.Call, topic.Core, topic.IntegratedService} {
				the.VerifSetWriter(tp, &tap{topic: string(tp)})
			}
		}
	}
	if err := core.NewConfig(); err != nil {
		log.Fatal(err)
	}
	if err := core.Run(); err != nil {
		log.Fatal(err)
	}
}
