package main

import (
	"fmt"
	"math/rand"
	"os"
	"path/filepath"
	"sort"
	"strings"
	"sync"

	"github.com/AliceO2Group/Control/common/event"
	"github.com/AliceO2Group/Control/common/gera"
	"github.com/AliceO2Group/Control/common/utils/uid"
	"github.com/AliceO2Group/Control/core/task"
	"github.com/AliceO2Group/Control/core/task/sm"
	"github.com/AliceO2Group/Control/core/workflow"

	"verif/harness/inproc"
	"verif/harness/vlib"
)

// ---------------- updates ----------------

type Upd struct {
	Leaf int    `json:"leaf"`
	Dim  string `json:"dim"` // "state" | "status"
	V    string `json:"v"`
	st   sm.State
	ss   task.Status
}

func mkSt(leaf int, s sm.State) Upd {
	return Upd{Leaf: leaf, Dim: "state", V: stName(s), st: s}
}
func mkSs(leaf int, s task.Status) Upd {
	return Upd{Leaf: leaf, Dim: "status", V: s.String(), ss: s}
}

var taskStates = []sm.State{sm.STANDBY, sm.CONFIGURED, sm.RUNNING, sm.ERROR, sm.DONE}
var healthy = []sm.State{sm.STANDBY, sm.CONFIGURED, sm.RUNNING, sm.DONE}

// genUpdates produces n leaf updates. A slowly moving "phase" value makes
// uniform subtrees frequent; sweeps move (almost) all leaves to one value.
// ext: additionally UNKNOWN states and PARTIAL leaf statuses (separate class).
func genUpdates(r *rand.Rand, leaves []*LNode, n int, ext bool) []Upd {
	var out []Upd
	phase := healthy[r.Intn(len(healthy))]
	var phaseSs task.Status = task.ACTIVE
	pickState := func(l *LNode) sm.State {
		x := r.Intn(100)
		switch {
		case ext && x < 8:
			return sm.UNKNOWN
		case l.Kind == "call" && x < 20:
			return sm.INVARIANT
		case x < 58:
			return phase
		case x < 76:
			return sm.ERROR
		default:
			return taskStates[r.Intn(len(taskStates))]
		}
	}
	pickStatus := func() task.Status {
		x := r.Intn(100)
		switch {
		case ext && x < 8:
			return task.PARTIAL
		case x < 55:
			return phaseSs
		case x < 67:
			return task.UNDEPLOYABLE
		case x < 84:
			return task.INACTIVE
		default:
			return task.ACTIVE
		}
	}
	for len(out) < n {
		x := r.Intn(100)
		switch {
		case x < 7: // state sweep
			phase = healthy[r.Intn(len(healthy))]
			for _, i := range r.Perm(len(leaves)) {
				if r.Intn(100) < 88 {
					out = append(out, mkSt(i, phase))
				}
			}
		case x < 11: // status sweep
			if r.Intn(3) == 0 {
				phaseSs = task.INACTIVE
			} else {
				phaseSs = task.ACTIVE
			}
			for _, i := range r.Perm(len(leaves)) {
				if r.Intn(100) < 88 {
					out = append(out, mkSs(i, phaseSs))
				}
			}
		case x < 72:
			i := r.Intn(len(leaves))
			out = append(out, mkSt(i, pickState(leaves[i])))
		default:
			i := r.Intn(len(leaves))
			out = append(out, mkSs(i, pickStatus()))
		}
	}
	return out
}

// reinterleave keeps every leaf's own update order and shuffles the order
// across different leaves.
func reinterleave(r *rand.Rand, us []Upd) []Upd {
	per := map[int][]Upd{}
	var ids []int
	for _, u := range us {
		if _, ok := per[u.Leaf]; !ok {
			ids = append(ids, u.Leaf)
		}
		per[u.Leaf] = append(per[u.Leaf], u)
	}
	sort.Ints(ids)
	out := make([]Upd, 0, len(us))
	for len(out) < len(us) {
		// pick a leaf with probability proportional to its remaining updates
		tot := 0
		for _, id := range ids {
			tot += len(per[id])
		}
		x := r.Intn(tot)
		for _, id := range ids {
			if x < len(per[id]) {
				out = append(out, per[id][0])
				per[id] = per[id][1:]
				break
			}
			x -= len(per[id])
		}
	}
	return out
}

// ---------------- a loaded tree ----------------

type loaded struct {
	wf      string
	files   map[string]string
	spec    *Spec
	root    *LNode
	leaves  []*LNode
	nodes   []*LNode
	stateCh chan sm.State
	ssCh    chan task.Status
	adapter *workflow.ParentAdapter
}

var (
	envOnce sync.Once
	env     *inproc.Env
	envErr  error
)

func getEnv() (*inproc.Env, error) {
	envOnce.Do(func() {
		env, envErr = inproc.Setup(map[string]string{
			"tasks/" + taskClassName + ".yaml": taskClassYAML,
			"workflows/empty.yaml":             "name: empty\nroles: []\n",
		}, nil)
	})
	return env, envErr
}

func kindOf(r workflow.Role) string {
	t := fmt.Sprintf("%T", r)
	switch {
	case strings.HasSuffix(t, ".taskRole"):
		return "task"
	case strings.HasSuffix(t, ".callRole"):
		return "call"
	case strings.HasSuffix(t, ".aggregatorRole"):
		return "agg"
	case strings.HasSuffix(t, ".includeRole"):
		return "inc"
	}
	return t
}

// loadTree renders spec as workflow wf, loads it with the real Load below a
// real ParentAdapter and binds the logical tree to the roles.
func loadTree(spec *Spec, wf string) (*loaded, error) {
	e, err := getEnv()
	if err != nil {
		return nil, fmt.Errorf("setup: %w", err)
	}
	ld := &loaded{wf: wf, spec: spec, files: map[string]string{}}
	render(spec, wf, ld.files)
	for p, c := range ld.files {
		if err := e.WriteRepoFile(p, c); err != nil {
			return nil, err
		}
	}
	envID := uid.New()
	defaults, vars, userVars := gera.MakeMap[string, string](), gera.MakeMap[string, string](), gera.MakeMap[string, string]()
	ld.adapter = workflow.NewParentAdapter(
		func() uid.ID { return envID },
		func() uint32 { return 0 },
		func() gera.Map[string, string] { return defaults },
		func() gera.Map[string, string] { return vars },
		func() gera.Map[string, string] { return userVars },
		func(event.Event) {},
	)
	ld.stateCh = make(chan sm.State, 1<<15)
	ld.ssCh = make(chan task.Status, 1<<15)
	ld.adapter.SubscribeToStateChange("c11", ld.stateCh)
	ld.adapter.SubscribeToStatusChange("c11", ld.ssCh)
	root, err := e.Load(wf, ld.adapter, nil, nil)
	if err != nil {
		return nil, fmt.Errorf("Load(%s): %w", wf, err)
	}
	ld.root = expand(spec)
	ld.root.Name = wf
	if err := bind(ld.root, root); err != nil {
		return nil, err
	}
	ld.root.walk(func(n *LNode) {
		ld.nodes = append(ld.nodes, n)
		if n.isLeaf() {
			n.LeafIdx = len(ld.leaves)
			n.St, n.Ss = n.Role.GetState(), n.Role.GetStatus()
			ld.leaves = append(ld.leaves, n)
		}
	})
	return ld, nil
}

func (ld *loaded) cleanup() {
	if env == nil {
		return
	}
	for p := range ld.files {
		_ = os.Remove(filepath.Join(env.RepoDir, p))
	}
}

func bind(l *LNode, r workflow.Role) error {
	if k := kindOf(r); k != l.Kind {
		return fmt.Errorf("bind %s: kind %s, expected %s", l.Key, k, l.Kind)
	}
	if r.GetName() != l.Name {
		return fmt.Errorf("bind %s: name %q, expected %q", l.Key, r.GetName(), l.Name)
	}
	l.Role = r
	if l.isLeaf() {
		if r.IsCritical() != l.Crit {
			return fmt.Errorf("bind %s: critical %v, expected %v", l.Key, r.IsCritical(), l.Crit)
		}
		return nil
	}
	rs := r.GetRoles()
	if len(rs) != len(l.Kids) {
		return fmt.Errorf("bind %s: %d children, expected %d", l.Key, len(rs), len(l.Kids))
	}
	for i := range rs {
		if err := bind(l.Kids[i], rs[i]); err != nil {
			return err
		}
	}
	return nil
}

func (ld *loaded) apply(u Upd) {
	l := ld.leaves[u.Leaf]
	if u.Dim == "state" {
		l.Role.(interface{ UpdateState(sm.State) }).UpdateState(u.st)
		l.St = u.st
	} else {
		l.Role.(interface{ UpdateStatus(task.Status) }).UpdateStatus(u.ss)
		l.Ss = u.ss
	}
}

// drain empties the adapter channels; returns the last values and counts.
func (ld *loaded) drain() (lastSt sm.State, nSt int, sawErr bool, lastSs task.Status, nSs int) {
	for {
		select {
		case s := <-ld.stateCh:
			lastSt = s
			nSt++
			if s == sm.ERROR {
				sawErr = true
			}
			continue
		default:
		}
		break
	}
	for {
		select {
		case s := <-ld.ssCh:
			lastSs = s
			nSs++
			continue
		default:
		}
		break
	}
	return
}

// ---------------- witness ----------------

type Witness struct {
	Mode     string            `json:"mode"`
	Ext      bool              `json:"ext"`
	Tree     string            `json:"tree"`
	Files    map[string]string `json:"files"`
	Leaves   []string          `json:"leaves"` // index -> key kind crit
	Before   []string          `json:"leaf_values_before,omitempty"`
	Updates  []Upd             `json:"updates"`
	AtUpdate int               `json:"at_update"`
	Node     string            `json:"node,omitempty"`
	Dump     []string          `json:"dump,omitempty"`
	Other    *Witness          `json:"other,omitempty"`
}

func (ld *loaded) witness(mode string, ext bool, us []Upd, at int) *Witness {
	w := &Witness{Mode: mode, Ext: ext, Tree: compact(ld.spec), Files: ld.files, Updates: us, AtUpdate: at}
	for _, l := range ld.leaves {
		c := "noncritical"
		if l.Crit {
			c = "critical"
		}
		w.Leaves = append(w.Leaves, fmt.Sprintf("%d %s %s %s", l.LeafIdx, l.Key, l.Kind, c))
	}
	for _, n := range ld.nodes {
		x := ""
		if n.isLeaf() {
			x = fmt.Sprintf(" crit=%v given=(%s,%s)", n.Crit, stName(n.St), n.Ss)
		} else {
			o := n.refState()
			e := "no-opinion"
			if o.has {
				e = stName(o.v)
			}
			x = fmt.Sprintf(" expected=(%s,%s)", e, n.refStatus())
		}
		w.Dump = append(w.Dump, fmt.Sprintf("%s %s shows=(%s,%s)%s", n.Key, n.Kind, stName(n.Role.GetState()), n.Role.GetStatus(), x))
	}
	return w
}

// ---------------- oracle ----------------

type checker struct {
	c    *vlib.Ctx
	mode string // seq | perm | conc
	ext  bool
}

var (
	violMu   sync.Mutex
	violSeen = map[string]int{}
)

// viol reports through vlib; the (costly) witness is only built for the first
// few hits of a class, all hits are counted.
func (k *checker) viol(rule, class, detail string, id int64, mkW func() interface{}) {
	key := rule + "/" + class
	violMu.Lock()
	violSeen[key]++
	n := violSeen[key]
	violMu.Unlock()
	k.c.Count("hits:"+key, 1)
	if n > 5 {
		return
	}
	k.c.Violation(rule, class, detail, id, mkW())
}

func (k *checker) pfx() string {
	if k.ext {
		return "ext:"
	}
	return ""
}

// checkAll compares every node with the reference fold. Returns #violations.
func (k *checker) checkAll(ld *loaded, id int64, mkW func(node string) *Witness) int {
	nv := 0
	c := k.c
	for _, n := range ld.nodes {
		gotSt, gotSs := n.Role.GetState(), n.Role.GetStatus()
		if n.isLeaf() {
			if gotSt != n.St {
				nv++
				k.viol("FOLD-STATE", fmt.Sprintf("%s%s:leaf-shows-other-than-given,kind=%s", k.pfx(), k.mode, n.Kind),
					fmt.Sprintf("leaf %s was given %s and shows %s", n.Key, stName(n.St), stName(gotSt)), id, func() interface{} { return mkW(n.Key) })
			}
			if gotSs != n.Ss {
				nv++
				k.viol("FOLD-STATUS", fmt.Sprintf("%s%s:leaf-shows-other-than-given,kind=%s", k.pfx(), k.mode, n.Kind),
					fmt.Sprintf("leaf %s was given %s and shows %s", n.Key, n.Ss, gotSs), id, func() interface{} { return mkW(n.Key) })
			}
			continue
		}
		c.Count("node_checks", 1)
		o := n.refState()
		if !o.has {
			c.Count("no_opinion_nodes_not_judged", 1)
		} else if gotSt != o.v {
			nv++
			class := fmt.Sprintf("%s%s:expected=%s,got=%s", k.pfx(), k.mode, stName(o.v), stName(gotSt))
			if k.mode == "conc" && (gotSt == sm.MIXED || gotSt == sm.ERROR) {
				// one class per shown value for the "aggregate left over from a value that
				// is no longer true" family, whatever the true fold is
				class = fmt.Sprintf("%sconc:stale,got=%s", k.pfx(), stName(gotSt))
			}
			if n.hasNoOpinionAggBelow() {
				if h := n.h1State(); h.has && h.v == gotSt {
					// canonical class of the "aggregator without critical descendants still has an opinion" family
					class = k.pfx() + "noncritical-only-subtree"
				}
			}
			k.viol("FOLD-STATE", class,
				fmt.Sprintf("[%s] role %s (%s) shows state %s, the fold of its critical descendants is %s; children=%s",
					k.mode, n.Key, n.Kind, stName(gotSt), stName(o.v), n.childKinds()), id, func() interface{} { return mkW(n.Key) })
		}
		so := n.refStatus()
		if !so.has {
			c.Count("leafless_nodes_not_judged", 1)
		} else if !so.ok(gotSs) {
			nv++
			k.viol("FOLD-STATUS", fmt.Sprintf("%s%s:expected=%s,got=%s", k.pfx(), k.mode, so, gotSs),
				fmt.Sprintf("[%s] role %s (%s) shows status %s, the fold of its descendants is %s", k.mode, n.Key, n.Kind, gotSs, so), id, func() interface{} { return mkW(n.Key) })
		}
	}
	// the root and ERROR
	rootSt := ld.root.Role.GetState()
	critErr := ld.root.hasCritErrorLeaf()
	if critErr && rootSt != sm.ERROR {
		nv++
		k.viol("ROOT-ERROR-LOST", fmt.Sprintf("%s%s:root=%s", k.pfx(), k.mode, stName(rootSt)),
			fmt.Sprintf("[%s] a critical leaf is in ERROR but the root shows %s", k.mode, stName(rootSt)), id, func() interface{} { return mkW("r") })
	}
	if !critErr && rootSt == sm.ERROR {
		nv++
		k.viol("ROOT-ERROR-INVENTED", fmt.Sprintf("%s%s:root=ERROR", k.pfx(), k.mode),
			fmt.Sprintf("[%s] the root shows ERROR but no critical leaf is in ERROR", k.mode), id, func() interface{} { return mkW("r") })
	}
	return nv
}

// countTree records the structural coverage counters of one loaded tree.
func countTree(c *vlib.Ctx, ld *loaded) {
	var hasIter, hasInc, hasCall, hasEmptyIter bool
	var w func(s *Spec)
	w = func(s *Spec) {
		if s.Iter >= 0 {
			hasIter = true
			if s.Iter == 0 {
				hasEmptyIter = true
			}
		}
		if s.Kind == "inc" {
			hasInc = true
		}
		if s.Kind == "call" {
			hasCall = true
		}
		for _, k := range s.Kids {
			w(k)
		}
	}
	w(ld.spec)
	c.Count("trees_loaded", 1)
	if hasIter {
		c.Count("trees_with_iterators", 1)
	}
	if hasEmptyIter {
		c.Count("trees_with_empty_iterators", 1)
	}
	if hasInc {
		c.Count("trees_with_includes", 1)
	}
	if hasCall {
		c.Count("trees_with_calls", 1)
	}
	depth := 0
	for _, n := range ld.nodes {
		d := strings.Count(n.Key, "/")
		if d > depth {
			depth = d
		}
		if !n.isLeaf() && n != ld.root {
			if len(n.critLeafStates()) == 0 {
				c.Count("noncritical_only_subtrees", 1)
			}
			if len(n.leafStatuses()) == 0 {
				c.Count("leafless_subtrees_present", 1) // predicted to be pruned: stays 0
			}
		}
	}
	pruned, off := 0, 0
	rootHasCrit := len(ld.root.critLeafStates()) > 0
	for _, n := range ld.nodes {
		pruned += n.Pruned
		off += n.OffKids
		if n.isLeaf() || n == ld.root {
			continue
		}
		if n.OffCritKids > 0 {
			c.Count("aggregators_with_disabled_critical_child", 1)
			if len(n.critLeafStates()) == 0 {
				// the regression shape: what is left below n is non-critical only
				c.Count("aggregators_left_noncritical_by_disabled_critical_child", 1)
				if rootHasCrit {
					c.Count("aggregators_left_noncritical_by_disabled_critical_child_with_critical_cousins", 1)
					c.Count(fmt.Sprintf("disabled_critical_shape_depth_%d", strings.Count(n.Key, "/")), 1)
				}
			}
		}
	}
	if off > 0 {
		c.Count("trees_with_disabled_roles", 1)
		c.Count("disabled_roles", int64(off))
	}
	if pruned > 0 {
		c.Count("trees_with_pruned_empty_subtrees", 1)
		c.Count("pruned_empty_subtrees", int64(pruned))
	}
	c.Count(fmt.Sprintf("trees_depth_%d", depth), 1)
	c.Count("leaves_total", int64(len(ld.leaves)))
}

func (k *checker) countUpd(ld *loaded, u Upd) {
	c := k.c
	l := ld.leaves[u.Leaf]
	c.Count("updates", 1)
	if u.Dim == "state" {
		c.Count("updates_state", 1)
		if u.st == sm.ERROR {
			c.Count("updates_to_ERROR", 1)
			if l.Crit {
				c.Count("updates_to_ERROR_critical", 1)
			}
		} else if l.St == sm.ERROR {
			c.Count("recoveries_from_ERROR", 1)
		}
		if u.st == sm.INVARIANT {
			c.Count("updates_INVARIANT_call", 1)
		}
		if u.st == sm.UNKNOWN {
			c.Count("updates_UNKNOWN_ext", 1)
		}
	} else {
		c.Count("updates_status", 1)
		if u.ss == task.UNDEPLOYABLE {
			c.Count("updates_to_UNDEPLOYABLE", 1)
		}
	}
}

// ---------------- modes ----------------

// runSequential applies us one by one and checks every node after each.
// Returns false when a violation was found. The run continues after a
// violation (every merge recomputes from the children, so a wrong aggregate does
// not poison later steps beyond what the code itself would show).
func (k *checker) runSequential(ld *loaded, us []Upd, id int64) bool {
	c := k.c
	ld.drain()
	ok := true
	if nv := k.checkAll(ld, id, func(node string) *Witness { w := ld.witness(k.mode, k.ext, nil, -1); w.Node = node; return w }); nv > 0 {
		ok = false
	}
	for i, u := range us {
		l := ld.leaves[u.Leaf]
		k.countUpd(ld, u)
		ld.apply(u)
		mkW := func(node string) *Witness { w := ld.witness(k.mode, k.ext, us[:i+1], i); w.Node = node; return w }
		nv := k.checkAll(ld, id, mkW)
		lastSt, nSt, _, lastSs, nSs := ld.drain()
		rootSt, rootSs := ld.root.Role.GetState(), ld.root.Role.GetStatus()
		// what the ParentAdapter received
		if u.Dim == "state" {
			if l.Crit && nSt == 0 {
				nv++
				k.viol("FOLD-STATE", k.pfx()+k.mode+":adapter-not-notified", fmt.Sprintf("update of critical leaf %s to %s did not reach the ParentAdapter", l.Key, u.V), id, func() interface{} { return mkW("adapter") })
			}
			if nSt > 0 && lastSt != rootSt {
				nv++
				rule, class := "FOLD-STATE", fmt.Sprintf("%s%s:adapter-last=%s,root=%s", k.pfx(), k.mode, stName(lastSt), stName(rootSt))
				if rootSt == sm.ERROR {
					rule, class = "ROOT-ERROR-LOST", k.pfx()+k.mode+":adapter"
				} else if lastSt == sm.ERROR {
					rule, class = "ROOT-ERROR-INVENTED", k.pfx()+k.mode+":adapter"
				}
				k.viol(rule, class, fmt.Sprintf("the ParentAdapter last received %s while the root shows %s", stName(lastSt), stName(rootSt)), id, func() interface{} { return mkW("adapter") })
			}
			c.Count("adapter_state_notifications", int64(nSt))
		} else {
			if nSs == 0 || lastSs != rootSs {
				nv++
				k.viol("FOLD-STATUS", fmt.Sprintf("%s%s:adapter", k.pfx(), k.mode), fmt.Sprintf("the ParentAdapter received %d status notifications, last %s, while the root shows %s", nSs, lastSs, rootSs), id, func() interface{} { return mkW("adapter") })
			}
			c.Count("adapter_status_notifications", int64(nSs))
		}
		if nv > 0 {
			ok = false
		}
	}
	return ok
}

// hookPhase runs after everything else that is done with the tree (it changes the leaf assignment).
func (k *checker) hookPhase(ld *loaded, us []Upd, id int64) bool {
	c := k.c
	ok := true
	ld.drain()
	// The way the core itself moves call roles: collecting the hooks of the tree (Environment does it
	// at every transition) settles every call role to INVARIANT = "no opinion". The aggregates of all
	// ancestors must follow, at once and also after later updates elsewhere in the tree.
	var calls, others []*LNode
	for _, l := range ld.leaves {
		if l.Kind == "call" {
			calls = append(calls, l)
		} else {
			others = append(others, l)
		}
	}
	if len(calls) > 0 {
		if id%2 == 0 {
			_ = ld.root.Role.GetAllHooks()
		} else {
			_ = ld.root.Role.GetHooksMapForTrigger("before_START_ACTIVITY")
		}
		for _, l := range calls {
			l.St = sm.INVARIANT
		}
		c.Count("hook_collections", 1)
		c.Count("call_roles_settled_by_hook_collection", int64(len(calls)))
		mkW := func(node string) *Witness {
			w := ld.witness(k.mode, k.ext, us, len(us)-1)
			w.Node = node + " (after the hooks of the tree were collected: every call role INVARIANT)"
			return w
		}
		if k.checkAll(ld, id, mkW) > 0 {
			ok = false
		}
		ld.drain()
		// one more update of a leaf that is not a call (another subtree, as a rule), then all nodes again
		if len(others) > 0 && len(us) > 0 {
			l := others[int(id)%len(others)]
			u := mkSt(l.LeafIdx, healthy[int(id)%len(healthy)])
			ld.apply(u)
			if k.checkAll(ld, id, mkW) > 0 {
				ok = false
			}
			ld.drain()
		}
	}
	return ok
}

// runFinalOnly applies us without intermediate checks (second member of a
// permuted pair) and checks once at the end.
func (k *checker) runFinalOnly(ld *loaded, us []Upd, id int64) bool {
	for _, u := range us {
		ld.apply(u)
	}
	ld.drain()
	mkW := func(node string) *Witness { w := ld.witness(k.mode, k.ext, us, len(us)-1); w.Node = node; return w }
	return k.checkAll(ld, id, mkW) == 0
}

// compareTrees: same final leaf assignment, different listing order and
// different arrival order -> same aggregates at every corresponding node.
func (k *checker) compareTrees(a, b *loaded, usA, usB []Upd, id int64) {
	c := k.c
	bm := map[string]*LNode{}
	for _, n := range b.nodes {
		bm[n.Key] = n
	}
	for _, n := range a.nodes {
		m := bm[n.Key]
		if m == nil {
			c.Inconclusive("permuted pair: node " + n.Key + " has no counterpart")
			return
		}
		if n.isLeaf() && (n.St != m.St || n.Ss != m.Ss) {
			c.Inconclusive("permuted pair: leaf assignment differs at " + n.Key)
			return
		}
	}
	for _, n := range a.nodes {
		m := bm[n.Key]
		as, bs := n.Role.GetState(), m.Role.GetState()
		ass, bss := n.Role.GetStatus(), m.Role.GetStatus()
		c.Count("permuted_node_comparisons", 1)
		if as != bs || ass != bss {
			what := "state"
			x, y := stName(as), stName(bs)
			if as == bs {
				what, x, y = "status", ass.String(), bss.String()
			}
			if x > y {
				x, y = y, x
			}
			k.viol("ORDER", fmt.Sprintf("%s%s:%s|%s", k.pfx(), what, x, y),
				fmt.Sprintf("role %s shows (%s,%s) in one listing/arrival order and (%s,%s) in the other, same final leaf assignment", n.Key, stName(as), ass, stName(bs), bss), id, func() interface{} {
					wa := a.witness("perm", k.ext, usA, len(usA)-1)
					wa.Node = n.Key
					wa.Other = b.witness("perm", k.ext, usB, len(usB)-1)
					return wa
				})
		}
	}
}

// runConcurrent: one goroutine per leaf issues that leaf's updates in order;
// all leaves in parallel; judged only after the join.
func (k *checker) runConcurrent(ld *loaded, us []Upd, id int64) bool {
	c := k.c
	per := make([][]Upd, len(ld.leaves))
	for _, u := range us {
		k.countUpd(ld, u)
		per[u.Leaf] = append(per[u.Leaf], u)
	}
	anyCritErr := false
	for _, u := range us {
		if u.Dim == "state" && u.st == sm.ERROR && ld.leaves[u.Leaf].Crit {
			anyCritErr = true
		}
	}
	critErrBefore := ld.root.hasCritErrorLeaf()
	ld.drain()
	var before []string
	for _, l := range ld.leaves {
		before = append(before, fmt.Sprintf("%d (%s,%s)", l.LeafIdx, stName(l.St), l.Ss))
	}
	type ev struct {
		seq  int64
		leaf int
	}
	evs := make([][]ev, len(ld.leaves))
	var wg sync.WaitGroup
	start := make(chan struct{})
	active := 0
	for i := range per {
		if len(per[i]) == 0 {
			continue
		}
		active++
		wg.Add(1)
		go func(i int) {
			defer wg.Done()
			<-start
			for _, u := range per[i] {
				evs[i] = append(evs[i], ev{vlib.Seq(), i})
				ld.apply(u)
			}
		}(i)
	}
	close(start)
	wg.Wait()
	if active >= 2 {
		c.Count("concurrent_runs_with_2plus_leaves", 1)
	}
	var all []ev
	for _, e := range evs {
		all = append(all, e...)
	}
	sort.Slice(all, func(i, j int) bool { return all[i].seq < all[j].seq })
	var sb strings.Builder
	for _, e := range all {
		fmt.Fprintf(&sb, "%d,", e.leaf)
	}
	c.Interleaving(vlib.Hash(compact(ld.spec), sb.String()))

	mkW := func(node string) *Witness {
		w := ld.witness(k.mode, k.ext, us, len(us)-1)
		w.Node, w.Before = node, before
		return w
	}
	nv := k.checkAll(ld, id, mkW)
	lastSt, nSt, sawErr, _, _ := ld.drain()
	if nSt > 0 && lastSt != ld.root.Role.GetState() {
		c.Count("concurrent_adapter_last_differs_from_root", 1) // observation only
	}
	if ld.root.hasCritErrorLeaf() && !critErrBefore && !sawErr {
		// some critical leaf ended in ERROR, its update to ERROR happened in this round
		endedByRound := false
		for _, l := range ld.leaves {
			if l.Crit && l.St == sm.ERROR && len(per[l.LeafIdx]) > 0 {
				endedByRound = true
			}
		}
		if endedByRound {
			nv++
			k.viol("ROOT-ERROR-LOST", k.pfx()+"conc:adapter-never-received-ERROR", "a critical leaf went to ERROR and stayed there, the ParentAdapter never received ERROR", id, func() interface{} { return mkW("adapter") })
		}
	}
	if sawErr && !anyCritErr && !critErrBefore {
		nv++
		k.viol("ROOT-ERROR-INVENTED", k.pfx()+"conc:adapter-received-ERROR", "the ParentAdapter received ERROR although no critical leaf was ever given ERROR", id, func() interface{} { return mkW("adapter") })
	}
	return nv == 0
}
