package main

// Reference fold, written from the statement of C11:
//
//	state  : over the CRITICAL leaf descendants of a role. A critical leaf whose
//	         value is INVARIANT (call roles, fed by the code itself) has no
//	         opinion. No opinion at all -> the role has no opinion: what it
//	         shows itself is not judged, and it contributes nothing to its
//	         ancestors. Otherwise: some ERROR -> ERROR; all equal -> that
//	         value; else MIXED.
//	status : over ALL leaf descendants (a role without any leaf below does not
//	         exist in a loaded tree: Load prunes it, and expand() predicts that).
//	         Some UNDEPLOYABLE -> UNDEPLOYABLE (if at the same time something
//	         else is missing the statement's two clauses collide and PARTIAL
//	         is accepted as well). All ACTIVE -> ACTIVE. All INACTIVE ->
//	         INACTIVE (PARTIAL also accepted: "anything missing makes it
//	         PARTIAL"). Everything else -> PARTIAL.
//	leaves : report the last value they were given.

import (
	"sort"
	"strings"

	"github.com/AliceO2Group/Control/core/task"
	"github.com/AliceO2Group/Control/core/task/sm"
	"github.com/AliceO2Group/Control/core/workflow"
)

type LNode struct {
	Kind   string
	Crit   bool
	Name   string
	Key    string
	Kids   []*LNode
	Parent *LNode
	Role   workflow.Role

	// model of a leaf: last values given to it
	St      sm.State
	Ss      task.Status
	LeafIdx int
	Pruned  int // listed children predicted to be pruned away (disabled or empty)

	OffKids     int // listed children that are disabled
	OffCritKids int // ... of which critical (a critical leaf, or containing one)
}

func specHasCrit(s *Spec) bool {
	if s.Kind == "task" || s.Kind == "call" {
		return s.Crit
	}
	for _, k := range s.Kids {
		if specHasCrit(k) {
			return true
		}
	}
	return false
}

func (l *LNode) isLeaf() bool { return l.Kind == "task" || l.Kind == "call" }

// expand builds the logical tree Load is expected to produce, including the
// pruning of empty iterators and of the aggregators emptied by them.
func expand(root *Spec) *LNode {
	n := &LNode{Kind: "agg", Name: "", Key: "r"}
	expandKids(n, root)
	return n
}

func expandKids(n *LNode, s *Spec) {
	for _, k := range s.Kids {
		if k.Off != 0 {
			// disabled: the role and everything below it is absent
			n.Pruned++
			n.OffKids++
			if specHasCrit(k) {
				n.OffCritKids++
			}
			continue
		}
		cnt := 1
		if k.Iter >= 0 {
			cnt = k.Iter
			if cnt == 0 {
				n.Pruned++ // iterator over an empty range: absent
			}
		}
		for i := 0; i < cnt; i++ {
			c := &LNode{Kind: k.Kind, Crit: k.Crit, Name: instName(k, i), Parent: n}
			c.Key = n.Key + "/" + instName(k, i)
			if !c.isLeaf() {
				expandKids(c, k)
				if len(c.Kids) == 0 {
					// Pruning: an iterator over an empty range produces nothing and is
					// filtered out of its parent; an aggregator / include left without
					// any role disables itself and is filtered out in turn (recursively).
					n.Pruned++
					continue
				}
			}
			n.Kids = append(n.Kids, c)
		}
	}
}

func (l *LNode) walk(f func(*LNode)) {
	f(l)
	for _, k := range l.Kids {
		k.walk(f)
	}
}

func (l *LNode) leaves() []*LNode {
	var out []*LNode
	l.walk(func(n *LNode) {
		if n.isLeaf() {
			out = append(out, n)
		}
	})
	return out
}

// ---------------- state ----------------

type stOp struct {
	has bool
	v   sm.State
}

func combineStates(vs []sm.State) stOp {
	var eff []sm.State
	for _, v := range vs {
		if v != sm.INVARIANT {
			eff = append(eff, v)
		}
	}
	if len(eff) == 0 {
		return stOp{}
	}
	allSame := true
	for _, v := range eff {
		if v == sm.ERROR {
			return stOp{true, sm.ERROR}
		}
		if v != eff[0] {
			allSame = false
		}
	}
	if allSame {
		return stOp{true, eff[0]}
	}
	return stOp{true, sm.MIXED}
}

// critLeafStates collects the values of the critical leaf descendants.
func (l *LNode) critLeafStates() []sm.State {
	var vs []sm.State
	l.walk(func(n *LNode) {
		if n.isLeaf() && n.Crit {
			vs = append(vs, n.St)
		}
	})
	return vs
}

// refState is the contribution of l to its ancestors and, if has, the value l
// itself must report (leaves: see refOwnState).
func (l *LNode) refState() stOp {
	if l.isLeaf() {
		if !l.Crit {
			return stOp{}
		}
		return combineStates([]sm.State{l.St})
	}
	return combineStates(l.critLeafStates())
}

// h1State is the fold under the hypothesis "an aggregator without opinion
// contributes whatever it currently shows"; used only to name the witness class.
func (l *LNode) h1State() stOp {
	if l.isLeaf() {
		return l.refState()
	}
	var vs []sm.State
	for _, k := range l.Kids {
		if !k.isLeaf() && !k.refState().has {
			vs = append(vs, k.Role.GetState())
			continue
		}
		if o := k.h1State(); o.has {
			vs = append(vs, o.v)
		}
	}
	return combineStates(vs)
}

func (l *LNode) hasNoOpinionAggBelow() bool {
	found := false
	for _, k := range l.Kids {
		k.walk(func(n *LNode) {
			if !n.isLeaf() && !n.refState().has {
				found = true
			}
		})
	}
	return found
}

func (l *LNode) hasCritErrorLeaf() bool {
	f := false
	l.walk(func(n *LNode) {
		if n.isLeaf() && n.Crit && n.St == sm.ERROR {
			f = true
		}
	})
	return f
}

// ---------------- status ----------------

type ssOp struct {
	has    bool
	accept []task.Status
}

func (o ssOp) ok(s task.Status) bool {
	for _, a := range o.accept {
		if a == s {
			return true
		}
	}
	return false
}

func (o ssOp) String() string {
	var p []string
	for _, a := range o.accept {
		p = append(p, a.String())
	}
	return strings.Join(p, "|")
}

func combineStatuses(vs []task.Status) ssOp {
	if len(vs) == 0 {
		return ssOp{}
	}
	nU, nA, nI := 0, 0, 0
	for _, v := range vs {
		switch v {
		case task.UNDEPLOYABLE:
			nU++
		case task.ACTIVE:
			nA++
		case task.INACTIVE:
			nI++
		}
	}
	n := len(vs)
	switch {
	case nU > 0 && nU+nA == n:
		return ssOp{true, []task.Status{task.UNDEPLOYABLE}}
	case nU > 0:
		return ssOp{true, []task.Status{task.UNDEPLOYABLE, task.PARTIAL}}
	case nA == n:
		return ssOp{true, []task.Status{task.ACTIVE}}
	case nI == n:
		return ssOp{true, []task.Status{task.INACTIVE, task.PARTIAL}}
	default:
		return ssOp{true, []task.Status{task.PARTIAL}}
	}
}

func (l *LNode) leafStatuses() []task.Status {
	var vs []task.Status
	l.walk(func(n *LNode) {
		if n.isLeaf() {
			vs = append(vs, n.Ss)
		}
	})
	return vs
}

func (l *LNode) refStatus() ssOp {
	return combineStatuses(l.leafStatuses())
}

// ---------------- canonical descriptions ----------------

// childKinds describes the children of l by kind and value only (no names),
// sorted, duplicates collapsed.
func (l *LNode) childKinds() string {
	set := map[string]bool{}
	for _, k := range l.Kids {
		var d string
		switch {
		case k.isLeaf() && k.Crit:
			d = "crit:" + stName(k.St)
		case k.isLeaf():
			d = "noncrit"
		default:
			o := k.refState()
			if o.has {
				d = "sub:" + stName(o.v)
			} else if len(k.critLeafStates()) == 0 {
				d = "noncrit-only-subtree"
			} else {
				d = "no-opinion-subtree"
			}
		}
		set[d] = true
	}
	var out []string
	for d := range set {
		out = append(out, d)
	}
	sort.Strings(out)
	return "[" + strings.Join(out, ",") + "]"
}

func stName(s sm.State) string {
	if s == sm.INVARIANT {
		return "INVARIANT"
	}
	return s.String()
}
