package main

// Tree specifications, their rendering as workflow templates (YAML) and the
// logical tree that the real Load is expected to produce from them.

import (
	"fmt"
	"math/rand"
	"strings"
)

// Spec is one listed role of a workflow template.
//
//	Kind   task | call | agg | inc
//	Iter   -1 = not an iterator; n >= 0 = iterator producing n instances
//	       (for: begin 0, end n-1; n == 0 is an empty range)
//	Off    0 = enabled; 1 = `enabled: "false"`; 2 = `enabled` is a template
//	       expression that evaluates to false. A disabled role (and everything
//	       below it) is absent from the loaded tree.
type Spec struct {
	ID   int     `json:"id"`
	Kind string  `json:"kind"`
	Crit bool    `json:"crit,omitempty"`
	Iter int     `json:"iter"`
	Off  int     `json:"off,omitempty"`
	Kids []*Spec `json:"kids,omitempty"`
}

type genCfg struct {
	maxDepth   int // leaves at depth <= maxDepth (root = 0)
	maxFan     int
	maxLeaves  int
	emptyIterP float64
	offP       float64 // any listed role disabled
	offCritP   float64 // a non-critical-only aggregator gets an extra DISABLED critical child
}

type gen struct {
	r      *rand.Rand
	cfg    genCfg
	nextID int
}

func (g *gen) id() int { g.nextID++; return g.nextID }

// node generates one listed role at the given depth (depth >= 1).
// forceNonCrit makes every leaf below non-critical.
func (g *gen) node(depth int, forceNonCrit bool) *Spec {
	s := &Spec{ID: g.id(), Iter: -1}
	canNest := depth < g.cfg.maxDepth
	x := g.r.Intn(100)
	switch {
	case !canNest || x < 38:
		s.Kind = "task"
	case x < 52:
		s.Kind = "call"
	case x < 86:
		s.Kind = "agg"
	default:
		s.Kind = "inc"
	}
	if !canNest && g.r.Intn(100) < 25 {
		s.Kind = "call"
	}
	if g.r.Intn(100) < 20 {
		s.Iter = 1 + g.r.Intn(3)
		if g.r.Float64() < g.cfg.emptyIterP {
			s.Iter = 0
		}
	}
	if g.r.Float64() < g.cfg.offP {
		s.Off = 1 + g.r.Intn(2)
	}
	switch s.Kind {
	case "task", "call":
		s.Crit = !forceNonCrit && g.r.Intn(100) < 62
	default:
		fnc := forceNonCrit || g.r.Intn(100) < 14
		n := 1 + g.r.Intn(g.cfg.maxFan)
		for i := 0; i < n; i++ {
			s.Kids = append(s.Kids, g.node(depth+1, fnc))
		}
		if fnc && g.r.Float64() < g.cfg.offCritP {
			// the only critical role(s) listed below this aggregator are disabled:
			// after loading it has no critical descendant
			k := g.offCritical(depth + 1)
			at := g.r.Intn(len(s.Kids) + 1)
			s.Kids = append(s.Kids[:at], append([]*Spec{k}, s.Kids[at:]...)...)
		}
	}
	return s
}

// offCritical generates a disabled role that is (or contains only) critical
// leaves: a task, a call, an iterator of them, or an aggregator / include of them.
func (g *gen) offCritical(depth int) *Spec {
	s := &Spec{ID: g.id(), Iter: -1, Off: 1 + g.r.Intn(2)}
	leaf := func() *Spec {
		l := &Spec{ID: g.id(), Kind: "task", Crit: true, Iter: -1}
		if g.r.Intn(4) == 0 {
			l.Kind = "call"
		}
		return l
	}
	x := g.r.Intn(100)
	switch {
	case x < 55 || depth >= g.cfg.maxDepth:
		s.Kind, s.Crit = "task", true
		if x < 10 {
			s.Kind = "call"
		}
	case x < 85:
		s.Kind = "agg"
		s.Kids = []*Spec{leaf()}
		if g.r.Intn(2) == 0 {
			s.Kids = append(s.Kids, leaf())
		}
	default:
		s.Kind = "inc"
		s.Kids = []*Spec{leaf()}
	}
	if g.r.Intn(100) < 30 {
		s.Iter = 1 + g.r.Intn(3)
	}
	return s
}

// tree generates the root (an aggregator: the workflow template itself).
func genTree(r *rand.Rand, cfg genCfg) *Spec {
	for {
		g := &gen{r: r, cfg: cfg}
		root := &Spec{ID: 0, Kind: "agg", Iter: -1}
		n := 1 + r.Intn(cfg.maxFan)
		for i := 0; i < n; i++ {
			root.Kids = append(root.Kids, g.node(1, false))
		}
		nl := countLeaves(root, 1)
		if nl >= 1 && nl <= cfg.maxLeaves {
			return root
		}
	}
}

func countLeaves(s *Spec, mult int) int {
	if s.Off != 0 {
		return 0
	}
	if s.Iter >= 0 {
		mult *= s.Iter
	}
	if s.Kind == "task" || s.Kind == "call" {
		return mult
	}
	n := 0
	for _, k := range s.Kids {
		n += countLeaves(k, mult)
	}
	return n
}

// permuted returns a deep copy with the children of every aggregator / include
// listed in a different (random) order. IDs are preserved.
func permuted(s *Spec, r *rand.Rand) *Spec {
	c := &Spec{ID: s.ID, Kind: s.Kind, Crit: s.Crit, Iter: s.Iter, Off: s.Off}
	for _, k := range s.Kids {
		c.Kids = append(c.Kids, permuted(k, r))
	}
	if len(c.Kids) > 1 {
		orig := append([]*Spec(nil), c.Kids...)
		for try := 0; try < 4; try++ {
			r.Shuffle(len(c.Kids), func(i, j int) { c.Kids[i], c.Kids[j] = c.Kids[j], c.Kids[i] })
			same := true
			for i := range orig {
				if orig[i] != c.Kids[i] {
					same = false
				}
			}
			if !same {
				break
			}
		}
	}
	return c
}

// compact is a short canonical rendering of a spec, used in case logs.
func compact(s *Spec) string {
	var sb strings.Builder
	var w func(s *Spec)
	w = func(s *Spec) {
		if s.Off != 0 {
			sb.WriteByte('!')
		}
		if s.Iter >= 0 {
			fmt.Fprintf(&sb, "%d*", s.Iter)
		}
		switch s.Kind {
		case "task", "call":
			c := "-"
			if s.Crit {
				c = "+"
			}
			sb.WriteString(strings.ToUpper(s.Kind[:1]) + c)
		default:
			if s.Kind == "agg" {
				sb.WriteString("A(")
			} else {
				sb.WriteString("I(")
			}
			for i, k := range s.Kids {
				if i > 0 {
					sb.WriteByte(',')
				}
				w(k)
			}
			sb.WriteByte(')')
		}
	}
	w(s)
	return sb.String()
}

const taskClassName = "c11task"

const taskClassYAML = `name: c11task
control:
  mode: direct
wants:
  cpu: 0.01
  memory: 8
bind: []
properties: {}
command:
  env: []
  shell: true
  arguments: []
  value: /bin/true
`

func roleName(s *Spec) string {
	if s.Iter >= 0 {
		return fmt.Sprintf("n%dx{{ it%d }}", s.ID, s.ID)
	}
	return fmt.Sprintf("n%d", s.ID)
}

func instName(s *Spec, i int) string {
	if s.Iter >= 0 {
		return fmt.Sprintf("n%dx%d", s.ID, i)
	}
	return fmt.Sprintf("n%d", s.ID)
}

// render writes the workflow template wf (and the templates of the workflows
// it includes) into files.
func render(root *Spec, wf string, files map[string]string) {
	var sb strings.Builder
	// c11_on is "false": `enabled: "{{ c11_on == 'true' }}"` evaluates to false
	// (included workflows see the variable through their parent's defaults)
	fmt.Fprintf(&sb, "name: %s\ndefaults:\n  c11_on: \"false\"\nroles:\n", wf)
	renderRoles(&sb, root.Kids, 1, wf, files)
	files["workflows/"+wf+".yaml"] = sb.String()
}

func renderRoles(sb *strings.Builder, kids []*Spec, ind int, wf string, files map[string]string) {
	pad := strings.Repeat("  ", ind)
	for _, k := range kids {
		fmt.Fprintf(sb, "%s- name: \"%s\"\n", pad, roleName(k))
		switch k.Off {
		case 1:
			fmt.Fprintf(sb, "%s  enabled: \"false\"\n", pad)
		case 2:
			fmt.Fprintf(sb, "%s  enabled: \"{{ c11_on == 'true' }}\"\n", pad)
		}
		if k.Iter >= 0 {
			fmt.Fprintf(sb, "%s  for:\n%s    begin: 0\n%s    end: %d\n%s    var: it%d\n", pad, pad, pad, k.Iter-1, pad, k.ID)
		}
		switch k.Kind {
		case "task":
			fmt.Fprintf(sb, "%s  task:\n%s    load: %s\n%s    critical: %v\n", pad, pad, taskClassName, pad, k.Crit)
		case "call":
			fmt.Fprintf(sb, "%s  call:\n%s    func: testplugin.Noop()\n%s    trigger: before_CONFIGURE\n%s    timeout: 1s\n%s    critical: %v\n", pad, pad, pad, pad, pad, k.Crit)
		case "agg":
			fmt.Fprintf(sb, "%s  roles:\n", pad)
			renderRoles(sb, k.Kids, ind+2, wf, files)
		case "inc":
			sub := fmt.Sprintf("%s_i%d", wf, k.ID)
			fmt.Fprintf(sb, "%s  include: %s\n", pad, sub)
			render(k, sub, files)
		}
	}
}
