// mon-c11: C11 — a role's state and status are the fold of its subtree.
//
// Random role trees are rendered as workflow templates, loaded with the real
// workflow.Load below a real ParentAdapter, and their leaves are driven through
// the exported UpdateState / UpdateStatus methods. Every node is compared with
// a reference fold written from the property statement (ref.go) at quiescent
// points only.
package main

import (
	"fmt"
	"os"

	"verif/harness/vlib"
)

type caseDesc struct {
	Idx  int64  `json:"idx"`
	Mode string `json:"mode"`
	Ext  bool   `json:"ext,omitempty"`
	Tree string `json:"tree"`
	NUpd int    `json:"n_updates"`
}

func main() {
	if len(os.Args) >= 2 && os.Args[1] == "REPRO" {
		runRepro()
		return
	}
	if len(os.Args) < 2 || os.Args[1] != "C11" {
		fmt.Fprintln(os.Stderr, "usage: mon-c11 C11 [flags]")
		os.Exit(64)
	}
	c := vlib.Start("C11")
	defer c.Finish()

	nTrees, nUpd, nConc := 2000, 30, 2400
	nExtTrees, nExtConc := 0, 0
	if c.Tier == "thorough" {
		nTrees, nConc = 100000, 20000
		nExtTrees, nExtConc = 8000, 2000
	}
	if _, err := getEnv(); err != nil {
		c.Inconclusive("in-process setup failed: " + err.Error())
		return
	}
	cfg := genCfg{maxDepth: 4, maxFan: 4, maxLeaves: 18, emptyIterP: 0.12, offP: 0.07, offCritP: 0.5}

	lo, hi := c.Slice(nTrees)
	for i := lo; i < hi; i++ {
		treeCase(c, cfg, int64(i), nUpd, false)
	}
	lo, hi = c.Slice(nExtTrees)
	for i := lo; i < hi; i++ {
		treeCase(c, cfg, int64(10_000_000+i), nUpd, true)
	}
	const rounds = 8
	lo, hi = c.Slice(nConc / rounds)
	for i := lo; i < hi; i++ {
		concCase(c, cfg, int64(20_000_000+i), rounds, false)
	}
	lo, hi = c.Slice(nExtConc / rounds)
	for i := lo; i < hi; i++ {
		concCase(c, cfg, int64(30_000_000+i), rounds, true)
	}
}

func wfName(c *vlib.Ctx, idx int64, suffix string) string {
	return fmt.Sprintf("c11b%dt%d%s", c.Batch, idx, suffix)
}

// treeCase: sequential run on the tree; for every second tree also the
// permuted partner (children listed in another order, other arrival order).
func treeCase(c *vlib.Ctx, cfg genCfg, idx int64, nUpd int, ext bool) {
	r := c.SubRand(idx)
	spec := genTree(r, cfg)
	withPerm := r.Intn(2) == 0
	mode := "seq"
	if withPerm {
		mode = "seq+perm"
	}
	desc := caseDesc{Idx: idx, Mode: mode, Ext: ext, Tree: compact(spec), NUpd: nUpd}
	id := c.Case(desc)
	if idx%400 == 3 {
		c.Sample(desc)
	}
	a, err := loadTree(spec, wfName(c, idx, ""))
	if err != nil {
		c.Inconclusive(fmt.Sprintf("case %d (%s): %v", idx, compact(spec), err))
		return
	}
	defer a.cleanup()
	countTree(c, a)
	us := genUpdates(r, a.leaves, nUpd, ext)
	if len(a.leaves) >= 3 && len(a.nodes)-len(a.leaves) >= 2 {
		c.Nontrivial(vlib.Hash(compact(spec), fmt.Sprint(us)))
	}
	ks := &checker{c: c, mode: "seq", ext: ext}
	okA := ks.runSequential(a, us, id)
	c.Count("sequential_runs", 1)
	if !withPerm {
		ks.hookPhase(a, us, id)
		return
	}
	specB := permuted(spec, r)
	b, err := loadTree(specB, wfName(c, idx, "p"))
	if err != nil {
		c.Inconclusive(fmt.Sprintf("case %d permuted (%s): %v", idx, compact(specB), err))
		return
	}
	defer b.cleanup()
	// leaves of b are numbered in b's own listing order: translate by key
	keyToB := map[string]int{}
	for _, l := range b.leaves {
		keyToB[l.Key] = l.LeafIdx
	}
	usB := reinterleave(r, us)
	for i := range usB {
		usB[i].Leaf = keyToB[a.leaves[usB[i].Leaf].Key]
	}
	kp := &checker{c: c, mode: "perm", ext: ext}
	okB := kp.runFinalOnly(b, usB, id)
	c.Count("permuted_pairs", 1)
	if compact(spec) != compact(specB) {
		c.Count("permuted_pairs_listing_differs", 1)
	}
	_ = okA
	_ = okB
	kp.compareTrees(a, b, us, usB, id)
	ks.hookPhase(a, us, id)
}

// concCase: a tree, then `rounds` concurrent rounds on it.
func concCase(c *vlib.Ctx, cfg genCfg, idx int64, rounds int, ext bool) {
	r := c.SubRand(idx)
	var spec *Spec
	for {
		spec = genTree(r, cfg)
		if countLeaves(spec, 1) >= 2 {
			break
		}
	}
	desc := caseDesc{Idx: idx, Mode: "conc", Ext: ext, Tree: compact(spec), NUpd: rounds}
	id := c.Case(desc)
	if idx%400 == 3 {
		c.Sample(desc)
	}
	ld, err := loadTree(spec, wfName(c, idx, "c"))
	if err != nil {
		c.Inconclusive(fmt.Sprintf("case %d (%s): %v", idx, compact(spec), err))
		return
	}
	defer ld.cleanup()
	countTree(c, ld)
	k := &checker{c: c, mode: "conc", ext: ext}
	for round := 0; round < rounds; round++ {
		n := 3 * len(ld.leaves)
		if n > 40 {
			n = 40
		}
		us := genUpdates(r, ld.leaves, n, ext)
		c.Count("concurrent_runs", 1)
		if round == 0 && len(ld.leaves) >= 3 {
			c.Nontrivial(vlib.Hash("conc", compact(spec), fmt.Sprint(us)))
		}
		// a round with a violation does not end the case: every later merge
		// recomputes from the children, and a wrong value that survives into the
		// next quiescent point is wrong there too (same class)
		k.runConcurrent(ld, us, id)
	}
}
