package main

// `mon-c11 REPRO` — the smallest stand-alone reproducers of the two baseline
// defect families, against the real Load / UpdateState. Not part of any check.

import (
	"fmt"
	"sync"

	"github.com/AliceO2Group/Control/core/task/sm"
)

func leafT(id int, crit bool) *Spec { return &Spec{ID: id, Kind: "task", Crit: crit, Iter: -1} }
func aggOf(id int, kids ...*Spec) *Spec {
	return &Spec{ID: id, Kind: "agg", Iter: -1, Kids: kids}
}

func runRepro() {
	// 1. sequential, deterministic: an aggregator with only non-critical roles
	//    keeps its initial STANDBY and takes part in its parent's fold.
	spec := aggOf(0, leafT(1, true), aggOf(2, leafT(3, false)))
	ld, err := loadTree(spec, "c11repro1")
	if err != nil {
		fmt.Println("load:", err)
		return
	}
	fmt.Print(ld.files["workflows/c11repro1.yaml"])
	ld.apply(mkSt(0, sm.CONFIGURED)) // the only critical task goes to CONFIGURED
	fmt.Printf("repro 1: n1(critical)=CONFIGURED, n2=[n3 non-critical]: root shows %s (fold of critical descendants: CONFIGURED), n2 shows %s\n\n",
		stName(ld.root.Role.GetState()), stName(ld.nodes[2].Role.GetState()))
	ld.cleanup()

	// 2. concurrent: merge() trusts an incoming ERROR / MIXED that the caller read
	//    outside of any lock. a keeps confirming RUNNING, b flips ERROR <-> RUNNING
	//    and ends in RUNNING; c stays RUNNING.
	spec = aggOf(0, aggOf(1, leafT(2, true), leafT(3, true)), leafT(4, true))
	ld, err = loadTree(spec, "c11repro2")
	if err != nil {
		fmt.Println("load:", err)
		return
	}
	fmt.Print(ld.files["workflows/c11repro2.yaml"])
	for _, i := range []int{0, 1, 2} {
		ld.apply(mkSt(i, sm.RUNNING))
	}
	staleErr, staleMixed := 0, 0
	const rounds = 20000
	for n := 0; n < rounds; n++ {
		var wg sync.WaitGroup
		wg.Add(2)
		go func() {
			defer wg.Done()
			for j := 0; j < 4; j++ {
				ld.apply(mkSt(0, sm.RUNNING))
			}
		}()
		go func() {
			defer wg.Done()
			bad := sm.ERROR
			if n%2 == 1 {
				bad = sm.CONFIGURED // makes n1 MIXED for a moment
			}
			for j := 0; j < 2; j++ {
				ld.apply(mkSt(1, bad))
				ld.apply(mkSt(1, sm.RUNNING))
			}
		}()
		wg.Wait()
		switch ld.root.Role.GetState() {
		case sm.ERROR:
			staleErr++
		case sm.MIXED:
			staleMixed++
		}
		// heal for the next round (a real change below forces a recomputation)
		ld.apply(mkSt(2, sm.CONFIGURED))
		ld.apply(mkSt(2, sm.RUNNING))
	}
	fmt.Printf("repro 2: %d rounds, all three critical tasks RUNNING at every join: root showed ERROR %d times, MIXED %d times\n", rounds, staleErr, staleMixed)
	ld.cleanup()
}
