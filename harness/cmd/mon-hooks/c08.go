package main

// C08 — hooks run at their declared moment, in weight order, awaited where declared.
//
// Oracle (no stricter than the statement; see DESIGN.md "### C08" soundness notes):
//
//  ORDER / INTERVAL  one monotonicity check over the merged record stream. Every
//      record proves a bound on the position of the state machine in the
//      documented order (occurrence, moment, weight) at its sequence number:
//        lower bounds (FSM has reached >= X): trans_begin, step starting/finished,
//            body enter/exit, task_trigger, hook_start (X = trigger point), trans_end
//        upper bounds (FSM has not passed X): trans_begin, step starting/finished,
//            body enter/exit, task_trigger, trans_end, hook_end (X = await point:
//            the FSM must not move past it before the hook has returned)
//      The FSM position is monotone, so a lower bound that precedes a smaller
//      upper bound is a violation: with a hook_end as the upper bound it is the
//      interval rule (INTERVAL: moved past the await point while the hook was
//      open), otherwise a hook started ahead of its trigger point or weights /
//      moments out of order (ORDER).
//  BUILTIN   documented built-in work of START_ACTIVITY / STOP_ACTIVITY moments
//      (docs/handbook/operation_order.md): hooks with weight >= 0 see it done,
//      synchronous hooks with weight < 0 do not.
//  FIRE      in a walk without failures every hook whose trigger moment belongs to
//      a transition fires exactly once in it, and never outside its moment.
//  PENDING   at every quiescent point between transitions the environment's
//      callsPendingAwait holds exactly the started calls whose await point has
//      not been reached (exactly-once collection).
//  LEAK      after teardown no started call is left neither collected nor cancelled.
//  EQUAL     all hook tasks of one trigger point are targets of one trigger command;
//      when the FSM is parked at an await point, every call triggered at that
//      point (and at the released call's own trigger point) has started.

import (
	"encoding/json"
	"fmt"
	"os"
	"sort"
	"strings"

	"verif/harness/envlab"
	"verif/harness/vlib"
)

type violation struct {
	Rule, Class, Detail string
}

type caseOutcome struct {
	Case            HookCase
	Occs            []envlab.Occurrence
	Results         []envlab.TransResult
	Teardown        envlab.TeardownResult
	Records         []envlab.Record
	Anomalies       int
	GatedOpen       int
	Hang            string // a driven call never returned: innermost repository function of the driver goroutine
	HangEvent       string
	LateUnconfirmed int
	Spurious        int                      // timeouts accounted by the environment that no script asked for (lab too slow)
	FailAt          map[int]envlab.Behaviour // two-attempt cases: what the hook task "t" does in occurrence k
	SecondDone      bool                     // two-attempt cases: the second attempt was driven
}

func runC08() {
	c := vlib.Start("C08")
	defer c.Finish()
	w, err := envlab.Setup()
	if err != nil {
		c.Inconclusive("envlab setup: " + err.Error())
		return
	}
	if c.Replay != "" {
		var hc HookCase
		if err := readReplayCase(c, &hc); err != nil {
			c.Inconclusive("replay: " + err.Error())
			return
		}
		out, err := execC08(w, hc)
		if err != nil {
			c.Inconclusive(err.Error())
			return
		}
		dumpOutcome(out, checkC08(out))
		return
	}
	n := 400
	if c.Tier == "thorough" {
		n = 10000
	}
	lo, hi := c.Slice(n)
	var cases []HookCase
	for i := lo; i < hi; i++ {
		cases = append(cases, genC08(c, int64(i)))
	}
	// over-running calls: a few per run, spread over the batches (each costs ~3 s of waiting)
	nOver, nb := 4, c.NBatch
	if c.Tier == "thorough" {
		nOver = 32
	}
	if nb < 1 {
		nb = 1
	}
	for v := 0; v < nOver; v++ {
		if v%nb == c.Batch%nb {
			cases = append(cases, genOverrun(c, v))
		}
	}
	for n, hc := range cases {
		i := int(hc.Idx)
		id := c.Case(hc)
		out, err := execC08(w, hc)
		if err != nil {
			c.Inconclusive(fmt.Sprintf("case %d: %v", i, err))
			continue
		}
		if reportHang(c, out, id) {
			return // the environment is stuck with its transition mutex held: stop the batch cleanly
		}
		if out.Anomalies > 0 {
			c.Inconclusive(fmt.Sprintf("case %d: %d lab anomalies: %s", i, out.Anomalies, firstAnomaly(out.Records)))
			c.Count("cases_with_lab_anomalies", 1)
			continue // what the lab could not drive properly is not judged
		}
		if out.Teardown.Err != nil {
			c.Inconclusive(fmt.Sprintf("case %d: TeardownEnvironment: %v", i, out.Teardown.Err))
		}
		c.Nontrivial(vlib.Hash(caseFingerprint(hc)))
		countC08(c, out)
		for _, v := range checkC08(out) {
			c.Violation(v.Rule, v.Class, v.Detail, id, witnessOf(out, v))
		}
		if n < 3 {
			c.Sample(map[string]interface{}{"walk": hc.Walk, "hooks": hc.Hooks, "records": len(out.Records)})
		}
	}
}

// reportHang: bounded progress. A transition (or teardown) that has not returned
// envlab.HangSlack after the longest hook timeout of the set, confirmed
// envlab.HangConfirm later with no new record and the driving goroutine parked in
// repository code, never returns: HANG/transition-never-returns@<innermost repository function>.
func reportHang(c *vlib.Ctx, out *caseOutcome, id int64) bool {
	if out.Hang == "" {
		return false
	}
	what := "transition"
	if out.HangEvent == "DESTROY" {
		what = "teardown"
	}
	v := violation{"HANG", what + "-never-returns@" + out.Hang,
		fmt.Sprintf("%s %s (after %d completed transitions) has not returned %v after the longest hook timeout of the set; no record for another %v, every gate it could wait for open, driving goroutine parked in %s",
			what, out.HangEvent, len(out.Results), envlab.HangSlack, envlab.HangConfirm, out.Hang)}
	c.Count("hangs", 1)
	c.Violation(v.Rule, v.Class, v.Detail, id, witnessOf(out, v))
	return true
}

func firstAnomaly(recs []envlab.Record) string {
	for _, r := range recs {
		if r.Kind == envlab.KAnomaly {
			return r.Msg
		}
	}
	return ""
}

func readReplayCase(c *vlib.Ctx, hc *HookCase) error {
	b, err := os.ReadFile(c.Replay)
	if err != nil {
		return err
	}
	// oracle violations carry {"witness":{"case":<HookCase>,...}}; a CRASH attributed by the
	// parent carries the last logged case {"witness":{"case":<n>,"desc":<HookCase>}}
	var w struct {
		Witness struct {
			Case json.RawMessage `json:"case"`
			Desc json.RawMessage `json:"desc"`
		} `json:"witness"`
	}
	if err := json.Unmarshal(b, &w); err != nil {
		return err
	}
	for _, raw := range []json.RawMessage{w.Witness.Case, w.Witness.Desc} {
		var c HookCase
		if len(raw) > 0 && json.Unmarshal(raw, &c) == nil && len(c.Walk) > 0 {
			*hc = c
			return nil
		}
	}
	return fmt.Errorf("no case in replay file")
}

func dumpOutcome(out *caseOutcome, vs []violation) {
	enc := json.NewEncoder(os.Stdout)
	b, _ := json.Marshal(out.Case)
	fmt.Println("CASE", string(b))
	for _, r := range out.Results {
		fmt.Printf("TRANSITION %s %s -> %s err=%q pending=%v\n", r.Occ.Event, r.Occ.Src, r.State, r.ErrText, r.Pending)
	}
	if out.Hang != "" {
		fmt.Printf("HANG %s never returned, driver parked in %s\n", out.HangEvent, out.Hang)
	}
	fmt.Printf("TEARDOWN err=%v leaked=%d\n", out.Teardown.Err, out.Teardown.Leaked)
	for _, r := range out.Records {
		_ = enc.Encode(r)
	}
	for _, v := range vs {
		fmt.Printf("VIOLATION %s/%s: %s\n", v.Rule, v.Class, v.Detail)
	}
	if len(vs) == 0 {
		fmt.Println("NO VIOLATION")
	}
}

func witnessOf(out *caseOutcome, v violation) interface{} {
	recs := out.Records
	if len(recs) > 400 {
		recs = recs[:400]
	}
	var res []map[string]interface{}
	for _, r := range out.Results {
		res = append(res, map[string]interface{}{"event": r.Occ.Event, "src": r.Occ.Src, "state": r.State, "err": r.ErrText, "pending": r.Pending})
	}
	return map[string]interface{}{"case": out.Case, "violation": v, "transitions": res, "records": recs,
		"reproduce": "mon-hooks " + out.Case.Prop + " --replay <this file>"}
}

func genC08(c *vlib.Ctx, idx int64) HookCase {
	r := c.SubRand(idx)
	hc := HookCase{Prop: "C08", Idx: idx}
	hc.Walk = genWalk(r, 6)
	hc.Hooks = genHooks(r, hc.Walk, 10, "h", true)
	if r.Intn(2) == 0 {
		hc.Hooks = append(hc.Hooks, sentinels(hc.Walk)...)
	}
	return hc
}

// overrunSleepMs: how long an over-running call takes; its declared timeout is 100 ms.
const overrunSleepMs = 2700

// genOverrun: two calls (one critical, one not) with `timeout: 100ms` that take
// 2.7 s and succeed, awaited at the trigger point / a later weight / a later
// moment / in the next transition (v%4), so that the state machine reaches their
// await point while they are still running. The handbook: "The ECS will not
// abort the call upon reaching the timeout value" - the state machine waits, the
// result is collected once. Judged by the ordinary C08 rules on the call's real
// end record.
func genOverrun(c *vlib.Ctx, v int) HookCase {
	r := c.SubRand(int64(1000000 + v))
	hc := HookCase{Prop: "C08", Idx: int64(1000000 + v), Overrun: true, Walk: []string{"DEPLOY", "CONFIGURE", "START_ACTIVITY", "STOP_ACTIVITY"}}
	var trig, await string
	switch v % 4 {
	case 0:
		trig = envlab.Expr("before_CONFIGURE", pickWeight(r))
	case 1:
		w := pickWeight(r)
		trig, await = envlab.Expr("leave_DEPLOYED", w), envlab.Expr("leave_DEPLOYED", laterWeight(r, w))
	case 2:
		trig, await = envlab.Expr("before_CONFIGURE", pickWeight(r)), envlab.Expr([]string{"leave_DEPLOYED", "enter_CONFIGURED", "after_CONFIGURE"}[r.Intn(3)], pickWeight(r))
	case 3:
		trig, await = envlab.Expr("after_CONFIGURE", pickWeight(r)), envlab.Expr([]string{"before_START_ACTIVITY", "leave_CONFIGURED", "enter_RUNNING"}[r.Intn(3)], pickWeight(r))
	}
	f := false
	hc.Hooks = []envlab.HookSpec{
		{Name: "oc", Kind: envlab.Call, Trigger: trig, Await: await, Timeout: "100ms", Behaviour: envlab.CallSlow, SleepMs: overrunSleepMs},
		{Name: "on", Kind: envlab.Call, Trigger: trig, Await: await, Timeout: "100ms", Critical: &f, Behaviour: envlab.CallSlow, SleepMs: overrunSleepMs},
	}
	if r.Intn(2) == 0 {
		hc.Hooks[0], hc.Hooks[1] = hc.Hooks[1], hc.Hooks[0]
	}
	for _, b := range genHooks(r, hc.Walk, 3, "h", true) {
		hc.Hooks = append(hc.Hooks, b)
	}
	if r.Intn(2) == 0 {
		hc.Hooks = append(hc.Hooks, sentinels(hc.Walk)...)
	}
	return hc
}

func execC08(w *envlab.World, hc HookCase) (*caseOutcome, error) {
	lab, err := w.NewLab(hc.Hooks, nil)
	if err != nil {
		return nil, err
	}
	defer lab.Close()
	out := &caseOutcome{Case: hc}
	for _, ev := range hc.Walk {
		res := lab.Transition(ev, nil)
		if res.Hang != "" {
			out.Hang, out.HangEvent = res.Hang, ev
			break
		}
		out.Results = append(out.Results, res)
	}
	if out.Hang == "" {
		out.Teardown = lab.Teardown(true)
		if out.Teardown.Hang != "" {
			out.Hang, out.HangEvent = out.Teardown.Hang, "DESTROY"
		}
	}
	out.Occs = lab.Occurrences()
	out.Records = lab.Records()
	out.Anomalies = lab.Anomalies()
	out.GatedOpen = lab.GatedObservedOpen()
	return out, nil
}

func countC08(c *vlib.Ctx, out *caseOutcome) {
	specs := map[string]envlab.HookSpec{}
	awaitNe, tasks, gates := false, false, false
	spelled, far := false, false
	points := map[string]int{}
	for _, h := range out.Case.Hooks {
		specs[h.Name] = h
		if !sameExpr(h.AwaitExpr(), h.Trigger) {
			awaitNe = true
		}
		if h.Kind == envlab.Task {
			tasks = true
		}
		if h.Gate {
			gates = true
		}
		if !strings.HasPrefix(h.Name, "s_") {
			tn, tw := envlab.ParseExpr(h.Trigger)
			points[string(h.Kind)+envlab.Expr(tn, tw)]++
		}
		for _, e := range []string{h.Trigger, h.Await} {
			if e == "" {
				continue
			}
			n, w := envlab.ParseExpr(e)
			if e != envlab.Expr(n, w) {
				spelled = true
			}
			if w < -128 || w > 127 {
				far = true
			}
		}
	}
	eq := false
	for _, n := range points {
		if n > 1 {
			eq = true
		}
	}
	b2i := func(b bool) int64 {
		if b {
			return 1
		}
		return 0
	}
	if out.Case.Overrun {
		c.Count("overrun_cases", 1)
	}
	c.Count("hook_sets", 1)
	c.Count("sets_await_ne_trigger", b2i(awaitNe))
	c.Count("sets_equal_weights", b2i(eq))
	c.Count("sets_hook_tasks", b2i(tasks))
	c.Count("sets_with_gates", b2i(gates))
	c.Count("sets_weights_spelled_differently", b2i(spelled))
	c.Count("sets_weights_beyond_int8", b2i(far))
	c.Count("gated_observed_open", int64(out.GatedOpen))
	c.Count("transitions", int64(len(out.Results)))
	c.Count("records", int64(len(out.Records)))
	ivs, _ := buildInvocations(specs, out.Occs, out.Records, nil)
	c.Count("hook_invocations", int64(len(ivs)))
	for _, iv := range ivs {
		if iv.HasP {
			c.Count("inv_"+string(iv.Spec.Kind)+"_"+iv.Rel, 1)
		}
	}
	var order []string
	for _, r := range out.Records {
		if r.LateStamp {
			c.Count("late_start_stamps", 1)
		}
		if r.Kind == envlab.KHookStart || r.Kind == envlab.KHookEnd {
			order = append(order, fmt.Sprintf("%s%d%s", r.Hook, r.Inv, r.Kind[5:]))
		}
	}
	c.Interleaving(vlib.Hash(caseFingerprint(out.Case), strings.Join(order, ",")))
}

// ---------------------------------------------------------------- the oracle

type bound struct {
	hasL, hasU bool
	L, U       envlab.Pos
}

func boundsOf(r envlab.Record, occs []envlab.Occurrence, idx map[envlab.InvRef]*invocation, specs map[string]envlab.HookSpec) bound {
	var b bound
	both := func(p envlab.Pos) bound { return bound{true, true, p, p} }
	if r.K < 0 || r.K >= len(occs) {
		return b
	}
	occ := occs[r.K]
	switch r.Kind {
	case envlab.KTransBegin, envlab.KTeardownBegin:
		return both(envlab.Pos{K: r.K, M: -1, W: 0})
	case envlab.KTransEnd, envlab.KTeardownEnd:
		return both(envlab.Pos{K: r.K, M: 5, W: 0})
	case envlab.KBodyEnter, envlab.KBodyExit:
		return both(envlab.Pos{K: r.K, M: envlab.MBody, W: 0})
	case envlab.KEnvEvent:
		if occ.Event == "DESTROY" {
			if r.Event != "DESTROY" {
				return b
			}
			if r.Step == "leave_"+occ.Src {
				return both(envlab.Pos{K: r.K, M: envlab.MLeave, W: envlab.WInfLo})
			}
			if r.Step == "DESTROY" {
				return both(envlab.Pos{K: r.K, M: envlab.MLeave, W: envlab.WInfHi})
			}
			return b
		}
		if r.Event != occ.Event || r.Step == "" {
			return b
		}
		m := occ.MomentIndex(r.Step)
		if r.Step == "tasks_"+occ.Event {
			m = envlab.MBody
		}
		if m < 0 {
			return b
		}
		switch r.Msg {
		case "transition step starting":
			return both(envlab.Pos{K: r.K, M: m, W: envlab.WInfLo})
		case "transition step finished":
			return both(envlab.Pos{K: r.K, M: m, W: envlab.WInfHi})
		}
	case envlab.KTaskTrigger:
		if len(r.Group) > 0 {
			if sp, ok := specs[r.Group[0]]; ok {
				tn, tw := envlab.ParseExpr(sp.Trigger)
				if m := occ.MomentIndex(tn); m >= 0 {
					return both(envlab.Pos{K: r.K, M: m, W: tw})
				}
			}
		}
	case envlab.KHookStart:
		if iv := idx[envlab.InvRef{Hook: r.Hook, Inv: r.Inv}]; iv != nil && iv.HasP {
			b.hasL, b.L = true, iv.P
		}
	case envlab.KHookEnd:
		if iv := idx[envlab.InvRef{Hook: r.Hook, Inv: r.Inv}]; iv != nil && iv.HasP && iv.HasA {
			b.hasU, b.U = true, iv.A
		}
	}
	return b
}

func describe(r envlab.Record) string {
	switch r.Kind {
	case envlab.KHookStart, envlab.KHookEnd:
		return fmt.Sprintf("#%d %s %s/%d", r.Seq, r.Kind, r.Hook, r.Inv)
	case envlab.KEnvEvent:
		return fmt.Sprintf("#%d %s %q", r.Seq, r.Step, r.Msg)
	case envlab.KTaskTrigger:
		return fmt.Sprintf("#%d task_trigger %v", r.Seq, r.Group)
	}
	return fmt.Sprintf("#%d %s %s", r.Seq, r.Kind, r.Event)
}

func checkC08(out *caseOutcome) []violation {
	var vs []violation
	add := func(rule, class, detail string) { vs = append(vs, violation{rule, class, detail}) }
	specs := map[string]envlab.HookSpec{}
	for _, h := range out.Case.Hooks {
		specs[h.Name] = h
	}
	occs := out.Occs
	ivs, idx := buildInvocations(specs, occs, out.Records, nil)

	// FIRE: never outside its moment; exactly once per transition that has the moment
	fired := map[string]int{}
	for _, iv := range ivs {
		if !iv.HasP {
			add("FIRE", string(iv.Spec.Kind)+":outside-its-moment",
				fmt.Sprintf("hook %s (trigger %s) fired during %s %s->%s, which has no such moment", iv.Hook, iv.Spec.Trigger, occs[iv.K].Event, occs[iv.K].Src, occs[iv.K].Dst))
			continue
		}
		fired[fmt.Sprintf("%s@%d", iv.Hook, iv.K)]++
	}
	for _, o := range occs {
		if o.Event == "DESTROY" {
			continue
		}
		for _, h := range out.Case.Hooks {
			tn, _ := envlab.ParseExpr(h.Trigger)
			if o.MomentIndex(tn) < 0 {
				continue
			}
			if n := fired[fmt.Sprintf("%s@%d", h.Name, o.K)]; n != 1 {
				cl := "not-fired"
				if n > 1 {
					cl = "fired-more-than-once"
				}
				add("FIRE", string(h.Kind)+":"+cl, fmt.Sprintf("hook %s (trigger %s) fired %d times in transition #%d %s", h.Name, h.Trigger, n, o.K, o.Event))
			}
		}
	}

	// ORDER / INTERVAL
	var maxL envlab.Pos
	var maxRec envlab.Record
	haveL := false
	reported := map[string]bool{}
	for _, r := range out.Records {
		b := boundsOf(r, occs, idx, specs)
		if b.hasU && haveL && b.U.Less(maxL) {
			var rule, class, detail string
			if r.Kind == envlab.KHookEnd {
				iv := idx[envlab.InvRef{Hook: r.Hook, Inv: r.Inv}]
				rule, class = "INTERVAL", string(iv.Spec.Kind)+":"+iv.Rel
				detail = fmt.Sprintf("hook %s/%d (trigger %s at %v, await %s at %v) was still open when the state machine had already reached %v (%s); it returned only at #%d",
					iv.Hook, iv.Inv, iv.Spec.Trigger, iv.P, iv.Spec.AwaitExpr(), iv.A, maxL, describe(maxRec), r.Seq)
			} else {
				rule = "ORDER"
				who := "fsm"
				if maxRec.Kind == envlab.KHookStart {
					who = string(maxRec.HookKind) + "-start"
				}
				what := "moments-out-of-order"
				if b.U.K == maxL.K && b.U.M == maxL.M {
					what = "weights-out-of-order"
				}
				class = who + ":" + what
				detail = fmt.Sprintf("%s shows the state machine at %v, but %s had already shown it at %v", describe(r), b.U, describe(maxRec), maxL)
			}
			if !reported[rule+class] {
				reported[rule+class] = true
				add(rule, class, detail)
			}
		}
		if b.hasL && (!haveL || maxL.Less(b.L)) {
			maxL, maxRec, haveL = b.L, r, true
		}
	}

	// BUILTIN
	for _, iv := range ivs {
		if !iv.HasP || iv.Spec.Kind != envlab.Call {
			continue
		}
		tn, tw := envlab.ParseExpr(iv.Spec.Trigger)
		var key string
		switch tn {
		case "before_START_ACTIVITY":
			key = "run_number"
		case "after_START_ACTIVITY":
			key = "run_start_completion_time_ms"
		case "before_STOP_ACTIVITY":
			key = "run_end_time_ms"
		case "after_STOP_ACTIVITY":
			key = "run_end_completion_time_ms"
		default:
			continue
		}
		_, set := iv.Vars[key]
		if tw >= 0 && !set {
			add("BUILTIN", tn+":nonnegative-weight-before-builtin-work",
				fmt.Sprintf("hook %s/%d at %s ran before %s was set", iv.Hook, iv.Inv, iv.Spec.Trigger, key))
		}
		if tw < 0 && set && iv.Rel == relSame {
			add("BUILTIN", tn+":negative-weight-after-builtin-work",
				fmt.Sprintf("synchronous hook %s/%d at %s ran after %s was set (%s)", iv.Hook, iv.Inv, iv.Spec.Trigger, key, iv.Vars[key]))
		}
	}

	// PENDING (reported once per await moment and case: a call that stays uncollected shows at every later quiescent point)
	pendingReported := map[string]bool{}
	for _, r := range out.Records {
		if r.Kind != envlab.KPending || r.K < 0 || r.K >= len(occs) || occs[r.K].Event == "DESTROY" {
			continue
		}
		model := map[string][]*invocation{}
		overdue := map[string][]*invocation{}
		for _, iv := range ivs {
			if iv.Spec.Kind != envlab.Call || !iv.HasP || iv.K > r.K {
				continue
			}
			an, _ := envlab.ParseExpr(iv.Spec.AwaitExpr())
			if !iv.HasA || iv.A.K > r.K {
				model[an] = append(model[an], iv)
			} else {
				overdue[an] = append(overdue[an], iv)
			}
		}
		names := map[string]bool{}
		for k := range model {
			names[k] = true
		}
		for k := range r.Pending {
			names[k] = true
		}
		var sorted []string
		for k := range names {
			sorted = append(sorted, k)
		}
		sort.Strings(sorted)
		for _, an := range sorted {
			want, got := len(model[an]), r.Pending[an]
			if got == want || pendingReported[an] {
				continue
			}
			pendingReported[an] = true
			if got > want {
				add("PENDING", "uncollected:call:"+leastOrdinary(overdue[an]),
					fmt.Sprintf("after transition #%d %s: %d calls pending for await moment %s, the reference expects %d (started calls whose await point was reached: %s)",
						r.K, occs[r.K].Event, got, an, want, invList(overdue[an])))
			} else {
				add("PENDING", "lost:call:"+leastOrdinary(model[an]),
					fmt.Sprintf("after transition #%d %s: %d calls pending for await moment %s, the reference expects %d (%s)", r.K, occs[r.K].Event, got, an, want, invList(model[an])))
			}
		}
	}

	// LEAK
	if out.Teardown.Leaked > 0 {
		add("LEAK", "call-neither-collected-nor-cancelled", fmt.Sprintf("%d hook call goroutines stay parked on their result after teardown", out.Teardown.Leaked))
	}

	// EQUAL (tasks)
	for _, r := range out.Records {
		if r.Kind != envlab.KTaskTrigger || len(r.Group) == 0 {
			continue
		}
		first := specs[r.Group[0]]
		mixed := false
		got := map[string]bool{}
		for _, n := range r.Group {
			got[n] = true
			if !sameExpr(specs[n].Trigger, first.Trigger) {
				mixed = true
			}
		}
		if mixed {
			add("EQUAL", "tasks-of-different-points-in-one-trigger", fmt.Sprintf("trigger command for %v", r.Group))
			continue
		}
		for _, h := range out.Case.Hooks {
			if h.Kind == envlab.Task && sameExpr(h.Trigger, first.Trigger) && !got[h.Name] {
				add("EQUAL", "tasks-of-one-point-not-triggered-together", fmt.Sprintf("hook task %s (trigger %s) missing from trigger command %v", h.Name, h.Trigger, r.Group))
			}
		}
	}
	// EQUAL (calls) at proper checkpoints
	maxL, haveL = envlab.Pos{}, false
	for _, r := range out.Records {
		b := boundsOf(r, occs, idx, specs)
		if b.hasL && (!haveL || maxL.Less(b.L)) {
			maxL, haveL = b.L, true
		}
		if r.Kind != envlab.KCheckpoint || r.Released == nil {
			continue
		}
		rel := idx[*r.Released]
		if rel == nil || rel.Spec.Kind != envlab.Call || !rel.HasP || !rel.HasA || rel.A.Less(maxL) {
			continue
		}
		points := []envlab.Pos{rel.A}
		if rel.K == r.K {
			points = append(points, rel.P)
		}
		for _, h := range out.Case.Hooks {
			if h.Kind != envlab.Call {
				continue
			}
			tn, tw := envlab.ParseExpr(h.Trigger)
			m := occs[r.K].MomentIndex(tn)
			if m < 0 {
				continue
			}
			hp := envlab.Pos{K: r.K, M: m, W: tw}
			for _, p := range points {
				if hp != p {
					continue
				}
				started := false
				for _, iv := range ivs {
					if iv.Hook == h.Name && iv.K == r.K && iv.StartSeq < r.Seq {
						started = true
					}
				}
				if !started {
					add("EQUAL", "calls-of-one-point-not-started-together",
						fmt.Sprintf("state machine parked waiting for %s/%d at %v, but call %s triggered at the same point %v has not started", rel.Hook, rel.Inv, rel.A, h.Name, hp))
				}
			}
		}
	}
	return vs
}

// leastOrdinary names the trigger/await relation of the candidates that is the
// least ordinary one (the per-moment pending count cannot tell which of the
// candidate calls is the one that stayed behind).
func leastOrdinary(ivs []*invocation) string {
	for _, rel := range []string{relSamePass, relCrossPass, relLaterMom, relLaterTr, relNever, relEarlier, relSame} {
		for _, iv := range ivs {
			if iv.Rel == rel {
				return rel
			}
		}
	}
	return "none"
}

func sameExpr(a, b string) bool {
	an, aw := envlab.ParseExpr(a)
	bn, bw := envlab.ParseExpr(b)
	return an == bn && aw == bw
}

func invList(ivs []*invocation) string {
	var s []string
	for _, iv := range ivs {
		s = append(s, fmt.Sprintf("%s/%d trigger %s await %s", iv.Hook, iv.Inv, iv.Spec.Trigger, iv.Spec.AwaitExpr()))
	}
	return strings.Join(s, "; ")
}
