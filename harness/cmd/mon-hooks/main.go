// mon-hooks: runtime monitors for
//
//	C08  hooks run at their declared moment, in weight order, awaited where declared
//	C09  only critical hook failures affect a transition, exactly as documented
//
// Both drive the real Environment through verif/harness/envlab (see the comment
// at the top of that package for what is real and what is simulated).
//
//	mon-hooks C08|C09 --seed S --tier quick|thorough --batch i --nbatch n --out dir
//	mon-hooks C08|C09 --replay violation.json        (re-runs the recorded case only, prints its records)
package main

import (
	"fmt"
	"os"
)

func main() {
	if len(os.Args) < 2 {
		fmt.Fprintln(os.Stderr, "usage: mon-hooks C08|C09 [flags]")
		os.Exit(2)
	}
	switch os.Args[1] {
	case "C08":
		runC08()
	case "C09":
		runC09()
	default:
		fmt.Fprintln(os.Stderr, "unknown property", os.Args[1])
		os.Exit(2)
	}
}
