package main

// Reference model shared by C08 and C09: where in the documented order a hook
// invocation is triggered (P) and where it has to be collected (A), computed
// from the hook's declared trigger/await expressions and the realised walk.

import (
	"fmt"
	"sort"

	"verif/harness/envlab"
)

type invocation struct {
	Hook     string
	Inv      int
	Spec     envlab.HookSpec
	StartSeq int64
	EndSeq   int64 // 0 = no end record
	EndErr   string
	K        int
	P        envlab.Pos
	HasP     bool // trigger moment exists in the occurrence it fired in
	A        envlab.Pos
	HasA     bool // the walk reaches the await point at or after P
	Rel      string
	Vars     map[string]string
	Gated    bool
}

const (
	relSame      = "same-point"
	relSamePass  = "same-pass-later-weight"
	relCrossPass = "cross-pass-later-weight"
	relLaterMom  = "later-moment"
	relLaterTr   = "later-transition"
	relNever     = "never-reached"
	relEarlier   = "earlier-weight-same-moment"
)

// visited(p) tells whether the walk really went through point p
// (C08: always; C09: after a critical failure the rest of the pass, and for
// before_/leave_ the rest of the transition, is skipped).
type visitedFunc func(p envlab.Pos) bool

func findAwait(occs []envlab.Occurrence, p envlab.Pos, aname string, aw int, visited visitedFunc) (envlab.Pos, bool) {
	for k := p.K; k < len(occs); k++ {
		if occs[k].Event == "DESTROY" {
			// teardown is not a transition of the statement: a call whose await point is
			// only reached by the teardown's leave_<state> pass may be collected there or
			// cancelled (LEAK rule), both are accepted
			continue
		}
		m := occs[k].MomentIndex(aname)
		if m < 0 {
			continue
		}
		c := envlab.Pos{K: k, M: m, W: aw}
		if c.Less(p) {
			continue
		}
		if visited != nil && !visited(c) {
			continue
		}
		return c, true
	}
	return envlab.Pos{}, false
}

func relation(p, a envlab.Pos, hasA bool) string {
	switch {
	case !hasA:
		return relNever
	case a == p:
		return relSame
	case a.K == p.K && a.M == p.M:
		if (p.W < 0) == (a.W < 0) {
			return relSamePass
		}
		return relCrossPass
	case a.K == p.K:
		return relLaterMom
	}
	return relLaterTr
}

// buildInvocations pairs hook_start / hook_end records and positions them.
func buildInvocations(specs map[string]envlab.HookSpec, occs []envlab.Occurrence, recs []envlab.Record, visited visitedFunc) ([]*invocation, map[envlab.InvRef]*invocation) {
	var out []*invocation
	idx := map[envlab.InvRef]*invocation{}
	for _, r := range recs {
		switch r.Kind {
		case envlab.KHookStart:
			sp, ok := specs[r.Hook]
			if !ok {
				continue
			}
			iv := &invocation{Hook: r.Hook, Inv: r.Inv, Spec: sp, StartSeq: r.Seq, K: r.K, Vars: r.Vars, Gated: r.Gated}
			if r.K >= 0 && r.K < len(occs) {
				tn, tw := envlab.ParseExpr(sp.Trigger)
				if m := occs[r.K].MomentIndex(tn); m >= 0 {
					iv.P, iv.HasP = envlab.Pos{K: r.K, M: m, W: tw}, true
					an, aw := envlab.ParseExpr(sp.AwaitExpr())
					iv.A, iv.HasA = findAwait(occs, iv.P, an, aw, visited)
					iv.Rel = relation(iv.P, iv.A, iv.HasA)
					if !iv.HasA && an == tn && aw < tw {
						iv.Rel = relEarlier
					}
				}
			}
			out = append(out, iv)
			idx[envlab.InvRef{Hook: r.Hook, Inv: r.Inv}] = iv
		case envlab.KHookEnd:
			if iv := idx[envlab.InvRef{Hook: r.Hook, Inv: r.Inv}]; iv != nil && iv.EndSeq == 0 {
				iv.EndSeq, iv.EndErr = r.Seq, r.Err
			}
		}
	}
	return out, idx
}

func relSet(ivs []*invocation) string {
	m := map[string]bool{}
	for _, iv := range ivs {
		m[string(iv.Spec.Kind)+":"+iv.Rel] = true
	}
	var ks []string
	for k := range m {
		ks = append(ks, k)
	}
	sort.Strings(ks)
	s := ""
	for i, k := range ks {
		if i > 0 {
			s += ","
		}
		s += k
	}
	return s
}

func momentKind(m int) string {
	switch m {
	case envlab.MBefore:
		return "before"
	case envlab.MLeave:
		return "leave"
	case envlab.MBody:
		return "body"
	case envlab.MEnter:
		return "enter"
	case envlab.MAfter:
		return "after"
	}
	return fmt.Sprintf("m%d", m)
}
