package main

import (
	"fmt"
	"math/rand"
	"sort"
	"strings"

	"verif/harness/envlab"
)

var weightSet = []int{-100, -1, 0, 1, 5, 100}

// neverMoments are moment names that no generated walk reaches.
var neverMoments = []string{"after_EXIT", "enter_ERROR", "before_GO_ERROR", "leave_ERROR", "before_RECOVER", "enter_DONE"}

// HookCase is one generated workload (also the replay witness).
type HookCase struct {
	Prop       string            `json:"prop"`
	Idx        int64             `json:"idx"`
	Walk       []string          `json:"walk"`
	Hooks      []envlab.HookSpec `json:"hooks"`
	GoMaxProcs int               `json:"gomaxprocs,omitempty"`
	// Overrun (C08): calls that take far longer than their declared timeout and succeed
	Overrun bool `json:"overrun,omitempty"`
	// C09 only
	Target     int      `json:"target,omitempty"`     // index in Walk of the transition with the failing hooks
	FailPoint  string   `json:"fail_point,omitempty"` // trigger expression shared by the failing hooks
	Failing    []string `json:"failing,omitempty"`    // names of the failing hooks
	FollowUp   bool     `json:"follow_up,omitempty"`  // attempt one more transition after the target
	Enumerated bool     `json:"enumerated,omitempty"`
	LateReport bool     `json:"late_report,omitempty"` // a hook task reports (exit 0) after its timeout while a sibling is pending
	Sibling    bool     `json:"sibling,omitempty"`
	// Stale: a call with await != trigger whose result waits for its await point longer than the
	// hook's own (short) timeout; PauseMs = lab sleep before the target transition, BodySleepMs =
	// the target's task transition sleeps that long
	// Eval: call hooks whose expression cannot be evaluated
	Eval bool `json:"eval,omitempty"`
	// TwoAttempt: a hook task times out in a first attempt, its exit-0 report arrives through
	// NotifyEvent when no hook phase is running, then the hook task is triggered again (Second =
	// what it does then)
	TwoAttempt  bool             `json:"two_attempt,omitempty"`
	Second      envlab.Behaviour `json:"second,omitempty"`
	Stale       bool             `json:"stale,omitempty"`
	PauseMs     int              `json:"pause_ms,omitempty"`
	BodySleepMs int              `json:"body_sleep_ms,omitempty"` // one failing critical call + gated healthy call(s) at the same await point // part of the exhaustive single-failure enumeration
}

func genWalk(r *rand.Rand, maxLen int) []string {
	n := 2 + r.Intn(maxLen-1)
	state := "STANDBY"
	var walk []string
	for len(walk) < n {
		evs := envlab.LegalEvents(state)
		if len(evs) == 0 {
			break
		}
		ev := evs[0]
		if len(evs) == 2 { // CONFIGURED: START_ACTIVITY or RESET
			if r.Intn(100) < 35 {
				ev = evs[1]
			}
		}
		walk = append(walk, ev)
		state = envlab.Destination(ev, state)
	}
	return walk
}

// occurrencesOf lists the occurrences of a walk in which every transition succeeds.
func occurrencesOf(walk []string) []envlab.Occurrence {
	state := "STANDBY"
	var occs []envlab.Occurrence
	for i, ev := range walk {
		d := envlab.Destination(ev, state)
		occs = append(occs, envlab.Occurrence{K: i, Event: ev, Src: state, Dst: d})
		state = d
	}
	return occs
}

type momentRef struct {
	K, M int
	Name string
}

func momentsOf(occs []envlab.Occurrence) []momentRef {
	var out []momentRef
	for _, o := range occs {
		for m, n := range o.Moments() {
			if n != "" {
				out = append(out, momentRef{o.K, m, n})
			}
		}
	}
	return out
}

// pickWeight: many small weights (equal and neighbouring weights stay frequent), the
// round ones of the handbook, and some far out (the handbook's own examples go
// to -666; operation_order.md uses -200), down to -1000 / up to +1000.
func pickWeight(r *rand.Rand) int {
	switch x := r.Intn(100); {
	case x < 45:
		return []int{-1, 0, 1, 5, -5, 0, 1, -1}[r.Intn(8)]
	case x < 72:
		return []int{-100, -50, -45, -41, -10, 7, 8, 9, 10, 50, 64, 100}[r.Intn(12)]
	case x < 90:
		return []int{-1000, -666, -200, -129, -128, -127, 127, 128, 200, 255, 256, 500, 1000}[r.Intn(13)]
	}
	return r.Intn(2001) - 1000
}

func laterWeight(r *rand.Rand, w int) int {
	if r.Intn(3) == 0 {
		return w + 1 + r.Intn(3) // a neighbour
	}
	var c []int
	for _, x := range append(append([]int{}, weightSet...), 7, 8, 9, 10, 50, 128, 200, 1000) {
		if x > w {
			c = append(c, x)
		}
	}
	if len(c) == 0 {
		return w + 100
	}
	return c[r.Intn(len(c))]
}

// spell writes name and weight the way a workflow author might: plain, zero-padded,
// zero as "+0" / "-0" / nothing. The value meant is the decimal one (envlab.ParseExpr).
func spell(r *rand.Rand, name string, w int) string {
	if w == 0 {
		return name + []string{"", "", "+0", "-0", "+00", "-000"}[r.Intn(6)]
	}
	sign, a := "+", w
	if w < 0 {
		sign, a = "-", -w
	}
	switch r.Intn(10) {
	case 0, 1, 2:
		return fmt.Sprintf("%s%s0%d", name, sign, a)
	case 3:
		return fmt.Sprintf("%s%s00%d", name, sign, a)
	}
	return fmt.Sprintf("%s%s%d", name, sign, a)
}

// genHooks draws 1..maxHooks hooks over the moments of the walk. No hook fails.
func genHooks(r *rand.Rand, walk []string, maxHooks int, prefix string, allowGates bool) []envlab.HookSpec {
	occs := occurrencesOf(walk)
	moms := momentsOf(occs)
	n := 1 + r.Intn(maxHooks)
	var hooks []envlab.HookSpec
	for i := 0; i < n; i++ {
		h := envlab.HookSpec{Name: fmt.Sprintf("%s%d", prefix, i), Kind: envlab.Call}
		if r.Intn(100) < 30 {
			h.Kind = envlab.Task
		}
		var tm momentRef
		w := pickWeight(r)
		switch {
		case len(hooks) > 0 && r.Intn(100) < 35:
			// same trigger point as an earlier hook (equal weights)
			prev := hooks[r.Intn(len(hooks))]
			name, pw := envlab.ParseExpr(prev.Trigger)
			w = pw
			tm = momentRef{-1, -1, name}
			for _, m := range moms {
				if m.Name == name {
					tm = m
					break
				}
			}
		case r.Intn(100) < 8:
			tm = momentRef{-1, -1, neverMoments[r.Intn(len(neverMoments))]}
		default:
			tm = moms[r.Intn(len(moms))]
			if len(hooks) > 0 && r.Intn(100) < 25 {
				// same moment as an earlier hook, neighbouring weight
				name, pw := envlab.ParseExpr(hooks[r.Intn(len(hooks))].Trigger)
				for _, m := range moms {
					if m.Name == name {
						tm, w = m, pw+[]int{-2, -1, 1, 2}[r.Intn(4)]
						break
					}
				}
			}
		}
		h.Trigger = spell(r, tm.Name, w)
		// await
		ak := r.Intn(100)
		if h.Kind == envlab.Task && r.Intn(100) < 75 {
			ak = 0
		}
		switch {
		case ak < 35 || tm.K < 0:
			if r.Intn(2) == 0 {
				h.Await = spell(r, tm.Name, w) // explicit, same point as omitted (maybe spelled differently)
			}
		case ak < 55:
			h.Await = spell(r, tm.Name, laterWeight(r, w))
		case ak < 70:
			var c []momentRef
			for _, m := range moms {
				if m.K == tm.K && m.M > tm.M {
					c = append(c, m)
				}
			}
			if len(c) == 0 {
				h.Await = spell(r, tm.Name, laterWeight(r, w))
			} else {
				h.Await = spell(r, c[r.Intn(len(c))].Name, pickWeight(r))
			}
		case ak < 85:
			var c []momentRef
			for _, m := range moms {
				if m.K > tm.K {
					c = append(c, m)
				}
			}
			if len(c) == 0 {
				h.Await = spell(r, neverMoments[r.Intn(len(neverMoments))], pickWeight(r))
			} else {
				h.Await = spell(r, c[r.Intn(len(c))].Name, pickWeight(r))
			}
		default:
			h.Await = spell(r, neverMoments[r.Intn(len(neverMoments))], pickWeight(r))
		}
		switch r.Intn(3) {
		case 0:
			t := true
			h.Critical = &t
		case 1:
			f := false
			h.Critical = &f
		}
		if allowGates {
			if h.Kind == envlab.Call && r.Intn(100) < 40 || h.Kind == envlab.Task && r.Intn(100) < 30 {
				h.Gate = true
			}
		}
		hooks = append(hooks, h)
	}
	return hooks
}

// sentinels are plain synchronous probes at weight 0 of every moment of the walk.
func sentinels(walk []string) []envlab.HookSpec {
	seen := map[string]bool{}
	var out []envlab.HookSpec
	f := false
	for _, m := range momentsOf(occurrencesOf(walk)) {
		if seen[m.Name] {
			continue
		}
		seen[m.Name] = true
		out = append(out, envlab.HookSpec{Name: "s_" + m.Name, Kind: envlab.Call, Trigger: m.Name, Critical: &f})
	}
	return out
}

func caseFingerprint(c HookCase) string {
	var parts []string
	for _, h := range c.Hooks {
		parts = append(parts, fmt.Sprintf("%s|%s|%s|%v|%s|%v", h.Kind, h.Trigger, h.AwaitExpr(), h.Gate, h.Behaviour, h.IsCritical()))
	}
	sort.Strings(parts)
	return strings.Join(c.Walk, ",") + "#" + strings.Join(parts, ";") + "#" + c.FailPoint
}
