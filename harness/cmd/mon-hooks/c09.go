package main

// C09 — only critical hook failures affect a transition, exactly as documented.
//
// Workload: the C08 generator (background hooks that never fail) plus 1..4 hooks
// that fail at one point (moment, weight) of one target transition. Failure
// kinds: call reports __call_error, call exceeds its timeout, hook task exits
// non-zero, hook task terminated involuntarily, hook task never reports
// (environment-side timeout), trigger command cannot be sent.
//
// Reference outcome (from the statement; DESIGN.md "### C09" soundness notes):
//
//	no critical hook among the failing ones   -> error nil, destination state, body and every hook ran
//	critical failure at before_/leave_        -> error, source state, no body, no hook of a later point,
//	                                             error text names every critical failure (or, in the
//	                                             documented count form, counts them) and no non-critical one
//	critical failure at enter_/after_         -> error (same text rule), destination state, hooks of the
//	                                             remaining moments still ran
//
// "Failing hooks" of a point include every hook task of the trigger command that
// could not be sent (the command is per point, not per task). After the target
// transition one more transition is attempted with no failure scripted (retry of
// the same event if it was cancelled, otherwise the next legal event); it is
// judged by the first line of the table. A child that dies is reported by the
// parent as CRASH; a transition that never returns is reported as HANG (bounded
// progress, see reportHang) and ends the batch.
//
// Further case classes: evaluation-error cases (genEval), two-attempt cases (genTwoAttempt), stale-result cases (genStale), late-report cases (a hook task reports exit 0 after the
// environment has accounted it as timed out, a gated sibling of the same trigger
// command still pending: the outcome must be the timeout outcome) and sibling
// cases (one failing critical call, healthy gated calls awaited at the same
// point). For every case two clauses of C08 that do not depend on failures are
// checked as well: INTERVAL (a started hook has returned before the state machine
// passes its await point; points skipped after a critical failure are taken out)
// and LEAK (a started call is collected or cancelled by the teardown).

import (
	"fmt"
	"math/rand"
	"regexp"
	"runtime"
	"sort"
	"strings"
	"time"

	"verif/harness/envlab"
	"verif/harness/vlib"
)

var failKinds = []envlab.Behaviour{envlab.CallError, envlab.CallTimeout, envlab.TaskExitNonZero, envlab.TaskInvoluntary, envlab.TaskTimeout, envlab.TriggerError}
var failMoments = []int{envlab.MBefore, envlab.MLeave, envlab.MEnter, envlab.MAfter}

func kindOf(b envlab.Behaviour) envlab.HookKind {
	// (everything that is not a call failure is a hook task failure)
	if b == envlab.CallError || b == envlab.CallTimeout {
		return envlab.Call
	}
	return envlab.Task
}

var prefixes = map[string][][]string{
	"DEPLOY":         {{}},
	"CONFIGURE":      {{"DEPLOY"}, {"DEPLOY", "CONFIGURE", "RESET"}},
	"RESET":          {{"DEPLOY", "CONFIGURE"}, {"DEPLOY", "CONFIGURE", "START_ACTIVITY", "STOP_ACTIVITY"}},
	"START_ACTIVITY": {{"DEPLOY", "CONFIGURE"}, {"DEPLOY", "CONFIGURE", "START_ACTIVITY", "STOP_ACTIVITY"}},
	"STOP_ACTIVITY":  {{"DEPLOY", "CONFIGURE", "START_ACTIVITY"}, {"DEPLOY", "CONFIGURE", "START_ACTIVITY", "STOP_ACTIVITY", "START_ACTIVITY"}},
}
var targetEvents = []string{"CONFIGURE", "START_ACTIVITY", "STOP_ACTIVITY", "RESET", "DEPLOY"}

// c09Sizes: indices [0,singles) enumerate single failures, then multi-failure sets;
// the last `late` cases are late-report cases, before them `sib` sibling cases (one
// failing critical call, gated healthy calls at the same await point), before
// them `stale` cases (a call result that waits for its await point longer than the
// hook's timeout).
func c09Sizes(tier string) (singles, total, late, sib, stale, two, eval int) {
	if tier == "thorough" {
		return 2400, 10000, 300, 600, 600, 600, 800
	}
	return 96, 424, 16, 24, 24, 24, 40
}

// evalKinds: hook expressions that cannot be evaluated, each a failure of the call on
// the unchanged tree (checked one by one; the error text carries the expression).
// NOT among them: a plain undefined variable as argument, verif.Echo(undefined) -
// the template environment reads it as empty and the call succeeds.
var evalKinds = []struct{ Name, Format string }{
	{"unknown-plugin", "dcs_%s.StartOfRun()"},
	{"unknown-function", "verif.NoSuchFunc_%s()"},
	{"field-of-undefined-variable", "verif.Echo(undefined_%s.field)"},
	{"malformed", "verif.Probe(%s"},
	{"wrong-arguments", "verif.Probe(\"%s\")"},
}

// genEval: one (sometimes two) call hooks whose `func:` expression cannot be evaluated,
// critical or not, failing point at each of the four moments of a target whose
// moments occur nowhere else in the walk (the expression fails in every
// invocation), awaited where triggered or triggered earlier in the same
// transition. An evaluation error is a failure of that call: ordinary table.
func genEval(r *rand.Rand, hc HookCase, v int) HookCase {
	hc.Eval = true
	m := failMoments[v%4]
	critical := (v/4)%2 == 0
	sub := (v / 8) % len(evalKinds)
	evs := []string{"DEPLOY", "CONFIGURE", "START_ACTIVITY"}
	ev := evs[r.Intn(len(evs))]
	prefix := prefixes[ev][0]
	hc.Walk = append(append([]string{}, prefix...), ev)
	hc.Target = len(prefix)
	occs := occurrencesOf(hc.Walk)
	tocc := occs[hc.Target]
	w := pickWeight(r)
	hc.FailPoint = envlab.Expr(tocc.Moments()[m], w)
	n := 1
	if r.Intn(4) == 0 {
		n = 2
	}
	for i := 0; i < n; i++ {
		name := fmt.Sprintf("e%d", i)
		k := evalKinds[(sub+i)%len(evalKinds)]
		h := envlab.HookSpec{Name: name, Kind: envlab.Call, Behaviour: envlab.CallEvalError, Func: fmt.Sprintf(k.Format, name)}
		if (v/8+i)%2 == 0 {
			h.Return = "ret_" + name // the call declares a variable for its result; the evaluation fails all the same
		}
		h.Trigger = spell(r, tocc.Moments()[m], w)
		switch r.Intn(3) {
		case 0:
			h.Await = spell(r, tocc.Moments()[m], w)
		case 1:
			// triggered earlier in the same transition, awaited at the failing point
			h.Await = spell(r, tocc.Moments()[m], w)
			var earlier []int
			for _, mi := range []int{envlab.MBefore, envlab.MLeave, envlab.MEnter, envlab.MAfter} {
				if mi < m {
					earlier = append(earlier, mi)
				}
			}
			if len(earlier) > 0 && r.Intn(2) == 0 {
				h.Trigger = spell(r, tocc.Moments()[earlier[r.Intn(len(earlier))]], pickWeight(r))
			} else {
				h.Trigger = spell(r, tocc.Moments()[m], w-1-r.Intn(50))
			}
		}
		if critical || i > 0 && r.Intn(2) == 0 {
			if r.Intn(2) == 0 {
				t := true
				h.Critical = &t
			}
		} else {
			f := false
			h.Critical = &f
		}
		hc.Hooks = append(hc.Hooks, h)
		hc.Failing = append(hc.Failing, name)
	}
	cont := append([]string{}, hc.Walk...)
	if evs := envlab.LegalEvents(tocc.Dst); len(evs) > 0 {
		cont = append(cont, evs[0])
	}
	if nb := r.Intn(5); nb > 0 {
		hc.Hooks = append(hc.Hooks, genHooks(r, cont, nb, "b", r.Intn(2) == 0)...)
	}
	if r.Intn(3) == 0 {
		hc.Hooks = append(hc.Hooks, sentinels(cont)...)
	}
	r.Shuffle(len(hc.Hooks), func(i, j int) { hc.Hooks[i], hc.Hooks[j] = hc.Hooks[j], hc.Hooks[i] })
	return hc
}

// twoTimeout is the timeout trait of the hook task of a two-attempt case.
const twoTimeout = 250 * time.Millisecond

// revisit returns a shortest sequence of legal events from state whose last
// transition has the moment `name` (nil if two steps do not suffice).
func revisit(r *rand.Rand, state, name string) []string {
	var found [][]string
	for _, e1 := range envlab.LegalEvents(state) {
		d1 := envlab.Destination(e1, state)
		if (envlab.Occurrence{Event: e1, Src: state, Dst: d1}).MomentIndex(name) >= 0 {
			found = append(found, []string{e1})
		}
	}
	if len(found) == 0 {
		for _, e1 := range envlab.LegalEvents(state) {
			d1 := envlab.Destination(e1, state)
			for _, e2 := range envlab.LegalEvents(d1) {
				if (envlab.Occurrence{Event: e2, Src: d1, Dst: envlab.Destination(e2, d1)}).MomentIndex(name) >= 0 {
					found = append(found, []string{e1, e2})
				}
			}
		}
	}
	if len(found) == 0 {
		return nil
	}
	return found[r.Intn(len(found))]
}

// genTwoAttempt: hook task "t" (timeout twoTimeout) at one of the four moments of the
// target. Attempt 1: it never reports, the environment accounts the timeout.
// Then its exit-0 report arrives through Environment.NotifyEvent while no hook
// phase is running. Attempt 2: the walk goes on until the moment comes again
// (retry of the cancelled transition, the way round through the inverse
// transition, or another transition that has the same moment) and "t" exits
// non-zero / never reports / succeeds. Each attempt is judged by the outcome
// table with what "t" did in THAT attempt: a report that came too late belongs
// to no later run.
func genTwoAttempt(r *rand.Rand, hc HookCase, v int) HookCase {
	hc.TwoAttempt = true
	hc.FollowUp = false
	m := failMoments[v%4]
	critical := (v/4)%2 == 0
	hc.Second = []envlab.Behaviour{envlab.TaskExitNonZero, envlab.TaskTimeout, envlab.OK}[(v/8)%3]
	for try := 0; ; try++ {
		ev := targetEvents[r.Intn(len(targetEvents))]
		prefix := prefixes[ev][0]
		walk := append(append([]string{}, prefix...), ev)
		occs := occurrencesOf(walk)
		tocc := occs[len(prefix)]
		name := tocc.Moments()[m]
		inPrefix := false
		for _, o := range occs[:len(prefix)] {
			inPrefix = inPrefix || o.MomentIndex(name) >= 0
		}
		after := tocc.Dst
		if critical && (m == envlab.MBefore || m == envlab.MLeave) {
			after = tocc.Src
		}
		if inPrefix || revisit(r, after, name) == nil {
			if try < 50 {
				continue
			}
		}
		hc.Walk, hc.Target = walk, len(prefix)
		hc.FailPoint = envlab.Expr(name, pickWeight(r))
		break
	}
	t := envlab.HookSpec{Name: "t", Kind: envlab.Task, Trigger: hc.FailPoint, Timeout: twoTimeout.String(), Behaviour: envlab.TaskTimeout}
	if critical {
		if r.Intn(2) == 0 {
			c := true
			t.Critical = &c
		}
	} else {
		f := false
		t.Critical = &f
	}
	hc.Hooks = []envlab.HookSpec{t}
	hc.Failing = []string{"t"}
	// background: calls only (another hook task's phase would take the stale report away)
	cont := append(append([]string{}, hc.Walk...), envlab.LegalEvents(occurrencesOf(hc.Walk)[hc.Target].Dst)...)
	if len(cont) > len(hc.Walk)+1 {
		cont = cont[:len(hc.Walk)+1]
	}
	for _, b := range genHooks(r, cont, 1+r.Intn(3), "b", r.Intn(2) == 0) {
		if b.Kind == envlab.Call && r.Intn(2) == 0 {
			hc.Hooks = append(hc.Hooks, b)
		}
	}
	if r.Intn(3) == 0 {
		hc.Hooks = append(hc.Hooks, sentinels(cont)...)
	}
	r.Shuffle(len(hc.Hooks), func(i, j int) { hc.Hooks[i], hc.Hooks[j] = hc.Hooks[j], hc.Hooks[i] })
	return hc
}

func execTwoAttempt(w *envlab.World, hc HookCase) (*caseOutcome, *envlab.Lab, error) {
	if hc.GoMaxProcs > 0 {
		prev := runtime.GOMAXPROCS(hc.GoMaxProcs)
		defer runtime.GOMAXPROCS(prev)
	}
	lab, err := w.NewLab(hc.Hooks, nil)
	if err != nil {
		return nil, nil, err
	}
	defer lab.Close()
	out := &caseOutcome{Case: hc, FailAt: map[int]envlab.Behaviour{}}
	finish := func() (*caseOutcome, *envlab.Lab, error) {
		out.Occs = lab.Occurrences()
		out.Records = lab.Records()
		out.Anomalies = lab.Anomalies()
		out.GatedOpen = lab.GatedObservedOpen()
		out.Spurious = lab.SpuriousTimeouts()
		return out, lab, nil
	}
	step := func(ev string) (envlab.TransResult, bool) {
		res := lab.Transition(ev, nil)
		if res.Hang != "" {
			out.Hang, out.HangEvent = res.Hang, ev
			return res, false
		}
		out.Results = append(out.Results, res)
		return res, true
	}
	var last envlab.TransResult
	for i, ev := range hc.Walk {
		if i == hc.Target {
			out.FailAt[i] = envlab.TaskTimeout
		}
		res, ok := step(ev)
		if !ok {
			return finish()
		}
		last = res
		if i < hc.Target && res.Err != nil {
			out.Teardown = lab.Teardown(true)
			return finish()
		}
	}
	// the report of the first run comes now, too late, with no hook phase running
	lab.LateNotify("t")
	lab.SetBehaviour("t", hc.Second, false, 0)
	name, _ := envlab.ParseExpr(hc.FailPoint)
	r := rand.New(rand.NewSource(hc.Idx*7919 + 13))
	path := revisit(r, last.State, name)
	for i, ev := range path {
		if i == len(path)-1 {
			out.FailAt[last.Occ.K+1] = hc.Second
		}
		res, ok := step(ev)
		if !ok {
			return finish()
		}
		last = res
		if i < len(path)-1 && res.Err != nil {
			break
		}
	}
	if len(path) > 0 {
		out.SecondDone = true
	}
	// whatever invokes "t" again (the teardown's leave_<state> pass) gets no report
	lab.SetBehaviour("t", envlab.TaskTimeout, false, 0)
	out.Teardown = lab.Teardown(true)
	if out.Teardown.Hang != "" {
		out.Hang, out.HangEvent = out.Teardown.Hang, "DESTROY"
	}
	return finish()
}

// staleTimeout is the (short) timeout trait of the call of a stale case; its
// result then waits stalePause for the await point.
const (
	staleTimeout = 150 * time.Millisecond
	stalePause   = 400 * time.Millisecond
)

// genStale: a call hook with await != trigger and a short timeout, whose await
// point is reached stalePause after the call returned: either the call is
// triggered in the transition before the target and the lab pauses between the
// two (await at any of the four moments of the target), or it is triggered at
// before_<event> of the target and the task transition takes that long (await at
// enter_/after_). The call fails (__call_error), succeeds, or itself takes longer
// than its timeout and reports that; critical or not. How long a result waits
// must not matter: judged by the ordinary outcome table at the await point.
func genStale(r *rand.Rand, hc HookCase, v int) HookCase {
	hc.Stale = true
	m := failMoments[v%4]
	critical := (v/4)%2 == 0
	beh := []envlab.Behaviour{envlab.CallError, envlab.OK, envlab.CallTimeout}[(v/8)%3]
	evs := []string{"CONFIGURE", "START_ACTIVITY", "STOP_ACTIVITY", "RESET"}
	ev := evs[r.Intn(len(evs))]
	ps := prefixes[ev]
	prefix := ps[r.Intn(len(ps))]
	hc.Walk = append(append([]string{}, prefix...), ev)
	hc.Target = len(prefix)
	occs := occurrencesOf(hc.Walk)
	tocc, pocc := occs[hc.Target], occs[hc.Target-1]
	hc.FailPoint = envlab.Expr(tocc.Moments()[m], pickWeight(r))
	h := envlab.HookSpec{Name: "st", Kind: envlab.Call, Await: hc.FailPoint, Timeout: staleTimeout.String(), Behaviour: beh}
	var tname string
	if (m == envlab.MEnter || m == envlab.MAfter) && r.Intn(3) == 0 {
		tname = tocc.Moments()[envlab.MBefore]
		hc.BodySleepMs = int(stalePause / time.Millisecond)
	} else {
		tname = pocc.Moments()[[]int{envlab.MBefore, envlab.MLeave, envlab.MEnter, envlab.MAfter}[r.Intn(4)]]
		hc.PauseMs = int(stalePause / time.Millisecond)
	}
	h.Trigger = envlab.Expr(tname, pickWeight(r))
	// the script applies to the invocation whose result the target awaits
	inv := 0
	for _, o := range occs[:hc.Target+1] {
		if o.MomentIndex(tname) >= 0 {
			inv++
		}
	}
	h.OnlyInv = inv
	if critical {
		if r.Intn(2) == 0 {
			t := true
			h.Critical = &t
		}
	} else {
		f := false
		h.Critical = &f
	}
	hc.Hooks = []envlab.HookSpec{h}
	if beh != envlab.OK {
		hc.Failing = []string{h.Name}
	}
	cont := append([]string{}, hc.Walk...)
	if nb := r.Intn(4); nb > 0 {
		hc.Hooks = append(hc.Hooks, genHooks(r, cont, nb, "b", r.Intn(2) == 0)...)
	}
	if r.Intn(3) == 0 {
		hc.Hooks = append(hc.Hooks, sentinels(cont)...)
	}
	r.Shuffle(len(hc.Hooks), func(i, j int) { hc.Hooks[i], hc.Hooks[j] = hc.Hooks[j], hc.Hooks[i] })
	return hc
}

func genC09(c *vlib.Ctx, idx int64, singles, total, late, sib, stale, two, eval int) HookCase {
	r := c.SubRand(idx)
	hc := HookCase{Prop: "C09", Idx: idx, FollowUp: true}
	hc.GoMaxProcs = 1
	if idx%2 == 1 {
		hc.GoMaxProcs = 16
	}
	var kinds []envlab.Behaviour
	var crits []bool
	var m int
	isLate := int(idx) >= total-late
	isSib := !isLate && int(idx) >= total-late-sib
	if !isLate && !isSib && int(idx) >= total-late-sib-stale {
		return genStale(r, hc, int(idx)-(total-late-sib-stale))
	}
	if base := total - late - sib - stale - two - eval; int(idx) >= base && int(idx) < base+eval {
		return genEval(r, hc, int(idx)-base)
	}
	if int(idx) >= total-late-sib-stale-two && int(idx) < total-late-sib-stale {
		return genTwoAttempt(r, hc, int(idx)-(total-late-sib-stale-two))
	}
	if isLate {
		// a hook task that reports (exit 0) after the environment has accounted it as timed
		// out, while a gated sibling of the same trigger command is still running: the
		// outcome is the timeout outcome whatever arrives later
		hc.LateReport = true
		hc.FollowUp = false
		kinds = []envlab.Behaviour{envlab.TaskLateReport}
		crits = []bool{r.Intn(4) != 0}
		m = failMoments[int(idx)%4]
	} else if isSib {
		// one failing critical call and healthy gated calls awaited at the same point
		hc.Sibling = true
		kinds = []envlab.Behaviour{envlab.CallError}
		crits = []bool{true}
		m = failMoments[int(idx)%4]
	} else if int(idx) < singles {
		hc.Enumerated = true
		combo := int(idx) % 48
		kinds = []envlab.Behaviour{failKinds[combo%6]}
		m = failMoments[(combo/6)%4]
		crits = []bool{combo/24 == 0}
		// the two halves of the enumeration run with different GOMAXPROCS
		if (int(idx)/48)%2 == 1 {
			hc.GoMaxProcs = 16
		} else {
			hc.GoMaxProcs = 1
		}
	} else {
		n := 2 + r.Intn(3)
		m = failMoments[r.Intn(4)]
		allCalls := r.Intn(100) < 55
		for i := 0; i < n; i++ {
			var k envlab.Behaviour
			if allCalls {
				k = envlab.CallError
				if r.Intn(5) == 0 {
					k = envlab.CallTimeout
				}
			} else {
				k = failKinds[r.Intn(len(failKinds))]
			}
			kinds = append(kinds, k)
			crits = append(crits, r.Intn(100) < 60)
		}
	}
	ev := targetEvents[r.Intn(len(targetEvents))]
	ps := prefixes[ev]
	prefix := ps[r.Intn(len(ps))]
	hc.Walk = append(append([]string{}, prefix...), ev)
	hc.Target = len(prefix)
	occs := occurrencesOf(hc.Walk)
	tocc := occs[hc.Target]
	hasTaskTimeout := false
	for _, k := range kinds {
		if k == envlab.TaskTimeout || k == envlab.TaskLateReport {
			hasTaskTimeout = true
		}
	}
	countEarlier := func(name string) int {
		n := 0
		for _, o := range occs[:hc.Target] {
			if o.MomentIndex(name) >= 0 {
				n++
			}
		}
		return n
	}
	if hasTaskTimeout {
		// The timeout of a hook task is a static trait and the environment arms a real
		// timer with it on every invocation. A task scripted to time out gets a short
		// one, so it must never be invoked with the OK script (a termination that
		// arrives after the timer is a different fault, see TaskLateReport): such
		// cases use a target whose four moments occur nowhere in its (shortest) prefix.
		evs := []string{"DEPLOY", "CONFIGURE", "START_ACTIVITY"}
		ev = evs[r.Intn(len(evs))]
		prefix = prefixes[ev][0]
		hc.Walk = append(append([]string{}, prefix...), ev)
		hc.Target = len(prefix)
		occs = occurrencesOf(hc.Walk)
		tocc = occs[hc.Target]
	}
	mname := tocc.Moments()[m]
	earlier := countEarlier(mname)
	w := pickWeight(r)
	hc.FailPoint = envlab.Expr(mname, w)
	for i, k := range kinds {
		h := envlab.HookSpec{Name: fmt.Sprintf("f%d", i), Kind: kindOf(k), Trigger: spell(r, mname, w), Behaviour: k, OnlyInv: earlier + 1}
		if r.Intn(2) == 0 {
			h.Await = spell(r, mname, w) // same point, maybe spelled differently
		}
		switch k {
		case envlab.CallTimeout:
			h.Timeout = "3ms"
		case envlab.TaskTimeout, envlab.TaskLateReport:
			// same script whenever invoked (the teardown's leave_<state> pass may invoke it again)
			h.Timeout = "30ms"
			h.OnlyInv = 0
		}
		if crits[i] {
			if r.Intn(2) == 0 {
				t := true
				h.Critical = &t
			} // else omitted: documented default is critical
		} else {
			f := false
			h.Critical = &f
		}
		hc.Hooks = append(hc.Hooks, h)
		hc.Failing = append(hc.Failing, h.Name)
	}
	if isLate {
		f := false
		hc.Hooks = append(hc.Hooks, envlab.HookSpec{Name: "sib", Kind: envlab.Task, Trigger: hc.FailPoint, Critical: &f, Gate: true})
	}
	if isSib {
		// role order decides the order in which the calls are listed for the await:
		// healthy calls after the failing one (always at least one), sometimes one before,
		// sometimes one started at an earlier point of the same transition
		var pre, post []envlab.HookSpec
		f := false
		post = append(post, envlab.HookSpec{Name: "sibA", Kind: envlab.Call, Trigger: hc.FailPoint, Gate: true})
		if r.Intn(2) == 0 {
			post = append(post, envlab.HookSpec{Name: "sibB", Kind: envlab.Call, Trigger: hc.FailPoint, Await: hc.FailPoint, Critical: &f, Gate: r.Intn(2) == 0})
		}
		if r.Intn(3) == 0 {
			pre = append(pre, envlab.HookSpec{Name: "sibC", Kind: envlab.Call, Trigger: hc.FailPoint, Critical: &f, Gate: true})
		}
		first := envlab.Expr(tocc.Moments()[envlab.MBefore], -100)
		if r.Intn(2) == 0 && !sameExpr(first, hc.FailPoint) {
			pre = append(pre, envlab.HookSpec{Name: "early", Kind: envlab.Call, Trigger: first, Await: hc.FailPoint, Critical: &f, Gate: true})
		}
		hc.Hooks = append(append(pre, hc.Hooks...), post...)
		if r.Intn(3) == 0 {
			hc.Hooks = append(hc.Hooks, sentinels(hc.Walk)...)
		}
		return hc
	}
	// background: never-failing hooks over the walk and a plausible continuation
	cont := append([]string{}, hc.Walk...)
	st := tocc.Dst
	for i := 0; i < 2; i++ {
		if evs := envlab.LegalEvents(st); len(evs) > 0 {
			cont = append(cont, evs[0])
			st = envlab.Destination(evs[0], st)
		}
	}
	if nb := r.Intn(6); nb > 0 {
		hc.Hooks = append(hc.Hooks, genHooks(r, cont, nb, "b", r.Intn(2) == 0)...)
	}
	if r.Intn(3) == 0 {
		hc.Hooks = append(hc.Hooks, sentinels(cont)...)
	}
	// shuffle role order so that failing hooks are not always first
	r.Shuffle(len(hc.Hooks), func(i, j int) { hc.Hooks[i], hc.Hooks[j] = hc.Hooks[j], hc.Hooks[i] })
	return hc
}

func runC09() {
	c := vlib.Start("C09")
	defer c.Finish()
	w, err := envlab.Setup()
	if err != nil {
		c.Inconclusive("envlab setup: " + err.Error())
		return
	}
	if c.Replay != "" {
		var hc HookCase
		if err := readReplayCase(c, &hc); err != nil {
			c.Inconclusive("replay: " + err.Error())
			return
		}
		out, lab, err := execC09(w, hc)
		if err != nil {
			c.Inconclusive(err.Error())
			return
		}
		dumpOutcome(out, checkC09(out, lab))
		return
	}
	singles, total, late, sib, stale, two, eval := c09Sizes(c.Tier)
	// interleave: batch b takes indices b, b+nbatch, ... so that every batch has singles and multis
	nb := c.NBatch
	if nb < 1 {
		nb = 1
	}
	first := true
	for i := c.Batch; i < total; i += nb {
		hc := genC09(c, int64(i), singles, total, late, sib, stale, two, eval)
		id := c.Case(hc)
		out, lab, err := execC09(w, hc)
		if err != nil {
			c.Inconclusive(fmt.Sprintf("case %d: %v", i, err))
			continue
		}
		if reportHang(c, out, id) {
			return // the environment is stuck with its transition mutex held: stop the batch cleanly
		}
		if out.Anomalies > 0 {
			c.Inconclusive(fmt.Sprintf("case %d: %d lab anomalies: %s", i, out.Anomalies, firstAnomaly(out.Records)))
			c.Count("cases_with_lab_anomalies", 1)
			continue // what the lab could not drive properly is not judged
		}
		c.Nontrivial(vlib.Hash(caseFingerprint(hc)))
		countC09(c, out)
		for _, v := range checkC09(out, lab) {
			c.Violation(v.Rule, v.Class, v.Detail, id, witnessOf(out, v))
		}
		if first {
			c.Sample(map[string]interface{}{"walk": hc.Walk, "fail_point": hc.FailPoint, "hooks": hc.Hooks})
			first = false
		}
	}
}

func execC09(w *envlab.World, hc HookCase) (*caseOutcome, *envlab.Lab, error) {
	if hc.TwoAttempt {
		return execTwoAttempt(w, hc)
	}
	if hc.GoMaxProcs > 0 {
		prev := runtime.GOMAXPROCS(hc.GoMaxProcs)
		defer runtime.GOMAXPROCS(prev)
	}
	lab, err := w.NewLab(hc.Hooks, nil)
	if err != nil {
		return nil, nil, err
	}
	defer lab.Close()
	out := &caseOutcome{Case: hc}
	finish := func() (*caseOutcome, *envlab.Lab, error) {
		out.Occs = lab.Occurrences()
		out.Records = lab.Records()
		out.Anomalies = lab.Anomalies()
		out.GatedOpen = lab.GatedObservedOpen()
		out.LateUnconfirmed = lab.LateUnconfirmed()
		out.Spurious = lab.SpuriousTimeouts()
		return out, lab, nil
	}
	for i, ev := range hc.Walk {
		var body envlab.BodyFunc
		if i == hc.Target {
			// stale cases: let the result of the already finished call wait (a sleep of the
			// lab, not a deciding clock: the expected outcome does not depend on it)
			if hc.PauseMs > 0 {
				time.Sleep(time.Duration(hc.PauseMs) * time.Millisecond)
			}
			if hc.BodySleepMs > 0 {
				d := time.Duration(hc.BodySleepMs) * time.Millisecond
				body = func() error { time.Sleep(d); return nil }
			}
		}
		res := lab.Transition(ev, body)
		if res.Hang != "" {
			out.Hang, out.HangEvent = res.Hang, ev
			return finish()
		}
		out.Results = append(out.Results, res)
		if res.Occ.K < hc.Target && res.Err != nil {
			break // prefix failed: judged, nothing more to drive
		}
	}
	if hc.FollowUp && len(out.Results) == len(hc.Walk) {
		last := out.Results[len(out.Results)-1]
		next := ""
		if last.State == last.Occ.Src {
			next = last.Occ.Event
		} else if evs := envlab.LegalEvents(last.State); len(evs) > 0 {
			next = evs[0]
		}
		// a hook task scripted to time out carries a short static timeout: do not invoke it again
		if next != "" {
			fn, _ := envlab.ParseExpr(hc.FailPoint)
			nocc := envlab.Occurrence{Event: next, Src: last.State, Dst: envlab.Destination(next, last.State)}
			for _, h := range hc.Hooks {
				if (h.Behaviour == envlab.TaskTimeout || h.Behaviour == envlab.TaskLateReport) && nocc.MomentIndex(fn) >= 0 {
					next = ""
				}
				if h.Behaviour == envlab.CallEvalError { // fails whenever invoked
					tn, _ := envlab.ParseExpr(h.Trigger)
					if nocc.MomentIndex(tn) >= 0 || nocc.MomentIndex(fn) >= 0 {
						next = ""
					}
				}
			}
		}
		if next != "" {
			res := lab.Transition(next, nil)
			if res.Hang != "" {
				out.Hang, out.HangEvent = res.Hang, next
				return finish()
			}
			out.Results = append(out.Results, res)
		}
	}
	out.Teardown = lab.Teardown(true)
	if out.Teardown.Hang != "" {
		out.Hang, out.HangEvent = out.Teardown.Hang, "DESTROY"
	}
	return finish()
}

func countC09(c *vlib.Ctx, out *caseOutcome) {
	hc := out.Case
	specs := map[string]envlab.HookSpec{}
	for _, h := range hc.Hooks {
		specs[h.Name] = h
	}
	c.Count("hook_sets", 1)
	c.Count("transitions", int64(len(out.Results)))
	c.Count(fmt.Sprintf("gomaxprocs_%d", hc.GoMaxProcs), 1)
	if len(out.Results) > len(hc.Walk) {
		c.Count("follow_ups", 1)
	}
	tn, _ := envlab.ParseExpr(hc.FailPoint)
	mk := strings.SplitN(tn, "_", 2)[0]
	anyCrit, calls := false, 0
	for _, n := range hc.Failing {
		h := specs[n]
		c.Count("fail_"+string(h.Behaviour), 1)
		c.Count("fail_at_"+mk, 1)
		if h.IsCritical() {
			anyCrit = true
			c.Count("fail_critical", 1)
		} else {
			c.Count("fail_noncritical", 1)
		}
		if h.Kind == envlab.Call {
			calls++
		}
	}
	if hc.Enumerated {
		c.Count("single_failure_cases", 1)
	}
	if hc.LateReport {
		c.Count("late_report_cases", 1)
		if out.LateUnconfirmed == 0 {
			c.Count("late_report_cases_judged", 1)
		}
	}
	if hc.Sibling {
		c.Count("sibling_cases", 1)
	}
	if out.Spurious > 0 {
		c.Count("cases_lab_slower_than_hook_timeout", 1)
	}
	if hc.TwoAttempt {
		c.Count("two_attempt_cases", 1)
		if out.SecondDone && out.Spurious == 0 {
			c.Count("two_attempt_cases_judged", 1)
			c.Count("two_attempt_second_"+string(hc.Second), 1)
		}
	}
	if hc.Eval {
		c.Count("eval_error_cases", 1)
		for _, h := range hc.Hooks {
			if h.Behaviour == envlab.CallEvalError {
				for _, k := range evalKinds {
					if h.Func == fmt.Sprintf(k.Format, h.Name) {
						c.Count("eval_error_"+k.Name, 1)
					}
				}
				if !sameExpr(h.AwaitExpr(), h.Trigger) {
					c.Count("eval_error_await_later", 1)
				}
			}
		}
	}
	if hc.Stale {
		c.Count("stale_result_cases", 1)
		if len(hc.Failing) > 0 {
			c.Count("stale_result_cases_failing", 1)
		}
	}
	if len(hc.Failing) > 1 {
		c.Count("multi_failure_sets", 1)
		if calls > 1 {
			c.Count("multi_failure_sets_2plus_calls", 1)
		}
	}
	if anyCrit {
		c.Count("sets_with_critical_failure", 1)
	} else {
		c.Count("sets_without_critical_failure", 1)
	}
	if len(out.Results) > hc.Target {
		if out.Results[hc.Target].Err != nil {
			c.Count("target_transitions_with_error", 1)
		}
	}
	var order []string
	for _, r := range out.Records {
		if r.LateStamp {
			c.Count("late_start_stamps", 1)
		}
		if r.Kind == envlab.KHookStart || r.Kind == envlab.KHookEnd {
			order = append(order, fmt.Sprintf("%s%d%s", r.Hook, r.Inv, r.Kind[5:]))
		}
	}
	c.Interleaving(vlib.Hash(caseFingerprint(hc), strings.Join(order, ",")))
}

var countForm = regexp.MustCompile(`(\d+) critical hooks failed`)

type failure struct {
	Hook     string
	Kind     envlab.Behaviour
	Critical bool
	Token    string // must appear in the error text when the failure is named
}

// failuresOf returns the hooks that fail in occurrence k according to the scripts.
func failuresOf(out *caseOutcome, k int, lab *envlab.Lab) []failure {
	hc := out.Case
	if hc.TwoAttempt {
		// what the hook task did in this occurrence (first attempt, second attempt, nothing in between)
		beh, ok := out.FailAt[k]
		if !ok || beh == envlab.OK || beh == "" {
			return nil
		}
		for _, h := range hc.Hooks {
			if h.Name == "t" {
				return []failure{{"t", beh, h.IsCritical(), lab.TaskName("t")}}
			}
		}
		return nil
	}
	if k != hc.Target {
		return nil
	}
	specs := map[string]envlab.HookSpec{}
	for _, h := range hc.Hooks {
		specs[h.Name] = h
	}
	var fs []failure
	trigErr := ""
	for _, h := range hc.Hooks { // role order: the handler reports the first one
		if h.Behaviour == envlab.TriggerError && sameExpr(h.Trigger, hc.FailPoint) && trigErr == "" {
			trigErr = envlab.FailureText(h.Name, envlab.TriggerError)
		}
	}
	for _, h := range hc.Hooks {
		// a call's failure is detected where it is awaited, a hook task's where it is triggered
		at := h.Trigger
		if h.Kind == envlab.Call {
			at = h.AwaitExpr()
		}
		if !sameExpr(at, hc.FailPoint) {
			continue
		}
		if h.Kind == envlab.Task && trigErr != "" {
			fs = append(fs, failure{h.Name, envlab.TriggerError, h.IsCritical(), trigErr})
			continue
		}
		if h.Behaviour == "" || h.Behaviour == envlab.OK {
			continue
		}
		tok := envlab.FailureText(h.Name, h.Behaviour)
		if h.Behaviour == envlab.CallEvalError {
			tok = h.Func // the evaluation error quotes the expression
		}
		if h.Kind == envlab.Task {
			tok = lab.TaskName(h.Name) // exit code, involuntary termination, timeout (also when a report arrives later)
		}
		fs = append(fs, failure{h.Name, h.Behaviour, h.IsCritical(), tok})
	}
	return fs
}

func kindsClass(fs []failure, crit bool) string {
	m := map[string]bool{}
	for _, f := range fs {
		if f.Critical == crit {
			m[string(f.Kind)] = true
		}
	}
	var ks []string
	for k := range m {
		ks = append(ks, k)
	}
	sort.Strings(ks)
	return strings.Join(ks, "+")
}

func checkC09(out *caseOutcome, lab *envlab.Lab) []violation {
	var vs []violation
	if out.Case.LateReport && out.LateUnconfirmed > 0 {
		// the lab could not confirm that the timeout had been accounted before the late
		// report was handed over (log message not seen): only "the core survives" is required
		return nil
	}
	if out.Spurious > 0 {
		// the environment timed out a hook task that was scripted to report: the lab was
		// slower than a short hook timeout; what happened is then not what the case describes
		return nil
	}
	add := func(rule, class, detail string) { vs = append(vs, violation{rule, class, detail}) }
	hc := out.Case
	specs := map[string]envlab.HookSpec{}
	for _, h := range hc.Hooks {
		specs[h.Name] = h
	}
	occs := out.Occs
	// points the walk did not go through: after a critical failure the rest of the pass,
	// and at before_/leave_ the rest of the transition
	critAt := map[int]envlab.Pos{}
	for _, res := range out.Results {
		anyCrit := false
		for _, f := range failuresOf(out, res.Occ.K, lab) {
			anyCrit = anyCrit || f.Critical
		}
		tn, tw := envlab.ParseExpr(hc.FailPoint)
		if m := res.Occ.MomentIndex(tn); anyCrit && m >= 0 {
			critAt[res.Occ.K] = envlab.Pos{K: res.Occ.K, M: m, W: tw}
		}
	}
	visited := func(p envlab.Pos) bool {
		x, ok := critAt[p.K]
		if !ok || !x.Less(p) {
			return true
		}
		if x.M == envlab.MBefore || x.M == envlab.MLeave {
			return false
		}
		return !(p.M == x.M && (p.W < 0) == (x.W < 0))
	}
	ivs, idx := buildInvocations(specs, occs, out.Records, visited)

	// Two clauses of C08 that hold whatever fails: the state machine does not pass the
	// await point of a started hook while that hook is still running (INTERVAL, same
	// monotonicity check as C08 with the skipped points taken out), and a started call
	// is collected or cancelled by the teardown (LEAK).
	{
		var maxL envlab.Pos
		var maxRec envlab.Record
		haveL := false
		seen := map[string]bool{}
		for _, r := range out.Records {
			b := boundsOf(r, occs, idx, specs)
			if b.hasU && haveL && b.U.Less(maxL) && r.Kind == envlab.KHookEnd {
				iv := idx[envlab.InvRef{Hook: r.Hook, Inv: r.Inv}]
				class := string(iv.Spec.Kind) + ":" + iv.Rel
				if !seen[class] {
					seen[class] = true
					add("INTERVAL", class, fmt.Sprintf("hook %s/%d (trigger %s at %v, await %s at %v) was still open when the state machine had already reached %v (%s); it returned only at #%d",
						iv.Hook, iv.Inv, iv.Spec.Trigger, iv.P, iv.Spec.AwaitExpr(), iv.A, maxL, describe(maxRec), r.Seq))
				}
			}
			if b.hasL && (!haveL || maxL.Less(b.L)) {
				maxL, maxRec, haveL = b.L, r, true
			}
		}
		if out.Teardown.Leaked > 0 {
			add("LEAK", "call-neither-collected-nor-cancelled", fmt.Sprintf("%d hook call goroutines stay parked on their result after teardown", out.Teardown.Leaked))
		}
	}
	bodyRan := map[int]bool{}
	for _, r := range out.Records {
		if r.Kind == envlab.KBodyEnter {
			bodyRan[r.K] = true
		}
	}
	startedIn := func(k int, hook string) bool {
		for _, iv := range ivs {
			if iv.K == k && iv.Hook == hook {
				return true
			}
		}
		return false
	}
	for _, res := range out.Results {
		occ := res.Occ
		k := occ.K
		fs := failuresOf(out, k, lab)
		var crit, noncrit []failure
		for _, f := range fs {
			if f.Critical {
				crit = append(crit, f)
			} else {
				noncrit = append(noncrit, f)
			}
		}
		role := "target"
		if k < hc.Target {
			role = "prefix"
		} else if k > hc.Target {
			role = "follow-up"
		}
		second := ""
		if hc.TwoAttempt && k > hc.Target {
			role = "after-late-report"
			second = ":after-late-report"
		}
		if len(crit) == 0 {
			tag := role + ":noncritical-" + kindsClass(fs, false)
			if len(fs) > 1 {
				tag = role + ":noncritical-multi"
			}
			if len(fs) == 0 {
				tag = role + ":no-failure"
			}
			if res.Err != nil {
				add("OUTCOME", "error-without-critical-failure:"+tag,
					fmt.Sprintf("transition #%d %s returned %q although no critical hook failed (failing: %v)", k, occ.Event, res.ErrText, fs))
			}
			if res.State != occ.Dst {
				add("STATE", "not-destination-without-critical-failure:"+tag, fmt.Sprintf("transition #%d %s ended in %s, expected %s", k, occ.Event, res.State, occ.Dst))
			}
			if res.Err == nil && res.State == occ.Dst {
				if !bodyRan[k] {
					add("RAN", "body-skipped:"+tag, fmt.Sprintf("transition #%d %s: the task transition did not run", k, occ.Event))
				}
				for _, h := range hc.Hooks {
					if h.Behaviour == envlab.CallEvalError {
						continue // its plugin function is never reached: no record to expect
					}
					tn, _ := envlab.ParseExpr(h.Trigger)
					if occ.MomentIndex(tn) >= 0 && !startedIn(k, h.Name) {
						add("RAN", "hook-skipped:"+tag, fmt.Sprintf("transition #%d %s: hook %s (%s) did not run", k, occ.Event, h.Name, h.Trigger))
						break
					}
				}
			}
			continue
		}
		// critical failure(s) at the failing point
		tn, tw := envlab.ParseExpr(hc.FailPoint)
		m := occ.MomentIndex(tn)
		x := envlab.Pos{K: k, M: m, W: tw}
		mk := momentKind(m)
		tag := mk + ":" + kindsClass(fs, true)
		if len(crit) > 1 {
			tag = fmt.Sprintf("%s:multi", mk)
		}
		tag += second
		if res.Err == nil {
			add("OUTCOME", "nil-error-despite-critical-failure:"+tag,
				fmt.Sprintf("transition #%d %s returned nil although critical hooks failed at %s: %v", k, occ.Event, hc.FailPoint, crit))
		} else {
			// text: every critical failure named, or counted in the documented form; no non-critical one named
			missing := []string{}
			for _, f := range crit {
				if !strings.Contains(res.ErrText, f.Token) {
					missing = append(missing, f.Hook)
				}
			}
			cm := countForm.FindStringSubmatch(res.ErrText)
			counted := cm != nil && cm[1] == fmt.Sprint(len(crit))
			if len(missing) > 0 && !counted {
				add("ERRTEXT", "critical-failure-not-reported:"+tag,
					fmt.Sprintf("transition #%d %s: error %q does not account for critical failures of %v (expected each message, or the count form with %d)", k, occ.Event, res.ErrText, missing, len(crit)))
			} else if cm != nil && !counted {
				add("ERRTEXT", "wrong-count:"+tag, fmt.Sprintf("transition #%d %s: error %q counts %s critical failures, %d failed", k, occ.Event, res.ErrText, cm[1], len(crit)))
			}
			critTokens := map[string]bool{}
			for _, f := range crit {
				critTokens[f.Token] = true
			}
			for _, f := range noncrit {
				if !critTokens[f.Token] && f.Token != "" && strings.Contains(res.ErrText, f.Token) {
					add("ERRTEXT", "noncritical-failure-reported:"+mk,
						fmt.Sprintf("transition #%d %s: error %q names the non-critical failure of %s", k, occ.Event, res.ErrText, f.Hook))
				}
			}
		}
		if m == envlab.MBefore || m == envlab.MLeave {
			if res.State != occ.Src {
				add("STATE", "left-source-state:"+tag, fmt.Sprintf("transition #%d %s ended in %s, expected source state %s", k, occ.Event, res.State, occ.Src))
			}
			if bodyRan[k] {
				add("RAN", "task-transition-ran-after-cancel:"+tag, fmt.Sprintf("transition #%d %s: the task transition ran although %s failed critically", k, occ.Event, hc.FailPoint))
			}
			for _, iv := range ivs {
				if iv.K == k && iv.HasP && x.Less(iv.P) {
					add("RAN", "later-hook-ran-after-cancel:"+tag,
						fmt.Sprintf("transition #%d %s: hook %s (%s at %v) ran although the transition was cancelled at %s %v", k, occ.Event, iv.Hook, iv.Spec.Trigger, iv.P, hc.FailPoint, x))
					break
				}
			}
		} else {
			if res.State != occ.Dst {
				add("STATE", "destination-not-kept:"+tag, fmt.Sprintf("transition #%d %s ended in %s, expected destination state %s", k, occ.Event, res.State, occ.Dst))
			}
			for _, h := range hc.Hooks {
				hn, _ := envlab.ParseExpr(h.Trigger)
				if h.Behaviour == envlab.CallEvalError {
					continue
				}
				if hm := occ.MomentIndex(hn); hm > m && !startedIn(k, h.Name) {
					add("RAN", "remaining-moment-skipped:"+tag,
						fmt.Sprintf("transition #%d %s: hook %s (%s) of a later moment did not run after the failure at %s", k, occ.Event, h.Name, h.Trigger, hc.FailPoint))
					break
				}
			}
		}
	}
	return vs
}

var _ = rand.Int
