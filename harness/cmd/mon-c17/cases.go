package main

// Case generation for C17. A "pass" is a fixed enumeration of templates
// (task kind x request pattern x child behaviour); the seed only moves the
// request instants and secondary child parameters. quick = one pass, thorough =
// as many passes as fit the case count. Enumerating (instead of drawing) the
// templates keeps the set of (kind, scenario) pairs - and hence the witness
// classes - identical for every seed.

import (
	"fmt"
	"math/rand"
	"os"
)

const (
	tokenVar   = "VERIF_C17_TOKEN"
	pidfileVar = "VERIF_C17_PIDFILE"
)

// Timeouts of the code under test (executor/executable/controllabletask.go,
// task.go). Only used for watchdog bounds (x3) and observation windows.
const (
	codeDoneTimeoutMs    = 1000  // DONE_TIMEOUT
	codeSigtermTimeoutMs = 2000  // SIGTERM_TIMEOUT
	codeSigintTimeoutMs  = 3000  // SIGINT_TIMEOUT
	codeKillTransMs      = 5000  // KILL_TRANSITION_TIMEOUT (GetState + each of <=3 walk-down transitions)
	codeStartupTimeoutMs = 30000 // startupTimeout; GRPC_DIAL_TIMEOUT is the same
	escalationMs         = codeDoneTimeoutMs + codeSigtermTimeoutMs + codeSigintTimeoutMs
	ctlKillWorstMs       = codeKillTransMs*4 + escalationMs
	boundFactor          = 3
)

type ChildSpec struct {
	Impl          string `json:"impl"` // script | fakeocc
	Shell         bool   `json:"shell"`
	LifeMs        int    `json:"life_ms,omitempty"` // exits on its own after this (0 = never)
	ExitCode      int    `json:"exit_code,omitempty"`
	SelfSignal    bool   `json:"self_signal,omitempty"` // ends its life by SIGKILLing itself
	Ignore        bool   `json:"ignore_signals,omitempty"`
	Grandchild    string `json:"grandchild,omitempty"` // ""|plain|ignoring
	ListenAfterMs int    `json:"listen_after_ms,omitempty"`
	ReadyAfterMs  int    `json:"ready_after_ms,omitempty"`
	NeverReady    string `json:"never_ready,omitempty"` // ""|nolisten|nostate
	StartState    string `json:"start_state,omitempty"`
	DieOn         string `json:"die_on,omitempty"`
	HangOn        string `json:"hang_on,omitempty"`
	Linger        bool   `json:"linger,omitempty"`
	TermExit      int    `json:"term_exit"`               // -1: die by the signal
	DieByKill     bool   `json:"die_by_kill,omitempty"`   // the death on DieOn/HangGetState is a SIGKILL to itself
	DieDelayMs    int    `json:"die_delay_ms,omitempty"`  // delay between the fatal request and the death
	HangGetState  bool   `json:"hang_getstate,omitempty"` // after the idle state was reported once GetState never answers, the first such call is fatal
	Wrap          bool   `json:"wrap,omitempty"`          // the task leader is a wrapper; the device is its child and SURVIVES the wrapper's death, keeping the connection open
	SlowOn        string `json:"slow_on,omitempty"`       // this device step takes SlowMs and is then performed normally
	SlowMs        int    `json:"slow_ms,omitempty"`
	User          bool   `json:"user,omitempty"`            // the command info names a user (the current one): prepareTaskCmd's credential branch
	NoCommandData bool   `json:"no_command_data,omitempty"` // TaskInfo.Data is empty: NewTask returns nil
	BadCommand    bool   `json:"bad_command,omitempty"`
	Noise         bool   `json:"noise,omitempty"`
}

type Step struct {
	Op    string `json:"op"` // launch transition kill trigger sleep await sleep-rel
	Evt   string `json:"evt,omitempty"`
	Src   string `json:"src,omitempty"`
	Dst   string `json:"dst,omitempty"`
	Ms    int    `json:"ms,omitempty"`    // sleep: duration; await: timeout; sleep-rel: offset from the child's start
	What  string `json:"what,omitempty"`  // await: ready | terminal | child-started
	N     int    `json:"n,omitempty"`     // await terminal/child-started: how many
	Async bool   `json:"async,omitempty"` // do not wait for the op to return before the next step
	// C16B: the transition whose answer is compared with the device's real state
	Judged bool `json:"judged,omitempty"`
	// C16B: response timeout written into the request (0 = the default of the command, 90 s): shorter than
	// the slow device step, so the core has stopped waiting long before the device is done
	CmdTimeoutMs int `json:"cmd_timeout_ms,omitempty"`
	// storm: transition requests with a payload of PayloadKB (arguments map) fired in the background
	// at these offsets (ms from the step), each through UnmarshalTransition + Transition like any other
	Offsets   []int `json:"offsets,omitempty"`
	PayloadKB int   `json:"payload_kb,omitempty"`
}

type Case struct {
	Prop string `json:"prop,omitempty"` // "" = C17, "C16B"
	// ViaHandlers: launch/transition/trigger/kill go through the real executor/handlers.go
	ViaHandlers bool `json:"via_handlers,omitempty"`
	// AgentDown (handler mode): status updates the executor cannot deliver (its Send to the agent fails)
	AgentDown *AgentDown `json:"agent_down,omitempty"`
	Idx       int        `json:"idx"`
	Kind      string     `json:"kind"` // basic hook direct fairmq
	Scenario  string     `json:"scenario"`
	Variant   string     `json:"variant"`
	Child     ChildSpec  `json:"child"`
	Steps     []Step     `json:"steps"`
	// KilledOnRequest: the child never ends on its own, so any end of it is caused
	// by the stop/kill request and a FAILED report after the request is a violation.
	KilledOnRequest bool `json:"killed_on_request"`
	// JudgeSurvivors: the last request is a Kill or (basic) a STOP.
	JudgeSurvivors bool `json:"judge_survivors"`
	ObserveMs      int  `json:"observe_ms"` // silence window kept after everything returned
	// filled by the batch child
	UserName string `json:"user_name,omitempty"` // Child.User and the harness runs as root
	Port     int    `json:"port,omitempty"`
	Token    string `json:"token,omitempty"`
	Dir      string `json:"dir,omitempty"`
	Bin      string `json:"bin,omitempty"`
}

func (c *Case) controllable() bool { return c.Kind == "direct" || c.Kind == "fairmq" }

func (c *Case) opBoundMs(op string) int {
	if c.controllable() && op == "kill" {
		return boundFactor * ctlKillWorstMs
	}
	if c.controllable() && (op == "transition" || op == "bigtransition") {
		return boundFactor * 10000 // TRANSITION_TIMEOUT, responsive children only
	}
	return boundFactor * escalationMs
}

// AgentDown scripts the agent link: Mode "count" refuses the UPDATE calls number From..From+N-1 (counted
// over all attempts, retries included); Mode "until-terminal" refuses every non-terminal UPDATE until a
// terminal one has been delivered (each refusal an independent transient fault).
type AgentDown struct {
	Mode string `json:"mode"`
	From int    `json:"from,omitempty"`
	N    int    `json:"n,omitempty"`
}

type template struct {
	kind, scenario, variant string
	build                   func(r *rand.Rand, c *Case)
}

func sleepStep(ms int) Step { return Step{Op: "sleep", Ms: ms} }
func tr(evt, src, dst string) Step {
	return Step{Op: "transition", Evt: evt, Src: src, Dst: dst}
}
func await(what string, n, ms int) Step { return Step{Op: "await", What: what, N: n, Ms: ms} }

var (
	stCONFIGURE = tr("CONFIGURE", "STANDBY", "CONFIGURED")
	stSTART     = tr("START", "CONFIGURED", "RUNNING")
	stSTOP      = tr("STOP", "RUNNING", "CONFIGURED")
	stRESET     = tr("RESET", "CONFIGURED", "STANDBY")
	stKILL      = Step{Op: "kill"}
	stLAUNCH    = Step{Op: "launch"}
	stTRIGGER   = Step{Op: "trigger"}
)

func u(r *rand.Rand, lo, hi int) int { return lo + r.Intn(hi-lo+1) }

// child variants -------------------------------------------------------------

type childVar struct {
	name string
	set  func(ch *ChildSpec)
}

var (
	cvPlain    = childVar{"plain", func(ch *ChildSpec) {}}
	cvIgnore   = childVar{"ignores-signals", func(ch *ChildSpec) { ch.Ignore = true }}
	cvGC       = childVar{"grandchild", func(ch *ChildSpec) { ch.Grandchild = "plain" }}
	cvGCIgnore = childVar{"grandchild-ignoring", func(ch *ChildSpec) { ch.Grandchild = "ignoring" }}
	cvIgnLing  = childVar{"ignores-signals-lingers", func(ch *ChildSpec) { ch.Ignore = true; ch.Linger = true }}
	cvLinger   = childVar{"lingers", func(ch *ChildSpec) { ch.Linger = true }}
	cvTermExit = childVar{"exits-1-on-term", func(ch *ChildSpec) { ch.TermExit = 1; ch.Linger = true }}
	cvUser     = childVar{"user", func(ch *ChildSpec) { ch.User = true }}
	cvUserGC   = childVar{"user-grandchild", func(ch *ChildSpec) { ch.User = true; ch.Grandchild = "plain" }}
)

func secondary(r *rand.Rand, c *Case) {
	ch := &c.Child
	ch.Noise = r.Intn(3) == 0
	ch.Shell = r.Intn(2) == 0
	ch.User = r.Intn(4) == 0
	if c.controllable() {
		ch.Impl = "fakeocc"
	} else if ch.Impl == "" {
		ch.Impl = "script"
		if r.Intn(4) == 0 {
			ch.Impl = "fakeocc"
		}
	}
}

// basic ------------------------------------------------------------------------

func basicTemplates() []template {
	var ts []template
	add := func(scn string, cv childVar, f func(r *rand.Rand, c *Case)) {
		ts = append(ts, template{"basic", scn, cv.name, func(r *rand.Rand, c *Case) {
			cv.set(&c.Child)
			f(r, c)
		}})
	}
	// like the core, requests other than a kill only follow the TASK_RUNNING report
	// (sent 200 ms after Launch); only kill-before-start explores that window
	pre := func(r *rand.Rand) []Step {
		s := []Step{stLAUNCH, await("ready", 1, 5000)}
		if r.Intn(2) == 0 {
			s = append(s, sleepStep(u(r, 0, 300)))
		}
		return append(s, stCONFIGURE, stSTART)
	}
	for _, cv := range []childVar{cvPlain, cvIgnore, cvGC, cvGCIgnore, cvUser, cvUserGC} {
		add("stop-running", cv, func(r *rand.Rand, c *Case) {
			c.Steps = append(pre(r), sleepStep(u(r, 0, 400)), stSTOP)
			c.KilledOnRequest, c.JudgeSurvivors = true, true
		})
	}
	for _, code := range []int{0, 3} {
		code := code
		add("stop-after-exit", childVar{fmt.Sprintf("exit-%d", code), func(ch *ChildSpec) { ch.ExitCode = code }}, func(r *rand.Rand, c *Case) {
			c.Child.LifeMs = u(r, 100, 350)
			c.Steps = append(pre(r), await("terminal", 1, 8000), sleepStep(u(r, 0, 300)), stSTOP)
			c.JudgeSurvivors = true
		})
	}
	add("stop-after-exit", childVar{"self-signal", func(ch *ChildSpec) { ch.SelfSignal = true }}, func(r *rand.Rand, c *Case) {
		c.Child.LifeMs = u(r, 100, 350)
		c.Child.Impl = "script"
		c.Steps = append(pre(r), await("terminal", 1, 8000), sleepStep(u(r, 0, 300)), stSTOP)
		c.JudgeSurvivors = true
	})
	for _, code := range []int{0, 3} {
		code := code
		add("stop-racing-exit", childVar{fmt.Sprintf("exit-%d", code), func(ch *ChildSpec) { ch.ExitCode = code }}, func(r *rand.Rand, c *Case) {
			c.Child.LifeMs = 300
			c.Steps = append(pre(r), await("child-started", 1, 5000), Step{Op: "sleep-rel", Ms: 300 + u(r, -25, 45)}, stSTOP)
			c.JudgeSurvivors = true
		})
	}
	for _, cv := range []childVar{cvPlain, cvGC, cvUser} {
		add("kill-running", cv, func(r *rand.Rand, c *Case) {
			c.Steps = append(pre(r), sleepStep(u(r, 0, 400)), stKILL)
			c.KilledOnRequest, c.JudgeSurvivors = true, true
		})
	}
	add("kill-after-exit", childVar{"exit-3", func(ch *ChildSpec) { ch.ExitCode = 3 }}, func(r *rand.Rand, c *Case) {
		c.Child.LifeMs = u(r, 100, 350)
		c.Steps = append(pre(r), await("terminal", 1, 8000), sleepStep(u(r, 0, 300)), stKILL)
		c.JudgeSurvivors = true
	})
	add("kill-racing-exit", cvPlain, func(r *rand.Rand, c *Case) {
		c.Child.LifeMs = 300
		c.Steps = append(pre(r), await("child-started", 1, 5000), Step{Op: "sleep-rel", Ms: 300 + u(r, -25, 45)}, stKILL)
		c.JudgeSurvivors = true
	})
	add("kill-before-start", cvPlain, func(r *rand.Rand, c *Case) {
		c.Steps = []Step{stLAUNCH, sleepStep(u(r, 0, 400)), stKILL}
		c.JudgeSurvivors = true
	})
	add("kill-before-start", childVar{"immediately", func(ch *ChildSpec) {}}, func(r *rand.Rand, c *Case) {
		c.Steps = []Step{stLAUNCH, sleepStep(u(r, 0, 20)), stKILL}
		c.JudgeSurvivors = true
	})
	for _, cv := range []childVar{cvPlain, cvGCIgnore} {
		add("stop-then-kill", cv, func(r *rand.Rand, c *Case) {
			c.Steps = append(pre(r), sleepStep(u(r, 0, 400)), stSTOP, sleepStep(u(r, 0, 100)), stKILL)
			c.KilledOnRequest, c.JudgeSurvivors = true, true
		})
	}
	add("cycle", cvPlain, func(r *rand.Rand, c *Case) {
		c.Steps = append(pre(r), sleepStep(u(r, 50, 300)), stSTOP, sleepStep(u(r, 0, 100)), stSTART, sleepStep(u(r, 50, 300)), stSTOP, stKILL)
		c.KilledOnRequest, c.JudgeSurvivors = true, true
	})
	add("cycle", childVar{"first-run-exits", func(ch *ChildSpec) {}}, func(r *rand.Rand, c *Case) {
		// both runs end on their own around the instant of the STOP
		c.Child.LifeMs = 300
		c.Steps = append(pre(r), await("child-started", 1, 5000), Step{Op: "sleep-rel", Ms: 300 + u(r, -25, 45)}, stSTOP,
			stSTART, sleepStep(u(r, 20, 150)), stSTOP, stKILL)
		c.JudgeSurvivors = true
	})
	add("cycle", childVar{"self-signal", func(ch *ChildSpec) { ch.SelfSignal = true }}, func(r *rand.Rand, c *Case) {
		c.Child.LifeMs = u(r, 80, 200)
		c.Child.Impl = "script"
		c.Steps = append(pre(r), await("terminal", 1, 8000), stSTOP, stSTART, await("terminal", 2, 8000), stSTOP, stKILL)
		c.JudgeSurvivors = true
	})
	add("stop-never-started", cvPlain, func(r *rand.Rand, c *Case) {
		c.Steps = []Step{stLAUNCH, await("ready", 1, 5000), stCONFIGURE, stSTOP, stKILL}
		c.JudgeSurvivors = true
	})
	add("start-fails", childVar{"bad-command", func(ch *ChildSpec) { ch.BadCommand = true }}, func(r *rand.Rand, c *Case) {
		c.Steps = []Step{stLAUNCH, await("ready", 1, 5000), stCONFIGURE, stSTART, sleepStep(u(r, 0, 100)), stSTOP, stKILL}
		c.JudgeSurvivors = true
	})
	add("stop-and-kill-concurrently", cvPlain, func(r *rand.Rand, c *Case) {
		stop := stSTOP
		stop.Async = true
		c.Steps = append(pre(r), sleepStep(u(r, 50, 300)), stop, sleepStep(u(r, 0, 3)), stKILL)
		c.KilledOnRequest, c.JudgeSurvivors = true, true
	})
	add("kill-twice", cvPlain, func(r *rand.Rand, c *Case) {
		c.Steps = append(pre(r), sleepStep(u(r, 50, 300)), stSTOP, stKILL, sleepStep(u(r, 0, 100)), stKILL)
		c.KilledOnRequest, c.JudgeSurvivors = true, true
	})
	return ts
}

// hook -------------------------------------------------------------------------

func hookTemplates() []template {
	var ts []template
	add := func(scn string, cv childVar, f func(r *rand.Rand, c *Case)) {
		ts = append(ts, template{"hook", scn, cv.name, func(r *rand.Rand, c *Case) {
			cv.set(&c.Child)
			f(r, c)
		}})
	}
	for _, code := range []int{0, 2, 7} {
		code := code
		add("trigger-exit-kill", childVar{fmt.Sprintf("exit-%d", code), func(ch *ChildSpec) { ch.ExitCode = code; ch.User = ch.User || code == 7 }}, func(r *rand.Rand, c *Case) {
			c.Child.LifeMs = u(r, 50, 300)
			c.Steps = []Step{stLAUNCH, await("ready", 1, 5000), sleepStep(u(r, 0, 300)), stTRIGGER, await("terminal", 1, 8000), sleepStep(u(r, 0, 200)), stKILL}
			c.JudgeSurvivors = true
		})
	}
	for _, cv := range []childVar{cvPlain, cvGC} {
		add("kill-running", cv, func(r *rand.Rand, c *Case) {
			c.Steps = []Step{stLAUNCH, await("ready", 1, 5000), sleepStep(u(r, 0, 300)), stTRIGGER, sleepStep(u(r, 0, 300)), stKILL}
			c.KilledOnRequest, c.JudgeSurvivors = true, true
		})
	}
	add("kill-racing-exit", cvPlain, func(r *rand.Rand, c *Case) {
		c.Child.LifeMs = 300
		c.Steps = []Step{stLAUNCH, await("ready", 1, 5000), stTRIGGER, await("child-started", 1, 5000), Step{Op: "sleep-rel", Ms: 300 + u(r, -25, 45)}, stKILL}
		c.JudgeSurvivors = true
	})
	add("kill-then-trigger", childVar{"exit-0", func(ch *ChildSpec) {}}, func(r *rand.Rand, c *Case) {
		// a DESTROY hook: triggered after the kill (handlers.go keeps the task around for it)
		c.Child.LifeMs = u(r, 50, 300)
		c.Steps = []Step{stLAUNCH, await("ready", 1, 5000), sleepStep(u(r, 0, 300)), stKILL, sleepStep(u(r, 0, 200)), stTRIGGER, await("terminal", 1, 8000)}
		c.JudgeSurvivors = false
	})
	add("trigger-fails", childVar{"bad-command", func(ch *ChildSpec) { ch.BadCommand = true }}, func(r *rand.Rand, c *Case) {
		c.Steps = []Step{stLAUNCH, await("ready", 1, 5000), stTRIGGER, sleepStep(u(r, 0, 100)), stKILL}
		c.JudgeSurvivors = true
	})
	add("trigger-and-kill-concurrently", childVar{"exit-0", func(ch *ChildSpec) {}}, func(r *rand.Rand, c *Case) {
		c.Child.LifeMs = u(r, 50, 200)
		t := stTRIGGER
		t.Async = true
		c.Steps = []Step{stLAUNCH, await("ready", 1, 5000), sleepStep(u(r, 0, 100)), t, sleepStep(u(r, 0, 2)), stKILL, await("terminal", 1, 8000)}
		c.JudgeSurvivors = false
	})
	add("transitions-then-trigger", childVar{"exit-0", func(ch *ChildSpec) {}}, func(r *rand.Rand, c *Case) {
		c.Child.LifeMs = u(r, 50, 300)
		c.Steps = []Step{stLAUNCH, await("ready", 1, 5000), stCONFIGURE, stSTART, stTRIGGER, stSTOP, await("terminal", 1, 8000), stRESET, stKILL}
		c.JudgeSurvivors = true
	})
	add("retrigger-while-running", childVar{"exit-0", func(ch *ChildSpec) {}}, func(r *rand.Rand, c *Case) {
		// a hook of a transition that happens again before the previous run of the hook has ended: two runs
		// of one task object overlap; each ends with its own report, and the kill afterwards finds nothing
		c.Child.LifeMs = u(r, 500, 800)
		c.Steps = []Step{stLAUNCH, await("ready", 1, 5000), stTRIGGER, await("child-started", 1, 5000), sleepStep(u(r, 100, 300)), stTRIGGER,
			await("terminal", 2, 8000), sleepStep(u(r, 0, 200)), stKILL}
		c.JudgeSurvivors = true
	})
	add("kill-never-triggered", cvPlain, func(r *rand.Rand, c *Case) {
		c.Steps = []Step{stLAUNCH, sleepStep(u(r, 0, 400)), stKILL}
		c.JudgeSurvivors = true
	})
	add("kill-never-triggered", childVar{"immediately", func(ch *ChildSpec) {}}, func(r *rand.Rand, c *Case) {
		c.Steps = []Step{stLAUNCH, sleepStep(u(r, 0, 20)), stKILL}
		c.JudgeSurvivors = true
	})
	return ts
}

// controllable -------------------------------------------------------------------

func ctlTemplates(kind string) []template {
	var ts []template
	add := func(scn string, cv childVar, f func(r *rand.Rand, c *Case)) {
		ts = append(ts, template{kind, scn, cv.name, func(r *rand.Rand, c *Case) {
			c.Child.TermExit = -1
			cv.set(&c.Child)
			f(r, c)
		}})
	}
	exitEvt := "EXIT"
	if kind == "fairmq" {
		exitEvt = "END"
	}
	ready := func(r *rand.Rand, c *Case) []Step {
		c.Child.ReadyAfterMs = u(r, 0, 600)
		if r.Intn(3) == 0 {
			c.Child.ListenAfterMs = u(r, 0, 400)
		}
		return []Step{stLAUNCH, await("ready", 1, 15000)}
	}
	for _, cv := range []childVar{cvPlain, cvIgnLing, cvGC, cvGCIgnore, cvLinger, cvTermExit, cvUser, cvUserGC} {
		add("kill-standby", cv, func(r *rand.Rand, c *Case) {
			c.Steps = append(ready(r, c), sleepStep(u(r, 0, 300)), stKILL)
			c.KilledOnRequest, c.JudgeSurvivors = true, true
		})
	}
	add("kill-standby", childVar{"hangs-on-exit", func(ch *ChildSpec) { ch.HangOn = exitEvt }}, func(r *rand.Rand, c *Case) {
		c.Steps = append(ready(r, c), sleepStep(u(r, 0, 300)), stKILL)
		c.KilledOnRequest, c.JudgeSurvivors = true, true
	})
	add("kill-configured", cvPlain, func(r *rand.Rand, c *Case) {
		c.Steps = append(ready(r, c), stCONFIGURE, sleepStep(u(r, 0, 200)), stKILL)
		c.KilledOnRequest, c.JudgeSurvivors = true, true
	})
	for _, cv := range []childVar{cvPlain, cvGC} {
		add("kill-running-state", cv, func(r *rand.Rand, c *Case) {
			c.Steps = append(ready(r, c), stCONFIGURE, stSTART, sleepStep(u(r, 0, 200)), stKILL)
			c.KilledOnRequest, c.JudgeSurvivors = true, true
		})
	}
	add("kill-immediately", cvPlain, func(r *rand.Rand, c *Case) {
		c.Steps = []Step{stLAUNCH, sleepStep(u(r, 0, 5)), stKILL}
		c.KilledOnRequest, c.JudgeSurvivors = true, true
		c.ObserveMs = codeStartupTimeoutMs + escalationMs + 2000
	})
	add("kill-during-startup", cvPlain, func(r *rand.Rand, c *Case) {
		c.Child.ListenAfterMs = u(r, 0, 300)
		c.Child.ReadyAfterMs = u(r, 300, 1200)
		c.Steps = []Step{stLAUNCH, sleepStep(u(r, 20, 1500)), stKILL}
		c.KilledOnRequest, c.JudgeSurvivors = true, true
		c.ObserveMs = codeStartupTimeoutMs + escalationMs + 2000
	})
	for _, nr := range []string{"nostate", "nolisten"} {
		nr := nr
		add("kill-never-ready", childVar{nr, func(ch *ChildSpec) { ch.NeverReady = nr }}, func(r *rand.Rand, c *Case) {
			c.Steps = []Step{stLAUNCH, sleepStep(u(r, 300, 1800)), stKILL}
			c.KilledOnRequest, c.JudgeSurvivors = true, true
			c.ObserveMs = codeStartupTimeoutMs + escalationMs + 2000
		})
	}
	add("kill-never-ready", childVar{"nolisten-user", func(ch *ChildSpec) { ch.NeverReady = "nolisten"; ch.User = true }}, func(r *rand.Rand, c *Case) {
		c.Steps = []Step{stLAUNCH, sleepStep(u(r, 300, 1800)), stKILL}
		c.KilledOnRequest, c.JudgeSurvivors = true, true
		c.ObserveMs = codeStartupTimeoutMs + escalationMs + 2000
	})
	add("kill-never-ready", childVar{"nolisten-ignores-signals", func(ch *ChildSpec) { ch.NeverReady = "nolisten"; ch.Ignore = true }}, func(r *rand.Rand, c *Case) {
		// no device to walk down and nothing to connect to: only the TERM/INT/KILL escalation on the group is left
		c.Steps = []Step{stLAUNCH, sleepStep(u(r, 300, 1800)), stKILL}
		c.KilledOnRequest, c.JudgeSurvivors = true, true
		c.ObserveMs = codeStartupTimeoutMs + escalationMs + 2000
	})
	for _, code := range []int{0, 4} {
		code := code
		add("kill-after-exit", childVar{fmt.Sprintf("exit-%d", code), func(ch *ChildSpec) { ch.ExitCode = code }}, func(r *rand.Rand, c *Case) {
			c.Child.LifeMs = u(r, 900, 1500)
			c.Child.ReadyAfterMs = u(r, 0, 200)
			c.Steps = []Step{stLAUNCH, await("ready", 1, 15000), await("terminal", 1, 10000), sleepStep(u(r, 0, 300)), stKILL}
			c.JudgeSurvivors = true
		})
	}
	add("kill-racing-exit", childVar{"exit-4", func(ch *ChildSpec) { ch.ExitCode = 4 }}, func(r *rand.Rand, c *Case) {
		c.Child.LifeMs = 1600
		c.Steps = []Step{stLAUNCH, await("child-started", 1, 5000), await("ready", 1, 1400), Step{Op: "sleep-rel", Ms: 1600 + u(r, -30, 60)}, stKILL}
		c.JudgeSurvivors = true
	})
	add("natural-exit-then-transition", childVar{"exit-0", func(ch *ChildSpec) {}}, func(r *rand.Rand, c *Case) {
		c.Child.LifeMs = u(r, 900, 1500)
		c.Steps = []Step{stLAUNCH, await("ready", 1, 15000), await("terminal", 1, 10000), sleepStep(u(r, 0, 200)), stCONFIGURE}
	})
	add("transition-racing-exit", childVar{"exit-4", func(ch *ChildSpec) { ch.ExitCode = 4 }}, func(r *rand.Rand, c *Case) {
		c.Child.LifeMs = 1600
		c.Steps = []Step{stLAUNCH, await("child-started", 1, 5000), await("ready", 1, 1400), Step{Op: "sleep-rel", Ms: 1600 + u(r, -30, 60)}, stCONFIGURE,
			await("terminal", 1, 10000)}
	})
	add("startup-timeout-then-kill", childVar{"nostate", func(ch *ChildSpec) { ch.NeverReady = "nostate" }}, func(r *rand.Rand, c *Case) {
		c.Steps = []Step{stLAUNCH, await("terminal", 1, codeStartupTimeoutMs+15000), sleepStep(u(r, 0, 300)), stKILL}
		c.JudgeSurvivors = true
	})
	add("startup-error-then-kill", childVar{"starts-in-error", func(ch *ChildSpec) { ch.StartState = "ERROR" }}, func(r *rand.Rand, c *Case) {
		c.Steps = []Step{stLAUNCH, await("terminal", 1, 15000), sleepStep(u(r, 0, 300)), stKILL}
		c.JudgeSurvivors = true
	})
	add("child-dies-on-start-then-kill", childVar{"dies-on-start", func(ch *ChildSpec) {
		ch.DieOn = "START"
		if kind == "fairmq" {
			ch.DieOn = "RUN"
		}
		ch.ExitCode = 5
	}}, func(r *rand.Rand, c *Case) {
		c.Steps = append(ready(r, c), stCONFIGURE, stSTART, sleepStep(u(r, 0, 300)), stKILL)
		c.JudgeSurvivors = true
	})
	add("start-fails-then-kill", childVar{"bad-command", func(ch *ChildSpec) { ch.BadCommand = true }}, func(r *rand.Rand, c *Case) {
		c.Steps = []Step{stLAUNCH, await("terminal", 1, 10000), sleepStep(u(r, 0, 200)), stKILL}
		c.JudgeSurvivors = true
	})
	// The task's process ends DURING the kill request: while the device handles one of the
	// walk-down steps of Kill (STOP from RUNNING, RESET from CONFIGURED, EXIT from STANDBY), or
	// while Kill waits for a GetState that never answers. The child never ends on its own, so
	// this is a task killed on request: KILLED or FINISHED, never FAILED.
	type wd struct{ name, evt string }
	wds := []wd{{"stop", "STOP"}, {"reset", "RESET"}, {"exit", "EXIT"}}
	if kind == "fairmq" {
		wds = []wd{{"stop", "STOP"}, {"reset", "RESET TASK"}, {"exit", "END"}}
	}
	walkdown := func(r *rand.Rand, c *Case, from string) {
		c.Steps = ready(r, c)
		switch from {
		case "stop":
			c.Steps = append(c.Steps, stCONFIGURE, stSTART)
		case "reset":
			c.Steps = append(c.Steps, stCONFIGURE)
		}
		c.Steps = append(c.Steps, sleepStep(u(r, 0, 200)), stKILL)
		c.KilledOnRequest, c.JudgeSurvivors = true, true
	}
	for _, w := range wds {
		w := w
		add("device-dies-in-walkdown", childVar{w.name + "-exit-3", func(ch *ChildSpec) { ch.DieOn = w.evt; ch.ExitCode = 3 }}, func(r *rand.Rand, c *Case) {
			c.Child.DieDelayMs = u(r, 0, 60)
			walkdown(r, c, w.name)
		})
		add("device-dies-in-walkdown", childVar{w.name + "-sigkill", func(ch *ChildSpec) { ch.DieOn = w.evt; ch.DieByKill = true }}, func(r *rand.Rand, c *Case) {
			c.Child.DieDelayMs = u(r, 0, 60)
			walkdown(r, c, w.name)
		})
		// the process the executor waits for dies, the device behind it keeps the request pending
		add("leader-dies-in-walkdown", childVar{w.name + "-exit-3", func(ch *ChildSpec) { ch.DieOn = w.evt; ch.ExitCode = 3; ch.Wrap = true }}, func(r *rand.Rand, c *Case) {
			c.Child.DieDelayMs = u(r, 0, 300)
			c.Child.DieByKill = r.Intn(2) == 0
			walkdown(r, c, w.name)
		})
	}
	add("getstate-hangs-device-dies", childVar{"exit-3", func(ch *ChildSpec) { ch.HangGetState = true; ch.ExitCode = 3 }}, func(r *rand.Rand, c *Case) {
		c.Child.DieDelayMs = u(r, 300, 2500) // well inside Kill's 5 s wait for GetState
		c.Child.DieByKill = r.Intn(2) == 0
		walkdown(r, c, []string{"stop", "reset", "exit"}[r.Intn(3)])
	})
	add("getstate-hangs-leader-dies", childVar{"exit-3", func(ch *ChildSpec) { ch.HangGetState = true; ch.ExitCode = 3; ch.Wrap = true }}, func(r *rand.Rand, c *Case) {
		c.Child.DieDelayMs = u(r, 300, 2500)
		c.Child.DieByKill = r.Intn(2) == 0
		walkdown(r, c, []string{"stop", "reset", "exit"}[r.Intn(3)])
	})
	// Transition requests with a payload that takes 100s of ms to decode (several MB of arguments),
	// fired repeatedly while t.rpc goes away under them: the device exits on its own, the task is
	// killed, the startup timeout strikes. The request itself is one the device rejects (STOP with a
	// source state it is not in), so it does not interfere; what is judged is that nothing crashes.
	storm := func(r *rand.Rand, spanMs int) Step {
		st := Step{Op: "storm", Evt: "STOP", Src: "RUNNING", Dst: "CONFIGURED", PayloadKB: u(r, 1200, 2600)}
		for t := u(r, 0, 120); t < spanMs; t += u(r, 90, 170) {
			st.Offsets = append(st.Offsets, t)
		}
		return st
	}
	add("big-transitions-while-device-exits", childVar{"exit-4", func(ch *ChildSpec) { ch.ExitCode = 4 }}, func(r *rand.Rand, c *Case) {
		c.Child.LifeMs = 2200
		c.Steps = []Step{stLAUNCH, await("child-started", 1, 5000), await("ready", 1, 2000), Step{Op: "sleep-rel", Ms: 2200 - u(r, 900, 1100)},
			storm(r, 2000), sleepStep(2200), await("terminal", 1, 10000)}
	})
	add("big-transitions-while-killed", cvPlain, func(r *rand.Rand, c *Case) {
		c.Steps = append(ready(r, c), storm(r, 2400), sleepStep(u(r, 700, 1100)), stKILL)
		c.KilledOnRequest, c.JudgeSurvivors = true, true
	})
	add("big-transitions-at-startup-timeout", childVar{"nostate", func(ch *ChildSpec) { ch.NeverReady = "nostate" }}, func(r *rand.Rand, c *Case) {
		// the client is connected long before the timeout, so the requests are accepted until t.rpc is reset
		c.Steps = []Step{stLAUNCH, sleepStep(codeStartupTimeoutMs - u(r, 1400, 1800)), storm(r, 3500), await("terminal", 1, 15000), sleepStep(1500), stKILL}
		c.JudgeSurvivors = true
	})
	add("kill-twice", cvPlain, func(r *rand.Rand, c *Case) {
		c.Steps = append(ready(r, c), stKILL, sleepStep(u(r, 0, 200)), stKILL)
		c.KilledOnRequest, c.JudgeSurvivors = true, true
	})
	add("start-and-kill-concurrently", cvPlain, func(r *rand.Rand, c *Case) {
		st := stSTART
		st.Async = true
		c.Steps = append(ready(r, c), stCONFIGURE, st, sleepStep(u(r, 0, 3)), stKILL)
		c.KilledOnRequest, c.JudgeSurvivors = true, true
	})
	return ts
}

// C16B ---------------------------------------------------------------------------
// One device step takes longer than any timeout the executor might apply (TRANSITION_TIMEOUT is
// 10 s) and is then performed normally: nothing fails, the device reaches the destination. The
// answer of the executor to that request is compared with the state the device really is in.

func c16bTemplates() []template {
	type t5 struct {
		kind, name, slow string
		pre              []Step
		judged           Step
	}
	list := []t5{
		{"fairmq", "configure-slow-init-task", "INIT TASK", nil, stCONFIGURE},
		{"fairmq", "configure-slow-connect", "CONNECT", nil, stCONFIGURE},
		{"direct", "configure-slow", "CONFIGURE", nil, stCONFIGURE},
		{"fairmq", "reset-slow-reset-device", "RESET DEVICE", []Step{stCONFIGURE}, stRESET},
		{"direct", "start-slow", "START", []Step{stCONFIGURE}, stSTART},
	}
	var ts []template
	for li, e := range list {
		e := e
		short := li%2 == 0
		ts = append(ts, template{e.kind, e.name, "slow-" + e.slow, func(r *rand.Rand, c *Case) {
			c.Child.TermExit = -1
			c.Child.SlowOn = e.slow
			c.Child.SlowMs = u(r, 11000, 13000)
			c.Child.ReadyAfterMs = u(r, 0, 300)
			j := e.judged
			j.Judged = true
			if short {
				j.CmdTimeoutMs = 3000 + 500*(c.Idx%7)
			}
			c.Steps = []Step{stLAUNCH, await("ready", 1, 15000)}
			c.Steps = append(c.Steps, e.pre...)
			c.Steps = append(c.Steps, sleepStep(u(r, 0, 200)), j, Step{Op: "await-quiescent", Ms: 40000}, stKILL)
		}})
	}
	// Overlapping requests: 1-3 s into the slow step of the first request a second and a third one
	// arrive for the same task (the same event again; a different event). Each is answered on its own
	// (handlers.go runs every request on its own goroutine) and each answer is judged.
	type ov struct {
		kind, name, slow string
		pre              []Step
		first            Step
		more             []Step
	}
	exitStale := tr("EXIT", "STANDBY", "DONE")
	ovs := []ov{
		{"fairmq", "overlap-configure-slow-init-task", "INIT TASK", nil, stCONFIGURE, []Step{stCONFIGURE, exitStale}},
		{"fairmq", "overlap-configure-slow-connect", "CONNECT", nil, stCONFIGURE, []Step{stCONFIGURE, stSTART}},
		{"direct", "overlap-start-slow", "START", []Step{stCONFIGURE}, stSTART, []Step{stSTART, exitStale}},
		{"direct", "overlap-configure-slow", "CONFIGURE", nil, stCONFIGURE, []Step{stCONFIGURE, stSTOP}},
	}
	for _, e := range ovs {
		e := e
		ts = append(ts, template{e.kind, e.name, "slow-" + e.slow, func(r *rand.Rand, c *Case) {
			c.Child.TermExit = -1
			c.Child.SlowOn = e.slow
			c.Child.SlowMs = u(r, 11000, 13000)
			c.Child.ReadyAfterMs = u(r, 0, 300)
			c.Steps = []Step{stLAUNCH, await("ready", 1, 15000)}
			c.Steps = append(c.Steps, e.pre...)
			first := e.first
			first.Judged, first.Async = true, true
			c.Steps = append(c.Steps, sleepStep(u(r, 0, 200)), first, sleepStep(u(r, 1000, 3000)))
			for i, m := range e.more {
				m.Judged, m.Async = true, true
				if i > 0 {
					c.Steps = append(c.Steps, sleepStep(u(r, 200, 1200)))
				}
				c.Steps = append(c.Steps, m)
			}
			c.Steps = append(c.Steps, Step{Op: "join"}, Step{Op: "await-quiescent", Ms: 40000}, stKILL)
		}})
	}
	return ts
}

// handler mode --------------------------------------------------------------------
// The same kinds of requests, but delivered to the real executor/handlers.go as the JSON the core
// sends; in particular requests the handlers must turn down without dying: for a task whose device
// never connects, that is being killed or has just died, malformed payloads, unknown task ids.

func raw(what string) Step { return Step{Op: "raw", What: what} }

func handlerTemplates() []template {
	var ts []template
	add := func(kind, scn, variant string, f func(r *rand.Rand, c *Case)) {
		ts = append(ts, template{kind, scn, variant, func(r *rand.Rand, c *Case) {
			c.Child.TermExit = -1
			c.ViaHandlers = true
			f(r, c)
		}})
	}
	ready := []Step{stLAUNCH, await("ready", 1, 15000)}
	with := func(pre []Step, more ...Step) []Step { return append(append([]Step(nil), pre...), more...) }
	async := func(s Step) Step { s.Async = true; return s }

	add("basic", "h-stop-then-kill", "plain", func(r *rand.Rand, c *Case) {
		c.Steps = with(ready, stCONFIGURE, stSTART, sleepStep(u(r, 0, 300)), stSTOP, sleepStep(u(r, 0, 100)), stKILL)
		c.KilledOnRequest, c.JudgeSurvivors = true, true
	})
	add("basic", "h-kill-running", "grandchild", func(r *rand.Rand, c *Case) {
		c.Child.Grandchild = "plain"
		c.Steps = with(ready, stCONFIGURE, stSTART, sleepStep(u(r, 0, 300)), stKILL)
		c.KilledOnRequest, c.JudgeSurvivors = true, true
	})
	add("basic", "h-kill-before-start", "immediately", func(r *rand.Rand, c *Case) {
		c.Steps = []Step{stLAUNCH, sleepStep(u(r, 0, 20)), stKILL}
		c.JudgeSurvivors = true
	})
	add("basic", "h-bad-payloads", "plain", func(r *rand.Rand, c *Case) {
		c.Steps = with(ready, raw("malformed-transition"), raw("unknown-task"), raw("unknown-command"), raw("no-target"), raw("broken-json"),
			raw("malformed-trigger"), stCONFIGURE, stSTART, stTRIGGER, sleepStep(u(r, 0, 200)), stSTOP, stKILL, stCONFIGURE)
		c.KilledOnRequest, c.JudgeSurvivors = true, true
	})
	// the agent cannot be reached while status updates are due (restart of the agent, HTTP time-out):
	// whatever the executor does about the updates it could not send, what the agent does receive must
	// still be at most one terminal status and nothing after it
	add("basic", "h-agent-down-run-to-end", "exit-0", func(r *rand.Rand, c *Case) {
		c.Child.LifeMs = u(r, 100, 400)
		c.AgentDown = &AgentDown{Mode: "until-terminal"}
		c.Steps = with(ready, stCONFIGURE, stSTART, await("terminal", 1, 8000), sleepStep(300), raw("unknown-command"), sleepStep(200))
	})
	for n := 1; n <= 3; n++ {
		n := n
		add("basic", "h-agent-down-run-to-end", fmt.Sprintf("exit-3-first-%d-lost", n), func(r *rand.Rand, c *Case) {
			c.Child.LifeMs, c.Child.ExitCode = u(r, 100, 400), 3
			c.AgentDown = &AgentDown{Mode: "count", From: 1, N: n}
			c.Steps = with(ready, stCONFIGURE, stSTART, await("terminal", 1, 8000), sleepStep(300), raw("unknown-command"), sleepStep(200))
		})
	}
	add("basic", "h-agent-down-then-kill", "until-terminal", func(r *rand.Rand, c *Case) {
		c.AgentDown = &AgentDown{Mode: "until-terminal"}
		c.Steps = with(ready, stCONFIGURE, stSTART, sleepStep(u(r, 0, 200)), raw("unknown-command"), stKILL, sleepStep(300), raw("unknown-command"), sleepStep(200))
		c.KilledOnRequest, c.JudgeSurvivors = true, true
	})
	add("hook", "h-agent-down-trigger-exit", "exit-0", func(r *rand.Rand, c *Case) {
		c.Child.LifeMs = u(r, 50, 300)
		c.AgentDown = &AgentDown{Mode: "until-terminal"}
		c.Steps = with(ready, stTRIGGER, await("terminal", 1, 8000), sleepStep(300), raw("unknown-command"), sleepStep(200))
	})
	if os.Getenv("VERIF_C17_BADLAUNCH") != "" {
		// opt-in (fires on the unchanged tree, see the report): a LAUNCH whose TaskInfo.Data is empty
		add("basic", "h-requests-after-failed-launch", "no-command-data", func(r *rand.Rand, c *Case) {
			c.Child.NoCommandData = true
			c.Steps = []Step{stLAUNCH, stCONFIGURE, stKILL}
		})
	}

	add("hook", "h-trigger-exit-kill", "exit-2", func(r *rand.Rand, c *Case) {
		c.Child.LifeMs, c.Child.ExitCode = u(r, 50, 300), 2
		c.Steps = with(ready, stTRIGGER, await("terminal", 1, 8000), sleepStep(u(r, 0, 200)), stKILL)
		c.JudgeSurvivors = true
	})
	add("hook", "h-kill-then-trigger", "exit-0", func(r *rand.Rand, c *Case) {
		c.Child.LifeMs = u(r, 50, 300)
		c.Steps = with(ready, stKILL, sleepStep(u(r, 0, 300)), stTRIGGER, raw("unknown-task-trigger"), sleepStep(600))
	})
	add("hook", "h-trigger-and-kill-concurrently", "exit-0", func(r *rand.Rand, c *Case) {
		c.Child.LifeMs = u(r, 50, 200)
		c.Steps = with(ready, async(stTRIGGER), sleepStep(u(r, 0, 3)), stKILL, sleepStep(800))
	})
	add("hook", "h-trigger-bad-command", "bad-command", func(r *rand.Rand, c *Case) {
		c.Child.BadCommand = true
		c.Steps = with(ready, stTRIGGER, raw("malformed-trigger"), stKILL)
		c.JudgeSurvivors = true
	})

	for _, kind := range []string{"direct", "fairmq"} {
		kind := kind
		add(kind, "h-kill-running-state", "grandchild", func(r *rand.Rand, c *Case) {
			c.Child.Grandchild = "plain"
			c.Child.ReadyAfterMs = u(r, 0, 400)
			c.Steps = with(ready, stCONFIGURE, stSTART, sleepStep(u(r, 0, 200)), stKILL)
			c.KilledOnRequest, c.JudgeSurvivors = true, true
		})
		add(kind, "h-requests-never-connected", "nolisten", func(r *rand.Rand, c *Case) {
			// still in activeTasks, no rpc client: every transition ends in the handler's error path
			c.Child.NeverReady = "nolisten"
			c.Steps = []Step{stLAUNCH, sleepStep(u(r, 200, 1200)), stCONFIGURE, stTRIGGER, raw("malformed-transition"), sleepStep(u(r, 0, 300)), stSTART, stKILL}
			c.KilledOnRequest, c.JudgeSurvivors = true, true
			c.ObserveMs = codeStartupTimeoutMs + escalationMs + 2000
		})
		add(kind, "h-transitions-during-kill", "lingers", func(r *rand.Rand, c *Case) {
			c.Child.Linger = true
			c.Child.ReadyAfterMs = u(r, 0, 300)
			c.Steps = with(ready, stCONFIGURE, async(stKILL))
			for i := 0; i < 8; i++ {
				c.Steps = append(c.Steps, sleepStep(u(r, 20, 400)), async(stSTART))
			}
			c.Steps = append(c.Steps, Step{Op: "join"})
			c.KilledOnRequest, c.JudgeSurvivors = true, true
		})
		add(kind, "h-transitions-around-death", "exit-4", func(r *rand.Rand, c *Case) {
			c.Child.LifeMs, c.Child.ExitCode = 1500, 4
			c.Steps = []Step{stLAUNCH, await("child-started", 1, 5000), await("ready", 1, 1300), Step{Op: "sleep-rel", Ms: 1500 - u(r, 150, 250)}}
			for i := 0; i < 8; i++ {
				c.Steps = append(c.Steps, async(stCONFIGURE), sleepStep(u(r, 20, 90)))
			}
			c.Steps = append(c.Steps, Step{Op: "join"}, await("terminal", 1, 8000), stCONFIGURE, stKILL)
		})
		add(kind, "h-bad-payloads", "plain", func(r *rand.Rand, c *Case) {
			c.Child.ReadyAfterMs = u(r, 0, 300)
			c.Steps = with(ready, raw("malformed-transition"), raw("unknown-task"), raw("unknown-command"), raw("broken-json"), stTRIGGER,
				stCONFIGURE, raw("malformed-transition"), stKILL, stSTART)
			c.KilledOnRequest, c.JudgeSurvivors = true, true
		})
	}
	return ts
}

func templatesFor(prop string) []template {
	if prop == "C16B" {
		return c16bTemplates()
	}
	return allTemplates()
}

func allTemplates() []template {
	var ts []template
	ts = append(ts, basicTemplates()...)
	ts = append(ts, hookTemplates()...)
	ts = append(ts, ctlTemplates("direct")...)
	ts = append(ts, ctlTemplates("fairmq")...)
	return ts
}

// makeCase builds case idx deterministically from the PRNG.
// handlerBase: C17 case indices from here on are handler-mode cases (set by the batch child).
var handlerBase = 1 << 30

func makeCase(prop string, idx int, r *rand.Rand) *Case {
	ts := templatesFor(prop)
	t := ts[idx%len(ts)]
	if idx >= handlerBase {
		ts = handlerTemplates()
		t = ts[(idx-handlerBase)%len(ts)]
	}
	if prop == "C17" {
		prop = ""
	}
	c := &Case{Prop: prop, Idx: idx, Kind: t.kind, Scenario: t.scenario, Variant: t.variant, ObserveMs: 900}
	c.Child.TermExit = -1
	secondary(r, c)
	t.build(r, c)
	if c.Child.SelfSignal || c.Child.BadCommand {
		c.Child.Impl = "script"
	}
	if c.Child.BadCommand {
		// through a shell the start "succeeds" and sh exits 127; only a direct exec makes Start() itself fail
		c.Child.Shell = false
	}
	return c
}
