package main

// The oracle: decides on the recorded events of one case (sequence numbers from
// vlib.Seq(), never wall-clock), written from the statement of C17:
//
//  S1  at most one terminal status (TASK_FINISHED/FAILED/KILLED) per task and no
//      status update of any kind after it;
//  S2  at most one BASIC_TASK_TERMINATED (the final report of a basic/hook run) per
//      started run;
//  S3  a task whose child never ends on its own and that was stopped/killed on
//      request is not reported FAILED after the request (status or final event);
//  P1  after the last Kill / basic STOP returned, plus 3x the code's own
//      TERM/INT/KILL escalation, no live process of the task is left (two looks);
//  L1  every Launch/Transition/Kill/Trigger returns within 3x the code's own
//      timeouts (two looks);               [recorded by the sub-child as "hang"]
//  X1  no panic in repository code.        [decided by the batch child from stderr]

import (
	"bufio"
	"encoding/json"
	"fmt"
	"os"
	"regexp"
	"sort"
	"strings"
)

type verdict struct {
	Rule, Class, Detail string
}

func readRecord(path string) []Rec {
	f, err := os.Open(path)
	if err != nil {
		return nil
	}
	defer f.Close()
	var out []Rec
	sc := bufio.NewScanner(f)
	sc.Buffer(make([]byte, 1<<20), 1<<24)
	for sc.Scan() {
		var e Rec
		if json.Unmarshal(sc.Bytes(), &e) == nil && e.Ev != "" {
			out = append(out, e)
		}
	}
	sort.SliceStable(out, func(i, j int) bool { return out[i].Seq < out[j].Seq })
	return out
}

func isTerminalName(s string) bool {
	return s == "TASK_FINISHED" || s == "TASK_FAILED" || s == "TASK_KILLED"
}

func isRequest(kind, opName string) bool {
	if opName == "kill" {
		return true
	}
	return kind == "basic" && opName == "transition:STOP"
}

func procRole(p procInfo) string {
	if p.Role != "" {
		return p.Role
	}
	switch p.Comm {
	case "sh", "dash", "bash":
		return "shell"
	case "sleep":
		return "sleep"
	case "fakeocc":
		return "fakeocc"
	}
	return "other"
}

func judge(c *Case, evs []Rec) (vs []verdict, ended bool) {
	suffix := "|" + c.Kind + "/" + c.Scenario
	var firstTerminal string
	afterTerminalSeen := map[string]bool{}
	var firstReqSeq int64 = -1
	starts, btts := 0, 0
	failedAfterReq := false
	for _, e := range evs {
		switch e.Ev {
		case "end":
			ended = true
		case "op-start":
			if firstReqSeq < 0 && isRequest(c.Kind, e.Name) {
				firstReqSeq = e.Seq
			}
		case "op-end":
			if c.Kind == "basic" && e.Name == "transition:START" && e.Err == "" && e.State == "RUNNING" {
				starts++
			}
			if c.Kind == "hook" && e.Name == "trigger" && e.Err == "" {
				starts++
			}
		case "status":
			if firstTerminal != "" {
				var cls string
				if isTerminalName(e.State) {
					cls = "second-terminal:" + firstTerminal + "-then-" + e.State
				} else {
					cls = "update-after-terminal:" + firstTerminal + "-then-" + e.State
				}
				if !afterTerminalSeen[cls] {
					afterTerminalSeen[cls] = true
					vs = append(vs, verdict{"STATUS", cls + suffix,
						fmt.Sprintf("status %s (seq %d) was sent after the terminal status %s", e.State, e.Seq, firstTerminal)})
				}
			} else if isTerminalName(e.State) {
				firstTerminal = e.State
			}
			if e.State == "TASK_FAILED" && firstReqSeq >= 0 && e.Seq > firstReqSeq && c.KilledOnRequest && !failedAfterReq {
				failedAfterReq = true
				vs = append(vs, verdict{"STATUS", "killed-reported-failed" + suffix,
					fmt.Sprintf("TASK_FAILED (seq %d, %q) reported after the stop/kill request (seq %d) for a child that never ends on its own", e.Seq, e.Msg, firstReqSeq)})
			}
		case "devevent":
			if e.Type != "BASIC_TASK_TERMINATED" {
				break
			}
			btts++
			if e.Final == "TASK_FAILED" && firstReqSeq >= 0 && e.Seq > firstReqSeq && c.KilledOnRequest && !failedAfterReq {
				failedAfterReq = true
				vs = append(vs, verdict{"STATUS", "killed-reported-failed" + suffix,
					fmt.Sprintf("BASIC_TASK_TERMINATED with final state TASK_FAILED (seq %d, exit code %d) after the stop/kill request (seq %d) for a child that never ends on its own", e.Seq, e.ExitCode, firstReqSeq)})
			}
		case "hang":
			vs = append(vs, verdict{"HANG", strings.SplitN(e.Name, ":", 2)[0] + "@" + e.Frame + suffix,
				fmt.Sprintf("%s (op %d) did not return within %d ms (3x the code's own bound, looked twice); stuck in %s\n%s", e.Name, e.Op, e.WaitMs, e.Frame, e.Stack)})
		case "survivors":
			second := map[int]bool{}
			for _, p := range e.Procs2 {
				second[p.Pid] = true
			}
			roles := map[string]bool{}
			var who []string
			for _, p := range e.Procs {
				if second[p.Pid] {
					roles[procRole(p)] = true
					who = append(who, fmt.Sprintf("pid %d pgid %d %s(%s) state %s", p.Pid, p.PGid, p.Comm, procRole(p), p.State))
				}
			}
			if len(roles) == 0 {
				break
			}
			// canonical class: does the task's main process survive, or only what it forked / its wrapper
			who2 := "descendants"
			if roles["leader"] {
				who2 = "leader"
			}
			vs = append(vs, verdict{"SURVIVOR", who2 + suffix,
				fmt.Sprintf("%d ms after the last stop/kill returned, processes of the task are still alive (seen twice): %s", e.WaitMs, strings.Join(who, "; "))})
		}
	}
	if btts > starts && ended {
		vs = append(vs, verdict{"STATUS", "more-final-events-than-runs" + suffix,
			fmt.Sprintf("%d BASIC_TASK_TERMINATED events for %d started runs", btts, starts)})
	}
	return vs, ended
}

// crash classification ------------------------------------------------------------------

var (
	crashHeadRe = regexp.MustCompile(`(?m)^(panic: .*|fatal error: .*|SIGQUIT: quit)$`)
	hexRe       = regexp.MustCompile(`0x[0-9a-f]+`)
)

type crashInfo struct {
	Head     string
	File     string // first frame under the repository or the harness
	Func     string
	InRepo   bool
	InHarn   bool
	RelFile  string
	Excerpt  string
	FullHead string
}

func classifyCrash(stderrPath string) *crashInfo {
	b, err := os.ReadFile(stderrPath)
	if err != nil {
		return nil
	}
	txt := string(b)
	loc := crashHeadRe.FindStringIndex(txt)
	if loc == nil {
		return nil
	}
	ci := &crashInfo{FullHead: txt[loc[0]:loc[1]]}
	ci.Head = hexRe.ReplaceAllString(ci.FullHead, "0x?")
	if len(ci.Head) > 100 {
		ci.Head = ci.Head[:100]
	}
	rest := txt[loc[1]:]
	ci.Excerpt = txt[loc[0]:]
	if len(ci.Excerpt) > 3000 {
		ci.Excerpt = ci.Excerpt[:3000]
	}
	root, harn := repoRoot(), harnessRoot()
	prev := ""
	for _, ln := range strings.Split(rest, "\n") {
		m := frameFileRe.FindStringSubmatch(ln)
		if m == nil {
			prev = strings.TrimSpace(ln)
			continue
		}
		p := m[1]
		if strings.HasPrefix(p, root+"/") {
			ci.File, ci.Func, ci.InRepo, ci.RelFile = p, prev, true, p[len(root)+1:]
			return ci
		}
		if strings.HasPrefix(p, harn+"/") {
			ci.File, ci.Func, ci.InHarn = p, prev, true
			return ci
		}
	}
	return ci
}
