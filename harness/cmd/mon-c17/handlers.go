package main

// Handler mode: the requests of a case reach the task through the REAL executor/handlers.go
// (handleLaunchEvent, handleKillEvent, handleMessageEvent with the JSON payloads the core sends)
// and the status/message half of the real event loop, via the add-only export
// executor/verif_export.go (build tag verif). The export is bound at run time through expvar, so
// the same harness also builds and runs against a tree that does not carry it yet (the handler
// cases are then not generated; counter handler_cases stays 0).

import (
	"encoding/json"
	"errors"
	"expvar"
	"fmt"
	"strings"
	"sync"
	"time"

	"github.com/AliceO2Group/Control/core/controlcommands"
	_ "github.com/AliceO2Group/Control/executor" // registers "verif.executor" when built from a tree with the export
	mesos "github.com/mesos/mesos-go/api/v1/lib"
	"github.com/mesos/mesos-go/api/v1/lib/executor"
)

type verifExecutorNew = func(sink func(*executor.Call), e mesos.ExecutorInfo, a mesos.AgentInfo) (
	launch func(mesos.TaskInfo) error, kill func(mesos.TaskID) error, message func([]byte) error,
	active func(mesos.TaskID) bool, stop func())

func executorExport() verifExecutorNew {
	v := expvar.Get("verif.executor")
	f, ok := v.(expvar.Func)
	if !ok {
		return nil
	}
	n, _ := f.Value().(verifExecutorNew)
	return n
}

type verifExecutorFaultyNew = func(sink func(*executor.Call) error, e mesos.ExecutorInfo, a mesos.AgentInfo) (
	launch func(mesos.TaskInfo) error, kill func(mesos.TaskID) error, message func([]byte) error,
	active func(mesos.TaskID) bool, stop func())

func executorFaultyExport() verifExecutorFaultyNew {
	v := expvar.Get("verif.executor.faulty")
	f, ok := v.(expvar.Func)
	if !ok {
		return nil
	}
	n, _ := f.Value().(verifExecutorFaultyNew)
	return n
}

type cmdResponse struct {
	name, state, err string
}

type hx struct {
	r       *runner
	launch  func(mesos.TaskInfo) error
	kill    func(mesos.TaskID) error
	message func([]byte) error
	active  func(mesos.TaskID) bool
	stop    func()

	mu        sync.Mutex
	responses map[string]cmdResponse
	// agent-down cases: UPDATE calls attempted so far, and whether a terminal one was delivered
	nUpd          int
	termDelivered bool
}

func bindHandlers(r *runner) *hx {
	if r.c.AgentDown != nil {
		nf := executorFaultyExport()
		if nf == nil {
			return nil
		}
		h := &hx{r: r, responses: map[string]cmdResponse{}}
		h.launch, h.kill, h.message, h.active, h.stop = nf(h.sinkFaulty,
			mesos.ExecutorInfo{ExecutorID: mesos.ExecutorID{Value: "executor-0"}}, mesos.AgentInfo{Hostname: "localhost"})
		return h
	}
	n := executorExport()
	if n == nil {
		return nil
	}
	h := &hx{r: r, responses: map[string]cmdResponse{}}
	h.launch, h.kill, h.message, h.active, h.stop = n(h.sink,
		mesos.ExecutorInfo{ExecutorID: mesos.ExecutorID{Value: "executor-0"}}, mesos.AgentInfo{Hostname: "localhost"})
	return h
}

func asString(v interface{}) string {
	switch x := v.(type) {
	case string:
		return x
	case nil:
		return ""
	}
	return fmt.Sprint(v)
}

// sinkFaulty is the agent link of an agent-down case: the UPDATE calls the case's script names are
// refused (the executor's Send fails, the agent never sees them - recorded as "update-lost"); every
// other call is delivered. What the oracle judges is the sequence of DELIVERED status updates.
func (h *hx) sinkFaulty(call *executor.Call) error {
	if call != nil && call.Type == executor.Call_UPDATE && call.Update != nil && call.Update.Status.State != nil {
		st := *call.Update.Status.State
		ad := h.r.c.AgentDown
		h.mu.Lock()
		h.nUpd++
		lose := false
		switch ad.Mode {
		case "count":
			lose = h.nUpd >= ad.From && h.nUpd < ad.From+ad.N
		case "until-terminal":
			lose = !isTerminal(st) && !h.termDelivered
		}
		if !lose && isTerminal(st) {
			h.termDelivered = true
		}
		h.mu.Unlock()
		if lose {
			h.r.rec(Rec{Ev: "update-lost", State: st.String()})
			// the attempt still tells the driver how far the task has got
			h.r.mu.Lock()
			if isTerminal(st) {
				h.r.nTerm++
			}
			if st == mesos.TASK_RUNNING {
				h.r.nRun++
			}
			h.r.mu.Unlock()
			return errors.New("verif: agent unreachable")
		}
	}
	h.sink(call)
	return nil
}

// sink receives everything the executor would send to the Mesos agent.
func (h *hx) sink(call *executor.Call) {
	if call == nil {
		return
	}
	switch call.Type {
	case executor.Call_UPDATE:
		if call.Update == nil || call.Update.Status.State == nil {
			h.r.rec(Rec{Ev: "bad-update"})
			return
		}
		st := call.Update.Status
		h.r.sendStatus("", *st.State, st.GetMessage())
	case executor.Call_MESSAGE:
		var m map[string]interface{}
		if call.Message == nil || json.Unmarshal(call.Message.Data, &m) != nil {
			h.r.rec(Rec{Ev: "message", Msg: "<undecodable>"})
			return
		}
		switch asString(m["_messageType"]) {
		case "MesosCommandResponse":
			resp := cmdResponse{name: asString(m["name"]), state: asString(m["state"]), err: asString(m["error"])}
			h.mu.Lock()
			h.responses[asString(m["id"])] = resp
			h.mu.Unlock()
			h.r.rec(Rec{Ev: "response", Name: resp.name, State: resp.state, Err: resp.err, Msg: asString(m["id"])})
		case "DeviceEvent":
			e := Rec{Ev: "devevent", Type: asString(m["type"])}
			if _, isBtt := m["finalMesosState"]; isBtt {
				e.Type = "BASIC_TASK_TERMINATED"
				e.Final = asString(m["finalMesosState"])
				if f, ok := m["finalMesosState"].(float64); ok {
					e.Final = mesos.TaskState(int32(f)).String()
				}
				if f, ok := m["exitCode"].(float64); ok {
					e.ExitCode = int(f)
				}
				e.Voluntary, _ = m["voluntaryTermination"].(bool)
				h.r.rec(e)
				h.r.mu.Lock()
				h.r.nTerm++
				h.r.mu.Unlock()
				return
			}
			h.r.rec(e)
		default:
			s := string(call.Message.Data)
			if len(s) > 200 {
				s = s[:200]
			}
			h.r.rec(Rec{Ev: "message", Msg: s})
		}
	}
}

func (h *hx) target() []controlcommands.MesosCommandTarget {
	return []controlcommands.MesosCommandTarget{{AgentId: h.r.ti.AgentID, ExecutorId: h.r.ti.Executor.ExecutorID, TaskId: h.r.ti.TaskID}}
}

// request hands a payload to handleMessageEvent and waits (bounded) for the command response
// the handler's goroutine sends back; some error paths of the handler send none.
func (h *hx) request(data []byte, id string, waitMs int) (string, string) {
	if err := h.message(data); err != nil {
		return "", "handler: " + errStr(err)
	}
	if waitMs <= 0 {
		waitMs = 2500
	}
	deadline := time.Now().Add(time.Duration(waitMs) * time.Millisecond)
	for {
		h.mu.Lock()
		resp, ok := h.responses[id]
		h.mu.Unlock()
		if ok {
			return resp.state, resp.err
		}
		if time.Now().After(deadline) {
			return "", "no response"
		}
		time.Sleep(2 * time.Millisecond)
	}
}

func (h *hx) transition(s Step) (string, string) {
	cmd := controlcommands.NewMesosCommand_Transition(h.r.envId, h.target(), s.Src, s.Evt, s.Dst, nil)
	b, _ := json.Marshal(cmd)
	return h.request(b, cmd.Id.String(), s.Ms)
}

func (h *hx) trigger(s Step) (string, string) {
	cmd := controlcommands.NewMesosCommand_TriggerHook(h.r.envId, h.target())
	b, _ := json.Marshal(cmd)
	return h.request(b, cmd.Id.String(), s.Ms)
}

// killAndWait: handleKillEvent only forks the kill; the task leaving activeTasks (after Kill
// returned, or when its terminal status was processed) is what "the kill returned" means here.
func (h *hx) killAndWait() (string, string) {
	if err := h.kill(h.r.ti.TaskID); err != nil {
		return "", "handler: " + errStr(err)
	}
	for h.active(h.r.ti.TaskID) {
		time.Sleep(5 * time.Millisecond)
	}
	return "", ""
}

// raw sends payloads the handlers must survive: malformed, for unknown tasks, of unknown kinds.
func (h *hx) raw(s Step) (string, string) {
	tid := h.r.ti.TaskID.Value
	var data string
	switch s.What {
	case "malformed-transition": // passes the envelope check, fails in UnmarshalTransition
		data = fmt.Sprintf(`{"name":"MesosCommand_Transition","id":"c0000000000000000000","targetList":[{"TaskId":{"value":%q}}],"source":"STANDBY","event":17,"destination":["x"]}`, tid)
	case "malformed-trigger":
		data = fmt.Sprintf(`{"name":"MesosCommand_TriggerHook","id":12,"targetList":[{"TaskId":{"value":%q}}],"timeout":"soon"}`, tid)
	case "unknown-task":
		data = `{"name":"MesosCommand_Transition","id":"c0000000000000000001","targetList":[{"TaskId":{"value":"no-such-task"}}],"source":"STANDBY","event":"CONFIGURE","destination":"CONFIGURED"}`
	case "unknown-task-trigger":
		data = `{"name":"MesosCommand_TriggerHook","id":"c0000000000000000002","targetList":[{"TaskId":{"value":"no-such-task"}}]}`
	case "unknown-command":
		data = fmt.Sprintf(`{"name":"MesosCommand_Frobnicate","targetList":[{"TaskId":{"value":%q}}]}`, tid)
	case "no-target":
		data = `{"name":"MesosCommand_Transition","targetList":[]}`
	case "broken-json":
		data = `{"name":"MesosCommand_Transition","targetList":[{"TaskId":`
	default:
		return "", "unknown raw payload " + s.What
	}
	if err := h.message([]byte(data)); err != nil {
		return "", "handler: " + errStr(err)
	}
	time.Sleep(150 * time.Millisecond) // the handler works on its own goroutine: give a crash time to happen
	return "", ""
}

// stuckHandlerFrame: innermost repository frame of the goroutine handleKillEvent forked.
func stuckHandlerFrame(marker string) (string, string) {
	buf := make([]byte, 1<<20)
	n := runtimeStackAll(buf)
	root := repoRoot()
	for _, blk := range strings.Split(string(buf[:n]), "\n\n") {
		if !strings.Contains(blk, marker) {
			continue
		}
		lines := strings.Split(blk, "\n")
		for i := 1; i+1 < len(lines); i++ {
			if m := frameFileRe.FindStringSubmatch(lines[i+1]); m != nil && strings.HasPrefix(m[1], root+"/") {
				fn := lines[i]
				if k := strings.LastIndex(fn, "("); k > 0 {
					fn = fn[:k]
				}
				if k := strings.LastIndex(fn, "/"); k >= 0 {
					fn = fn[k+1:]
				}
				if len(blk) > 4000 {
					blk = blk[:4000]
				}
				return fn, blk
			}
		}
	}
	return "?", ""
}
