package main

// /proc helpers: find every process that carries a case's token in its
// environment (= the task's child and everything it forked), read pgid/state.

import (
	"bytes"
	"os"
	"sort"
	"strconv"
	"strings"
	"syscall"
)

type procInfo struct {
	Pid   int    `json:"pid"`
	PPid  int    `json:"ppid"`
	PGid  int    `json:"pgid"`
	State string `json:"state"`
	Comm  string `json:"comm"`
	Role  string `json:"role,omitempty"`
}

// readStat parses /proc/<pid>/stat; ok=false when the process is gone.
func readStat(pid int) (procInfo, bool) {
	b, err := os.ReadFile("/proc/" + strconv.Itoa(pid) + "/stat")
	if err != nil {
		return procInfo{}, false
	}
	s := string(b)
	l, r := strings.IndexByte(s, '('), strings.LastIndexByte(s, ')')
	if l < 0 || r < l {
		return procInfo{}, false
	}
	f := strings.Fields(s[r+1:])
	if len(f) < 3 {
		return procInfo{}, false
	}
	p := procInfo{Pid: pid, Comm: s[l+1 : r], State: f[0]}
	p.PPid, _ = strconv.Atoi(f[1])
	p.PGid, _ = strconv.Atoi(f[2])
	return p, true
}

// alive: exists and is neither a zombie nor dead.
func (p procInfo) alive() bool { return p.State != "Z" && p.State != "X" && p.State != "x" }

func pidAlive(pid int) bool {
	p, ok := readStat(pid)
	return ok && p.alive()
}

// scanToken returns every process whose environment contains tokenVar=token.
// Zombies have an empty environ and therefore never match.
func scanToken(token string) []procInfo {
	needle := []byte(tokenVar + "=" + token)
	ents, err := os.ReadDir("/proc")
	if err != nil {
		return nil
	}
	var out []procInfo
	for _, e := range ents {
		pid, err := strconv.Atoi(e.Name())
		if err != nil {
			continue
		}
		env, err := os.ReadFile("/proc/" + e.Name() + "/environ")
		if err != nil || len(env) == 0 {
			continue
		}
		found := false
		for _, kv := range bytes.Split(env, []byte{0}) {
			if bytes.Equal(kv, needle) {
				found = true
				break
			}
		}
		if !found {
			continue
		}
		if p, ok := readStat(pid); ok && p.alive() {
			out = append(out, p)
		}
	}
	sort.Slice(out, func(i, j int) bool { return out[i].Pid < out[j].Pid })
	return out
}

// killToken SIGKILLs every process carrying the token until none is left.
func killToken(token string) int {
	n := 0
	for try := 0; try < 20; try++ {
		ps := scanToken(token)
		if len(ps) == 0 {
			return n
		}
		for _, p := range ps {
			if p.PGid > 1 && p.PGid == p.Pid {
				_ = syscall.Kill(-p.PGid, syscall.SIGKILL)
			}
			_ = syscall.Kill(p.Pid, syscall.SIGKILL)
			n++
		}
		sleepMs(20)
	}
	return n
}

// readPidfile parses "<pid> <role>" lines written by the children.
func readPidfile(path string) (pids []int, roles map[int]string) {
	roles = map[int]string{}
	b, err := os.ReadFile(path)
	if err != nil {
		return nil, roles
	}
	for _, ln := range strings.Split(string(b), "\n") {
		f := strings.Fields(ln)
		if len(f) != 2 {
			continue
		}
		pid, err := strconv.Atoi(f[0])
		if err != nil {
			continue
		}
		pids = append(pids, pid)
		roles[pid] = f[1]
	}
	return pids, roles
}
