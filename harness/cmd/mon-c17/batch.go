package main

// The batch child: generates this batch's cases, runs each in its own sub-child
// process (several at a time: real timeouts dominate), applies the oracle to the
// recorded events, and cleans up every process a case may have left behind.

import (
	"encoding/json"
	"fmt"
	"math/rand"
	"net"
	"os"
	"os/exec"
	"os/user"
	"path/filepath"
	"strconv"
	"strings"
	"sync"
	"syscall"
	"time"

	"verif/harness/vlib"
)

const portLockDir = "/tmp/verif-c17-ports"

// allocPort reserves a control port across all concurrently running checks (lock file
// created with O_EXCL, owner pid inside) and verifies that it can be bound right now.
func allocPort(r *rand.Rand) (int, error) {
	_ = os.MkdirAll(portLockDir, 0o777)
	for try := 0; try < 400; try++ {
		p := 20000 + r.Intn(12000)
		lock := filepath.Join(portLockDir, strconv.Itoa(p))
		f, err := os.OpenFile(lock, os.O_CREATE|os.O_EXCL|os.O_WRONLY, 0o644)
		if err != nil {
			// stale lock of a dead owner?
			if b, e2 := os.ReadFile(lock); e2 == nil {
				if pid, e3 := strconv.Atoi(strings.TrimSpace(string(b))); e3 == nil && pid > 0 && syscall.Kill(pid, 0) == syscall.ESRCH {
					_ = os.Remove(lock)
				}
			}
			continue
		}
		fmt.Fprintf(f, "%d\n", os.Getpid())
		f.Close()
		l, err := net.Listen("tcp", "127.0.0.1:"+strconv.Itoa(p))
		if err != nil {
			_ = os.Remove(lock)
			continue
		}
		l.Close()
		return p, nil
	}
	return 0, fmt.Errorf("no free control port")
}

func releasePort(p int) {
	if p > 0 {
		_ = os.Remove(filepath.Join(portLockDir, strconv.Itoa(p)))
	}
}

func (c *Case) watchdogMs() int {
	total := 20000
	for _, s := range c.Steps {
		switch s.Op {
		case "storm":
			total += 6000 + c.opBoundMs("transition")
		case "join":
			total += c.opBoundMs("transition") + 3000
		case "sleep", "sleep-rel", "await", "await-quiescent":
			total += s.Ms
		default:
			total += c.opBoundMs(s.Op) + 3000
		}
	}
	if c.JudgeSurvivors {
		total += boundFactor*escalationMs + 3000
	}
	return total + c.ObserveMs + 2000
}

type witness struct {
	Case   *Case  `json:"case"`
	Events []Rec  `json:"events"`
	Stderr string `json:"stderr,omitempty"`
}

func trimEvents(evs []Rec) []Rec {
	out := make([]Rec, 0, len(evs))
	for _, e := range evs {
		if len(e.Stack) > 1500 {
			e.Stack = e.Stack[:1500]
		}
		out = append(out, e)
	}
	if len(out) > 150 {
		out = out[:150]
	}
	return out
}

func runBatch(prop string) {
	c := vlib.Start(prop)
	defer c.Finish()

	self, err := os.Executable()
	if err != nil {
		c.Inconclusive("os.Executable: " + err.Error())
		return
	}
	bin := os.Getenv("VERIF_BIN")
	if bin == "" {
		bin = filepath.Dir(self)
	}
	if _, err := os.Stat(filepath.Join(bin, "fakeocc")); err != nil {
		c.Inconclusive("fakeocc binary not found in " + bin)
		return
	}
	nTpl := len(templatesFor(prop))
	n := nTpl
	if c.Tier == "thorough" {
		n = 1500
		if prop == "C16B" {
			n = 3 * nTpl
		}
	}
	if v, err := strconv.Atoi(os.Getenv("VERIF_C17_CASES")); err == nil && v > 0 {
		n = v
	}
	workers := 4
	if v, err := strconv.Atoi(os.Getenv("VERIF_C17_WORKERS")); err == nil && v > 0 {
		workers = v
	}
	only := os.Getenv("VERIF_C17_ONLY")
	keep := os.Getenv("VERIF_C17_KEEP") != ""
	nb := c.NBatch
	if nb < 1 {
		nb = 1
	}
	casesRoot := filepath.Join(c.OutDir, "cases")
	_ = os.MkdirAll(casesRoot, 0o755)

	if prop == "C17" {
		// handler-mode cases are appended after the n ordinary ones, if the tree under test exports them
		handlerBase = n
		if executorExport() != nil {
			passes := 1
			if c.Tier == "thorough" {
				passes = 10
			}
			n += passes * len(handlerTemplates())
		} else {
			c.Count("handler_export_missing", 1)
		}
	}
	var idxs []int
	for i := 0; i < n; i++ {
		if i%nb == c.Batch%nb {
			idxs = append(idxs, i)
		}
	}
	work := make(chan int)
	var wg sync.WaitGroup
	for w := 0; w < workers; w++ {
		wg.Add(1)
		go func() {
			defer wg.Done()
			for idx := range work {
				runCase(c, prop, idx, self, bin, casesRoot, only, keep)
			}
		}()
	}
	for _, i := range idxs {
		work <- i
	}
	close(work)
	wg.Wait()
}

// runCase repeats a case (same seed-derived parameters, new port) when its child could not
// open the reserved control port: that is interference from outside, not behaviour of the code.
func runCase(c *vlib.Ctx, prop string, idx int, self, bin, casesRoot, only string, keep bool) {
	for attempt := 0; attempt < 3; attempt++ {
		if !runCaseOnce(c, prop, idx, attempt, self, bin, casesRoot, only, keep) {
			return
		}
		c.Count("port_collisions_retried", 1)
	}
	c.Inconclusive(fmt.Sprintf("case %d: control port unusable three times in a row", idx))
}

func runCaseOnce(c *vlib.Ctx, prop string, idx, attempt int, self, bin, casesRoot, only string, keep bool) (retry bool) {
	r := c.SubRand(int64(idx))
	cs := makeCase(prop, idx, r)
	label := cs.Kind + "/" + cs.Scenario + "/" + cs.Variant
	if only != "" && !strings.Contains(label, only) {
		return false
	}
	cs.Bin = bin
	if cs.Child.User && os.Geteuid() == 0 {
		// credentials can only be set by a root executor; the current account needs no provisioning
		if me, err := user.Current(); err == nil {
			cs.UserName = me.Username
		}
	}
	cs.Token = fmt.Sprintf("c17.%d.%d.%d.%d", os.Getpid(), c.Seed, idx, attempt)
	cs.Dir = filepath.Join(casesRoot, fmt.Sprintf("case-%05d", idx))
	_ = os.RemoveAll(cs.Dir)
	if err := os.MkdirAll(cs.Dir, 0o755); err != nil {
		c.Inconclusive("mkdir: " + err.Error())
		return false
	}
	if cs.controllable() {
		p, err := allocPort(rand.New(rand.NewSource(r.Int63() + int64(attempt))))
		if err != nil {
			c.Inconclusive(err.Error())
			return false
		}
		cs.Port = p
		defer releasePort(p)
	}
	var id int64
	if attempt == 0 {
		id = c.Case(cs)
		if idx < 400 && idx%17 == 0 {
			c.Sample(cs)
		}
	}
	casePath := filepath.Join(cs.Dir, "case.json")
	b, _ := json.Marshal(cs)
	_ = os.WriteFile(casePath, b, 0o644)
	stderrPath := filepath.Join(cs.Dir, "stderr")
	se, err := os.Create(stderrPath)
	if err != nil {
		c.Inconclusive("stderr file: " + err.Error())
		return false
	}
	cmd := exec.Command(self, "C17", "--one-case", casePath)
	cmd.Stderr = se
	cmd.Dir = cs.Dir
	cmd.SysProcAttr = &syscall.SysProcAttr{Setpgid: true}
	t0 := time.Now()
	if err := cmd.Start(); err != nil {
		se.Close()
		c.Inconclusive("cannot start sub-child: " + err.Error())
		return false
	}
	done := make(chan error, 1)
	go func() { done <- cmd.Wait() }()
	watchdog := false
	var werr error
	select {
	case werr = <-done:
	case <-time.After(time.Duration(cs.watchdogMs()) * time.Millisecond):
		watchdog = true
		_ = syscall.Kill(cmd.Process.Pid, syscall.SIGQUIT)
		select {
		case werr = <-done:
		case <-time.After(5 * time.Second):
			_ = syscall.Kill(-cmd.Process.Pid, syscall.SIGKILL)
			werr = <-done
		}
	}
	se.Close()
	// never leave anything behind: every process carrying the case token, then the sub-child's own group
	left := killToken(cs.Token)
	_ = syscall.Kill(-cmd.Process.Pid, syscall.SIGKILL)
	wall := time.Since(t0)
	if _, roles := readPidfile(filepath.Join(cs.Dir, "pids")); attempt < 2 {
		for _, role := range roles {
			if role == "listen-failed" {
				_ = os.RemoveAll(cs.Dir)
				return true
			}
		}
	}

	evs := readRecord(filepath.Join(cs.Dir, "record.jsonl"))
	var vs []verdict
	var ended bool
	if cs.Prop == "C16B" {
		var why string
		vs, ended, why = judgeC16B(c, cs, evs)
		if why != "" && ended {
			c.Inconclusive(fmt.Sprintf("case %d (%s): %s", idx, label, why))
		}
	} else {
		vs, ended = judge(cs, evs)
	}
	suffix := "|" + cs.Kind + "/" + cs.Scenario
	stderrExcerpt := ""
	crashed := false
	if !ended {
		ci := classifyCrash(stderrPath)
		switch {
		case watchdog:
			c.Inconclusive(fmt.Sprintf("case %d (%s): sub-child watchdog (%d ms) expired", idx, label, cs.watchdogMs()))
		case ci != nil && ci.InRepo:
			crashed = true
			stderrExcerpt = ci.Excerpt
			vs = append(vs, verdict{"CRASH", ci.Head + "@" + ci.RelFile + suffix,
				fmt.Sprintf("the executor process died in repository code: %s at %s (%s)", ci.FullHead, ci.File, ci.Func)})
		case ci != nil:
			c.Inconclusive(fmt.Sprintf("case %d (%s): sub-child crashed outside the repository: %s at %s", idx, label, ci.FullHead, ci.File))
		default:
			c.Inconclusive(fmt.Sprintf("case %d (%s): sub-child ended (%v) without an end record", idx, label, werr))
		}
	}
	for _, v := range vs {
		c.Violation(v.Rule, v.Class, v.Detail, id, witness{Case: cs, Events: trimEvents(evs), Stderr: stderrExcerpt})
	}

	// counters / fingerprints from what was OBSERVED
	c.Count("cases_"+cs.Kind, 1)
	c.Count("wall_ms_total", wall.Milliseconds())
	if crashed {
		c.Count("subchild_crashes", 1)
	}
	if left > 0 {
		c.Count("processes_cleaned_up", int64(left))
	}
	if cs.Child.Ignore || cs.Child.Grandchild == "ignoring" {
		c.Count("signal_ignoring_children", 1)
	}
	if cs.Child.Grandchild != "" {
		c.Count("grandchild_cases", 1)
	}
	if cs.Child.NeverReady != "" {
		c.Count("never_ready_children", 1)
	}
	if cs.ViaHandlers {
		c.Count("handler_cases", 1)
	}
	if cs.AgentDown != nil {
		c.Count("agent_down_cases", 1)
	}
	if cs.UserName != "" {
		c.Count("user_cases", 1)
		if cs.JudgeSurvivors {
			c.Count("user_cases_survivors_judged", 1)
		}
	}
	if cs.KilledOnRequest && (cs.Child.HangGetState || (cs.Child.DieOn != "" && cs.Scenario != "child-dies-on-start-then-kill")) {
		c.Count("deaths_during_kill_cases", 1)
	}
	var shape, order []string
	killsInFlight := 0
	for _, e := range evs {
		switch e.Ev {
		case "op-start", "op-end":
			if e.Name == "kill" {
				if e.Ev == "op-start" {
					killsInFlight++
				} else {
					killsInFlight--
				}
			}
		case "status":
			if killsInFlight > 0 && isTerminalName(e.State) {
				c.Count("terminal_reports_during_kill", 1)
			}
		}
		switch e.Ev {
		case "mode-spelling":
			c.Count("control_mode_spelled_in_capitals_or_mixed_case", 1)
		case "update-lost":
			c.Count("status_updates_refused_by_the_agent_link", 1)
		case "op-start":
			c.Count("requests", 1)
			side := "nostart"
			if e.LeaderKnown {
				side = "gone"
				if e.LeaderAlive {
					side = "alive"
				}
			}
			switch {
			case e.Name == "transition:STOP" && cs.Kind == "basic":
				c.Count("stops_child_"+side, 1)
			case e.Name == "kill":
				c.Count("kills_child_"+side, 1)
			case e.Name == "trigger":
				c.Count("triggers", 1)
			case strings.HasPrefix(e.Name, "raw:"):
				c.Count("handler_bad_payloads", 1)
			case strings.HasPrefix(e.Name, "bigtransition:"):
				c.Count("big_transition_requests", 1)
			case strings.HasPrefix(e.Name, "transition:"):
				c.Count("transitions", 1)
			}
			shape = append(shape, e.Name+"@"+side)
			order = append(order, "s:"+e.Name)
		case "op-end":
			order = append(order, "e:"+e.Name)
		case "status":
			c.Count("status_updates", 1)
			shape = append(shape, e.State)
			order = append(order, e.State)
		case "devevent":
			c.Count("device_events", 1)
			shape = append(shape, e.Type+":"+e.Final)
			order = append(order, e.Type)
		case "group-empty":
			c.Count("group_empty_checks", 1)
		case "survivors":
			c.Count("survivor_observations", 1)
		}
	}
	c.Nontrivial(vlib.Hash(cs.Kind, cs.Scenario, cs.Variant, cs.Child.Impl, cs.Child.Shell, strings.Join(shape, ",")))
	c.Interleaving(vlib.Hash(cs.Kind, cs.Scenario, strings.Join(order, ",")))

	if len(vs) == 0 && ended && !keep {
		_ = os.RemoveAll(cs.Dir)
	} else if !keep {
		// keep the record and stderr of a failing case, drop bulky logs
		_ = os.Remove(filepath.Join(cs.Dir, "child.sh"))
	}
	return false
}
