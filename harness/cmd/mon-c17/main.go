// mon-c17: runtime monitor for property C17 ("every launched task ends with
// exactly one terminal status and no survivors; the executor survives").
//
//	mon-c17 C17 --seed S --tier T --batch i --nbatch n --out dir     batch child
//	mon-c17 C17 --one-case <case.json>                               sub-child (one case)
//
// The batch child re-executes itself once per case; see subchild.go / batch.go.
package main

import (
	"fmt"
	"os"
	"path/filepath"
	"reflect"
	"runtime"
	"strings"

	"github.com/AliceO2Group/Control/executor/executable"
)

// repoRoot is the directory the code under test was compiled from (normally /repo;
// a scratch copy when the harness is built with a -modfile replace).
func repoRoot() string {
	f := runtime.FuncForPC(reflect.ValueOf(executable.NewTask).Pointer())
	if f != nil {
		file, _ := f.FileLine(f.Entry())
		if i := strings.Index(file, "/executor/executable/"); i > 0 {
			return file[:i]
		}
	}
	return "/repo"
}

func harnessRoot() string {
	_, file, _, ok := runtime.Caller(0)
	if ok {
		// .../harness/cmd/mon-c17/main.go
		return filepath.Dir(filepath.Dir(filepath.Dir(file)))
	}
	return "/verif/harness"
}

func main() {
	for i, a := range os.Args {
		if a == "--one-case" && i+1 < len(os.Args) {
			runOneCase(os.Args[i+1])
			return
		}
	}
	if len(os.Args) < 2 || (os.Args[1] != "C17" && os.Args[1] != "C16B") {
		fmt.Fprintln(os.Stderr, "usage: mon-c17 C17|C16B [flags]")
		os.Exit(64)
	}
	runBatch(os.Args[1])
}
