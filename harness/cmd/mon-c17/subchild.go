package main

// The sub-child: executes exactly ONE case against real executable.NewTask
// objects, in its own process, so that a panic or a hang of the code under test
// is attributed to that case. Everything observed is appended line by line to
// <dir>/record.jsonl (survives a crash).

import (
	"encoding/json"
	"fmt"
	"os"
	"path/filepath"
	"regexp"
	"runtime"
	"strings"
	"sync"
	"time"

	"github.com/AliceO2Group/Control/common/event"
	"github.com/AliceO2Group/Control/common/utils/uid"
	"github.com/AliceO2Group/Control/core/controlcommands"
	"github.com/AliceO2Group/Control/executor/executable"
	mesos "github.com/mesos/mesos-go/api/v1/lib"
	"github.com/sirupsen/logrus"

	"verif/harness/vlib"
)

func sleepMs(ms int) {
	if ms > 0 {
		time.Sleep(time.Duration(ms) * time.Millisecond)
	}
}

type Rec struct {
	Seq   int64  `json:"seq"`
	TMs   int64  `json:"t_ms"`
	Ev    string `json:"ev"`
	Op    int    `json:"op,omitempty"`
	Name  string `json:"name,omitempty"`
	State string `json:"state,omitempty"`
	Msg   string `json:"msg,omitempty"`
	Err   string `json:"err,omitempty"`
	// op-start observations
	LeaderKnown bool `json:"leader_known,omitempty"`
	LeaderAlive bool `json:"leader_alive,omitempty"`
	// device events
	Type      string `json:"type,omitempty"`
	Final     string `json:"final,omitempty"`
	ExitCode  int    `json:"exit_code,omitempty"`
	Voluntary bool   `json:"voluntary,omitempty"`
	// hang / survivors
	Frame  string     `json:"frame,omitempty"`
	Stack  string     `json:"stack,omitempty"`
	Procs  []procInfo `json:"procs,omitempty"`
	Procs2 []procInfo `json:"procs2,omitempty"`
	WaitMs int64      `json:"wait_ms,omitempty"`
	// C16B: the device's own account of itself (fakeocc state log)
	Device   string `json:"device,omitempty"`    // its real state (last completed step)
	InFlight int    `json:"in_flight,omitempty"` // steps it is handling right now
	Steps    int    `json:"steps,omitempty"`     // steps it has started so far
	Trace    string `json:"trace,omitempty"`
	StepIdx  int    `json:"step_idx,omitempty"` // device-at-answer: index of the judged step in the case
}

type opHandle struct {
	id   int
	name string
	gid  string
	done chan struct{}
}

type runner struct {
	c     *Case
	t0    time.Time
	mu    sync.Mutex
	f     *os.File
	nTerm int // terminal statuses + BASIC_TASK_TERMINATED events seen
	nRun  int // TASK_RUNNING seen
	nOps  int
	ops   []*opHandle
	task  executable.Task
	envId uid.ID
	ti    mesos.TaskInfo

	hx         *hx // handler mode: requests go through the real executor/handlers.go
	stormWg    sync.WaitGroup
	childT0    time.Time // when the first leader announcement was observed
	lastKillAt time.Time
}

func (r *runner) rec(e Rec) int64 {
	r.mu.Lock()
	defer r.mu.Unlock()
	e.Seq = vlib.Seq()
	e.TMs = time.Since(r.t0).Milliseconds()
	b, _ := json.Marshal(e)
	r.f.Write(append(b, '\n'))
	return e.Seq
}

func isTerminal(s mesos.TaskState) bool {
	return s == mesos.TASK_FINISHED || s == mesos.TASK_FAILED || s == mesos.TASK_KILLED
}

// injected senders ---------------------------------------------------------------

func (r *runner) sendStatus(envId uid.ID, state mesos.TaskState, message string) {
	r.rec(Rec{Ev: "status", State: state.String(), Msg: message})
	r.mu.Lock()
	if isTerminal(state) {
		r.nTerm++
	}
	if state == mesos.TASK_RUNNING {
		r.nRun++
	}
	r.mu.Unlock()
}

func (r *runner) sendDeviceEvent(envId uid.ID, ev event.DeviceEvent) {
	e := Rec{Ev: "devevent"}
	if ev == nil {
		e.Type = "<nil>"
		r.rec(e)
		return
	}
	e.Type = ev.GetType().String()
	if btt, ok := ev.(*event.BasicTaskTerminated); ok {
		e.Final = btt.FinalMesosState.String()
		e.ExitCode = btt.ExitCode
		e.Voluntary = btt.VoluntaryTermination
		r.rec(e)
		r.mu.Lock()
		r.nTerm++
		r.mu.Unlock()
		return
	}
	r.rec(e)
}

func (r *runner) sendMessage(message []byte) {
	m := string(message)
	if len(m) > 200 {
		m = m[:200]
	}
	r.rec(Rec{Ev: "message", Msg: m})
}

// task construction ----------------------------------------------------------------

func shellQuote(s string) string {
	if s != "" && !strings.ContainsAny(s, " \t'\"$&;|<>()") {
		return s
	}
	return "'" + strings.ReplaceAll(s, "'", `'\''`) + "'"
}

const childScript = `#!/bin/sh
# usage: child.sh <life_s|0> <exit_code> <ignore 0|1> <grandchild none|plain|ignoring> <noise 0|1> <selfsignal 0|1>
echo "$$ leader" >> "$VERIF_C17_PIDFILE"
[ "$3" = 1 ] && trap '' TERM INT
case "$4" in
plain)
	sh -c 'echo "$$ grandchild" >> "$VERIF_C17_PIDFILE"; exec sleep 600' &
	;;
ignoring)
	( trap '' TERM INT; exec sh -c 'echo "$$ grandchild" >> "$VERIF_C17_PIDFILE"; exec sleep 600' ) &
	;;
esac
if [ "$5" = 1 ]; then echo "child: a line on stdout"; echo "child: a line on stderr" >&2; fi
if [ "$1" != 0 ]; then
	sleep "$1"
	[ "$6" = 1 ] && kill -KILL $$
	exit "$2"
fi
exec sleep 600
`

func (r *runner) commandInfo() (value string, args []string) {
	c := r.c
	ch := c.Child
	if ch.BadCommand {
		return filepath.Join(c.Dir, "does-not-exist"), []string{"x"}
	}
	b2s := func(b bool) string {
		if b {
			return "1"
		}
		return "0"
	}
	if ch.Impl == "script" {
		p := filepath.Join(c.Dir, "child.sh")
		_ = os.WriteFile(p, []byte(childScript), 0o755)
		life := "0"
		if ch.LifeMs > 0 {
			life = fmt.Sprintf("%d.%03d", ch.LifeMs/1000, ch.LifeMs%1000)
		}
		gc := ch.Grandchild
		if gc == "" {
			gc = "none"
		}
		return p, []string{life, fmt.Sprint(ch.ExitCode), b2s(ch.Ignore), gc, b2s(ch.Noise), b2s(ch.SelfSignal)}
	}
	value = filepath.Join(c.Bin, "fakeocc")
	if c.controllable() {
		args = append(args, "--control-port", fmt.Sprint(c.Port), "--mode", c.Kind)
	} else {
		args = append(args, "--plain")
	}
	if ch.LifeMs > 0 {
		args = append(args, "--exit-after-ms", fmt.Sprint(ch.LifeMs))
	}
	if ch.ExitCode != 0 {
		args = append(args, "--exit-code", fmt.Sprint(ch.ExitCode))
	}
	if ch.Ignore {
		args = append(args, "--ignore-signals")
	}
	if ch.Grandchild != "" {
		args = append(args, "--grandchild", ch.Grandchild)
	}
	if ch.ListenAfterMs > 0 {
		args = append(args, "--listen-after-ms", fmt.Sprint(ch.ListenAfterMs))
	}
	if ch.ReadyAfterMs > 0 {
		args = append(args, "--ready-after-ms", fmt.Sprint(ch.ReadyAfterMs))
	}
	switch ch.NeverReady {
	case "nolisten":
		args = append(args, "--never-listen")
	case "nostate":
		args = append(args, "--never-ready")
	}
	if ch.StartState != "" {
		args = append(args, "--start-state", ch.StartState)
	}
	if ch.DieOn != "" {
		args = append(args, "--die-on", ch.DieOn)
	}
	if ch.HangOn != "" {
		args = append(args, "--hang-on", ch.HangOn)
	}
	if ch.Linger {
		args = append(args, "--linger")
	}
	if ch.DieByKill {
		args = append(args, "--die-by-kill")
	}
	if ch.DieDelayMs > 0 {
		args = append(args, "--die-delay-ms", fmt.Sprint(ch.DieDelayMs))
	}
	if ch.HangGetState {
		args = append(args, "--hang-getstate")
	}
	if ch.Wrap {
		args = append(args, "--wrap")
	}
	if ch.SlowOn != "" {
		args = append(args, "--slow-on", ch.SlowOn, "--slow-ms", fmt.Sprint(ch.SlowMs))
	}
	if ch.TermExit >= 0 {
		args = append(args, "--term-exit-code", fmt.Sprint(ch.TermExit))
	}
	if ch.Noise {
		args = append(args, "--noise")
	}
	return value, args
}

func (r *runner) buildTaskInfo() mesos.TaskInfo {
	c := r.c
	value, args := r.commandInfo()
	if c.Child.Shell {
		for i := range args {
			args[i] = shellQuote(args[i])
		}
	}
	// the control mode is read without regard to case (controlmode.UnmarshalText, also the task class
	// loader's): two cases out of five spell it in capitals / mixed case
	mode := c.Kind
	switch c.Idx % 5 {
	case 1:
		mode = strings.ToUpper(mode)
	case 3:
		mode = map[string]string{"fairmq": "FairMQ", "direct": "Direct", "basic": "Basic", "hook": "Hook"}[mode]
	}
	if mode != c.Kind {
		r.rec(Rec{Ev: "mode-spelling", Msg: mode})
	}
	tci := map[string]interface{}{
		"env": []string{tokenVar + "=" + c.Token, pidfileVar + "=" + filepath.Join(c.Dir, "pids"),
			"VERIF_C17_STATELOG=" + filepath.Join(c.Dir, "statelog")},
		"shell":       c.Child.Shell,
		"value":       value,
		"arguments":   args,
		"controlPort": c.Port,
		"controlMode": mode,
	}
	if c.UserName != "" {
		tci["user"] = c.UserName
	}
	data, _ := json.Marshal(tci)
	if c.Child.NoCommandData {
		data = nil
	}
	r.envId = uid.New()
	envStr := r.envId.String()
	det := "TST"
	return mesos.TaskInfo{
		Name:     fmt.Sprintf("verif-c17-%s#%d", c.Kind, c.Idx),
		TaskID:   mesos.TaskID{Value: fmt.Sprintf("task-%d", c.Idx)},
		AgentID:  mesos.AgentID{Value: "agent-0"},
		Executor: &mesos.ExecutorInfo{ExecutorID: mesos.ExecutorID{Value: "executor-0"}},
		Labels: &mesos.Labels{Labels: []mesos.Label{
			{Key: "environmentId", Value: &envStr},
			{Key: "detector", Value: &det},
		}},
		Data: data,
	}
}

// ops ------------------------------------------------------------------------------

var gidRe = regexp.MustCompile(`^goroutine (\d+) `)

func curGid() string {
	buf := make([]byte, 64)
	n := runtime.Stack(buf, false)
	if m := gidRe.FindSubmatch(buf[:n]); m != nil {
		return string(m[1])
	}
	return "?"
}

func (r *runner) leaderObs() (known, alive bool) {
	pids, roles := readPidfile(filepath.Join(r.c.Dir, "pids"))
	for i := len(pids) - 1; i >= 0; i-- {
		if roles[pids[i]] == "leader" {
			return true, pidAlive(pids[i])
		}
	}
	return false, false
}

// startOp runs fn (a call into the code under test) on its own goroutine.
func (r *runner) startOp(name string, fn func() (state string, err string)) *opHandle {
	r.mu.Lock()
	r.nOps++
	h := &opHandle{id: r.nOps, name: name, done: make(chan struct{})}
	r.ops = append(r.ops, h)
	r.mu.Unlock()
	gidCh := make(chan string, 1)
	go func() {
		gidCh <- curGid()
		known, alive := r.leaderObs()
		r.rec(Rec{Ev: "op-start", Op: h.id, Name: name, LeaderKnown: known, LeaderAlive: alive})
		st, es := fn()
		r.rec(Rec{Ev: "op-end", Op: h.id, Name: name, State: st, Err: es})
		close(h.done)
	}()
	h.gid = <-gidCh
	return h
}

// waitOp waits for the op within the bound (x3 of the code's own timeouts), takes a
// second look before declaring a hang. Returns false on hang.
func (r *runner) waitOp(h *opHandle, boundMs int) bool {
	select {
	case <-h.done:
		return true
	case <-time.After(time.Duration(boundMs) * time.Millisecond):
	}
	// second look
	select {
	case <-h.done:
		return true
	case <-time.After(3 * time.Second):
	}
	frame, stack := stuckFrame(h.gid)
	if frame == "?" && r.hx != nil && h.name == "kill" {
		frame, stack = stuckHandlerFrame("handleKillEvent")
	}
	r.rec(Rec{Ev: "hang", Op: h.id, Name: h.name, Frame: frame, Stack: stack, WaitMs: int64(boundMs + 3000)})
	return false
}

var frameFileRe = regexp.MustCompile(`^\s+(/\S+\.go):\d+`)

// stuckFrame finds the goroutine and returns its innermost function that lives in the repository.
func runtimeStackAll(buf []byte) int { return runtime.Stack(buf, true) }

func stuckFrame(gid string) (string, string) {
	buf := make([]byte, 1<<20)
	n := runtime.Stack(buf, true)
	root := repoRoot()
	for _, blk := range strings.Split(string(buf[:n]), "\n\n") {
		if !strings.HasPrefix(blk, "goroutine "+gid+" ") {
			continue
		}
		lines := strings.Split(blk, "\n")
		for i := 1; i+1 < len(lines); i++ {
			if m := frameFileRe.FindStringSubmatch(lines[i+1]); m != nil && strings.HasPrefix(m[1], root+"/") {
				fn := lines[i]
				if k := strings.LastIndex(fn, "("); k > 0 {
					fn = fn[:k]
				}
				if k := strings.LastIndex(fn, "/"); k >= 0 {
					fn = fn[k+1:]
				}
				if len(blk) > 4000 {
					blk = blk[:4000]
				}
				return fn, blk
			}
		}
		if len(blk) > 4000 {
			blk = blk[:4000]
		}
		return "?", blk
	}
	return "?", ""
}

func (r *runner) transitionData(s Step) []byte {
	cmd := controlcommands.NewMesosCommand_Transition(r.envId, []controlcommands.MesosCommandTarget{{
		AgentId: r.ti.AgentID, ExecutorId: r.ti.Executor.ExecutorID, TaskId: r.ti.TaskID}}, s.Src, s.Evt, s.Dst, nil)
	if s.CmdTimeoutMs > 0 {
		cmd.ResponseTimeout = time.Duration(s.CmdTimeoutMs) * time.Millisecond
	}
	b, _ := json.Marshal(cmd)
	return b
}

// bigTransitionData is a transition request whose arguments map is kb kilobytes of JSON.
func (r *runner) bigTransitionData(s Step) []byte {
	cmd := controlcommands.NewMesosCommand_Transition(r.envId, []controlcommands.MesosCommandTarget{{
		AgentId: r.ti.AgentID, ExecutorId: r.ti.Executor.ExecutorID, TaskId: r.ti.TaskID}}, s.Src, s.Evt, s.Dst, nil)
	args := controlcommands.PropertyMap{}
	val := strings.Repeat("v", 80)
	for i := 0; i*100 < s.PayloadKB*1024; i++ {
		args[fmt.Sprintf("verif.key.%07d", i)] = val
	}
	cmd.Arguments = args
	b, _ := json.Marshal(cmd)
	return b
}

// deviceView reads the device's state log: its real state, how many steps it has begun and how
// many of them it is still handling.
func (r *runner) deviceView() (state string, begun, inflight int, trace string) {
	state = "STANDBY"
	if r.c.Kind == "fairmq" {
		state = "IDLE"
	}
	b, err := os.ReadFile(filepath.Join(r.c.Dir, "statelog"))
	if err != nil {
		return
	}
	var tr []string
	for _, ln := range strings.Split(string(b), "\n") {
		if len(ln) < 3 {
			continue
		}
		evt, st, _ := strings.Cut(ln[2:], "|")
		switch ln[0] {
		case 'B':
			begun++
			inflight++
		case 'E':
			inflight--
			state = st
			tr = append(tr, evt+"->"+st)
		case 'R':
			inflight--
			tr = append(tr, evt+" refused in "+st)
		}
	}
	return state, begun, inflight, strings.Join(tr, "; ")
}

// awaitQuiescent waits until the device handles nothing and has started nothing new for 1.5 s.
func (r *runner) awaitQuiescent(boundMs int) {
	deadline := time.Now().Add(time.Duration(boundMs) * time.Millisecond)
	lastBegun, since := -1, time.Now()
	for {
		st, begun, inflight, trace := r.deviceView()
		if begun != lastBegun || inflight > 0 {
			lastBegun, since = begun, time.Now()
		} else if time.Since(since) >= 1500*time.Millisecond {
			r.rec(Rec{Ev: "device-final", Device: st, Steps: begun, Trace: trace})
			return
		}
		if time.Now().After(deadline) {
			r.rec(Rec{Ev: "device-final", Device: st, Steps: begun, InFlight: inflight, Trace: trace, Msg: "not-quiescent"})
			return
		}
		time.Sleep(50 * time.Millisecond)
	}
}

func errStr(err error) string {
	if err == nil {
		return ""
	}
	s := err.Error()
	if len(s) > 300 {
		s = s[:300]
	}
	return s
}

func (r *runner) awaitCond(s Step) {
	deadline := time.Now().Add(time.Duration(s.Ms) * time.Millisecond)
	n := s.N
	if n < 1 {
		n = 1
	}
	for {
		ok := false
		switch s.What {
		case "ready":
			r.mu.Lock()
			ok = r.nRun >= n || r.nTerm > 0 // a terminal report ends the wait as well
			r.mu.Unlock()
		case "terminal":
			r.mu.Lock()
			ok = r.nTerm >= n
			r.mu.Unlock()
		case "child-started":
			pids, roles := readPidfile(filepath.Join(r.c.Dir, "pids"))
			k := 0
			for _, p := range pids {
				if roles[p] == "leader" {
					k++
				}
			}
			ok = k >= n
			if ok {
				r.mu.Lock()
				r.childT0 = time.Now()
				r.mu.Unlock()
			}
		}
		if ok {
			return
		}
		if time.Now().After(deadline) {
			r.rec(Rec{Ev: "await-timeout", Name: s.What})
			return
		}
		time.Sleep(2 * time.Millisecond)
	}
}

func runOneCase(path string) {
	b, err := os.ReadFile(path)
	if err != nil {
		fmt.Fprintln(os.Stderr, "mon-c17: cannot read case:", err)
		os.Exit(70)
	}
	var c Case
	if err := json.Unmarshal(b, &c); err != nil {
		fmt.Fprintln(os.Stderr, "mon-c17: bad case:", err)
		os.Exit(70)
	}
	f, err := os.OpenFile(filepath.Join(c.Dir, "record.jsonl"), os.O_CREATE|os.O_WRONLY|os.O_APPEND, 0o644)
	if err != nil {
		fmt.Fprintln(os.Stderr, "mon-c17: cannot open record:", err)
		os.Exit(70)
	}
	if lf, err := os.Create(filepath.Join(c.Dir, "executor.log")); err == nil {
		logrus.SetOutput(lf)
		logrus.SetLevel(logrus.DebugLevel)
	}
	r := &runner{c: &c, t0: time.Now(), f: f}
	r.rec(Rec{Ev: "begin", Name: fmt.Sprintf("%s/%s/%s", c.Kind, c.Scenario, c.Variant)})

	if c.ViaHandlers {
		r.hx = bindHandlers(r)
		if r.hx == nil {
			r.rec(Rec{Ev: "no-handler-export"})
			r.rec(Rec{Ev: "end", Msg: "executor export not compiled in"})
			os.Exit(0)
		}
	}
	hung := false
	launched := false
	var lastReq *opHandle
	for stepIdx, s := range c.Steps {
		if hung {
			break
		}
		s := s
		stepIdx := stepIdx
		var h *opHandle
		switch s.Op {
		case "sleep":
			sleepMs(s.Ms)
			continue
		case "sleep-rel":
			r.mu.Lock()
			t0 := r.childT0
			r.mu.Unlock()
			if t0.IsZero() {
				t0 = time.Now()
			}
			if d := time.Until(t0.Add(time.Duration(s.Ms) * time.Millisecond)); d > 0 {
				time.Sleep(d)
			}
			continue
		case "await":
			r.awaitCond(s)
			continue
		case "await-quiescent":
			r.awaitQuiescent(s.Ms)
			continue
		case "join":
			// wait for every request issued so far to be answered
			r.mu.Lock()
			ops := append([]*opHandle(nil), r.ops...)
			r.mu.Unlock()
			for _, h := range ops {
				if !r.waitOp(h, c.opBoundMs("transition")) {
					hung = true
					break
				}
			}
			continue
		case "storm":
			if !launched {
				r.rec(Rec{Ev: "skipped", Name: s.Op, Msg: "task not launched"})
				continue
			}
			data := r.bigTransitionData(s)
			task := r.task
			start := time.Now()
			r.stormWg.Add(1)
			go func() {
				defer r.stormWg.Done()
				for _, off := range s.Offsets {
					if d := time.Until(start.Add(time.Duration(off) * time.Millisecond)); d > 0 {
						time.Sleep(d)
					}
					// as handlers.go:handleMessageEvent: every request on its own goroutine
					r.startOp("bigtransition:"+s.Evt, func() (string, string) {
						cmd, err := task.UnmarshalTransition(data)
						if err != nil {
							return "", "unmarshal: " + errStr(err)
						}
						resp := task.Transition(cmd)
						if resp == nil {
							return "", "nil response"
						}
						return resp.CurrentState, resp.ErrorString
					})
				}
			}()
			continue
		case "launch":
			// as executor/handlers.go:handleLaunchEvent: NewTask, then Launch; the task only
			// becomes addressable by later requests if Launch returned nil
			r.ti = r.buildTaskInfo()
			if r.hx != nil {
				h = r.startOp("launch", func() (string, string) { return "", errStr(r.hx.launch(r.ti)) })
				if !r.waitOp(h, c.opBoundMs("launch")) {
					hung = true
					break
				}
				launched = true // whatever the outcome: the handlers must cope with requests for it
				continue
			}
			h = r.startOp("launch", func() (string, string) {
				r.task = executable.NewTask(r.ti, r.sendStatus, r.sendDeviceEvent, r.sendMessage)
				if r.task == nil {
					return "", "NewTask returned nil"
				}
				if err := r.task.Launch(); err != nil {
					r.task = nil
					return "", errStr(err)
				}
				return "", ""
			})
			if !r.waitOp(h, c.opBoundMs("launch")) {
				hung = true
				break
			}
			launched = r.task != nil
			continue
		}
		if !launched {
			r.rec(Rec{Ev: "skipped", Name: s.Op, Msg: "task not launched"})
			continue
		}
		task := r.task
		if r.hx != nil {
			switch s.Op {
			case "transition":
				h = r.startOp("transition:"+s.Evt, func() (string, string) { return r.hx.transition(s) })
			case "kill":
				h = r.startOp("kill", r.hx.killAndWait)
			case "trigger":
				h = r.startOp("trigger", func() (string, string) { return r.hx.trigger(s) })
			case "raw":
				h = r.startOp("raw:"+s.What, func() (string, string) { return r.hx.raw(s) })
			default:
				fmt.Fprintln(os.Stderr, "mon-c17: step not available in handler mode:", s.Op)
				os.Exit(70)
			}
			if s.Op == "kill" || (s.Op == "transition" && s.Evt == "STOP") {
				lastReq = h
			}
			if !s.Async {
				if !r.waitOp(h, c.opBoundMs(s.Op)) {
					hung = true
				}
			}
			continue
		}
		switch s.Op {
		case "transition":
			data := r.transitionData(s)
			opName := "transition:" + s.Evt
			if s.Judged {
				opName = "judged:" + s.Evt
			}
			h = r.startOp(opName, func() (string, string) {
				// as handlers.go:handleMessageEvent
				cmd, err := task.UnmarshalTransition(data)
				if err != nil {
					return "", "unmarshal: " + errStr(err)
				}
				resp := task.Transition(cmd)
				if s.Judged {
					// what the device is doing at the moment the answer is there
					st, begun, inflight, trace := r.deviceView()
					a := Rec{Ev: "device-at-answer", Name: opName, StepIdx: stepIdx, Device: st, Steps: begun, InFlight: inflight, Trace: trace}
					if resp != nil {
						a.State, a.Err = resp.CurrentState, resp.ErrorString
					} else {
						a.Err = "nil response"
					}
					r.rec(a)
				}
				if resp == nil {
					return "", "nil response"
				}
				return resp.CurrentState, resp.ErrorString
			})
		case "kill":
			h = r.startOp("kill", func() (string, string) { return "", errStr(task.Kill()) })
		case "trigger":
			h = r.startOp("trigger", func() (string, string) {
				ht, ok := task.(*executable.HookTask)
				if !ok {
					return "", "not a hook task"
				}
				return "", errStr(ht.Trigger())
			})
		default:
			fmt.Fprintln(os.Stderr, "mon-c17: unknown step", s.Op)
			os.Exit(70)
		}
		if s.Op == "kill" || (s.Op == "transition" && s.Evt == "STOP") {
			lastReq = h
		}
		if !s.Async {
			opName := s.Op
			if !r.waitOp(h, c.opBoundMs(opName)) {
				hung = true
			}
		}
	}
	// join everything still in flight
	r.stormWg.Wait()
	r.mu.Lock()
	ops := append([]*opHandle(nil), r.ops...)
	r.mu.Unlock()
	if !hung {
		for _, h := range ops {
			name := h.name
			if i := strings.IndexByte(name, ':'); i > 0 {
				name = name[:i]
			}
			if !r.waitOp(h, c.opBoundMs(name)) {
				hung = true
				break
			}
		}
	}
	if !hung {
		// process-group emptiness after the last stop/kill returned: allow the code's own
		// escalation bound x3, then look a second time before recording survivors.
		if c.JudgeSurvivors && lastReq != nil {
			start := time.Now()
			bound := time.Duration(boundFactor*escalationMs) * time.Millisecond
			var ps []procInfo
			for {
				ps = scanToken(c.Token)
				if len(ps) == 0 || time.Since(start) > bound {
					break
				}
				time.Sleep(200 * time.Millisecond)
			}
			if len(ps) > 0 {
				time.Sleep(1500 * time.Millisecond)
				ps2 := scanToken(c.Token)
				_, roles := readPidfile(filepath.Join(c.Dir, "pids"))
				for i := range ps {
					ps[i].Role = roles[ps[i].Pid]
				}
				for i := range ps2 {
					ps2[i].Role = roles[ps2[i].Pid]
				}
				r.rec(Rec{Ev: "survivors", Procs: ps, Procs2: ps2, WaitMs: time.Since(start).Milliseconds()})
			} else {
				r.rec(Rec{Ev: "group-empty", WaitMs: time.Since(start).Milliseconds()})
			}
		}
		// silence window: anything reported after a terminal status must show up here
		if c.ObserveMs > 5000 {
			// long windows (late startup-timeout reports) are counted from the launch
			if d := time.Until(r.t0.Add(time.Duration(c.ObserveMs) * time.Millisecond)); d > 0 {
				time.Sleep(d)
			}
			sleepMs(900)
		} else {
			sleepMs(c.ObserveMs)
		}
	}
	r.rec(Rec{Ev: "end", Msg: fmt.Sprintf("hung=%v", hung)})
	r.mu.Lock()
	r.f.Sync()
	r.mu.Unlock()
	os.Exit(0)
}
