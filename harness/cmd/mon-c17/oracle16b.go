package main

// Oracle of C16B (part of C16: "the state the executor reports after a transition request is the
// image of the state the device is really in ... success is reported only if the device reached the
// destination"), for transitions in which one device step is slow but nothing fails.
//
// The answer (state, error) is the one handlers.go would send: UnmarshalTransition + Transition +
// the response's CurrentState. The device's own state log gives its real state when the answer was
// there, whether it was still handling a step then, and where it ended up once quiescent.
//
//  R1  answer given while the device is at rest: reported state == image(device state);
//  R2  answer given while the device is still moving (a step in flight, or more steps started
//      afterwards): the answer must not name a concrete state other than the image of the state the
//      device ends up in ("" = no concrete state is accepted);
//  R3  no error in the answer only if the device reached the destination.

import (
	"fmt"
	"strings"

	"verif/harness/vlib"
)

func imageOf(kind, dev string) string {
	if kind != "fairmq" {
		return dev
	}
	switch dev {
	case "IDLE":
		return "STANDBY"
	case "READY":
		return "CONFIGURED"
	case "RUNNING":
		return "RUNNING"
	case "ERROR":
		return "ERROR"
	case "EXITING":
		return "DONE"
	}
	return "" // intermediate FairMQ states have no O2 image
}

func clsTok(s string) string {
	if s == "" {
		return "none"
	}
	return strings.ReplaceAll(s, " ", "_")
}

func judgeC16B(c *vlib.Ctx, cs *Case, evs []Rec) (vs []verdict, ended bool, inconclusive string) {
	var answers []*Rec
	var fin *Rec
	firstIdx, nJudged := -1, 0
	for i, s := range cs.Steps {
		if s.Judged {
			nJudged++
			if firstIdx < 0 {
				firstIdx = i
			}
		}
	}
	for i := range evs {
		e := &evs[i]
		switch {
		case e.Ev == "end":
			ended = true
		case e.Ev == "device-at-answer":
			answers = append(answers, e)
		case e.Ev == "device-final":
			fin = e
		case e.Ev == "hang":
			vs = append(vs, verdict{"HANG", strings.SplitN(e.Name, ":", 2)[0] + "@" + e.Frame + "|" + cs.Kind + "/" + cs.Scenario,
				fmt.Sprintf("%s did not return within %d ms; stuck in %s", e.Name, e.WaitMs, e.Frame)})
		}
	}
	if len(answers) < nJudged || fin == nil {
		return vs, ended, fmt.Sprintf("%d of %d judged requests answered / no final device view", len(answers), nJudged)
	}
	if fin.Msg == "not-quiescent" {
		return vs, ended, "device did not become quiescent within the bound"
	}
	// the scenario was not driven as planned when the slow step never happened; answers given with the
	// device at rest are judged all the same (R1 and R3 do not depend on the plan), and only if those
	// hold is the case inconclusive
	slowDone := strings.Contains(fin.Trace, cs.Child.SlowOn+"->")
	c.Count("device_steps_observed", int64(fin.Steps))
	wantFinal := imageOf(cs.Kind, fin.Device)
	firstEvt := cs.Steps[firstIdx].Evt
	for _, ans := range answers {
		st := cs.Steps[ans.StepIdx]
		evt := st.Evt
		overlapping := ans.StepIdx != firstIdx
		if overlapping {
			evt += "-during-" + firstEvt
			c.Count("answers_to_overlapping_requests", 1)
		}
		moving := ans.InFlight > 0 || fin.Steps > ans.Steps
		if !slowDone && moving {
			continue
		}
		c.Count("answers_compared", 1)
		if st.CmdTimeoutMs > 0 {
			c.Count("answers_to_requests_with_a_timeout_shorter_than_the_slow_step", 1)
		}
		if moving {
			c.Count("answers_while_device_moving", 1)
		} else {
			c.Count("answers_with_device_at_rest", 1)
		}
		if ans.Err == "" {
			c.Count("answers_success", 1)
		} else {
			c.Count("answers_error", 1)
		}
		pre := fmt.Sprintf("REPORT/%s/%s/slow-%s->", cs.Kind, evt, clsTok(cs.Child.SlowOn))
		detail := func(what string) string {
			return fmt.Sprintf("%s: %s %s (%s->%s) with %s taking %d ms: the executor answered state=%q error=%q when the device was in %s with %d step(s) in flight; "+
				"the device went on to %s (image %q). Device steps: %s", what, cs.Kind, evt, st.Src, st.Dst, cs.Child.SlowOn, cs.Child.SlowMs, ans.State, ans.Err,
				ans.Device, ans.InFlight, fin.Device, wantFinal, fin.Trace)
		}
		switch {
		case !moving && ans.State != imageOf(cs.Kind, ans.Device):
			vs = append(vs, verdict{"REPORT", pre + "reported-" + clsTok(ans.State) + "-device-" + clsTok(ans.Device),
				detail("reported state is not the image of the state the device is in")})
		case moving && ans.State != "" && ans.State != wantFinal:
			vs = append(vs, verdict{"REPORT", pre + "reported-" + clsTok(ans.State) + "-device-" + clsTok(fin.Device),
				detail("answer given while the device was still moving names a state the device does not end up in, and nothing was rolled back")})
		case ans.Err == "" && wantFinal != st.Dst:
			vs = append(vs, verdict{"REPORT", pre + "success-reported-device-" + clsTok(fin.Device),
				detail("success reported although the device did not reach the destination")})
		}
	}
	if !slowDone && len(vs) == 0 {
		return vs, ended, "the slow step was never performed: " + fin.Trace
	}
	return vs, ended, ""
}
