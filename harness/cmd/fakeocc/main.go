// fakeocc: a small REAL child process used by mon-c17 (property C17).
//
// It is either a plain long- or short-lived process (--plain) or a gRPC OCC
// server (executor/protos Occ service) over the FairMQ or the direct state
// table, checking srcState like occ/plugin/OccFMQCommon.cxx and
// occ/occlib/OccServer.cxx do. Behaviour switches model the child behaviours
// quantified over by C17: becomes ready after a delay or never, ignores
// SIGTERM/SIGINT, forks a grandchild (same process group) that outlives it,
// exits early with a chosen code, dies or hangs on a given transition event,
// lingers in DONE instead of exiting.
//
// Every process announces itself by appending "<pid> <role>\n" to the file named
// by $VERIF_C17_PIDFILE (when set).
package main

import (
	"context"
	"flag"
	"fmt"
	"net"
	"os"
	"os/exec"
	"os/signal"
	"sync"
	"syscall"
	"time"

	pb "github.com/AliceO2Group/Control/executor/protos"
	"google.golang.org/grpc"
	"google.golang.org/grpc/codes"
	"google.golang.org/grpc/status"
)

var (
	fPort        = flag.Int("control-port", 0, "OCC gRPC port (127.0.0.1)")
	fMode        = flag.String("mode", "direct", "direct|fairmq")
	fPlain       = flag.Bool("plain", false, "no gRPC server at all")
	fSleeper     = flag.Bool("sleeper", false, "internal: grandchild, only sleeps")
	fListenAfter = flag.Int("listen-after-ms", 0, "delay before the control port is opened")
	fNeverListen = flag.Bool("never-listen", false, "never open the control port")
	fReadyAfter  = flag.Int("ready-after-ms", 0, "delay (from process start) before the idle state is reported")
	fNeverReady  = flag.Bool("never-ready", false, "never report the idle state")
	fStartState  = flag.String("start-state", "", "report this O2 state (ERROR|DONE) instead of the idle state once ready")
	fIgnore      = flag.Bool("ignore-signals", false, "ignore SIGTERM and SIGINT")
	fHandleTerm  = flag.Int("term-exit-code", -1, "catch SIGTERM/SIGINT and exit with this code (default: die by the signal)")
	fGrandchild  = flag.String("grandchild", "none", "none|plain|ignoring: fork a sleeper in the same process group")
	fExitAfter   = flag.Int("exit-after-ms", 0, "exit on its own after this delay (0 = never)")
	fExitCode    = flag.Int("exit-code", 0, "exit code for --exit-after-ms / --die-on / end of state machine")
	fDieOn       = flag.String("die-on", "", "exit(exit-code) when this transition event arrives")
	fHangOn      = flag.String("hang-on", "", "never answer this transition event")
	fLinger      = flag.Bool("linger", false, "stay alive after reaching the final state")
	fDoneDelay   = flag.Int("done-exit-delay-ms", 30, "delay between reaching the final state and exiting")
	fTransDelay  = flag.Int("transition-delay-ms", 0, "time every transition takes")
	fNoise       = flag.Bool("noise", false, "write a few lines on stdout/stderr")
	fDieByKill   = flag.Bool("die-by-kill", false, "--die-on / --hang-getstate deaths are a SIGKILL to itself instead of exit(exit-code)")
	fDieDelay    = flag.Int("die-delay-ms", 0, "delay between the triggering request and the death")
	fHangGet     = flag.Bool("hang-getstate", false, "after the idle state was reported once, GetState never answers; the first such call triggers the death")
	fWrap        = flag.Bool("wrap", false, "be a wrapper (task leader) around the device: the OCC server runs in a forked child of the same group; "+
		"deaths hit the WRAPPER while the device stays alive and keeps its connection open")
	fWrapped = flag.Bool("wrapped", false, "internal: the device forked by --wrap")
	fSlowOn  = flag.String("slow-on", "", "this device step takes --slow-ms and is then performed normally")
	fSlowMs  = flag.Int("slow-ms", 0, "duration of the --slow-on step")
)

// stateLog appends one line per device step to $VERIF_C17_STATELOG: "B <event>" when a step starts
// being handled, "E <event>|<new state>" when it is done, "R <event>|<state>" when it is refused.
// The harness reads the device's REAL state and whether it is still moving from this file.
func stateLog(kind, evt, state string) {
	p := os.Getenv("VERIF_C17_STATELOG")
	if p == "" {
		return
	}
	f, err := os.OpenFile(p, os.O_APPEND|os.O_CREATE|os.O_WRONLY, 0o644)
	if err != nil {
		return
	}
	fmt.Fprintf(f, "%s %s|%s\n", kind, evt, state)
	f.Close()
}

// die ends the process the way the flags say: exit(exit-code) or SIGKILL to itself.
func dieNow() {
	if *fDieByKill {
		_ = syscall.Kill(os.Getpid(), syscall.SIGKILL)
		time.Sleep(time.Second)
	}
	os.Exit(*fExitCode)
}

// triggerDeath is called by the device when a request that must be fatal arrives. Plain device: it
// dies itself (after --die-delay-ms). Wrapped device: it tells the wrapper (the process the executor
// waits for) to die and stays alive, never answering the request.
func triggerDeath() {
	go func() {
		time.Sleep(time.Duration(*fDieDelay) * time.Millisecond)
		if *fWrapped {
			_ = syscall.Kill(os.Getppid(), syscall.SIGUSR1)
			return
		}
		dieNow()
	}()
	select {}
}

var deathOnce sync.Once

func announce(role string) {
	p := os.Getenv("VERIF_C17_PIDFILE")
	if p == "" {
		return
	}
	f, err := os.OpenFile(p, os.O_APPEND|os.O_CREATE|os.O_WRONLY, 0o644)
	if err != nil {
		return
	}
	fmt.Fprintf(f, "%d %s\n", os.Getpid(), role)
	f.Close()
}

type edge struct{ from, evt string }

var fairmqTable = map[edge]string{
	{"IDLE", "INIT DEVICE"}:                  "INITIALIZING DEVICE",
	{"INITIALIZING DEVICE", "COMPLETE INIT"}: "INITIALIZED",
	{"INITIALIZED", "BIND"}:                  "BOUND",
	{"BOUND", "CONNECT"}:                     "DEVICE READY",
	{"DEVICE READY", "INIT TASK"}:            "READY",
	{"READY", "RUN"}:                         "RUNNING",
	{"RUNNING", "STOP"}:                      "READY",
	{"READY", "RESET TASK"}:                  "DEVICE READY",
	{"DEVICE READY", "RESET DEVICE"}:         "IDLE",
	{"INITIALIZED", "RESET DEVICE"}:          "IDLE",
	{"BOUND", "RESET DEVICE"}:                "IDLE",
	{"IDLE", "END"}:                          "EXITING",
	{"ERROR", "END"}:                         "EXITING", // not a FairMQ edge; keeps Kill's EXIT-from-ERROR answerable
}

var directTable = map[edge]string{
	{"STANDBY", "CONFIGURE"}: "CONFIGURED",
	{"CONFIGURED", "START"}:  "RUNNING",
	{"RUNNING", "STOP"}:      "CONFIGURED",
	{"CONFIGURED", "RESET"}:  "STANDBY",
	{"STANDBY", "EXIT"}:      "DONE",
	{"CONFIGURED", "EXIT"}:   "DONE",
	{"ERROR", "EXIT"}:        "DONE",
	{"ERROR", "RECOVER"}:     "STANDBY",
}

type server struct {
	pb.UnimplementedOccServer
	mu        sync.Mutex
	state     string
	ready     bool
	readySeen bool // the idle state has been reported by a GetState
	final     string
	doneCh    chan struct{}
	started   time.Time
}

func (s *server) current() string {
	s.mu.Lock()
	defer s.mu.Unlock()
	if !s.ready {
		if *fNeverReady || time.Since(s.started) < time.Duration(*fReadyAfter)*time.Millisecond {
			if *fMode == "fairmq" {
				return "INITIALIZING DEVICE"
			}
			return "UNDEFINED"
		}
		s.ready = true
	}
	return s.state
}

func (s *server) GetState(ctx context.Context, _ *pb.GetStateRequest) (*pb.GetStateReply, error) {
	st := s.current()
	if *fHangGet {
		s.mu.Lock()
		hang := s.readySeen
		if s.ready {
			s.readySeen = true
		}
		s.mu.Unlock()
		if hang {
			deathOnce.Do(func() { go triggerDeath() })
			select {} // never answers
		}
	}
	return &pb.GetStateReply{State: st, Pid: int32(os.Getpid())}, nil
}

func (s *server) Transition(ctx context.Context, req *pb.TransitionRequest) (*pb.TransitionReply, error) {
	evt := req.GetTransitionEvent()
	if *fDieOn != "" && evt == *fDieOn {
		triggerDeath() // never returns
	}
	if *fHangOn != "" && evt == *fHangOn {
		select {} // never answers; the RPC ends when the process dies
	}
	cur := s.current()
	stateLog("B", evt, cur)
	if req.GetSrcState() != cur {
		stateLog("R", evt, cur)
		return nil, status.Errorf(codes.InvalidArgument, "transition not possible: state mismatch: source: %s current: %s", req.GetSrcState(), cur)
	}
	table := directTable
	if *fMode == "fairmq" {
		table = fairmqTable
	}
	dst, ok := table[edge{cur, evt}]
	if !ok {
		stateLog("R", evt, cur)
		return nil, status.Errorf(codes.InvalidArgument, "no transition %q from %s", evt, cur)
	}
	if *fSlowOn != "" && evt == *fSlowOn {
		time.Sleep(time.Duration(*fSlowMs) * time.Millisecond)
	}
	if *fTransDelay > 0 {
		time.Sleep(time.Duration(*fTransDelay) * time.Millisecond)
	}
	s.mu.Lock()
	s.state = dst
	isFinal := dst == s.final
	s.mu.Unlock()
	stateLog("E", evt, dst)
	if isFinal {
		select {
		case <-s.doneCh:
		default:
			close(s.doneCh)
		}
	}
	return &pb.TransitionReply{Trigger: pb.StateChangeTrigger_EXECUTOR, State: dst, TransitionEvent: evt, Ok: true}, nil
}

func (s *server) EventStream(_ *pb.EventStreamRequest, stream pb.Occ_EventStreamServer) error {
	select {
	case <-s.doneCh:
		_ = stream.Send(&pb.EventStreamReply{Event: &pb.DeviceEvent{Type: pb.DeviceEventType_END_OF_STREAM}})
	case <-stream.Context().Done():
	}
	return nil
}

func main() {
	flag.Parse()
	role := "leader"
	if *fSleeper {
		role = "grandchild"
	}
	if *fWrapped {
		role = "device"
	}
	announce(role)

	switch {
	case *fIgnore:
		signal.Ignore(syscall.SIGTERM, syscall.SIGINT)
	case *fHandleTerm >= 0:
		ch := make(chan os.Signal, 2)
		signal.Notify(ch, syscall.SIGTERM, syscall.SIGINT)
		go func() {
			<-ch
			os.Exit(*fHandleTerm)
		}()
	}

	if *fSleeper {
		time.Sleep(10 * time.Minute)
		return
	}

	if *fWrap {
		// the wrapper: forks the device (same group, inherited pipes), dies on SIGUSR1 the way the
		// flags say, otherwise ends with the device's exit code
		usr := make(chan os.Signal, 1)
		signal.Notify(usr, syscall.SIGUSR1)
		var args []string
		for _, a := range os.Args[1:] {
			if a != "--wrap" {
				args = append(args, a)
			}
		}
		dev := exec.Command(os.Args[0], append(args, "--wrapped")...)
		dev.Stdout, dev.Stderr = os.Stdout, os.Stderr
		if err := dev.Start(); err != nil {
			fmt.Fprintln(os.Stderr, "fakeocc: cannot fork the device:", err)
			os.Exit(98)
		}
		done := make(chan error, 1)
		go func() { done <- dev.Wait() }()
		select {
		case <-usr:
			dieNow()
		case err := <-done:
			if ee, ok := err.(*exec.ExitError); ok {
				os.Exit(ee.ExitCode() & 0xff)
			}
			os.Exit(0)
		}
	}

	if *fGrandchild != "none" {
		args := []string{"--sleeper"}
		if *fGrandchild == "ignoring" {
			args = append(args, "--ignore-signals")
		}
		gc := exec.Command(os.Args[0], args...)
		gc.Stdout, gc.Stderr = os.Stdout, os.Stderr // like `cmd &` in a shell: same group, inherited pipes
		if err := gc.Start(); err != nil {
			fmt.Fprintln(os.Stderr, "fakeocc: cannot fork grandchild:", err)
		}
	}
	if *fNoise {
		fmt.Println("fakeocc: started, pid", os.Getpid())
		fmt.Fprintln(os.Stderr, "fakeocc: a line on stderr")
	}
	if *fExitAfter > 0 {
		time.AfterFunc(time.Duration(*fExitAfter)*time.Millisecond, func() { os.Exit(*fExitCode) })
	}

	if *fPlain || *fNeverListen {
		time.Sleep(10 * time.Minute)
		return
	}

	s := &server{doneCh: make(chan struct{}), started: time.Now()}
	if *fMode == "fairmq" {
		s.state, s.final = "IDLE", "EXITING"
		switch *fStartState {
		case "ERROR":
			s.state = "ERROR"
		case "DONE":
			s.state = "EXITING"
		}
	} else {
		s.state, s.final = "STANDBY", "DONE"
		if *fStartState != "" {
			s.state = *fStartState
		}
	}
	if *fListenAfter > 0 {
		time.Sleep(time.Duration(*fListenAfter) * time.Millisecond)
	}
	lis, err := net.Listen("tcp", fmt.Sprintf("127.0.0.1:%d", *fPort))
	if err != nil {
		// the harness reserved this port; tell it so that the case is repeated on another one
		announce("listen-failed")
		fmt.Fprintln(os.Stderr, "fakeocc: cannot listen:", err)
		os.Exit(97)
	}
	gs := grpc.NewServer()
	pb.RegisterOccServer(gs, s)
	go func() { _ = gs.Serve(lis) }()

	<-s.doneCh
	if *fLinger {
		time.Sleep(10 * time.Minute)
		return
	}
	time.Sleep(time.Duration(*fDoneDelay) * time.Millisecond)
	os.Exit(*fExitCode)
}
