// mon-c07: run numbers are unique and strictly increasing (property C07).
//
// Real apricot/local.Service objects (one per "core instance") call the real
// NewRunNumber() against sim/consul; the fake Consul interleaves the GET and
// CAS steps of all callers under a seeded, gate-driven schedule. Part of the
// callers run as child processes of this binary (`mon-c07 --worker ...`) so
// that they can be SIGKILLed at chosen protocol points.
package main

import (
	"fmt"
	"io"
	"os"

	"github.com/sirupsen/logrus"

	"verif/harness/vlib"
)

func main() {
	if len(os.Args) >= 2 && os.Args[1] == "--worker" {
		workerMain(os.Args[2:])
		return
	}
	if len(os.Args) < 2 || os.Args[1] != "C07" {
		fmt.Fprintln(os.Stderr, "usage: mon-c07 C07 [flags] | mon-c07 --worker <addr> <tag>")
		os.Exit(64)
	}
	runC07()
}

func runC07() {
	c := vlib.Start("C07")
	defer c.Finish()
	if os.Getenv("VERIF_LOG") == "" {
		logrus.SetOutput(io.Discard)
	}
	nHist, nKill, nStart := 200, 24, 8
	if c.Tier == "thorough" {
		nHist, nKill, nStart = 5000, 204, 64
	}
	lo, hi := c.Slice(nHist)
	for i := lo; i < hi; i++ {
		runHistory(c, int64(i), "inproc")
	}
	lo, hi = c.Slice(nKill)
	for i := lo; i < hi; i++ {
		runHistory(c, int64(1_000_000+i), "kill")
	}
	// remote layer: RemoteService clients -> gRPC -> RpcServer -> local.Service -> fake Consul
	nRemote := 80
	if c.Tier == "thorough" {
		nRemote = 1600
	}
	lo, hi = c.Slice(nRemote)
	for i := lo; i < hi; i++ {
		runHistory(c, int64(6_000_000+i), "remote")
	}
	// file backend: counter in <coreWorkingDir>/runcounter.txt (sets viper coreWorkingDir)
	nFile := 60
	if c.Tier == "thorough" {
		nFile = 1200
	}
	lo, hi = c.Slice(nFile)
	for i := lo; i < hi; i++ {
		runFileHistory(c, int64(i))
	}
	if os.Getenv("VERIF_C07_FILE_CONCURRENT") != "0" { // fired on the pinned tree, holds since fix 7a646a5
		lo, hi = c.Slice(nFile / 3)
		for i := lo; i < hi; i++ {
			runFileConcurrent(c, int64(i))
		}
	}
	// START_ACTIVITY side last: it installs process-wide singletons (viper, apricot.Instance).
	nSeq := 24
	if c.Tier == "thorough" {
		nSeq = 192
	}
	lo, hi = c.Slice(nStart)
	slo, shi := c.Slice(nSeq)
	if hi > lo || shi > slo {
		runStartSide(c, lo, hi, slo, shi)
	}
}
