package main

// Callers. A caller is one "core instance": its own apricot/local.Service on
// consul://addr. inprocCaller lives in the monitor process; childCaller is a
// re-exec of this binary (`--worker addr tag`) that can be SIGKILLed.
//
// Requests are attributed to callers through the Consul client's own namespace
// parameter: CONSUL_NAMESPACE=<tag> at the time api.DefaultConfig() runs makes
// the real client append ns=<tag> to every request it sends (sim/consul logs the
// query string). Nothing in /repo is touched for this.

import (
	"bufio"
	"fmt"
	"io"
	"os"
	"os/exec"
	"strconv"
	"strings"
	"sync"

	"github.com/spf13/viper"

	"github.com/AliceO2Group/Control/apricot/cacheproxy"
	"github.com/AliceO2Group/Control/apricot/local"
)

type caller interface {
	// Call runs one NewRunNumber(); killed = the instance died before answering.
	Call(j int) (n uint64, err error, killed bool)
	Kill()
	Close()
}

var envMu sync.Mutex

func newTaggedService(addr, tag string) (*local.Service, error) {
	envMu.Lock()
	defer envMu.Unlock()
	os.Setenv("CONSUL_NAMESPACE", tag)
	defer os.Unsetenv("CONSUL_NAMESPACE")
	return local.NewService("consul://" + addr)
}

type runNumberer interface {
	NewRunNumber() (uint32, error)
}

type inprocCaller struct{ svc runNumberer }

// newInprocCaller: a core instance on consul://addr. With proxy, the service is
// wrapped the way apricot.newService does it with configCache=true: ONE
// cacheproxy.Service in front of it, shared by every caller of the instance.
func newInprocCaller(addr, tag string, proxy bool) (caller, error) {
	svc, err := newTaggedService(addr, tag)
	if err != nil {
		return nil, err
	}
	if proxy {
		ps, err := cacheproxy.NewService(svc)
		if err != nil {
			return nil, fmt.Errorf("cacheproxy.NewService: %w", err)
		}
		return &inprocCaller{svc: ps}, nil
	}
	return &inprocCaller{svc: svc}, nil
}

func (ic *inprocCaller) Call(int) (uint64, error, bool) {
	n, err := ic.svc.NewRunNumber()
	return uint64(n), err, false
}
func (ic *inprocCaller) Kill()  {}
func (ic *inprocCaller) Close() {}

// ---------- child process ----------

type childCaller struct {
	cmd    *exec.Cmd
	in     io.WriteCloser
	rd     *os.File
	out    *bufio.Reader
	exited chan struct{}
	once   sync.Once
}

// newChildCaller starts a core instance in its own process; opts are viper
// settings ("key=value") the child applies before it builds its Service.
func newChildCaller(addr, tag string, opts []string) (caller, error) {
	// /proc/self/exe is the running image even if the file was rebuilt meanwhile
	exe := "/proc/self/exe"
	if _, err := os.Stat(exe); err != nil {
		if exe, err = os.Executable(); err != nil {
			return nil, err
		}
	}
	pr, pw, err := os.Pipe()
	if err != nil {
		return nil, err
	}
	cmd := exec.Command(exe, append([]string{"--worker", addr, tag}, opts...)...)
	var env []string
	for _, kv := range os.Environ() {
		if strings.HasPrefix(kv, "CONSUL_") || strings.HasPrefix(kv, "GORACE=") {
			continue
		}
		env = append(env, kv)
	}
	// the race runtime sleeps 1 s at exit by default; the children have nothing to flush
	gorace := strings.TrimSpace(os.Getenv("GORACE") + " atexit_sleep_ms=0")
	cmd.Env = append(env, "CONSUL_NAMESPACE="+tag, "GORACE="+gorace)
	cmd.Stdout = pw
	cmd.Stderr = os.Stderr
	in, err := cmd.StdinPipe()
	if err != nil {
		pr.Close()
		pw.Close()
		return nil, err
	}
	if err := cmd.Start(); err != nil {
		pr.Close()
		pw.Close()
		return nil, err
	}
	pw.Close()
	cc := &childCaller{cmd: cmd, in: in, rd: pr, out: bufio.NewReader(pr), exited: make(chan struct{})}
	go func() {
		_ = cmd.Wait()
		close(cc.exited)
	}()
	// the child says READY once its Service exists
	line, err := cc.out.ReadString('\n')
	if err != nil || strings.TrimSpace(line) != "READY" {
		cc.Kill()
		cc.Close()
		return nil, fmt.Errorf("worker child did not come up: %q %v", line, err)
	}
	return cc, nil
}

func (cc *childCaller) Call(j int) (uint64, error, bool) {
	if _, err := fmt.Fprintf(cc.in, "GO %d\n", j); err != nil {
		return 0, nil, true
	}
	for {
		line, err := cc.out.ReadString('\n')
		if err != nil {
			return 0, nil, true // EOF: the child is dead
		}
		f := strings.SplitN(strings.TrimSpace(line), " ", 4)
		if len(f) >= 2 && f[0] == "CALL" {
			continue
		}
		if len(f) >= 3 && f[0] == "RET" && f[1] == strconv.Itoa(j) {
			if f[2] == "ok" && len(f) == 4 {
				n, perr := strconv.ParseUint(f[3], 10, 64)
				if perr != nil {
					return 0, fmt.Errorf("unparsable child answer %q", line), false
				}
				return n, nil, false
			}
			msg := ""
			if len(f) == 4 {
				msg = f[3]
			}
			return 0, fmt.Errorf("%s", msg), false
		}
	}
}

func (cc *childCaller) Kill() {
	cc.once.Do(func() { _ = cc.cmd.Process.Kill() })
	<-cc.exited
}

func (cc *childCaller) Close() {
	_ = cc.in.Close() // EOF on stdin: the child exits
	<-cc.exited
	_ = cc.rd.Close()
}

// workerMain is the child side: one Service, one call per "GO <j>" line. A line
// is printed before and after every call, so the parent knows how far it got.
func workerMain(args []string) {
	if len(args) < 2 {
		os.Exit(64)
	}
	addr := args[0]
	for _, kv := range args[2:] {
		if i := strings.Index(kv, "="); i > 0 {
			viper.Set(kv[:i], kv[i+1:])
		}
	}
	svc, err := local.NewService("consul://" + addr)
	if err != nil {
		fmt.Printf("FAIL %v\n", err)
		os.Exit(3)
	}
	fmt.Println("READY")
	sc := bufio.NewScanner(os.Stdin)
	for sc.Scan() {
		f := strings.Fields(sc.Text())
		if len(f) != 2 || f[0] != "GO" {
			continue
		}
		fmt.Printf("CALL %s\n", f[1])
		n, err := svc.NewRunNumber()
		if err != nil {
			fmt.Printf("RET %s err %s\n", f[1], strings.ReplaceAll(err.Error(), "\n", " "))
		} else {
			fmt.Printf("RET %s ok %d\n", f[1], n)
		}
	}
}
