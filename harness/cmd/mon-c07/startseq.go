package main

// Multi-step sequences on the real environment FSM: every START_ACTIVITY
// attempt — also one that follows a start that was cancelled AFTER its number
// had been drawn, a STOP, or a start of another environment — must run with a
// number that is new, larger than every number drawn before, and the value the
// counter holds at that moment.
//
// A start is cancelled after the draw in two ways: a critical call hook at
// before_START_ACTIVITY+10 that fails (testplugin.Test() with testplugin_fail),
// or the task part of the transition returning an error (leave_CONFIGURED).

import (
	"fmt"
	"strconv"

	"github.com/AliceO2Group/Control/common/utils/uid"
	"github.com/AliceO2Group/Control/core/environment"
	"github.com/AliceO2Group/Control/core/workflow"

	"verif/harness/inproc"
	"verif/harness/vlib"
)

const seqWorkflow = `name: c07hook
roles:
  - name: call
    call:
      func: testplugin.Test()
      trigger: before_START_ACTIVITY+10
      await: before_START_ACTIVITY+10
      timeout: 5s
      critical: true
`

type seqStep struct {
	Env int    `json:"env"`
	Act string `json:"act"` // start | start-hookfail | start-bodyfail | stop
}

type seqCase struct {
	Idx   int       `json:"idx"`
	Kind  string    `json:"kind"`
	Bump  int       `json:"foreign_bump"`
	Steps []seqStep `json:"steps"`
}

type seqObs struct {
	Step          seqStep  `json:"step"`
	Err           string   `json:"error,omitempty"`
	State         string   `json:"state_after"`
	RN            uint32   `json:"env_run_number_after"`
	CounterBefore string   `json:"counter_before"`
	CounterAfter  string   `json:"counter_after"`
	Drawn         []uint64 `json:"numbers_drawn_by_this_attempt"` // bodies of applied, true CASes
}

type seqWitness struct {
	Case seqCase  `json:"case"`
	Obs  []seqObs `json:"observed"`
}

var seqKinds = []string{"cancelled-by-hook-then-start", "cancelled-by-tasks-then-start", "several-cancels-start-stop-cancel-start",
	"start-stop-start", "two-environments-alternating", "two-environments-random"}

func genSeq(c *vlib.Ctx, idx int) seqCase {
	r := c.SubRand(int64(3_000_000 + idx))
	sc := seqCase{Idx: idx, Kind: seqKinds[idx%len(seqKinds)], Bump: r.Intn(20)}
	st := func(env int, act string) { sc.Steps = append(sc.Steps, seqStep{env, act}) }
	fails := []string{"start-hookfail", "start-bodyfail"}
	switch sc.Kind {
	case "cancelled-by-hook-then-start":
		st(0, "start-hookfail")
		st(0, "start")
	case "cancelled-by-tasks-then-start":
		st(0, "start-bodyfail")
		st(0, "start")
	case "several-cancels-start-stop-cancel-start":
		for k := 1 + r.Intn(3); k > 0; k-- {
			st(0, fails[r.Intn(2)])
		}
		st(0, "start")
		st(0, "stop")
		st(0, fails[r.Intn(2)])
		st(0, "start")
	case "start-stop-start":
		st(0, "start")
		for k := 1 + r.Intn(3); k > 0; k-- {
			st(0, "stop")
			st(0, "start")
		}
	case "two-environments-alternating":
		st(0, "start")
		st(1, "start")
		for k := 1 + r.Intn(2); k > 0; k-- {
			st(0, "stop")
			st(0, "start")
			st(1, "stop")
			st(1, "start")
		}
	default: // random walk of two environments, cancels included
		running := []bool{false, false}
		for k := 6 + r.Intn(6); k > 0; k-- {
			e := r.Intn(2)
			switch {
			case running[e]:
				st(e, "stop")
				running[e] = false
			case r.Intn(3) == 0:
				st(e, fails[r.Intn(2)])
			default:
				st(e, "start")
				running[e] = true
			}
		}
		for e := 0; e < 2; e++ { // end with a start of each, whatever happened before
			if running[e] {
				st(e, "stop")
			}
			st(e, "start")
		}
	}
	return sc
}

func runStartSequences(c *vlib.Ctx, ie *inproc.Env, given map[uint32]int, lo, hi int) {
	s := ie.Consul
	s.Plan = nil
	// every number known to have been handed out in this process -> who got it
	type holder struct {
		what      string
		cancelled bool
	}
	hist := map[uint64]holder{}
	for n, i := range given {
		hist[uint64(n)] = holder{what: fmt.Sprintf("start case %d", i)}
	}
	for i := lo; i < hi; i++ {
		sc := genSeq(c, i)
		id := c.Case(sc)
		c.Count("seq_cases", 1)
		c.Count("seq_"+sc.Kind, 1)
		c.Nontrivial(vlib.Hash("seq", sc.Kind, len(sc.Steps)))
		// a foreign writer moves the counter up between sequences
		if v, ok := s.Get(runKey); ok && sc.Bump > 0 {
			if cur, err := strconv.ParseUint(v, 10, 32); err == nil {
				s.Put(runKey, strconv.FormatUint(cur+uint64(sc.Bump), 10))
			}
		}
		var envs []*environment.Environment
		var roots []workflow.Role
		ok := true
		for k := 0; k < 2 && ok; k++ {
			env, err := environment.VerifNewEnvironment(map[string]string{}, uid.New())
			if err != nil {
				c.Inconclusive("newEnvironment: " + err.Error())
				ok = false
				break
			}
			wf, err := ie.Load("c07hook", environment.VerifParent(env), nil, nil)
			if err != nil {
				c.Inconclusive("workflow.Load(c07hook): " + err.Error())
				ok = false
				break
			}
			environment.VerifSetWorkflow(env, wf)
			env.Sm.SetState("CONFIGURED")
			envs, roots = append(envs, env), append(roots, wf)
		}
		if !ok {
			return
		}
		w := seqWitness{Case: sc}
		var maxBefore uint64
		for n := range hist {
			if n > maxBefore {
				maxBefore = n
			}
		}
		cancelledSinceStart := []bool{false, false}
		stoppedBefore := []bool{false, false}
		otherStartedSince := []bool{false, false}
	steps:
		for _, st := range sc.Steps {
			env, root := envs[st.Env], roots[st.Env]
			ob := seqObs{Step: st}
			ob.CounterBefore, _ = s.Get(runKey)
			s.ResetLog()
			var err error
			switch st.Act {
			case "stop":
				err = env.TryTransition(environment.VerifNewTransition("STOP_ACTIVITY", nil))
			case "start":
				root.GetUserVars().Set("testplugin_fail", "false")
				err = env.TryTransition(environment.VerifNewTransition("START_ACTIVITY", nil))
			case "start-hookfail":
				root.GetUserVars().Set("testplugin_fail", "true")
				err = env.TryTransition(environment.VerifNewTransition("START_ACTIVITY", nil))
			case "start-bodyfail":
				root.GetUserVars().Set("testplugin_fail", "false")
				err = env.TryTransition(environment.VerifNewTransition("START_ACTIVITY", func(*environment.Environment) error {
					return fmt.Errorf("tasks failed to start (injected)")
				}))
			}
			if err != nil {
				ob.Err = err.Error()
			}
			ob.State, ob.RN = env.Sm.Current(), env.GetCurrentRunNumber()
			ob.CounterAfter, _ = s.Get(runKey)
			for _, l := range startLog(s) {
				if l.Method == "PUT" && l.Applied && l.Result == "true" {
					if n, perr := strconv.ParseUint(l.Body, 10, 32); perr == nil {
						ob.Drawn = append(ob.Drawn, n)
					}
				}
			}
			w.Obs = append(w.Obs, ob)
			c.Count("seq_steps", 1)
			who := fmt.Sprintf("sequence %d env %d step %d (%s)", i, st.Env, len(w.Obs)-1, st.Act)

			switch st.Act {
			case "stop":
				if err != nil || ob.State != "CONFIGURED" {
					c.Inconclusive(fmt.Sprintf("%s: STOP_ACTIVITY did not bring the environment back to CONFIGURED: %v / %s", who, err, ob.State))
					break steps
				}
				stoppedBefore[st.Env] = true
			case "start-hookfail", "start-bodyfail":
				if err == nil || ob.State != "CONFIGURED" {
					c.Inconclusive(fmt.Sprintf("%s: the start was meant to be cancelled but ended %v / %s", who, err, ob.State))
					break steps
				}
				if len(ob.Drawn) > 0 {
					c.Count("start_cancelled_after_draw", 1)
				}
				for _, n := range ob.Drawn {
					if _, seen := hist[n]; !seen {
						hist[n] = holder{what: who, cancelled: true}
					}
				}
				cancelledSinceStart[st.Env] = true
			case "start":
				if err != nil || ob.State != "RUNNING" {
					c.Inconclusive(fmt.Sprintf("%s: healthy START_ACTIVITY did not reach RUNNING: %v / %s", who, err, ob.State))
					break steps
				}
				n := uint64(ob.RN)
				prev, reused := hist[n]
				switch {
				case reused && prev.cancelled:
					c.Violation("START", "number-reused-after-cancelled-start",
						fmt.Sprintf("%s runs with number %d, which had already been drawn by %s (that attempt was cancelled after the draw); this attempt drew %v", who, n, prev.what, ob.Drawn), id, w)
				case reused:
					c.Violation("START", "run-number-reused-by-start", fmt.Sprintf("%s runs with number %d, already given to %s", who, n, prev.what), id, w)
				case n == 0 || n <= maxBefore:
					c.Violation("START", "run-number-not-larger", fmt.Sprintf("%s runs with number %d; %d had been handed out before", who, n, maxBefore), id, w)
				}
				if ob.CounterAfter != strconv.FormatUint(n, 10) {
					c.Violation("START", "run-number-not-the-counter-value", fmt.Sprintf("%s runs with number %d but the counter holds %q", who, n, ob.CounterAfter), id, w)
				}
				if !reused {
					hist[n] = holder{what: who}
				}
				for _, d := range ob.Drawn {
					if _, seen := hist[d]; !seen {
						hist[d] = holder{what: who}
					}
				}
				if cancelledSinceStart[st.Env] {
					c.Count("start_after_cancelled_start", 1)
				}
				if stoppedBefore[st.Env] {
					c.Count("start_after_stop", 1)
				}
				if otherStartedSince[st.Env] {
					c.Count("start_after_other_environment_started", 1)
				}
				cancelledSinceStart[st.Env] = false
				otherStartedSince[st.Env] = false
				otherStartedSince[1-st.Env] = true
			}
			for n := range hist {
				if n > maxBefore {
					maxBefore = n
				}
			}
		}
		if i == lo {
			c.Sample(w)
		}
	}
}
