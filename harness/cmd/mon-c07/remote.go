package main

// Remote layer: the real gRPC chain in-process. One apricot server
// (remote.NewServer over a real local.Service over ConsulSource on the fake
// Consul) and one real RemoteService client per caller
// (remote.NewService("apricot://host:port"), what apricot.Instance() builds for
// an apricot:// endpoint). The server can be stopped and started again in the
// middle of a history; it keeps its address.

import (
	"errors"
	"fmt"
	"net"
	"sync"

	"google.golang.org/grpc"

	"github.com/AliceO2Group/Control/apricot/cacheproxy"
	"github.com/AliceO2Group/Control/apricot/remote"
	"github.com/AliceO2Group/Control/configuration"
)

type srvRestartDesc struct {
	Actor int  `json:"by_caller"` // the caller in front of whose call the server goes down
	Call  int  `json:"before_call"`
	Hard  bool `json:"hard"` // Stop() (connections cut, handlers keep running) instead of GracefulStop()
}

// epochListener is what one incarnation of the gRPC server serves on.
type epochListener struct {
	addr   net.Addr
	ch     chan net.Conn
	closed chan struct{}
	once   sync.Once
}

func (l *epochListener) Accept() (net.Conn, error) {
	select {
	case c := <-l.ch:
		return c, nil
	case <-l.closed:
		return nil, errors.New("listener closed")
	}
}
func (l *epochListener) Close() error   { l.once.Do(func() { close(l.closed) }); return nil }
func (l *epochListener) Addr() net.Addr { return l.addr }

// remoteNode owns the one real TCP listener of the history; connections that
// arrive while no server incarnation is up are closed at once.
type remoteNode struct {
	e    *engine
	real net.Listener
	addr string

	// up is held for reading while a client is being created, for writing while
	// the server changes state (a dial with WithBlock must not meet a dead server)
	up sync.RWMutex

	mu     sync.Mutex
	cur    *epochListener
	srv    *grpc.Server
	epoch  int
	tag    string
	isDown bool
}

func newRemoteNode(e *engine) (*remoteNode, error) {
	ln, err := net.Listen("tcp", "127.0.0.1:0")
	if err != nil {
		return nil, err
	}
	n := &remoteNode{e: e, real: ln, addr: ln.Addr().String(), isDown: true}
	go func() {
		for {
			c, err := ln.Accept()
			if err != nil {
				return
			}
			n.mu.Lock()
			l := n.cur
			n.mu.Unlock()
			if l == nil {
				c.Close()
				continue
			}
			select {
			case l.ch <- c:
			case <-l.closed:
				c.Close()
			}
		}
	}()
	return n, nil
}

func (n *remoteNode) start() error {
	n.up.Lock()
	defer n.up.Unlock()
	n.mu.Lock()
	n.epoch++
	tag := fmt.Sprintf("g0r%d", n.epoch)
	n.mu.Unlock()
	n.e.mu.Lock()
	n.e.tagGroup[tag] = 0
	n.e.mu.Unlock()
	svc, err := newTaggedService(n.e.s.Addr, tag)
	if err != nil {
		return err
	}
	var served configuration.Service = svc
	if n.e.d.Proxy == "apricot" {
		// the apricot component with configCache=true: cache proxy between RpcServer and local.Service
		ps, err := cacheproxy.NewService(svc)
		if err != nil {
			return fmt.Errorf("cacheproxy.NewService: %w", err)
		}
		served = ps
	}
	srv := remote.NewServer(served)
	l := &epochListener{addr: n.real.Addr(), ch: make(chan net.Conn), closed: make(chan struct{})}
	n.mu.Lock()
	n.cur, n.srv, n.tag, n.isDown = l, srv, tag, false
	n.mu.Unlock()
	go func() { _ = srv.Serve(l) }()
	return nil
}

func (n *remoteNode) stop(hard bool) {
	n.up.Lock()
	defer n.up.Unlock()
	n.mu.Lock()
	srv := n.srv
	n.cur, n.srv, n.isDown = nil, nil, true
	n.mu.Unlock()
	if srv == nil {
		return
	}
	if hard {
		srv.Stop()
	} else {
		// calls in flight (held at a gate of the fake Consul) finish; new ones are refused
		go srv.GracefulStop()
	}
}

func (n *remoteNode) state() (epoch int, tag string, down bool) {
	n.mu.Lock()
	defer n.mu.Unlock()
	return n.epoch, n.tag, n.isDown
}

func (n *remoteNode) close() {
	n.stop(true)
	n.real.Close()
}

// remoteClient is one core's connection to the apricot server.
type remoteClient struct {
	svc   configuration.Service
	epoch int
	tag   string
}

func (rc *remoteClient) Call(int) (uint64, error, bool) {
	n, err := rc.svc.NewRunNumber()
	return uint64(n), err, false
}
func (rc *remoteClient) Kill()  {}
func (rc *remoteClient) Close() {}

func (n *remoteNode) dial() (*remoteClient, error) {
	n.up.RLock()
	defer n.up.RUnlock()
	epoch, tag, down := n.state()
	if down {
		return nil, errors.New("apricot server is down")
	}
	svc, err := remote.NewService("apricot://" + n.addr)
	if err != nil {
		return nil, err
	}
	if n.e.d.Proxy == "core" {
		// a core with configCache=true: cache proxy in front of its RemoteService
		ps, err := cacheproxy.NewService(svc)
		if err != nil {
			return nil, fmt.Errorf("cacheproxy.NewService: %w", err)
		}
		svc = ps
	}
	return &remoteClient{svc: svc, epoch: epoch, tag: tag}, nil
}

// clientGroup = one core: ClientShare callers (environments) behind one client.
type clientGroup struct {
	mu sync.Mutex
	rc *remoteClient
}

// remoteCaller gives caller `actor` the client to use for its next call: the one
// its core has, unless the server it was connected to is gone and another one is
// up (the core reconnects).
func (e *engine) remoteCaller(actor int) (*remoteClient, error) {
	g := e.clients[actor/e.d.ClientShare]
	g.mu.Lock()
	defer g.mu.Unlock()
	have := g.rc
	epoch, _, down := e.remote.state()
	if have != nil && (down || have.epoch == epoch) {
		return have, nil
	}
	if have == nil && down {
		return nil, errors.New("apricot server is down and the caller has no connection yet")
	}
	rc, err := e.remote.dial()
	if err != nil && have != nil {
		return have, nil // went down meanwhile: keep the old connection, the call will fail
	}
	if err == nil {
		g.rc = rc
	}
	return rc, err
}
