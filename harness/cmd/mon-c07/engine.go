package main

// One history = one fresh fake Consul, W worker actors (each its own Service),
// 0-2 foreign writers, a scheduler that holds every request (and every call
// invocation) at a gate and releases them one at a time in a seeded order, a
// per-request fault plan, optional restarts and one optional kill point.

import (
	"encoding/base64"
	"encoding/json"
	"fmt"
	"io"
	"math/rand"
	"net/http"
	"net/url"
	"os"
	"sort"
	"strconv"
	"strings"
	"sync"
	"time"

	"github.com/spf13/viper"

	"verif/harness/sim/consul"
	"verif/harness/vlib"
)

// the key NewRunNumber() works on: filepath.Join(getConsulRuntimePrefix(), "run_number")
const runKey = "o2/runtime/run_number"

type killDesc struct {
	Victim int    `json:"victim"`
	Call   int    `json:"call"`
	Point  string `json:"point"` // get-served | cas-inflight | cas-applied
}

type histDesc struct {
	Idx     int64           `json:"idx"`
	Kind    string          `json:"kind"` // inproc | kill | remote
	W       int             `json:"workers"`
	Share   int             `json:"share"` // callers per core instance (Service): 1 = each its own
	Calls   []int           `json:"calls"`
	Mode    string          `json:"mode"` // gated | free
	Policy  string          `json:"policy"`
	Faults  string          `json:"faults"`  // none | light | heavy
	Foreign [][]string      `json:"foreign"` // per foreign writer: "cas" | "put"
	Preset  int64           `json:"preset"`  // -1 = key absent
	Restart [][]bool        `json:"restart,omitempty"`
	Kill    *killDesc       `json:"kill,omitempty"`
	SrvRest *srvRestartDesc `json:"apricot_server_restart,omitempty"`
	// cache proxy (configCache=true) in the chain: "" | core (in front of the core's local or
	// remote service, shared by the callers of that core) | apricot (inside the apricot server)
	Proxy       string `json:"cache_proxy,omitempty"`
	ClientShare int    `json:"callers_per_remote_client,omitempty"`
	// configuration options a core may legally run with, switched on (viper keys set before
	// any Service of the history is built, restored afterwards)
	Options map[string]string `json:"options,omitempty"`
	FSeed   uint64            `json:"fseed"`
	SSeed   int64             `json:"sseed"`
}

type opRec struct {
	Actor  int    `json:"actor"`
	Tag    string `json:"tag"`
	ID     int    `json:"id"`
	Kind   string `json:"kind"` // call | probe | fcas | fput
	Call   int64  `json:"call_seq"`
	Ret    int64  `json:"ret_seq"`
	OK     bool   `json:"ok"`
	N      uint64 `json:"n,omitempty"`
	Err    string `json:"err,omitempty"`
	Killed bool   `json:"killed,omitempty"`
}

var policies = []string{"uniform", "reads-first", "serial", "foreign-between", "lifo-cas"}

// genRemoteDesc: 4-8 callers, each with its own RemoteService client, behind one apricot server.
func genRemoteDesc(r *rand.Rand, d *histDesc) {
	d.Kind = "remote"
	d.W = []int{4, 6, 8}[r.Intn(3)]
	d.Share = d.W
	d.ClientShare = 1
	if d.Idx%3 == 0 {
		if (d.Idx/3)%2 == 0 {
			d.Proxy = "apricot"
		} else {
			d.Proxy = "core"
			d.ClientShare = []int{2, d.W / 2, d.W}[r.Intn(3)]
		}
	}
	budget := 39
	for f, nf := 0, r.Intn(3); f < nf; f++ {
		var ops []string
		for k := 2 + r.Intn(3); k > 0; k-- {
			if f == 0 && r.Intn(4) == 0 {
				ops = append(ops, "put")
			} else {
				ops = append(ops, "cas")
			}
			budget--
		}
		d.Foreign = append(d.Foreign, ops)
	}
	maxK := map[int]int{4: 6, 6: 4, 8: 3}[d.W]
	if budget/d.W < maxK {
		maxK = budget / d.W
	}
	k := 2 + r.Intn(maxK-1)
	for i := 0; i < d.W; i++ {
		d.Calls = append(d.Calls, k)
	}
	d.Mode = "gated"
	if r.Intn(4) == 0 {
		d.Mode = "free"
	}
	// starve-one: caller 0 loses CAS after CAS (exhausts any retry loop in front of the counter)
	d.Policy = append([]string{"starve-one", "starve-one", "starve-one"}, policies...)[r.Intn(3+len(policies))]
	d.Faults = []string{"none", "none", "none", "light", "light", "light", "light", "heavy", "heavy", "heavy"}[r.Intn(10)]
	if r.Intn(2) == 0 {
		a := r.Intn(d.W)
		d.SrvRest = &srvRestartDesc{Actor: a, Call: 1 + r.Intn(d.Calls[a]-1), Hard: d.Mode == "free" && r.Intn(2) == 0}
	}
}

func genDesc(r *rand.Rand, idx int64, kind string) *histDesc {
	d := &histDesc{Idx: idx, Kind: "inproc", FSeed: r.Uint64(), SSeed: r.Int63()}
	kill := kind == "kill"
	if kind == "remote" {
		genRemoteDesc(r, d)
	} else if kill {
		d.Kind = "kill"
		d.W = 2 + r.Intn(2)
		d.Share = 1
		d.Mode = "gated"
		d.Policy = policies[r.Intn(len(policies))]
		d.Faults = []string{"none", "none", "light"}[r.Intn(3)]
		for i := 0; i < d.W; i++ {
			d.Calls = append(d.Calls, 2+r.Intn(3))
		}
		if r.Intn(2) == 0 {
			d.Foreign = [][]string{{"cas", []string{"cas", "put"}[r.Intn(2)]}}
		}
		v := r.Intn(d.W)
		d.Kill = &killDesc{Victim: v, Call: r.Intn(d.Calls[v]), Point: []string{"get-served", "cas-inflight", "cas-applied"}[int(idx%3)]}
	} else {
		d.W = []int{2, 4, 8}[r.Intn(3)]
		// one Service per caller (separate cores), one Service for all (environments of one
		// core starting at once), or pairs
		d.Share = []int{1, 1, 2, d.W}[r.Intn(4)]
		if idx%3 == 0 {
			d.Proxy = "core" // every third: the core runs with configCache=true
			d.Share = []int{2, d.W}[r.Intn(2)]
		}
		budget := 39 // + the final probe = 40
		nf := []int{0, 0, 0, 1, 1, 1, 1, 2, 2, 2}[r.Intn(10)]
		for f := 0; f < nf; f++ {
			var ops []string
			for k := 1 + r.Intn(3); k > 0; k-- {
				if f == 0 && r.Intn(2) == 0 {
					ops = append(ops, "put") // only writer 0 issues blind PUTs (keeps them monotone)
				} else {
					ops = append(ops, "cas")
				}
				budget--
			}
			d.Foreign = append(d.Foreign, ops)
		}
		maxK := map[int]int{2: 8, 4: 5, 8: 3}[d.W]
		if budget/d.W < maxK {
			maxK = budget / d.W
		}
		minK := 1
		if d.W == 2 {
			minK = 2
		}
		k := minK + r.Intn(maxK-minK+1)
		for i := 0; i < d.W; i++ {
			n := k
			if n > 1 && r.Intn(3) == 0 {
				n--
			}
			d.Calls = append(d.Calls, n)
		}
		d.Mode = "gated"
		if r.Intn(4) == 0 {
			d.Mode = "free"
		}
		d.Policy = policies[r.Intn(len(policies))]
		d.Faults = []string{"none", "none", "none", "light", "light", "light", "light", "heavy", "heavy", "heavy"}[r.Intn(10)]
		// restarts: per call, or every instance at the same call index
		d.Restart = make([][]bool, d.W)
		all := -1
		if r.Intn(5) == 0 && k > 1 {
			all = 1 + r.Intn(k-1)
		}
		for i := range d.Restart {
			d.Restart[i] = make([]bool, d.Calls[i])
			for j := 1; j < d.Calls[i]; j++ {
				d.Restart[i][j] = j == all || r.Intn(7) == 0
			}
		}
	}
	if idx%4 == 1 {
		// every fourth history: verbose / veryVerbose / ... on, at least two core instances,
		// and a counter well above what a private counter would hand out
		d.Options = map[string]string{}
		if r.Intn(4) != 0 {
			d.Options["verbose"] = "true"
		}
		if r.Intn(2) == 0 || len(d.Options) == 0 {
			d.Options["veryVerbose"] = "true"
		}
		if r.Intn(2) == 0 {
			d.Options["trimSpaceInVarsFromConsulKV"] = "true"
		}
		d.Options["component"] = []string{"core", "apricot"}[r.Intn(2)]
		switch d.Kind {
		case "inproc":
			if d.Share == d.W {
				d.Share = d.W / 2
			}
		case "remote":
			if d.SrvRest == nil {
				a := r.Intn(d.W)
				d.SrvRest = &srvRestartDesc{Actor: a, Call: 1 + r.Intn(d.Calls[a]-1)}
			}
		}
		d.Preset = int64(100 + r.Intn(3000))
		return d
	}
	switch x := r.Intn(10); {
	case x < 3:
		d.Preset = -1
	case x < 5:
		d.Preset = 0
	case x < 9:
		d.Preset = int64(1 + r.Intn(500))
	default:
		d.Preset = int64(100000 + r.Intn(4000000))
	}
	return d
}

// group = one core instance: one Service (or one child process), used by
// Share callers; a restart replaces it for all of them.
type group struct {
	mu      sync.Mutex
	id      int
	inc     int
	tag     string
	cl      caller
	members []int
}

type engine struct {
	c   *vlib.Ctx
	d   *histDesc
	s   *consul.Server
	sch *sched
	hc  *http.Client

	mu        sync.Mutex
	ops       []opRec
	tagActor  map[string]int // foreign writers and the probe
	tagGroup  map[string]int // incarnation tag of a core instance -> group
	groups    []*group
	remote    *remoteNode
	clients   []*clientGroup
	workDir   string        // scratch coreWorkingDir of the history (options histories)
	quiesced  bool          // the scheduler is gone: later requests (the probe) pass
	reqActor  map[int64]int // request arrival number -> caller it was attributed to
	reqOrd    map[int]int
	cur       map[int]int
	curTag    map[int]string
	callers   map[int]caller
	killFired bool
	killDone  string
	problems  []string
	restarts  int
}

func (e *engine) problem(s string) {
	e.mu.Lock()
	e.problems = append(e.problems, s)
	e.mu.Unlock()
}

func (e *engine) addOp(op opRec) {
	e.mu.Lock()
	e.ops = append(e.ops, op)
	e.mu.Unlock()
}

func tagOf(req *consul.Req) string {
	if req.Client != "" {
		return req.Client
	}
	q, err := url.ParseQuery(req.Query)
	if err != nil {
		return ""
	}
	return q.Get("ns")
}

func reqKind(method string, cas int64) string {
	switch {
	case method == "GET":
		return "get"
	case method == "PUT" && cas >= 0:
		return "cas"
	case method == "PUT":
		return "put"
	}
	return strings.ToLower(method)
}

func splitmix(x uint64) uint64 {
	x += 0x9e3779b97f4a7c15
	x = (x ^ (x >> 30)) * 0xbf58476d1ce4e5b9
	x = (x ^ (x >> 27)) * 0x94d049bb133111eb
	return x ^ (x >> 31)
}

// u01 is a deterministic pseudo-random number in [0,1) for (history, a, b, c).
func (e *engine) u01(a, b, c int) float64 {
	h := splitmix(e.d.FSeed ^ splitmix(uint64(a)+1) ^ splitmix(uint64(b)<<20+7) ^ splitmix(uint64(c)<<40+13))
	return float64(h>>11) / float64(1<<53)
}

// faultFor decides the fate of the ord-th request of a worker actor; it depends
// only on (history seed, actor, ordinal, kind), not on arrival order.
func (e *engine) faultFor(actor, ord int, kind string) consul.Fault {
	var f consul.Fault
	p := map[string]float64{"none": 0, "light": 0.06, "heavy": 0.18}[e.d.Faults]
	x := e.u01(actor, ord, 1)
	switch kind {
	case "get":
		switch {
		case x < p:
			f.Err500 = true
		case x < 2*p:
			f.SeverBefore = true
		case x < 2.5*p:
			f.SeverAfter = true
		}
	default: // the write
		switch {
		case x < p:
			f.Err500 = true
		case x < 2*p:
			f.SeverBefore = true
		case x < 3.5*p:
			f.SeverAfter = true // applied, but the caller sees a broken connection
		}
	}
	if e.d.Mode == "free" {
		if y := e.u01(actor, ord, 2); y < 0.6 {
			f.DelayBefore = time.Duration(y*2500) * time.Microsecond
		}
		if y := e.u01(actor, ord, 3); y < 0.4 {
			f.DelayAfter = time.Duration(y*2500) * time.Microsecond
		}
	}
	return f
}

func (e *engine) plan(req *consul.Req) consul.Fault {
	if req.Key != runKey {
		return consul.Fault{}
	}
	tag := tagOf(req)
	kind := reqKind(req.Method, req.Cas)
	sole, soleOK := -1, false
	if e.sch != nil {
		sole, soleOK = e.sch.soleRunning()
	}
	e.mu.Lock()
	if e.quiesced {
		e.mu.Unlock()
		return consul.Fault{}
	}
	actor, ok := e.tagActor[tag]
	if g, isGroup := e.tagGroup[tag]; isGroup {
		m := e.groups[g].members
		switch {
		case len(m) == 1:
			actor, ok = m[0], true
		case e.sch == nil:
			actor, ok = m[0], true // free mode: only the fault ordinal hangs on it
		case soleOK && sole/e.d.Share == g:
			// scheduled mode: exactly one actor moves at a time, so the request is its
			actor, ok = sole, true
		default:
			e.problems = append(e.problems, fmt.Sprintf("request of %s cannot be attributed to a caller (running: %d/%v)", tag, sole, soleOK))
			e.mu.Unlock()
			return consul.Fault{}
		}
	}
	if !ok || actor < 0 {
		e.mu.Unlock()
		return consul.Fault{}
	}
	ord := e.reqOrd[actor]
	e.reqOrd[actor]++
	e.reqActor[req.Seq] = actor
	isWorker := actor < e.d.W
	killPoint := ""
	victimCall := false
	if k := e.d.Kill; k != nil && isWorker && actor == k.Victim && e.cur[actor] == k.Call && tag == e.curTag[actor] {
		victimCall = true        // no other faults in the call that is going to be killed
		isPoint := kind != "get" // the caller's write, whatever form it takes
		if k.Point == "get-served" {
			isPoint = kind == "get"
		}
		if isPoint && !e.killFired {
			e.killFired = true
			killPoint = k.Point
		}
	}
	e.mu.Unlock()
	var f consul.Fault
	if isWorker && !victimCall {
		f = e.faultFor(actor, ord, kind)
	}
	if e.sch != nil {
		p := e.sch.arrive(actor, kind, req.Seq, killPoint)
		f.Gate = p.ch
		f.GateAfter = p.gateAfter
	}
	return f
}

// instance returns the group's current core instance, creating a fresh one if
// there is none or a restart is due.
func (e *engine) instance(g *group, restart bool) (caller, string, error) {
	g.mu.Lock()
	defer g.mu.Unlock()
	if g.cl != nil && !restart {
		return g.cl, g.tag, nil
	}
	if g.cl != nil {
		g.cl.Close() // "restart of the core": the instance is discarded and a new one created
		g.cl = nil
		e.mu.Lock()
		e.restarts++
		e.mu.Unlock()
	}
	g.inc++
	tag := fmt.Sprintf("g%dr%d", g.id, g.inc)
	e.mu.Lock()
	e.tagGroup[tag] = g.id
	e.mu.Unlock()
	var cl caller
	var err error
	if e.d.Kind == "kill" {
		cl, err = e.newChild(tag)
	} else {
		cl, err = newInprocCaller(e.s.Addr, tag, e.d.Proxy == "core")
	}
	if err != nil {
		return nil, "", err
	}
	g.cl, g.tag = cl, tag
	return cl, tag, nil
}

func (e *engine) invokeGate(actor, j int) {
	if e.sch != nil {
		p := e.sch.arrive(actor, "invoke", 0, "")
		<-p.ch
		return
	}
	if y := e.u01(actor, j, 4); y < 0.7 {
		time.Sleep(time.Duration(y*2000) * time.Microsecond)
	}
}

func (e *engine) workerDriver(actor int) {
	defer e.sch.done(actor)
	g := e.groups[actor/e.d.Share]
	for j := 0; j < e.d.Calls[actor]; j++ {
		var cl caller
		var tag string
		var err error
		if e.d.Kind == "remote" {
			sr := e.d.SrvRest
			if sr != nil && sr.Actor == actor && sr.Call == j {
				e.remote.stop(sr.Hard) // the apricot server goes down; this caller's next call meets it down
			}
			var rcl *remoteClient
			if rcl, err = e.remoteCaller(actor); err == nil {
				cl, tag = rcl, rcl.tag
			}
		} else {
			cl, tag, err = e.instance(g, e.d.Restart != nil && e.d.Restart[actor][j])
		}
		if err != nil {
			e.problem("cannot create caller: " + err.Error())
			return
		}
		e.mu.Lock()
		e.cur[actor] = j
		e.curTag[actor] = tag
		e.callers[actor] = cl
		e.mu.Unlock()
		e.invokeGate(actor, j)
		op := opRec{Actor: actor, Tag: tag, ID: j, Kind: "call", Call: vlib.Seq()}
		n, cerr, killed := cl.Call(j)
		op.Ret = vlib.Seq()
		switch {
		case killed:
			op.Killed = true
		case cerr != nil:
			op.Err = cerr.Error()
		default:
			op.OK, op.N = true, n
		}
		e.addOp(op)
		if sr := e.d.SrvRest; e.d.Kind == "remote" && sr != nil && sr.Actor == actor && sr.Call == j {
			e.mu.Lock()
			e.restarts++
			e.mu.Unlock()
			if err := e.remote.start(); err != nil { // ... and comes back as a new incarnation
				e.problem("apricot server restart: " + err.Error())
				return
			}
		}
		if killed {
			g.mu.Lock()
			if g.cl == cl {
				cl.Close()
				g.cl = nil // a new incarnation takes over for the remaining calls
			}
			g.mu.Unlock()
		}
	}
}

func (e *engine) fReq(method, tag, query, body string) (int, []byte, error) {
	u := "http://" + e.s.Addr + "/v1/kv/" + runKey
	if query != "" {
		u += "?" + query
	}
	rq, err := http.NewRequest(method, u, strings.NewReader(body))
	if err != nil {
		return 0, nil, err
	}
	rq.Header.Set("X-Verif-Client", tag)
	resp, err := e.hc.Do(rq)
	if err != nil {
		return 0, nil, err
	}
	defer resp.Body.Close()
	b, err := io.ReadAll(resp.Body)
	return resp.StatusCode, b, err
}

func (e *engine) foreignDriver(actor, f int) {
	defer e.sch.done(actor)
	tag := fmt.Sprintf("f%d", f)
	base := uint64(0)
	if e.d.Preset > 0 {
		base = uint64(e.d.Preset)
	}
	nput := uint64(0)
	for k, kind := range e.d.Foreign[f] {
		e.invokeGate(actor, k)
		op := opRec{Actor: actor, Tag: tag, ID: k, Kind: "f" + kind, Call: vlib.Seq()}
		var err error
		switch kind {
		case "cas":
			var st int
			var b []byte
			st, b, err = e.fReq("GET", tag, "consistent=", "")
			if err != nil {
				break
			}
			val, idx := uint64(0), uint64(0)
			if st == 200 {
				var arr []struct {
					Value       string
					ModifyIndex uint64
				}
				if err = json.Unmarshal(b, &arr); err != nil || len(arr) != 1 {
					err = fmt.Errorf("bad GET answer %q (%v)", b, err)
					break
				}
				raw, _ := base64.StdEncoding.DecodeString(arr[0].Value)
				if val, err = strconv.ParseUint(string(raw), 10, 32); err != nil {
					break
				}
				idx = arr[0].ModifyIndex
			} else if st != 404 {
				err = fmt.Errorf("GET status %d", st)
				break
			}
			st, b, err = e.fReq("PUT", tag, "cas="+strconv.FormatUint(idx, 10), strconv.FormatUint(val+1, 10))
			if err != nil {
				break
			}
			if st != 200 {
				err = fmt.Errorf("PUT status %d", st)
				break
			}
			op.OK = strings.TrimSpace(string(b)) == "true"
			op.N = val + 1
		case "put":
			nput++
			v := base + 1000*nput // larger than anything ≤ 40 increments can have reached
			var st int
			st, _, err = e.fReq("PUT", tag, "", strconv.FormatUint(v, 10))
			if err == nil && st != 200 {
				err = fmt.Errorf("PUT status %d", st)
			}
			op.OK, op.N = err == nil, v
		}
		op.Ret = vlib.Seq()
		if err != nil {
			op.Err = err.Error()
			e.problem("foreign writer request failed: " + err.Error())
		}
		e.addOp(op)
	}
}

// waitApplied blocks until the request with arrival number seq was applied.
func (e *engine) waitApplied(seq int64) bool {
	deadline := time.Now().Add(30 * time.Second) // watchdog only
	for {
		for _, r := range e.s.Log() {
			if r.Seq == seq && (r.SeqApply != 0 || r.SeqDone != 0) {
				return true
			}
		}
		if time.Now().After(deadline) {
			e.problem("request never applied (watchdog)")
			return false
		}
		time.Sleep(100 * time.Microsecond)
	}
}

func (e *engine) killActor(actor int) {
	e.mu.Lock()
	cl := e.callers[actor]
	e.mu.Unlock()
	if cl != nil {
		cl.Kill()
	}
}

// newChild: a core instance as a child process, with the history's options and
// a working directory of its own.
func (e *engine) newChild(tag string) (caller, error) {
	var opts []string
	if e.d.Options != nil {
		for k, v := range e.d.Options {
			opts = append(opts, k+"="+v)
		}
		sort.Strings(opts)
		dir, err := os.MkdirTemp(e.workDir, "core-"+tag+"-")
		if err != nil {
			return nil, err
		}
		opts = append(opts, "coreWorkingDir="+dir)
	}
	return newChildCaller(e.s.Addr, tag, opts)
}

// ---------- the scheduler ----------

const (
	stRunning = iota
	stGated
	stDone
	stBlocked // inside a call, but waiting for another caller rather than for the store
)

// stallAfter: an actor that was released and has neither reached a gate nor
// finished after this long is taken to be blocked on another caller (a lock or
// a call-collapsing layer); the schedule goes on without it. This only shapes
// the schedule, no oracle reads it.
const stallAfter = 300 * time.Millisecond

type pend struct {
	actor     int
	kind      string // invoke | get | cas | put
	seq       int64
	ch        chan struct{}
	gateAfter chan struct{}
	killPoint string
	arrival   int
}

type sched struct {
	mu      sync.Mutex
	cond    *sync.Cond
	state   []int
	pending []*pend
	r       *rand.Rand
	policy  string
	nWork   int
	last    int
	nArr    int
	expired bool
	trace   []string
	after   []chan struct{} // GateAfter channels not yet released
	lastEv  time.Time
	stalls  int
}

func newSched(nActors, nWork int, policy string, seed int64) *sched {
	s := &sched{state: make([]int, nActors), r: rand.New(rand.NewSource(seed)), policy: policy, nWork: nWork, last: -1}
	s.cond = sync.NewCond(&s.mu)
	return s
}

func (s *sched) arrive(actor int, kind string, seq int64, killPoint string) *pend {
	s.mu.Lock()
	defer s.mu.Unlock()
	p := &pend{actor: actor, kind: kind, seq: seq, ch: make(chan struct{}), killPoint: killPoint, arrival: s.nArr}
	s.nArr++
	if s.expired {
		close(p.ch)
		return p
	}
	if killPoint == "get-served" || killPoint == "cas-applied" {
		p.gateAfter = make(chan struct{})
		s.after = append(s.after, p.gateAfter)
	}
	s.pending = append(s.pending, p)
	s.state[actor] = stGated
	s.lastEv = time.Now()
	s.cond.Broadcast()
	return p
}

func (s *sched) done(actor int) {
	if s == nil {
		return
	}
	s.mu.Lock()
	s.state[actor] = stDone
	s.lastEv = time.Now()
	s.cond.Broadcast()
	s.mu.Unlock()
}

// soleRunning returns the one actor that is moving, if there is exactly one.
func (s *sched) soleRunning() (int, bool) {
	s.mu.Lock()
	defer s.mu.Unlock()
	a, n := -1, 0
	for i, st := range s.state {
		if st == stRunning {
			a = i
			n++
		}
	}
	return a, n == 1
}

func (s *sched) anyRunning() bool {
	for _, st := range s.state {
		if st == stRunning {
			return true
		}
	}
	return false
}

func (s *sched) weight(p *pend) int {
	foreign := p.actor >= s.nWork
	read := p.kind == "invoke" || p.kind == "get"
	switch s.policy {
	case "starve-one":
		switch {
		case p.actor == 0 && !read:
			return 1 // its write waits until somebody else has moved the counter
		case p.actor == 0:
			return 40
		}
		return 20
	case "reads-first":
		if read {
			return 50
		}
		return 1
	case "serial":
		if p.actor == s.last {
			return 60
		}
		return 1
	case "foreign-between":
		workerWritePending := false
		for _, q := range s.pending {
			if q.actor < s.nWork && !(q.kind == "invoke" || q.kind == "get") {
				workerWritePending = true
			}
		}
		switch {
		case workerWritePending && foreign:
			return 100
		case workerWritePending && !read:
			return 1
		case !workerWritePending && !foreign && read:
			return 30
		}
		return 4
	case "lifo-cas":
		if read {
			return 40
		}
		newest := true
		for _, q := range s.pending {
			if !(q.kind == "invoke" || q.kind == "get") && q.arrival > p.arrival {
				newest = false
			}
		}
		if newest {
			return 25
		}
		return 1
	}
	return 1
}

func (s *sched) choose() *pend {
	sort.Slice(s.pending, func(i, j int) bool {
		if s.pending[i].actor != s.pending[j].actor {
			return s.pending[i].actor < s.pending[j].actor
		}
		return s.pending[i].arrival < s.pending[j].arrival
	})
	tot := 0
	ws := make([]int, len(s.pending))
	for i, p := range s.pending {
		ws[i] = s.weight(p)
		tot += ws[i]
	}
	x := s.r.Intn(tot)
	k := 0
	for i := range ws {
		if x < ws[i] {
			k = i
			break
		}
		x -= ws[i]
	}
	p := s.pending[k]
	s.pending = append(s.pending[:k], s.pending[k+1:]...)
	return p
}

// run is the controller: whenever no actor is running (each one is held at a
// gate or has finished), release exactly one held step.
func (s *sched) run(e *engine) {
	timer := time.AfterFunc(90*time.Second, func() {
		s.mu.Lock()
		s.expired = true
		s.cond.Broadcast()
		s.mu.Unlock()
	})
	defer timer.Stop()
	tick := time.NewTicker(stallAfter / 4)
	defer tick.Stop()
	stopTick := make(chan struct{})
	defer close(stopTick)
	go func() {
		for {
			select {
			case <-tick.C:
				s.mu.Lock()
				s.cond.Broadcast()
				s.mu.Unlock()
			case <-stopTick:
				return
			}
		}
	}()
	s.mu.Lock()
	s.lastEv = time.Now()
	s.mu.Unlock()
	for {
		s.mu.Lock()
		for !s.expired && s.anyRunning() {
			if time.Since(s.lastEv) > stallAfter {
				for i, st := range s.state {
					if st == stRunning {
						s.state[i] = stBlocked
						s.stalls++
					}
				}
				break
			}
			s.cond.Wait()
		}
		if s.expired {
			for _, p := range s.pending {
				close(p.ch)
			}
			s.pending = nil
			for _, ch := range s.after {
				close(ch)
			}
			s.after = nil
			s.mu.Unlock()
			e.problem("scheduler watchdog expired (an actor neither reached a gate nor finished)")
			return
		}
		if len(s.pending) == 0 {
			blocked := false
			for _, st := range s.state {
				if st == stBlocked {
					blocked = true
				}
			}
			if blocked { // nothing to release, somebody still inside a call: wait for it
				s.lastEv = time.Now()
				for i, st := range s.state {
					if st == stBlocked {
						s.state[i] = stRunning
					}
				}
				s.mu.Unlock()
				continue
			}
			s.mu.Unlock()
			return // everybody is done
		}
		p := s.choose()
		s.state[p.actor] = stRunning
		s.lastEv = time.Now()
		s.last = p.actor
		s.trace = append(s.trace, fmt.Sprintf("%d:%s", p.actor, p.kind))
		if p.gateAfter != nil {
			for i, ch := range s.after {
				if ch == p.gateAfter {
					s.after = append(s.after[:i], s.after[i+1:]...)
					break
				}
			}
		}
		s.mu.Unlock()

		switch p.killPoint {
		case "cas-inflight":
			// the caller dies while its CAS is in flight: the request is applied afterwards
			e.killActor(p.actor)
			close(p.ch)
			e.waitApplied(p.seq)
			e.setKillDone(p.killPoint)
		case "get-served", "cas-applied":
			// apply, hold the response, kill, then let the response go to nobody
			close(p.ch)
			if e.waitApplied(p.seq) {
				e.killActor(p.actor)
				e.setKillDone(p.killPoint)
			}
			close(p.gateAfter)
		default:
			close(p.ch)
		}
	}
}

func (e *engine) setKillDone(point string) {
	e.mu.Lock()
	e.killDone = point
	e.mu.Unlock()
}

// ---------- one history ----------

func runHistory(c *vlib.Ctx, idx int64, kind string) {
	r := c.SubRand(idx)
	d := genDesc(r, idx, kind)
	id := c.Case(d)
	t0 := time.Now()
	defer func() {
		if os.Getenv("VERIF_C07_TIMING") != "" {
			fmt.Fprintf(os.Stderr, "T %d %s %s %s W=%d %.0fms\n", idx, d.Kind, d.Mode, d.Faults, d.W, time.Since(t0).Seconds()*1000)
		}
	}()
	s := consul.New()
	if err := s.Start(); err != nil {
		c.Inconclusive("fake consul: " + err.Error())
		return
	}
	defer s.Stop()
	workDir := ""
	if d.Options != nil {
		// viper is process-wide: the in-process instances of one history share one scratch
		// working dir; child-process instances get one each below it
		var err error
		if workDir, err = os.MkdirTemp("", "c07-core-"); err != nil {
			c.Inconclusive("scratch working dir: " + err.Error())
			return
		}
		defer os.RemoveAll(workDir)
		prev := map[string]interface{}{"coreWorkingDir": viper.Get("coreWorkingDir")}
		viper.Set("coreWorkingDir", workDir)
		for k, v := range d.Options {
			prev[k] = viper.Get(k)
			if v == "true" {
				viper.Set(k, true)
			} else {
				viper.Set(k, v)
			}
		}
		defer func() {
			for k, v := range prev {
				viper.Set(k, v)
			}
		}()
	}
	if d.Preset >= 0 {
		s.Put(runKey, strconv.FormatInt(d.Preset, 10))
	}
	s.Put("o2/hardware/detectors/TST/flps/host1/cards", "{}") // cacheproxy.NewService reads the inventory
	nActors := d.W + len(d.Foreign)
	e := &engine{c: c, d: d, s: s, workDir: workDir, hc: &http.Client{Transport: &http.Transport{}},
		tagActor: map[string]int{"probe": -1}, tagGroup: map[string]int{}, reqActor: map[int64]int{}, reqOrd: map[int]int{}, cur: map[int]int{}, curTag: map[int]string{}, callers: map[int]caller{}}
	for f := range d.Foreign {
		e.tagActor[fmt.Sprintf("f%d", f)] = d.W + f
	}
	for i := 0; i < d.W; i++ {
		if i%d.Share == 0 {
			e.groups = append(e.groups, &group{id: i / d.Share})
		}
		g := e.groups[i/d.Share]
		g.members = append(g.members, i)
	}
	if d.Mode == "gated" {
		e.sch = newSched(nActors, d.W, d.Policy, d.SSeed)
	}
	s.Plan = e.plan
	if d.Kind == "remote" {
		for i := 0; i < d.W; i += d.ClientShare {
			e.clients = append(e.clients, &clientGroup{})
		}
		var err error
		if e.remote, err = newRemoteNode(e); err == nil {
			err = e.remote.start()
		}
		if err != nil {
			c.Inconclusive("apricot server: " + err.Error())
			return
		}
		defer e.remote.close()
	}
	var wg sync.WaitGroup
	for i := 0; i < d.W; i++ {
		wg.Add(1)
		go func(i int) { defer wg.Done(); e.workerDriver(i) }(i)
	}
	for f := range d.Foreign {
		wg.Add(1)
		go func(f int) { defer wg.Done(); e.foreignDriver(d.W+f, f) }(f)
	}
	if e.sch != nil {
		e.sch.run(e)
	}
	wg.Wait()
	for _, g := range e.groups {
		if g.cl != nil {
			g.cl.Close()
		}
	}

	// final probe: a fresh instance on the quiescent store; whatever happened to
	// the counter before now shows in the number this call is given
	e.mu.Lock()
	e.quiesced = true
	e.mu.Unlock()
	var probe interface{ NewRunNumber() (uint32, error) }
	probeTag := "probe"
	var perr error
	if d.Kind == "remote" {
		// through the chain as well: a fresh client (and a fresh server if it was left down)
		if _, _, down := e.remote.state(); down {
			perr = e.remote.start()
		}
		if perr == nil {
			var rc *remoteClient
			if rc, perr = e.remote.dial(); perr == nil {
				probe, probeTag = rc.svc, rc.tag
			}
		}
	} else {
		probe, perr = newTaggedService(s.Addr, "probe")
	}
	if perr != nil {
		e.problem("probe service: " + perr.Error())
	} else {
		op := opRec{Actor: nActors, Tag: probeTag, Kind: "probe", Call: vlib.Seq()}
		n, err := probe.NewRunNumber()
		op.Ret = vlib.Seq()
		if err != nil {
			op.Err = err.Error()
		} else {
			op.OK, op.N = true, uint64(n)
		}
		e.addOp(op)
	}
	log := s.Log()
	e.hc.CloseIdleConnections()
	if len(e.problems) > 0 {
		c.Count("histories_unusable", 1)
		c.Inconclusive(fmt.Sprintf("history %d (case %d): %s", idx, id, strings.Join(e.problems, "; ")))
		return
	}
	e.check(id, log)
}
