package main

// START_ACTIVITY side of C07: "if the shared counter cannot be advanced
// atomically the start fails instead of reusing a number". The real
// environment FSM (newEnvironment's callbacks, TryTransition) is driven from
// CONFIGURED with an empty workflow while the fake Consul behind
// the.ConfSvc() makes the run_number read or CAS fail.

import (
	"fmt"
	"strconv"
	"sync"

	"github.com/AliceO2Group/Control/common/utils/uid"
	"github.com/AliceO2Group/Control/core/environment"
	"github.com/AliceO2Group/Control/core/integration"
	"github.com/AliceO2Group/Control/core/integration/testplugin"
	"github.com/spf13/viper"

	"verif/harness/inproc"
	"verif/harness/sim/consul"
	"verif/harness/vlib"
)

type startCase struct {
	Idx    int    `json:"idx"`
	Fault  string `json:"fault"`
	Preset int64  `json:"preset"` // -1 = key absent
}

type startObs struct {
	Case       startCase `json:"case"`
	Err1       string    `json:"first_start_error"`
	State1     string    `json:"state_after_first_start"`
	RN1        uint32    `json:"run_number_after_first_start"`
	Counter1   string    `json:"counter_after_first_start"`
	Err2       string    `json:"second_start_error,omitempty"`
	State2     string    `json:"state_after_second_start,omitempty"`
	RN2        uint32    `json:"run_number_after_second_start,omitempty"`
	Counter2   string    `json:"counter_after_second_start,omitempty"`
	CounterMax uint64    `json:"largest_counter_value_before"`
	Log        []logLine `json:"consul_log"`
}

var startFaults = []string{"cas-answered-false", "cas-500", "cas-severed-before-apply", "cas-applied-then-severed", "get-500", "get-severed", "counter-unparsable", "none"}

func runStartSide(c *vlib.Ctx, lo, hi, slo, shi int) {
	// the test plugin must be known before anything instantiates the plugin registry
	integration.RegisterPlugin("testplugin", "testPluginEndpoint", testplugin.NewPlugin)
	viper.Set("integrationPlugins", []string{"testplugin"})
	viper.Set("testPluginEndpoint", "http://127.0.0.1:1")
	ie, err := inproc.Setup(map[string]string{
		"workflows/empty.yaml":   "name: empty\nroles: []\n",
		"workflows/c07hook.yaml": seqWorkflow,
	}, nil)
	if err != nil {
		c.Inconclusive("inproc.Setup: " + err.Error())
		return
	}
	s := ie.Consul
	given := map[uint32]int{} // run number -> case that got it (this process)
	for i := lo; i < hi; i++ {
		r := c.SubRand(int64(2_000_000 + i))
		sc := startCase{Idx: i, Fault: startFaults[i%len(startFaults)]}
		// the counter only moves up within this process (numbers handed out later must be larger)
		cur := uint64(0)
		if v, ok := s.Get(runKey); ok {
			cur, _ = strconv.ParseUint(v, 10, 32)
		}
		for n := range given {
			if uint64(n) > cur {
				cur = uint64(n)
			}
		}
		if cur == 0 && r.Intn(2) == 0 {
			sc.Preset = -1
			s.Delete(runKey)
		} else {
			sc.Preset = int64(cur) + int64(r.Intn(50))
			s.Put(runKey, strconv.FormatInt(sc.Preset, 10))
		}
		if sc.Fault == "counter-unparsable" {
			s.Put(runKey, "12x")
		}
		id := c.Case(sc)
		c.Count("start_cases", 1)
		c.Nontrivial(vlib.Hash("start", sc.Fault, sc.Preset < 0))

		env, err := environment.VerifNewEnvironment(map[string]string{}, uid.New())
		if err != nil {
			c.Inconclusive("newEnvironment: " + err.Error())
			return
		}
		wf, err := ie.Load("empty", environment.VerifParent(env), nil, nil)
		if err != nil {
			c.Inconclusive("workflow.Load(empty): " + err.Error())
			return
		}
		environment.VerifSetWorkflow(env, wf)
		env.Sm.SetState("CONFIGURED")

		var mu sync.Mutex
		active := true
		nFaulted := 0
		s.ResetLog()
		s.Plan = func(rq *consul.Req) consul.Fault {
			mu.Lock()
			defer mu.Unlock()
			if rq.Key != runKey || !active {
				return consul.Fault{}
			}
			isCas := rq.Method == "PUT"
			isGet := rq.Method == "GET"
			var f consul.Fault
			switch sc.Fault {
			case "cas-answered-false":
				if isCas {
					// a foreign writer gets in between the read and the CAS
					bump := uint64(1000)
					if sc.Preset > 0 {
						bump += uint64(sc.Preset)
					}
					s.Put(runKey, strconv.FormatUint(bump, 10))
					nFaulted++
				}
			case "cas-500":
				if isCas {
					f.Err500 = true
					nFaulted++
				}
			case "cas-severed-before-apply":
				if isCas {
					f.SeverBefore = true
					nFaulted++
				}
			case "cas-applied-then-severed":
				if isCas {
					f.SeverAfter = true
					nFaulted++
				}
			case "get-500":
				if isGet {
					f.Err500 = true
					nFaulted++
				}
			case "get-severed":
				if isGet {
					f.SeverBefore = true // every attempt, also the transport's transparent retry
					nFaulted++
				}
			case "counter-unparsable":
				if isGet {
					nFaulted++
				}
			}
			return f
		}
		ob := startObs{Case: sc}
		for n := range given {
			if uint64(n) > ob.CounterMax {
				ob.CounterMax = uint64(n)
			}
		}
		err1 := env.TryTransition(environment.VerifNewTransition("START_ACTIVITY", nil))
		if err1 != nil {
			ob.Err1 = err1.Error()
		}
		ob.State1, ob.RN1 = env.Sm.Current(), env.GetCurrentRunNumber()
		ob.Counter1, _ = s.Get(runKey)
		mu.Lock()
		active = false
		faulted := nFaulted
		mu.Unlock()

		if sc.Fault != "none" {
			if faulted == 0 {
				c.Inconclusive(fmt.Sprintf("start case %d: fault %s was never injected (no %s request seen)", i, sc.Fault, runKey))
				continue
			}
			c.Count("start_faults_injected", 1)
			proceeded := err1 == nil || ob.State1 == "RUNNING"
			if !proceeded && ob.RN1 == 0 {
				c.Count("start_cancelled", 1)
			}
			if sc.Fault == "counter-unparsable" {
				s.Put(runKey, strconv.FormatUint(cur+uint64(50), 10))
			}
			// second attempt on the same environment, healthy store
			if !proceeded {
				err2 := env.TryTransition(environment.VerifNewTransition("START_ACTIVITY", nil))
				if err2 != nil {
					ob.Err2 = err2.Error()
				}
				ob.State2, ob.RN2 = env.Sm.Current(), env.GetCurrentRunNumber()
				ob.Counter2, _ = s.Get(runKey)
			}
			ob.Log = startLog(s)
			if proceeded {
				c.Violation("START", "start-proceeds-without-run-number/"+sc.Fault,
					fmt.Sprintf("START_ACTIVITY with %s: error=%q state=%s currentRunNumber=%d (counter now %q)", sc.Fault, ob.Err1, ob.State1, ob.RN1, ob.Counter1), id, ob)
				if ob.RN1 != 0 {
					given[ob.RN1] = i
				}
				continue
			}
			if ob.RN1 != 0 {
				c.Violation("START", "failed-start-keeps-run-number/"+sc.Fault,
					fmt.Sprintf("START_ACTIVITY with %s failed (%s) but the environment reports run number %d", sc.Fault, ob.Err1, ob.RN1), id, ob)
			}
			if ob.Err2 == "" && ob.State2 == "RUNNING" {
				c.Count("start_retry_ok", 1)
				startCheckNumber(c, id, &ob, ob.RN2, ob.Counter2, given, i)
			}
			continue
		}
		// control: healthy store
		ob.Log = startLog(s)
		if err1 != nil || ob.State1 != "RUNNING" {
			c.Inconclusive(fmt.Sprintf("start case %d: healthy START_ACTIVITY did not reach RUNNING: %v / %s", i, err1, ob.State1))
			continue
		}
		c.Count("start_control_ok", 1)
		startCheckNumber(c, id, &ob, ob.RN1, ob.Counter1, given, i)
	}
	s.Plan = nil
	runStartSequences(c, ie, given, slo, shi)
}

func startLog(s *consul.Server) []logLine {
	var out []logLine
	for _, r := range s.Log() {
		if r.Key != runKey {
			continue
		}
		out = append(out, logLine{Seq: r.Seq, SeqApply: r.SeqApply, SeqDone: r.SeqDone, Method: r.Method, Cas: r.Cas, Body: r.Body,
			Applied: r.Applied, Result: r.Result, Index: r.Index, Value: r.Value, Fault: r.Fault})
	}
	return out
}

// a start that went through must carry a new, larger number that is what the counter now holds
func startCheckNumber(c *vlib.Ctx, id int64, ob *startObs, rn uint32, counter string, given map[uint32]int, i int) {
	if prev, dup := given[rn]; dup {
		c.Violation("START", "run-number-reused-by-start", fmt.Sprintf("start case %d runs with number %d, already used by start case %d", i, rn, prev), id, ob)
	}
	if uint64(rn) <= ob.CounterMax || rn == 0 {
		c.Violation("START", "run-number-not-larger", fmt.Sprintf("start case %d runs with number %d; %d had been handed out before", i, rn, ob.CounterMax), id, ob)
	}
	if counter != strconv.FormatUint(uint64(rn), 10) {
		c.Violation("START", "run-number-not-the-counter-value", fmt.Sprintf("start case %d runs with number %d but the counter holds %q", i, rn, counter), id, ob)
	}
	given[rn] = i
}
