package main

// File-backend part of C07. With a file:// configuration backend the counter
// lives in <coreWorkingDir>/runcounter.txt: NewRunNumber() reads it, parses
// it, and rewrites it with ioutil.WriteFile (open O_TRUNC, one write, close).
//
// One history = a real local.Service on a YAML backend with a scratch working
// dir, NewRunNumber() calls interleaved with restarts (a new Service on the same
// dir) and with what a core that died inside a call (or a full disk) leaves in
// the counter file. Only states the real write path can leave are injected:
//   old-content   died before the open(O_TRUNC): file untouched
//   empty         died between the truncate and the write: 0 bytes
//   written       died after the write, before the caller got the number
// plus what an operator's editor leaves (same digits + "\n", blanks around
// them). A prefix of the new digits is NOT injected: the value is written by
// one write(2) of at most 10 bytes.
//
// Oracle = the statement: every call either fails or returns a number larger
// than every number returned earlier in the history, across restarts.

import (
	"fmt"
	"os"
	"path/filepath"
	"strconv"
	"strings"
	"sync"

	"github.com/spf13/viper"

	"github.com/AliceO2Group/Control/apricot/local"

	"verif/harness/vlib"
)

// steps: call | restart | old-content | empty | written | newline | blanks

type fileDesc struct {
	Idx    int64    `json:"idx"`
	Preset int64    `json:"preset"` // -1: no counter file yet
	Steps  []string `json:"steps"`
}

type fileObs struct {
	Step    string `json:"step"`
	Content string `json:"file_after"`
	OK      bool   `json:"ok,omitempty"`
	N       uint32 `json:"n,omitempty"`
	Err     string `json:"err,omitempty"`
}

type fileWitness struct {
	Desc *fileDesc `json:"desc"`
	Obs  []fileObs `json:"observed"`
}

var fileArtefacts = []string{"old-content", "empty", "written", "newline", "blanks"}

func genFileDesc(c *vlib.Ctx, idx int64) *fileDesc {
	r := c.SubRand(4_000_000 + idx)
	d := &fileDesc{Idx: idx, Preset: -1}
	if r.Intn(3) > 0 {
		d.Preset = int64(r.Intn(3000))
	}
	for k := 2 + r.Intn(4); k > 0; k-- { // numbers are handed out first
		d.Steps = append(d.Steps, "call")
	}
	// the artefact under test of this history comes early; others may follow
	first := fileArtefacts[int(idx)%len(fileArtefacts)]
	d.Steps = append(d.Steps, first, "call")
	for k := 6 + r.Intn(12); k > 0; k-- {
		switch x := r.Intn(10); {
		case x < 6:
			d.Steps = append(d.Steps, "call")
		case x < 8:
			d.Steps = append(d.Steps, "restart")
		default:
			d.Steps = append(d.Steps, fileArtefacts[r.Intn(len(fileArtefacts))])
		}
	}
	d.Steps = append(d.Steps, "restart", "call")
	return d
}

func fileScratch(c *vlib.Ctx, tag string) (dir, uri string, err error) {
	dir, err = os.MkdirTemp("", "c07-file-"+tag+"-")
	if err != nil {
		return
	}
	cfg := filepath.Join(dir, "config.yaml")
	if err = os.WriteFile(cfg, []byte("o2:\n  components: {}\n"), 0o644); err != nil {
		return
	}
	return dir, "file://" + cfg, nil
}

func runFileHistory(c *vlib.Ctx, idx int64) {
	d := genFileDesc(c, idx)
	id := c.Case(d)
	r := c.SubRand(4_500_000 + idx)
	dir, uri, err := fileScratch(c, strconv.FormatInt(idx, 10))
	if err != nil {
		c.Inconclusive("file backend scratch dir: " + err.Error())
		return
	}
	defer os.RemoveAll(dir)
	viper.Set("coreWorkingDir", dir)
	rnf := filepath.Join(dir, "runcounter.txt")
	if d.Preset >= 0 {
		if err := os.WriteFile(rnf, []byte(strconv.FormatInt(d.Preset, 10)), 0o644); err != nil {
			c.Inconclusive("cannot preset the counter file: " + err.Error())
			return
		}
	}
	svc, err := local.NewService(uri)
	if err != nil {
		c.Inconclusive("NewService(file backend): " + err.Error())
		return
	}
	w := fileWitness{Desc: d}
	var maxGiven uint64
	haveGiven, fired := false, false
	lastArtefact, since := "none", "none"
	nOK, nFail := 0, 0
	for _, st := range d.Steps {
		ob := fileObs{Step: st}
		switch st {
		case "call":
			n, cerr := svc.NewRunNumber()
			if cerr != nil {
				ob.Err = cerr.Error()
				nFail++
				c.Count("file_calls_failed", 1)
				if since != "none" {
					c.Count("file_calls_failed_after_"+since, 1)
				}
			} else {
				ob.OK, ob.N = true, n
				nOK++
				c.Count("file_calls_ok", 1)
				if since != "none" {
					c.Count("file_calls_ok_after_"+since, 1)
				}
			}
		case "restart":
			c.Count("file_restarts", 1)
		default:
			// the core died inside a call (or somebody touched the file); a new core comes up
			cur, rerr := os.ReadFile(rnf)
			switch st {
			case "old-content":
				// nothing was written
			case "empty":
				if rerr == nil {
					err = os.Truncate(rnf, 0)
				} else {
					err = os.WriteFile(rnf, nil, 0o644) // died in the very first call: created, not yet written
				}
			case "written":
				// the dying call wrote its number but nobody received it
				v, perr := strconv.ParseUint(string(cur), 10, 32)
				if rerr != nil || perr != nil {
					st = "old-content" // nothing parsable to increment: that call had failed before writing
				} else {
					err = os.WriteFile(rnf, []byte(strconv.FormatUint(v+1, 10)), 0o644)
				}
			case "newline":
				if rerr == nil {
					err = os.WriteFile(rnf, []byte(strings.TrimSpace(string(cur))+"\n"), 0o644)
				}
			case "blanks":
				if rerr == nil {
					pre, post := []string{"", " ", "\t"}[r.Intn(3)], []string{" ", "  \n", "\r\n", " \t"}[r.Intn(4)]
					err = os.WriteFile(rnf, []byte(pre+strings.TrimSpace(string(cur))+post), 0o644)
				}
			}
			if err != nil {
				c.Inconclusive("cannot inject artefact: " + err.Error())
				return
			}
			ob.Step = st
			c.Count("file_artefact_"+st, 1)
			lastArtefact, since = st, st
		}
		if st != "call" {
			// restart: a new Service on the same working dir
			if svc, err = local.NewService(uri); err != nil {
				c.Inconclusive("NewService(file backend) on restart: " + err.Error())
				return
			}
		}
		if b, rerr := os.ReadFile(rnf); rerr == nil {
			ob.Content = string(b)
		} else {
			ob.Content = "<absent>"
		}
		w.Obs = append(w.Obs, ob)
		if ob.OK {
			if haveGiven && uint64(ob.N) <= maxGiven && !fired {
				fired = true // later small numbers of this history are consequences of this one
				// canonical class: what the offending call found in the counter file
				found := "intact-counter-file"
				if k := len(w.Obs) - 2; k >= 0 {
					prev := w.Obs[k].Content
					switch {
					case prev == "<absent>":
						found = "absent-counter-file"
					case strings.TrimSpace(prev) == "":
						found = "empty-counter-file"
					case strings.TrimSpace(prev) != prev:
						found = "padded-counter-file"
					}
				}
				c.Violation("FILE", "number-not-larger-than-earlier-one/on-"+found,
					fmt.Sprintf("file backend: call returned %d although %d had been returned earlier in this history (last artefact in the counter file: %s; steps so far: %s)",
						ob.N, maxGiven, lastArtefact, fileLine(w.Obs)), id, w)
			}
			if uint64(ob.N) > maxGiven {
				maxGiven = uint64(ob.N)
			}
			haveGiven = true
		}
	}
	c.Count("file_histories", 1)
	okB, failB := nOK, nFail
	if okB > 5 {
		okB = 5
	}
	if failB > 3 {
		failB = 3
	}
	c.Nontrivial(vlib.Hash("file", d.Preset < 0, d.Steps[len(d.Steps)-1], fileArtefacts[int(idx)%len(fileArtefacts)], okB, failB))
	if idx < 2 {
		c.Sample(map[string]interface{}{"desc": d, "observed": fileLine(w.Obs)})
	}
}

func fileLine(obs []fileObs) string {
	var sb strings.Builder
	for _, o := range obs {
		switch {
		case o.Step != "call":
			fmt.Fprintf(&sb, "[%s -> %q] ", o.Step, o.Content)
		case o.OK:
			fmt.Fprintf(&sb, "%d ", o.N)
		default:
			sb.WriteString("err ")
		}
	}
	return sb.String()
}

// ---------- opt-in: concurrent callers of one process on the file backend ----------

type fileConcDesc struct {
	Idx     int64 `json:"idx"`
	Callers int   `json:"callers"`
	Calls   int   `json:"calls_each"`
	Shared  bool  `json:"one_service"`
	Preset  int64 `json:"preset"`
}

// runFileConcurrent: G goroutines of one process (environments of one core, or
// Services on the same working dir) call NewRunNumber() at once. Same oracle:
// numbers pairwise distinct, and larger than every number returned before the
// call was invoked. On by default since fix 7a646a5 (VERIF_C07_FILE_CONCURRENT=0 leaves it out).
func runFileConcurrent(c *vlib.Ctx, idx int64) {
	r := c.SubRand(5_000_000 + idx)
	d := &fileConcDesc{Idx: idx, Callers: 2 + r.Intn(7), Calls: 10 + r.Intn(31), Shared: r.Intn(2) == 0, Preset: int64(r.Intn(500))}
	id := c.Case(d)
	dir, uri, err := fileScratch(c, "conc"+strconv.FormatInt(idx, 10))
	if err != nil {
		c.Inconclusive("file backend scratch dir: " + err.Error())
		return
	}
	defer os.RemoveAll(dir)
	viper.Set("coreWorkingDir", dir)
	if err := os.WriteFile(filepath.Join(dir, "runcounter.txt"), []byte(strconv.FormatInt(d.Preset, 10)), 0o644); err != nil {
		c.Inconclusive("cannot preset the counter file: " + err.Error())
		return
	}
	shared, err := local.NewService(uri)
	if err != nil {
		c.Inconclusive("NewService(file backend): " + err.Error())
		return
	}
	var mu sync.Mutex
	var ops []opRec
	var wg sync.WaitGroup
	start := make(chan struct{})
	for g := 0; g < d.Callers; g++ {
		svc := shared
		if !d.Shared {
			if svc, err = local.NewService(uri); err != nil {
				c.Inconclusive("NewService(file backend): " + err.Error())
				return
			}
		}
		wg.Add(1)
		go func(g int, svc *local.Service) {
			defer wg.Done()
			<-start
			for j := 0; j < d.Calls; j++ {
				op := opRec{Actor: g, Tag: fmt.Sprintf("caller%d", g), ID: j, Kind: "call", Call: vlib.Seq()}
				n, cerr := svc.NewRunNumber()
				op.Ret = vlib.Seq()
				if cerr != nil {
					op.Err = cerr.Error()
				} else {
					op.OK, op.N = true, uint64(n)
				}
				mu.Lock()
				ops = append(ops, op)
				mu.Unlock()
			}
		}(g, svc)
	}
	close(start)
	wg.Wait()
	c.Count("file_concurrent_histories", 1)
	w := map[string]interface{}{"desc": d, "ops": ops}
	for i := range ops {
		a := ops[i]
		if !a.OK {
			c.Count("file_concurrent_calls_failed", 1)
			continue
		}
		c.Count("file_concurrent_calls_ok", 1)
		for j := range ops {
			b := ops[j]
			if i == j || !b.OK {
				continue
			}
			if i < j && a.N == b.N {
				c.Violation("FILE", "same-number-twice/concurrent-callers-one-process",
					fmt.Sprintf("file backend: %d was returned to %s#%d (seq %d..%d) and to %s#%d (seq %d..%d)", a.N, a.Tag, a.ID, a.Call, a.Ret, b.Tag, b.ID, b.Call, b.Ret), id, w)
			}
			if a.Ret < b.Call && b.N < a.N {
				c.Violation("FILE", "later-call-got-smaller-number/concurrent-callers-one-process",
					fmt.Sprintf("file backend: %s#%d returned %d at seq %d; %s#%d invoked later (seq %d) got %d", a.Tag, a.ID, a.N, a.Ret, b.Tag, b.ID, b.Call, b.N), id, w)
			}
		}
	}
	c.Nontrivial(vlib.Hash("fileconc", d.Callers, d.Shared))
}
