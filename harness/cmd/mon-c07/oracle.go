package main

// Oracles for one history.
//
//  LIN    porcupine: the client-visible history (call seq, return seq, result |
//         error | killed) must be linearizable w.r.t. a nondeterministic
//         strictly-increasing counter (see linModel).
//  UNIQ   successful results pairwise distinct (direct, independent of porcupine).
//  ORDER  A returned before B was invoked => result(B) > result(A).
//  OWNCAS every returned number is the value of a CAS of that same caller,
//         inside the call, that the Consul log shows applied, answered "true"
//         and delivered; hence a call whose CAS was answered false / failed
//         must have returned an error.
//
// The Consul log is used for OWNCAS and for the coverage counters; it never
// replaces the history checks.

import (
	"fmt"
	"sort"
	"strconv"
	"strings"
	"time"

	"github.com/anishathalye/porcupine"

	"verif/harness/sim/consul"
	"verif/harness/vlib"
)

type logLine struct {
	Seq      int64  `json:"seq"`
	SeqApply int64  `json:"seq_app"`
	SeqDone  int64  `json:"seq_done"`
	Tag      string `json:"tag"`
	Actor    int    `json:"caller"` // -1 = not attributed
	Method   string `json:"method"`
	Cas      int64  `json:"cas"`
	Body     string `json:"body,omitempty"`
	Applied  bool   `json:"applied"`
	Result   string `json:"result"`
	Index    uint64 `json:"index,omitempty"`
	Value    string `json:"value,omitempty"`
	Fault    string `json:"fault,omitempty"`
}

type witness struct {
	Desc  *histDesc `json:"desc"`
	Ops   []opRec   `json:"ops"`
	Log   []logLine `json:"consul_log"`
	Trace []string  `json:"released_steps,omitempty"`
}

// ---------- the sequential specification ----------

type linIn struct {
	put bool
	v   uint64
}
type linOut struct {
	ok bool // false = the caller saw an error or died: effect unknown
	n  uint64
}

// linModel: state = the largest number taken so far (m).
//
//	next() -> ok n : allowed iff n > m (gapless variant: n == m+1); then m = n
//	next() -> error / killed : m stays or becomes m+1 (the increment may or may
//	                           not have been applied)
//	put(v)                   : m = v (foreign blind PUT; its value is known)
func linModel(init uint64, gapless bool) porcupine.Model {
	nm := porcupine.NondeterministicModel{
		Init: func() []interface{} { return []interface{}{init} },
		Step: func(state, input, output interface{}) []interface{} {
			m := state.(uint64)
			in := input.(linIn)
			if in.put {
				return []interface{}{in.v}
			}
			out := output.(linOut)
			if out.ok {
				if (gapless && out.n == m+1) || (!gapless && out.n > m) {
					return []interface{}{out.n}
				}
				return nil
			}
			return []interface{}{m, m + 1}
		},
		Equal: func(a, b interface{}) bool { return a.(uint64) == b.(uint64) },
		DescribeOperation: func(input, output interface{}) string {
			in := input.(linIn)
			if in.put {
				return fmt.Sprintf("put(%d)", in.v)
			}
			out := output.(linOut)
			if out.ok {
				return fmt.Sprintf("next() -> %d", out.n)
			}
			return "next() -> ?"
		},
		DescribeState: func(s interface{}) string { return fmt.Sprint(s) },
	}
	return nm.ToModel()
}

func (e *engine) linOps(ops []opRec) []porcupine.Operation {
	var maxSeq int64
	for _, o := range ops {
		if o.Ret > maxSeq {
			maxSeq = o.Ret
		}
	}
	var out []porcupine.Operation
	for i, o := range ops {
		po := porcupine.Operation{ClientId: o.Actor, Call: o.Call, Return: o.Ret}
		switch o.Kind {
		case "fput":
			po.Input, po.Output = linIn{put: true, v: o.N}, linOut{ok: true}
		case "fcas":
			if !o.OK {
				continue // answered false by an unfaulted store: no effect
			}
			po.Input, po.Output = linIn{}, linOut{ok: true, n: o.N}
		default:
			po.Input = linIn{}
			if o.OK {
				po.Output = linOut{ok: true, n: o.N}
			} else {
				po.Output = linOut{}
				if o.Killed {
					// never returned: may take effect at any later time
					po.Return = maxSeq + 1 + int64(i)
				}
			}
		}
		out = append(out, po)
	}
	return out
}

// ---------- the checks ----------

// instanceOf strips the incarnation from a tag ("g3r2" -> "g3"): behind an
// apricot server that was restarted, a client's call may be served by either
// incarnation.
func instanceOf(tag string) string {
	if strings.HasPrefix(tag, "g") {
		if i := strings.Index(tag, "r"); i > 0 {
			return tag[:i]
		}
	}
	return tag
}

func isCodeUnderTest(o opRec) bool { return o.Kind == "call" || o.Kind == "probe" }

func (e *engine) check(id int64, log []consul.Req) {
	c, d := e.c, e.d
	ops := append([]opRec(nil), e.ops...)
	sort.Slice(ops, func(i, j int) bool { return ops[i].Call < ops[j].Call })
	var lines []logLine
	for i := range log {
		r := &log[i]
		if r.Key != runKey {
			continue
		}
		actor, attributed := e.reqActor[r.Seq]
		if !attributed || (e.sch == nil && d.Share > 1) {
			actor = -1 // free-running shared instance: requests cannot be told apart
		}
		lines = append(lines, logLine{Actor: actor, Seq: r.Seq, SeqApply: r.SeqApply, SeqDone: r.SeqDone, Tag: tagOf(r), Method: r.Method, Cas: r.Cas,
			Body: r.Body, Applied: r.Applied, Result: r.Result, Index: r.Index, Value: r.Value, Fault: r.Fault})
	}
	var trace []string
	if e.sch != nil {
		trace = e.sch.trace
	}
	w := witness{Desc: d, Ops: ops, Log: lines, Trace: trace}

	// UNIQ + ORDER
	var given []opRec // operations that handed a number to somebody
	for _, o := range ops {
		if o.OK && (isCodeUnderTest(o) || o.Kind == "fcas") {
			given = append(given, o)
		}
	}
	for i := 0; i < len(given); i++ {
		for j := i + 1; j < len(given); j++ {
			a, b := given[i], given[j]
			if !isCodeUnderTest(a) && !isCodeUnderTest(b) {
				continue
			}
			if a.N == b.N {
				cls := "same-number-twice/two-callers"
				if !isCodeUnderTest(a) || !isCodeUnderTest(b) {
					cls = "same-number-twice/caller-and-foreign-cas"
				} else if a.Actor == b.Actor {
					cls = "same-number-twice/same-worker"
				}
				c.Violation("UNIQ", cls, fmt.Sprintf("run number %d was given twice: to %s#%d (seq %d..%d) and to %s#%d (seq %d..%d)",
					a.N, a.Tag, a.ID, a.Call, a.Ret, b.Tag, b.ID, b.Call, b.Ret), id, w)
			}
		}
	}
	for _, a := range ops {
		if !a.OK || a.Killed {
			continue
		}
		for _, b := range given {
			if a.Ret >= b.Call || (!isCodeUnderTest(a) && !isCodeUnderTest(b)) {
				continue
			}
			if b.N <= a.N && !(a.N == b.N && a.Kind != "fput") { // equal numbers are UNIQ's
				cls := "later-call-got-smaller-number"
				if a.Kind == "fput" {
					cls = "number-not-above-completed-foreign-put"
				}
				c.Violation("ORDER", cls, fmt.Sprintf("%s#%d returned %d at seq %d; %s#%d invoked later (seq %d) got %d",
					a.Tag, a.ID, a.N, a.Ret, b.Tag, b.ID, b.Call, b.N), id, w)
			}
		}
	}

	// OWNCAS
	for _, o := range ops {
		if !isCodeUnderTest(o) || !o.OK {
			continue
		}
		want := strconv.FormatUint(o.N, 10)
		good := false
		var seen []string
		cause := "returned-number-never-written"
		for _, l := range lines {
			if instanceOf(l.Tag) != instanceOf(o.Tag) || l.Method != "PUT" || l.Seq < o.Call || l.Seq > o.Ret {
				continue
			}
			seen = append(seen, fmt.Sprintf("PUT cas=%d %s -> %s %s", l.Cas, l.Body, l.Result, l.Fault))
			if l.Body != want {
				continue
			}
			switch {
			case l.Cas >= 0 && l.Applied && l.Result == "true" && l.Fault == "":
				good = true
			case l.Cas < 0:
				cause = "success-without-cas"
			case l.Result == "false":
				cause = "success-although-cas-answered-false"
			default:
				cause = "success-although-cas-failed"
			}
		}
		if good {
			c.Count("ok_calls_with_own_cas_at_consul", 1)
		} else {
			c.Count("ok_calls_without_cas_at_consul", 1) // coverage evidence; OWNCAS is the oracle
		}
		if !good {
			c.Violation("OWNCAS", cause, fmt.Sprintf("%s#%d returned %d, but no CAS of that caller with that value was applied, answered true and delivered during the call (its writes: %v)",
				o.Tag, o.ID, o.N, seen), id, w)
		}
	}

	// LIN
	init := uint64(0)
	if d.Preset > 0 {
		init = uint64(d.Preset)
	}
	lops := e.linOps(ops)
	res, _ := porcupine.CheckOperationsVerbose(linModel(init, false), lops, 60*time.Second)
	switch res {
	case porcupine.Unknown:
		c.Count("porcupine_unknown", 1)
		c.Inconclusive(fmt.Sprintf("history %d: porcupine gave up after 60 s", d.Idx))
	case porcupine.Illegal:
		c.Violation("LIN", "history-not-linearizable-as-increasing-counter",
			fmt.Sprintf("no sequential order of the %d operations that respects real time explains the results as a strictly increasing counter (init %d): %s", len(lops), init, opsLine(ops)), id, w)
	default:
		c.Count("porcupine_ok", 1)
		// informational only (stricter than the statement): increments by exactly one
		if r2 := porcupine.CheckOperationsTimeout(linModel(init, true), lops, 20*time.Second); r2 == porcupine.Illegal {
			c.Count("gapless_model_mismatch", 1)
		}
	}

	// the history checks above stand on their own; the run only counts as a kill-point run
	// if the kill point was reached
	if d.Kill != nil && e.killDone == "" {
		c.Count("kill_point_not_reached", 1)
		c.Inconclusive(fmt.Sprintf("history %d: kill point %s of worker %d call %d was never reached", d.Idx, d.Kill.Point, d.Kill.Victim, d.Kill.Call))
		return
	}
	e.coverage(ops, lines, trace)
}

func opsLine(ops []opRec) string {
	var sb strings.Builder
	for _, o := range ops {
		r := "err"
		switch {
		case o.Killed:
			r = "killed"
		case o.OK:
			r = strconv.FormatUint(o.N, 10)
		}
		fmt.Fprintf(&sb, "[%s#%d %s %d..%d -> %s] ", o.Tag, o.ID, o.Kind, o.Call, o.Ret, r)
	}
	s := sb.String()
	if len(s) > 1500 {
		s = s[:1500] + "…"
	}
	return s
}

// coverage derives the situation counters from the Consul log.
func (e *engine) coverage(ops []opRec, lines []logLine, trace []string) {
	c, d := e.c, e.d
	c.Count("histories", 1)
	c.Count("histories_"+d.Mode, 1)
	if d.Share > 1 {
		c.Count("histories_shared_instance", 1)
	}
	c.Count("ops", int64(len(ops)))
	c.Count("restarts", int64(e.restarts))
	isWorkerTag := func(t string) bool { return strings.HasPrefix(t, "g") }
	isForeignTag := func(t string) bool { return strings.HasPrefix(t, "f") }
	nOK, nErr, nKilled := 0, 0, 0
	for _, o := range ops {
		if !isCodeUnderTest(o) {
			if o.Kind == "fcas" {
				c.Count("foreign_cas", 1)
				if !o.OK {
					c.Count("foreign_cas_lost", 1)
				}
			} else {
				c.Count("foreign_blind_puts", 1)
			}
			continue
		}
		switch {
		case o.Killed:
			nKilled++
		case o.OK:
			nOK++
		default:
			nErr++
		}
	}
	c.Count("calls_ok", int64(nOK))
	c.Count("calls_error", int64(nErr))
	c.Count("calls_killed", int64(nKilled))

	// two callers read the same version before either wrote
	byCas := map[int64]int{} // CAS requests per version read (one CAS per call)
	nFalse, nSeverAfterTrue := 0, 0
	for _, l := range lines {
		if !isWorkerTag(l.Tag) {
			continue
		}
		switch l.Fault {
		case "err500":
			c.Count("fault_err500", 1)
		case "sever-before":
			c.Count("fault_sever_before", 1)
		case "sever-after":
			c.Count("fault_sever_after_"+strings.ToLower(l.Method), 1)
		}
		if l.Method != "PUT" || l.Cas < 0 {
			continue
		}
		byCas[l.Cas]++
		if l.Applied && l.Result == "false" {
			nFalse++
		}
		if l.Applied && l.Result == "true" && l.Fault == "sever-after" {
			nSeverAfterTrue++
		}
	}
	for cas, n := range byCas {
		if n >= 2 {
			c.Count("concurrent_get_before_cas", int64(n-1))
			if cas == 0 {
				c.Count("create_races", 1)
			}
		}
	}
	c.Count("cas_answered_false", int64(nFalse))
	c.Count("apply_then_sever", int64(nSeverAfterTrue))

	// the same caller loses its CAS three or more times in a row (what exhausts a retry loop)
	lostRuns := 0
	run := map[int]int{}
	for _, l := range lines {
		if l.Actor < 0 || l.Actor >= d.W || l.Method != "PUT" || l.Cas < 0 || !l.Applied {
			continue
		}
		if l.Result == "false" {
			run[l.Actor]++
			if run[l.Actor] == 3 {
				lostRuns++
			}
		} else {
			run[l.Actor] = 0
		}
	}
	c.Count("callers_losing_3_cas_in_a_row", int64(lostRuns))
	if d.Options != nil {
		c.Count("histories_with_options", 1)
		c.Count("histories_with_options_"+d.Kind, 1)
		for k, v := range d.Options {
			if v == "true" {
				c.Count("histories_with_option_"+k, 1)
			}
		}
		instances := map[string]bool{}
		for _, l := range lines {
			if strings.HasPrefix(l.Tag, "g") {
				instances[l.Tag] = true
			}
		}
		if len(instances) >= 2 {
			c.Count("histories_with_options_and_2_or_more_instances", 1)
		}
	}
	if e.sch != nil && e.sch.stalls > 0 {
		c.Count("scheduler_stalls", int64(e.sch.stalls))
	}
	if d.Proxy != "" {
		// calls that were inside the same cache proxy at the same time
		domain := func(a int) int {
			switch {
			case d.Kind == "remote" && d.Proxy == "apricot":
				return 0
			case d.Kind == "remote":
				return a / d.ClientShare
			}
			return a / d.Share
		}
		over := 0
		for i, a := range ops {
			if a.Kind != "call" {
				continue
			}
			for j, b := range ops {
				if i != j && b.Kind == "call" && domain(a.Actor) == domain(b.Actor) && a.Call < b.Ret && b.Call < a.Ret {
					over++
					break
				}
			}
		}
		c.Count("histories_through_cache_proxy", 1)
		c.Count("histories_through_cache_proxy_"+d.Kind+"_"+d.Proxy, 1)
		c.Count("calls_overlapping_inside_proxy", int64(over))
		if over > 0 {
			c.Count("histories_with_calls_overlapping_inside_proxy", 1)
		}
	}
	if d.Kind == "remote" {
		c.Count("remote_histories", 1)
		c.Count("remote_histories_"+d.Mode, 1)
		c.Count("remote_calls_ok", int64(nOK))
		c.Count("remote_calls_error", int64(nErr))
		c.Count("remote_cas_answered_false", int64(nFalse))
		c.Count("remote_apply_then_sever", int64(nSeverAfterTrue))
		c.Count("remote_callers_losing_3_cas_in_a_row", int64(lostRuns))
		if d.SrvRest != nil {
			c.Count("remote_server_restarts", 1)
			if d.SrvRest.Hard {
				c.Count("remote_server_hard_stops", 1)
			}
		}
		for _, o := range ops {
			if isCodeUnderTest(o) && !o.OK && (strings.Contains(o.Err, "Unavailable") || strings.Contains(o.Err, "Canceled")) {
				c.Count("remote_calls_failed_in_transport", 1)
			}
		}
	}

	// a foreign write landed between a worker's GET and its CAS
	for i, l := range lines {
		if !isWorkerTag(l.Tag) || l.Method != "PUT" || l.SeqApply == 0 {
			continue
		}
		var g *logLine
		for k := i - 1; k >= 0; k-- {
			if lines[k].Tag == l.Tag && lines[k].Method == "GET" && lines[k].SeqApply != 0 && lines[k].SeqApply < l.Seq {
				g = &lines[k]
				break
			}
		}
		if g == nil {
			continue
		}
		for _, f := range lines {
			if isForeignTag(f.Tag) && f.Method == "PUT" && f.Applied && f.Result == "true" && f.SeqApply > g.SeqApply && f.SeqApply < l.SeqApply {
				c.Count("foreign_write_between_get_and_cas", 1)
				break
			}
		}
	}
	if d.Kill != nil {
		c.Count("kill_runs", 1)
		switch e.killDone {
		case "get-served":
			c.Count("kills_after_get", 1)
		case "cas-inflight":
			c.Count("kills_cas_in_flight", 1)
		case "cas-applied":
			c.Count("kills_after_cas_applied", 1)
		}
	}

	// fingerprints
	okB, errB := nOK, nErr
	if okB > 6 {
		okB = 6
	}
	if errB > 4 {
		errB = 4
	}
	kp := ""
	if d.Kill != nil {
		kp = d.Kill.Point
	}
	overlap := false
	for i := range ops {
		for j := range ops {
			if i != j && ops[i].Call < ops[j].Call && ops[j].Call < ops[i].Ret {
				overlap = true
			}
		}
	}
	if overlap {
		c.Count("histories_with_overlapping_calls", 1)
		c.Nontrivial(vlib.Hash(d.Kind, d.Options["verbose"], d.Options["veryVerbose"], d.Proxy, d.SrvRest != nil, d.W, d.Share, d.Mode, d.Policy, d.Faults, len(d.Foreign), d.Preset < 0, kp, okB, errB, nFalse > 0, nSeverAfterTrue > 0))
	}
	var sb strings.Builder
	ap := append([]logLine(nil), lines...)
	sort.Slice(ap, func(i, j int) bool { return ap[i].SeqApply < ap[j].SeqApply })
	for _, l := range ap {
		if l.SeqApply != 0 {
			fmt.Fprintf(&sb, "%s:%s:%s|", l.Tag, l.Method, l.Result)
		}
	}
	c.Interleaving(vlib.Hash(d.W, sb.String()))
	c.Sample(map[string]interface{}{"desc": d, "ops": opsLine(ops), "released_steps": strings.Join(trace, " ")})
}
