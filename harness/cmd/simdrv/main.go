// simdrv: whole-core simulation driver (engine "coresim").
package main

import (
	"fmt"
	"os"
)

func main() {
	if len(os.Args) < 2 {
		fmt.Fprintln(os.Stderr, "usage: simdrv <ID> [flags]")
		os.Exit(64)
	}
	switch os.Args[1] {
	case "SMOKE":
		runSmoke()
	case "C02":
		runC02()
	case "C06":
		runC06()
	case "C03":
		runC03()
	case "C18", "C18A":
		runC18()
	case "C01API":
		runC01API()
	case "C04B":
		runC04B()
	default:
		fmt.Fprintln(os.Stderr, "unknown property", os.Args[1])
		os.Exit(64)
	}
}
