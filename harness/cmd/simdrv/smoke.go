package main

import (
	"encoding/json"
	"fmt"
	"os"
	"time"

	pb "github.com/AliceO2Group/Control/core/protos"

	"verif/harness/coresim"
	simmesos "verif/harness/sim/mesos"
)

func runSmoke() {
	agents := []*simmesos.Agent{
		{ID: "agent-1", Hostname: "host1", Attributes: map[string]string{"machine_id": "host1"}, CPU: 8, Mem: 8192, Ports: [][2]uint64{{9000, 9100}, {30000, 30100}}},
		{ID: "agent-2", Hostname: "host2", Attributes: map[string]string{"machine_id": "host2"}, CPU: 8, Mem: 8192, Ports: [][2]uint64{{9000, 9100}, {30000, 30100}}},
	}
	wf := coresim.WorkflowSpec{Name: "wf1", Hosts: []string{"host1", "host2"},
		Tasks: []coresim.TaskSpec{{Name: "a", Host: "host1", Critical: true, Mode: "direct"}, {Name: "b", Host: "host2", Critical: false, Mode: "basic"}},
		Calls: []coresim.CallSpec{{Name: "p1", Func: "verif.Probe()", Trigger: "before_CONFIGURE", Critical: true, Vars: map[string]string{"verif_tag": "p1"}}},
	}
	t0 := time.Now()
	s, err := coresim.Start(coresim.Options{Agents: agents, Detectors: map[string][]string{"TST": {"host1"}, "ITS": {"host2"}}, Files: wf.Files(), KeepLogs: true})
	if err != nil {
		fmt.Println("start:", err)
		os.Exit(1)
	}
	defer s.Close()
	fmt.Println("core up in", time.Since(t0), "dir", s.Dir)
	ctx, cancel := coresim.Ctx(60 * time.Second)
	defer cancel()
	t1 := time.Now()
	r, err := s.Client.NewEnvironment(ctx, &pb.NewEnvironmentRequest{WorkflowTemplate: "wf1", Vars: map[string]string{}})
	fmt.Println("NewEnvironment:", time.Since(t1), err)
	if err != nil {
		fmt.Println(s.CoreCrash())
		os.Exit(1)
	}
	id := r.GetEnvironment().GetId()
	fmt.Println("env", id, r.GetEnvironment().GetState(), r.GetEnvironment().GetIncludedDetectors())
	for _, op := range []pb.ControlEnvironmentRequest_Optype{pb.ControlEnvironmentRequest_START_ACTIVITY, pb.ControlEnvironmentRequest_STOP_ACTIVITY} {
		t2 := time.Now()
		cr, err := s.Client.ControlEnvironment(ctx, &pb.ControlEnvironmentRequest{Id: id, Type: op})
		fmt.Println(op, time.Since(t2), err, cr.GetState(), cr.GetCurrentRunNumber())
	}
	t3 := time.Now()
	_, err = s.Client.DestroyEnvironment(ctx, &pb.DestroyEnvironmentRequest{Id: id})
	fmt.Println("Destroy:", time.Since(t3), err)
	time.Sleep(300 * time.Millisecond)
	for _, rec := range s.Master.Log() {
		b, _ := json.Marshal(rec)
		fmt.Println(string(b))
	}
	fmt.Println("events:", len(s.Events()), "plugin records:", len(s.PluginRecords()), "races:", s.RaceLogs())
	for _, pr := range s.PluginRecords() {
		b, _ := json.Marshal(pr)
		fmt.Println(string(b))
	}
}
