package main

// C03 — failure of a critical task drives a live environment to ERROR; the same
// failures of a non-critical task never change the environment's state.

import (
	"encoding/json"
	"fmt"
	"os"
	"strings"
	"time"

	pb "github.com/AliceO2Group/Control/core/protos"

	"verif/harness/coresim"
	simmesos "verif/harness/sim/mesos"
	"verif/harness/vlib"
)

type c03Scenario struct {
	State    string `json:"state"`    // CONFIGURED | RUNNING
	Critical bool   `json:"critical"` // victim critical?
	Victim   string `json:"victim"`   // role name
	Kind     string `json:"kind"`     // failed lost killed exec-failure exec-failure+status agent-failure agent-failure+status internal-error basic-terminated
	Instant  string `json:"instant"`  // idle | transition | late-reply | grace | sibling | after-reconnect | mixed
	Delay    bool   `json:"delay"`    // watcher delay point on
	// FailDelay: the task manager's own bookkeeping of an executor/agent failure is held up (delay points
	// at the start of its goroutines), so that the task's terminal status update is processed first
	FailDelay bool `json:"fail_delay,omitempty"`
	// GoErrorHookFails: a critical call hook at before_GO_ERROR fails, so the watcher's gentle GO_ERROR is
	// cancelled and the environment has to be forced to ERROR
	GoErrorHookFails bool `json:"go_error_hook_fails,omitempty"`
	// Reuse: the core runs with reuseUnlockedTasks; the environment under test has taken over the tasks
	// of an earlier environment that was destroyed with keep-tasks (their executors keep announcing the
	// environment id they were launched for)
	Reuse bool `json:"reuse,omitempty"`
}

func (sc c03Scenario) class() string {
	k := "noncritical"
	if sc.Critical {
		k = "critical"
	}
	if sc.FailDelay {
		return fmt.Sprintf("%s/%s/%s/%s+status-first", sc.State, k, sc.Kind, sc.Instant)
	}
	if sc.GoErrorHookFails {
		return fmt.Sprintf("%s/%s/%s/%s+go-error-hook-fails", sc.State, k, sc.Kind, sc.Instant)
	}
	if sc.Reuse {
		return fmt.Sprintf("%s/%s/%s/%s+reused-tasks", sc.State, k, sc.Kind, sc.Instant)
	}
	return fmt.Sprintf("%s/%s/%s/%s", sc.State, k, sc.Kind, sc.Instant)
}

var c03Kinds = []string{"failed", "lost", "killed", "exec-failure", "exec-failure+status", "agent-failure", "agent-failure+status", "internal-error", "basic-terminated"}

func c03Scenarios(c *vlib.Ctx) []c03Scenario {
	var out []c03Scenario
	for _, st := range []string{"CONFIGURED", "RUNNING"} {
		for _, crit := range []bool{true, false} {
			for _, k := range c03Kinds {
				out = append(out, c03Scenario{State: st, Critical: crit, Kind: k, Instant: "idle", Delay: len(out)%2 == 0})
			}
		}
	}
	// late-reply: like transition, and the victim's own (healthy) answer to the outstanding command
	// reaches the core after the terminal update: the ERROR is overwritten by a stale state report
	for _, st := range []string{"CONFIGURED", "RUNNING"} {
		for _, k := range []string{"failed", "lost"} {
			out = append(out, c03Scenario{State: st, Critical: true, Kind: k, Instant: "late-reply", Delay: k == "lost"})
		}
		out = append(out, c03Scenario{State: st, Critical: true, Kind: "failed", Instant: "transition"})
		out = append(out, c03Scenario{State: st, Critical: true, Kind: "failed", Instant: "late-reply", GoErrorHookFails: true})
		out = append(out, c03Scenario{State: st, Critical: true, Kind: "killed", Instant: "idle", GoErrorHookFails: true})
	}
	for _, st := range []string{"CONFIGURED", "RUNNING"} {
		for _, k := range []string{"exec-failure+status", "agent-failure+status"} {
			out = append(out, c03Scenario{State: st, Critical: true, Kind: k, Instant: "idle", FailDelay: true})
		}
	}
	out = append(out, c03Scenario{State: "RUNNING", Critical: false, Kind: "exec-failure+status", Instant: "idle", FailDelay: true})
	// the task is lost while the core has no subscription (connection dropped, agent unreachable): the only
	// report is the TASK_LOST answer of the reconciliation that follows the re-subscription
	for _, st := range []string{"CONFIGURED", "RUNNING"} {
		out = append(out, c03Scenario{State: st, Critical: true, Kind: "lost-while-disconnected", Instant: "idle"})
	}
	out = append(out, c03Scenario{State: "RUNNING", Critical: false, Kind: "lost-while-disconnected", Instant: "idle"})
	// burst: the executors of the two non-critical tasks fail, and right behind them (no gap) the executor or
	// agent of the critical victim: three FAILURE events back to back, only the last one matters
	for _, st := range []string{"CONFIGURED", "RUNNING"} {
		for _, k := range []string{"exec-failure", "agent-failure"} {
			out = append(out, c03Scenario{State: st, Critical: true, Kind: k, Instant: "burst"})
		}
	}
	// completion: the fault arrives while the environment manager's event loop is busy delivering the
	// completion of a START/STOP transition (held for 500 ms by a delay point): nobody is listening on the
	// internal event channel at that moment
	for _, st := range []string{"CONFIGURED", "RUNNING"} {
		for _, k := range []string{"exec-failure", "agent-failure"} {
			out = append(out, c03Scenario{State: st, Critical: true, Kind: k, Instant: "completion"})
		}
	}
	// reuseUnlockedTasks: the environment under test is built on tasks taken over from an earlier environment
	// (kept by a keep-tasks destroy); their executors still label their events with the first environment's id
	for _, st := range []string{"CONFIGURED", "RUNNING"} {
		for _, k := range []string{"internal-error", "killed"} {
			out = append(out, c03Scenario{State: st, Critical: true, Kind: k, Instant: "idle", Reuse: true})
		}
	}
	instants := []string{"transition", "grace", "sibling", "after-reconnect", "mixed", "late-reply"}
	r := c.SubRand(303)
	n := 18
	if c.Tier == "thorough" {
		n = 0
		for _, st := range []string{"CONFIGURED", "RUNNING"} {
			for _, crit := range []bool{true, false} {
				for _, k := range c03Kinds {
					for _, in := range instants {
						for _, d := range []bool{false, true} {
							out = append(out, c03Scenario{State: st, Critical: crit, Kind: k, Instant: in, Delay: d})
						}
					}
				}
			}
		}
	}
	for i := 0; i < n; i++ {
		out = append(out, c03Scenario{State: []string{"CONFIGURED", "RUNNING"}[r.Intn(2)], Critical: r.Intn(3) > 0, Kind: c03Kinds[r.Intn(len(c03Kinds))], Instant: instants[i%len(instants)], Delay: r.Intn(2) == 0})
	}
	for i := range out {
		sc := &out[i]
		basic := sc.Kind == "basic-terminated"
		if sc.Instant == "mixed" {
			// two critical siblings listed BEFORE the victim disagree for good (t0 finishes -> DONE, t1 stays): the victim is t4
			sc.Critical = true
			sc.Victim = "t4"
			if sc.Kind == "basic-terminated" {
				sc.Kind = "failed"
			}
			continue
		}
		switch {
		case sc.Critical && basic:
			sc.Victim = "t1"
		case sc.Critical:
			sc.Victim = "t0"
		case basic:
			sc.Victim = "t3"
		default:
			sc.Victim = "t2"
		}
	}
	return out
}

func runC03() {
	c := vlib.Start("C03")
	defer c.Finish()
	scs := c03Scenarios(c)
	lo, hi := c.Slice(len(scs))
	if only := os.Getenv("VERIF_ONLY"); only != "" {
		fmt.Sscan(only, &lo)
		hi = lo + 1
	}
	parallel(lo, hi, 3, func(i int) { c03Run(c, i, scs[i]) })
}

type c03Obs struct {
	Scenario c03Scenario `json:"scenario"`
	Index    int         `json:"index"`
	Steps    []string    `json:"steps"`
	States   []string    `json:"states_sampled"`
}

func c03Run(c *vlib.Ctx, idx int, sc c03Scenario) {
	id := c.Case(map[string]interface{}{"index": idx, "scenario": sc})
	if idx%13 == 1 {
		c.Sample(sc)
	}
	cls := sc.class()
	c.Nontrivial(vlib.Hash("c03", cls, sc.Delay))
	obs := &c03Obs{Scenario: sc, Index: idx}
	wfName := fmt.Sprintf("c03w%d", idx)
	wf := coresim.WorkflowSpec{Name: wfName, Hosts: []string{"host1"}, Defaults: map[string]string{"deploy_timeout": "60s"}, Tasks: []coresim.TaskSpec{
		{Name: "t0", Host: "host1", Critical: true, Mode: "direct"},
		{Name: "t1", Host: "host2", Critical: true, Mode: "basic"},
		{Name: "t2", Host: "host3", Critical: false, Mode: "fairmq"},
		{Name: "t3", Host: "host3", Critical: false, Mode: "basic"},
		{Name: "t4", Host: "host1", Critical: true, Mode: "direct"}, // last in child order: the victim of "mixed"
	}}
	gateDir := os.Getenv("TMPDIR")
	if gateDir == "" {
		gateDir = os.TempDir()
	}
	gateOpen := fmt.Sprintf("%s/c03-gate-open-%d-%d", gateDir, c.Batch, idx)
	gate2 := fmt.Sprintf("%s/c03-gate-2-%d-%d", gateDir, c.Batch, idx)
	if sc.Reuse {
		// every creation parks at before_DEPLOY (after its pre-deployment cleanup) until its gate file exists
		os.WriteFile(gateOpen, []byte("x"), 0o644)
		os.Remove(gate2)
		defer os.Remove(gateOpen)
		defer os.Remove(gate2)
		wf.Calls = append(wf.Calls, coresim.CallSpec{Name: "dgate", Func: "verif.Slow()", Trigger: "before_DEPLOY", Critical: false, Timeout: "90s", Vars: map[string]string{"verif_tag": "dgate", "verif_gate": "{{ c03_gate }}"}})
	}
	if sc.GoErrorHookFails {
		wf.Calls = append(wf.Calls, coresim.CallSpec{Name: "goerrhook", Func: "verif.Fail()", Trigger: "before_GO_ERROR", Critical: true, Vars: map[string]string{"verif_tag": "fail"}})
		c.Count("faults_with_failing_go_error_hook", 1)
	}
	opt := coresim.Options{Agents: stdAgents(3), Detectors: stdDetectors(3), Files: wf.Files()}
	if sc.Reuse {
		opt.Settings = map[string]string{"reuseUnlockedTasks": "true"}
	}
	var points []string
	if sc.Delay {
		points = append(points, "env.wfwatch.afterRecv=sleep(20)")
	}
	if sc.FailDelay {
		points = append(points, "taskman.executorFailed.beforeStateUpdate=sleep(300)", "taskman.agentFailed.beforeStateUpdate=sleep(300)")
		c.Count("faults_with_status_processed_first", 1)
	}
	if sc.Instant == "completion" {
		points = append(points, "envman.statechanged.beforeSend=sleep(500)")
	}
	if len(points) > 0 {
		opt.Env = append(opt.Env, "VERIF_POINTS="+strings.Join(points, ";"))
	}
	s, err := coresim.Start(opt)
	if err != nil {
		c.Inconclusive("coresim start: " + truncate(err.Error(), 3000))
		return
	}
	defer func() {
		finishSim(c, s, id, obs)
		s.Close()
	}()
	fail := func(rule, what string) {
		c.Violation(rule, cls, fmt.Sprintf("%s [scenario %d: %+v]", what, idx, sc), id, obs)
	}
	s.Master.OnLaunch = func(t *simmesos.LaunchedTask) simmesos.LaunchPlan {
		return simmesos.LaunchPlan{Kind: "running", Delay: 30 * time.Millisecond}
	}
	gate := make(chan struct{})
	gated := false
	s.Master.OnCommand = func(t *simmesos.LaunchedTask, cmd *simmesos.CommandSeen) simmesos.Reply {
		if gated {
			return simmesos.Reply{Kind: "ok", Gate: gate, AfterDeath: sc.Instant == "late-reply"}
		}
		return simmesos.Reply{Kind: "ok"}
	}
	api := 90 * time.Second
	ctx, cancel := coresim.Ctx(api)
	vars1 := map[string]string{}
	if sc.Reuse {
		vars1["c03_gate"] = gateOpen
	}
	r, err := s.Client.NewEnvironment(ctx, &pb.NewEnvironmentRequest{WorkflowTemplate: wfName, Vars: vars1})
	cancel()
	if err != nil {
		c.Inconclusive(fmt.Sprintf("scenario %d: fault-free creation failed: %s", idx, truncate(grpcMsg(err), 300)))
		return
	}
	envID := r.GetEnvironment().GetId()
	if sc.Reuse {
		launched := len(s.Master.Tasks())
		// the second creation is started first and parks at its before_DEPLOY gate (its pre-deployment
		// cleanup is over); then the first environment is destroyed with keep-tasks; then the gate opens
		type cr struct {
			r   *pb.NewEnvironmentReply
			err error
		}
		second := make(chan cr, 1)
		go func() {
			ctx, cancel := coresim.Ctx(150 * time.Second)
			defer cancel()
			r2, err2 := s.Client.NewEnvironment(ctx, &pb.NewEnvironmentRequest{WorkflowTemplate: wfName, Vars: map[string]string{"c03_gate": gate2, "hosts": `["host2"]`}}) // another detector: the first environment still holds host1's
			second <- cr{r2, err2}
		}()
		parked := false
		for dl := time.Now().Add(60 * time.Second); time.Now().Before(dl) && !parked; time.Sleep(20 * time.Millisecond) {
			n := 0
			for _, rec := range s.PluginRecords() {
				if rec.Tag == "dgate" && rec.Phase == "start" {
					n++
				}
			}
			parked = n >= 2
		}
		if !parked {
			os.WriteFile(gate2, []byte("x"), 0o644)
			why := ""
			select {
			case sec := <-second:
				why = ": it returned " + truncate(grpcMsg(sec.err), 300)
			default:
			}
			c.Inconclusive(fmt.Sprintf("scenario %d: the second creation did not reach its before_DEPLOY gate%s", idx, why))
			return
		}
		ctx, cancel := coresim.Ctx(api)
		_, derr := s.Client.DestroyEnvironment(ctx, &pb.DestroyEnvironmentRequest{Id: envID, KeepTasks: true})
		cancel()
		os.WriteFile(gate2, []byte("x"), 0o644)
		// an environment built on taken-over tasks becomes live when their status is delivered once more
		// (status updates are delivered at least once); as soon as the second environment lists the kept
		// tasks as its own the master sends TASK_RUNNING for each of them again
		redelivered := map[string]bool{}
		for dl := time.Now().Add(60 * time.Second); derr == nil && time.Now().Before(dl) && len(redelivered) < launched && len(second) == 0; time.Sleep(20 * time.Millisecond) {
			ctx, cancel := coresim.Ctx(20 * time.Second)
			er, lerr := s.Client.GetEnvironments(ctx, &pb.GetEnvironmentsRequest{ShowAll: true, ShowTaskInfos: true})
			cancel()
			if lerr != nil {
				break
			}
			for _, e := range er.GetEnvironments() {
				if e.GetId() == envID {
					continue
				}
				for _, t := range e.GetTasks() {
					if tid := t.GetTaskId(); tid != "" && !redelivered[tid] {
						redelivered[tid] = true
						s.Master.TaskStatus(tid, "TASK_RUNNING", "status update delivered again")
					}
				}
			}
		}
		c.Count("status_updates_redelivered_after_takeover", int64(len(redelivered)))
		sec := <-second
		if derr != nil {
			c.Inconclusive(fmt.Sprintf("scenario %d: keep-tasks destroy of the first environment failed: %s", idx, truncate(grpcMsg(derr), 300)))
			return
		}
		if sec.err != nil {
			c.Inconclusive(fmt.Sprintf("scenario %d: creation of the environment that takes the tasks over failed: %s", idx, truncate(grpcMsg(sec.err), 300)))
			return
		}
		if n := len(s.Master.Tasks()); n != launched {
			c.Inconclusive(fmt.Sprintf("scenario %d: the second environment launched %d new task(s) instead of taking the kept ones over", idx, n-launched))
			return
		}
		envID = sec.r.GetEnvironment().GetId()
		c.Count("faults_on_reused_tasks", 1)
	}
	control := func(op pb.ControlEnvironmentRequest_Optype) error {
		ctx, cancel := coresim.Ctx(api)
		defer cancel()
		rr, err := s.Client.ControlEnvironment(ctx, &pb.ControlEnvironmentRequest{Id: envID, Type: op})
		obs.Steps = append(obs.Steps, fmt.Sprintf("%s err=%q state=%s", op, truncate(grpcMsg(err), 200), rr.GetState()))
		return err
	}
	if sc.State == "RUNNING" {
		if err := control(pb.ControlEnvironmentRequest_START_ACTIVITY); err != nil {
			c.Inconclusive("fault-free START failed: " + grpcMsg(err))
			return
		}
	}
	// find the victim and a sibling
	var victim, sibling, otherCrit *simmesos.LaunchedTask
	for _, t := range s.Master.Tasks() {
		t := t
		if strings.HasSuffix(t.RolePath, "."+sc.Victim) {
			victim = &t
		} else if strings.HasSuffix(t.RolePath, ".t2") || strings.HasSuffix(t.RolePath, ".t3") {
			if sibling == nil {
				sibling = &t
			}
		}
		if strings.HasSuffix(t.RolePath, ".t1") && sc.Victim != "t1" {
			otherCrit = &t
		}
	}
	if victim == nil {
		c.Inconclusive("victim task not found at the master")
		return
	}
	inject := func(v *simmesos.LaunchedTask, kind string) {
		switch kind {
		case "failed":
			s.Master.TaskStatus(v.ID, "TASK_FAILED", "process died (scripted)")
		case "lost":
			s.Master.TaskStatus(v.ID, "TASK_LOST", "lost (scripted)")
		case "killed":
			s.Master.TaskStatus(v.ID, "TASK_KILLED", "killed by someone else (scripted)")
		case "exec-failure":
			s.Master.ExecutorFailure(v.AgentID, v.ExecutorID, false)
		case "exec-failure+status":
			s.Master.ExecutorFailure(v.AgentID, v.ExecutorID, true)
		case "agent-failure":
			s.Master.AgentFailure(v.AgentID, false)
		case "agent-failure+status":
			s.Master.AgentFailure(v.AgentID, true)
		case "internal-error":
			s.Master.DeviceEvent(v.ID, 3, "TASK_INTERNAL_ERROR", nil)
			s.Master.SetTaskState(v.ID, "ERROR")
		case "lost-while-disconnected":
			s.Master.LoseWhileDisconnected(v.ID)
			c.Count("faults_reported_by_reconciliation_only", 1)
		case "basic-terminated":
			s.Master.DeviceEvent(v.ID, 2, "BASIC_TASK_TERMINATED", map[string]interface{}{"exitCode": 1, "stdout": "", "stderr": "boom", "voluntaryTermination": false, "finalMesosState": 3})
			s.Master.TaskStatus(v.ID, "TASK_FAILED", "exit status 1")
		}
	}
	ev0 := len(s.Events())
	var transDone chan error
	switch sc.Instant {
	case "transition", "late-reply", "completion":
		// a transition command is outstanding at the executors while the fault hits (completion: the
		// executors answer at once and the fault hits while the transition's completion is being delivered)
		gated = sc.Instant != "completion"
		op := pb.ControlEnvironmentRequest_START_ACTIVITY
		if sc.State == "RUNNING" {
			op = pb.ControlEnvironmentRequest_STOP_ACTIVITY
		}
		transDone = make(chan error, 1)
		go func() { transDone <- control(op) }()
		// wait until the commands reached the executors
		deadline := time.Now().Add(20 * time.Second)
		for time.Now().Before(deadline) {
			n := 0
			for _, t := range s.Master.Tasks() {
				for _, cs := range t.Commands {
					if cs.Event == "START" && sc.State == "CONFIGURED" || cs.Event == "STOP" && sc.State == "RUNNING" {
						n++
					}
				}
			}
			if n >= 5 {
				break
			}
			time.Sleep(5 * time.Millisecond)
		}
		if sc.Instant == "completion" {
			time.Sleep(150 * time.Millisecond) // the answers are in, the event loop holds the completion event
			c.Count("faults_while_event_loop_busy", 1)
		}
	case "grace":
		if otherCrit != nil && sc.Critical {
			s.Master.TaskStatus(otherCrit.ID, "TASK_FAILED", "first fault (scripted)")
			time.Sleep(100 * time.Millisecond)
		}
	case "after-reconnect":
		// the event stream is dropped and re-established (the core reconciles: master-generated
		// TASK_RUNNING updates without executor id for every task), then the fault hits
		life0 := s.Master.Life()
		s.Master.DropStream()
		dl := time.Now().Add(60 * time.Second)
		for time.Now().Before(dl) && (s.Master.Life() == life0 || !s.Master.Subscribed()) {
			time.Sleep(20 * time.Millisecond)
		}
		if s.Master.Life() == life0 {
			c.Inconclusive("core did not resubscribe within 60 s")
			return
		}
		waitQuiet(s, 300*time.Millisecond, 5*time.Second)
		if st, _ := envState(s, envID); st != sc.State {
			c.Inconclusive("environment left " + sc.State + " after a mere reconnection (C18's domain): " + st)
			return
		}
		c.Count("faults_after_reconnect", 1)
	case "mixed":
		// critical t0 (listed before the victim) finishes on its own: the workflow's critical tasks
		// now disagree (DONE vs the others) and keep disagreeing when the victim fails
		for _, t := range s.Master.Tasks() {
			if strings.HasSuffix(t.RolePath, ".t0") {
				s.Master.TaskStatus(t.ID, "TASK_FINISHED", "done (scripted)")
			}
		}
		time.Sleep(1500 * time.Millisecond)
		if st, _ := envState(s, envID); st != sc.State {
			c.Inconclusive("environment left " + sc.State + " when a critical task finished: " + st)
			return
		}
		c.Count("faults_with_mixed_siblings", 1)
	case "burst":
		for _, t := range s.Master.Tasks() {
			if strings.HasSuffix(t.RolePath, ".t2") || strings.HasSuffix(t.RolePath, ".t3") {
				s.Master.ExecutorFailure(t.AgentID, t.ExecutorID, false)
			}
		}
		c.Count("faults_behind_a_burst_of_failure_events", 1)
	case "sibling":
		if sibling != nil && sibling.ID != victim.ID {
			s.Master.SetTaskState(sibling.ID, "STANDBY")
			s.Master.RawMessage(sibling.ID, []byte(fmt.Sprintf(`{"name":"MesosCommand_Transition","id":"9m4e2mr0ui3e8a215n4g","environmentId":%q,"error":"","_messageType":"MesosCommandResponse","state":"STANDBY","taskId":%q}`, envID, sibling.ID)))
		}
	}
	s.Master.Note("INJECT", map[string]interface{}{"kind": sc.Kind, "victim": victim.RolePath})
	inject(victim, sc.Kind)
	c.Count("faults_injected", 1)
	c.Count("faults_"+sc.Kind, 1)
	t0 := time.Now()
	if sc.Instant == "late-reply" {
		c.Count("faults_with_late_healthy_reply", 1)
	}
	if sc.Instant == "transition" || sc.Instant == "late-reply" || sc.Instant == "completion" {
		if sc.Instant != "completion" {
			time.Sleep(50 * time.Millisecond)
			gated = false
			close(gate)
		}
		select {
		case <-transDone:
		case <-time.After(150 * time.Second):
			obs.Steps = append(obs.Steps, "transition racing with the fault did not return within 150s")
		}
	}
	sample := func() string {
		st, err := envState(s, envID)
		if err != nil {
			st = "gone(" + truncate(grpcMsg(err), 60) + ")"
		}
		obs.States = append(obs.States, fmt.Sprintf("%dms:%s", time.Since(t0).Milliseconds(), st))
		return st
	}
	healthy := func(st string) bool {
		return st == "CONFIGURED" || st == "RUNNING" || st == "DEPLOYED" || st == "STANDBY"
	}
	if sc.Critical {
		c.Count("critical_faults", 1)
		// bounded progress: ERROR within 20 s (nominal ~0.6 s); confirmed stuck before declaring
		reached := false
		deadline := time.Now().Add(20 * time.Second)
		for time.Now().Before(deadline) {
			if st := sample(); st == "ERROR" || strings.HasPrefix(st, "gone") || st == "DONE" {
				reached = st == "ERROR"
				if !reached {
					fail("NOT-ERROR", "the environment disappeared instead of ending in ERROR: "+st)
					return
				}
				break
			}
			time.Sleep(50 * time.Millisecond)
		}
		if !reached {
			n0 := s.Master.LogLen()
			time.Sleep(5 * time.Second)
			st1 := sample()
			time.Sleep(5 * time.Second)
			st2 := sample()
			if st1 != "ERROR" && st2 != "ERROR" && s.Master.LogLen() == n0 {
				fail("NOT-ERROR", fmt.Sprintf("critical task %s failed (%s) but the environment still reports %s 30 s later with nothing pending at the master", victim.RolePath, sc.Kind, st2))
				return
			}
			if st2 != "ERROR" {
				c.Inconclusive(fmt.Sprintf("scenario %d: not ERROR after 30s but master traffic continues", idx))
				return
			}
		}
		c.Count("error_reached", 1)
		c.Count("error_latency_ms", time.Since(t0).Milliseconds())
		if sc.State == "CONFIGURED" && (sc.Instant == "transition" || sc.Instant == "late-reply" || sc.Instant == "completion") {
			// the fault hit while START_ACTIVITY was in progress: if that start had opened a run (start
			// timestamp set), its end has to be recorded as well
			time.Sleep(300 * time.Millisecond)
			ctx, cancel := coresim.Ctx(20 * time.Second)
			ge, gerr := s.Client.GetEnvironment(ctx, &pb.GetEnvironmentRequest{Id: envID})
			cancel()
			if gerr == nil {
				uv := ge.GetEnvironment().GetUserVars()
				if uv["run_start_time_ms"] != "" {
					c.Count("end_of_run_checks_after_failed_start", 1)
					if uv["run_end_time_ms"] == "" {
						fail("END-OF-RUN-MISSING", "a critical task died while START_ACTIVITY was in progress: the run was opened (run_start_time_ms="+uv["run_start_time_ms"]+"), the environment ended in ERROR, but run_end_time_ms is empty")
					}
				}
			}
		}
		if sc.State == "RUNNING" && sc.Instant != "transition" && sc.Instant != "late-reply" && sc.Instant != "completion" {
			// the end of the run is recorded
			time.Sleep(300 * time.Millisecond)
			recorded := false
			evs := s.Events()
			for i := ev0; i < len(evs); i++ {
				if strings.HasSuffix(evs[i].Type, "Ev_RunEvent") {
					var e struct {
						EnvironmentId string `json:"environmentId"`
						Transition    string `json:"transition"`
					}
					if json.Unmarshal(evs[i].Ev, &e) == nil && e.EnvironmentId == envID {
						recorded = true
					}
				}
			}
			ctx, cancel := coresim.Ctx(20 * time.Second)
			ge, gerr := s.Client.GetEnvironment(ctx, &pb.GetEnvironmentRequest{Id: envID})
			cancel()
			if gerr == nil {
				if v := ge.GetEnvironment().GetUserVars()["run_end_time_ms"]; v != "" {
					recorded = true
				}
			}
			c.Count("end_of_run_checks", 1)
			if !recorded {
				fail("END-OF-RUN-MISSING", "the environment went from RUNNING to ERROR but no end of run was recorded (no run event after the fault, run_end_time_ms empty)")
			}
		}
	} else {
		c.Count("noncritical_faults", 1)
		changed := ""
		for i := 0; i < 12; i++ {
			st := sample()
			want := sc.State
			if sc.Instant == "transition" || sc.Instant == "late-reply" {
				// the racing transition itself legitimately changes the state
				if healthy(st) {
					time.Sleep(250 * time.Millisecond)
					continue
				}
			}
			if st != want && sc.Instant != "transition" && sc.Instant != "late-reply" {
				changed = st
				break
			}
			if (sc.Instant == "transition" || sc.Instant == "late-reply") && !healthy(st) {
				changed = st
				break
			}
			time.Sleep(250 * time.Millisecond)
		}
		if changed != "" {
			fail("STATE-CHANGED", fmt.Sprintf("non-critical task %s failed (%s) and the environment went from %s to %s", victim.RolePath, sc.Kind, sc.State, changed))
		} else {
			c.Count("state_unchanged", 1)
		}
	}
}
