package main

// C06 — destroying or failing to create an environment leaves nothing behind.

import (
	"fmt"
	"os"
	"strings"
	"sync/atomic"
	"time"

	pb "github.com/AliceO2Group/Control/core/protos"
	"github.com/mesos/mesos-go/api/v1/lib/scheduler"

	"verif/harness/coresim"
	simmesos "verif/harness/sim/mesos"
	"verif/harness/vlib"
)

type c06Scenario struct {
	Kind      string `json:"kind"`  // destroy | create-fail
	State     string `json:"state"` // destroy: CONFIGURED RUNNING ERROR DEPLOYED
	Force     bool   `json:"force"`
	AllowRun  bool   `json:"allow_in_running"`
	KeepTasks bool   `json:"keep_tasks"`
	Kill      string `json:"kill"`  // killed | ignore | refused
	Stage     string `json:"stage"` // create-fail: unknown-template template-error detector-conflict undeployable staging-failed configure-error hook-failure
	Hooks     string `json:"hooks"` // none | calls | tasks | tasks2w | pending-call
	NTasks    int    `json:"ntasks"`
}

func (sc c06Scenario) class() string {
	if sc.Kind == "destroy" {
		fl := []string{}
		if sc.Force {
			fl = append(fl, "force")
		}
		if sc.AllowRun {
			fl = append(fl, "allowrun")
		}
		if sc.KeepTasks {
			fl = append(fl, "keeptasks")
		}
		return fmt.Sprintf("destroy/%s/%s/kill=%s/hooks=%s", sc.State, strings.Join(fl, "+"), sc.Kill, sc.Hooks)
	}
	if sc.Kind == "second-destroy" {
		return fmt.Sprintf("second-destroy/%s/kill=%s", sc.State, sc.Kill)
	}
	return fmt.Sprintf("create-fail/%s/hooks=%s", sc.Stage, sc.Hooks)
}

func c06Scenarios(c *vlib.Ctx) []c06Scenario {
	var out []c06Scenario
	states := []string{"CONFIGURED", "RUNNING", "ERROR", "DEPLOYED"}
	type fl struct{ f, a, k bool }
	flags := []fl{{false, false, false}, {true, false, false}, {false, true, false}, {true, false, true}, {false, false, true}}
	for _, st := range states {
		for _, f := range flags {
			out = append(out, c06Scenario{Kind: "destroy", State: st, Force: f.f, AllowRun: f.a, KeepTasks: f.k, Kill: "killed", Hooks: "none", NTasks: 2})
		}
	}
	for _, h := range []string{"calls", "tasks", "tasks2w", "tasks-same-weight", "pending-call"} {
		for _, st := range []string{"CONFIGURED", "RUNNING"} {
			out = append(out, c06Scenario{Kind: "destroy", State: st, Force: st == "RUNNING", Kill: "killed", Hooks: h, NTasks: 2})
		}
	}
	// an executor / agent of the environment fails first (its tasks lose their executor or agent id),
	// then the environment is destroyed, with and without keep-tasks
	for _, f := range []string{"exec-failed", "agent-failed"} {
		for _, keep := range []bool{true, false} {
			out = append(out, c06Scenario{Kind: "destroy", State: "CONFIGURED", Force: true, KeepTasks: keep, Kill: "killed", Hooks: f, NTasks: 3})
		}
	}
	for _, stg := range []string{"unknown-template", "template-error", "detector-conflict", "undeployable", "staging-failed", "configure-error", "hook-failure"} {
		out = append(out, c06Scenario{Kind: "create-fail", Stage: stg, Hooks: "none", NTasks: 2, Kill: "killed"})
	}
	// the other tasks of a creation that fails at deployment report TASK_RUNNING only after the failure
	out = append(out, c06Scenario{Kind: "create-fail", Stage: "staging-failed-stragglers", Hooks: "none", NTasks: 3, Kill: "killed"})
	out = append(out, c06Scenario{Kind: "create-fail", Stage: "configure-error", Hooks: "pending-call", NTasks: 2, Kill: "killed"})
	out = append(out, c06Scenario{Kind: "create-fail", Stage: "configure-error", Hooks: "tasks", NTasks: 2, Kill: "killed"})
	// a call started at before_CONFIGURE and awaited at a later weight of the same moment, with the
	// critical hook failing in between: the call is pending when the creation is abandoned
	out = append(out, c06Scenario{Kind: "create-fail", Stage: "hook-failure", Hooks: "pending-call-same-moment", NTasks: 2, Kill: "killed"})
	// a critical DESTROY hook fails: whatever the destroy answers, OK means the environment is gone
	for _, st := range []string{"CONFIGURED", "RUNNING", "ERROR"} {
		out = append(out, c06Scenario{Kind: "destroy", State: st, Force: true, Kill: "killed", Hooks: "destroy-hook-fails", NTasks: 2})
	}
	out = append(out, c06Scenario{Kind: "destroy", State: "CONFIGURED", Force: false, Kill: "killed", Hooks: "destroy-hook-fails", NTasks: 2})
	// the master refuses the first KILL call only: every other task must still be asked to terminate
	out = append(out, c06Scenario{Kind: "destroy", State: "CONFIGURED", Kill: "refused-first", Hooks: "none", NTasks: 3})
	out = append(out, c06Scenario{Kind: "destroy", State: "RUNNING", Force: true, Kill: "refused-first", Hooks: "none", NTasks: 4})
	out = append(out, c06Scenario{Kind: "create-fail", Stage: "configure-error", Hooks: "none", NTasks: 3, Kill: "refused-first"})
	out = append(out, c06Scenario{Kind: "create-fail", Stage: "detector-conflict-race", Hooks: "none", NTasks: 2, Kill: "killed"})
	out = append(out, c06Scenario{Kind: "create-fail", Stage: "detector-conflict-race", Hooks: "calls", NTasks: 3, Kill: "killed"})
	// two environments: the KILLs of the first destroy are never answered (its request stays pending); the
	// destroy of the second environment, and the clean-up of a creation that fails, must still get through
	out = append(out, c06Scenario{Kind: "second-destroy", State: "CONFIGURED", Kill: "first-unanswered", Hooks: "none", NTasks: 2})
	out = append(out, c06Scenario{Kind: "second-destroy", State: "RUNNING", Force: true, Kill: "first-unanswered", Hooks: "none", NTasks: 3})
	// two environments with a task each on one agent (tasks of one environment on one agent share an executor,
	// those of two environments do not): the executor of the first fails, then the second is destroyed
	out = append(out, c06Scenario{Kind: "second-destroy", State: "CONFIGURED", Force: true, Kill: "first-executor-failed", Hooks: "none", NTasks: 2})
	out = append(out, c06Scenario{Kind: "second-destroy", State: "RUNNING", Force: true, Kill: "first-executor-failed", Hooks: "none", NTasks: 3})
	if c.Tier == "thorough" {
		for _, st := range states {
			for _, k := range []string{"ignore", "refused"} {
				out = append(out, c06Scenario{Kind: "destroy", State: st, Force: st != "DEPLOYED", Kill: k, Hooks: "none", NTasks: 2})
			}
			for _, h := range []string{"calls", "tasks", "tasks2w", "pending-call"} {
				for _, f := range flags {
					out = append(out, c06Scenario{Kind: "destroy", State: st, Force: f.f, AllowRun: f.a, KeepTasks: f.k, Kill: "killed", Hooks: h, NTasks: 3})
				}
			}
		}
		for _, stg := range []string{"undeployable", "staging-failed", "configure-error", "hook-failure"} {
			for _, h := range []string{"calls", "tasks2w"} {
				out = append(out, c06Scenario{Kind: "create-fail", Stage: stg, Hooks: h, NTasks: 3, Kill: "killed"})
			}
		}
	}
	return out
}

func runC06() {
	c := vlib.Start("C06")
	defer c.Finish()
	scs := c06Scenarios(c)
	lo, hi := c.Slice(len(scs))
	if only := os.Getenv("VERIF_ONLY"); only != "" {
		fmt.Sscan(only, &lo)
		hi = lo + 1
	}
	parallel(lo, hi, 3, func(i int) { c06Run(c, i, scs[i]) })
}

type c06Obs struct {
	Scenario   c06Scenario `json:"scenario"`
	Index      int         `json:"index"`
	Steps      []string    `json:"steps"`
	Goroutines string      `json:"blocked_goroutines,omitempty"`
	Tasks      []string    `json:"tasks,omitempty"`
}

func c06Run(c *vlib.Ctx, idx int, sc c06Scenario) {
	id := c.Case(map[string]interface{}{"index": idx, "scenario": sc})
	if idx%11 == 2 {
		c.Sample(sc)
	}
	if sc.Kind == "second-destroy" {
		c06SecondDestroy(c, idx, id, sc)
		return
	}
	cls := sc.class()
	c.Nontrivial(vlib.Hash("c06", cls))
	obs := &c06Obs{Scenario: sc, Index: idx}
	wfName := fmt.Sprintf("c06w%d", idx)
	wf := coresim.WorkflowSpec{Name: wfName, Hosts: []string{"host1"}, Defaults: map[string]string{"deploy_timeout": "60s"}}
	for i := 0; i < sc.NTasks; i++ {
		wf.Tasks = append(wf.Tasks, coresim.TaskSpec{Name: fmt.Sprintf("t%d", i), Host: fmt.Sprintf("host%d", 1+i%2), Critical: i == 0, Mode: c02Modes[i%3]})
	}
	gateDir := os.Getenv("TMPDIR")
	if gateDir == "" {
		gateDir = os.TempDir()
	}
	switch sc.Hooks {
	case "calls":
		wf.Calls = append(wf.Calls,
			coresim.CallSpec{Name: "dh1", Func: "verif.Snapshot()", Trigger: "DESTROY-1", Critical: false, Vars: map[string]string{"verif_tag": "destroy-hook", "verif_snapshot": "true"}},
			coresim.CallSpec{Name: "dh2", Func: "verif.Snapshot()", Trigger: "after_DESTROY+2", Critical: false, Vars: map[string]string{"verif_tag": "destroy-hook", "verif_snapshot": "true"}})
	case "tasks":
		wf.Tasks = append(wf.Tasks, coresim.TaskSpec{Name: "hk0", Host: "host1", Critical: false, Mode: "basic", Trigger: "DESTROY", Timeout: "5s"})
	case "tasks2w":
		wf.Tasks = append(wf.Tasks, coresim.TaskSpec{Name: "hk0", Host: "host1", Critical: false, Mode: "basic", Trigger: "DESTROY-1", Timeout: "5s"},
			coresim.TaskSpec{Name: "hk1", Host: "host2", Critical: false, Mode: "basic", Trigger: "DESTROY+1", Timeout: "5s"})
		wf.Calls = append(wf.Calls, coresim.CallSpec{Name: "dh1", Func: "verif.Snapshot()", Trigger: "DESTROY+0", Critical: false, Vars: map[string]string{"verif_tag": "destroy-hook", "verif_snapshot": "true"}})
	case "tasks-same-weight":
		// a DESTROY and an after_DESTROY hook task at the same weight
		wf.Tasks = append(wf.Tasks, coresim.TaskSpec{Name: "hk0", Host: "host1", Critical: false, Mode: "basic", Trigger: "DESTROY", Timeout: "5s"},
			coresim.TaskSpec{Name: "hk1", Host: "host2", Critical: false, Mode: "basic", Trigger: "after_DESTROY", Timeout: "5s"})
	case "pending-call":
		// started at before_CONFIGURE, awaited at a point that is never reached
		wf.Calls = append(wf.Calls, coresim.CallSpec{Name: "pc", Func: "verif.Slow()", Trigger: "before_CONFIGURE", Await: "after_STOP_ACTIVITY+50", Timeout: "3s", Critical: false, Vars: map[string]string{"verif_tag": "pending", "verif_sleep_ms": "20"}})
	case "destroy-hook-fails":
		wf.Calls = append(wf.Calls, coresim.CallSpec{Name: "dhf", Func: "verif.Fail()", Trigger: "DESTROY", Critical: true, Vars: map[string]string{"verif_tag": "destroy-hook-fails"}})
	case "pending-call-same-moment":
		wf.Calls = append(wf.Calls, coresim.CallSpec{Name: "pc", Func: "verif.Slow()", Trigger: "before_CONFIGURE", Await: "before_CONFIGURE+20", Timeout: "3s", Critical: false, Vars: map[string]string{"verif_tag": "pending", "verif_sleep_ms": "20"}})
	}
	if sc.Kind == "create-fail" && sc.Stage == "hook-failure" {
		wf.Calls = append(wf.Calls, coresim.CallSpec{Name: "badhook", Func: "verif.Fail()", Trigger: "before_CONFIGURE+10", Critical: true, Vars: map[string]string{"verif_tag": "fail"}})
	}
	if sc.Kind == "create-fail" && sc.Stage == "template-error" {
		wf.Tasks[0].Vars = map[string]string{"broken": "{{ undefined_function_xyz(1) }}"}
	}
	if sc.Kind == "create-fail" && sc.Stage == "undeployable" {
		wf.Tasks[0].Host = "host9"
		wf.Defaults["deploy_timeout"] = "6s"
	}
	if sc.Kind == "create-fail" && (sc.Stage == "staging-failed" || sc.Stage == "staging-failed-stragglers") {
		wf.Defaults["deploy_timeout"] = "6s"
	}
	files := wf.Files()
	// a second workflow on the same detector for the conflict scenario
	holder := coresim.WorkflowSpec{Name: wfName + "h", Hosts: []string{"host1"}, Tasks: []coresim.TaskSpec{{Name: "h0", Host: "host3", Critical: true, Mode: "direct"}}}
	for k, v := range holder.Files() {
		files[k] = v
	}
	copt := coresim.Options{Agents: stdAgents(3), Detectors: stdDetectors(3), Files: files}
	if sc.Stage == "detector-conflict-race" {
		copt.Env = append(copt.Env, "VERIF_POINTS=envman.create.afterDetectorRead=sleep(300)")
	}
	if strings.HasPrefix(sc.Hooks, "tasks") {
		// DESTROY hook tasks make the teardown wait for a second release round: the event loop is held up
		// right after it has handed the first round over, so that the teardown registers its channel for the
		// second round before the loop does its bookkeeping for the first
		copt.Env = append(copt.Env, "VERIF_POINTS=envman.released.afterSend=sleep(100)")
		c.Count("teardowns_with_hook_tasks_and_event_loop_held_after_release", 1)
	}
	s, err := coresim.Start(copt)
	if err != nil {
		c.Inconclusive("coresim start: " + truncate(err.Error(), 12000))
		return
	}
	dumped := false
	defer func() {
		finishSim(c, s, id, obs)
		s.Close()
	}()
	fail := func(rule, what string) {
		for _, t := range s.Master.Tasks() {
			obs.Tasks = append(obs.Tasks, fmt.Sprintf("%s %s env=%s mesos=%s kills=%d", t.RolePath, t.ID, t.EnvID, t.Mesos, t.KillAsked))
		}
		c.Violation(rule, cls, fmt.Sprintf("%s [scenario %d: %+v]", what, idx, sc), id, obs)
	}
	armedConfigureError := false
	s.Master.OnLaunch = func(t *simmesos.LaunchedTask) simmesos.LaunchPlan {
		plan := simmesos.LaunchPlan{Kind: "running", Delay: 30 * time.Millisecond}
		if sc.Kind == "create-fail" && (sc.Stage == "staging-failed" || sc.Stage == "staging-failed-stragglers") && strings.HasSuffix(t.RolePath, ".t0") {
			plan.Kind = "failed"
		} else if sc.Stage == "staging-failed-stragglers" {
			plan.Delay = 400 * time.Millisecond
		}
		return plan
	}
	s.Master.OnCommand = func(t *simmesos.LaunchedTask, cmd *simmesos.CommandSeen) simmesos.Reply {
		if armedConfigureError && cmd.Event == "CONFIGURE" && strings.HasSuffix(t.RolePath, ".t0") {
			return simmesos.Reply{Kind: "error-stay"}
		}
		return simmesos.Reply{Kind: "ok"}
	}
	s.Master.OnKill = func(t *simmesos.LaunchedTask) string {
		if sc.Kill == "ignore" {
			return "ignore"
		}
		return "killed"
	}
	var refusedKillOf atomic.Value // task id whose KILL call was refused (refused-first)
	if sc.Kill == "refused-first" {
		s.Master.OnCall = func(call *scheduler.Call, m *simmesos.Master) *simmesos.CallFault {
			if call.GetType() == scheduler.Call_KILL && refusedKillOf.CompareAndSwap(nil, call.GetKill().GetTaskID().Value) {
				return &simmesos.CallFault{HTTPStatus: 400}
			}
			return nil
		}
	}
	if sc.Kill == "refused" {
		s.Master.OnCall = func(call *scheduler.Call, m *simmesos.Master) *simmesos.CallFault {
			if call.GetType() == scheduler.Call_KILL {
				return &simmesos.CallFault{HTTPStatus: 400}
			}
			return nil
		}
	}
	apiTimeout := 90 * time.Second
	create := func(name string) (*pb.NewEnvironmentReply, error) {
		ctx, cancel := coresim.Ctx(apiTimeout)
		defer cancel()
		t0 := time.Now()
		r, err := s.Client.NewEnvironment(ctx, &pb.NewEnvironmentRequest{WorkflowTemplate: name, Vars: map[string]string{}})
		obs.Steps = append(obs.Steps, fmt.Sprintf("NewEnvironment(%s) err=%q in %s", name, truncate(grpcMsg(err), 200), time.Since(t0).Round(time.Millisecond)))
		c.Count("api_requests", 1)
		return r, err
	}
	control := func(envID string, op pb.ControlEnvironmentRequest_Optype) error {
		ctx, cancel := coresim.Ctx(apiTimeout)
		defer cancel()
		r, err := s.Client.ControlEnvironment(ctx, &pb.ControlEnvironmentRequest{Id: envID, Type: op})
		obs.Steps = append(obs.Steps, fmt.Sprintf("%s err=%q state=%s", op, truncate(grpcMsg(err), 200), r.GetState()))
		c.Count("api_requests", 1)
		return err
	}
	hang := func(what string) {
		if s.CoreAlive() {
			waitQuiet(s, 2*time.Second, 6*time.Second)
			obs.Goroutines = truncate(s.DumpGoroutines(), 6000)
			dumped = true
			if strings.Contains(s.LogTail(6000), stuckClientSignature) {
				c.Violation("HANG", "scheduler-client-stuck-already-subscribed", fmt.Sprintf("%s did not return within %s; the core's log shows the reason: %s [scenario %d: %+v]", what, apiTimeout, stuckClientExplanation, idx, sc), id, obs)
				return
			}
			fail("HANG", what+" did not return within "+apiTimeout.String()+" with the master quiescent")
		}
	}

	var envID string
	var envDetectors []string
	holderID := ""
	if sc.Kind == "create-fail" {
		name := wfName
		switch sc.Stage {
		case "unknown-template":
			name = "no-such-workflow"
		case "detector-conflict":
			hr, err := create(wfName + "h")
			if err != nil {
				c.Inconclusive(fmt.Sprintf("scenario %d: holder creation failed: %s", idx, grpcMsg(err)))
				return
			}
			holderID = hr.GetEnvironment().GetId()
		case "configure-error":
			armedConfigureError = true
		case "detector-conflict-race":
			// two creations that need the same detector start together; a delay point right after the
			// first look at the active detectors lets both pass it, so the loser is refused by the
			// second look, the one made under the manager's lock just before registration
			type cr struct {
				r   *pb.NewEnvironmentReply
				err error
			}
			res := make(chan cr, 2)
			for _, n := range []string{wfName + "h", wfName} {
				n := n
				go func() {
					ctx, cancel := coresim.Ctx(apiTimeout)
					defer cancel()
					r, err := s.Client.NewEnvironment(ctx, &pb.NewEnvironmentRequest{WorkflowTemplate: n})
					res <- cr{r, err}
				}()
			}
			r1, r2 := <-res, <-res
			c.Count("api_requests", 2)
			obs.Steps = append(obs.Steps, fmt.Sprintf("two racing NewEnvironment: err1=%q err2=%q", truncate(grpcMsg(r1.err), 200), truncate(grpcMsg(r2.err), 200)))
			for _, r := range []cr{r1, r2} {
				if r.err != nil && strings.Contains(grpcMsg(r.err), "DeadlineExceeded") {
					hang("NewEnvironment racing with a creation on the same detector")
					return
				}
			}
			if (r1.err == nil) == (r2.err == nil) {
				c.Inconclusive(fmt.Sprintf("scenario %d: of two racing creations on one detector exactly one should fail (C04's domain): err1=%q err2=%q", idx, grpcMsg(r1.err), grpcMsg(r2.err)))
				return
			}
			win, lose := r1, r2
			if r1.err != nil {
				win, lose = r2, r1
			}
			if !strings.Contains(grpcMsg(lose.err), "already in use") {
				c.Inconclusive(fmt.Sprintf("scenario %d: the losing creation failed for another reason: %s", idx, grpcMsg(lose.err)))
				return
			}
			holderID = win.r.GetEnvironment().GetId()
			c.Count("create_failures_at_the_locked_detector_check", 1)
		}
		var err error
		if sc.Stage == "detector-conflict-race" {
			err = fmt.Errorf("lost the race")
		} else {
			_, err = create(name)
		}
		c.Count("create_failures_driven", 1)
		if err == nil {
			c.Inconclusive(fmt.Sprintf("scenario %d: creation expected to fail at %s succeeded", idx, sc.Stage))
			return
		}
		if strings.Contains(grpcMsg(err), "DeadlineExceeded") {
			hang("failing NewEnvironment (" + sc.Stage + ")")
			return
		}
	} else {
		r, err := create(wfName)
		if err != nil {
			if strings.Contains(grpcMsg(err), "DeadlineExceeded") {
				hang("NewEnvironment")
				return
			}
			c.Inconclusive(fmt.Sprintf("scenario %d: fault-free creation failed: %s", idx, grpcMsg(err)))
			return
		}
		envID = r.GetEnvironment().GetId()
		envDetectors = r.GetEnvironment().GetIncludedDetectors()
		if sc.Hooks == "pending-call" {
			// the normal situation: the call itself returned long ago and its outcome is parked until
			// the await moment (a destroy that overtakes the running call is the other, rarer case:
			// every second scenario of this kind does not wait)
			if idx%2 == 0 {
				dl := time.Now().Add(10 * time.Second)
				done := false
				for time.Now().Before(dl) && !done {
					for _, r := range s.PluginRecords() {
						if r.Tag == "pending" && r.Phase == "end" {
							done = true
						}
					}
					time.Sleep(20 * time.Millisecond)
				}
				time.Sleep(50 * time.Millisecond)
				if done {
					c.Count("pending_calls_finished_before_destroy", 1)
				}
			}
		}
		switch sc.State {
		case "RUNNING":
			if control(envID, pb.ControlEnvironmentRequest_START_ACTIVITY) != nil {
				c.Inconclusive("fault-free START failed")
				return
			}
		case "DEPLOYED":
			if control(envID, pb.ControlEnvironmentRequest_RESET) != nil {
				c.Inconclusive("fault-free RESET failed")
				return
			}
		case "ERROR":
			// an illegal request through the API drives the environment to ERROR
			_ = control(envID, pb.ControlEnvironmentRequest_STOP_ACTIVITY)
			if st, _ := envState(s, envID); st != "ERROR" {
				c.Inconclusive("could not bring the environment to ERROR (state " + st + ")")
				return
			}
		}
		if sc.Hooks == "exec-failed" || sc.Hooks == "agent-failed" {
			// the non-critical task t1 (host2) loses its executor / agent; the environment is untouched
			for _, t := range s.Master.Tasks() {
				if strings.HasSuffix(t.RolePath, ".t1") {
					if sc.Hooks == "exec-failed" {
						s.Master.ExecutorFailure(t.AgentID, t.ExecutorID, false)
					} else {
						s.Master.AgentFailure(t.AgentID, false)
					}
				}
			}
			waitQuiet(s, 300*time.Millisecond, 5*time.Second)
			c.Count("destroys_after_executor_or_agent_failure", 1)
		}
		ctx, cancel := coresim.Ctx(apiTimeout)
		t0 := time.Now()
		_, derr := s.Client.DestroyEnvironment(ctx, &pb.DestroyEnvironmentRequest{Id: envID, Force: sc.Force, AllowInRunningState: sc.AllowRun, KeepTasks: sc.KeepTasks})
		cancel()
		obs.Steps = append(obs.Steps, fmt.Sprintf("DestroyEnvironment err=%q in %s", truncate(grpcMsg(derr), 200), time.Since(t0).Round(time.Millisecond)))
		c.Count("destroys_driven", 1)
		if derr != nil && strings.Contains(grpcMsg(derr), "DeadlineExceeded") {
			if sc.Kill == "ignore" {
				// KillTasks waits for the acknowledgement of a kill that is never answered: the request
				// neither succeeds nor fails. The statement asks for an error rather than success; a
				// pending request is not a success, so this is recorded, not judged.
				c.Count("destroy_pending_on_unanswered_kill", 1)
				return
			}
			hang("DestroyEnvironment")
			return
		}
		if derr != nil {
			c.Count("destroys_refused", 1)
			if sc.Kill == "killed" && sc.Hooks != "destroy-hook-fails" {
				// nothing prevents this destroy from being honoured
				fail("DESTROY-ERROR", "DestroyEnvironment failed although release and kill were possible: "+grpcMsg(derr))
			}
			if sc.Kill != "refused-first" {
				return // an error return makes no promise about what is left
			}
			// one KILL was refused: an error is fine; if the environment is gone all the same, the
			// other tasks must have been asked to terminate
			if ids, lerr := listEnvIDs(s); lerr != nil || ids[envID] != "" {
				c.Count("destroys_refused_environment_kept", 1)
				return
			}
		} else {
			c.Count("destroys_ok", 1)
		}
		if sc.Kill == "refused-first" {
			c.Count("destroys_with_one_refused_kill", 1)
		}
		if sc.Kill == "refused" && !sc.KeepTasks {
			fail("DESTROY-OK-BUT-KILL-REFUSED", "DestroyEnvironment returned OK although the master refused every KILL call")
		}
	}

	// ---- post-conditions ----
	waitQuiet(s, 300*time.Millisecond, 10*time.Second)
	if os.Getenv("VERIF_DEBUG") != "" {
		for _, t := range s.Master.Tasks() {
			fmt.Fprintf(os.Stderr, "DEBUG task %s agent=%s exec=%s mesos=%s terminal=%v kills=%d\n", t.RolePath, t.AgentID, t.ExecutorID, t.Mesos, t.Terminal, t.KillAsked)
		}
	}
	if sc.Kill == "refused-first" {
		// A refused call makes the client drop the subscription, and until it is re-established every
		// further call fails in the client: the master may have seen no KILL at all. What the core
		// could not kill must stay known to it, so that the next cleanup finds it: once the core is
		// subscribed again, one cleanup request must reach every task that is still alive.
		if refusedKillOf.Load() == nil {
			c.Inconclusive(fmt.Sprintf("scenario %d: no KILL call was seen", idx))
			return
		}
		dl := time.Now().Add(60 * time.Second)
		for time.Now().Before(dl) && !s.Master.Subscribed() {
			time.Sleep(50 * time.Millisecond)
		}
		if !s.Master.Subscribed() {
			c.Inconclusive(fmt.Sprintf("scenario %d: the core did not subscribe again within 60 s after the refused KILL", idx))
			return
		}
		waitQuiet(s, 500*time.Millisecond, 10*time.Second)
		ctx, cancel := coresim.Ctx(apiTimeout)
		_, cerr := s.Client.CleanupTasks(ctx, &pb.CleanupTasksRequest{})
		cancel()
		obs.Steps = append(obs.Steps, fmt.Sprintf("CleanupTasks err=%q", truncate(grpcMsg(cerr), 200)))
		c.Count("cleanups_after_refused_kill", 1)
		waitQuiet(s, 300*time.Millisecond, 10*time.Second)
	}
	c.Count("postcondition_checks", 1)
	ids, err := listEnvIDs(s)
	if err != nil && strings.Contains(grpcMsg(err), "DeadlineExceeded") && s.CoreAlive() {
		// asked once more, with the long limit, before it is called a hang
		ctx, cancel := coresim.Ctx(apiTimeout)
		_, err2 := s.Client.GetEnvironments(ctx, &pb.GetEnvironmentsRequest{ShowAll: true})
		cancel()
		if err2 != nil && strings.Contains(grpcMsg(err2), "DeadlineExceeded") {
			hang("GetEnvironments after the " + sc.Kind + " (asked twice, 20 s and")
			return
		}
		ids, err = listEnvIDs(s)
	}
	if err != nil {
		c.Inconclusive("GetEnvironments: " + grpcMsg(err))
		return
	}
	for eid, st := range ids {
		if eid == holderID {
			if st != "CONFIGURED" {
				fail("HOLDER-DISTURBED", fmt.Sprintf("the environment holding the detector changed state to %s after a failed conflicting creation", st))
			}
			continue
		}
		fail("STILL-LISTED", fmt.Sprintf("environment %s still listed in state %s", eid, st))
	}
	ctx, cancel := coresim.Ctx(20 * time.Second)
	tr, err := s.Client.GetTasks(ctx, &pb.GetTasksRequest{})
	cancel()
	if err != nil {
		c.Inconclusive("GetTasks: " + grpcMsg(err))
		return
	}
	locked := map[string]bool{}
	for _, t := range tr.GetTasks() {
		locked[t.GetTaskId()] = t.GetLocked()
	}
	for _, t := range s.Master.Tasks() {
		if holderID != "" && t.EnvID == holderID {
			if t.Terminal || t.KillAsked > 0 {
				fail("HOLDER-DISTURBED", fmt.Sprintf("task %s of the holding environment was killed/terminated by the failed creation", t.RolePath))
			}
			continue
		}
		if locked[t.ID] {
			fail("STILL-OWNED", fmt.Sprintf("task %s (%s) launched for the environment is still locked after the environment is gone", t.RolePath, t.ID))
		}
		if !sc.KeepTasks && !t.Terminal && t.KillAsked == 0 && sc.Kill != "refused" {
			// every task it ever owned must have been asked to terminate. Tasks that never became
			// owned are exempt; a launched task becomes owned as soon as the offers round succeeded,
			// which is the case in every scenario here except "undeployable" (nothing launched).
			if s.Master.Life() > 1 && sc.Kill == "killed" {
				// the core re-subscribed although the scenario injects no transport fault: a scheduler call
				// failed for a reason outside the scenario (seen once under extreme load), and calls made
				// while the client was disconnected were never sent. Not a verdict on the property.
				c.Inconclusive(fmt.Sprintf("scenario %d: the core re-subscribed during a scenario without transport faults; task %s got no KILL", idx, t.RolePath))
				return
			}
			fail("NOT-KILLED", fmt.Sprintf("task %s (%s, mesos %s) was owned by the environment and never received a KILL", t.RolePath, t.ID, t.Mesos))
		}
		if sc.KeepTasks && t.KillAsked > 0 {
			// the statement only exempts keep-tasks destroys from the must-kill clause; a forced
			// fallback that kills anyway is recorded, not judged
			c.Count("killed_despite_keep_tasks", 1)
		}
	}
	// What the environment left unowned falls to the next cleanup: after one cleanup request nothing that
	// was launched for the vanished environment may be alive without ever having been asked to terminate
	// (a task the core has forgotten can never be asked).
	if sc.Kill == "killed" && !sc.KeepTasks && holderID == "" {
		if sc.Stage == "staging-failed-stragglers" {
			time.Sleep(600 * time.Millisecond) // the stragglers' TASK_RUNNING
			waitQuiet(s, 300*time.Millisecond, 5*time.Second)
		}
		ctx, cancel := coresim.Ctx(apiTimeout)
		_, cerr := s.Client.CleanupTasks(ctx, &pb.CleanupTasksRequest{})
		cancel()
		obs.Steps = append(obs.Steps, fmt.Sprintf("CleanupTasks err=%q", truncate(grpcMsg(cerr), 200)))
		waitQuiet(s, 300*time.Millisecond, 10*time.Second)
		c.Count("final_cleanups", 1)
		if s.Master.Life() == 1 {
			for _, t := range s.Master.Tasks() {
				if !t.Terminal && t.KillAsked == 0 {
					fail("LEAKED", fmt.Sprintf("task %s (%s, mesos %s) launched for the vanished environment is still alive after a cleanup request and was never asked to terminate", t.RolePath, t.ID, t.Mesos))
				}
			}
		}
	}
	// no task the core still knows may name the vanished environment as its owner
	for _, t := range s.Master.Tasks() {
		if holderID != "" && t.EnvID == holderID {
			continue
		}
		ctx, cancel := coresim.Ctx(20 * time.Second)
		gt, gerr := s.Client.GetTask(ctx, &pb.GetTaskRequest{TaskId: t.ID})
		cancel()
		if gerr != nil || gt.GetTask() == nil {
			continue // not in the roster any more
		}
		c.Count("gettask_checks", 1)
		if eid := gt.GetTask().GetEnvId(); eid != "" {
			if _, listed := ids[eid]; !listed {
				fail("STILL-OWNED", fmt.Sprintf("task %s (%s) still names the vanished environment %s as its owner (GetTask)", t.RolePath, t.ID, eid))
			}
		}
	}
	ctx, cancel = coresim.Ctx(20 * time.Second)
	dr, err := s.Client.GetActiveDetectors(ctx, &pb.Empty{})
	cancel()
	if err == nil {
		for _, d := range dr.GetDetectors() {
			if holderID != "" && d == "TST" {
				continue
			}
			fail("DETECTOR-BUSY", fmt.Sprintf("detector %s still active after the environment is gone (had %v)", d, envDetectors))
		}
	}
	// DESTROY hooks only after the other tasks were released: in-situ ownership snapshots
	for _, r := range s.PluginRecords() {
		if r.Tag != "destroy-hook" || r.Phase != "start" {
			continue
		}
		c.Count("destroy_hook_snapshots", 1)
		if r.SnapErr != "" {
			c.Count("destroy_hook_snapshot_errors", 1)
			continue
		}
		for _, ts := range r.Tasks {
			mt := s.Master.Task(ts.ID)
			if mt == nil || mt.EnvID != r.Env || strings.Contains(mt.RolePath, ".hk") {
				continue
			}
			if ts.Locked {
				fail("HOOK-BEFORE-RELEASE", fmt.Sprintf("DESTROY hook %s (trigger %s) ran while task %s of the environment was still owned", r.Role, r.Trigger, mt.RolePath))
			}
		}
	}
	if sc.Hooks == "calls" || sc.Hooks == "tasks2w" {
		if sc.Kind == "destroy" && c.Counter("destroy_hook_snapshots") == 0 {
			// not per-scenario exact, but a run with zero snapshots overall is caught by the floor
		}
	}
	// pending calls cancelled: no goroutine may be left blocked in Call.Start after the environment is gone
	if (sc.Hooks == "pending-call" || sc.Hooks == "pending-call-same-moment") && !dumped {
		time.Sleep(300 * time.Millisecond)
		dump := s.DumpGoroutines()
		c.Count("pending_call_dumps", 1)
		if n := strings.Count(dump, "callable.(*Call).Start.func1"); n > 0 {
			obs.Goroutines = truncate(dump, 4000)
			fail("CALL-NOT-CANCELLED", fmt.Sprintf("%d hook call goroutine(s) still blocked in Call.Start after the environment is gone (never awaited, never cancelled)", n))
		}
	}
}

// c06SecondDestroy: environment A is destroyed while its executors ignore every KILL (the request waits for
// acknowledgements that never come - recorded, not judged); environment B is destroyed meanwhile. Every task of
// B must be asked to terminate and B must be gone.
func c06SecondDestroy(c *vlib.Ctx, idx int, id int64, sc c06Scenario) {
	cls := sc.class()
	c.Nontrivial(vlib.Hash("c06", cls))
	obs := &c06Obs{Scenario: sc, Index: idx}
	wfName := fmt.Sprintf("c06w%d", idx)
	wf := coresim.WorkflowSpec{Name: wfName, Hosts: []string{"host1"}, Defaults: map[string]string{"deploy_timeout": "60s"}}
	for i := 0; i < sc.NTasks; i++ {
		wf.Tasks = append(wf.Tasks, coresim.TaskSpec{Name: fmt.Sprintf("t%d", i), Host: fmt.Sprintf("host%d", 1+i%2), Critical: i == 0, Mode: c02Modes[i%3]})
	}
	s, err := coresim.Start(coresim.Options{Agents: stdAgents(3), Detectors: stdDetectors(3), Files: wf.Files()})
	if err != nil {
		c.Inconclusive("coresim start: " + truncate(err.Error(), 12000))
		return
	}
	defer func() {
		finishSim(c, s, id, obs)
		s.Close()
	}()
	fail := func(rule, what string) {
		for _, t := range s.Master.Tasks() {
			obs.Tasks = append(obs.Tasks, fmt.Sprintf("%s %s env=%s mesos=%s kills=%d", t.RolePath, t.ID, t.EnvID, t.Mesos, t.KillAsked))
		}
		c.Violation(rule, cls, fmt.Sprintf("%s [scenario %d: %+v]", what, idx, sc), id, obs)
	}
	s.Master.OnLaunch = func(t *simmesos.LaunchedTask) simmesos.LaunchPlan {
		return simmesos.LaunchPlan{Kind: "running", Delay: 30 * time.Millisecond}
	}
	s.Master.OnCommand = func(t *simmesos.LaunchedTask, cmd *simmesos.CommandSeen) simmesos.Reply {
		return simmesos.Reply{Kind: "ok"}
	}
	var envA atomic.Value
	envA.Store("")
	s.Master.OnKill = func(t *simmesos.LaunchedTask) string {
		if sc.Kill == "first-unanswered" && t.EnvID == envA.Load().(string) {
			return "ignore"
		}
		return "killed"
	}
	api := 90 * time.Second
	create := func(hosts string) (string, error) {
		ctx, cancel := coresim.Ctx(api)
		defer cancel()
		r, err := s.Client.NewEnvironment(ctx, &pb.NewEnvironmentRequest{WorkflowTemplate: wfName, Vars: map[string]string{"hosts": hosts}})
		if err != nil {
			return "", err
		}
		return r.GetEnvironment().GetId(), nil
	}
	a, err := create(`["host1"]`)
	if err != nil {
		c.Inconclusive(fmt.Sprintf("scenario %d: fault-free creation failed: %s", idx, truncate(grpcMsg(err), 300)))
		return
	}
	envA.Store(a)
	b, err := create(`["host2"]`)
	if err != nil {
		c.Inconclusive(fmt.Sprintf("scenario %d: fault-free creation of the second environment failed: %s", idx, truncate(grpcMsg(err), 300)))
		return
	}
	if sc.State == "RUNNING" {
		for _, e := range []string{a, b} {
			ctx, cancel := coresim.Ctx(api)
			_, err := s.Client.ControlEnvironment(ctx, &pb.ControlEnvironmentRequest{Id: e, Type: pb.ControlEnvironmentRequest_START_ACTIVITY})
			cancel()
			if err != nil {
				c.Inconclusive("fault-free START failed: " + grpcMsg(err))
				return
			}
		}
	}
	tasksOf := func(env string) (out []simmesos.LaunchedTask) {
		for _, t := range s.Master.Tasks() {
			if t.EnvID == env {
				out = append(out, t)
			}
		}
		return
	}
	if sc.Kill == "first-executor-failed" {
		// A's executor on host2 fails (FAILURE event naming executor AND agent, as Mesos sends it); B has a task
		// of another executor on that agent
		var failed *simmesos.LaunchedTask
		for _, t := range tasksOf(a) {
			t := t
			if strings.HasSuffix(t.RolePath, ".t1") {
				failed = &t
			}
		}
		shares := false
		for _, t := range tasksOf(b) {
			if failed != nil && t.AgentID == failed.AgentID && t.ExecutorID != failed.ExecutorID {
				shares = true
			}
		}
		if failed == nil || !shares {
			c.Inconclusive(fmt.Sprintf("scenario %d: the two environments have no tasks of different executors on one agent", idx))
			return
		}
		s.Master.ExecutorFailure(failed.AgentID, failed.ExecutorID, false)
		waitQuiet(s, 300*time.Millisecond, 5*time.Second)
		c.Count("second_destroys_after_executor_failure_of_the_first", 1)
		ctx, cancel := coresim.Ctx(60 * time.Second)
		_, derr := s.Client.DestroyEnvironment(ctx, &pb.DestroyEnvironmentRequest{Id: b, Force: sc.Force})
		cancel()
		obs.Steps = append(obs.Steps, fmt.Sprintf("DestroyEnvironment(second) err=%q", truncate(grpcMsg(derr), 200)))
		c.Count("destroys_driven", 1)
		waitQuiet(s, 300*time.Millisecond, 5*time.Second)
		if derr != nil {
			if strings.Contains(grpcMsg(derr), "DeadlineExceeded") {
				obs.Goroutines = s.DumpGoroutines()
				fail("HANG", "destroy of the second environment did not return within 60 s")
			} else {
				fail("DESTROY-ERROR", "destroy of the second environment failed although release and kill were possible: "+grpcMsg(derr))
			}
			return
		}
		for _, t := range tasksOf(b) {
			if !t.Terminal && t.KillAsked == 0 {
				fail("NOT-KILLED", fmt.Sprintf("task %s (%s) of the destroyed environment was never asked to terminate: an executor of ANOTHER environment had failed on its agent", t.RolePath, t.ID))
				return
			}
		}
		c.Count("destroys_ok", 1)
		ctx, cancel = coresim.Ctx(60 * time.Second)
		s.Client.DestroyEnvironment(ctx, &pb.DestroyEnvironmentRequest{Id: a, Force: true})
		cancel()
		return
	}
	// destroy A: pending for as long as its executors ignore the KILLs
	doneA := make(chan error, 1)
	go func() {
		ctx, cancel := coresim.Ctx(170 * time.Second)
		defer cancel()
		_, err := s.Client.DestroyEnvironment(ctx, &pb.DestroyEnvironmentRequest{Id: a, Force: sc.Force})
		doneA <- err
	}()
	asked := func(env string) (n, of int) {
		for _, t := range tasksOf(env) {
			of++
			if t.KillAsked > 0 {
				n++
			}
		}
		return
	}
	for dl := time.Now().Add(60 * time.Second); time.Now().Before(dl); time.Sleep(20 * time.Millisecond) {
		if n, of := asked(a); of > 0 && n == of {
			break
		}
		if len(doneA) > 0 {
			break
		}
	}
	if n, of := asked(a); n != of || of == 0 {
		c.Inconclusive(fmt.Sprintf("scenario %d: the first destroy did not get as far as its KILLs (%d of %d)", idx, n, of))
		return
	}
	waitQuiet(s, 300*time.Millisecond, 5*time.Second)
	c.Count("second_destroys_while_first_kill_unanswered", 1)
	ctx, cancel := coresim.Ctx(60 * time.Second)
	t0 := time.Now()
	_, derr := s.Client.DestroyEnvironment(ctx, &pb.DestroyEnvironmentRequest{Id: b, Force: sc.Force})
	cancel()
	obs.Steps = append(obs.Steps, fmt.Sprintf("DestroyEnvironment(second) err=%q in %s", truncate(grpcMsg(derr), 200), time.Since(t0).Round(time.Millisecond)))
	c.Count("destroys_driven", 1)
	waitQuiet(s, 300*time.Millisecond, 5*time.Second)
	if n, of := asked(b); n != of {
		obs.Goroutines = s.DumpGoroutines()
		fail("NOT-KILLED", fmt.Sprintf("destroy of the second environment (result %q): %d of its %d tasks were never asked to terminate while the KILLs of an earlier destroy are unanswered", grpcMsg(derr), of-n, of))
	} else if derr != nil {
		if strings.Contains(grpcMsg(derr), "DeadlineExceeded") {
			obs.Goroutines = s.DumpGoroutines()
			fail("HANG", "destroy of the second environment did not return within 60 s although its tasks answered the KILLs")
		} else {
			fail("DESTROY-ERROR", "destroy of the second environment failed although release and kill were possible: "+grpcMsg(derr))
		}
	} else if ids, lerr := listEnvIDs(s); lerr == nil && ids[b] != "" {
		fail("STILL-LISTED", fmt.Sprintf("environment %s still listed in state %s after its destroy returned OK", b, ids[b]))
	} else {
		c.Count("destroys_ok", 1)
	}
	// let the first destroy finish: its tasks are reported killed now
	for _, t := range tasksOf(a) {
		s.Master.TaskStatus(t.ID, "TASK_KILLED", "killed at last")
	}
	select {
	case err := <-doneA:
		obs.Steps = append(obs.Steps, fmt.Sprintf("DestroyEnvironment(first) err=%q", truncate(grpcMsg(err), 200)))
		if err == nil {
			c.Count("first_destroys_completed_after_late_acknowledgement", 1)
		}
	case <-time.After(60 * time.Second):
		c.Count("first_destroys_still_pending", 1)
	}
}
