package main

// C01 (API level) — environment state changes only along the documented graph,
// illegal requests are never executed and leave the environment in ERROR, DONE is
// terminal, and at most one transition or teardown is in progress at any instant.

import (
	"encoding/json"
	"fmt"
	"os"
	"sort"
	"strings"
	"sync"
	"time"

	pb "github.com/AliceO2Group/Control/core/protos"

	"verif/harness/coresim"
	simmesos "verif/harness/sim/mesos"
	"verif/harness/vlib"
)

var c01Legal = map[string]map[string]string{ // state -> event -> destination
	"STANDBY":    {"DEPLOY": "DEPLOYED", "GO_ERROR": "ERROR"},
	"DEPLOYED":   {"CONFIGURE": "CONFIGURED", "GO_ERROR": "ERROR"},
	"CONFIGURED": {"START_ACTIVITY": "RUNNING", "RESET": "DEPLOYED", "GO_ERROR": "ERROR"},
	"RUNNING":    {"STOP_ACTIVITY": "CONFIGURED", "GO_ERROR": "ERROR"},
	"ERROR":      {},
	"DONE":       {},
}

var c01Ops = []pb.ControlEnvironmentRequest_Optype{
	pb.ControlEnvironmentRequest_CONFIGURE, pb.ControlEnvironmentRequest_START_ACTIVITY,
	pb.ControlEnvironmentRequest_STOP_ACTIVITY, pb.ControlEnvironmentRequest_RESET,
}
var c01TaskEvent = map[string]string{"CONFIGURE": "CONFIGURE", "START_ACTIVITY": "START", "STOP_ACTIVITY": "STOP", "RESET": "RESET"}

type c01Req struct {
	Client   int    `json:"client"`
	Op       string `json:"op"` // event name or DESTROY / DESTROY-FORCE
	SeqCall  int64  `json:"seq_call"`
	SeqRet   int64  `json:"seq_ret"`
	Err      string `json:"err"`
	State    string `json:"reply_state"`
	Rejected bool   `json:"rejected_as_illegal"`
}

type c01History struct {
	Index   int        `json:"index"`
	Clients int        `json:"clients"`
	Delay   bool       `json:"delay_point"`
	Ops     [][]string `json:"ops"`
}

func runC01API() {
	c := vlib.Start("C01API")
	defer c.Finish()
	nHist := 24
	if c.Tier == "thorough" {
		nHist = 300
	}
	lo, hi := c.Slice(nHist)
	if only := os.Getenv("VERIF_ONLY"); only != "" {
		fmt.Sscan(only, &lo)
		hi = lo + 1
	}
	// several histories share one core life
	const perLife = 4
	var groups [][2]int
	for i := lo; i < hi; i += perLife {
		j := i + perLife
		if j > hi {
			j = hi
		}
		groups = append(groups, [2]int{i, j})
	}
	parallel(0, len(groups), 3, func(g int) { c01Life(c, groups[g][0], groups[g][1]) })
	// requests issued while a teardown is provably in progress (its DESTROY hook is held at a gate)
	nTd := 4
	if c.Tier == "thorough" {
		nTd = 32
	}
	tlo, thi := c.Slice(nTd)
	if os.Getenv("VERIF_ONLY") != "" {
		tlo, thi = 0, 0
	}
	parallel(tlo, thi, 4, func(i int) { c01DuringTeardown(c, i) })
}

// c01DuringTeardown: the environment's DESTROY hook blocks at a gate file, so the teardown is in progress for
// as long as the driver wants. A control request issued in that window has to wait for the teardown
// ("concurrent requests are executed one after the other, each one seeing the state left by the previous
// one"): it must not return before the gate is opened, and what it then sees is a destroyed environment.
func c01DuringTeardown(c *vlib.Ctx, idx int) {
	states := []string{"CONFIGURED", "RUNNING", "CONFIGURED", "DEPLOYED"}
	reqs := []pb.ControlEnvironmentRequest_Optype{pb.ControlEnvironmentRequest_START_ACTIVITY, pb.ControlEnvironmentRequest_STOP_ACTIVITY, pb.ControlEnvironmentRequest_RESET, pb.ControlEnvironmentRequest_CONFIGURE}
	st, op := states[idx%4], reqs[(idx/4+idx)%4]
	desc := map[string]interface{}{"kind": "request-during-teardown", "index": idx, "state": st, "request": op.String()}
	id := c.Case(desc)
	c.Nontrivial(vlib.Hash("c01td", st, op.String()))
	cls := "during-teardown/" + st + "/" + op.String()
	dir := os.Getenv("TMPDIR")
	if dir == "" {
		dir = os.TempDir()
	}
	gate := fmt.Sprintf("%s/c01-gate-%d-%d", dir, c.Batch, idx)
	os.Remove(gate)
	defer os.Remove(gate)
	wfName := fmt.Sprintf("c01td%d", idx)
	wf := coresim.WorkflowSpec{Name: wfName, Hosts: []string{"host1"}, Defaults: map[string]string{"deploy_timeout": "60s"},
		Tasks: []coresim.TaskSpec{{Name: "a", Host: "host1", Critical: true, Mode: "direct"}},
		Calls: []coresim.CallSpec{{Name: "dh", Func: "verif.Slow()", Trigger: "DESTROY", Critical: false, Timeout: "60s", Vars: map[string]string{"verif_tag": "td-gate", "verif_gate": gate}}}}
	s, err := coresim.Start(coresim.Options{Agents: stdAgents(2), Detectors: stdDetectors(2), Files: wf.Files()})
	if err != nil {
		c.Inconclusive("coresim start: " + truncate(err.Error(), 3000))
		return
	}
	obs := map[string]interface{}{"case": desc}
	defer func() {
		os.WriteFile(gate, []byte("x"), 0o644)
		finishSim(c, s, id, obs)
		s.Close()
	}()
	api := 90 * time.Second
	ctx, cancel := coresim.Ctx(api)
	r, err := s.Client.NewEnvironment(ctx, &pb.NewEnvironmentRequest{WorkflowTemplate: wfName, Vars: map[string]string{}})
	cancel()
	if err != nil {
		c.Inconclusive("fault-free creation failed: " + grpcMsg(err))
		return
	}
	envID := r.GetEnvironment().GetId()
	control := func(o pb.ControlEnvironmentRequest_Optype) error {
		ctx, cancel := coresim.Ctx(api)
		defer cancel()
		_, err := s.Client.ControlEnvironment(ctx, &pb.ControlEnvironmentRequest{Id: envID, Type: o})
		return err
	}
	switch st {
	case "RUNNING":
		if control(pb.ControlEnvironmentRequest_START_ACTIVITY) != nil {
			c.Inconclusive("fault-free START failed")
			return
		}
	case "DEPLOYED":
		if control(pb.ControlEnvironmentRequest_RESET) != nil {
			c.Inconclusive("fault-free RESET failed")
			return
		}
	}
	destroyed := make(chan error, 1)
	go func() {
		ctx, cancel := coresim.Ctx(api)
		defer cancel()
		_, err := s.Client.DestroyEnvironment(ctx, &pb.DestroyEnvironmentRequest{Id: envID, Force: true, AllowInRunningState: true})
		destroyed <- err
	}()
	// the teardown is in progress once its DESTROY hook has started
	started := false
	for dl := time.Now().Add(30 * time.Second); time.Now().Before(dl) && !started; time.Sleep(10 * time.Millisecond) {
		for _, rec := range s.PluginRecords() {
			if rec.Tag == "td-gate" && rec.Phase == "start" {
				started = true
			}
		}
	}
	if !started {
		c.Inconclusive("the DESTROY hook did not start within 30 s")
		return
	}
	c.Count("teardowns_held_open", 1)
	type reply struct {
		err   error
		state string
	}
	answered := make(chan reply, 1)
	go func() {
		ctx, cancel := coresim.Ctx(api)
		defer cancel()
		rr, err := s.Client.ControlEnvironment(ctx, &pb.ControlEnvironmentRequest{Id: envID, Type: op})
		answered <- reply{err, rr.GetState()}
	}()
	early := false
	var rep reply
	select {
	case rep = <-answered:
		early = true
	case <-time.After(700 * time.Millisecond):
	}
	stDuring, _ := envState(s, envID)
	obs["state_during_teardown"] = stDuring
	os.WriteFile(gate, []byte("x"), 0o644) // the teardown may finish now
	if !early {
		select {
		case rep = <-answered:
		case <-time.After(api):
			c.Violation("HANG", cls, "the request issued during the teardown did not return after the teardown had finished", id, obs)
			return
		}
	}
	derr := <-destroyed
	obs["request_err"], obs["request_reply_state"], obs["destroy_err"] = grpcMsg(rep.err), rep.state, grpcMsg(derr)
	c.Count("requests_during_teardown", 1)
	if early {
		c.Violation("SERIAL", cls+"/request-answered-while-teardown-in-progress", fmt.Sprintf("%s issued while the teardown of the environment was in progress (its DESTROY hook was blocked) was answered (%q, state %q) before the teardown could finish: it did not wait for the activity in progress", op, grpcMsg(rep.err), rep.state), id, obs)
		return
	}
	if stDuring != "" && stDuring != st && stDuring != "DONE" {
		c.Violation("GRAPH", cls+"/state-changed-during-teardown", fmt.Sprintf("the environment was %s when its teardown started and reported %s while the teardown was in progress", st, stDuring), id, obs)
	}
	if rep.err == nil {
		c.Violation("SERIAL", cls+"/request-succeeded-on-destroyed-environment", fmt.Sprintf("%s issued during the teardown succeeded (state %q) after the environment was destroyed", op, rep.state), id, obs)
	}
	if after, aerr := envState(s, envID); aerr == nil && after != "DONE" {
		c.Violation("GRAPH", cls+"/not-DONE-after-teardown", "after the teardown the environment is listed in state "+after, id, obs)
	}
}

func c01Life(c *vlib.Ctx, lo, hi int) {
	delay := (lo/4)%2 == 1
	files := map[string]string{}
	var moments []coresim.CallSpec
	k := 0
	for _, ev := range []string{"DEPLOY", "CONFIGURE", "START_ACTIVITY", "STOP_ACTIVITY", "RESET", "GO_ERROR"} {
		for _, m := range []string{"before_", "after_"} {
			moments = append(moments, coresim.CallSpec{Name: fmt.Sprintf("p%d", k), Func: "verif.Probe()", Trigger: m + ev, Critical: false, Timeout: "20s", Vars: map[string]string{"verif_tag": m + ev}})
			k++
		}
	}
	for _, st := range []string{"STANDBY", "DEPLOYED", "CONFIGURED", "RUNNING", "ERROR"} {
		for _, m := range []string{"leave_", "enter_"} {
			moments = append(moments, coresim.CallSpec{Name: fmt.Sprintf("p%d", k), Func: "verif.Probe()", Trigger: m + st, Critical: false, Timeout: "20s", Vars: map[string]string{"verif_tag": m + st}})
			k++
		}
	}
	for i := lo; i < hi; i++ {
		wf := coresim.WorkflowSpec{Name: fmt.Sprintf("c01w%d", i), Hosts: []string{fmt.Sprintf("host%d", 1+(i-lo)%3)}, Defaults: map[string]string{"deploy_timeout": "60s"},
			Tasks: []coresim.TaskSpec{{Name: "a", Host: "host1", Critical: true, Mode: "direct"}, {Name: "b", Host: "host2", Critical: true, Mode: "basic"}},
			Calls: moments}
		for k, v := range wf.Files() {
			files[k] = v
		}
	}
	opt := coresim.Options{Agents: stdAgents(3), Detectors: stdDetectors(3), Files: files}
	if delay {
		opt.Env = append(opt.Env, "VERIF_POINTS=envman.teardown.beforeCloseStateCh=sleep(15);envman.statechanged.beforeSend=sleep(3)")
	}
	s, err := coresim.Start(opt)
	if err != nil {
		c.Inconclusive("coresim start: " + truncate(err.Error(), 3000))
		return
	}
	var lastID int64
	var lastW interface{}
	defer func() {
		finishSim(c, s, lastID, lastW)
		s.Close()
	}()
	s.Master.OnLaunch = func(t *simmesos.LaunchedTask) simmesos.LaunchPlan {
		return simmesos.LaunchPlan{Kind: "running", Delay: 30 * time.Millisecond}
	}
	for i := lo; i < hi; i++ {
		r := c.SubRand(int64(i))
		h := c01History{Index: i, Clients: []int{1, 2, 4, 3}[i%4], Delay: delay}
		for cl := 0; cl < h.Clients; cl++ {
			n := 4 + r.Intn(5)
			var ops []string
			for j := 0; j < n; j++ {
				x := r.Intn(10)
				switch {
				case x == 0 && j >= n/2:
					ops = append(ops, "DESTROY")
				case x == 1 && j >= n/2:
					ops = append(ops, "DESTROY-FORCE")
				case x == 2 && j == n-1:
					// the request type DEPLOY exists in the API although no client sends it for an environment
					// that is already deployed: never legal here
					ops = append(ops, "DEPLOY")
					c.Count("deploy_requests_on_deployed_environments", 1)
				default:
					ops = append(ops, c01Ops[r.Intn(len(c01Ops))].String())
				}
			}
			h.Ops = append(h.Ops, ops)
		}
		if i%9 == 4 {
			// a lone DEPLOY request as the only illegal one of the history: from CONFIGURED, RUNNING, DEPLOYED
			h.Clients = 1
			h.Ops = [][]string{[][]string{{"DEPLOY"}, {"START_ACTIVITY", "DEPLOY"}, {"RESET", "DEPLOY"}}[(i/9)%3]}
			c.Count("histories_with_a_lone_deploy_request", 1)
		}
		id := c.Case(h)
		lastID, lastW = id, h
		if i%7 == 0 {
			c.Sample(h)
		}
		if !c01History1(c, s, id, h) {
			return // the core is unusable (hang or crash): stop this life
		}
	}
}

type c01Witness struct {
	History  c01History `json:"history"`
	Requests []c01Req   `json:"requests"`
	Brackets []string   `json:"event_brackets,omitempty"`
	Detail   string     `json:"detail,omitempty"`
}

func c01History1(c *vlib.Ctx, s *coresim.Sim, id int64, h c01History) bool {
	wfName := fmt.Sprintf("c01w%d", h.Index)
	ev0 := len(s.Events())
	pl0 := len(s.PluginRecords())
	ml0 := s.Master.LogLen()
	api := 120 * time.Second
	ctx, cancel := coresim.Ctx(api)
	nr, err := s.Client.NewEnvironment(ctx, &pb.NewEnvironmentRequest{WorkflowTemplate: wfName, Vars: map[string]string{}})
	cancel()
	if err != nil {
		c.Inconclusive(fmt.Sprintf("history %d: fault-free creation failed: %s", h.Index, truncate(grpcMsg(err), 300)))
		return !strings.Contains(grpcMsg(err), "DeadlineExceeded")
	}
	envID := nr.GetEnvironment().GetId()
	var mu sync.Mutex
	var reqs []c01Req
	var wg sync.WaitGroup
	hung := false
	for cl := 0; cl < h.Clients; cl++ {
		wg.Add(1)
		go func(cl int) {
			defer wg.Done()
			for _, op := range h.Ops[cl] {
				rq := c01Req{Client: cl, Op: op, SeqCall: vlib.Seq()}
				ctx, cancel := coresim.Ctx(api)
				if strings.HasPrefix(op, "DESTROY") {
					_, err := s.Client.DestroyEnvironment(ctx, &pb.DestroyEnvironmentRequest{Id: envID, Force: op == "DESTROY-FORCE", AllowInRunningState: false})
					rq.Err = grpcMsg(err)
				} else {
					r, err := s.Client.ControlEnvironment(ctx, &pb.ControlEnvironmentRequest{Id: envID, Type: pb.ControlEnvironmentRequest_Optype(pb.ControlEnvironmentRequest_Optype_value[op])})
					rq.Err = grpcMsg(err)
					rq.State = r.GetState()
					rq.Rejected = strings.Contains(rq.Err, "inappropriate in current state") || strings.Contains(rq.Err, "inappropriate")
				}
				cancel()
				rq.SeqRet = vlib.Seq()
				mu.Lock()
				reqs = append(reqs, rq)
				if strings.Contains(rq.Err, "DeadlineExceeded") {
					hung = true
				}
				mu.Unlock()
				c.Count("api_requests", 1)
			}
		}(cl)
	}
	wg.Wait()
	sort.Slice(reqs, func(i, j int) bool { return reqs[i].SeqCall < reqs[j].SeqCall })
	w := &c01Witness{History: h, Requests: reqs}
	cls := fmt.Sprintf("clients=%d", h.Clients)
	fail := func(rule, class, what string) {
		w.Detail = what
		c.Violation(rule, class, fmt.Sprintf("%s [history %d, %d clients]", what, h.Index, h.Clients), id, w)
	}
	if hung {
		waitQuiet(s, 2*time.Second, 6*time.Second)
		w.Detail = truncate(s.DumpGoroutines(), 5000)
		fail("HANG", cls, "an API request did not return within "+api.String())
		return false
	}
	waitQuiet(s, 300*time.Millisecond, 10*time.Second)
	finalState, ferr := envState(s, envID)
	if ferr != nil {
		finalState = "GONE"
	}
	c.Nontrivial(vlib.Hash("c01", h.Clients, len(reqs), finalState, h.Delay))

	// ---- event stream of this environment ----
	type tev struct {
		seq int64
		e   envEvent
	}
	var evs []tev
	all := s.Events()
	for i := ev0; i < len(all); i++ {
		if !strings.HasSuffix(all[i].Type, "Ev_EnvironmentEvent") {
			continue
		}
		var e envEvent
		if json.Unmarshal(all[i].Ev, &e) == nil && e.EnvironmentId == envID {
			evs = append(evs, tev{all[i].Seq, e})
		}
	}
	c.Count("environment_events", int64(len(evs)))
	// (1) graph: consecutive distinct states must be an allowed edge; DONE is absorbing
	prev := ""
	for _, te := range evs {
		st := te.e.State
		if st == "" || st == "PENDING" {
			continue
		}
		if prev != "" && st != prev {
			ok := false
			if prev == "DONE" {
				ok = false
			} else if st == "DONE" || st == "ERROR" {
				ok = true
			} else {
				for _, dst := range c01Legal[prev] {
					if dst == st {
						ok = true
					}
				}
			}
			if !ok {
				fail("GRAPH", prev+"->"+st, fmt.Sprintf("published state went from %s to %s (transition %q step %q)", prev, st, te.e.Transition, te.e.TransitionStep))
				break
			}
			c.Count("state_changes_observed", 1)
		}
		prev = st
	}
	// (5) one at a time: TryTransition brackets and the teardown bracket never interleave, and
	// each bracket starts in the state the previous one ended in
	open := ""
	lastEndState := ""
	var brackets []string
	for _, te := range evs {
		e := te.e
		switch {
		case e.Message == "transition starting":
			if open != "" {
				w.Brackets = brackets
				fail("OVERLAP", "transition-in-"+strings.SplitN(open, "@", 2)[0], fmt.Sprintf("transition %s started while %s was in progress", e.Transition, open))
			}
			if lastEndState != "" && e.State != lastEndState && lastEndState != "DONE" {
				fail("STALE-STATE", "start="+e.State+",previous-end="+lastEndState, fmt.Sprintf("transition %s started in state %s but the previous operation left %s", e.Transition, e.State, lastEndState))
			}
			open = e.Transition + "@" + e.State
			brackets = append(brackets, "start:"+open)
			// (2) a request that is not legal in this state must not execute
		case e.Message == "transition completed successfully" || e.Message == "transition error" || e.Message == "transition impossible":
			brackets = append(brackets, "end:"+e.Transition+"@"+e.State)
			if open == "" {
				fail("OVERLAP", "end-without-start", "transition end event without a matching start")
			}
			open = ""
			lastEndState = e.State
			c.Count("transition_brackets", 1)
		case e.Transition == "DESTROY" && e.TransitionStep == "before_DESTROY":
			if open != "" {
				w.Brackets = brackets
				fail("OVERLAP", "teardown-in-"+strings.SplitN(open, "@", 2)[0], fmt.Sprintf("teardown started while transition %s was in progress", open))
			}
			open = "DESTROY@" + e.State
			brackets = append(brackets, "start:"+open)
		case e.Transition == "DESTROY" && e.TransitionStep == "after_DESTROY" && strings.HasPrefix(e.Message, "environment teardown"):
			brackets = append(brackets, "end:DESTROY@"+e.State)
			open = ""
			lastEndState = e.State
			c.Count("teardown_brackets", 1)
		}
	}
	// (2) hooks of a request that is illegal in the state it meets never run
	var probes int
	for _, r := range s.PluginRecords()[pl0:] {
		if r.Env != envID || r.Phase != "start" {
			continue
		}
		probes++
		trig := r.Trigger
		if strings.HasPrefix(trig, "before_") {
			ev := strings.TrimPrefix(trig, "before_")
			if _, ok := c01Legal[r.State][ev]; !ok && r.State != "" {
				fail("ILLEGAL-EXECUTED", ev+"-in-"+r.State, fmt.Sprintf("hook %s ran while the environment was in %s, where %s is not legal", trig, r.State, ev))
			}
		}
		if strings.HasPrefix(trig, "leave_") && r.CurTrans != "" && r.CurTrans != "DESTROY" {
			st := strings.TrimPrefix(trig, "leave_")
			if _, ok := c01Legal[st][r.CurTrans]; !ok {
				fail("ILLEGAL-EXECUTED", r.CurTrans+"-in-"+st, fmt.Sprintf("hook %s ran for transition %s, which is not legal in %s", trig, r.CurTrans, st))
			}
		}
	}
	c.Count("probe_records", int64(probes))
	// counting form: per event, hooks and task commands happen exactly once per request that was
	// not rejected (executors and hooks are fault-free here)
	accepted := map[string]int{}
	rejected := 0
	firstFail := int64(0)
	for _, rq := range reqs {
		if strings.HasPrefix(rq.Op, "DESTROY") {
			continue
		}
		if rq.Err == "" {
			accepted[rq.Op]++
		} else {
			rejected++
			if firstFail == 0 {
				firstFail = rq.SeqRet
			}
		}
	}
	c.Count("requests_rejected", int64(rejected))
	for ev, tev := range c01TaskEvent {
		ids := map[string]bool{}
		for _, rec := range s.Master.Log()[ml0:] {
			if rec.Kind == "call" && rec.Type == "MESSAGE" && rec.F["env"] == envID && rec.F["event"] == tev {
				ids[fmt.Sprint(rec.F["id"])] = true
			}
		}
		n := len(ids)
		want := accepted[ev]
		if ev == "CONFIGURE" {
			want++ // the one inside NewEnvironment
		}
		// teardown may itself issue RESET/STOP through the API handler (DestroyEnvironment), so
		// only an excess beyond accepted requests + destroy requests is judged
		destroys := 0
		for _, rq := range reqs {
			if strings.HasPrefix(rq.Op, "DESTROY") {
				destroys++
			}
		}
		if n > want+destroys {
			fail("ILLEGAL-EXECUTED", "commands-"+ev, fmt.Sprintf("%d distinct %s command rounds reached the executors but only %d %s requests were accepted (+%d destroys)", n, tev, want, ev, destroys))
		}
		if n < accepted[ev] {
			fail("ACCEPTED-NOT-EXECUTED", "commands-"+ev, fmt.Sprintf("%d %s requests returned success but only %d command rounds reached the executors", accepted[ev], ev, n))
		}
	}
	// (3) a failed request through the API leaves the environment in ERROR (until it is torn down)
	if rejected > 0 {
		c.Count("histories_with_rejections", 1)
		if finalState != "ERROR" && finalState != "GONE" && finalState != "DONE" {
			fail("NOT-ERROR", "final="+finalState, fmt.Sprintf("%d request(s) failed but the environment ends in %s", rejected, finalState))
		}
		for _, rq := range reqs {
			if !strings.HasPrefix(rq.Op, "DESTROY") && rq.SeqCall > firstFail && rq.Err == "" {
				fail("NOT-ERROR", "accepted-after-failure", fmt.Sprintf("request %s was accepted although an earlier request had already failed and left the environment in ERROR", rq.Op))
				break
			}
		}
	}
	// (4) DONE is terminal
	destroyed := false
	for _, rq := range reqs {
		if strings.HasPrefix(rq.Op, "DESTROY") && rq.Err == "" {
			destroyed = true
		}
	}
	if destroyed {
		c.Count("histories_destroyed", 1)
		if finalState != "GONE" {
			fail("DONE-NOT-TERMINAL", "final="+finalState, "a destroy returned OK but the environment is still there in state "+finalState)
		}
	} else if finalState != "GONE" {
		ctx, cancel := coresim.Ctx(60 * time.Second)
		s.Client.DestroyEnvironment(ctx, &pb.DestroyEnvironmentRequest{Id: envID, Force: true})
		cancel()
	}
	if h.Clients > 1 {
		c.Count("concurrent_histories", 1)
		c.Interleaving(vlib.Hash(brackets))
	}
	return true
}
